import KonstVerif.Model.Trace
import KonstVerif.Spec.OptRes
/-
  C19 — how Rust evaluates the std counterparts: a method call `recv.method(arg)` / a function call `f(a, b, c)`
  evaluates the receiver, then every argument expression, left to right, each exactly once, and then runs the
  function body; the body calls a closure argument when the std documentation says so.
  Written independently of the model (only the log monad `Trace.Tr` is shared).
-/
namespace Konst.Spec.OptResEval
open Konst.Trace

variable {α β ε φ κ σ γ ψ : Type}

/-- `recv.method(arg)` -/
def call2 (recv : Tr σ) (arg : Tr ψ) (method : σ → ψ → Tr γ) : Tr γ := do
  let s ← recv
  let a ← arg
  method s a

/-- `recv.method()` / `f(arg)` -/
def call1 (recv : Tr σ) (method : σ → Tr γ) : Tr γ := do
  let s ← recv
  method s

/-- `f(a, b, c)` -/
def call3 (a : Tr σ) (b : Tr ψ) (c : Tr φ) (body : σ → ψ → φ → Tr γ) : Tr γ := do
  let x ← a
  let y ← b
  let z ← c
  body x y z

/-! std's method bodies with a closure argument that may log -/

def unwrapOrElseM (o : Option α) (f : Unit → Tr α) : Tr α :=
  match o with | some x => pure x | none => f ()
def okOrElseM (o : Option α) (f : Unit → Tr ε) : Tr (Except ε α) :=
  match o with | some x => pure (.ok x) | none => do let e ← f (); pure (.error e)
def mapM (o : Option α) (f : α → Tr β) : Tr (Option β) :=
  match o with | some x => do let y ← f x; pure (some y) | none => pure none
def andThenM (o : Option α) (f : α → Tr (Option β)) : Tr (Option β) :=
  match o with | some x => f x | none => pure none
def orElseM (o : Option α) (f : Unit → Tr (Option α)) : Tr (Option α) :=
  match o with | some x => pure (some x) | none => f ()
def filterM (o : Option α) (p : α → Tr Bool) : Tr (Option α) :=
  match o with | some x => do let k ← p x; pure (if k then some x else none) | none => pure none

def resUnwrapOrElseM (r : Except ε α) (f : ε → Tr α) : Tr α :=
  match r with | .ok x => pure x | .error e => f e
def resUnwrapErrOrElseM (r : Except ε α) (f : α → Tr ε) : Tr ε :=
  match r with | .ok x => f x | .error e => pure e
def resMapM (r : Except ε α) (f : α → Tr β) : Tr (Except ε β) :=
  match r with | .ok x => do let y ← f x; pure (.ok y) | .error e => pure (.error e)
def resMapErrM (r : Except ε α) (f : ε → Tr φ) : Tr (Except φ α) :=
  match r with | .ok x => pure (.ok x) | .error e => do let y ← f e; pure (.error y)
def resAndThenM (r : Except ε α) (f : α → Tr (Except ε β)) : Tr (Except ε β) :=
  match r with | .ok x => f x | .error e => pure (.error e)
def resOrElseM (r : Except ε α) (f : ε → Tr (Except φ α)) : Tr (Except φ α) :=
  match r with | .ok x => pure (.ok x) | .error e => f e

/-- `std::cmp::min_by(v1, v2, compare)` / `max_by` with a comparator that may log (called once) -/
def minByM (v1 v2 : α) (compare : α → α → Tr Ordering) : Tr α := do
  let c ← compare v1 v2
  pure (match c with | .lt | .eq => v1 | .gt => v2)
def maxByM (v1 v2 : α) (compare : α → α → Tr Ordering) : Tr α := do
  let c ← compare v1 v2
  pure (match c with | .lt | .eq => v2 | .gt => v1)

/-- `std::cmp::min_by_key(v1, v2, f)`: the key function is applied once to each argument; the ORDER of the two
    applications is not documented (it changed between std releases) — here `v1` first -/
def minByKeyM (cmpK : κ → κ → Ordering) (v1 v2 : α) (f : α → Tr κ) : Tr α := do
  let k1 ← f v1
  let k2 ← f v2
  pure (match cmpK k1 k2 with | .lt | .eq => v1 | .gt => v2)
def maxByKeyM (cmpK : κ → κ → Ordering) (v1 v2 : α) (f : α → Tr κ) : Tr α := do
  let k1 ← f v1
  let k2 ← f v2
  pure (match cmpK k1 k2 with | .lt | .eq => v2 | .gt => v1)

end Konst.Spec.OptResEval
