/-
  Reference semantics of std slice indexing (independent of the model).
-/
namespace Konst.Spec

/-- `slice.get(a..b)` -/
def stdGetRange {α : Type} (s : List α) (a b : Nat) : Option (List α) :=
  if a ≤ b ∧ b ≤ s.length then some ((s.drop a).take (b - a)) else none
/-- `slice.get(a..)` -/
def stdGetFrom {α : Type} (s : List α) (a : Nat) : Option (List α) :=
  if a ≤ s.length then some (s.drop a) else none
/-- `slice.get(..b)` -/
def stdGetUpTo {α : Type} (s : List α) (b : Nat) : Option (List α) :=
  if b ≤ s.length then some (s.take b) else none
/-- `slice.get(i)` as a one-element list -/
def stdGet {α : Type} (s : List α) (i : Nat) : Option (List α) := (s[i]?).map fun x => [x]
/-- `slice.split_at_checked(at)` -/
def stdSplitAt {α : Type} (s : List α) (at_ : Nat) : Option (List α × List α) :=
  if at_ ≤ s.length then some (s.take at_, s.drop at_) else none

/-- `chunks_exact(n)` collected: the full-size chunks of `s` in order (n ≥ 1) -/
def chunksExact {α : Type} (n : Nat) (s : List α) : List (List α) :=
  if _h : n = 0 ∨ s.length < n then [] else s.take n :: chunksExact n (s.drop n)
termination_by s.length
decreasing_by simp only [List.length_drop]; omega

/-- `slice.as_chunks::<N>()` : (`[[T;N]]` part as a list of chunks, remainder) -/
def stdAsChunks {α : Type} (n : Nat) (s : List α) : List (List α) × List α :=
  (chunksExact n (s.take (s.length / n * n)), s.drop (s.length / n * n))
/-- `slice.as_rchunks::<N>()` : (remainder, chunks) -/
def stdAsRchunks {α : Type} (n : Nat) (s : List α) : List α × List (List α) :=
  (s.take (s.length % n), chunksExact n (s.drop (s.length % n)))

end Konst.Spec
