import KonstVerif.Model.Basic
import KonstVerif.Spec.Bytes
import KonstVerif.Spec.Utf8
/-
  Reference semantics of std's `str::split` family (and of konst's documented
  `rsplit_terminator`), on byte lists.  Independent of the model; core Lean only.
  A `&str`/`char` delimiter matches byte-wise (`Spec.Bytes.findSpec/rfindSpec` = `str::find/rfind`).
-/
namespace Konst.Spec.Split

open Konst.Spec.Bytes Konst.Spec.Utf8

/-- `str::split(d)` for a NON-EMPTY delimiter: cut at the first occurrence, continue after it; the
    text after the last occurrence is the last piece.  (`fuel` = an upper bound on the number of
    delimiters; `splitSpec` passes the length.) -/
def splitAux (d : List Nat) : Nat → List Nat → List (List Nat)
  | 0, s => [s]
  | fuel + 1, s =>
    match findSpec s d with
    | none => [s]
    | some i => s.take i :: splitAux d fuel (s.drop (i + d.length))

/-- `str::rsplit(d)` for a non-empty delimiter: cut at the LAST occurrence, continue before it
    (not the reverse of `split` when occurrences of the delimiter overlap) -/
def rsplitAux (d : List Nat) : Nat → List Nat → List (List Nat)
  | 0, s => [s]
  | fuel + 1, s =>
    match rfindSpec s d with
    | none => [s]
    | some i => s.drop (i + d.length) :: rsplitAux d fuel (s.take i)

/-- the characters of a string as byte strings (`[]` for bytes that are not valid UTF-8) -/
def charPieces (s : List Nat) : List (List Nat) := ((decodeAll s).getD []).map enc

/-- `str::split`: the empty delimiter matches at every char boundary, start and end included:
    `"" :: each char :: [""]` -/
def splitSpec (s d : List Nat) : List (List Nat) :=
  if d.isEmpty then [] :: charPieces s ++ [[]] else splitAux d s.length s

/-- `str::rsplit` -/
def rsplitSpec (s d : List Nat) : List (List Nat) :=
  if d.isEmpty then [] :: (charPieces s).reverse ++ [[]] else rsplitAux d s.length s

/-- drop the last piece if it is empty -/
def dropLastEmpty (l : List (List Nat)) : List (List Nat) :=
  if l.getLast? = some [] then l.dropLast else l

/-- `str::split_terminator`: as `split`, but a trailing empty piece is skipped -/
def splitTerminatorSpec (s d : List Nat) : List (List Nat) := dropLastEmpty (splitSpec s d)

/-- konst's documented `rsplit_terminator` ("the same as `rsplit`, except that, if the string before
    the first delimiter is empty, it is skipped"): `rsplit`'s pieces without a final empty piece
    (the final piece of `rsplit` is the text before the first delimiter; for the empty input
    `rsplit` yields `[""]`, so nothing is yielded — as std's `rsplit_terminator` does too).
    NB std's own `rsplit_terminator` is the reverse of `split_terminator` (skips the empty piece
    AFTER a trailing delimiter instead). -/
def rsplitTerminatorSpec (s d : List Nat) : List (List Nat) := dropLastEmpty (rsplitSpec s d)

/-! ### pieces and remainders by position

  a piece / remainder as (byte offset in the original string, bytes); the offset of an empty
  string is not observable and normalised to 0 -/

abbrev PStr := Nat × List Nat

def pnorm (x : PStr) : PStr := if x.2.isEmpty then (0, []) else x

/-- forward iteration over `cur` (which starts at offset `o` of the original string) yielding
    `pieces`: piece `k` starts where the remainder before it started; the remainder after it is
    what follows the piece and one delimiter (`dl` bytes) -/
def stepsFwd (dl : Nat) : Nat → List Nat → List (List Nat) → List (PStr × PStr)
  | _, _, [] => []
  | o, cur, p :: ps =>
    let k := p.length + dl
    (pnorm (o, p), pnorm (o + k, cur.drop k)) :: stepsFwd dl (o + k) (cur.drop k) ps

/-- backward iteration: piece `k` ends where the remainder before it ended; the remainder after it
    is what precedes the piece and one delimiter -/
def stepsBwd (dl : Nat) (o : Nat) : List Nat → List (List Nat) → List (PStr × PStr)
  | _, [] => []
  | cur, p :: ps =>
    let r := cur.take (cur.length - (p.length + dl))
    (pnorm (o + (cur.length - p.length), p), pnorm (o, r)) :: stepsBwd dl o r ps

/-- `d` has a border: a proper non-empty prefix of `d` is also a suffix of `d` (then two occurrences
    of `d` can overlap, e.g. `aa`, `aba`; never the case for the encoding of one `char`) -/
def hasBorder (d : List Nat) : Bool :=
  (List.range d.length).any fun k => k != 0 && d.take k == d.drop (d.length - k)

/-- bytes used up after piece `k`: the first `k + 1` pieces and one delimiter (`dl` bytes) each -/
def consumed (dl : Nat) (ps : List (List Nat)) (k : Nat) : Nat :=
  ((ps.take (k + 1)).map (fun p => p.length + dl)).sum

/-- a front/back history on the double-ended deque of `pieces` of `cur` (valid when occurrences of
    the delimiter cannot overlap, e.g. a `char` delimiter): a front step takes the first piece and
    the delimiter after it off `cur`, a back step the last piece and the delimiter before it;
    `None` (and an unchanged remainder) once no piece is left -/
def histSpec (dl : Nat) : Nat → List Nat → List (List Nat) → List Konst.Dir → List (Option PStr × PStr)
  | _, _, _, [] => []
  | o, cur, [], _ :: h => (none, pnorm (o, cur)) :: histSpec dl o cur [] h
  | o, cur, p :: ps, .f :: h =>
    let k := p.length + dl
    (some (pnorm (o, p)), pnorm (o + k, cur.drop k)) :: histSpec dl (o + k) (cur.drop k) ps h
  | o, cur, p :: ps, .b :: h =>
    let q := (p :: ps).getLast (by simp)
    let r := cur.take (cur.length - (q.length + dl))
    (some (pnorm (o + (cur.length - q.length), q)), pnorm (o, r)) :: histSpec dl o r (p :: ps).dropLast h

end Konst.Spec.Split
