/-
  C19 — reference semantics of the std counterparts, written independently of the model.
  Import-free.  Values are given by Lean's own `Option`/`Except` combinators; next to each value
  stands the number of times std calls the closure argument ("exactly when ...", from the std docs:
  `unwrap_or_else`/`or_else`/`ok_or_else` call it iff the receiver is `None`/`Err`; `map`/`and_then`/
  `filter` iff it is `Some`/`Ok`; arguments of `unwrap_or`/`ok_or` are "eagerly evaluated", i.e. once,
  before the call).
-/
namespace Konst.Spec.OptRes

variable {α β ε φ : Type}

def b2n (b : Bool) : Nat := if b then 1 else 0

/-! ## Option -/

/-- `Option::unwrap`: `none` here stands for the panic -/
def optUnwrap (o : Option α) : Option α := o

/-- `Option::unwrap_or(v)` with `v` the value of the (already evaluated) argument -/
def optUnwrapOr (o : Option α) (v : α) : α := o.getD v

/-- `Option::unwrap_or_else(f)`: (value, calls of `f`) -/
def optUnwrapOrElse (o : Option α) (f : Unit → α) : α × Nat := (o.getD (f ()), b2n o.isNone)

/-- `Option::ok_or(e)` -/
def optOkOr (o : Option α) (e : ε) : Except ε α :=
  match o with
  | some x => .ok x
  | none => .error e

/-- `Option::ok_or_else(f)` -/
def optOkOrElse (o : Option α) (f : Unit → ε) : Except ε α × Nat := (optOkOr o (f ()), b2n o.isNone)

/-- `Option::map(f)` -/
def optMap (o : Option α) (f : α → β) : Option β × Nat := (o.map f, b2n o.isSome)

/-- `Option::and_then(f)` -/
def optAndThen (o : Option α) (f : α → Option β) : Option β × Nat := (o.bind f, b2n o.isSome)

/-- `Option::flatten` -/
def optFlatten (o : Option (Option α)) : Option α := o.join

/-- `Option::or_else(f)` -/
def optOrElse (o : Option α) (f : Unit → Option α) : Option α × Nat := (o.orElse f, b2n o.isNone)

/-- `Option::filter(p)` -/
def optFilter (o : Option α) (p : α → Bool) : Option α × Nat := (o.filter p, b2n o.isSome)

/-- `Option::copied` (a reference is modelled by its referent) -/
def optCopied (o : Option α) : Option α := o

/-! ## Result -/

def isOk (r : Except ε α) : Bool := r.toOption.isSome
def isErr (r : Except ε α) : Bool := r.toOption.isNone

/-- `Result::unwrap_or(v)` -/
def resUnwrapOr (r : Except ε α) (v : α) : α := r.toOption.getD v

/-- `Result::unwrap_or_else(f)` -/
def resUnwrapOrElse (r : Except ε α) (f : ε → α) : α × Nat :=
  (match r with | .ok x => x | .error e => f e, b2n (isErr r))

/-- documented behaviour of `unwrap_err_or_else!` (std has no such method): "returns the error in
    the `Err` variant, otherwise runs a closure/function with the value in the `Ok` variant" -/
def resUnwrapErrOrElse (r : Except ε α) (f : α → ε) : ε × Nat :=
  (match r with | .error e => e | .ok x => f x, b2n (isOk r))

/-- `Result::ok` -/
def resOk (r : Except ε α) : Option α := r.toOption

/-- `Result::err` -/
def resErr (r : Except ε α) : Option ε :=
  match r with
  | .error e => some e
  | .ok _ => none

/-- `Result::map(f)` -/
def resMap (r : Except ε α) (f : α → β) : Except ε β × Nat := (Except.map f r, b2n (isOk r))

/-- `Result::map_err(f)` -/
def resMapErr (r : Except ε α) (f : ε → φ) : Except φ α × Nat := (Except.mapError f r, b2n (isErr r))

/-- `Result::and_then(f)` -/
def resAndThen (r : Except ε α) (f : α → Except ε β) : Except ε β × Nat := (Except.bind r f, b2n (isOk r))

/-- `Result::or_else(f)` (may change the error type) -/
def resOrElse (r : Except ε α) (f : ε → Except φ α) : Except φ α × Nat :=
  (match r with | .error e => f e | .ok x => .ok x, b2n (isErr r))

/-! ## `?` -/

/-- `let v = r?; k v` in a function returning `Result<_, E>` (same error type: `From` is the identity) -/
def questionRes (r : Except ε α) (k : α → Except ε β) : Except ε β := r >>= k

/-- `let v = r.map_err(f)?; k v`: (result, calls of `f`) -/
def questionMapErr (r : Except ε α) (f : ε → φ) (k : α → Except φ β) : Except φ β × Nat :=
  (Except.mapError f r >>= k, b2n (isErr r))

/-- `let v = o?; k v` in a function returning `Option<_>` -/
def questionOpt (o : Option α) (k : α → Option β) : Option β := o >>= k

/-! ## destructuring `Ok(tuple)` by hand -/

/-- what `let (a0, .., a_{k-1}) = payload;` followed by one assignment per listed target does:
    target `i` receives component `i` (a single target receives the whole payload) -/
def destructure {τ ν : Type} (whole : List Int → ν) (scalar : Int → ν) (targets : List τ) (vs : List Int) :
    List (τ × ν) :=
  match targets with
  | [t] => [(t, whole vs)]
  | ts => ts.zip (vs.map scalar)

/-- the statement sequence `p0 = t.0; p1 = t.1; …`, first component first: each assignment acts on
    the store the previous ones left (`assign s target value` = the store after `target = value`, the
    place expression `target` being evaluated in `s`) -/
def assignInOrder {σ τ ν : Type} (assign : σ → τ → ν → σ) (scalar : Int → ν) : σ → List τ → List Int → σ
  | s, t :: ts, v :: vs => assignInOrder assign scalar (assign s t (scalar v)) ts vs
  | s, _, _ => s

/-- `let (a0, .., a_{k-1}) = payload; p0 = a0; p1 = a1; …` (a single target: `p0 = payload;`) as a
    store transformer -/
def assignSeq {σ τ ν : Type} (assign : σ → τ → ν → σ) (whole : List Int → ν) (scalar : Int → ν)
    (s : σ) (targets : List τ) (vs : List Int) : σ :=
  match targets with
  | [t] => assign s t (whole vs)
  | ts => assignInOrder assign scalar s ts vs

/-! ## std::cmp -/

/-- `std::cmp::min_by(v1, v2, compare)`: "returns the first argument if the comparison determines
    them to be equal" -/
def minBy (compare : α → α → Ordering) (v1 v2 : α) : α :=
  match compare v1 v2 with
  | .lt | .eq => v1
  | .gt => v2

/-- `std::cmp::max_by(v1, v2, compare)`: "returns the second argument if the comparison determines
    them to be equal" -/
def maxBy (compare : α → α → Ordering) (v1 v2 : α) : α :=
  match compare v1 v2 with
  | .lt | .eq => v2
  | .gt => v1

/-- `std::cmp::min(v1, v2)` = `v1.min(v2)` = `min_by(v1, v2, Ord::cmp)` -/
def min (cmp : α → α → Ordering) (v1 v2 : α) : α := minBy cmp v1 v2
def max (cmp : α → α → Ordering) (v1 v2 : α) : α := maxBy cmp v1 v2

/-- `std::cmp::min_by_key(v1, v2, f)` = `min_by(v1, v2, |a, b| f(a).cmp(&f(b)))` -/
def minByKey {κ : Type} (f : α → κ) (cmpK : κ → κ → Ordering) (v1 v2 : α) : α :=
  minBy (fun a b => cmpK (f a) (f b)) v1 v2

/-- `std::cmp::max_by_key(v1, v2, f)` = `max_by(v1, v2, |a, b| f(a).cmp(&f(b)))` -/
def maxByKey {κ : Type} (f : α → κ) (cmpK : κ → κ → Ordering) (v1 v2 : α) : α :=
  maxBy (fun a b => cmpK (f a) (f b)) v1 v2

end Konst.Spec.OptRes
