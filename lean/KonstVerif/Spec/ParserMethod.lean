/-
  Reference semantics of `parser_method!` as the property states it, on byte lists:
   * strip forms: the first listed alternative that is a prefix (suffix);
   * find forms: the earliest (latest) position at which any alternative matches, and among the
     alternatives matching there the first listed;
   * trim forms: repeatedly remove the first listed alternative that matches until none (or an
     empty literal) does.
  Independent of the model.
-/
namespace Konst.PM.Spec

abbrev Arms := List (Nat × List Nat)

/-- first listed alternative that is a prefix of `bytes` -/
def firstPrefix (arms : Arms) (bytes : List Nat) : Option (Nat × List Nat) :=
  arms.find? fun a => a.2.isPrefixOf bytes

def firstSuffix (arms : Arms) (bytes : List Nat) : Option (Nat × List Nat) :=
  arms.find? fun a => a.2.isSuffixOf bytes

/-- strip_prefix form: (branch, remainder) -/
def stripPrefixSpec (arms : Arms) (bytes : List Nat) : Option (Nat × List Nat) :=
  (firstPrefix arms bytes).map fun a => (a.1, bytes.drop a.2.length)

def stripSuffixSpec (arms : Arms) (bytes : List Nat) : Option (Nat × List Nat) :=
  (firstSuffix arms bytes).map fun a => (a.1, bytes.take (bytes.length - a.2.length))

/-- find_skip form: scan positions 0, 1, …, len in order -/
def findFrom (arms : Arms) (bytes : List Nat) : List Nat → Option (Nat × List Nat)
  | [] => none
  | p :: ps =>
    match firstPrefix arms (bytes.drop p) with
    | some a => some (a.1, bytes.drop (p + a.2.length))
    | none => findFrom arms bytes ps

def findSkipSpec (arms : Arms) (bytes : List Nat) : Option (Nat × List Nat) :=
  findFrom arms bytes (List.range (bytes.length + 1))

/-- rfind_skip form: scan end positions len, len-1, …, 0 -/
def rfindFrom (arms : Arms) (bytes : List Nat) : List Nat → Option (Nat × List Nat)
  | [] => none
  | e :: es =>
    match firstSuffix arms (bytes.take e) with
    | some a => some (a.1, bytes.take (e - a.2.length))
    | none => rfindFrom arms bytes es

def rfindSkipSpec (arms : Arms) (bytes : List Nat) : Option (Nat × List Nat) :=
  rfindFrom arms bytes (List.range (bytes.length + 1)).reverse

/-- trim_start_matches form -/
def trimStartSpec (arms : Arms) (bytes : List Nat) : List Nat :=
  match firstPrefix arms bytes with
  | none => bytes
  | some a =>
    if _hl : a.2.length = 0 ∨ bytes.length < a.2.length then bytes
    else trimStartSpec arms (bytes.drop a.2.length)
termination_by bytes.length
decreasing_by simp only [List.length_drop]; omega

def trimEndSpec (arms : Arms) (bytes : List Nat) : List Nat :=
  match firstSuffix arms bytes with
  | none => bytes
  | some a =>
    if _hl : a.2.length = 0 ∨ bytes.length < a.2.length then bytes
    else trimEndSpec arms (bytes.take (bytes.length - a.2.length))
termination_by bytes.length
decreasing_by simp only [List.length_take]; omega

end Konst.PM.Spec
