import KonstVerif.Model.IterDsl
/-
  Reference semantics of the *same* method chain on std iterators, as list functions
  (imports the model only for the syntax: `Val`, `Ad`, `Cons`, `Res`).
-/
namespace Konst.Iter.Spec
open Konst.Iter

/-- `enumerate()` -/
def enumFrom (i : Nat) : List Val → List Val
  | [] => []
  | x :: xs => .pair (.n i) x :: enumFrom (i + 1) xs

/-- `zip(other)` -/
def zipVals : List Val → List Val → List Val
  | x :: xs, y :: ys => .pair x y :: zipVals xs ys
  | _, _ => []

/-- one adapter of std's `Iterator` as a list function -/
def applyAd : Ad → List Val → List Val
  | .copied, xs => xs
  | .enumerate, xs => enumFrom 0 xs
  | .filter p, xs => xs.filter p
  | .filterMap f, xs => xs.filterMap f
  | .flatMap f, xs => xs.flatMap f
  | .flatten, xs => xs.flatMap unseq
  | .map f, xs => xs.map f
  | .rev, xs => xs.reverse
  | .skip k, xs => xs.drop k
  | .skipWhile p, xs => xs.dropWhile p
  | .take k, xs => xs.take k
  | .takeWhile p, xs => xs.takeWhile p
  | .zip other, xs => zipVals xs other

/-- the items the std adapter chain yields -/
def stdEval : List Ad → List Val → List Val
  | [], xs => xs
  | a :: r, xs => stdEval r (applyAd a xs)

/-- std's consumer methods on the yielded items (`rposition` as std defines it: index from the front
    of the last match; konst documents that it counts from the back — see `konstRposition`) -/
def stdConsume : Cons → List Val → Res
  | .forEach, l => .items l
  | .collect, l => .items l
  | .all p, l => .bool (l.all p)
  | .any p, l => .bool (l.any p)
  | .count, l => .nat l.length
  | .find p, l => .opt (l.find? p)
  | .findMap f, l => .opt (l.findSome? f)
  | .rfind p, l => .opt (l.reverse.find? p)
  | .fold i f, l => .val (l.foldl f i)
  | .rfold i f, l => .val (l.reverse.foldl f i)
  | .next, l => .opt l.head?
  | .nth k, l => .opt l[k]?
  | .position p, l => .onat (l.findIdx? p)
  | .rposition p, l => .onat ((l.reverse.findIdx? p).map fun i => l.length - 1 - i)

/-- the documented exception: konst's `rposition` counts from the back -/
def docConsume : Cons → List Val → Res
  | .rposition p, l => .onat (l.reverse.findIdx? p)
  | c, l => stdConsume c l

/-- `iter.chain().consumer()` on std iterators -/
def stdResult (c : List Ad) (cons : Cons) (src : List Val) : Res := stdConsume cons (stdEval c src)

/-- the same with konst's documented `rposition` convention -/
def docResult (c : List Ad) (cons : Cons) (src : List Val) : Res := docConsume cons (stdEval c src)

/-! ### closure calls of the std chain

std's adapters are lazy: nothing happens until the consumer asks for the next item, and asking an
adapter for its next item makes it ask the adapter before it as often as it needs.  A stream is
therefore described by the list of EVENTS that happen when it is drained: `call (pos, arg)` = the
closure of method `pos` is called on `arg`, `item v` = the stream hands `v` to whoever asked.  Asking
for the next item makes the events up to and including the next `item` happen (all remaining ones if
there is none); a consumer that stops asking cuts the list right there.  An adapter maps the events
of the stream before it to its own: calls stay where they are, each `item` is replaced by what the
adapter does with it.  Only chains WITHOUT a reversing method are described (`stdCalls` answers
`none` otherwise). -/

inductive Ev where
  | call (c : Call)
  | item (v : Val)
deriving Repr, DecidableEq

/-- `map(f)` as method `pos` -/
def mapE (pos : Nat) (f : Val → Val) : List Ev → List Ev
  | [] => []
  | .call c :: r => .call c :: mapE pos f r
  | .item v :: r => .call (pos, v) :: .item (f v) :: mapE pos f r

/-- `filter(p)`: `find(&mut self.iter, p)` -/
def filterE (pos : Nat) (p : Val → Bool) : List Ev → List Ev
  | [] => []
  | .call c :: r => .call c :: filterE pos p r
  | .item v :: r => .call (pos, v) :: (if p v then .item v :: filterE pos p r else filterE pos p r)

def filterMapE (pos : Nat) (f : Val → Option Val) : List Ev → List Ev
  | [] => []
  | .call c :: r => .call c :: filterMapE pos f r
  | .item v :: r => .call (pos, v) :: (match f v with | some y => .item y :: filterMapE pos f r | none => filterMapE pos f r)

/-- `flat_map(f)`: `f` is called when the next outer item is needed, its items follow -/
def flatMapE (pos : Nat) (f : Val → List Val) : List Ev → List Ev
  | [] => []
  | .call c :: r => .call c :: flatMapE pos f r
  | .item v :: r => .call (pos, v) :: ((f v).map .item ++ flatMapE pos f r)

def flattenE : List Ev → List Ev
  | [] => []
  | .call c :: r => .call c :: flattenE r
  | .item v :: r => (unseq v).map .item ++ flattenE r

def enumE : Nat → List Ev → List Ev
  | _, [] => []
  | i, .call c :: r => .call c :: enumE i r
  | i, .item v :: r => .item (.pair (.n i) v) :: enumE (i + 1) r

/-- `take(k)`: once `k` items were handed out it answers `None` WITHOUT asking the stream before it -/
def takeE : Nat → List Ev → List Ev
  | 0, _ => []
  | _ + 1, [] => []
  | k + 1, .call c :: r => .call c :: takeE (k + 1) r
  | k + 1, .item v :: r => .item v :: takeE k r

/-- `skip(k)`: the first request is `nth(k)` on the stream before it -/
def skipE : Nat → List Ev → List Ev
  | _, [] => []
  | k, .call c :: r => .call c :: skipE k r
  | 0, .item v :: r => .item v :: skipE 0 r
  | k + 1, .item _ :: r => skipE k r

/-- `take_while(p)`: the first item that fails `p` ends the stream (flag set, nothing asked again) -/
def takeWhileE (pos : Nat) (p : Val → Bool) : List Ev → List Ev
  | [] => []
  | .call c :: r => .call c :: takeWhileE pos p r
  | .item v :: r => .call (pos, v) :: (if p v then .item v :: takeWhileE pos p r else [])

/-- `skip_while(p)`: `p` is called until it first answers `false`, and NEVER again (`s` = still
    skipping) -/
def skipWhileE (pos : Nat) (p : Val → Bool) : Bool → List Ev → List Ev
  | _, [] => []
  | s, .call c :: r => .call c :: skipWhileE pos p s r
  | false, .item v :: r => .item v :: skipWhileE pos p false r
  | true, .item v :: r => .call (pos, v) :: (if p v then skipWhileE pos p true r else .item v :: skipWhileE pos p false r)

/-- `zip(other)` (`other` yields its items without calls): `let x = self.a.next()?; let y =
    self.b.next()?;` — the item of the first stream is asked for first, so what it costs happens even
    when `other` turns out to be exhausted (std: "at most one time"; its `TrustedRandomAccess`
    shortcut does not ask at all — the oracle programs iterate a source that does not opt into it) -/
def zipE : List Val → List Ev → List Ev
  | _, [] => []
  | l, .call c :: r => .call c :: zipE l r
  | [], .item _ :: _ => []
  | y :: l, .item v :: r => .item (.pair v y) :: zipE l r

/-- one adapter as method `pos` (`rev` is outside the described fragment) -/
def applyAdE (pos : Nat) : Ad → List Ev → List Ev
  | .copied, e => e
  | .enumerate, e => enumE 0 e
  | .filter p, e => filterE pos p e
  | .filterMap f, e => filterMapE pos f e
  | .flatMap f, e => flatMapE pos f e
  | .flatten, e => flattenE e
  | .map f, e => mapE pos f e
  | .rev, e => e
  | .skip k, e => skipE k e
  | .skipWhile p, e => skipWhileE pos p true e
  | .take k, e => takeE k e
  | .takeWhile p, e => takeWhileE pos p e
  | .zip other, e => zipE other e

/-- the events of the adapter chain whose first method has position `pos` -/
def stdEvalE : Nat → List Ad → List Ev → List Ev
  | _, [], e => e
  | pos, a :: r, e => stdEvalE (pos + 1) r (applyAdE pos a e)

/-- the calls that happen when consumer `c` (method `pos`) drives a stream: every event up to the
    point where it stops asking, plus its own call after each item it receives.
    `fold(init, f)` over `x, rest…` is `fold(f(init, x), f)` over `rest…`; `nth(k+1)` drops one item
    and is `nth(k)`. -/
def consumeCalls (pos : Nat) : Cons → List Ev → Log
  | _, [] => []
  | c, .call e :: r => e :: consumeCalls pos c r
  | .forEach, .item v :: r => (pos, v) :: consumeCalls pos .forEach r
  | .collect, .item _ :: r => consumeCalls pos .collect r
  | .count, .item _ :: r => consumeCalls pos .count r
  | .all p, .item v :: r => (pos, v) :: (if p v then consumeCalls pos (.all p) r else [])
  | .any p, .item v :: r => (pos, v) :: (if p v then [] else consumeCalls pos (.any p) r)
  | .find p, .item v :: r => (pos, v) :: (if p v then [] else consumeCalls pos (.find p) r)
  | .rfind p, .item v :: r => (pos, v) :: (if p v then [] else consumeCalls pos (.rfind p) r)
  | .position p, .item v :: r => (pos, v) :: (if p v then [] else consumeCalls pos (.position p) r)
  | .rposition p, .item v :: r => (pos, v) :: (if p v then [] else consumeCalls pos (.rposition p) r)
  | .findMap f, .item v :: r => (pos, v) :: (if (f v).isSome then [] else consumeCalls pos (.findMap f) r)
  | .fold i f, .item v :: r => (pos, .pair i v) :: consumeCalls pos (.fold (f i v) f) r
  | .rfold i f, .item v :: r => (pos, .pair i v) :: consumeCalls pos (.rfold (f i v) f) r
  | .next, .item _ :: _ => []
  | .nth 0, .item _ :: _ => []
  | .nth (k + 1), .item _ :: r => consumeCalls pos (.nth k) r

def anyRev : List Ad → Bool
  | [] => false
  | .rev :: _ => true
  | _ :: r => anyRev r

/-- the closure calls of `src.iter().chain…().consumer(…)`, methods numbered from 0; `none` = a
    reversing method occurs (not described here) -/
def stdCalls (c : List Ad) (cons : Cons) (src : List Val) : Option Log :=
  if anyRev c || cons.isRev then none
  else some (consumeCalls c.length cons (stdEvalE 0 c (src.map .item)))

end Konst.Iter.Spec
