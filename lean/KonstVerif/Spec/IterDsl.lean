import KonstVerif.Model.IterDsl
/-
  Reference semantics of the *same* method chain on std iterators, as list functions
  (imports the model only for the syntax: `Val`, `Ad`, `Cons`, `Res`).
-/
namespace Konst.Iter.Spec
open Konst.Iter

/-- `enumerate()` -/
def enumFrom (i : Nat) : List Val → List Val
  | [] => []
  | x :: xs => .pair (.n i) x :: enumFrom (i + 1) xs

/-- `zip(other)` -/
def zipVals : List Val → List Val → List Val
  | x :: xs, y :: ys => .pair x y :: zipVals xs ys
  | _, _ => []

/-- one adapter of std's `Iterator` as a list function -/
def applyAd : Ad → List Val → List Val
  | .copied, xs => xs
  | .enumerate, xs => enumFrom 0 xs
  | .filter p, xs => xs.filter p
  | .filterMap f, xs => xs.filterMap f
  | .flatMap f, xs => xs.flatMap f
  | .flatten, xs => xs.flatMap unseq
  | .map f, xs => xs.map f
  | .rev, xs => xs.reverse
  | .skip k, xs => xs.drop k
  | .skipWhile p, xs => xs.dropWhile p
  | .take k, xs => xs.take k
  | .takeWhile p, xs => xs.takeWhile p
  | .zip other, xs => zipVals xs other

/-- the items the std adapter chain yields -/
def stdEval : List Ad → List Val → List Val
  | [], xs => xs
  | a :: r, xs => stdEval r (applyAd a xs)

/-- std's consumer methods on the yielded items (`rposition` as std defines it: index from the front
    of the last match; konst documents that it counts from the back — see `konstRposition`) -/
def stdConsume : Cons → List Val → Res
  | .forEach, l => .items l
  | .collect, l => .items l
  | .all p, l => .bool (l.all p)
  | .any p, l => .bool (l.any p)
  | .count, l => .nat l.length
  | .find p, l => .opt (l.find? p)
  | .findMap f, l => .opt (l.findSome? f)
  | .rfind p, l => .opt (l.reverse.find? p)
  | .fold i f, l => .val (l.foldl f i)
  | .rfold i f, l => .val (l.reverse.foldl f i)
  | .next, l => .opt l.head?
  | .nth k, l => .opt l[k]?
  | .position p, l => .onat (l.findIdx? p)
  | .rposition p, l => .onat ((l.reverse.findIdx? p).map fun i => l.length - 1 - i)

/-- the documented exception: konst's `rposition` counts from the back -/
def docConsume : Cons → List Val → Res
  | .rposition p, l => .onat (l.reverse.findIdx? p)
  | c, l => stdConsume c l

/-- `iter.chain().consumer()` on std iterators -/
def stdResult (c : List Ad) (cons : Cons) (src : List Val) : Res := stdConsume cons (stdEval c src)

/-- the same with konst's documented `rposition` convention -/
def docResult (c : List Ad) (cons : Cons) (src : List Val) : Res := docConsume cons (stdEval c src)

end Konst.Iter.Spec
