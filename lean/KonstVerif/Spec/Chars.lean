import KonstVerif.Model.Basic
import KonstVerif.Spec.Utf8
/-
  Reference semantics of std's `str::chars` / `str::char_indices` (independent of the model):
  a double-ended iterator over a finite sequence is a deque; `next` pops the front, `next_back`
  pops the back, an exhausted iterator keeps answering `None`; `as_str` is the encoding of what
  is left, located where the first remaining character starts.
-/
namespace Konst.Spec.Chars

open Konst Konst.Spec.Utf8

/-- `s.char_indices().collect()`: each char with the byte offset where it starts -/
def indexed : Nat → List Nat → List (Nat × Nat)
  | _, [] => []
  | off, c :: cs => (off, c) :: indexed (off + (enc c).length) cs

/-- a history on the deque: per step the item (or `None`) and the deque left afterwards -/
def dequeSteps {ι : Type} : List ι → List Dir → List (Option ι × List ι)
  | _, [] => []
  | [], _ :: h => (none, []) :: dequeSteps [] h
  | x :: xs, .f :: h => (some x, xs) :: dequeSteps xs h
  | x :: xs, .b :: h =>
    (some ((x :: xs).getLast (by simp)), (x :: xs).dropLast) :: dequeSteps ((x :: xs).dropLast) h

/-- bytes of `as_str()` when the `(offset, char)` items `q` are left -/
def remainingBytes (q : List (Nat × Nat)) : List Nat := encs (q.map (·.2))

end Konst.Spec.Chars
