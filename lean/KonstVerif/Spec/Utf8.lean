/-
  Reference description of UTF-8 (RFC 3629) shared by the string properties
  (C01, C03, C04–C07, C13, C14, C18).  Independent of the model: division/modulo form,
  no bit operations.  A `&str` is a byte list that is `Valid`.
-/
namespace Konst.Spec.Utf8

/-- Unicode scalar values: what a Rust `char` can hold -/
def isScalar (c : Nat) : Bool := c < 0xD800 || (0xE000 ≤ c && c < 0x110000)

/-- the UTF-8 encoding of a scalar value -/
def enc (c : Nat) : List Nat :=
  if c < 0x80 then [c]
  else if c < 0x800 then [0xC0 + c / 64, 0x80 + c % 64]
  else if c < 0x10000 then [0xE0 + c / 4096, 0x80 + c / 64 % 64, 0x80 + c % 64]
  else [0xF0 + c / 262144, 0x80 + c / 4096 % 64, 0x80 + c / 64 % 64, 0x80 + c % 64]

/-- `char::len_utf8` -/
def clen (c : Nat) : Nat :=
  if c < 0x80 then 1 else if c < 0x800 then 2 else if c < 0x10000 then 3 else 4

/-- the bytes of a string given as its list of chars -/
def encs (cs : List Nat) : List Nat := cs.flatMap enc

/-- a byte list is a `&str` -/
def Valid (s : List Nat) : Prop := ∃ cs : List Nat, (∀ c ∈ cs, isScalar c = true) ∧ s = encs cs

/-- continuation byte `10xxxxxx` -/
def isCont (b : Nat) : Bool := 0x80 ≤ b && b < 0xC0

/-- byte offset `i` is a character boundary of the string with chars `cs`
    (`str::is_char_boundary` for `i ≤ len`): a prefix sum of character lengths -/
def IsBoundary (cs : List Nat) (i : Nat) : Prop := ∃ k, i = (encs (cs.take k)).length

/-- executable form of `IsBoundary`: the list of all boundaries -/
def boundaries : List Nat → List Nat
  | [] => [0]
  | c :: cs => 0 :: (boundaries cs).map (· + (enc c).length)

/-- executable decoder used by the driver to obtain `cs` from valid bytes
    (`none` when the bytes are not valid UTF-8); fuel-free structural recursion on the byte list
    by peeling 1–4 bytes according to the lead byte -/
def decodeOne : List Nat → Option (Nat × List Nat)
  | [] => none
  | a :: r =>
    if a < 0x80 then some (a, r)
    else if a < 0xC0 then none
    else if a < 0xE0 then
      match r with
      | b :: r' => if isCont b then
          let c := (a - 0xC0) * 64 + (b - 0x80)
          if 0x80 ≤ c then some (c, r') else none else none
      | _ => none
    else if a < 0xF0 then
      match r with
      | b :: c :: r' => if isCont b && isCont c then
          let v := (a - 0xE0) * 4096 + (b - 0x80) * 64 + (c - 0x80)
          if 0x800 ≤ v && isScalar v then some (v, r') else none else none
      | _ => none
    else if a < 0xF8 then
      match r with
      | b :: c :: d :: r' => if isCont b && isCont c && isCont d then
          let v := (a - 0xF0) * 262144 + (b - 0x80) * 4096 + (c - 0x80) * 64 + (d - 0x80)
          if 0x10000 ≤ v && isScalar v then some (v, r') else none else none
      | _ => none
    else none

/-- decode a whole byte list (fuel = its length) -/
def decodeAll (s : List Nat) : Option (List Nat) :=
  let rec go : Nat → List Nat → List Nat → Option (List Nat)
    | _, [], acc => some acc.reverse
    | 0, _ :: _, _ => none
    | fuel + 1, s, acc =>
      match decodeOne s with
      | none => none
      | some (c, r) => go fuel r (c :: acc)
  go s.length s []

end Konst.Spec.Utf8
