/-
  Reference semantics for C12 (independent of the model; core Lean only).

  * `stdParseInt signed bits s`  — `s.parse::<T>()` of std for strings WITHOUT a leading '+'
    (`core::num::from_str_radix(_, 10)`): the string must be `-?[0-9]+` (the '-' only for signed
    types), its exact decimal value must lie in the range of the type.  (std additionally accepts a
    leading '+'; the property excludes those strings.)
  * `prefixParseInt signed bits s` — the documented behaviour of `Parser::parse_T`: an optional '-'
    (signed types only), then the LONGEST run of ASCII digits; the run must be non-empty and the
    exact value must lie in the range of the type; the result is the value and the unconsumed rest.
    `none` = failure (nothing is consumed).
  * `stdParseBool` — `s.parse::<bool>()`: exactly "true" or "false".
  An integer type is `(signed, bits)`.
-/
namespace Konst.Spec.ParseInt

/-- ASCII digit `'0'..='9'` -/
def isAsciiDigit (b : Nat) : Bool := decide (48 ≤ b ∧ b ≤ 57)

/-- exact decimal value of a string of ASCII digits (most significant first) -/
def decVal : List Nat → Nat
  | ds => ds.foldl (fun acc d => acc * 10 + (d - 48)) 0

/-- the range of the integer type -/
def inRange (signed : Bool) (bits : Nat) (v : Int) : Bool :=
  if signed then decide (-((2 ^ (bits - 1) : Nat) : Int) ≤ v ∧ v < ((2 ^ (bits - 1) : Nat) : Int))
  else decide (0 ≤ v ∧ v < ((2 ^ bits : Nat) : Int))

/-- does the string start with the sign this type accepts -/
def hasMinus (signed : Bool) (s : List Nat) : Bool := signed && s.head? == some 45

/-- `str::parse::<T>` on strings without a leading '+' -/
def stdParseInt (signed : Bool) (bits : Nat) (s : List Nat) : Option Int :=
  let neg := hasMinus signed s
  let digits := if neg then s.drop 1 else s
  let v : Int := if neg then -(decVal digits : Int) else (decVal digits : Int)
  if digits ≠ [] ∧ digits.all isAsciiDigit = true ∧ inRange signed bits v = true then some v else none

/-- documented prefix parse: (value, unconsumed rest) -/
def prefixParseInt (signed : Bool) (bits : Nat) (s : List Nat) : Option (Int × List Nat) :=
  let neg := hasMinus signed s
  let body := if neg then s.drop 1 else s
  let digits := body.takeWhile isAsciiDigit
  let rest := body.dropWhile isAsciiDigit
  let v : Int := if neg then -(decVal digits : Int) else (decVal digits : Int)
  if digits ≠ [] ∧ inRange signed bits v = true then some (v, rest) else none

def trueBytes : List Nat := [116, 114, 117, 101]
def falseBytes : List Nat := [102, 97, 108, 115, 101]

/-- `str::parse::<bool>` -/
def stdParseBool (s : List Nat) : Option Bool :=
  if s = trueBytes then some true else if s = falseBytes then some false else none

/-- documented prefix parse of a bool: the literal `true` / `false` at the start, rest unconsumed -/
def prefixParseBool (s : List Nat) : Option (Bool × List Nat) :=
  if trueBytes.isPrefixOf s then some (true, s.drop 4)
  else if falseBytes.isPrefixOf s then some (false, s.drop 5)
  else none

end Konst.Spec.ParseInt
