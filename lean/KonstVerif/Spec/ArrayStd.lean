import KonstVerif.Model.ArrayMacros
/-
  Reference semantics for C11/C15, written independently of the loops in Model/ (only the vocabulary
  `Outcome`/`Event` is shared):

    * `<[T; N]>::map`, `core::array::from_fn`, `Iterator::collect` into a sequence;
    * the array builder as a bounded vector: "the pushed values, in push order, at most N of them";
    * `core::array::IntoIter` (what `ArrayConsumer` is the const analogue of) as a deque;
    * the ownership-ledger law: every element is handed out or dropped exactly once, in order.
-/
namespace Konst.Spec.ArrayStd
open Konst.ArrayMacros (Outcome CCStop)
variable {α β : Type}

/-- `<[T; N]>::map(f)` -/
def stdMap (f : α → β) (xs : List α) : List β := xs.map f

/-- `core::array::from_fn::<_, N, _>(f)`: `f(0), f(1), …, f(N-1)` in this order -/
def stdFromFn (n : Nat) (f : Nat → β) : List β := (List.range n).map f

/-- the items a loop with an inlined body yields: `continue` skips one, `break` ends the stream;
    `return`/panic abort the evaluation -/
def yielded : List (Outcome β) → Except CCStop (List β)
  | [] => .ok []
  | .value v :: r => (yielded r).map (v :: ·)
  | .cont :: r => yielded r
  | .brk :: _ => .ok []
  | .ret :: _ => .error .typeError
  | .panic :: _ => .error .panic

/-- bounded vector of capacity `n`: push (`none` = rejected) -/
def bvPush (n : Nat) (l : List α) (v : α) : Option (List α) :=
  if l.length < n then some (l ++ [v]) else none

/-- bounded vector: unwrap into an array of exactly `n` elements (`none` = not full) -/
def bvBuild (n : Nat) (l : List α) : Option (List α) :=
  if l.length = n then some l else none

/-- the pushes a bounded vector of capacity `n` accepts out of a sequence of pushes -/
def bvAccepted (n : Nat) (pushes : List α) : List α := pushes.take n

/-- deque: take from the front -/
def dqNext : List α → Option (α × List α)
  | [] => none
  | x :: r => some (x, r)

/-- deque: take from the back -/
def dqNextBack (l : List α) : Option (α × List α) :=
  match l.getLast? with
  | none => none
  | some x => some (x, l.dropLast)

/-- the ledger law: the elements handed out from the front (in take order), those dropped at the end
    (in drop order) and those handed out from the back (in take order) partition the owned elements,
    each exactly once and in their original order -/
def ExactlyOnce (owned front dropped back : List α) : Prop :=
  front ++ dropped ++ back.reverse = owned

/-- cloning a sequence element by element with an element `Clone` that may panic (`none`): the copies
    made before the first panicking call, and whether a call panicked.  What std's containers do on such
    a panic: the partially built clone is dropped, i.e. exactly these copies, once each, and nothing else -/
def clonesUntilPanic (fresh : Nat → α → Option α) : Nat → List α → List α × Bool
  | _, [] => ([], false)
  | i, x :: r =>
    match fresh i x with
    | none => ([], true)
    | some v => (v :: (clonesUntilPanic fresh (i + 1) r).1, (clonesUntilPanic fresh (i + 1) r).2)

/-! ### histories on the reference objects (same operation / observation vocabulary as the models) -/
open Konst.ArrayBuilder (mapFrom)

/-- reference for "clone with an element `Clone` panicking on its `j`-th call, caught; a completed clone
    is dropped": `j` copies are made and dropped again if `j < len`, otherwise all `len` copies are made
    and dropped with the clone; the container itself is unchanged -/
def refClonePanic (fresh : Nat → α → α) (j : Nat) (l : List α) : List α × Bool :=
  if j < l.length then (mapFrom fresh 0 (l.take j), true) else (mapFrom fresh 0 l, false)

/-- one builder operation on the bounded vector -/
def bvStep (fresh : Nat → α → α) (n : Nat) (st : List α × Nat) :
    ArrayBuilder.Op α → (List α × Nat) × ArrayBuilder.Obs α
  | .push v =>
    match bvPush n st.1 v with
    | some l' => ((l', st.2 + 1), .pushed true)
    | none => ((st.1, st.2 + 1), .pushed false)
  | .clone => ((mapFrom (fun i => fresh (st.2 + i)) 0 st.1, st.2 + st.1.length), .cloned st.1)
  | .cloneDrop => ((st.1, st.2 + st.1.length), .cloned (mapFrom (fun i => fresh (st.2 + i)) 0 st.1))
  | .clonePanic j =>
    let r := refClonePanic (fun i => fresh (st.2 + i)) j st.1
    ((st.1, st.2 + r.1.length), if r.2 then .panicked r.1 else .cloned r.1)
  -- `a.clone_from(&b)` is documented as equivalent to `a = b.clone()`: the target becomes a clone of the
  -- source, its old content is dropped.  The second vector `t` holds the pushes it accepted.
  | .cloneFrom vs =>
    let t := bvAccepted n vs
    ((mapFrom (fun i => fresh (st.2 + vs.length + i)) 0 t, st.2 + vs.length + t.length),
      .clonedFrom (vs.drop n) st.1 t)
  | .cloneInto vs =>
    let t := bvAccepted n vs
    ((mapFrom (fun i => fresh (st.2 + vs.length + i)) 0 st.1, st.2 + vs.length + st.1.length),
      .clonedFrom (vs.drop n) t st.1)

def bvRun (fresh : Nat → α → α) (n : Nat) :
    List α × Nat → List (ArrayBuilder.Op α) → (List α × Nat) × List (ArrayBuilder.Obs α)
  | st, [] => (st, [])
  | st, op :: r =>
    let res := bvStep fresh n st op
    let rest := bvRun fresh n res.1 r
    (rest.1, res.2 :: rest.2)

/-- the values pushed into the builder a history ends with, starting from the pushes `acc`: a
    `clone_from` from a second builder restarts with the values pushed into THAT builder -/
def pushesFrom : List α → List (ArrayBuilder.Op α) → List α
  | acc, [] => acc
  | acc, .push v :: r => pushesFrom (acc ++ [v]) r
  | _, .cloneFrom vs :: r => pushesFrom vs r
  | acc, _ :: r => pushesFrom acc r

/-- the values pushed by a history (into the builder it ends with) -/
def pushes (ops : List (ArrayBuilder.Op α)) : List α := pushesFrom [] ops

/-- one consumer operation on the deque -/
def dqStep (fresh : Nat → α → α) (st : List α × Nat) :
    ArrayConsumer.Op → (List α × Nat) × ArrayConsumer.Obs α
  | .next =>
    match dqNext st.1 with
    | none => (st, .front none)
    | some (x, r) => ((r, st.2), .front (some x))
  | .nextBack =>
    match dqNextBack st.1 with
    | none => (st, .back none)
    | some (x, r) => ((r, st.2), .back (some x))
  | .clone => ((mapFrom (fun i => fresh (st.2 + i)) 0 st.1, st.2 + st.1.length), .cloned st.1)
  | .cloneDrop => ((st.1, st.2 + st.1.length), .cloned (mapFrom (fun i => fresh (st.2 + i)) 0 st.1))
  | .clonePanic j =>
    let r := refClonePanic (fun i => fresh (st.2 + i)) j st.1
    ((st.1, st.2 + r.1.length), if r.2 then .panicked r.1 else .cloned r.1)

def dqRun (fresh : Nat → α → α) :
    List α × Nat → List ArrayConsumer.Op → (List α × Nat) × List (ArrayConsumer.Obs α)
  | st, [] => (st, [])
  | st, op :: r =>
    let res := dqStep fresh st op
    let rest := dqRun fresh res.1 r
    (rest.1, res.2 :: rest.2)

/-- how a deque history ends (the reference for `ArrayConsumer.finish`) -/
def dqFinish (l : List α) : ArrayConsumer.End → ArrayConsumer.Final α
  | .drop => ⟨false, l, []⟩
  | .forget => ⟨false, [], l⟩
  | .assertEmpty => if l.isEmpty then ⟨false, [], []⟩ else ⟨true, l, []⟩

/-- elements handed out from the front / from the back by a history, in take order -/
def fronts : List (ArrayConsumer.Obs α) → List α
  | [] => []
  | .front (some v) :: r => v :: fronts r
  | _ :: r => fronts r

def backs : List (ArrayConsumer.Obs α) → List α
  | [] => []
  | .back (some v) :: r => v :: backs r
  | _ :: r => backs r

end Konst.Spec.ArrayStd
