import KonstVerif.Spec.Utf8
/-
  Reference semantics of std's string indexing (independent of the model).
  A string is given by its chars `cs` (scalar values); its bytes are `Utf8.encs cs`; the
  character boundaries are the prefix sums of the characters' encoded lengths.
-/
namespace Konst.Spec.Str

open Konst.Spec.Utf8

/-- `str::is_char_boundary(i)`: `i` is one of the prefix sums (so `i > len` is `false`) -/
def stdIsCharBoundary (cs : List Nat) (i : Nat) : Bool := (boundaries cs).contains i

/-- `str.get(a..b)`: `Some` iff `a ≤ b` and both are boundaries (hence `b ≤ len`) -/
def stdGetRange (cs : List Nat) (a b : Nat) : Option (List Nat) :=
  if a ≤ b ∧ stdIsCharBoundary cs a = true ∧ stdIsCharBoundary cs b = true
  then some (((encs cs).drop a).take (b - a)) else none

/-- `str.get(a..)` -/
def stdGetFrom (cs : List Nat) (a : Nat) : Option (List Nat) :=
  if stdIsCharBoundary cs a = true then some ((encs cs).drop a) else none

/-- `str.get(..b)` -/
def stdGetUpTo (cs : List Nat) (b : Nat) : Option (List Nat) :=
  if stdIsCharBoundary cs b = true then some ((encs cs).take b) else none

/-- `str.split_at_checked(i)` -/
def stdSplitAt (cs : List Nat) (i : Nat) : Option (List Nat × List Nat) :=
  if stdIsCharBoundary cs i = true then some ((encs cs).take i, (encs cs).drop i) else none

/-- an index beyond the length acts as the length -/
def clamp (cs : List Nat) (i : Nat) : Nat := min i (encs cs).length

/-- documented behaviour of the clamping `str_from`: `&s[min(a,len)..]`; `none` = panic
    (std's indexing panics exactly when `get` is `None`) -/
def clampedFrom (cs : List Nat) (a : Nat) : Option (List Nat) := stdGetFrom cs (clamp cs a)

/-- `str_up_to`: `&s[..min(b,len)]` -/
def clampedUpTo (cs : List Nat) (b : Nat) : Option (List Nat) := stdGetUpTo cs (clamp cs b)

/-- `split_at`: `s.split_at(min(i,len))` -/
def clampedSplitAt (cs : List Nat) (i : Nat) : Option (List Nat × List Nat) :=
  stdSplitAt cs (clamp cs i)

/-- `str_range`: panics iff a clamped index is inside a character; otherwise `&s[a'..b']`, or the
    empty string when `a' > b'` (documented: "if start >= end … returns an empty string") -/
def clampedRange (cs : List Nat) (a b : Nat) : Option (List Nat) :=
  let a' := clamp cs a
  let b' := clamp cs b
  if stdIsCharBoundary cs a' = true ∧ stdIsCharBoundary cs b' = true then
    (if a' ≤ b' then stdGetRange cs a' b' else some [])
  else none

end Konst.Spec.Str
