/-
  Reference semantics of std equality and ordering (C16). Import-free, written independently of
  the model.

  * `==` on every supported type is structural equality: `decide (a = b)`.
  * `Ord::cmp` on integers / bool (`false < true`, i.e. 0 < 1) / char (scalar value order) is the
    order of the mathematical integer: Lean's `compare` on `Int`.
  * `Ord for [T]` and `Ord for str` ("implements comparison lexicographically"; `str` compares
    its UTF-8 bytes): `lexCmp` — the first position that differs decides, a proper prefix is less.
  * `Ord for Option<T>` (derived, variants `None`, `Some`): `None` before `Some`.
  * `Ord for Ordering` (derived, variants `Less`, `Equal`, `Greater` in this order).
  * `Range<T> == Range<T>` compares `start` and `end`; `RangeInclusive<T>`'s derived `==` compares
    `start`, `end` **and** the private `exhausted` flag (set by iteration to completion).
-/
namespace Konst.Spec.Cmp

/-- `PartialEq::eq` -/
def stdEq {α : Type} [DecidableEq α] (a b : α) : Bool := decide (a = b)

/-- `Ord::cmp` on machine integers, `bool` and `char`, seen as mathematical integers -/
def stdCmpScalar (a b : Int) : Ordering := compare a b

/-- `Ord::cmp` on `[T]` / `str`: lexicographic w.r.t. the element comparison `cmp` -/
def lexCmp {α : Type} (cmp : α → α → Ordering) : List α → List α → Ordering
  | [], [] => .eq
  | [], _ :: _ => .lt
  | _ :: _, [] => .gt
  | a :: as, b :: bs => (cmp a b).then (lexCmp cmp as bs)

/-- `Ord::cmp` on `Option<T>`: `None < Some(_)`, `Some` compares the payloads -/
def optCmp {α : Type} (cmp : α → α → Ordering) : Option α → Option α → Ordering
  | none, none => .eq
  | none, some _ => .lt
  | some _, none => .gt
  | some a, some b => cmp a b

/-- position of an `Ordering` variant in its declaration (`Less`, `Equal`, `Greater`) -/
def ordRank : Ordering → Nat
  | .lt => 0
  | .eq => 1
  | .gt => 2

/-- `Ord::cmp` on `core::cmp::Ordering` (derived: declaration order of the variants) -/
def stdCmpOrdering (a b : Ordering) : Ordering := compare (ordRank a) (ordRank b)

/-- `[T] == [T]` w.r.t. an element equality `e`: same length and `e` on every pair of elements -/
def listEqBy {α : Type} (e : α → α → Bool) : List α → List α → Bool
  | [], [] => true
  | a :: as, b :: bs => e a b && listEqBy e as bs
  | _, _ => false

/-- what "the ordering is total, antisymmetric and transitive, with `Equal` exactly on equal
    values" means for a three-way comparison function (the contract of `Ord`) -/
structure IsTotalOrder {α : Type} (cmp : α → α → Ordering) : Prop where
  /-- `cmp a b == Equal` exactly when `a == b` -/
  eq_iff : ∀ a b, cmp a b = .eq ↔ a = b
  /-- antisymmetry / totality: swapping the arguments reverses the answer (so exactly one of
      `a < b`, `a == b`, `a > b` holds) -/
  swap : ∀ a b, cmp b a = (cmp a b).swap
  /-- transitivity -/
  trans_lt : ∀ a b c, cmp a b = .lt → cmp b c = .lt → cmp a c = .lt

/-- a `Range<T>` value: `(start, end)` -/
abbrev RangeV := Int × Int

/-- a `RangeInclusive<T>` value: `(start, end, exhausted)` -/
abbrev RangeIncV := Int × Int × Bool

end Konst.Spec.Cmp
