import KonstVerif.Model.Basic
import KonstVerif.Model.Parser
import KonstVerif.Spec.Utf8
import KonstVerif.Spec.Bytes
import KonstVerif.Spec.ParseInt
/-
  Reference semantics of ONE `Parser` operation on the remainder (property C14), written from the
  std-level specifications of the free string functions only (`Spec/Bytes.lean`: first / last
  occurrence, prefix / suffix test, repeated-pattern trimming, ASCII-whitespace trimming;
  `Spec/ParseInt.lean`: documented prefix parse; `Spec/Utf8.isCont`: std's `is_char_boundary`).
  It imports `Model/Parser.lean` for the SYNTAX of operations (`Op`, `ErrorKind`, `Value`) and uses
  nothing of its semantics.

  The state is the remainder's content and the one-shot "the last piece was handed out" flag.
  A successful operation keeps a sub-range `keep` of the remainder (a view into the previous
  remainder) and may return a value (pieces are views into the previous remainder too).
-/
namespace Konst.Spec.ParserRef
open Konst Konst.Spec.Bytes Konst.Spec.ParseInt Konst.Parser

structure RefState where
  rem : List Nat
  exhausted : Bool
deriving Repr, DecidableEq, Inhabited

inductive RefRes where
  | ok (keep : View) (exhausted : Bool) (v : Value)
  | err (k : ErrorKind)
deriving Repr, DecidableEq, Inhabited

/-- `str::is_char_boundary(k)` of std: `k == len`, or `k < len` and the byte there is not a
    continuation byte (`(b as i8) >= -0x40`, i.e. `b < 128 || b >= 192`) -/
def isBoundary (r : List Nat) (k : Nat) : Bool :=
  k == r.length || (decide (k < r.length) && !(Spec.Utf8.isCont (r.getD k 0)))

/-- least char boundary `≥ k0` (for `k0 ≤ len`; the length is always one) -/
def ceilBoundary (r : List Nat) (k0 : Nat) : Nat :=
  ((List.range (r.length + 1)).find? fun k => decide (k0 ≤ k) && isBoundary r k).getD r.length

/-- greatest char boundary `≤ k0` (0 is always one in a `&str`) -/
def floorBoundary (r : List Nat) (k0 : Nat) : Nat :=
  ((List.range (k0 + 1)).reverse.find? (isBoundary r)).getD 0

/-- keep everything from byte `k` on -/
def fromView (r : List Nat) (k : Nat) : View := ⟨k, r.length - k⟩
/-- keep the first `k` bytes -/
def upToView (k : Nat) : View := ⟨0, k⟩

def refStep (op : Op) (s : RefState) : RefRes :=
  let r := s.rem
  let e := s.exhausted
  match op with
  | .stripPrefix m =>
    if m.isPrefixOf r then .ok (fromView r m.length) e .unit else .err .strip
  | .stripSuffix m =>
    if m.isSuffixOf r then .ok (upToView (r.length - m.length)) e .unit else .err .strip
  | .trimStart => .ok (fromView r (r.length - (trimAsciiStartSpec r).length)) e .unit
  | .trimEnd => .ok (upToView (trimAsciiEndSpec r).length) e .unit
  | .trim =>
    .ok ⟨r.length - (trimAsciiStartSpec r).length, (trimAsciiSpec r).length⟩ e .unit
  | .trimStartMatches n => .ok (fromView r (r.length - (trimStartSpec n r).length)) e .unit
  | .trimEndMatches n => .ok (upToView (trimEndSpec n r).length) e .unit
  | .trimMatches n =>
    .ok ⟨r.length - (trimStartSpec n r).length, (trimMatchesSpec n r).length⟩ e .unit
  | .findSkip n =>
    match findSpec r n with
    | some i => .ok (fromView r (i + n.length)) e .unit
    | none => .err .find
  | .rfindSkip n =>
    match rfindSpec r n with
    | some i => .ok (upToView i) e .unit
    | none => .err .find
  | .split d =>
    if e then .err .splitExhausted else
    match findSpec r d with
    | some i => .ok (fromView r (i + d.length)) false (.piece (upToView i))
    | none => .ok (fromView r r.length) true (.piece (upToView r.length))
  | .splitKeep d =>
    if e then .err .splitExhausted else
    match findSpec r d with
    | some i => .ok (fromView r i) false (.piece (upToView i))
    | none => .ok (fromView r r.length) true (.piece (upToView r.length))
  | .rsplit d =>
    if e then .err .splitExhausted else
    match rfindSpec r d with
    | some i => .ok (upToView i) false (.piece (fromView r (i + d.length)))
    | none => .ok (upToView 0) true (.piece (upToView r.length))
  | .splitTerminator d =>
    if e then .err .splitExhausted
    else if r.isEmpty then .err .delimiterNotFound
    else match findSpec r d with
      | some i => .ok (fromView r (i + d.length)) (decide (r.length - (i + d.length) = 0)) (.piece (upToView i))
      | none => .err .delimiterNotFound
  | .rsplitTerminator d =>
    if e then .err .splitExhausted
    else if r.isEmpty then .err .delimiterNotFound
    else match rfindSpec r d with
      | some i => .ok (upToView i) (decide (i = 0)) (.piece (fromView r (i + d.length)))
      | none => .err .delimiterNotFound
  | .skip n => .ok (fromView r (ceilBoundary r (min n r.length))) e .unit
  | .skipBack n => .ok (upToView (floorBoundary r (r.length - n))) e .unit
  | .parseInt signed bits =>
    match prefixParseInt signed bits r with
    | some (v, rest) => .ok (fromView r (r.length - rest.length)) e (.int v)
    | none => .err .parseInteger
  | .parseBool =>
    match prefixParseBool r with
    | some (b, rest) => .ok (fromView r (r.length - rest.length)) e (.bool b)
    | none => .err .parseBool

end Konst.Spec.ParserRef
