import KonstVerif.Model.OptResEval
import KonstVerif.Spec.OptRes
/-
  F19 (fixed in /repo by a6790b3) — documentation only, contributes no obligation.

  As found, two identifier patterns of the family stood where a pattern is ALLOWED to fail:

      opt_filter!     match $e { Some(x) if <pred on &x> => Some(x), _ => None }
      rebind_if_ok!   if let Ok(tuple) = $expression { <walker> $code }

  `macro_rules!` hygiene does not cover items: with a caller `const x` (resp. `const tuple`) in scope the pattern is
  the CONSTANT.  Everywhere else in the family that is a compile error; here the program compiled and only the
  constant's value took the `Some` / `Ok` branch:

      const x: i64 = 1;      konst::option::filter!(Some(5), |v| *v > 0)   ==  None      (std: Some(5); predicate not called)
      const tuple: i64 = 10; konst::rebind_if_ok!{p = Ok::<i64, i64>(5)}   assigns nothing (if let Ok(t) = .. { p = t }: 5)

  The repair makes both matches exhaustive (`Some(x) => if .. {Some(x)} else {None}, None => None`;
  `match $expression { Ok(tuple) => {..} Err(_) => {} }`), so the clash is the ordinary compile error
  (`Eval.verdict .. = .reject`).  This file keeps the as-found behaviour with kernel-checked witnesses.
-/
namespace Konst.Legacy.OptResCapture
open Konst Konst.OptRes Konst.OptRes.Eval

variable {α : Type}

/-- the binders that stood in a pattern which may fail (a constant there compiled) -/
def refutableBinders (mac : String) : List String :=
  match mac with
  | "opt.filter" => ["x"]
  | "rebind.rebind_if_ok" | "rebind.rebind_if_ok_nc" => ["tuple"]
  | _ => []

inductive Verdict where
  | transparent | reject
  | captured        -- compiles, the pattern matches only the constant
deriving DecidableEq, Repr

/-- the verdict before a6790b3 -/
def verdict (mac form : String) (d : Decl) (name : String) : Verdict :=
  if d = .fn_ ∨ d = .local_ then .transparent
  else if name ∈ binders mac form then
    if d = .const_ ∧ name ∈ refutableBinders mac then .captured else .reject
  else .transparent

/-- `opt_filter!` when `x` named a caller constant of value `c`: `Some(c) if p(&c) => Some(c), _ => None` -/
def optFilterCaptured [DecidableEq α] (c : α) (o : Option α) (p : α → Bool) : Ev (Option α) :=
  match o with
  | some v => if v = c then do
      let keep ← Ev.call p c
      if keep then pure (some c) else pure none
    else pure none
  | none => pure none

/-- `rebind_if_ok!{pat = e => code}` when `tuple` named a caller constant `c`: `if let Ok(c) = e { pat = c; code }` -/
def rebindIfOkCaptured (c : Int) (u : UserPat) (n : Nat) (annot : Bool) (r : Except Int (List Int)) : RebindOut :=
  match r with
  | .ok [v] => if v = c then rebindIfOk u n annot r else .skip
  | .ok _ => .reject
  | .error _ => rebindIfOk u n annot r

/-- with a caller constant `x = c` in scope `option::filter!` kept only `Some(c)`: it equalled std's `filter`
    exactly on `None`, on `Some(c)`, and on every `Some(v)` the predicate rejects -/
theorem optFilterCaptured_eq_std_iff [DecidableEq α] (c : α) (o : Option α) (p : α → Bool) :
    ((optFilterCaptured c o p).run).1 = (Spec.OptRes.optFilter o p).1 ↔
      (o = none ∨ o = some c ∨ ∃ v, o = some v ∧ p v = false) := by
  cases o with
  | none => simp [optFilterCaptured, Spec.OptRes.optFilter, Ev.run, pure, Ev.pure]
  | some v =>
    by_cases hv : v = c
    · subst hv
      cases hp : p v <;>
        simp [optFilterCaptured, Spec.OptRes.optFilter, Ev.run, bind, Ev.bind, Ev.call,
          Option.filter, pure, Ev.pure, hp]
    · cases hp : p v <;>
        simp [optFilterCaptured, Spec.OptRes.optFilter, Ev.run, hv, pure, Ev.pure, Option.filter, hp]

/-- the two failing call sites -/
example : (optFilterCaptured (1 : Int) (some 5) (fun v => decide (v > 0))).run = (none, 0) ∧
    Spec.OptRes.optFilter (some (5 : Int)) (fun v => decide (v > 0)) = (some 5, 1) := by decide
example : rebindIfOkCaptured 10 ⟨true, [.place]⟩ 1 true (.ok [5]) = .skip ∧
    rebindIfOk ⟨true, [.place]⟩ 1 true (.ok [5]) = .ok [(⟨0, .place⟩, .scalar 5)] := by decide
example : verdict "opt.filter" "cl" .const_ "x" = .captured ∧ verdict "rebind.rebind_if_ok" "p" .const_ "tuple" = .captured ∧
    Eval.verdict "opt.filter" "cl" .const_ "x" = .reject ∧ Eval.verdict "rebind.rebind_if_ok" "p" .const_ "tuple" = .reject := by decide

end Konst.Legacy.OptResCapture
