import KonstVerif.Model.Parser
import KonstVerif.Spec.ParserInv
/-
  Legacy: `Parser::trim` / `Parser::trim_matches` as they were BEFORE commit f0b3228
  ("fix: Parser::trim/trim_matches add only the start trim to start_offset"); finding F3.
  Documentation of the finding only — contributes no proof obligation, is not used by the driver.

  The old code was
      pub const fn trim(mut self) -> Self {
          parsing!{self, FromBoth; self.str = crate::string::trim(self.str); }
      }
  and `enable_if_start!` keeps `start_offset += (copy.str.len() - self.str.len()) as u32` for
  `FromBoth`: the bytes removed from BOTH ends were added to `start_offset`.

  * `legacy_trim_breaks_inv`           kernel-checked counterexample to the C13 invariant:
                                       `Parser::new("  a  ").trim()` reports start 4 / end 5 for the
                                       remainder "a", which sits at 2..3
  * `legacy_trim_matches_breaks_inv`   the same for `trim_matches(",")` on ",,a,,"
  * `legacy_trim_error_offset`         how it shows later: an error raised from the start after the
                                       trim reports offset 4 (base 0), not 2
  * `legacy_trim_remainder_ok`         what DID hold: the remainder itself was right
-/
namespace Konst.Legacy.ParserTrim
open Konst Konst.Parser Konst.Spec.Utf8 Konst.Spec.ParserInv

/-- old `Parser::trim`: `parsing!{self, FromBoth; self.str = string::trim(self.str);}` -/
def trimLegacy (self : Parser) : Res :=
  parsing self .fromBoth fun self => some (self.setStr (StrFns.trim self.str))

/-- old `Parser::trim_matches` -/
def trimMatchesLegacy (self : Parser) (needle : List Nat) : Res :=
  parsing self .fromBoth fun self => some (self.setStr (StrFns.trimMatches self.str needle))

/-- "  a  " -/
def spaced : List Nat := [32, 32, 97, 32, 32]
/-- ",,a,," -/
def commas : List Nat := [44, 44, 97, 44, 44]

theorem legacy_trim_result :
    trimLegacy (Parser.new (encs spaced)) = .ok ⟨.fromBoth, false, 4, [97]⟩ .unit := by decide

theorem legacy_trim_remainder_ok :
    trimLegacy (Parser.new (encs spaced)) = .ok ⟨.fromBoth, false, 4, [97]⟩ .unit ∧
    trim (Parser.new (encs spaced)) = .ok ⟨.fromBoth, false, 2, [97]⟩ .unit := by decide

/-- the parser returned by the old `trim` violates the invariant: the original sliced at the
    reported offsets 4..5 is " ", not the remainder "a" -/
theorem legacy_trim_breaks_inv :
    ∃ p', trimLegacy (Parser.new (encs spaced)) = .ok p' .unit ∧ ¬ Inv spaced 0 p' := by
  refine ⟨⟨.fromBoth, false, 4, [97]⟩, legacy_trim_result, ?_⟩
  intro h
  have := h.str_eq
  revert this
  decide

theorem legacy_trim_matches_breaks_inv :
    ∃ p', trimMatchesLegacy (Parser.new (encs commas)) [44] = .ok p' .unit ∧ ¬ Inv commas 0 p' := by
  refine ⟨⟨.fromBoth, false, 4, [97]⟩, by decide, ?_⟩
  intro h
  have := h.str_eq
  revert this
  decide

/-- a later error from the start reports the wrong place -/
theorem legacy_trim_error_offset :
    (match trimLegacy (Parser.new (encs spaced)) with
     | .ok p' _ => (match stripPrefix p' [98] with | .err e => some e.offset | _ => none)
     | _ => none) = some 4 ∧
    (match trim (Parser.new (encs spaced)) with
     | .ok p' _ => (match stripPrefix p' [98] with | .err e => some e.offset | _ => none)
     | _ => none) = some 2 := by decide

end Konst.Legacy.ParserTrim
