import KonstVerif.Model.OptRes
/-
  F4 (fixed in /repo by bac3b9b) — documentation only, contributes no obligation.

  Before the repair the third arm of `__priv_next_ai_access` read

      $($lhs)* = $var.$field;
      $crate::__priv_assign_tuple!($var,($($rem_fields:tt)*), $($rem)+)

  i.e. the transcriber wrote the fragment specifier `:tt` after every remaining field token, so the
  field list handed to the next step was `1 : tt 2 : tt 3 : tt 4 : tt 5 : tt`.  The second pattern
  still found the token `1` at the head, the third found `:`.

  This file is the token-level model of that walker (identical to `Model/OptRes.lean` except for the
  transcription) with kernel-checked witnesses: arity 1 and 2 expand as intended, every pattern list
  with three or more elements yields `tuple.:` for its third element, which no payload type-checks.
-/
namespace Konst.Legacy.Rebind
open Konst Konst.OptRes

/-- `$($rem_fields:tt)*` in a transcriber: each remaining token followed by `:` and `tt` -/
def transcribeStray (remFields : List Tok) : List Tok :=
  remFields.flatMap fun t => [t, .colon, .ttkw]

/-- the walker as it was before bac3b9b -/
def assignTuple (fields : List Tok) (pos : Nat) : List PatKind → Option (List Stmt)
  | [] => none
  | p :: rem =>
    let pre : List Stmt := if p = .typedPlace then [.assertTy pos] else []
    let lhs : Lhs := ⟨pos, p⟩
    match fields, rem with
    | .idx 0 :: _, [] => some (pre ++ [.assign lhs .whole])
    | f :: _, [] => some (pre ++ [.assign lhs (.field f)])
    | f :: remFields, _ :: _ =>
      (assignTuple (transcribeStray remFields) (pos + 1) rem).map fun rest =>
        pre ++ .assign lhs (.field f) :: rest
    | [], _ => none

def preprocess (u : UserPat) : Option (List Stmt) := assignTuple fields0 0 u.pats

/-- the statements, if the expansion type-checks against a payload of arity `n` -/
def emitted (u : UserPat) (n : Nat) (annot : Bool) : Option (List Stmt) :=
  match preprocess u with
  | some stmts => if stmts.all (stmtOk n annot) then some stmts else none
  | none => none

/-- one and two patterns were unaffected -/
theorem arity1_unaffected (b : Bool) (p : PatKind) :
    preprocess ⟨b, [p]⟩ = OptRes.preprocess ⟨b, [p]⟩ := rfl

theorem arity2_unaffected (b : Bool) (p q : PatKind) :
    preprocess ⟨b, [p, q]⟩ = OptRes.preprocess ⟨b, [p, q]⟩ := by
  cases p <;> cases q <;> rfl

/-- the witness: three places — the third assignment reads `p2 = tuple.:` -/
theorem arity3_witness :
    preprocess ⟨false, [.place, .place, .place]⟩ =
      some [.assign ⟨0, .place⟩ (.field (.idx 0)), .assign ⟨1, .place⟩ (.field (.idx 1)),
            .assign ⟨2, .place⟩ (.field .colon)] := by decide

/-- … which rustc rejects whatever the payload is, while the repaired walker is accepted -/
theorem arity3_rejected (n : Nat) (annot : Bool) :
    emitted ⟨false, [.place, .place, .place]⟩ n annot = none := by
  simp [emitted, arity3_witness, stmtOk]

theorem arity3_fixed_accepted :
    OptRes.emitted true ⟨false, [.place, .place, .place]⟩ 3 false =
      some [.assign ⟨0, .place⟩ (.field (.idx 0)), .assign ⟨1, .place⟩ (.field (.idx 1)),
            .assign ⟨2, .place⟩ (.field (.idx 2))] := by decide

/-- for EVERY pattern list with at least three elements the old walker, if it expands at all,
    emits an ill-formed field access for the third element -/
theorem arity_ge3_illformed (b : Bool) (p q r : PatKind) (rest : List PatKind) (stmts : List Stmt)
    (h : preprocess ⟨b, p :: q :: r :: rest⟩ = some stmts) :
    Stmt.assign ⟨2, r⟩ (.field .colon) ∈ stmts := by
  simp only [preprocess, fields0, assignTuple, transcribeStray, List.flatMap_cons, List.flatMap_nil,
    List.cons_append, List.nil_append, Option.map_eq_some_iff] at h
  cases rest with
  | nil =>
    obtain ⟨a, ⟨a', ha', rfl⟩, rfl⟩ := h
    cases ha'
    simp
  | cons s rest' =>
    simp only [assignTuple, Option.map_eq_some_iff] at h
    obtain ⟨a, ⟨a', ⟨a'', _, rfl⟩, rfl⟩, rfl⟩ := h
    simp

/-- hence no pattern list of three or more elements compiled, for any payload -/
theorem arity_ge3_rejected (b : Bool) (p q r : PatKind) (rest : List PatKind) (n : Nat) (annot : Bool) :
    emitted ⟨b, p :: q :: r :: rest⟩ n annot = none := by
  unfold emitted
  cases h : preprocess ⟨b, p :: q :: r :: rest⟩ with
  | none => rfl
  | some stmts =>
    have hm := arity_ge3_illformed b p q r rest stmts h
    have : stmts.all (stmtOk n annot) = false := by
      rw [List.all_eq_false]
      exact ⟨_, hm, by simp [stmtOk]⟩
    simp [this]

end Konst.Legacy.Rebind
