import KonstVerif.Spec.Bytes
/-
  Legacy: the pattern matcher of `__bytes_find` / `__bytes_rfind` as it was BEFORE commit 116b24e
  ("fix: byte pattern search misses matches that overlap a failed partial match"); finding F1.
  Documentation of the finding only — contributes no proof obligation, is not used by the driver.

  The old code made a single pass over the haystack keeping `matching`, the part of the pattern
  still to be matched; on a mismatch it restarted with the whole pattern, or with the pattern
  minus its first byte when the current byte equals the pattern's first byte
  ("For when the string is "lawlawn" and we are trying to find "lawn"").  That forgets every
  occurrence that begins inside the partial match other than at its last byte.

  * `find_sound`      what DID hold: a reported offset is always a real occurrence (so the old code
                      never handed out a wrong sub-slice; it could only miss or report a later one)
  * `legacy_misses`   kernel-checked counterexample: "aab" in "aaab" is missed (std: `Some(1)`)
  * `legacy_not_first`  "aab" in "aaabaab": reports 4, the first occurrence is at 1
  * `legacy_rfind_misses`  reverse twin: "abb" in "abbb" is missed (std: `Some(0)`)
-/
namespace Konst.Legacy.Find
open Konst.Spec.Bytes

/-- old `__bytes_find`: `for_range!{i in 0..left.len() => match matching { … }}`;
    arguments: the rest of the haystack `left[i..]`, `matching`, `i` -/
def findGo (pat : List Nat) : List Nat → List Nat → Nat → Option Nat
  | [], matching, i =>
      -- after the loop: `if matching.is_empty() { Some(left.len() - pattern.len()) } else { None }`
      if matching.isEmpty then some (i - pat.length) else none
  | b :: rest, matching, i =>
    match matching with
    | [] => some (i - pat.length)                    -- `[] => return Some(i - pattern.len())`
    | mb :: mrem =>
      let matching' :=
        if b == mb then mrem
        else match pat with
          | mb2 :: mrem2 => if b == mb2 then mrem2 else pat
          | [] => pat
      findGo pat rest matching' (i + 1)

def bytesFindLegacy (left pat : List Nat) : Option Nat := findGo pat left pat 0

/-- old `__bytes_rfind`: `while i != 0 { i -= 1; match matching { [m_rem @ .., mb] => …,
    [] => return Some(i + (!pattern.is_empty()) as usize) } }`, then
    `if matching.is_empty() { Some(i) } else { None }`.
    Modelled on the reversed lists: arguments = `left[..i]` reversed, `matching` reversed. -/
def rfindGo (patR : List Nat) : List Nat → List Nat → Option Nat
  | [], matching => if matching.isEmpty then some 0 else none
  | b :: rest, matching =>
    match matching with
    | [] => some (rest.length + (if patR.isEmpty then 0 else 1))
    | mb :: mrem =>
      let matching' :=
        if b == mb then mrem
        else match patR with
          | mb2 :: mrem2 => if b == mb2 then mrem2 else patR
          | [] => patR
      rfindGo patR rest matching'

def bytesRfindLegacy (left pat : List Nat) : Option Nat := rfindGo pat.reverse left.reverse pat.reverse

/-- invariant of the single pass: the matched part `done` of the pattern is a suffix of the
    consumed haystack `pre` -/
theorem findGo_sound (pat : List Nat) : ∀ (rest pre matching done : List Nat) (k : Nat),
    pat = done ++ matching → done <:+ pre →
    findGo pat rest matching pre.length = some k → pat <+: (pre ++ rest).drop k := by
  intro rest
  induction rest with
  | nil =>
    intro pre matching done k hpat hsuf hr
    simp only [findGo] at hr
    by_cases hm : matching = []
    · subst hm
      simp only [List.isEmpty_nil, if_true, Option.some.injEq] at hr
      simp only [List.append_nil] at hpat
      subst hpat
      obtain ⟨x, hx⟩ := hsuf
      subst hx; subst hr
      simp
    · have : matching.isEmpty = false := by cases matching <;> simp_all
      simp [this] at hr
  | cons b rest ih =>
    intro pre matching done k hpat hsuf hr
    cases matching with
    | nil =>
      simp only [findGo, Option.some.injEq] at hr
      simp only [List.append_nil] at hpat
      subst hpat
      obtain ⟨x, hx⟩ := hsuf
      subst hx; subst hr
      simp
    | cons mb mrem =>
      simp only [findGo] at hr
      have hlen : (pre ++ [b]).length = pre.length + 1 := by simp
      rw [← hlen] at hr
      have happ : pre ++ b :: rest = (pre ++ [b]) ++ rest := by simp
      rw [happ]
      by_cases hb : b = mb
      · subst hb
        simp only [beq_self_eq_true, if_true] at hr
        refine ih (pre ++ [b]) mrem (done ++ [b]) k (by simp [hpat]) ?_ hr
        obtain ⟨x, hx⟩ := hsuf
        exact ⟨x, by simp [← hx]⟩
      · have hb' : (b == mb) = false := by simpa using hb
        simp only [hb', Bool.false_eq_true, if_false] at hr
        cases hp : pat with
        | nil => rw [hp] at hpat; simp at hpat
        | cons mb2 mrem2 =>
          rw [hp] at hr
          simp only [] at hr
          by_cases hb2 : b = mb2
          · subst hb2
            simp only [beq_self_eq_true, if_true] at hr
            rw [← hp] at hr ⊢
            exact ih (pre ++ [b]) mrem2 [b] k (by simp [hp]) ⟨pre, rfl⟩ hr
          · have hb2' : (b == mb2) = false := by simpa using hb2
            simp only [hb2', Bool.false_eq_true, if_false] at hr
            rw [← hp] at hr ⊢
            exact ih (pre ++ [b]) pat [] k (by simp) (List.nil_suffix) hr

/-- PARTIAL (what held before the fix): every offset the old matcher reports is a real occurrence
    of the pattern.  FULL statement, false for this matcher: `bytesFindLegacy h p = findSpec h p`. -/
theorem find_sound (h p : List Nat) (k : Nat) (hr : bytesFindLegacy h p = some k) :
    p <+: h.drop k := by
  have := findGo_sound p h [] p [] k (by simp) (List.nil_suffix) hr
  simpa using this

/-- the counterexample of F1 (kernel-checked): "aab" in "aaab" -/
theorem legacy_misses :
    bytesFindLegacy [97, 97, 97, 98] [97, 97, 98] = none ∧
    findSpec [97, 97, 97, 98] [97, 97, 98] = some 1 := by decide

/-- "aab" in "aaabaab": a later occurrence is reported -/
theorem legacy_not_first :
    bytesFindLegacy [97, 97, 97, 98, 97, 97, 98] [97, 97, 98] = some 4 ∧
    findSpec [97, 97, 97, 98, 97, 97, 98] [97, 97, 98] = some 1 := by decide

/-- the reverse twin: "abb" in "abbb" -/
theorem legacy_rfind_misses :
    bytesRfindLegacy [97, 98, 98, 98] [97, 98, 98] = none ∧
    rfindSpec [97, 98, 98, 98] [97, 98, 98] = some 0 := by decide

-- the old matcher on inputs without overlap (what the test-suite exercised)
example : bytesFindLegacy [1, 2, 3, 1, 2, 3, 4] [1, 2, 3, 4] = some 3 := by decide   -- "lawlawn"/"lawn"
example : bytesRfindLegacy [1, 2, 3, 4, 2, 3, 4] [1, 2, 3, 4] = some 0 := by decide
example : bytesRfindLegacy [1, 2, 3] [] = some 2 := by decide                         -- the pinned value

end Konst.Legacy.Find
