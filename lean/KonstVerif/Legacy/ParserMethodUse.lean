import KonstVerif.Model.ParserMethodUse
/-
  `parser_method!` AS FOUND (before ff38c77 / 5e6c5eb), kept as documentation of F18b and F18c (no obligation).

  F18b  `__priv_pa_find_skip_either` pasted the branch bodies INSIDE its own `loop` (`break $e` / `break $default`):
        an unlabeled `break` / `continue` written in a body targeted that hidden loop instead of the caller's.
  F18c  the expansion bound the plain identifiers `bytes`, `rem`, `brem`; a caller constant / static / unit struct of
        that name in scope made the identifier pattern a path pattern (error E0530).
-/
namespace Konst.Legacy.PMUse
open Konst Konst.PM Konst.PM.Use

/-- as found: the find forms' bodies sat inside the expansion's loop -/
def bodiesInHiddenLoop : Form → Bool
  | .findSkip | .rfindSkip => true
  | _ => false

/-- as found, a body's `continue` repeated `match bytes` on the same `bytes`: the same arm with the same `rem`,
    `set` once more (relative to the already advanced parser) and the body once more -/
def reSet (f : Form) (arms : List (Nat × List Nat)) (before after : PState) : PState :=
  match matchPart f arms before.rem with
  | none => after
  | some (_, rem) => (setFrom f after after rem).getD after

def binders : Form → List String
  | .stripPrefix | .stripSuffix => ["rem"]
  | .findSkip | .rfindSkip => ["bytes", "rem", "brem"]
  | .trimStart | .trimEnd => ["bytes", "rem"]

def callerItemRejects : Form → String → String → Bool := itemRejects binders

theorem bodies_in_hidden_loop_iff (f : Form) :
    bodiesInHiddenLoop f = true ↔ f = .findSkip ∨ f = .rfindSkip := by
  cases f <;> simp [bodiesInHiddenLoop]

/-- the repeated `set` was a no-op on the parser: what the caller could observe of the capture was that the body ran
    again and that the caller's loop was not continued -/
theorem reSet_noop_example :
    reSet .findSkip [(0, [97])] ⟨0, [120, 97, 98]⟩ (run .findSkip [(0, [97])] ⟨0, [120, 97, 98]⟩).2
      = (run .findSkip [(0, [97])] ⟨0, [120, 97, 98]⟩).2 := by decide

/-- witnesses: what was rejected as found is accepted now, and the other way round -/
theorem legacy_rejects_now_accepted :
    callerItemRejects .stripPrefix "const" "rem" = true ∧ Use.callerItemRejects .stripPrefix "const" "rem" = false ∧
    callerItemRejects .findSkip "unit" "brem" = true ∧ Use.callerItemRejects .findSkip "unit" "brem" = false ∧
    callerItemRejects .trimEnd "static" "bytes" = true ∧ Use.callerItemRejects .trimEnd "static" "bytes" = false := by
  decide

end Konst.Legacy.PMUse
