import KonstVerif.Lemmas.Cmp
/-
  F2 (fixed in /repo by 5d1d77b): the AS-FOUND slice comparators compared the lengths BEFORE the
  elements. This file documents the finding; it contributes NO obligation to C16.

    * `legacyCmpSliceInner`      — old `cmp_inner` of `__declare_slice_cmp_fns!`
    * `legacyConstCmpForSlice`   — old `const_cmp_for!(slice; …)`
    * `legacy_is_total_order`    — the old comparator IS a total order (short-lex: total,
                                   antisymmetric, transitive, `Equal` iff equal) — which is why no
                                   law-based test could notice;
    * `legacy_ne_lex`            — kernel-checked counterexample `cmp_slice([2], [1, 1])`:
                                   old code `Less`, `Ord::cmp` `Greater`.
  The corpus line that exposes a revert of the fix is `cmp.fn slice_u8 [2] [1;1]` (and the same
  pair through `cmp.for`, `cmp.macro`, `cmp.opt`); the exhaustive generator of `harness/src/c16.rs`
  contains it.

  F10 (fixed in /repo by e16d62f): the AS-FOUND `__cmp_assert_inner!` (`assertc_eq!` /
  `assertc_ne!`) bound both arguments with `match (&$left, &$right)` and then wrote
  `coerce_to_cmp!($left).const_eq(right)`: the left argument EXPRESSION was evaluated twice and the
  value of the second evaluation was compared.

    * `legacyCmpAssertArgs`            — the as-found use of the argument expressions
    * `legacyCmpAssertArgs_left_twice` — left twice, right once, second left value compared
    * `legacyCmpAssertArgs_operands_of_idempotent` — no difference for variables / constants /
                                         pure calls, which is why konst's own uses never showed it
    * `legacy_assert_ne_std`           — kernel-checked witness: `assertc_eq!(next(), 0)` with
                                         `next()` yielding 0 then 1 panicked, `assert_eq!` passes.
  The corpus lines that expose a revert of the fix are `assertc.se.eq u8 0/1 0` (and every
  `assertc.<se|sb>.<eq|ne>` request: `…|2|1|lrl` instead of `…|1|1|lr`), vlib/progs/c16.py.
-/
namespace Konst.Legacy.Cmp
open Konst.Cmp Konst.Spec.Cmp Konst.Lemmas.Cmp

/-- as found: `__priv_ret_if_ne!{left_len, right.len()}` FIRST, then
    `while i < left_len { __priv_ret_if_ne!{left[i], right[i]} … }`, then `EQUAL` -/
def legacyCmpSliceInner (left right : List Int) : Option U8Ordering :=
  let leftLen := left.length
  match retIfNe leftLen right.length with
  | some o => some o
  | none => elemLoop left right leftLen U8Ordering.EQUAL 0

/-- as-found `cmp_slice_*` -/
def legacyCmpSlice (left right : List Int) : Option Ordering :=
  (legacyCmpSliceInner left right).map U8Ordering.toOrdering

/-- the as-found inner loop of `const_cmp_for!(slice; …)` (only entered on equal lengths):
    `if let ([l, l_rem@..], [r, r_rem@..]) = … { …; if ord != Equal { break ord } } else { break Equal }` -/
def legacyForLoop {α : Type} (cmp : α → α → Option Ordering) : List α → List α → Option Ordering
  | l :: lRem, r :: rRem =>
    match cmp l r with
    | some ord => if ord ≠ .eq then some ord else legacyForLoop cmp lRem rRem
    | none => none
  | _, _ => some .eq

/-- as-found `const_cmp_for!(slice; left, right, cmp)`:
    `if left.len() == right.len() { loop } else if left.len() < right.len() { Less } else { Greater }` -/
def legacyConstCmpForSlice {α : Type} (cmp : α → α → Option Ordering) (left right : List α) : Option Ordering :=
  if left.length = right.length then legacyForLoop cmp left right
  else if left.length < right.length then some .lt
  else some .gt

/-- short-lex: lengths first, elements only between slices of the same length -/
def shortLex {α : Type} (c : α → α → Ordering) (l r : List α) : Ordering :=
  (lenOrd l.length r.length).then (lexCmp c l r)

theorem lenOrd_eq_lt (a b : Nat) : lenOrd a b = .lt ↔ a < b := by
  unfold lenOrd; by_cases h : a < b <;> by_cases h2 : a = b <;> simp [h, h2]
theorem lenOrd_eq_eq (a b : Nat) : lenOrd a b = .eq ↔ a = b := by
  unfold lenOrd; by_cases h : a < b <;> by_cases h2 : a = b <;> simp [h, h2] <;> omega
theorem lenOrd_swap (a b : Nat) : lenOrd b a = (lenOrd a b).swap := by
  unfold lenOrd
  by_cases h : a < b
  · have h1 : ¬ b < a := by omega
    have h2 : b ≠ a := by omega
    simp [h, h1, h2, Ordering.swap]
  · by_cases h2 : a = b
    · subst h2; simp [Ordering.swap]
    · have h1 : b < a := by omega
      simp [h, h2, h1, Ordering.swap]

/-- what the as-found `cmp_slice_*` computed (it never panicked either) -/
theorem legacyCmpSlice_eq_shortLex (l r : List Int) :
    legacyCmpSlice l r = some (shortLex stdCmpScalar l r) := by
  unfold legacyCmpSlice legacyCmpSliceInner shortLex
  by_cases hlen : l.length = r.length
  · have hnone : retIfNe l.length r.length = none := by simp [retIfNe, hlen]
    obtain ⟨o, h1, h2⟩ := elemLoop_spec l r l.length U8Ordering.EQUAL (by omega)
      (by rw [toOrdering_EQUAL]; exact ((lenOrd_eq_eq _ _).2 hlen).symm) _ 0 rfl (by omega)
    simp only [hnone, h1, Option.map_some, h2, List.drop_zero, (lenOrd_eq_eq _ _).2 hlen]
    rfl
  · have h := retIfNe_len l.length r.length
    unfold lenTail at h
    cases hr : retIfNe l.length r.length with
    | none => simp [retIfNe, hlen] at hr
    | some o =>
      rw [hr] at h
      have h' : o.toOrdering = lenOrd l.length r.length := h
      simp only [hr, Option.map_some, h']
      have : lenOrd l.length r.length ≠ .eq := fun hc => hlen ((lenOrd_eq_eq _ _).1 hc)
      cases hc : lenOrd l.length r.length <;> simp_all [Ordering.then]

theorem legacyForLoop_spec {α : Type} (cmp : α → α → Option Ordering) (c : α → α → Ordering)
    (hc : ∀ a b, cmp a b = some (c a b)) (l r : List α) (hlen : l.length = r.length) :
    legacyForLoop cmp l r = some (lexCmp c l r) := by
  induction l generalizing r with
  | nil => cases r <;> simp_all [legacyForLoop, lexCmp]
  | cons a as ih =>
    cases r with
    | nil => simp at hlen
    | cons b bs =>
      simp only [legacyForLoop, hc, lexCmp, ih bs (by simpa using hlen)]
      cases c a b <;> simp [Ordering.then]

/-- what the as-found `const_cmp_for!(slice; …)` computed -/
theorem legacyConstCmpForSlice_eq_shortLex {α : Type} (cmp : α → α → Option Ordering)
    (c : α → α → Ordering) (hc : ∀ a b, cmp a b = some (c a b)) (l r : List α) :
    legacyConstCmpForSlice cmp l r = some (shortLex c l r) := by
  unfold legacyConstCmpForSlice shortLex
  by_cases hlen : l.length = r.length
  · have hl : lenOrd l.length r.length = .eq := (lenOrd_eq_eq _ _).2 hlen
    rw [hl, legacyForLoop_spec cmp c hc l r hlen]
    simp [hlen, Ordering.then]
  · by_cases hlt : l.length < r.length
    · simp [hlen, hlt, (lenOrd_eq_lt _ _).2 hlt, Ordering.then]
    · have : lenOrd l.length r.length = .gt := by
        unfold lenOrd; simp [hlt, hlen]
      simp [hlen, hlt, this, Ordering.then]

/-- short-lex is a total order whenever the element comparison is -/
theorem shortLex_isTotalOrder {α : Type} {c : α → α → Ordering} (h : IsTotalOrder c) :
    IsTotalOrder (shortLex c) where
  eq_iff l r := by
    unfold shortLex
    rw [then_eq_eq, lenOrd_eq_eq, (lex_isTotalOrder h).eq_iff]
    exact ⟨fun hh => hh.2, fun hh => ⟨by rw [hh], hh⟩⟩
  swap l r := by
    unfold shortLex
    rw [swap_then, ← lenOrd_swap, ← (lex_isTotalOrder h).swap]
  trans_lt x y z := by
    unfold shortLex
    simp only [then_eq_lt, lenOrd_eq_lt, lenOrd_eq_eq]
    intro h1 h2
    rcases h1 with h1 | ⟨h1, h1'⟩ <;> rcases h2 with h2 | ⟨h2, h2'⟩
    · left; omega
    · left; omega
    · left; omega
    · right; exact ⟨by omega, (lex_isTotalOrder h).trans_lt x y z h1' h2'⟩

/-- **the as-found comparator satisfies every order law** (total, antisymmetric, transitive,
    `Equal` iff equal): a test of the laws cannot tell it from `Ord::cmp` -/
theorem legacy_is_total_order :
    ∃ c, (∀ l r, legacyCmpSlice l r = some (c l r)) ∧ IsTotalOrder c :=
  ⟨_, legacyCmpSlice_eq_shortLex, shortLex_isTotalOrder int_isTotalOrder⟩

/-- the same for the as-found `const_cmp_for!(slice; …)` over any total element order -/
theorem legacy_for_is_total_order {α : Type} (cmp : α → α → Option Ordering) (c : α → α → Ordering)
    (hc : ∀ a b, cmp a b = some (c a b)) (hord : IsTotalOrder c) :
    ∃ c', (∀ l r, legacyConstCmpForSlice cmp l r = some (c' l r)) ∧ IsTotalOrder c' :=
  ⟨_, legacyConstCmpForSlice_eq_shortLex cmp c hc, shortLex_isTotalOrder hord⟩

/-- **F2 witness** (kernel-checked): `cmp_slice_u8(&[2], &[1, 1])` was `Less`; `Ord::cmp` is `Greater` -/
theorem legacy_ne_lex :
    legacyCmpSlice [2] [1, 1] = some .lt ∧ lexCmp stdCmpScalar [2] [1, 1] = .gt := by
  decide +kernel

/-- the same witness for the as-found `const_cmp_for!(slice; …)` -/
theorem legacy_for_ne_lex :
    legacyConstCmpForSlice (fun a b => some (cmpInt a b)) [2] [1, 1] = some .lt ∧
      lexCmp stdCmpScalar [2] [1, 1] = .gt := by
  decide +kernel

/-- where old and repaired code agree: slices of the same length -/
theorem legacy_eq_lex_of_length_eq (l r : List Int) (h : l.length = r.length) :
    legacyCmpSlice l r = cmpSlice l r := by
  rw [legacyCmpSlice_eq_shortLex, shortLex, (lenOrd_eq_eq _ _).2 h]
  obtain ⟨o, h1, h2⟩ := cmpSliceInner_spec l r
  simp [cmpSlice, h1, h2, Ordering.then]

/-! ## F10: `assertc_eq!` / `assertc_ne!` evaluated `$left` twice -/

/-- as found: `match (&$left, &$right) { (left, right) => if let $is_equal =
    coerce_to_cmp!($left).const_eq(right) { … } }` — `$left`, `$right`, `$left` again; the second
    value of `$left` is compared with the value of `$right` -/
def legacyCmpAssertArgs : ArgUse := ⟨[.left, .right, .left], 1, 0⟩

/-- as found: `$left` evaluated TWICE (`$right` once), second value compared -/
theorem legacyCmpAssertArgs_left_twice {α : Type} (l r : ArgExpr α) :
    legacyCmpAssertArgs.evals = [.left, .right, .left] ∧ legacyCmpAssertArgs.count .left = 2 ∧
      legacyCmpAssertArgs.count .right = 1 ∧ legacyCmpAssertArgs.operands l r = (l.eval 1, r.eval 0) :=
  ⟨rfl, by decide, by decide, rfl⟩

/-- as found, the operands were those of `assert_eq!` whenever a second evaluation of `$left`
    produced the same value as the first -/
theorem legacyCmpAssertArgs_operands_of_idempotent {α : Type} (l r : ArgExpr α) (h : l.eval 1 = l.eval 0) :
    legacyCmpAssertArgs.operands l r = ArgUse.once.operands l r := by
  simp [ArgUse.operands, legacyCmpAssertArgs, ArgUse.once, h]

/-- **F10 witness** (kernel-checked): `assertc_eq!(next(), 0u8)` with `next()` yielding 0, then 1:
    the as-found expansion compared 1 with 0 and panicked; `assert_eq!` (and the repaired macro)
    compare 0 with 0 and pass -/
theorem legacy_assert_ne_std :
    let l : ArgExpr Int := ⟨0, [1]⟩
    let r : ArgExpr Int := ⟨0, []⟩
    assertcEq (some (eqPrim (legacyCmpAssertArgs.operands l r).1 (legacyCmpAssertArgs.operands l r).2)) = .panic ∧
      assertcEq (some (eqPrim (cmpAssertArgs.operands l r).1 (cmpAssertArgs.operands l r).2)) = .ok ∧
      stdEq (ArgUse.once.operands l r).1 (ArgUse.once.operands l r).2 = true := by
  decide +kernel

end Konst.Legacy.Cmp
