import KonstVerif.Lemmas.ArrayEval
/-
  F11a / F11b / F11c (found by the programs of vlib/progs/c11x.py; fixed in /repo by 76ed0a3, 5af8e6b, c6bef38).
  F11d (b7532cf): see the last section.
  This file documents the findings on the AS-FOUND expansions of `array::map!` / `from_fn!` / `map_!` /
  `from_fn_!`; it contributes NO obligation to C11.

  F11a — method calls of the expansions were resolved with the CALLER's traits.
    * `legacyMethodCalls`          — `$array.len()` (`<[T]>::len`, found only after unsizing), `consumer.next()` /
                                     `builder.push(..)` (inherent `&mut self`), `builder.infer_length_from_consumer(..)`
                                     (inherent `&self`), `builder.build()` (inherent, by value)
    * `legacy_hijacked_by_ref`     — which of them a caller trait method with a `&self` / `self` receiver displaced
    * `legacy_arrayMapL_short_ub`, `legacy_arrayFromFnL_short_ub` — when `$array.len()` evaluated to `lenSeen < N`
                                     a well-behaved closure ran for the first `lenSeen` elements, `assert!(i == len)`
                                     passed and `array_assume_init` ran on an array whose slot `lenSeen` was never
                                     written: undefined behaviour from safe code
    * `legacy_arrayFromFnL_long_panic` — `lenSeen > N`: a panic (bounds-checked write), never an array
    * `legacyMapByValNoNext`, `legacyMapByValNoPush` — `map_!` with a displaced `next` (returns `None`) / `push` (no-op):
                                     `build()` panics for N > 0
    Witness program: `trait Hj { fn len(&self) -> usize { 1 } } impl<T, const N: usize> Hj for [T; N] {}` in scope,
    `konst::array::map!([10u64, 11], |x| 2 * x + 1)`. Regression rows: `arr.meth.map len/ref/arr:1 2` (was
    `[21;U]|calls=1`, std `[21;23]|calls=2`) and every `arr.meth.<mac> (len|next|push)/..` request.

  F11b — `map_!($array, $f)` with `$f` not a closure literal evaluated `$f` BEFORE `$array`.
    * `legacyArrayMapByValArgs`, `legacy_mapByVal_args_fn_first`
    Regression rows: `arr.ev.map_.<ashape>.(fnexpr|fnblock) ..` (was `..|F;A;..`, std `..|A;F;..`).

  F11c — the expansions bound their local variables under plain names; a caller const / static / unit struct with
    such a name (mentioned or not) turned the binding into a constant pattern (E0005 / E0530).
    * `legacyArrayMapSk`, … (skeletons with the plain names), `legacy_transparent_witnesses`
    Regression rows: `arr.compile <mac> (const|static|ustruct)/.. (array|len|out|i|input|arr|consumer|builder|elem|mapped|func|__x)`.
-/
namespace Konst.Legacy.ArrayEval
open Konst Konst.ArrayMacros Konst.ArrayEval Konst.Concat.Hyg
variable {α β : Type}

/-! ### F11b -/

/-- as found: `__parse_closure_1!{ (__array_map2__with_parsed_closure) ($array,) .., $closure }` handed `$array` on
    UNEVALUATED; the `expr` arm wrapped the whole expansion: `match $v { func => match ArrayConsumer::new($array) { .. } }` -/
def legacyArrayMapByValArgs : ClosureArm → ArgUse
  | .literal => ⟨[.arr], 0, 0⟩
  | .expr => ⟨[.fn, .arr], 0, 0⟩

theorem legacy_mapByVal_args_fn_first :
    (legacyArrayMapByValArgs .expr).evals = [.fn, .arr] ∧ (stdMapArgs .expr).evals = [.arr, .fn] ∧
    (legacyArrayMapByValArgs .expr).clockAtFn = 0 ∧ (stdMapArgs .expr).clockAtFn = 1 := by decide

/-- each argument was still evaluated exactly once -/
theorem legacy_mapByVal_args_once (arm : ClosureArm) (a : Arg) :
    (legacyArrayMapByValArgs arm).count a = (stdMapArgs arm).count a := by
  cases arm <;> cases a <;> decide

/-! ### F11a -/

def legacyMethodCalls : String → List (String × Step)
  | "map" => [("len", .unsize)]
  | "from_fn" => [("len", .unsize)]
  | "map_" => [("next", .autorefMut), ("infer_length_from_consumer", .autoref), ("push", .autorefMut), ("build", .byValue)]
  | "from_fn_" => [("next", .autorefMut), ("infer_length_from_consumer", .autoref), ("push", .autorefMut), ("build", .byValue)]
  | "cc" => [("reachability_hint", .byValue), ("to_right", .byValue)]
  | _ => []

def legacyHijacked (mac name : String) (s : Step) : Bool := hijackedBy legacyMethodCalls mac name s

theorem legacy_hijacked_by_ref :
    legacyHijacked "map" "len" .autoref = true ∧ legacyHijacked "from_fn" "len" .autoref = true ∧
    legacyHijacked "map" "len" .byValue = true ∧ legacyHijacked "from_fn" "len" .byValue = true ∧
    legacyHijacked "map_" "next" .autoref = true ∧ legacyHijacked "map_" "push" .autoref = true ∧
    legacyHijacked "from_fn_" "next" .autoref = true ∧ legacyHijacked "from_fn_" "push" .autoref = true ∧
    legacyHijacked "map_" "build" .autoref = false ∧ legacyHijacked "map_" "build" .byValue = false ∧
    legacyHijacked "map_" "infer_length_from_consumer" .autoref = false := by decide

/-- `map_!` when `consumer.next()` was a caller method that returns `None`: the loop body never ran -/
def legacyMapByValNoNext (xs : List α) : ByVal α β :=
  byValFinish [] (ArrayConsumer.new xs) (ArrayBuilder.new xs.length)

/-- `map_!` when `builder.push(..)` was a caller method that does nothing: every value computed and dropped -/
def legacyMapByValNoPush (fuel : Nat) (xs : List α) (c : Nat → α → Outcome β) : ByVal α β :=
  arrayMapByVal fuel xs (fun t a => match c t a with | .value _ => .cont | o => o)

private theorem stdCalls_go_length (l : List α) : ∀ i, (stdCalls.go i l).length = l.length := by
  induction l with
  | nil => intro i; rfl
  | cons a r ih => intro i; simp [stdCalls.go, ih]

private theorem fetched_eq_go (xs : List α) :
    ∀ (k i : Nat), i + k ≤ xs.length →
      fetched (fun j => xs[j]?) i k = stdCalls.go i ((xs.drop i).take k) := by
  intro k
  induction k with
  | zero => intro i _; simp [fetched, stdCalls.go]
  | succ k ih =>
    intro i h
    have hi : i < xs.length := by omega
    rw [fetched_succ (a := xs[i]) (by simp [hi]), List.drop_eq_getElem_cons hi, List.take_succ_cons,
      stdCalls.go, ih (i + 1) (by omega)]

theorem legacy_arrayMapL_short_ub (xs : List α) (f : α → β) (c : Nat → α → Outcome β) (lenSeen fuel : Nat)
    (hlt : lenSeen < xs.length) (hf : lenSeen < fuel) (hc : ∀ t a, c t a = .value (f a)) :
    (arrayMapL lenSeen fuel xs c).res = .ub ∧
    (arrayMapL lenSeen fuel xs c).calls = stdCalls (xs.take lenSeen) ∧
    (arrayMapL lenSeen fuel xs c).out[lenSeen]? = some none := by
  have h := mapLoopL_value lenSeen xs.length (fun j => xs[j]?) f c hc
    (by intro j hj; simp; omega) (by omega) lenSeen 0 fuel [] [] (by omega) (by omega) rfl hf
  rw [outOf_nil] at h
  have hne : lenSeen ≠ xs.length := by omega
  refine ⟨by simp [arrayMapL, h, hne], ?_, ?_⟩
  · simp [arrayMapL, h, fetched_eq_go xs lenSeen 0 (by omega), stdCalls]
  · simp only [arrayMapL, h, List.nil_append, outOf, List.length_map]
    have hl : (fetched (fun j => xs[j]?) 0 lenSeen).length = lenSeen := by
      rw [fetched_eq_go xs lenSeen 0 (by omega), stdCalls_go_length]
      simp
      omega
    rw [List.getElem?_append_right (by simp [hl]), List.length_map, List.length_map, hl, Nat.sub_self,
      List.getElem?_replicate]
    simp
    omega

theorem legacy_arrayFromFnL_short_ub (n : Nat) (f : Nat → β) (c : Nat → Nat → Outcome β) (lenSeen fuel : Nat)
    (hlt : lenSeen < n) (hf : lenSeen < fuel) (hc : ∀ t i, c t i = .value (f i)) :
    (arrayFromFnL lenSeen fuel n c).res = .ub ∧
    (arrayFromFnL lenSeen fuel n c).calls = (List.range lenSeen).map (fun i => (i, i)) := by
  have h := mapLoopL_value lenSeen n (fun j => some j) f c hc
    (by intro j _; rfl) (by omega) lenSeen 0 fuel [] [] (by omega) (by omega) rfl hf
  rw [outOf_nil] at h
  have hne : lenSeen ≠ n := by omega
  exact ⟨by simp [arrayFromFnL, h, hne], by simp [arrayFromFnL, h, fetched, List.range_eq_range']⟩

theorem legacy_arrayFromFnL_long_panic (n : Nat) (f : Nat → β) (c : Nat → Nat → Outcome β) (lenSeen fuel : Nat)
    (hlt : n < lenSeen) (hf : n < fuel) (hc : ∀ t i, c t i = .value (f i)) :
    (arrayFromFnL lenSeen fuel n c).res = .panic := by
  have := mapLoopL_long_panic lenSeen n f c hc hlt n 0 fuel [] [] (by omega) (by omega) rfl hf
  rwa [outOf_nil] at this

/-- kernel-checked witnesses: `len` returning 1 for `[10, 11, 12]` -/
example : (arrayMapL 1 10 [10, 11, 12] (fun _ a => .value (2 * a + 1))).res = Res.ub := by decide
example : (arrayMapL 1 10 [10, 11, 12] (fun _ a => .value (2 * a + 1))).out = [some 21, none, none] := by decide
example : (arrayMapL 5 10 [10, 11, 12] (fun _ a => .value (2 * a + 1))).res = Res.panic := by decide
example : (arrayFromFnL 5 10 2 (fun _ i => .value (3 * i + 2))).calls = [(0, 0), (1, 1), (2, 2)] := by decide
example : (legacyMapByValNoNext [10, 11] : ByVal Nat Nat).res = Res.panic := by decide
example : (legacyMapByValNoPush 10 [10, 11] (fun _ a => Outcome.value (2 * a + 1))).res = Res.panic := by decide

/-! ### F11c -/

def legacyFnArmBinders : ClosureArm → List Sk
  | .literal => []
  | .expr => [.bind "func", .bind "__x"]

/-- as found: `match $array { ref array => { let array = ..; [match $v { func =>] { let len; let mut out; let mut i; .. } } }` -/
def legacyArrayMapSk (arm : ClosureArm) : Sk :=
  .block ([.hole "array", .bind "array", .bind "array", .hole "closure"] ++ legacyFnArmBinders arm ++
    [.block [.bind "len", .bind "out", .bind "i", .hole "closure"]])

def legacyArrayFromFnSk (arm : ClosureArm) : Sk :=
  .block ([.bind "input", .bind "arr", .hole "type", .hole "closure"] ++ legacyFnArmBinders arm ++
    [.block [.bind "len", .bind "out", .bind "i", .hole "closure"]])

/-- as found: `[match $v { func =>] match ArrayConsumer::new($array) { mut consumer => { let mut builder; .. elem .. mapped } }` -/
def legacyArrayMapByValSk (arm : ClosureArm) : Sk :=
  .block ([.hole "closure"] ++ legacyFnArmBinders arm ++
    [.hole "array", .bind "consumer", .block [.bind "builder", .bind "elem", .bind "elem", .hole "closure", .bind "mapped"]])

def legacyArrayFromFnByValSk (arm : ClosureArm) : Sk :=
  .block ([.bind "i", .bind "arr", .hole "type", .hole "closure"] ++ legacyFnArmBinders arm ++
    [.bind "consumer", .block [.bind "builder", .bind "elem", .bind "elem", .hole "closure", .bind "mapped"]])

def legacyArrayBinders (mac : String) (arm : ClosureArm) : List String :=
  (match mac with
   | "map" => ["array", "len", "out", "i"]
   | "from_fn" => ["input", "arr", "len", "out", "i"]
   | "map_" => ["consumer", "builder", "elem", "mapped"]
   | _ => ["i", "arr", "consumer", "builder", "elem", "mapped"]) ++
  (match arm with | .literal => [] | .expr => ["func", "__x"])

theorem legacy_arrayMap_transparent_iff (arm : ClosureArm) (frag : Option String) (d : Decl) (n : String) :
    transparentD (legacyArrayMapSk arm) frag d n = true ↔
      ¬ (d.shadowable = false ∧ n ∈ legacyArrayBinders "map" arm) := by
  cases arm <;> cases frag <;> cases d <;> (try rename_i d; cases d) <;>
    simp [transparentD, captured, binderClash, gargClash, legacyArrayMapSk, legacyFnArmBinders, holes, holesL,
      binders, bindersL, gargsFree, gargsFreeL, decl, UserDecl.ns, UserDecl.shadowable, Decl.shadowable,
      legacyArrayBinders, constItems] <;> grind

/-- `const len: usize = 7; map!([1u8, 2], |x| x + 1)` did not compile; a fn / variable called `len` did -/
theorem legacy_transparent_witnesses :
    transparentD (legacyArrayMapSk .literal) none (.item .const) "len" = false ∧
    transparentD (legacyArrayMapSk .literal) (some "closure") (.item .static) "out" = false ∧
    transparentD (legacyArrayFromFnSk .literal) none .ustruct "input" = false ∧
    transparentD (legacyArrayMapByValSk .literal) (some "closure") (.item .const) "elem" = false ∧
    transparentD (legacyArrayFromFnByValSk .expr) (some "closure") (.item .const) "func" = false ∧
    transparentD (legacyArrayMapSk .literal) (some "closure") (.item .const) "func" = true ∧
    transparentD (legacyArrayMapSk .literal) (some "closure") (.item .fn) "len" = true ∧
    transparentD (legacyArrayMapSk .literal) (some "closure") .var "len" = true := by decide

/-! ### F11d (fixed in /repo by b7532cf) — `from_fn!` bound the closure parameter PATTERN to its own loop counter

  As found `array_from_fn!` passed `|i| i` as `$get_input`, so `__array_map` emitted `let $pattern = i;` with the
  loop counter itself on the right: `from_fn!([u8; 4] => |ref mut i| { *i += 1; 7u8 })` compiled, the closure advanced
  the counter, the loop ended after two calls, `assert!(i == len)` held and `array_assume_init` read two slots that
  were never written (observed `[214, 7, 0, 7]`). Regression rows: `arr.pat.from_fn.refmut7.* 4`
  (was `UNWRITTEN|calls=2`), `arr.safe.pat.from_fn.refmut*`. -/

def legacyPatPlace : String → PatPlace
  | "from_fn" => .counter
  | m => patPlace m

theorem legacy_fromFn_refMut_aliases (used : Bool) :
    patVerdict (legacyPatPlace "from_fn") .refMut used = .aliasesCounter := by cases used <;> rfl

/-- the loop of `__array_map` when the closure body holds `&mut` to the counter: `c t i` = (outcome, the value it
    leaves in the counter); `out[i] = ..` uses the counter AFTER the body ran, then `i += 1` -/
def legacyAliasLoop (len : Nat) (c : Nat → Nat → Outcome β × Nat) :
    Nat → Nat → Nat → List (Option β) → List (Nat × Nat) → Run Nat β
  | 0, _, _, out, calls => ⟨.diverge, out, calls⟩
  | fuel + 1, t, i, out, calls =>
    if i < len then
      match c t i with
      | (.value v, i') =>
        if i' < out.length then legacyAliasLoop len c fuel (t + 1) (i' + 1) (out.set i' (some v)) (calls ++ [(t, i)])
        else ⟨.panic, out, calls ++ [(t, i)]⟩
      | (.cont, i') => legacyAliasLoop len c fuel (t + 1) i' out (calls ++ [(t, i)])
      | (.brk, i') => ⟨afterLoop len i' out, out, calls ++ [(t, i)]⟩
      | (.ret, _) => ⟨.returned, out, calls ++ [(t, i)]⟩
      | (.panic, _) => ⟨.panic, out, calls ++ [(t, i)]⟩
    else ⟨afterLoop len i out, out, calls⟩

/-- kernel-checked witness: `from_fn!([u8; 4] => |ref mut i| { *i += 1; 7 })` — two calls, slots 0 and 2 unwritten,
    the assert passes, `assume_init` of unwritten slots -/
theorem legacy_fromFn_refMut_ub :
    let r := legacyAliasLoop 4 (fun _ i => (Outcome.value 7, i + 1)) 10 0 0 (List.replicate 4 none) []
    r.res = Res.ub ∧ r.out = [none, some 7, none, some 7] ∧ r.calls = [(0, 0), (1, 2)] := by decide

/-- a body that leaves the counter alone behaves like the by-value loop -/
example : (legacyAliasLoop 3 (fun _ i => (Outcome.value (3 * i + 2), i)) 10 0 0 (List.replicate 3 none) []).res
    = Res.array [2, 5, 8] := by decide

end Konst.Legacy.ArrayEval
