import KonstVerif.Extracted.Gen.ParsePrim
import KonstVerif.Extracted.Equiv.ParseInt
/-
  Extracted (regenerated from /repo) = Model, for the whole-string functions `konst::primitive::parse_u8 /
  parse_i8 / parse_u32 / parse_i64 / parse_u128 / parse_i128 / parse_usize / parse_bool` (group `ParsePrim`,
  the instances of `define_parse_methods!`; C12).

  Model: `Konst.ParseInt.parseWhole signed bits s : Option Int` / `Konst.ParseInt.parseBoolWhole s : Option Bool`
  (`Model/ParseInt.lean`), the definitions `Props/C12.lean` (`parse_whole_eq_spec`, `parseBool_eq`) is about:
  `some v` ↦ `Ok(v)`, `none` ↦ `Err(ParseIntError { _priv: () })` resp. `Err(ParseBoolError { _priv: () })`
  (`wholeRes`; an unsigned value is a `Nat` in the extraction: `natVal`, as in `Equiv/ParseInt.lean`).

  The panic.  `parseWhole` is built on `MiniParser`, whose `try_parsing!` takes the remainder with `List.drop`
  and therefore has NO panic outcome, while the code calls `str_from`, which panics at a non-char-boundary
  (possible on a byte list that is not a `&str`: "1\x80").  The panic outcome is therefore stated through the
  model that has it, `Konst.Parser.parseInt (Konst.Parser.new s) signed bits` (`Model/Parser.lean`, the model
  `Equiv/ParseInt.lean` relates `Parser::parse_*` to): every `_eq` theorem reads

      prim_parse_T fuel s = if Konst.Parser.parseInt (Konst.Parser.new s) signed bits = .panic then .panic
                            else wholeRes … (parseWhole signed bits s)

  i.e. the code panics exactly when the `Parser` model does, and otherwise returns what `parseWhole` says.
  The `_ok` theorems show that on valid UTF-8 (`Spec.Utf8.Valid s`) there is no panic: the result is
  `Ok(v)` / `Err(..)` with exactly `parseWhole`'s answer.

  Structure: the eight generated functions are instances of ONE text, `primShape err parse`
  (`prim_parse_*_shape`, by running both sides on every result of the called method); `primShape_eq` is proved once from "`parse` = `resOf f` of a model result";
  `parseInt_primOut` / `parseBool_primOut` connect the `Parser` model on `Parser::new(s)` with `parseWhole` /
  `parseBoolWhole`.

  Hypotheses of every theorem: `s.len() < 2^32` (the `u32` offsets of the `Parser` do not wrap), bytes `< 256`
  (for `str_from`'s `as i8` cast), fuel `≥ s.len()` (integers only; `parse_bool` has no loop).
-/
set_option linter.unusedVariables false
namespace Extracted.Equiv
open Rs Konst

/-! ### the one shape behind the eight instances of `define_parse_methods!` -/

/-- the text of `Extracted.prim_parse_u8` with the error value (`ParseIntError { _priv: () }` /
    `ParseBoolError { _priv: () }`) and the called method (`Parser.parse_u8 fuel`, …) as parameters -/
def primShape {E T : Type} (err : E) (parse : Parser → Res (Except ParseError (T × Parser)))
    (s : List Nat) : Res (Except E T) := Ctl.run (ρ := (Except E T)) do
  let t1_ ← Ctl.call (Parser.new s)
  let t2_ ← Ctl.call (parse t1_)
  let t4_ ← (match t2_ with
      | (Except.ok (num, parser)) => do
          let t3_ ← Ctl.call (Parser.fn_is_empty parser)
          if t3_ then do
              pure (Except.ok num)
          else
            (do
                pure (Except.error err))
      | _ =>
          (do
              pure (Except.error err)))
  pure t4_

/-- `Parser::new(s)` as the extracted structure; `toParser (newParser s) = Konst.Parser.new s` by `rfl` -/
def newParser (s : List Nat) : Parser := ⟨.FromStart, false, 0, s⟩

/-- the instances (not by `rfl`: the `match` of the type-generic `primShape` is compiled to its own matcher,
    which only reduces on a constructor — so both sides are run on every result `p` of the called method) -/
local macro "prim_shape " f:ident p:term : tactic =>
  `(tactic| (unfold $f primShape
             rw [show Parser.new _ = .ok (newParser _) from rfl]
             simp only [Ctl.call_ok, Ctl.bind_eq, Ctl.bind_val]
             generalize $p = r
             cases r with
             | ok a => cases a <;> rfl
             | _ => rfl))

theorem prim_parse_u8_shape (fuel : Nat) (s : List Nat) :
    Extracted.prim_parse_u8 fuel s = primShape ({ _priv := () } : ParseIntError) (Parser.parse_u8 fuel) s := by
  prim_shape Extracted.prim_parse_u8 (Parser.parse_u8 fuel (newParser s))
theorem prim_parse_i8_shape (fuel : Nat) (s : List Nat) :
    Extracted.prim_parse_i8 fuel s = primShape ({ _priv := () } : ParseIntError) (Parser.parse_i8 fuel) s := by
  prim_shape Extracted.prim_parse_i8 (Parser.parse_i8 fuel (newParser s))
theorem prim_parse_u32_shape (fuel : Nat) (s : List Nat) :
    Extracted.prim_parse_u32 fuel s = primShape ({ _priv := () } : ParseIntError) (Parser.parse_u32 fuel) s := by
  prim_shape Extracted.prim_parse_u32 (Parser.parse_u32 fuel (newParser s))
theorem prim_parse_i64_shape (fuel : Nat) (s : List Nat) :
    Extracted.prim_parse_i64 fuel s = primShape ({ _priv := () } : ParseIntError) (Parser.parse_i64 fuel) s := by
  prim_shape Extracted.prim_parse_i64 (Parser.parse_i64 fuel (newParser s))
theorem prim_parse_u128_shape (fuel : Nat) (s : List Nat) :
    Extracted.prim_parse_u128 fuel s = primShape ({ _priv := () } : ParseIntError) (Parser.parse_u128 fuel) s := by
  prim_shape Extracted.prim_parse_u128 (Parser.parse_u128 fuel (newParser s))
theorem prim_parse_i128_shape (fuel : Nat) (s : List Nat) :
    Extracted.prim_parse_i128 fuel s = primShape ({ _priv := () } : ParseIntError) (Parser.parse_i128 fuel) s := by
  prim_shape Extracted.prim_parse_i128 (Parser.parse_i128 fuel (newParser s))
theorem prim_parse_usize_shape (fuel : Nat) (s : List Nat) :
    Extracted.prim_parse_usize fuel s = primShape ({ _priv := () } : ParseIntError) (Parser.parse_usize fuel) s := by
  prim_shape Extracted.prim_parse_usize (Parser.parse_usize fuel (newParser s))
theorem prim_parse_bool_shape (s : List Nat) :
    Extracted.prim_parse_bool s = primShape ({ _priv := () } : ParseBoolError) Parser.parse_bool s := by
  prim_shape Extracted.prim_parse_bool (Parser.parse_bool (newParser s))

/-! ### results -/

/-- the model's `Option` as the `Result<T, E>` of the extraction: `some a` ↦ `Ok(g a)`, `none` ↦ `Err(err)`.
    (`g a = none`: a model value with no counterpart in `T`, i.e. a negative number for an unsigned type;
    `.ub` as a marker as in `resOf`.  It does not occur: `parseWhole_unsigned_nonneg`.) -/
def wholeRes {E T A : Type} (err : E) (g : A → Option T) : Option A → Res (Except E T)
  | some a =>
    match g a with
    | some t => .ok (.ok t)
    | none => .ub
  | none => .ok (.error err)

/-- `match r { Ok((num, parser)) if parser.is_empty() => Ok(num), _ => Err(err) }` on a result `r` of the
    `Parser` model (which has the panic outcome) -/
def primOut {E T : Type} (err : E) (f : Konst.Parser.Value → Option T) : Konst.Parser.Res → Res (Except E T)
  | .ok q v => wholeRes err f (if q.str.isEmpty then some v else none)
  | .err _ => .ok (.error err)
  | .panic => .panic

theorem toParser_new (s : List Nat) : toParser (newParser s) = Konst.Parser.new s := rfl

/-- the shape, once: if the called method is `resOf f` of a model result `r` on `Parser::new(s)` (the
    theorems of `Equiv/ParseInt.lean`) and `r` carries values of the right kind, the whole-string function
    is `primOut` of `r` -/
theorem primShape_eq {E T : Type} (err : E) (parse : Parser → Res (Except ParseError (T × Parser)))
    (f : Konst.Parser.Value → Option T) (s : List Nat) (r : Konst.Parser.Res)
    (h : parse (newParser s) = resOf f r)
    (hv : ∀ q v, r = .ok q v → ∃ t, f v = some t) :
    primShape err parse s = primOut err f r := by
  have hnew : Parser.new s = .ok (newParser s) := rfl
  unfold primShape
  rw [hnew, Ctl.call_ok]
  simp only [Ctl.bind_eq, Ctl.bind_val, h]
  cases r with
  | ok q v =>
    obtain ⟨t, ht⟩ := hv q v rfl
    by_cases he : q.str = []
    · simp [resOf, primOut, wholeRes, ht, Parser.fn_is_empty, ofParser, he, Ctl.run]
    · simp [resOf, primOut, wholeRes, ht, Parser.fn_is_empty, ofParser, he, Ctl.run]
  | err e => simp [resOf, primOut, Ctl.run]
  | panic => simp [resOf, primOut, Ctl.run]

/-! ### the `Parser` model on `Parser::new(s)` and the whole-string model -/

/-- where `str_from` does not panic it is `List.drop` -/
theorem strFrom_ok_apply (s : List Nat) (k : Nat) (w : View) (h : Utf8.strFrom s k = .ok w) :
    w.apply s = s.drop k := by
  unfold Utf8.strFrom at h
  by_cases hc : Utf8.isCharBoundaryForgiving s k = true
  · simp only [hc, ↓reduceIte, Except.ok.injEq] at h
    rw [← h]; exact Konst.Lemmas.Parser.sliceFrom_apply' s k
  · simp [hc] at h

theorem parseWhole_closed (signed : Bool) (bits : Nat) (s : List Nat) :
    ParseInt.parseWhole signed bits s =
      match ParseInt.parseIntegerBody signed bits s with
      | none => none
      | some (v, rest) => if (s.drop (s.length - rest.length)).isEmpty then some v else none := by
  unfold ParseInt.parseWhole ParseInt.parserParseInt
  rw [Konst.Lemmas.ParseInt.tryParsing_eq]
  unfold ParseInt.parseIntegerPrefix
  simp only [ParseInt.MiniParser.new]
  cases ParseInt.parseIntegerBody signed bits s with
  | none => rfl
  | some vr => obtain ⟨v, rest⟩ := vr; rfl

theorem parseBoolWhole_closed (s : List Nat) :
    ParseInt.parseBoolWhole s =
      match ParseInt.parseBoolPrefix s with
      | none => none
      | some (b, k) => if (s.drop k).isEmpty then some b else none := by
  unfold ParseInt.parseBoolWhole ParseInt.parserParseBool
  rw [Konst.Lemmas.ParseInt.tryParsing_eq]
  simp only [ParseInt.MiniParser.new]
  cases ParseInt.parseBoolPrefix s with
  | none => rfl
  | some vr => obtain ⟨v, k⟩ := vr; rfl

/-- `Parser::new(s).parse_T()` followed by "remainder empty", in the `Parser` model, is `parseWhole`
    — except for the panic of `str_from`, which `parseWhole` does not have -/
theorem parseInt_primOut {E T : Type} (err : E) (f : Konst.Parser.Value → Option T) (signed : Bool)
    (bits : Nat) (s : List Nat) :
    primOut err f (Konst.Parser.parseInt (Konst.Parser.new s) signed bits) =
      if Konst.Parser.parseInt (Konst.Parser.new s) signed bits = .panic then .panic
      else wholeRes err (fun n => f (.int n)) (ParseInt.parseWhole signed bits s) := by
  have hc := parseInt_closed (newParser s) signed bits
  rw [toParser_new] at hc
  simp only [newParser] at hc
  rw [parseWhole_closed]
  cases hbody : ParseInt.parseIntegerBody signed bits s with
  | none =>
    rw [hbody] at hc
    rw [hc]
    simp [primOut, wholeRes]
  | some vr =>
    obtain ⟨v, rest⟩ := vr
    rw [hbody] at hc
    simp only [] at hc ⊢
    cases hs : Utf8.strFrom s (s.length - rest.length) with
    | error _ =>
      rw [hs] at hc
      rw [hc]
      simp [primOut]
    | ok w =>
      rw [hs] at hc
      rw [hc]
      have hw := strFrom_ok_apply s _ w hs
      simp only [primOut, hw, reduceCtorEq, ↓reduceIte]
      split <;> rfl

theorem parseBool_primOut {E T : Type} (err : E) (f : Konst.Parser.Value → Option T) (s : List Nat) :
    primOut err f (Konst.Parser.parseBool (Konst.Parser.new s)) =
      if Konst.Parser.parseBool (Konst.Parser.new s) = .panic then .panic
      else wholeRes err (fun b => f (.bool b)) (ParseInt.parseBoolWhole s) := by
  have hc := parseBool_closed (newParser s)
  rw [toParser_new] at hc
  simp only [newParser] at hc
  rw [parseBoolWhole_closed]
  cases hbody : ParseInt.parseBoolPrefix s with
  | none =>
    rw [hbody] at hc
    rw [hc]
    simp [primOut, wholeRes]
  | some vr =>
    obtain ⟨v, k⟩ := vr
    rw [hbody] at hc
    simp only [] at hc ⊢
    cases hs : Utf8.strFrom s k with
    | error _ =>
      rw [hs] at hc
      rw [hc]
      simp [primOut]
    | ok w =>
      rw [hs] at hc
      rw [hc]
      have hw := strFrom_ok_apply s _ w hs
      simp only [primOut, hw, reduceCtorEq, ↓reduceIte]
      split <;> rfl

/-- the unsigned instances of `parseWhole` return naturals (so `natVal` is `some` on them) -/
theorem parseWhole_unsigned_nonneg (bits : Nat) (s : List Nat) (n : Int)
    (h : ParseInt.parseWhole false bits s = some n) : 0 ≤ n := by
  rw [parseWhole_closed] at h
  cases hbody : ParseInt.parseIntegerBody false bits s with
  | none => rw [hbody] at h; cases h
  | some vr =>
    obtain ⟨v, rest⟩ := vr
    rw [hbody] at h
    simp only [] at h
    have hv : v = n := by
      by_cases he : (List.drop (s.length - rest.length) s).isEmpty = true
      · simpa [he] using h
      · simp [he] at h
    subst hv
    unfold ParseInt.parseIntegerBody at hbody
    simp only [ParseInt.parseSign, Bool.false_eq_true, if_false] at hbody
    cases hfd : ParseInt.firstDigit bits s with
    | none => rw [hfd] at hbody; cases hbody
    | some x =>
      obtain ⟨n0, b2⟩ := x
      rw [hfd] at hbody
      simp only [] at hbody
      cases hacc : ParseInt.accLoop bits b2 n0 with
      | none => rw [hacc] at hbody; cases hbody
      | some x =>
        obtain ⟨num, r'⟩ := x
        rw [hacc] at hbody
        simp only [ParseInt.applySign, Bool.false_eq_true, if_false, Option.some.injEq, Prod.mk.injEq] at hbody
        rw [← hbody.1]
        exact Int.natCast_nonneg num

/-! ### the integer functions, once -/

/-- every integer instance: from the equivalence theorem of the called `Parser::parse_T` -/
theorem primInt_eq {T : Type} (f : Konst.Parser.Value → Option T) (signed : Bool) (bits : Nat)
    (parse : Parser → Res (Except ParseError (T × Parser))) (s : List Nat)
    (hparse : parse (newParser s) = resOf f (Konst.Parser.parseInt (toParser (newParser s)) signed bits))
    (hf : ∀ n : Int, (signed = false → 0 ≤ n) → ∃ t, f (.int n) = some t) :
    primShape ({ _priv := () } : ParseIntError) parse s =
      if Konst.Parser.parseInt (Konst.Parser.new s) signed bits = .panic then .panic
      else wholeRes ({ _priv := () } : ParseIntError) (fun n => f (.int n)) (ParseInt.parseWhole signed bits s) := by
  rw [← parseInt_primOut]
  refine primShape_eq _ parse f s _ hparse ?_
  intro q v h
  obtain ⟨n, rfl, hn⟩ := parseInt_value (newParser s) signed bits q v h
  exact hf n hn

/-- on a `&str`: no panic, `Ok(t)` / `Err(ParseIntError)` exactly as `parseWhole` says (`g` reads the
    extracted value back as the model's `Int`) -/
theorem primInt_ok {T : Type} (f : Konst.Parser.Value → Option T) (g : T → Int) (signed : Bool) (bits : Nat)
    (x : Res (Except ParseIntError T)) (s : List Nat)
    (hx : x = if Konst.Parser.parseInt (Konst.Parser.new s) signed bits = .panic then .panic
      else wholeRes ({ _priv := () } : ParseIntError) (fun n => f (.int n)) (ParseInt.parseWhole signed bits s))
    (hv : Konst.Spec.Utf8.Valid s)
    (hf : ∀ n : Int, ParseInt.parseWhole signed bits s = some n → ∃ t, f (.int n) = some t ∧ n = g t) :
    (∃ t, ParseInt.parseWhole signed bits s = some (g t) ∧ x = .ok (.ok t)) ∨
    (ParseInt.parseWhole signed bits s = none ∧ x = .ok (.error { _priv := () })) := by
  have hnp := parseInt_ne_panic (Konst.Parser.new s) signed bits hv
  rw [if_neg hnp] at hx
  cases hw : ParseInt.parseWhole signed bits s with
  | none => right; rw [hx, hw]; exact ⟨rfl, rfl⟩
  | some n =>
    left
    obtain ⟨t, ht, hn⟩ := hf n hw
    refine ⟨t, by rw [hn], ?_⟩
    rw [hx, hw]
    simp [wholeRes, ht]

theorem natVal_int (n : Int) (h : 0 ≤ n) : natVal (.int n) = some n.toNat ∧ n = ((n.toNat : Nat) : Int) :=
  ⟨by simp [natVal, h], (Int.toNat_of_nonneg h).symm⟩

/-! ### the eight functions -/

/-- `konst::primitive::parse_u8` = the model's `parseWhole false 8`: `Ok(n)` for `some n`,
    `Err(ParseIntError { _priv: () })` for `none`; a panic (inside `str_from`, when the byte behind the digits
    is a UTF-8 continuation byte — impossible for a `&str`, see `prim_parse_u8_ok`) exactly when the
    `Parser` model of `Parser::new(s).parse_u8()` panics. -/
theorem prim_parse_u8_eq (fuel : Nat) (s : List Nat)
    (hlen : s.length < 2 ^ 32) (hb : ∀ b ∈ s, b < 256) (hf : s.length ≤ fuel) :
    Extracted.prim_parse_u8 fuel s =
      if Konst.Parser.parseInt (Konst.Parser.new s) false 8 = .panic then .panic
      else wholeRes ({ _priv := () } : ParseIntError) (fun n => natVal (.int n)) (ParseInt.parseWhole false 8 s) := by
  rw [prim_parse_u8_shape]
  exact primInt_eq natVal false 8 _ s
    (Parser.parse_u8_eq fuel (newParser s) (by simpa [newParser] using hlen) hb hf)
    fun n hn => natVal_some n (hn rfl)

/-- `konst::primitive::parse_u8` on a `&str` never panics: `Ok(n)` / `Err(..)` exactly as `parseWhole` says -/
theorem prim_parse_u8_ok (fuel : Nat) (s : List Nat)
    (hlen : s.length < 2 ^ 32) (hv : Konst.Spec.Utf8.Valid s) (hf : s.length ≤ fuel) :
    (∃ n : Nat, ParseInt.parseWhole false 8 s = some (n : Int) ∧ Extracted.prim_parse_u8 fuel s = .ok (.ok n)) ∨
    (ParseInt.parseWhole false 8 s = none ∧ Extracted.prim_parse_u8 fuel s = .ok (.error { _priv := () })) :=
  primInt_ok natVal (fun t : Nat => (t : Int)) false 8 _ s
    (prim_parse_u8_eq fuel s hlen (pi_valid_lt_256 hv) hf) hv
    fun n hn => ⟨n.toNat, natVal_int n (parseWhole_unsigned_nonneg 8 s n hn)⟩

/- "12", "12x", "256", "" and (not a `&str`) "1\x80" -/
example : Extracted.prim_parse_u8 2 [49, 50] =
    if Konst.Parser.parseInt (Konst.Parser.new [49, 50]) false 8 = .panic then .panic
    else wholeRes ({ _priv := () } : ParseIntError) (fun n => natVal (.int n)) (ParseInt.parseWhole false 8 [49, 50]) :=
  prim_parse_u8_eq _ _ (by decide) (by decide) (by decide)
example : Extracted.prim_parse_u8 2 [49, 50] = .ok (.ok 12) := by rfl
example : ParseInt.parseWhole false 8 [49, 50] = some 12 := by decide
example : Extracted.prim_parse_u8 3 [49, 50, 120] = .ok (.error { _priv := () }) := by rfl
example : ParseInt.parseWhole false 8 [49, 50, 120] = none := by decide
example : Extracted.prim_parse_u8 3 [50, 53, 54] = .ok (.error { _priv := () }) := by rfl
example : ParseInt.parseWhole false 8 [50, 53, 54] = none := by decide
example : Extracted.prim_parse_u8 0 [] = .ok (.error { _priv := () }) := by rfl
example : Extracted.prim_parse_u8 2 [49, 0x80] = .panic := by rfl
example : Konst.Parser.parseInt (Konst.Parser.new [49, 0x80]) false 8 = .panic := by decide
/- … where `parseWhole` (no panic outcome) says `none`: the `if` of the `_eq` theorems is needed -/
example : ParseInt.parseWhole false 8 [49, 0x80] = none := by decide

theorem prim_parse_i8_eq (fuel : Nat) (s : List Nat)
    (hlen : s.length < 2 ^ 32) (hb : ∀ b ∈ s, b < 256) (hf : s.length ≤ fuel) :
    Extracted.prim_parse_i8 fuel s =
      if Konst.Parser.parseInt (Konst.Parser.new s) true 8 = .panic then .panic
      else wholeRes ({ _priv := () } : ParseIntError) (fun n => intVal (.int n)) (ParseInt.parseWhole true 8 s) := by
  rw [prim_parse_i8_shape]
  exact primInt_eq intVal true 8 _ s
    (Parser.parse_i8_eq fuel (newParser s) (by simpa [newParser] using hlen) hb hf)
    fun n _ => intVal_some n

theorem prim_parse_i8_ok (fuel : Nat) (s : List Nat)
    (hlen : s.length < 2 ^ 32) (hv : Konst.Spec.Utf8.Valid s) (hf : s.length ≤ fuel) :
    (∃ n : Int, ParseInt.parseWhole true 8 s = some n ∧ Extracted.prim_parse_i8 fuel s = .ok (.ok n)) ∨
    (ParseInt.parseWhole true 8 s = none ∧ Extracted.prim_parse_i8 fuel s = .ok (.error { _priv := () })) :=
  primInt_ok intVal id true 8 _ s
    (prim_parse_i8_eq fuel s hlen (pi_valid_lt_256 hv) hf) hv
    fun n _ => ⟨n, rfl, rfl⟩

/- "-128", "128", "-12x" -/
example : Extracted.prim_parse_i8 4 [45, 49, 50, 56] =
    if Konst.Parser.parseInt (Konst.Parser.new [45, 49, 50, 56]) true 8 = .panic then .panic
    else wholeRes ({ _priv := () } : ParseIntError) (fun n => intVal (.int n)) (ParseInt.parseWhole true 8 [45, 49, 50, 56]) :=
  prim_parse_i8_eq _ _ (by decide) (by decide) (by decide)
example : Extracted.prim_parse_i8 4 [45, 49, 50, 56] = .ok (.ok (-128)) := by rfl
example : ParseInt.parseWhole true 8 [45, 49, 50, 56] = some (-128) := by decide
example : Extracted.prim_parse_i8 3 [49, 50, 56] = .ok (.error { _priv := () }) := by rfl
example : Extracted.prim_parse_i8 4 [45, 49, 50, 120] = .ok (.error { _priv := () }) := by rfl

theorem prim_parse_u32_eq (fuel : Nat) (s : List Nat)
    (hlen : s.length < 2 ^ 32) (hb : ∀ b ∈ s, b < 256) (hf : s.length ≤ fuel) :
    Extracted.prim_parse_u32 fuel s =
      if Konst.Parser.parseInt (Konst.Parser.new s) false 32 = .panic then .panic
      else wholeRes ({ _priv := () } : ParseIntError) (fun n => natVal (.int n)) (ParseInt.parseWhole false 32 s) := by
  rw [prim_parse_u32_shape]
  exact primInt_eq natVal false 32 _ s
    (Parser.parse_u32_eq fuel (newParser s) (by simpa [newParser] using hlen) hb hf)
    fun n hn => natVal_some n (hn rfl)

theorem prim_parse_u32_ok (fuel : Nat) (s : List Nat)
    (hlen : s.length < 2 ^ 32) (hv : Konst.Spec.Utf8.Valid s) (hf : s.length ≤ fuel) :
    (∃ n : Nat, ParseInt.parseWhole false 32 s = some (n : Int) ∧ Extracted.prim_parse_u32 fuel s = .ok (.ok n)) ∨
    (ParseInt.parseWhole false 32 s = none ∧ Extracted.prim_parse_u32 fuel s = .ok (.error { _priv := () })) :=
  primInt_ok natVal (fun t : Nat => (t : Int)) false 32 _ s
    (prim_parse_u32_eq fuel s hlen (pi_valid_lt_256 hv) hf) hv
    fun n hn => ⟨n.toNat, natVal_int n (parseWhole_unsigned_nonneg 32 s n hn)⟩

/- "4294967295" and "4294967296" -/
example : Extracted.prim_parse_u32 10 [52,50,57,52,57,54,55,50,57,53] = .ok (.ok 4294967295) := by rfl
example : Extracted.prim_parse_u32 10 [52,50,57,52,57,54,55,50,57,54] = .ok (.error { _priv := () }) := by rfl

theorem prim_parse_i64_eq (fuel : Nat) (s : List Nat)
    (hlen : s.length < 2 ^ 32) (hb : ∀ b ∈ s, b < 256) (hf : s.length ≤ fuel) :
    Extracted.prim_parse_i64 fuel s =
      if Konst.Parser.parseInt (Konst.Parser.new s) true 64 = .panic then .panic
      else wholeRes ({ _priv := () } : ParseIntError) (fun n => intVal (.int n)) (ParseInt.parseWhole true 64 s) := by
  rw [prim_parse_i64_shape]
  exact primInt_eq intVal true 64 _ s
    (Parser.parse_i64_eq fuel (newParser s) (by simpa [newParser] using hlen) hb hf)
    fun n _ => intVal_some n

theorem prim_parse_i64_ok (fuel : Nat) (s : List Nat)
    (hlen : s.length < 2 ^ 32) (hv : Konst.Spec.Utf8.Valid s) (hf : s.length ≤ fuel) :
    (∃ n : Int, ParseInt.parseWhole true 64 s = some n ∧ Extracted.prim_parse_i64 fuel s = .ok (.ok n)) ∨
    (ParseInt.parseWhole true 64 s = none ∧ Extracted.prim_parse_i64 fuel s = .ok (.error { _priv := () })) :=
  primInt_ok intVal id true 64 _ s
    (prim_parse_i64_eq fuel s hlen (pi_valid_lt_256 hv) hf) hv
    fun n _ => ⟨n, rfl, rfl⟩

/- "-9223372036854775808" -/
example : Extracted.prim_parse_i64 20 [45,57,50,50,51,51,55,50,48,51,54,56,53,52,55,55,53,56,48,56]
    = .ok (.ok (-9223372036854775808)) := by rfl

theorem prim_parse_u128_eq (fuel : Nat) (s : List Nat)
    (hlen : s.length < 2 ^ 32) (hb : ∀ b ∈ s, b < 256) (hf : s.length ≤ fuel) :
    Extracted.prim_parse_u128 fuel s =
      if Konst.Parser.parseInt (Konst.Parser.new s) false 128 = .panic then .panic
      else wholeRes ({ _priv := () } : ParseIntError) (fun n => natVal (.int n)) (ParseInt.parseWhole false 128 s) := by
  rw [prim_parse_u128_shape]
  exact primInt_eq natVal false 128 _ s
    (Parser.parse_u128_eq fuel (newParser s) (by simpa [newParser] using hlen) hb hf)
    fun n hn => natVal_some n (hn rfl)

theorem prim_parse_u128_ok (fuel : Nat) (s : List Nat)
    (hlen : s.length < 2 ^ 32) (hv : Konst.Spec.Utf8.Valid s) (hf : s.length ≤ fuel) :
    (∃ n : Nat, ParseInt.parseWhole false 128 s = some (n : Int) ∧ Extracted.prim_parse_u128 fuel s = .ok (.ok n)) ∨
    (ParseInt.parseWhole false 128 s = none ∧ Extracted.prim_parse_u128 fuel s = .ok (.error { _priv := () })) :=
  primInt_ok natVal (fun t : Nat => (t : Int)) false 128 _ s
    (prim_parse_u128_eq fuel s hlen (pi_valid_lt_256 hv) hf) hv
    fun n hn => ⟨n.toNat, natVal_int n (parseWhole_unsigned_nonneg 128 s n hn)⟩

/- "007" and "7 " -/
example : Extracted.prim_parse_u128 3 [48, 48, 55] = .ok (.ok 7) := by rfl
example : Extracted.prim_parse_u128 2 [55, 32] = .ok (.error { _priv := () }) := by rfl

theorem prim_parse_i128_eq (fuel : Nat) (s : List Nat)
    (hlen : s.length < 2 ^ 32) (hb : ∀ b ∈ s, b < 256) (hf : s.length ≤ fuel) :
    Extracted.prim_parse_i128 fuel s =
      if Konst.Parser.parseInt (Konst.Parser.new s) true 128 = .panic then .panic
      else wholeRes ({ _priv := () } : ParseIntError) (fun n => intVal (.int n)) (ParseInt.parseWhole true 128 s) := by
  rw [prim_parse_i128_shape]
  exact primInt_eq intVal true 128 _ s
    (Parser.parse_i128_eq fuel (newParser s) (by simpa [newParser] using hlen) hb hf)
    fun n _ => intVal_some n

theorem prim_parse_i128_ok (fuel : Nat) (s : List Nat)
    (hlen : s.length < 2 ^ 32) (hv : Konst.Spec.Utf8.Valid s) (hf : s.length ≤ fuel) :
    (∃ n : Int, ParseInt.parseWhole true 128 s = some n ∧ Extracted.prim_parse_i128 fuel s = .ok (.ok n)) ∨
    (ParseInt.parseWhole true 128 s = none ∧ Extracted.prim_parse_i128 fuel s = .ok (.error { _priv := () })) :=
  primInt_ok intVal id true 128 _ s
    (prim_parse_i128_eq fuel s hlen (pi_valid_lt_256 hv) hf) hv
    fun n _ => ⟨n, rfl, rfl⟩

/- "-0", "-", "+1" -/
example : Extracted.prim_parse_i128 2 [45, 48] = .ok (.ok 0) := by rfl
example : Extracted.prim_parse_i128 1 [45] = .ok (.error { _priv := () }) := by rfl
example : Extracted.prim_parse_i128 2 [43, 49] = .ok (.error { _priv := () }) := by rfl

/-- `usize` is 64 bits wide (`Konst.USIZE`) -/
theorem prim_parse_usize_eq (fuel : Nat) (s : List Nat)
    (hlen : s.length < 2 ^ 32) (hb : ∀ b ∈ s, b < 256) (hf : s.length ≤ fuel) :
    Extracted.prim_parse_usize fuel s =
      if Konst.Parser.parseInt (Konst.Parser.new s) false 64 = .panic then .panic
      else wholeRes ({ _priv := () } : ParseIntError) (fun n => natVal (.int n)) (ParseInt.parseWhole false 64 s) := by
  rw [prim_parse_usize_shape]
  exact primInt_eq natVal false 64 _ s
    (Parser.parse_usize_eq fuel (newParser s) (by simpa [newParser] using hlen) hb hf)
    fun n hn => natVal_some n (hn rfl)

theorem prim_parse_usize_ok (fuel : Nat) (s : List Nat)
    (hlen : s.length < 2 ^ 32) (hv : Konst.Spec.Utf8.Valid s) (hf : s.length ≤ fuel) :
    (∃ n : Nat, ParseInt.parseWhole false 64 s = some (n : Int) ∧ Extracted.prim_parse_usize fuel s = .ok (.ok n)) ∨
    (ParseInt.parseWhole false 64 s = none ∧ Extracted.prim_parse_usize fuel s = .ok (.error { _priv := () })) :=
  primInt_ok natVal (fun t : Nat => (t : Int)) false 64 _ s
    (prim_parse_usize_eq fuel s hlen (pi_valid_lt_256 hv) hf) hv
    fun n hn => ⟨n.toNat, natVal_int n (parseWhole_unsigned_nonneg 64 s n hn)⟩

/- "18446744073709551615" and "18446744073709551616" -/
example : Extracted.prim_parse_usize 20 [49,56,52,52,54,55,52,52,48,55,51,55,48,57,53,53,49,54,49,53]
    = .ok (.ok 18446744073709551615) := by rfl
example : Extracted.prim_parse_usize 20 [49,56,52,52,54,55,52,52,48,55,51,55,48,57,53,53,49,54,49,54]
    = .ok (.error { _priv := () }) := by rfl

/-! ### `parse_bool` -/

/-- `konst::primitive::parse_bool` = the model's `parseBoolWhole`: `Ok(b)` for `some b`,
    `Err(ParseBoolError { _priv: () })` for `none`; a panic (inside `str_from(self.str, 4)` resp. `5`, when
    that byte is a UTF-8 continuation byte — impossible for a `&str`) exactly when the `Parser` model of
    `Parser::new(s).parse_bool()` panics.  No loop: no fuel. -/
theorem prim_parse_bool_eq (s : List Nat) (hlen : s.length < 2 ^ 32) (hb : ∀ b ∈ s, b < 256) :
    Extracted.prim_parse_bool s =
      if Konst.Parser.parseBool (Konst.Parser.new s) = .panic then .panic
      else wholeRes ({ _priv := () } : ParseBoolError) some (ParseInt.parseBoolWhole s) := by
  rw [prim_parse_bool_shape]
  have h := parseBool_primOut ({ _priv := () } : ParseBoolError) boolVal s
  have hfun : (fun b => boolVal (.bool b)) = some := rfl
  rw [hfun] at h
  rw [← h]
  refine primShape_eq _ _ boolVal s _
    (Parser.parse_bool_eq (newParser s) (by simpa [newParser] using hlen) hb) ?_
  intro q v hq
  obtain ⟨b, rfl⟩ := parseBool_value _ q v hq
  exact ⟨b, rfl⟩

theorem prim_parse_bool_ok (s : List Nat) (hlen : s.length < 2 ^ 32) (hv : Konst.Spec.Utf8.Valid s) :
    (∃ b : Bool, ParseInt.parseBoolWhole s = some b ∧ Extracted.prim_parse_bool s = .ok (.ok b)) ∨
    (ParseInt.parseBoolWhole s = none ∧ Extracted.prim_parse_bool s = .ok (.error { _priv := () })) := by
  rw [prim_parse_bool_eq s hlen (pi_valid_lt_256 hv), if_neg (parseBool_ne_panic _ hv)]
  cases ParseInt.parseBoolWhole s with
  | none => exact .inr ⟨rfl, rfl⟩
  | some b => exact .inl ⟨b, rfl, rfl⟩

/- "true", "false", "tru", "true " and (not a `&str`) "true\x80" -/
example : Extracted.prim_parse_bool [116, 114, 117, 101] =
    if Konst.Parser.parseBool (Konst.Parser.new [116, 114, 117, 101]) = .panic then .panic
    else wholeRes ({ _priv := () } : ParseBoolError) some (ParseInt.parseBoolWhole [116, 114, 117, 101]) :=
  prim_parse_bool_eq _ (by decide) (by decide)
example : Extracted.prim_parse_bool [116, 114, 117, 101] = .ok (.ok true) := by rfl
example : ParseInt.parseBoolWhole [116, 114, 117, 101] = some true := by decide
example : Extracted.prim_parse_bool [102, 97, 108, 115, 101] = .ok (.ok false) := by rfl
example : Extracted.prim_parse_bool [116, 114, 117] = .ok (.error { _priv := () }) := by rfl
example : ParseInt.parseBoolWhole [116, 114, 117] = none := by decide
example : Extracted.prim_parse_bool [116, 114, 117, 101, 32] = .ok (.error { _priv := () }) := by rfl
example : Extracted.prim_parse_bool [116, 114, 117, 101, 0x80] = .panic := by rfl
example : Konst.Parser.parseBool (Konst.Parser.new [116, 114, 117, 101, 0x80]) = .panic := by decide

end Extracted.Equiv
