import KonstVerif.Extracted.Gen.Chars
import KonstVerif.Extracted.Equiv.StrFns
import KonstVerif.Model.Chars
import KonstVerif.Lemmas.Chars
/-
  Extracted (regenerated from /repo) = Model, for `konst::string::chars_methods` (group `Chars`, 14 functions):
  string_to_usv, string_to_char, chars, char_indices, Chars::{next, next_back, as_str},
  RChars::{next, next_back}, CharIndices::{next, next_back, as_str}, RCharIndices::{next, next_back}.

  States.  The generated records hold the remaining string as its byte list (`this_ : List Nat`); the model's
  states hold a `View` into the string `s` the iterator was created from.  `toChars s`, `toRChars s`,
  `toCharIndices s`, `toRCharIndices s` are the correspondences (apply the view to `s`, copy `start_offset`);
  every generated state is the image of a model state (`toChars_whole`, …: take `s := this_` and the whole view).

  Steps (`next` / `next_back` of the four iterator types), two theorems each:
    * `<T>.<fn>_bytes`  — on ARBITRARY byte strings (bytes < 256, machine bounds, fuel): the generated function is
      `charsStepUb … (model step)`: it panics exactly where the model reports a panic (`position -= 1` underflow in
      `__find_prev_char_boundary`, `non_char_boundary_panic`), it is `ub` exactly when the decoded number is not a
      scalar value (`char::from_u32_unchecked` in `string_to_char`; the model's `stringToChar` is the bare number),
      and otherwise returns the model's item and the image of the model's new state.
    * `<T>.<fn>_eq`     — under the precondition that makes the Rust code sound, `Valid (it.this.apply s)` (the
      remaining string is the UTF-8 encoding of scalar values, `Konst.Spec.Utf8.Valid`): the model returns
      `.ok o` (no panic) and the generated function returns `.ok` of the same `o` (no panic, no ub, fuel suffices).

  Machine bounds: `this.len() < 2^64` for the checked `position += 1` of `__find_next_char_boundary`;
  `start_offset + this.len() < 2^64` for the checked `self.start_offset + split_at` of `CharIndices`.
  Fuel: `this.len() + 1` for the `next` block (`__find_next_char_boundary`), `this.len()` for the `next_back`
  block (`__find_prev_char_boundary`).
-/
namespace Extracted.Equiv
open Rs Konst Konst.Utf8 Konst.Chr Konst.Spec.Utf8

namespace CharsAux

theorem shl_mod (x m k : Nat) (h : x < 2 ^ m) (hk : m + k ≤ 32) : (x <<< k) % 2 ^ 32 = x <<< k := by
  apply Nat.mod_eq_of_lt
  rw [Nat.shiftLeft_eq]
  calc x * 2 ^ k < 2 ^ m * 2 ^ k := Nat.mul_lt_mul_of_pos_right h (Nat.two_pow_pos k)
    _ = 2 ^ (m + k) := (Nat.pow_add 2 m k).symm
    _ ≤ 2 ^ 32 := Nat.pow_le_pow_right (by decide) hk

theorem and_lt (a m : Nat) : a &&& (2 ^ m - 1) < 2 ^ m := by
  rw [Nat.and_two_pow_sub_one_eq_mod]; exact Nat.mod_lt _ (Nat.two_pow_pos m)

end CharsAux
open CharsAux

/-! ### `string_to_usv` -/

/-- `string_to_usv` is total and equals the model on EVERY list (no hypothesis: the operands of `<<` are masked
    to at most 6 bits before being shifted by at most 18, so no bit is lost from the `u32`, whatever the bytes;
    in particular for bytes `< 256`).  The shift amounts are constants `< 32`: no panic. -/
theorem string_to_usv_eq (s : List Nat) : Extracted.string_to_usv s = .ok (stringToUsv s) := by
  unfold Extracted.string_to_usv
  match s with
  | [] => rfl
  | [a] => rfl
  | [a, b] =>
    simp only [id, Rs.ushl, Nat.reduceLT, ↓reduceIte, Ctl.bind_eq, Ctl.bind_val, Ctl.pure_eq, Ctl.run_val,
      shl_mod _ 5 6 (and_lt a 5) (by decide), stringToUsv]
  | [a, b, c] =>
    simp only [id, Rs.ushl, Nat.reduceLT, ↓reduceIte, Ctl.bind_eq, Ctl.bind_val, Ctl.pure_eq, Ctl.run_val,
      shl_mod _ 4 12 (and_lt a 4) (by decide), shl_mod _ 6 6 (and_lt b 6) (by decide), stringToUsv]
  | [a, b, c, d] =>
    simp only [id, Rs.ushl, Nat.reduceLT, ↓reduceIte, Ctl.bind_eq, Ctl.bind_val, Ctl.pure_eq, Ctl.run_val,
      shl_mod _ 3 18 (and_lt a 3) (by decide), shl_mod _ 6 12 (and_lt b 6) (by decide),
      shl_mod _ 6 6 (and_lt c 6) (by decide), stringToUsv]
  | _ :: _ :: _ :: _ :: _ :: _ => rfl

example : Extracted.string_to_usv [0xE2, 0x82, 0xAC] = .ok 0x20AC := by decide
example : Extracted.string_to_usv [0xF0, 0x9F, 0x98, 0x80] = .ok (stringToUsv [0xF0, 0x9F, 0x98, 0x80]) :=
  string_to_usv_eq _

/-! ### `string_to_char` -/

/-- `string_to_char` on every byte string: `char::from_u32_unchecked` is `ub` unless the decoded number is a
    scalar value; the model's `stringToChar` is the decoded number itself -/
theorem string_to_char_total (s : List Nat) :
    Extracted.string_to_char s = if isScalar (stringToUsv s) = true then .ok (stringToChar s) else .ub := by
  unfold Extracted.string_to_char Rs.charFromU32Unchecked stringToChar
  simp only [string_to_usv_eq, Ctl.call_ok, Ctl.bind_eq, Ctl.bind_val]
  have h : isScalar (stringToUsv s) = true ↔
      (stringToUsv s < 55296 ∨ (57344 ≤ stringToUsv s ∧ stringToUsv s ≤ 1114111)) := by
    simp [isScalar]; omega
  by_cases hc : isScalar (stringToUsv s) = true
  · simp [hc, h.mp hc]
  · have hn : ¬ (stringToUsv s < 55296 ∨ (57344 ≤ stringToUsv s ∧ stringToUsv s ≤ 1114111)) :=
      fun x => hc (h.mpr x)
    rw [if_neg hn, if_neg hc]; rfl

/-- the precondition that makes `string_to_char` sound: the decoded number is a scalar value -/
theorem string_to_char_eq (s : List Nat) (h : isScalar (stringToUsv s) = true) :
    Extracted.string_to_char s = .ok (stringToChar s) := by
  rw [string_to_char_total, if_pos h]

theorem string_to_char_ub (s : List Nat) (h : isScalar (stringToUsv s) = false) :
    Extracted.string_to_char s = .ub := by
  rw [string_to_char_total, if_neg (by simp [h])]

/-- on a valid one-character string (`enc c`, `c` a scalar value — what `Chars`/`CharIndices` pass):
    no `ub`, the model's value, which is `c` -/
theorem string_to_char_enc (c : Nat) (hc : isScalar c = true) :
    Extracted.string_to_char (enc c) = .ok (stringToChar (enc c)) ∧ stringToChar (enc c) = c := by
  have h := Lemmas.Utf8.stringToUsv_enc c (by have := Lemmas.Utf8.isScalar_lt c hc; omega)
  exact ⟨string_to_char_eq _ (by rw [h]; exact hc), h⟩

example : Extracted.string_to_char [0xE2, 0x82, 0xAC] = .ok 0x20AC := by decide
example : Extracted.string_to_char [0xED, 0xA0, 0x80] = .ub := by decide
example : Extracted.string_to_char [0xF0, 0x9F, 0x98, 0x80] = .ok (stringToChar [0xF0, 0x9F, 0x98, 0x80]) :=
  string_to_char_eq _ (by decide)
example : Extracted.string_to_char (enc 0x1F600) = .ok (stringToChar (enc 0x1F600)) :=
  (string_to_char_enc 0x1F600 (by decide)).1

/-! ### state correspondences -/

/-- model state ↦ generated record: the remaining string is the view applied to `s` -/
def toChars (s : List Nat) (it : Konst.Chars.Chars) : Extracted.Chars := ⟨it.this.apply s⟩
def toRChars (s : List Nat) (it : Konst.Chars.RChars) : Extracted.RChars := ⟨it.this.apply s⟩
def toCharIndices (s : List Nat) (it : Konst.Chars.CharIndices) : Extracted.CharIndices :=
  ⟨it.this.apply s, it.startOffset⟩
def toRCharIndices (s : List Nat) (it : Konst.Chars.RCharIndices) : Extracted.RCharIndices :=
  ⟨it.this.apply s, it.startOffset⟩

@[simp] theorem toChars_whole (l : List Nat) : toChars l ⟨⟨0, l.length⟩⟩ = ⟨l⟩ := by
  simp [toChars, whole_apply]
@[simp] theorem toRChars_whole (l : List Nat) : toRChars l ⟨⟨0, l.length⟩⟩ = ⟨l⟩ := by
  simp [toRChars, whole_apply]
@[simp] theorem toCharIndices_whole (l : List Nat) (off : Nat) :
    toCharIndices l ⟨⟨0, l.length⟩, off⟩ = ⟨l, off⟩ := by
  simp [toCharIndices, whole_apply]
@[simp] theorem toRCharIndices_whole (l : List Nat) (off : Nat) :
    toRCharIndices l ⟨⟨0, l.length⟩, off⟩ = ⟨l, off⟩ := by
  simp [toRCharIndices, whole_apply]

/-- the model's step result (`Except Panic (Option (item × state))`) as the result of the generated function on
    arbitrary bytes: a model panic is a panic; an item whose decoded number `chr x` is not a scalar value is
    the `ub` of `char::from_u32_unchecked`; the new state is mapped by `f` -/
def charsStepUb {ι σ τ : Type} (chr : ι → Nat) (f : σ → τ) :
    Except Panic (Option (ι × σ)) → Res (Option (ι × τ))
  | .error _ => .panic
  | .ok none => .ok none
  | .ok (some (x, st)) => if isScalar (chr x) = true then .ok (some (x, f st)) else .ub

namespace CharsAux

theorem apply_length_le {α : Type} (v : View) (s : List α) : (v.apply s).length ≤ v.len := by
  simp only [View.apply, List.length_take]; omega

theorem comp_apply' {α : Type} (v w : View) (s : List α) (h : w.off + w.len ≤ (v.apply s).length) :
    (v.comp w).apply s = w.apply (v.apply s) :=
  comp_apply v w s (Nat.le_trans h (apply_length_le v s))

theorem sliceUpTo_fits (len k : Nat) :
    (Slice.sliceUpTo len k).off + (Slice.sliceUpTo len k).len ≤ len := by
  unfold Slice.sliceUpTo Slice.sliceUpToImpl overflowingSub
  by_cases h : k ≤ len <;> simp [h]

theorem splitAt_ok_inv {str : List Nat} {k : Nat} {a b : View} (h : Utf8.splitAt str k = .ok (a, b)) :
    a = Slice.sliceUpTo str.length k ∧ b = Slice.sliceFrom str.length k := by
  unfold Utf8.splitAt Utf8.strUpTo Utf8.strFrom at h
  cases ht : isCharBoundaryForgiving str k <;>
    simp [ht, bind, Except.bind, pure, Except.pure] at h
  exact ⟨h.1.symm, h.2.symm⟩

theorem findPrevLoop_le (bytes : List Nat) (p k : Nat) (h : findPrevLoop bytes p = some k) : k ≤ p := by
  induction p with
  | zero =>
    by_cases ht : isCharBoundaryForgiving bytes 0 = true <;> simp [findPrevLoop, ht] at h
    omega
  | succ p ih =>
    by_cases ht : isCharBoundaryForgiving bytes (p + 1) = true
    · simp [findPrevLoop, ht] at h; omega
    · simp only [findPrevLoop, ht, Bool.false_eq_true, ↓reduceIte] at h
      have := ih h; omega

theorem isEmpty_false_pos {α : Type} {l : List α} (h : ¬ l.isEmpty = true) : 0 < l.length := by
  cases l with
  | nil => simp at h
  | cons x xs => simp

end CharsAux

/-! ### `chars`, `char_indices`, `as_str` -/

/-- `chars(string) = Chars { this: string }`: the model's whole-string view -/
theorem chars_eq (s : List Nat) : Extracted.chars s = .ok (toChars s (Konst.Chars.chars s)) := by
  simp [Extracted.chars, toChars, Konst.Chars.chars, whole_apply]

example : Extracted.chars [0x41, 0xE2] = .ok ⟨[0x41, 0xE2]⟩ := by decide
example : Extracted.chars [0x41, 0xE2] = .ok (toChars [0x41, 0xE2] (Konst.Chars.chars [0x41, 0xE2])) := chars_eq _

theorem char_indices_eq (s : List Nat) :
    Extracted.char_indices s = .ok (toCharIndices s (Konst.Chars.charIndices s)) := by
  simp [Extracted.char_indices, toCharIndices, Konst.Chars.charIndices, whole_apply]

example : Extracted.char_indices [0x41, 0xE2] = .ok ⟨[0x41, 0xE2], 0⟩ := by decide
example : Extracted.char_indices [0x41, 0xE2]
    = .ok (toCharIndices [0x41, 0xE2] (Konst.Chars.charIndices [0x41, 0xE2])) := char_indices_eq _

/-- `as_str` returns the remaining string: the model's view applied to `s` -/
theorem Chars.as_str_eq (s : List Nat) (it : Konst.Chars.Chars) :
    Extracted.Chars.as_str (toChars s it) = .ok (it.asStr.apply s) := rfl

example : Extracted.Chars.as_str (toChars [1, 2, 3, 4] ⟨⟨1, 2⟩⟩) = .ok [2, 3] := by decide

theorem CharIndices.as_str_eq (s : List Nat) (it : Konst.Chars.CharIndices) :
    Extracted.CharIndices.as_str (toCharIndices s it) = .ok (it.asStr.apply s) := rfl

example : Extracted.CharIndices.as_str (toCharIndices [1, 2, 3, 4] ⟨⟨1, 2⟩, 1⟩) = .ok [2, 3] := by decide

/-! ### `Chars::next` -/

/-- `Chars::next` on arbitrary bytes (the `next` block: `__find_next_char_boundary(bytes, 0)`, `split_at`,
    `string_to_char(prev)`): never panics here in fact (the found position always passes the forgiving test),
    `ub` iff the decoded first "character" is not a scalar value -/
theorem Chars.next_bytes (fuel : Nat) (s : List Nat) (it : Konst.Chars.Chars)
    (hb : ∀ b ∈ it.this.apply s, b < 256)
    (hl : (it.this.apply s).length < 2 ^ 64)
    (hf : (it.this.apply s).length + 1 ≤ fuel) :
    Extracted.Chars.next fuel (toChars s it)
      = charsStepUb id (toChars s) (Konst.Chars.Chars.next s it) := by
  unfold Extracted.Chars.next Konst.Chars.Chars.next toChars
  generalize hthis : it.this.apply s = this at *
  by_cases he : this.isEmpty = true
  · simp [he, charsStepUb]
  · simp only [he, Bool.false_eq_true, ↓reduceIte, Ctl.pure_eq, Ctl.bind_eq, Ctl.bind_val,
      find_next_char_boundary_eq fuel this 0 hb (by decide) hl (by omega), Ctl.call_ok,
      str_split_at_eq _ _ hb]
    cases hsp : Utf8.splitAt this (findNextCharBoundary this 0) with
    | error p => simp [charsStepUb]
    | ok pr =>
      obtain ⟨prev, next⟩ := pr
      obtain ⟨h1, h2⟩ := splitAt_ok_inv hsp
      have hc : (it.this.comp next).apply s = next.apply this := by
        rw [comp_apply' _ _ _ (by rw [hthis, h2]; exact sliceFrom_fits _ _), hthis]
      simp only [resOfExceptPair_ok, Ctl.call_ok, Ctl.bind_val, string_to_char_total, charsStepUb, id, hc]
      by_cases hs : isScalar (stringToUsv (prev.apply this)) = true
      · simp [hs, stringToChar]
      · simp [hs, stringToChar, Ctl.run]

example : Extracted.Chars.next 5 ⟨[0xE2, 0x82, 0xAC, 0x41]⟩ = .ok (some (0x20AC, ⟨[0x41]⟩)) := by decide
example : Extracted.Chars.next 5 ⟨[0xED, 0xA0, 0x80, 0x41]⟩ = .ub := by decide
example : Extracted.Chars.next 5 ⟨[0xED, 0xA0, 0x80, 0x41]⟩
    = charsStepUb id (toChars [0xED, 0xA0, 0x80, 0x41])
        (Konst.Chars.Chars.next [0xED, 0xA0, 0x80, 0x41] ⟨⟨0, 4⟩⟩) :=
  Chars.next_bytes 5 [0xED, 0xA0, 0x80, 0x41] ⟨⟨0, 4⟩⟩ (by decide) (by decide) (by decide)

/-! ### `Chars::next_back` -/

/-- `Chars::next_back` on arbitrary bytes (the `next_back` block: `__find_prev_char_boundary(bytes, len)`,
    `split_at`, `string_to_char(next)`): panics iff the model reports the `position -= 1` underflow (no byte
    passing the boundary test at or before `len - 1`), `ub` iff the decoded number is not a scalar value -/
theorem Chars.next_back_bytes (fuel : Nat) (s : List Nat) (it : Konst.Chars.Chars)
    (hb : ∀ b ∈ it.this.apply s, b < 256)
    (hf : (it.this.apply s).length ≤ fuel) :
    Extracted.Chars.next_back fuel (toChars s it)
      = charsStepUb id (toChars s) (Konst.Chars.Chars.nextBack s it) := by
  unfold Extracted.Chars.next_back Konst.Chars.Chars.nextBack toChars
  generalize hthis : it.this.apply s = this at *
  by_cases he : this.isEmpty = true
  · simp [he, charsStepUb]
  · have hpos := isEmpty_false_pos he
    simp only [he, Bool.false_eq_true, ↓reduceIte, Ctl.pure_eq, Ctl.bind_eq, Ctl.bind_val,
      find_prev_char_boundary_eq fuel this this.length hb (by omega)]
    cases hfp : findPrevCharBoundary this this.length with
    | none => simp [charsStepUb, Ctl.run]
    | some k =>
      simp only [resOfOption_some, Ctl.call_ok, Ctl.bind_val, str_split_at_eq _ _ hb]
      cases hsp : Utf8.splitAt this k with
      | error p => simp [charsStepUb]
      | ok pr =>
        obtain ⟨prev, next⟩ := pr
        obtain ⟨h1, h2⟩ := splitAt_ok_inv hsp
        have hc : (it.this.comp prev).apply s = prev.apply this := by
          rw [comp_apply' _ _ _ (by rw [hthis, h1]; exact sliceUpTo_fits _ _), hthis]
        simp only [resOfExceptPair_ok, Ctl.call_ok, Ctl.bind_val, string_to_char_total, charsStepUb, id, hc]
        by_cases hs : isScalar (stringToUsv (next.apply this)) = true
        · simp [hs, stringToChar]
        · simp [hs, stringToChar, Ctl.run]

example : Extracted.Chars.next_back 4 ⟨[0x41, 0xE2, 0x82, 0xAC]⟩ = .ok (some (0x20AC, ⟨[0x41]⟩)) := by decide
example : Extracted.Chars.next_back 2 ⟨[0x82, 0xAC]⟩ = .panic := by decide
example : Extracted.Chars.next_back 2 ⟨[0x82, 0xAC]⟩
    = charsStepUb id (toChars [0x82, 0xAC]) (Konst.Chars.Chars.nextBack [0x82, 0xAC] ⟨⟨0, 2⟩⟩) :=
  Chars.next_back_bytes 2 [0x82, 0xAC] ⟨⟨0, 2⟩⟩ (by decide) (by decide)

/-! ### `CharIndices::next`, `CharIndices::next_back` -/

theorem CharIndices.next_bytes (fuel : Nat) (s : List Nat) (it : Konst.Chars.CharIndices)
    (hb : ∀ b ∈ it.this.apply s, b < 256)
    (hl : it.startOffset + (it.this.apply s).length < 2 ^ 64)
    (hf : (it.this.apply s).length + 1 ≤ fuel) :
    Extracted.CharIndices.next fuel (toCharIndices s it)
      = charsStepUb Prod.snd (toCharIndices s) (Konst.Chars.CharIndices.next s it) := by
  unfold Extracted.CharIndices.next Konst.Chars.CharIndices.next toCharIndices
  generalize hthis : it.this.apply s = this at *
  by_cases he : this.isEmpty = true
  · simp [he, charsStepUb]
  · have hpos := isEmpty_false_pos he
    have hk : it.startOffset + findNextCharBoundary this 0 < 2 ^ 64 := by
      have := findNext_le this 0; omega
    simp only [he, Bool.false_eq_true, ↓reduceIte, Ctl.pure_eq, Ctl.bind_eq, Ctl.bind_val,
      find_next_char_boundary_eq fuel this 0 hb (by decide) (by omega) (by omega), Ctl.call_ok,
      str_split_at_eq _ _ hb]
    cases hsp : Utf8.splitAt this (findNextCharBoundary this 0) with
    | error p => simp [charsStepUb]
    | ok pr =>
      obtain ⟨prev, next⟩ := pr
      obtain ⟨h1, h2⟩ := splitAt_ok_inv hsp
      have hc : (it.this.comp next).apply s = next.apply this := by
        rw [comp_apply' _ _ _ (by rw [hthis, h2]; exact sliceFrom_fits _ _), hthis]
      simp only [resOfExceptPair_ok, Ctl.call_ok, Ctl.bind_val, Rs.uadd, hk, ↓reduceIte,
        string_to_char_total, charsStepUb, hc]
      by_cases hs : isScalar (stringToUsv (prev.apply this)) = true
      · simp [hs, stringToChar]
      · simp [hs, stringToChar, Ctl.run]

example : Extracted.CharIndices.next 5 ⟨[0xE2, 0x82, 0xAC, 0x41], 7⟩
    = .ok (some ((7, 0x20AC), ⟨[0x41], 10⟩)) := by decide
/-- without the machine bound the checked `self.start_offset + split_at` panics -/
example : Extracted.CharIndices.next 5 ⟨[0xE2, 0x82, 0xAC, 0x41], 2 ^ 64 - 2⟩ = .panic := by decide

theorem CharIndices.next_back_bytes (fuel : Nat) (s : List Nat) (it : Konst.Chars.CharIndices)
    (hb : ∀ b ∈ it.this.apply s, b < 256)
    (hl : it.startOffset + (it.this.apply s).length < 2 ^ 64)
    (hf : (it.this.apply s).length ≤ fuel) :
    Extracted.CharIndices.next_back fuel (toCharIndices s it)
      = charsStepUb Prod.snd (toCharIndices s) (Konst.Chars.CharIndices.nextBack s it) := by
  unfold Extracted.CharIndices.next_back Konst.Chars.CharIndices.nextBack toCharIndices
  generalize hthis : it.this.apply s = this at *
  by_cases he : this.isEmpty = true
  · simp [he, charsStepUb]
  · have hpos := isEmpty_false_pos he
    simp only [he, Bool.false_eq_true, ↓reduceIte, Ctl.pure_eq, Ctl.bind_eq, Ctl.bind_val,
      find_prev_char_boundary_eq fuel this this.length hb (by omega)]
    cases hfp : findPrevCharBoundary this this.length with
    | none => simp [charsStepUb, Ctl.run]
    | some k =>
      have hk : it.startOffset + k < 2 ^ 64 := by
        have := findPrevLoop_le this _ k hfp; omega
      simp only [resOfOption_some, Ctl.call_ok, Ctl.bind_val, str_split_at_eq _ _ hb]
      cases hsp : Utf8.splitAt this k with
      | error p => simp [charsStepUb]
      | ok pr =>
        obtain ⟨prev, next⟩ := pr
        obtain ⟨h1, h2⟩ := splitAt_ok_inv hsp
        have hc : (it.this.comp prev).apply s = prev.apply this := by
          rw [comp_apply' _ _ _ (by rw [hthis, h1]; exact sliceUpTo_fits _ _), hthis]
        simp only [resOfExceptPair_ok, Ctl.call_ok, Ctl.bind_val, Rs.uadd, hk, ↓reduceIte,
          string_to_char_total, charsStepUb, hc]
        by_cases hs : isScalar (stringToUsv (next.apply this)) = true
        · simp [hs, stringToChar]
        · simp [hs, stringToChar, Ctl.run]

example : Extracted.CharIndices.next_back 4 ⟨[0x41, 0xE2, 0x82, 0xAC], 7⟩
    = .ok (some ((8, 0x20AC), ⟨[0x41], 7⟩)) := by decide

/-! ### `RChars::next`, `RChars::next_back` (the two blocks swapped) -/

theorem RChars.next_bytes (fuel : Nat) (s : List Nat) (it : Konst.Chars.RChars)
    (hb : ∀ b ∈ it.this.apply s, b < 256)
    (hf : (it.this.apply s).length ≤ fuel) :
    Extracted.RChars.next fuel (toRChars s it)
      = charsStepUb id (toRChars s) (Konst.Chars.RChars.next s it) := by
  unfold Extracted.RChars.next Konst.Chars.RChars.next Konst.Chars.Chars.nextBack toRChars
  dsimp only [Konst.Chars.RChars.rev]
  generalize hthis : it.this.apply s = this at *
  by_cases he : this.isEmpty = true
  · simp [he, charsStepUb, Konst.Chars.mapSt]
  · have hpos := isEmpty_false_pos he
    simp only [he, Bool.false_eq_true, ↓reduceIte, Ctl.pure_eq, Ctl.bind_eq, Ctl.bind_val,
      find_prev_char_boundary_eq fuel this this.length hb (by omega)]
    cases hfp : findPrevCharBoundary this this.length with
    | none => simp [charsStepUb, Ctl.run, Konst.Chars.mapSt]
    | some k =>
      simp only [resOfOption_some, Ctl.call_ok, Ctl.bind_val, str_split_at_eq _ _ hb]
      cases hsp : Utf8.splitAt this k with
      | error p => simp [charsStepUb, Konst.Chars.mapSt]
      | ok pr =>
        obtain ⟨prev, next⟩ := pr
        obtain ⟨h1, h2⟩ := splitAt_ok_inv hsp
        have hc : (it.this.comp prev).apply s = prev.apply this := by
          rw [comp_apply' _ _ _ (by rw [hthis, h1]; exact sliceUpTo_fits _ _), hthis]
        simp only [resOfExceptPair_ok, Ctl.call_ok, Ctl.bind_val, string_to_char_total, charsStepUb, id, hc,
          Konst.Chars.mapSt, Konst.Chars.Chars.rev]
        by_cases hs : isScalar (stringToUsv (next.apply this)) = true
        · simp [hs, stringToChar]
        · simp [hs, stringToChar, Ctl.run]

example : Extracted.RChars.next 4 ⟨[0x41, 0xE2, 0x82, 0xAC]⟩ = .ok (some (0x20AC, ⟨[0x41]⟩)) := by decide

theorem RChars.next_back_bytes (fuel : Nat) (s : List Nat) (it : Konst.Chars.RChars)
    (hb : ∀ b ∈ it.this.apply s, b < 256)
    (hl : (it.this.apply s).length < 2 ^ 64)
    (hf : (it.this.apply s).length + 1 ≤ fuel) :
    Extracted.RChars.next_back fuel (toRChars s it)
      = charsStepUb id (toRChars s) (Konst.Chars.RChars.nextBack s it) := by
  unfold Extracted.RChars.next_back Konst.Chars.RChars.nextBack Konst.Chars.Chars.next toRChars
  dsimp only [Konst.Chars.RChars.rev]
  generalize hthis : it.this.apply s = this at *
  by_cases he : this.isEmpty = true
  · simp [he, charsStepUb, Konst.Chars.mapSt]
  · simp only [he, Bool.false_eq_true, ↓reduceIte, Ctl.pure_eq, Ctl.bind_eq, Ctl.bind_val,
      find_next_char_boundary_eq fuel this 0 hb (by decide) hl (by omega), Ctl.call_ok,
      str_split_at_eq _ _ hb]
    cases hsp : Utf8.splitAt this (findNextCharBoundary this 0) with
    | error p => simp [charsStepUb, Konst.Chars.mapSt]
    | ok pr =>
      obtain ⟨prev, next⟩ := pr
      obtain ⟨h1, h2⟩ := splitAt_ok_inv hsp
      have hc : (it.this.comp next).apply s = next.apply this := by
        rw [comp_apply' _ _ _ (by rw [hthis, h2]; exact sliceFrom_fits _ _), hthis]
      simp only [resOfExceptPair_ok, Ctl.call_ok, Ctl.bind_val, string_to_char_total, charsStepUb, id, hc,
        Konst.Chars.mapSt, Konst.Chars.Chars.rev]
      by_cases hs : isScalar (stringToUsv (prev.apply this)) = true
      · simp [hs, stringToChar]
      · simp [hs, stringToChar, Ctl.run]

example : Extracted.RChars.next_back 5 ⟨[0xE2, 0x82, 0xAC, 0x41]⟩ = .ok (some (0x20AC, ⟨[0x41]⟩)) := by decide

/-! ### `RCharIndices::next`, `RCharIndices::next_back` -/

theorem RCharIndices.next_bytes (fuel : Nat) (s : List Nat) (it : Konst.Chars.RCharIndices)
    (hb : ∀ b ∈ it.this.apply s, b < 256)
    (hl : it.startOffset + (it.this.apply s).length < 2 ^ 64)
    (hf : (it.this.apply s).length ≤ fuel) :
    Extracted.RCharIndices.next fuel (toRCharIndices s it)
      = charsStepUb Prod.snd (toRCharIndices s) (Konst.Chars.RCharIndices.next s it) := by
  unfold Extracted.RCharIndices.next Konst.Chars.RCharIndices.next Konst.Chars.CharIndices.nextBack
    toRCharIndices
  dsimp only [Konst.Chars.RCharIndices.rev]
  generalize hthis : it.this.apply s = this at *
  by_cases he : this.isEmpty = true
  · simp [he, charsStepUb, Konst.Chars.mapSt]
  · have hpos := isEmpty_false_pos he
    simp only [he, Bool.false_eq_true, ↓reduceIte, Ctl.pure_eq, Ctl.bind_eq, Ctl.bind_val,
      find_prev_char_boundary_eq fuel this this.length hb (by omega)]
    cases hfp : findPrevCharBoundary this this.length with
    | none => simp [charsStepUb, Ctl.run, Konst.Chars.mapSt]
    | some k =>
      have hk : it.startOffset + k < 2 ^ 64 := by
        have := findPrevLoop_le this _ k hfp; omega
      simp only [resOfOption_some, Ctl.call_ok, Ctl.bind_val, str_split_at_eq _ _ hb]
      cases hsp : Utf8.splitAt this k with
      | error p => simp [charsStepUb, Konst.Chars.mapSt]
      | ok pr =>
        obtain ⟨prev, next⟩ := pr
        obtain ⟨h1, h2⟩ := splitAt_ok_inv hsp
        have hc : (it.this.comp prev).apply s = prev.apply this := by
          rw [comp_apply' _ _ _ (by rw [hthis, h1]; exact sliceUpTo_fits _ _), hthis]
        simp only [resOfExceptPair_ok, Ctl.call_ok, Ctl.bind_val, Rs.uadd, hk, ↓reduceIte,
          string_to_char_total, charsStepUb, hc, Konst.Chars.mapSt, Konst.Chars.CharIndices.rev]
        by_cases hs : isScalar (stringToUsv (next.apply this)) = true
        · simp [hs, stringToChar]
        · simp [hs, stringToChar, Ctl.run]

example : Extracted.RCharIndices.next 4 ⟨[0x41, 0xE2, 0x82, 0xAC], 7⟩
    = .ok (some ((8, 0x20AC), ⟨[0x41], 7⟩)) := by decide

theorem RCharIndices.next_back_bytes (fuel : Nat) (s : List Nat) (it : Konst.Chars.RCharIndices)
    (hb : ∀ b ∈ it.this.apply s, b < 256)
    (hl : it.startOffset + (it.this.apply s).length < 2 ^ 64)
    (hf : (it.this.apply s).length + 1 ≤ fuel) :
    Extracted.RCharIndices.next_back fuel (toRCharIndices s it)
      = charsStepUb Prod.snd (toRCharIndices s) (Konst.Chars.RCharIndices.nextBack s it) := by
  unfold Extracted.RCharIndices.next_back Konst.Chars.RCharIndices.nextBack Konst.Chars.CharIndices.next
    toRCharIndices
  dsimp only [Konst.Chars.RCharIndices.rev]
  generalize hthis : it.this.apply s = this at *
  by_cases he : this.isEmpty = true
  · simp [he, charsStepUb, Konst.Chars.mapSt]
  · have hpos := isEmpty_false_pos he
    have hk : it.startOffset + findNextCharBoundary this 0 < 2 ^ 64 := by
      have := findNext_le this 0; omega
    simp only [he, Bool.false_eq_true, ↓reduceIte, Ctl.pure_eq, Ctl.bind_eq, Ctl.bind_val,
      find_next_char_boundary_eq fuel this 0 hb (by decide) (by omega) (by omega), Ctl.call_ok,
      str_split_at_eq _ _ hb]
    cases hsp : Utf8.splitAt this (findNextCharBoundary this 0) with
    | error p => simp [charsStepUb, Konst.Chars.mapSt]
    | ok pr =>
      obtain ⟨prev, next⟩ := pr
      obtain ⟨h1, h2⟩ := splitAt_ok_inv hsp
      have hc : (it.this.comp next).apply s = next.apply this := by
        rw [comp_apply' _ _ _ (by rw [hthis, h2]; exact sliceFrom_fits _ _), hthis]
      simp only [resOfExceptPair_ok, Ctl.call_ok, Ctl.bind_val, Rs.uadd, hk, ↓reduceIte,
        string_to_char_total, charsStepUb, hc, Konst.Chars.mapSt, Konst.Chars.CharIndices.rev]
      by_cases hs : isScalar (stringToUsv (prev.apply this)) = true
      · simp [hs, stringToChar]
      · simp [hs, stringToChar, Ctl.run]

example : Extracted.RCharIndices.next_back 5 ⟨[0xE2, 0x82, 0xAC, 0x41], 7⟩
    = .ok (some ((7, 0x20AC), ⟨[0x41], 10⟩)) := by decide

/-! ### valid strings: no panic, no ub, the model's value -/

/-- the item/state pair of a step, with the state mapped to the generated record -/
def charsItem {ι σ τ : Type} (f : σ → τ) (o : Option (ι × σ)) : Option (ι × τ) :=
  o.map (fun p => (p.1, f p.2))

namespace CharsAux

theorem valid_lt_256 {l : List Nat} (h : Valid l) : ∀ b ∈ l, b < 256 := by
  obtain ⟨cs, hs, rfl⟩ := h
  exact Lemmas.Utf8.encs_lt_256 cs hs

/-- "the model's step returns normally and the decoded item is a scalar value" -/
def OkScalar {ι σ : Type} (chr : ι → Nat) (r : Except Panic (Option (ι × σ))) : Prop :=
  ∃ o, r = .ok o ∧ ∀ x st, o = some (x, st) → isScalar (chr x) = true

theorem OkScalar.mapSt {ι σ τ : Type} {chr : ι → Nat} {r : Except Panic (Option (ι × σ))} (f : σ → τ)
    (h : OkScalar chr r) : OkScalar chr (Konst.Chars.mapSt f r) := by
  obtain ⟨o, rfl, h⟩ := h
  cases o with
  | none => exact ⟨none, rfl, by simp⟩
  | some p =>
    obtain ⟨x, st⟩ := p
    refine ⟨some (x, f st), rfl, ?_⟩
    intro x' st' e
    simp only [Option.some.injEq, Prod.mk.injEq] at e
    rw [← e.1]; exact h x st rfl

theorem OkScalar.finish {ι σ τ : Type} {chr : ι → Nat} {r : Except Panic (Option (ι × σ))} (f : σ → τ)
    {code : Res (Option (ι × τ))} (h : OkScalar chr r) (hcode : code = charsStepUb chr f r) :
    ∃ o, r = .ok o ∧ code = .ok (charsItem f o) := by
  obtain ⟨o, rfl, h⟩ := h
  refine ⟨o, rfl, ?_⟩
  rw [hcode]
  cases o with
  | none => rfl
  | some p =>
    obtain ⟨x, st⟩ := p
    simp [charsStepUb, charsItem, h x st rfl]

theorem chars_next_valid (s : List Nat) (it : Konst.Chars.Chars) (hv : Valid (it.this.apply s)) :
    OkScalar id (Konst.Chars.Chars.next s it) := by
  obtain ⟨cs, hs, he⟩ := hv
  cases cs with
  | nil => exact ⟨none, Lemmas.Chars.chars_next_nil s it (by simpa using he), by simp⟩
  | cons c cs =>
    obtain ⟨h1, h2, h3, h4⟩ := Lemmas.Chars.core_next c cs hs
    rw [Lemmas.Utf8.encs_cons] at he
    have hne : (enc c ++ encs cs).isEmpty = false := by simp [Lemmas.Utf8.enc_ne_nil]
    refine ⟨some (c, ⟨it.this.comp ⟨(enc c).length, (enc c ++ encs cs).length - (enc c).length⟩⟩), ?_, ?_⟩
    · simp only [Konst.Chars.Chars.next, he, hne, h1, h2, h3, Bool.false_eq_true, if_false]
    · intro x st e
      simp only [Option.some.injEq, Prod.mk.injEq] at e
      rw [← e.1]; exact hs c (by simp)

theorem chars_back_valid (s : List Nat) (it : Konst.Chars.Chars) (hv : Valid (it.this.apply s)) :
    OkScalar id (Konst.Chars.Chars.nextBack s it) := by
  obtain ⟨cs, hs, he⟩ := hv
  rcases Lemmas.Chars.eq_nil_or_snoc cs with rfl | ⟨cs', c, rfl⟩
  · exact ⟨none, Lemmas.Chars.chars_back_nil s it (by simpa using he), by simp⟩
  · obtain ⟨h1, h2, h3, h4⟩ := Lemmas.Chars.core_back cs' c hs
    have he' : it.this.apply s = encs cs' ++ enc c := by rw [he, Lemmas.Utf8.encs_append]; simp
    have hne : (encs cs' ++ enc c).isEmpty = false := by simp [Lemmas.Utf8.enc_ne_nil]
    refine ⟨some (c, ⟨it.this.comp ⟨0, (encs cs').length⟩⟩), ?_, ?_⟩
    · simp only [Konst.Chars.Chars.nextBack, he', hne, h1, h2, h3, Bool.false_eq_true, if_false]
    · intro x st e
      simp only [Option.some.injEq, Prod.mk.injEq] at e
      rw [← e.1]; exact hs c (by simp)

theorem ci_next_valid (s : List Nat) (it : Konst.Chars.CharIndices) (hv : Valid (it.this.apply s)) :
    OkScalar Prod.snd (Konst.Chars.CharIndices.next s it) := by
  obtain ⟨cs, hs, he⟩ := hv
  cases cs with
  | nil => exact ⟨none, Lemmas.Chars.ci_next_nil s it (by simpa using he), by simp⟩
  | cons c cs =>
    obtain ⟨h1, h2, h3, h4⟩ := Lemmas.Chars.core_next c cs hs
    rw [Lemmas.Utf8.encs_cons] at he
    have hne : (enc c ++ encs cs).isEmpty = false := by simp [Lemmas.Utf8.enc_ne_nil]
    refine ⟨some ((it.startOffset, c),
      ⟨it.this.comp ⟨(enc c).length, (enc c ++ encs cs).length - (enc c).length⟩,
        it.startOffset + (enc c).length⟩), ?_, ?_⟩
    · simp only [Konst.Chars.CharIndices.next, he, hne, h1, h2, h3, Bool.false_eq_true, if_false]
    · intro x st e
      simp only [Option.some.injEq, Prod.mk.injEq] at e
      rw [← e.1]; exact hs c (by simp)

theorem ci_back_valid (s : List Nat) (it : Konst.Chars.CharIndices) (hv : Valid (it.this.apply s)) :
    OkScalar Prod.snd (Konst.Chars.CharIndices.nextBack s it) := by
  obtain ⟨cs, hs, he⟩ := hv
  rcases Lemmas.Chars.eq_nil_or_snoc cs with rfl | ⟨cs', c, rfl⟩
  · exact ⟨none, Lemmas.Chars.ci_back_nil s it (by simpa using he), by simp⟩
  · obtain ⟨h1, h2, h3, h4⟩ := Lemmas.Chars.core_back cs' c hs
    have he' : it.this.apply s = encs cs' ++ enc c := by rw [he, Lemmas.Utf8.encs_append]; simp
    have hne : (encs cs' ++ enc c).isEmpty = false := by simp [Lemmas.Utf8.enc_ne_nil]
    refine ⟨some ((it.startOffset + (encs cs').length, c),
      ⟨it.this.comp ⟨0, (encs cs').length⟩, it.startOffset⟩), ?_, ?_⟩
    · simp only [Konst.Chars.CharIndices.nextBack, he', hne, h1, h2, h3, Bool.false_eq_true, if_false]
    · intro x st e
      simp only [Option.some.injEq, Prod.mk.injEq] at e
      rw [← e.1]; exact hs c (by simp)

end CharsAux

/-! The eight step functions on VALID strings.  Hypotheses: `hv` the remaining string `it.this.apply s` is valid
    UTF-8 (`Konst.Spec.Utf8.Valid`: `∃ cs, (∀ c ∈ cs, isScalar c) ∧ _ = encs cs`), `hl` the machine bound, `hf` the
    fuel.  Conclusion: the model's step returns `.ok o` (no `non_char_boundary_panic`, no underflow) and the
    generated function returns `.ok` of that same `o` with the new state mapped to the generated record
    (`charsItem`): no panic, no `ub` in `from_u32_unchecked`, no overflow, fuel suffices. -/

theorem Chars.next_eq (fuel : Nat) (s : List Nat) (it : Konst.Chars.Chars)
    (hv : Valid (it.this.apply s))
    (hl : (it.this.apply s).length < 2 ^ 64)
    (hf : (it.this.apply s).length + 1 ≤ fuel) :
    ∃ o, Konst.Chars.Chars.next s it = .ok o ∧
      Extracted.Chars.next fuel (toChars s it) = .ok (charsItem (toChars s) o) :=
  (chars_next_valid s it hv).finish _ (Chars.next_bytes fuel s it (valid_lt_256 hv) hl hf)

example : ∃ o, Konst.Chars.Chars.next [0xE2, 0x82, 0xAC, 0x41] ⟨⟨0, 4⟩⟩ = .ok o ∧
    Extracted.Chars.next 5 ⟨[0xE2, 0x82, 0xAC, 0x41]⟩ = .ok (charsItem (toChars [0xE2, 0x82, 0xAC, 0x41]) o) :=
  Chars.next_eq _ [0xE2, 0x82, 0xAC, 0x41] ⟨⟨0, 4⟩⟩ ⟨[0x20AC, 0x41], by decide, by decide⟩ (by decide) (by decide)

theorem Chars.next_back_eq (fuel : Nat) (s : List Nat) (it : Konst.Chars.Chars)
    (hv : Valid (it.this.apply s))
    (hf : (it.this.apply s).length ≤ fuel) :
    ∃ o, Konst.Chars.Chars.nextBack s it = .ok o ∧
      Extracted.Chars.next_back fuel (toChars s it) = .ok (charsItem (toChars s) o) :=
  (chars_back_valid s it hv).finish _ (Chars.next_back_bytes fuel s it (valid_lt_256 hv) hf)

example : ∃ o, Konst.Chars.Chars.nextBack [0x41, 0xE2, 0x82, 0xAC] ⟨⟨0, 4⟩⟩ = .ok o ∧
    Extracted.Chars.next_back 4 ⟨[0x41, 0xE2, 0x82, 0xAC]⟩ = .ok (charsItem (toChars [0x41, 0xE2, 0x82, 0xAC]) o) :=
  Chars.next_back_eq _ [0x41, 0xE2, 0x82, 0xAC] ⟨⟨0, 4⟩⟩ ⟨[0x41, 0x20AC], by decide, by decide⟩ (by decide)

theorem RChars.next_eq (fuel : Nat) (s : List Nat) (it : Konst.Chars.RChars)
    (hv : Valid (it.this.apply s))
    (hf : (it.this.apply s).length ≤ fuel) :
    ∃ o, Konst.Chars.RChars.next s it = .ok o ∧
      Extracted.RChars.next fuel (toRChars s it) = .ok (charsItem (toRChars s) o) :=
  ((chars_back_valid s it.rev hv).mapSt _).finish _ (RChars.next_bytes fuel s it (valid_lt_256 hv) hf)

example : ∃ o, Konst.Chars.RChars.next [0x41, 0xE2, 0x82, 0xAC] ⟨⟨0, 4⟩⟩ = .ok o ∧
    Extracted.RChars.next 4 ⟨[0x41, 0xE2, 0x82, 0xAC]⟩ = .ok (charsItem (toRChars [0x41, 0xE2, 0x82, 0xAC]) o) :=
  RChars.next_eq _ [0x41, 0xE2, 0x82, 0xAC] ⟨⟨0, 4⟩⟩ ⟨[0x41, 0x20AC], by decide, by decide⟩ (by decide)

theorem RChars.next_back_eq (fuel : Nat) (s : List Nat) (it : Konst.Chars.RChars)
    (hv : Valid (it.this.apply s))
    (hl : (it.this.apply s).length < 2 ^ 64)
    (hf : (it.this.apply s).length + 1 ≤ fuel) :
    ∃ o, Konst.Chars.RChars.nextBack s it = .ok o ∧
      Extracted.RChars.next_back fuel (toRChars s it) = .ok (charsItem (toRChars s) o) :=
  ((chars_next_valid s it.rev hv).mapSt _).finish _ (RChars.next_back_bytes fuel s it (valid_lt_256 hv) hl hf)

example : ∃ o, Konst.Chars.RChars.nextBack [0xE2, 0x82, 0xAC, 0x41] ⟨⟨0, 4⟩⟩ = .ok o ∧
    Extracted.RChars.next_back 5 ⟨[0xE2, 0x82, 0xAC, 0x41]⟩ = .ok (charsItem (toRChars [0xE2, 0x82, 0xAC, 0x41]) o) :=
  RChars.next_back_eq _ [0xE2, 0x82, 0xAC, 0x41] ⟨⟨0, 4⟩⟩ ⟨[0x20AC, 0x41], by decide, by decide⟩ (by decide) (by decide)

theorem CharIndices.next_eq (fuel : Nat) (s : List Nat) (it : Konst.Chars.CharIndices)
    (hv : Valid (it.this.apply s))
    (hl : it.startOffset + (it.this.apply s).length < 2 ^ 64)
    (hf : (it.this.apply s).length + 1 ≤ fuel) :
    ∃ o, Konst.Chars.CharIndices.next s it = .ok o ∧
      Extracted.CharIndices.next fuel (toCharIndices s it) = .ok (charsItem (toCharIndices s) o) :=
  (ci_next_valid s it hv).finish _ (CharIndices.next_bytes fuel s it (valid_lt_256 hv) hl hf)

example : ∃ o, Konst.Chars.CharIndices.next [0xE2, 0x82, 0xAC, 0x41] ⟨⟨0, 4⟩, 7⟩ = .ok o ∧
    Extracted.CharIndices.next 5 ⟨[0xE2, 0x82, 0xAC, 0x41], 7⟩ = .ok (charsItem (toCharIndices [0xE2, 0x82, 0xAC, 0x41]) o) :=
  CharIndices.next_eq _ [0xE2, 0x82, 0xAC, 0x41] ⟨⟨0, 4⟩, 7⟩ ⟨[0x20AC, 0x41], by decide, by decide⟩ (by decide) (by decide)

theorem CharIndices.next_back_eq (fuel : Nat) (s : List Nat) (it : Konst.Chars.CharIndices)
    (hv : Valid (it.this.apply s))
    (hl : it.startOffset + (it.this.apply s).length < 2 ^ 64)
    (hf : (it.this.apply s).length ≤ fuel) :
    ∃ o, Konst.Chars.CharIndices.nextBack s it = .ok o ∧
      Extracted.CharIndices.next_back fuel (toCharIndices s it) = .ok (charsItem (toCharIndices s) o) :=
  (ci_back_valid s it hv).finish _ (CharIndices.next_back_bytes fuel s it (valid_lt_256 hv) hl hf)

example : ∃ o, Konst.Chars.CharIndices.nextBack [0x41, 0xE2, 0x82, 0xAC] ⟨⟨0, 4⟩, 7⟩ = .ok o ∧
    Extracted.CharIndices.next_back 4 ⟨[0x41, 0xE2, 0x82, 0xAC], 7⟩ = .ok (charsItem (toCharIndices [0x41, 0xE2, 0x82, 0xAC]) o) :=
  CharIndices.next_back_eq _ [0x41, 0xE2, 0x82, 0xAC] ⟨⟨0, 4⟩, 7⟩ ⟨[0x41, 0x20AC], by decide, by decide⟩ (by decide) (by decide)

theorem RCharIndices.next_eq (fuel : Nat) (s : List Nat) (it : Konst.Chars.RCharIndices)
    (hv : Valid (it.this.apply s))
    (hl : it.startOffset + (it.this.apply s).length < 2 ^ 64)
    (hf : (it.this.apply s).length ≤ fuel) :
    ∃ o, Konst.Chars.RCharIndices.next s it = .ok o ∧
      Extracted.RCharIndices.next fuel (toRCharIndices s it) = .ok (charsItem (toRCharIndices s) o) :=
  ((ci_back_valid s it.rev hv).mapSt _).finish _
    (RCharIndices.next_bytes fuel s it (valid_lt_256 hv) hl hf)

example : ∃ o, Konst.Chars.RCharIndices.next [0x41, 0xE2, 0x82, 0xAC] ⟨⟨0, 4⟩, 7⟩ = .ok o ∧
    Extracted.RCharIndices.next 4 ⟨[0x41, 0xE2, 0x82, 0xAC], 7⟩ = .ok (charsItem (toRCharIndices [0x41, 0xE2, 0x82, 0xAC]) o) :=
  RCharIndices.next_eq _ [0x41, 0xE2, 0x82, 0xAC] ⟨⟨0, 4⟩, 7⟩ ⟨[0x41, 0x20AC], by decide, by decide⟩ (by decide) (by decide)

theorem RCharIndices.next_back_eq (fuel : Nat) (s : List Nat) (it : Konst.Chars.RCharIndices)
    (hv : Valid (it.this.apply s))
    (hl : it.startOffset + (it.this.apply s).length < 2 ^ 64)
    (hf : (it.this.apply s).length + 1 ≤ fuel) :
    ∃ o, Konst.Chars.RCharIndices.nextBack s it = .ok o ∧
      Extracted.RCharIndices.next_back fuel (toRCharIndices s it) = .ok (charsItem (toRCharIndices s) o) :=
  ((ci_next_valid s it.rev hv).mapSt _).finish _
    (RCharIndices.next_back_bytes fuel s it (valid_lt_256 hv) hl hf)

example : ∃ o, Konst.Chars.RCharIndices.nextBack [0xE2, 0x82, 0xAC, 0x41] ⟨⟨0, 4⟩, 7⟩ = .ok o ∧
    Extracted.RCharIndices.next_back 5 ⟨[0xE2, 0x82, 0xAC, 0x41], 7⟩ = .ok (charsItem (toRCharIndices [0xE2, 0x82, 0xAC, 0x41]) o) :=
  RCharIndices.next_back_eq _ [0xE2, 0x82, 0xAC, 0x41] ⟨⟨0, 4⟩, 7⟩ ⟨[0x20AC, 0x41], by decide, by decide⟩ (by decide) (by decide)

end Extracted.Equiv
