import KonstVerif.Extracted.Gen.Range2
import KonstVerif.Extracted.Equiv.Range
/-
  Extracted (regenerated from /repo) = Model, for the remaining integer arms of
  `konst_kernel::step_kk::increment` / `decrement` (C09): u16, u32, u64, i16, i32, isize
  (`isize` = 64-bit signed, the target the checks run on).  Same statements and the same proof scripts as the
  sibling arms in `Equiv/Range.lean` (u8, i8, usize, i64, u128, i128): the generated bodies are literally the
  same text with `Rs.uOverflowingAdd/Sub N` resp. `Rs.iOverflowingAdd/Sub N` at the type's width, and the proofs
  reuse the width-generic lemmas of `Equiv/Range.lean` (`intIncrement_some`, `intDecrement_some`,
  `uOverflowingAdd_lit`, `uOverflowingSub1_lit`, `iOverflowingAdd_lit`, `iOverflowingSub_lit`) with the width
  constants supplied as literals (checked by `decide`), so that the remaining goal is literal linear arithmetic.

  Shapes (see the header of `Equiv/Range.lean`):
  * signed:   `∃ r, intIncrement MIN MAX start end_ = some r ∧ Extracted.increment_T start end_ = .ok (ofModel id r)`
  * unsigned: `∃ r, intIncrement 0 MAX ↑start ↑end_ = some r ∧ Extracted.increment_T start end_ = .ok (ofModel Int.toNat r) ∧
               toModel Int.ofNat (ofModel Int.toNat r) = r`
  Hypotheses: only the operand that is stepped has to be a value of the type (`start` for `increment`, `end_` for
  `decrement`).
-/
namespace Extracted.Equiv
open Rs Konst Konst.Range

/-! ### `u16` (`MIN = 0`, `MAX = 65535`) -/
/-- `increment::<u16>`, for every `start : u16` -/
theorem increment_u16_eq (start end_ : Nat) (hs : start ≤ 65535) :
    ∃ r, intIncrement 0 65535 start end_ = some r ∧
      Extracted.increment_u16 start end_ = .ok (ofModel Int.toNat r) ∧
      toModel Int.ofNat (ofModel Int.toNat r) = r := by
  refine ⟨_, intIncrement_some _ _ _ _, ?_, ?_⟩
  · unfold Extracted.increment_u16
    simp only [uOverflowingAdd_lit 16 65536 (by decide)]
    by_cases h : (start : Int) + 1 > 65535 <;> simp [ofModel, h] <;> omega
  · by_cases h : (start : Int) + 1 > 65535 <;> simp [ofModel, toModel, h] <;> omega

example : Extracted.increment_u16 5 7 = .ok ⟨false, false, false, 6⟩ := by decide
example : Extracted.increment_u16 65535 0 = .ok ⟨true, true, true, 0⟩ := by decide
example : ∃ r, intIncrement 0 65535 (65535 : Nat) (3 : Nat) = some r ∧ Extracted.increment_u16 65535 3 = .ok (ofModel Int.toNat r) ∧
    toModel Int.ofNat (ofModel Int.toNat r) = r :=
  increment_u16_eq _ _ (by decide)

/-- `decrement::<u16>`, for every `end_ : u16` -/
theorem decrement_u16_eq (start end_ : Nat) (he : end_ ≤ 65535) :
    ∃ r, intDecrement 0 65535 start end_ = some r ∧
      Extracted.decrement_u16 start end_ = .ok (ofModel Int.toNat r) ∧
      toModel Int.ofNat (ofModel Int.toNat r) = r := by
  refine ⟨_, intDecrement_some _ _ _ _, ?_, ?_⟩
  · unfold Extracted.decrement_u16
    simp only [uOverflowingSub1_lit 16 65535 (by decide)]
    by_cases h : end_ = 0
    · subst h; simp [ofModel]
    · have h1 : ¬ ((end_ : Int) - 1 < 0) := by omega
      simp [ofModel, h, h1]
  · by_cases h : (end_ : Int) - 1 < 0 <;> simp [ofModel, toModel, h] <;> omega

example : Extracted.decrement_u16 5 7 = .ok ⟨false, false, false, 6⟩ := by decide
example : Extracted.decrement_u16 65535 0 = .ok ⟨true, true, true, 65535⟩ := by decide
example : ∃ r, intDecrement 0 65535 (3 : Nat) (0 : Nat) = some r ∧ Extracted.decrement_u16 3 0 = .ok (ofModel Int.toNat r) ∧
    toModel Int.ofNat (ofModel Int.toNat r) = r :=
  decrement_u16_eq _ _ (by decide)

/-! ### `u32` (`MIN = 0`, `MAX = 4294967295`) -/
/-- `increment::<u32>`, for every `start : u32` -/
theorem increment_u32_eq (start end_ : Nat) (hs : start ≤ 4294967295) :
    ∃ r, intIncrement 0 4294967295 start end_ = some r ∧
      Extracted.increment_u32 start end_ = .ok (ofModel Int.toNat r) ∧
      toModel Int.ofNat (ofModel Int.toNat r) = r := by
  refine ⟨_, intIncrement_some _ _ _ _, ?_, ?_⟩
  · unfold Extracted.increment_u32
    simp only [uOverflowingAdd_lit 32 4294967296 (by decide)]
    by_cases h : (start : Int) + 1 > 4294967295 <;> simp [ofModel, h] <;> omega
  · by_cases h : (start : Int) + 1 > 4294967295 <;> simp [ofModel, toModel, h] <;> omega

example : Extracted.increment_u32 5 7 = .ok ⟨false, false, false, 6⟩ := by decide
example : Extracted.increment_u32 4294967295 0 = .ok ⟨true, true, true, 0⟩ := by decide
example : ∃ r, intIncrement 0 4294967295 (4294967295 : Nat) (3 : Nat) = some r ∧ Extracted.increment_u32 4294967295 3 = .ok (ofModel Int.toNat r) ∧
    toModel Int.ofNat (ofModel Int.toNat r) = r :=
  increment_u32_eq _ _ (by decide)

/-- `decrement::<u32>`, for every `end_ : u32` -/
theorem decrement_u32_eq (start end_ : Nat) (he : end_ ≤ 4294967295) :
    ∃ r, intDecrement 0 4294967295 start end_ = some r ∧
      Extracted.decrement_u32 start end_ = .ok (ofModel Int.toNat r) ∧
      toModel Int.ofNat (ofModel Int.toNat r) = r := by
  refine ⟨_, intDecrement_some _ _ _ _, ?_, ?_⟩
  · unfold Extracted.decrement_u32
    simp only [uOverflowingSub1_lit 32 4294967295 (by decide)]
    by_cases h : end_ = 0
    · subst h; simp [ofModel]
    · have h1 : ¬ ((end_ : Int) - 1 < 0) := by omega
      simp [ofModel, h, h1]
  · by_cases h : (end_ : Int) - 1 < 0 <;> simp [ofModel, toModel, h] <;> omega

example : Extracted.decrement_u32 5 7 = .ok ⟨false, false, false, 6⟩ := by decide
example : Extracted.decrement_u32 4294967295 0 = .ok ⟨true, true, true, 4294967295⟩ := by decide
example : ∃ r, intDecrement 0 4294967295 (3 : Nat) (0 : Nat) = some r ∧ Extracted.decrement_u32 3 0 = .ok (ofModel Int.toNat r) ∧
    toModel Int.ofNat (ofModel Int.toNat r) = r :=
  decrement_u32_eq _ _ (by decide)

/-! ### `u64` (`MIN = 0`, `MAX = 18446744073709551615`) -/
/-- `increment::<u64>`, for every `start : u64` -/
theorem increment_u64_eq (start end_ : Nat) (hs : start ≤ 18446744073709551615) :
    ∃ r, intIncrement 0 18446744073709551615 start end_ = some r ∧
      Extracted.increment_u64 start end_ = .ok (ofModel Int.toNat r) ∧
      toModel Int.ofNat (ofModel Int.toNat r) = r := by
  refine ⟨_, intIncrement_some _ _ _ _, ?_, ?_⟩
  · unfold Extracted.increment_u64
    simp only [uOverflowingAdd_lit 64 18446744073709551616 (by decide)]
    by_cases h : (start : Int) + 1 > 18446744073709551615 <;> simp [ofModel, h] <;> omega
  · by_cases h : (start : Int) + 1 > 18446744073709551615 <;> simp [ofModel, toModel, h] <;> omega

example : Extracted.increment_u64 5 7 = .ok ⟨false, false, false, 6⟩ := by decide
example : Extracted.increment_u64 18446744073709551615 0 = .ok ⟨true, true, true, 0⟩ := by decide
example : ∃ r, intIncrement 0 18446744073709551615 (18446744073709551615 : Nat) (3 : Nat) = some r ∧ Extracted.increment_u64 18446744073709551615 3 = .ok (ofModel Int.toNat r) ∧
    toModel Int.ofNat (ofModel Int.toNat r) = r :=
  increment_u64_eq _ _ (by decide)

/-- `decrement::<u64>`, for every `end_ : u64` -/
theorem decrement_u64_eq (start end_ : Nat) (he : end_ ≤ 18446744073709551615) :
    ∃ r, intDecrement 0 18446744073709551615 start end_ = some r ∧
      Extracted.decrement_u64 start end_ = .ok (ofModel Int.toNat r) ∧
      toModel Int.ofNat (ofModel Int.toNat r) = r := by
  refine ⟨_, intDecrement_some _ _ _ _, ?_, ?_⟩
  · unfold Extracted.decrement_u64
    simp only [uOverflowingSub1_lit 64 18446744073709551615 (by decide)]
    by_cases h : end_ = 0
    · subst h; simp [ofModel]
    · have h1 : ¬ ((end_ : Int) - 1 < 0) := by omega
      simp [ofModel, h, h1]
  · by_cases h : (end_ : Int) - 1 < 0 <;> simp [ofModel, toModel, h] <;> omega

example : Extracted.decrement_u64 5 7 = .ok ⟨false, false, false, 6⟩ := by decide
example : Extracted.decrement_u64 18446744073709551615 0 = .ok ⟨true, true, true, 18446744073709551615⟩ := by decide
example : ∃ r, intDecrement 0 18446744073709551615 (3 : Nat) (0 : Nat) = some r ∧ Extracted.decrement_u64 3 0 = .ok (ofModel Int.toNat r) ∧
    toModel Int.ofNat (ofModel Int.toNat r) = r :=
  decrement_u64_eq _ _ (by decide)

/-! ### `i16` (`MIN = -32768`, `MAX = 32767`) -/
/-- `increment::<i16>`, for every `start : i16` -/
theorem increment_i16_eq (start end_ : Int) (hs : -32768 ≤ start ∧ start ≤ 32767) :
    ∃ r, intIncrement (-32768) 32767 start end_ = some r ∧
      Extracted.increment_i16 start end_ = .ok (ofModel id r) := by
  refine ⟨_, intIncrement_some _ _ _ _, ?_⟩
  unfold Extracted.increment_i16
  simp only [iOverflowingAdd_lit 16 (-32768) 32767 65536 (by decide) (by decide) (by decide)]
  by_cases h : start + 1 > 32767 <;> simp [ofModel, h] <;> omega

example : Extracted.increment_i16 5 7 = .ok ⟨false, false, false, 6⟩ := by decide
example : Extracted.increment_i16 32767 (-32768) = .ok ⟨true, true, true, -32768⟩ := by decide
example : ∃ r, intIncrement (-32768) 32767 32767 32767 = some r ∧ Extracted.increment_i16 32767 32767 = .ok (ofModel id r) :=
  increment_i16_eq _ _ (by decide)

/-- `decrement::<i16>`, for every `end_ : i16` -/
theorem decrement_i16_eq (start end_ : Int) (he : -32768 ≤ end_ ∧ end_ ≤ 32767) :
    ∃ r, intDecrement (-32768) 32767 start end_ = some r ∧
      Extracted.decrement_i16 start end_ = .ok (ofModel id r) := by
  refine ⟨_, intDecrement_some _ _ _ _, ?_⟩
  unfold Extracted.decrement_i16
  simp only [iOverflowingSub_lit 16 (-32768) 32767 65536 (by decide) (by decide) (by decide)]
  by_cases h : end_ - 1 < -32768 <;> simp [ofModel, h] <;> omega

example : Extracted.decrement_i16 5 7 = .ok ⟨false, false, false, 6⟩ := by decide
example : Extracted.decrement_i16 32767 (-32768) = .ok ⟨true, true, true, 32767⟩ := by decide
example : ∃ r, intDecrement (-32768) 32767 (-32768) (-32768) = some r ∧ Extracted.decrement_i16 (-32768) (-32768) = .ok (ofModel id r) :=
  decrement_i16_eq _ _ (by decide)

/-! ### `i32` (`MIN = -2147483648`, `MAX = 2147483647`) -/
/-- `increment::<i32>`, for every `start : i32` -/
theorem increment_i32_eq (start end_ : Int) (hs : -2147483648 ≤ start ∧ start ≤ 2147483647) :
    ∃ r, intIncrement (-2147483648) 2147483647 start end_ = some r ∧
      Extracted.increment_i32 start end_ = .ok (ofModel id r) := by
  refine ⟨_, intIncrement_some _ _ _ _, ?_⟩
  unfold Extracted.increment_i32
  simp only [iOverflowingAdd_lit 32 (-2147483648) 2147483647 4294967296 (by decide) (by decide) (by decide)]
  by_cases h : start + 1 > 2147483647 <;> simp [ofModel, h] <;> omega

example : Extracted.increment_i32 5 7 = .ok ⟨false, false, false, 6⟩ := by decide
example : Extracted.increment_i32 2147483647 (-2147483648) = .ok ⟨true, true, true, -2147483648⟩ := by decide
example : ∃ r, intIncrement (-2147483648) 2147483647 2147483647 2147483647 = some r ∧ Extracted.increment_i32 2147483647 2147483647 = .ok (ofModel id r) :=
  increment_i32_eq _ _ (by decide)

/-- `decrement::<i32>`, for every `end_ : i32` -/
theorem decrement_i32_eq (start end_ : Int) (he : -2147483648 ≤ end_ ∧ end_ ≤ 2147483647) :
    ∃ r, intDecrement (-2147483648) 2147483647 start end_ = some r ∧
      Extracted.decrement_i32 start end_ = .ok (ofModel id r) := by
  refine ⟨_, intDecrement_some _ _ _ _, ?_⟩
  unfold Extracted.decrement_i32
  simp only [iOverflowingSub_lit 32 (-2147483648) 2147483647 4294967296 (by decide) (by decide) (by decide)]
  by_cases h : end_ - 1 < -2147483648 <;> simp [ofModel, h] <;> omega

example : Extracted.decrement_i32 5 7 = .ok ⟨false, false, false, 6⟩ := by decide
example : Extracted.decrement_i32 2147483647 (-2147483648) = .ok ⟨true, true, true, 2147483647⟩ := by decide
example : ∃ r, intDecrement (-2147483648) 2147483647 (-2147483648) (-2147483648) = some r ∧ Extracted.decrement_i32 (-2147483648) (-2147483648) = .ok (ofModel id r) :=
  decrement_i32_eq _ _ (by decide)

/-! ### `isize` (`MIN = -9223372036854775808`, `MAX = 9223372036854775807`) -/
/-- `increment::<isize>`, for every `start : isize` -/
theorem increment_isize_eq (start end_ : Int) (hs : -9223372036854775808 ≤ start ∧ start ≤ 9223372036854775807) :
    ∃ r, intIncrement (-9223372036854775808) 9223372036854775807 start end_ = some r ∧
      Extracted.increment_isize start end_ = .ok (ofModel id r) := by
  refine ⟨_, intIncrement_some _ _ _ _, ?_⟩
  unfold Extracted.increment_isize
  simp only [iOverflowingAdd_lit 64 (-9223372036854775808) 9223372036854775807 18446744073709551616 (by decide) (by decide) (by decide)]
  by_cases h : start + 1 > 9223372036854775807 <;> simp [ofModel, h] <;> omega

example : Extracted.increment_isize 5 7 = .ok ⟨false, false, false, 6⟩ := by decide
example : Extracted.increment_isize 9223372036854775807 (-9223372036854775808) = .ok ⟨true, true, true, -9223372036854775808⟩ := by decide
example : ∃ r, intIncrement (-9223372036854775808) 9223372036854775807 9223372036854775807 9223372036854775807 = some r ∧ Extracted.increment_isize 9223372036854775807 9223372036854775807 = .ok (ofModel id r) :=
  increment_isize_eq _ _ (by decide)

/-- `decrement::<isize>`, for every `end_ : isize` -/
theorem decrement_isize_eq (start end_ : Int) (he : -9223372036854775808 ≤ end_ ∧ end_ ≤ 9223372036854775807) :
    ∃ r, intDecrement (-9223372036854775808) 9223372036854775807 start end_ = some r ∧
      Extracted.decrement_isize start end_ = .ok (ofModel id r) := by
  refine ⟨_, intDecrement_some _ _ _ _, ?_⟩
  unfold Extracted.decrement_isize
  simp only [iOverflowingSub_lit 64 (-9223372036854775808) 9223372036854775807 18446744073709551616 (by decide) (by decide) (by decide)]
  by_cases h : end_ - 1 < -9223372036854775808 <;> simp [ofModel, h] <;> omega

example : Extracted.decrement_isize 5 7 = .ok ⟨false, false, false, 6⟩ := by decide
example : Extracted.decrement_isize 9223372036854775807 (-9223372036854775808) = .ok ⟨true, true, true, 9223372036854775807⟩ := by decide
example : ∃ r, intDecrement (-9223372036854775808) 9223372036854775807 (-9223372036854775808) (-9223372036854775808) = some r ∧ Extracted.decrement_isize (-9223372036854775808) (-9223372036854775808) = .ok (ofModel id r) :=
  decrement_isize_eq _ _ (by decide)

end Extracted.Equiv
