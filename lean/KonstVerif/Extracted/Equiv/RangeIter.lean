import KonstVerif.Extracted.Gen.RangeIter
import KonstVerif.Extracted.Equiv.Range
import KonstVerif.Model.Range
/-
  Extracted (regenerated from /repo) = Model, for `next` / `next_back` of `RangeIter`, `RangeIterRev`,
  `RangeInclusiveIter`, `RangeInclusiveIterRev` (konst_kernel::into_iter::range_into_iter, C09).

  The Rust code is generic over `T: Step`; the translator therefore emits the callees `increment`/`decrement`
  and the associated constants `T::MAX_VAL`/`T::MIN_VAL` as PARAMETERS of the generated definitions.  The
  theorems are correspondingly about an ARBITRARY model step `S : Konst.Range.Step α`:

      (hinc : increment self.start self.end_ = resOfModel f (S.increment (g self.start) (g self.end_)))
      (hmax : MAX_VAL = f S.maxVal) (hmin : MIN_VAL = f S.minVal)
      ⊢ Extracted.RangeIter.next increment decrement self
          = ofOutcome f Extracted.RangeIter.mk (rangeNextBlock S (fieldsOf g self.start self.end_))

  * `g : T → α` embeds generated values into model values (`Int.ofNat` for the unsigned types, whose generated
    values are `Nat`s and model values `Int`s; `id` otherwise), `f : α → T` goes back (`Int.toNat` / `id`), with
    `f (g x) = x`.  `fieldsOf g` maps the generated iterator state to the model's `Fields α`,
    `ofOutcome f mk` maps the model's `Outcome α (Fields α)` to the generated result:
    `panic ↦ .panic`, `done ↦ .ok none`, `item x s ↦ .ok (some (f x, mk (f s.start) (f s.end_)))`.
  * The agreement hypothesis on the step function is only needed AT THE STATE (`self.start`, `self.end_`), which
    is weaker than `∀ a b, increment a b = resOfModel f (S.increment (g a) (g b))` (the `∀` form is unprovable for
    the unsigned integer arms: `increment_u8 256 _` is not the model's value; it holds for every `start : u8`).
    `resOfModel` (Equiv/Range.lean) is `.ok` of the converted `StepRet` when the model gives `some`, `.panic`
    when it gives `none`.  Only the step function that the Rust function calls needs a hypothesis.
  * The `Rev` types are the same two blocks with `next`/`next_back` swapped (`iterator_shared!`), exactly as in
    the model (`Konst.Range.RangeIter.next` = `choose isForward (rangeNextBlock ..) (rangeNextBackBlock ..)`).

  Corollaries instantiate `S` and the parameters with the translated arms of Equiv/Range.lean:
  u8 (`intStep 0 255`, under `self.start ≤ 255` resp. `self.end_ ≤ 255`: the stepped field is a `u8`),
  i8 (`intStep (-128) 127`, under `-128 ≤ · ≤ 127` of the stepped field) and char (`charStep`, NO hypothesis:
  `increment_char_eq'` is unconditional, `.panic` exactly when the model says `panic`).
  For u8, where `f = Int.toNat` is not injective, a second conjunct
  `mapOutcome Int.ofNat (mapOutcome Int.toNat o) = o` says that nothing is lost (every value in the model's
  outcome `o` is a nonnegative `Int`), like the third conjunct of `increment_u8_eq`.

  `RangeFromIter.next` is not treated here (its model is being revised).
-/
namespace Extracted.Equiv
open Rs Konst Konst.Range

deriving instance DecidableEq for Extracted.RangeIter
deriving instance DecidableEq for Extracted.RangeIterRev
deriving instance DecidableEq for Extracted.RangeInclusiveIter
deriving instance DecidableEq for Extracted.RangeInclusiveIterRev

/-- the two fields of a generated iterator as the model's `Fields` (`g` converts the values) -/
def fieldsOf {T α : Type} (g : T → α) (start end_ : T) : Fields α := { start := g start, end_ := g end_ }

/-- the model's `Outcome` as the result of the generated `next`/`next_back` (`f` converts the values, `mk` is the
    constructor of the generated iterator type): `panic ↦ .panic`, `done ↦ None`, `item x s ↦ Some((x, s))` -/
def ofOutcome {α T σ : Type} (f : α → T) (mk : T → T → σ) : Outcome α (Fields α) → Res (Option (T × σ))
  | .panic => .panic
  | .done => .ok none
  | .item x s => .ok (some (f x, mk (f s.start) (f s.end_)))

/-- value-wise map of an `Outcome` over `Fields` -/
def mapOutcome {α β : Type} (h : α → β) : Outcome α (Fields α) → Outcome β (Fields β)
  | .panic => .panic
  | .done => .done
  | .item x s => .item (h x) { start := h s.start, end_ := h s.end_ }

/-! ### the model's `RangeIter.next` … on a forward / reversed `Iter` are the four blocks (by definition) -/

theorem model_RangeIter_next_fwd {α} (S : Step α) (fl : Fields α) :
    Konst.Range.RangeIter.next S ⟨true, fl⟩ = liftFields true (rangeNextBlock S fl) := rfl
theorem model_RangeIter_nextBack_fwd {α} (S : Step α) (fl : Fields α) :
    Konst.Range.RangeIter.nextBack S ⟨true, fl⟩ = liftFields true (rangeNextBackBlock S fl) := rfl
theorem model_RangeIter_next_rev {α} (S : Step α) (fl : Fields α) :
    Konst.Range.RangeIter.next S ⟨false, fl⟩ = liftFields false (rangeNextBackBlock S fl) := rfl
theorem model_RangeIter_nextBack_rev {α} (S : Step α) (fl : Fields α) :
    Konst.Range.RangeIter.nextBack S ⟨false, fl⟩ = liftFields false (rangeNextBlock S fl) := rfl
theorem model_RangeInclusiveIter_next_fwd {α} (S : Step α) (fl : Fields α) :
    Konst.Range.RangeInclusiveIter.next S ⟨true, fl⟩ = liftFields true (rangeIncNextBlock S fl) := rfl
theorem model_RangeInclusiveIter_nextBack_fwd {α} (S : Step α) (fl : Fields α) :
    Konst.Range.RangeInclusiveIter.nextBack S ⟨true, fl⟩ = liftFields true (rangeIncNextBackBlock S fl) := rfl
theorem model_RangeInclusiveIter_next_rev {α} (S : Step α) (fl : Fields α) :
    Konst.Range.RangeInclusiveIter.next S ⟨false, fl⟩ = liftFields false (rangeIncNextBackBlock S fl) := rfl
theorem model_RangeInclusiveIter_nextBack_rev {α} (S : Step α) (fl : Fields α) :
    Konst.Range.RangeInclusiveIter.nextBack S ⟨false, fl⟩ = liftFields false (rangeIncNextBlock S fl) := rfl

/-! ### generic theorems: arbitrary `S : Step α`, arbitrary parameters agreeing with it at the state -/

section generic
variable {α T : Type} (S : Step α) (f : α → T) (g : T → α) (hfg : ∀ x, f (g x) = x)
  (increment decrement : T → T → Res (Extracted.StepRet T)) (MAX_VAL MIN_VAL : T)
include hfg

/-- `RangeIter::next` = `int_range_shared!` `next` block -/
theorem RangeIter_next_eq (self : Extracted.RangeIter T)
    (hinc : increment self.start self.end_ = resOfModel f (S.increment (g self.start) (g self.end_))) :
    Extracted.RangeIter.next increment decrement self =
      ofOutcome f Extracted.RangeIter.mk (rangeNextBlock S (fieldsOf g self.start self.end_)) := by
  unfold Extracted.RangeIter.next rangeNextBlock
  simp only [fieldsOf]
  rw [hinc]
  cases S.increment (g self.start) (g self.end_) with
  | none => simp [ofOutcome]
  | some r => cases hfe : r.finishedExclusive <;> simp [ofOutcome, ofModel, hfe, hfg]

/-- `RangeIter::next_back` = `int_range_shared!` `next_back` block (`debug_assert!(!overflowed)` active) -/
theorem RangeIter_next_back_eq (self : Extracted.RangeIter T)
    (hdec : decrement self.start self.end_ = resOfModel f (S.decrement (g self.start) (g self.end_))) :
    Extracted.RangeIter.next_back increment decrement self =
      ofOutcome f Extracted.RangeIter.mk (rangeNextBackBlock S (fieldsOf g self.start self.end_)) := by
  unfold Extracted.RangeIter.next_back rangeNextBackBlock
  simp only [fieldsOf]
  rw [hdec]
  cases S.decrement (g self.start) (g self.end_) with
  | none => simp [ofOutcome]
  | some r =>
    cases hfe : r.finishedExclusive <;> cases hov : r.overflowed <;> simp [ofOutcome, ofModel, hfe, hov, hfg]

/-- `RangeIterRev::next` = the `next_back` block -/
theorem RangeIterRev_next_eq (self : Extracted.RangeIterRev T)
    (hdec : decrement self.start self.end_ = resOfModel f (S.decrement (g self.start) (g self.end_))) :
    Extracted.RangeIterRev.next increment decrement self =
      ofOutcome f Extracted.RangeIterRev.mk (rangeNextBackBlock S (fieldsOf g self.start self.end_)) := by
  unfold Extracted.RangeIterRev.next rangeNextBackBlock
  simp only [fieldsOf]
  rw [hdec]
  cases S.decrement (g self.start) (g self.end_) with
  | none => simp [ofOutcome]
  | some r =>
    cases hfe : r.finishedExclusive <;> cases hov : r.overflowed <;> simp [ofOutcome, ofModel, hfe, hov, hfg]

/-- `RangeIterRev::next_back` = the `next` block -/
theorem RangeIterRev_next_back_eq (self : Extracted.RangeIterRev T)
    (hinc : increment self.start self.end_ = resOfModel f (S.increment (g self.start) (g self.end_))) :
    Extracted.RangeIterRev.next_back increment decrement self =
      ofOutcome f Extracted.RangeIterRev.mk (rangeNextBlock S (fieldsOf g self.start self.end_)) := by
  unfold Extracted.RangeIterRev.next_back rangeNextBlock
  simp only [fieldsOf]
  rw [hinc]
  cases S.increment (g self.start) (g self.end_) with
  | none => simp [ofOutcome]
  | some r => cases hfe : r.finishedExclusive <;> simp [ofOutcome, ofModel, hfe, hfg]

/-- `RangeInclusiveIter::next` = `int_range_inc_shared!` `next` block -/
theorem RangeInclusiveIter_next_eq (self : Extracted.RangeInclusiveIter T)
    (hinc : increment self.start self.end_ = resOfModel f (S.increment (g self.start) (g self.end_)))
    (hmax : MAX_VAL = f S.maxVal) (hmin : MIN_VAL = f S.minVal) :
    Extracted.RangeInclusiveIter.next increment decrement MAX_VAL MIN_VAL self =
      ofOutcome f Extracted.RangeInclusiveIter.mk (rangeIncNextBlock S (fieldsOf g self.start self.end_)) := by
  unfold Extracted.RangeInclusiveIter.next rangeIncNextBlock
  simp only [fieldsOf]
  rw [hinc]
  cases S.increment (g self.start) (g self.end_) with
  | none => simp [ofOutcome]
  | some r =>
    cases hfi : r.finishedInclusive <;> cases hov : r.overflowed <;>
      simp [ofOutcome, ofModel, hfi, hov, hfg, hmax, hmin]

/-- `RangeInclusiveIter::next_back` = `int_range_inc_shared!` `next_back` block -/
theorem RangeInclusiveIter_next_back_eq (self : Extracted.RangeInclusiveIter T)
    (hdec : decrement self.start self.end_ = resOfModel f (S.decrement (g self.start) (g self.end_)))
    (hmax : MAX_VAL = f S.maxVal) (hmin : MIN_VAL = f S.minVal) :
    Extracted.RangeInclusiveIter.next_back increment decrement MAX_VAL MIN_VAL self =
      ofOutcome f Extracted.RangeInclusiveIter.mk (rangeIncNextBackBlock S (fieldsOf g self.start self.end_)) := by
  unfold Extracted.RangeInclusiveIter.next_back rangeIncNextBackBlock
  simp only [fieldsOf]
  rw [hdec]
  cases S.decrement (g self.start) (g self.end_) with
  | none => simp [ofOutcome]
  | some r =>
    cases hfi : r.finishedInclusive <;> cases hov : r.overflowed <;>
      simp [ofOutcome, ofModel, hfi, hov, hfg, hmax, hmin]

/-- `RangeInclusiveIterRev::next` = the inclusive `next_back` block -/
theorem RangeInclusiveIterRev_next_eq (self : Extracted.RangeInclusiveIterRev T)
    (hdec : decrement self.start self.end_ = resOfModel f (S.decrement (g self.start) (g self.end_)))
    (hmax : MAX_VAL = f S.maxVal) (hmin : MIN_VAL = f S.minVal) :
    Extracted.RangeInclusiveIterRev.next increment decrement MAX_VAL MIN_VAL self =
      ofOutcome f Extracted.RangeInclusiveIterRev.mk (rangeIncNextBackBlock S (fieldsOf g self.start self.end_)) := by
  unfold Extracted.RangeInclusiveIterRev.next rangeIncNextBackBlock
  simp only [fieldsOf]
  rw [hdec]
  cases S.decrement (g self.start) (g self.end_) with
  | none => simp [ofOutcome]
  | some r =>
    cases hfi : r.finishedInclusive <;> cases hov : r.overflowed <;>
      simp [ofOutcome, ofModel, hfi, hov, hfg, hmax, hmin]

/-- `RangeInclusiveIterRev::next_back` = the inclusive `next` block -/
theorem RangeInclusiveIterRev_next_back_eq (self : Extracted.RangeInclusiveIterRev T)
    (hinc : increment self.start self.end_ = resOfModel f (S.increment (g self.start) (g self.end_)))
    (hmax : MAX_VAL = f S.maxVal) (hmin : MIN_VAL = f S.minVal) :
    Extracted.RangeInclusiveIterRev.next_back increment decrement MAX_VAL MIN_VAL self =
      ofOutcome f Extracted.RangeInclusiveIterRev.mk (rangeIncNextBlock S (fieldsOf g self.start self.end_)) := by
  unfold Extracted.RangeInclusiveIterRev.next_back rangeIncNextBlock
  simp only [fieldsOf]
  rw [hinc]
  cases S.increment (g self.start) (g self.end_) with
  | none => simp [ofOutcome]
  | some r =>
    cases hfi : r.finishedInclusive <;> cases hov : r.overflowed <;>
      simp [ofOutcome, ofModel, hfi, hov, hfg, hmax, hmin]

end generic

/-! ### nothing is lost by `f` when every value of the model's outcome is in the image of `g` -/

section faithful
variable {α T : Type} (S : Step α) (f : α → T) (g : T → α) (s : Fields α)
  (hs : g (f s.start) = s.start) (he : g (f s.end_) = s.end_)
include hs he

theorem mapOutcome_rangeNextBlock
    (hr : ∀ r, S.increment s.start s.end_ = some r → g (f r.next) = r.next) :
    mapOutcome g (mapOutcome f (rangeNextBlock S s)) = rangeNextBlock S s := by
  unfold rangeNextBlock
  cases h : S.increment s.start s.end_ with
  | none => rfl
  | some r => cases hfe : r.finishedExclusive <;> simp [mapOutcome, hfe, hs, he, hr r h]

omit he in
theorem mapOutcome_rangeNextBackBlock
    (hr : ∀ r, S.decrement s.start s.end_ = some r → g (f r.next) = r.next) :
    mapOutcome g (mapOutcome f (rangeNextBackBlock S s)) = rangeNextBackBlock S s := by
  unfold rangeNextBackBlock
  cases h : S.decrement s.start s.end_ with
  | none => rfl
  | some r =>
    cases hfe : r.finishedExclusive <;> cases hov : r.overflowed <;> simp [mapOutcome, hfe, hov, hs, hr r h]

theorem mapOutcome_rangeIncNextBlock (hmax : g (f S.maxVal) = S.maxVal) (hmin : g (f S.minVal) = S.minVal)
    (hr : ∀ r, S.increment s.start s.end_ = some r → g (f r.next) = r.next) :
    mapOutcome g (mapOutcome f (rangeIncNextBlock S s)) = rangeIncNextBlock S s := by
  unfold rangeIncNextBlock
  cases h : S.increment s.start s.end_ with
  | none => rfl
  | some r =>
    cases hfi : r.finishedInclusive <;> cases hov : r.overflowed <;>
      simp [mapOutcome, hfi, hov, hs, he, hr r h, hmax, hmin]

theorem mapOutcome_rangeIncNextBackBlock (hmax : g (f S.maxVal) = S.maxVal) (hmin : g (f S.minVal) = S.minVal)
    (hr : ∀ r, S.decrement s.start s.end_ = some r → g (f r.next) = r.next) :
    mapOutcome g (mapOutcome f (rangeIncNextBackBlock S s)) = rangeIncNextBackBlock S s := by
  unfold rangeIncNextBackBlock
  cases h : S.decrement s.start s.end_ with
  | none => rfl
  | some r =>
    cases hfi : r.finishedInclusive <;> cases hov : r.overflowed <;>
      simp [mapOutcome, hfi, hov, hs, he, hr r h, hmax, hmin]

end faithful

/-! ### the agreement hypotheses for the translated arms, from Equiv/Range.lean -/

/-- `increment::<u8>` agrees with the model's `intStep 0 255` at every `start : u8` -/
theorem increment_u8_agrees (a b : Nat) (h : a ≤ 255) :
    Extracted.increment_u8 a b = resOfModel Int.toNat ((intStep 0 255).increment (Int.ofNat a) (Int.ofNat b)) := by
  obtain ⟨r, h1, h2, _⟩ := increment_u8_eq a b h
  show _ = resOfModel Int.toNat (intIncrement 0 255 (a : Int) (b : Int))
  rw [h1, h2]; rfl

theorem increment_u8_next_nonneg (a b : Nat) (h : a ≤ 255) (r : Konst.Range.StepRet Int)
    (hr : (intStep 0 255).increment (Int.ofNat a) (Int.ofNat b) = some r) : Int.ofNat (Int.toNat r.next) = r.next := by
  obtain ⟨r', h1, _, h3⟩ := increment_u8_eq a b h
  have : r' = r := Option.some.inj (h1.symm.trans hr)
  subst this
  exact congrArg Konst.Range.StepRet.next h3

/-- `decrement::<u8>` agrees with the model's `intStep 0 255` at every `end_ : u8` -/
theorem decrement_u8_agrees (a b : Nat) (h : b ≤ 255) :
    Extracted.decrement_u8 a b = resOfModel Int.toNat ((intStep 0 255).decrement (Int.ofNat a) (Int.ofNat b)) := by
  obtain ⟨r, h1, h2, _⟩ := decrement_u8_eq a b h
  show _ = resOfModel Int.toNat (intDecrement 0 255 (a : Int) (b : Int))
  rw [h1, h2]; rfl

theorem decrement_u8_next_nonneg (a b : Nat) (h : b ≤ 255) (r : Konst.Range.StepRet Int)
    (hr : (intStep 0 255).decrement (Int.ofNat a) (Int.ofNat b) = some r) : Int.ofNat (Int.toNat r.next) = r.next := by
  obtain ⟨r', h1, _, h3⟩ := decrement_u8_eq a b h
  have : r' = r := Option.some.inj (h1.symm.trans hr)
  subst this
  exact congrArg Konst.Range.StepRet.next h3

/-- `increment::<i8>` agrees with the model's `intStep (-128) 127` at every `start : i8` -/
theorem increment_i8_agrees (a b : Int) (h : -128 ≤ a ∧ a ≤ 127) :
    Extracted.increment_i8 a b = resOfModel id ((intStep (-128) 127).increment (id a) (id b)) := by
  obtain ⟨r, h1, h2⟩ := increment_i8_eq a b h
  show _ = resOfModel id (intIncrement (-128) 127 a b)
  rw [h1, h2]; rfl

/-- `decrement::<i8>` agrees with the model's `intStep (-128) 127` at every `end_ : i8` -/
theorem decrement_i8_agrees (a b : Int) (h : -128 ≤ b ∧ b ≤ 127) :
    Extracted.decrement_i8 a b = resOfModel id ((intStep (-128) 127).decrement (id a) (id b)) := by
  obtain ⟨r, h1, h2⟩ := decrement_i8_eq a b h
  show _ = resOfModel id (intDecrement (-128) 127 a b)
  rw [h1, h2]; rfl

/-- `increment::<char>` agrees with the model's `charStep` everywhere (`.panic` exactly when the model says `none`) -/
theorem increment_char_agrees (a b : Nat) :
    Extracted.increment_char a b = resOfModel id (charStep.increment (id a) (id b)) := increment_char_eq' a b

/-- `decrement::<char>` agrees with the model's `charStep` everywhere -/
theorem decrement_char_agrees (a b : Nat) :
    Extracted.decrement_char a b = resOfModel id (charStep.decrement (id a) (id b)) := decrement_char_eq' a b

theorem toNat_ofNat (x : Nat) : Int.toNat (Int.ofNat x) = x := rfl

/-! ### u8 : `T = Nat`, `α = Int`, `S = intStep 0 255`, `MAX_VAL = 255`, `MIN_VAL = 0` -/

/-- `RangeIter::<u8>::next` (with the translated `increment_u8`/`decrement_u8`), for `self.start : u8` -/
theorem RangeIter_next_u8_eq (self : Extracted.RangeIter Nat) (h : self.start ≤ 255) :
    Extracted.RangeIter.next Extracted.increment_u8 Extracted.decrement_u8 self =
        ofOutcome Int.toNat Extracted.RangeIter.mk (rangeNextBlock (intStep 0 255) (fieldsOf Int.ofNat self.start self.end_)) ∧
      mapOutcome Int.ofNat (mapOutcome Int.toNat (rangeNextBlock (intStep 0 255) (fieldsOf Int.ofNat self.start self.end_))) =
        rangeNextBlock (intStep 0 255) (fieldsOf Int.ofNat self.start self.end_) :=
  ⟨RangeIter_next_eq (intStep 0 255) Int.toNat Int.ofNat toNat_ofNat _ _ self
      (increment_u8_agrees _ _ h),
   mapOutcome_rangeNextBlock (intStep 0 255) Int.toNat Int.ofNat _ rfl rfl (increment_u8_next_nonneg _ _ h)⟩

/-- `RangeIter::<u8>::next_back` (with the translated `increment_u8`/`decrement_u8`), for `self.end_ : u8` -/
theorem RangeIter_next_back_u8_eq (self : Extracted.RangeIter Nat) (h : self.end_ ≤ 255) :
    Extracted.RangeIter.next_back Extracted.increment_u8 Extracted.decrement_u8 self =
        ofOutcome Int.toNat Extracted.RangeIter.mk (rangeNextBackBlock (intStep 0 255) (fieldsOf Int.ofNat self.start self.end_)) ∧
      mapOutcome Int.ofNat (mapOutcome Int.toNat (rangeNextBackBlock (intStep 0 255) (fieldsOf Int.ofNat self.start self.end_))) =
        rangeNextBackBlock (intStep 0 255) (fieldsOf Int.ofNat self.start self.end_) :=
  ⟨RangeIter_next_back_eq (intStep 0 255) Int.toNat Int.ofNat toNat_ofNat _ _ self
      (decrement_u8_agrees _ _ h),
   mapOutcome_rangeNextBackBlock (intStep 0 255) Int.toNat Int.ofNat _ rfl (decrement_u8_next_nonneg _ _ h)⟩

/-- `RangeIterRev::<u8>::next` (with the translated `increment_u8`/`decrement_u8`), for `self.end_ : u8` -/
theorem RangeIterRev_next_u8_eq (self : Extracted.RangeIterRev Nat) (h : self.end_ ≤ 255) :
    Extracted.RangeIterRev.next Extracted.increment_u8 Extracted.decrement_u8 self =
        ofOutcome Int.toNat Extracted.RangeIterRev.mk (rangeNextBackBlock (intStep 0 255) (fieldsOf Int.ofNat self.start self.end_)) ∧
      mapOutcome Int.ofNat (mapOutcome Int.toNat (rangeNextBackBlock (intStep 0 255) (fieldsOf Int.ofNat self.start self.end_))) =
        rangeNextBackBlock (intStep 0 255) (fieldsOf Int.ofNat self.start self.end_) :=
  ⟨RangeIterRev_next_eq (intStep 0 255) Int.toNat Int.ofNat toNat_ofNat _ _ self
      (decrement_u8_agrees _ _ h),
   mapOutcome_rangeNextBackBlock (intStep 0 255) Int.toNat Int.ofNat _ rfl (decrement_u8_next_nonneg _ _ h)⟩

/-- `RangeIterRev::<u8>::next_back` (with the translated `increment_u8`/`decrement_u8`), for `self.start : u8` -/
theorem RangeIterRev_next_back_u8_eq (self : Extracted.RangeIterRev Nat) (h : self.start ≤ 255) :
    Extracted.RangeIterRev.next_back Extracted.increment_u8 Extracted.decrement_u8 self =
        ofOutcome Int.toNat Extracted.RangeIterRev.mk (rangeNextBlock (intStep 0 255) (fieldsOf Int.ofNat self.start self.end_)) ∧
      mapOutcome Int.ofNat (mapOutcome Int.toNat (rangeNextBlock (intStep 0 255) (fieldsOf Int.ofNat self.start self.end_))) =
        rangeNextBlock (intStep 0 255) (fieldsOf Int.ofNat self.start self.end_) :=
  ⟨RangeIterRev_next_back_eq (intStep 0 255) Int.toNat Int.ofNat toNat_ofNat _ _ self
      (increment_u8_agrees _ _ h),
   mapOutcome_rangeNextBlock (intStep 0 255) Int.toNat Int.ofNat _ rfl rfl (increment_u8_next_nonneg _ _ h)⟩

/-- `RangeInclusiveIter::<u8>::next` (with the translated `increment_u8`/`decrement_u8`), for `self.start : u8` -/
theorem RangeInclusiveIter_next_u8_eq (self : Extracted.RangeInclusiveIter Nat) (h : self.start ≤ 255) :
    Extracted.RangeInclusiveIter.next Extracted.increment_u8 Extracted.decrement_u8 255 0 self =
        ofOutcome Int.toNat Extracted.RangeInclusiveIter.mk (rangeIncNextBlock (intStep 0 255) (fieldsOf Int.ofNat self.start self.end_)) ∧
      mapOutcome Int.ofNat (mapOutcome Int.toNat (rangeIncNextBlock (intStep 0 255) (fieldsOf Int.ofNat self.start self.end_))) =
        rangeIncNextBlock (intStep 0 255) (fieldsOf Int.ofNat self.start self.end_) :=
  ⟨RangeInclusiveIter_next_eq (intStep 0 255) Int.toNat Int.ofNat toNat_ofNat _ _ _ _ self
      (increment_u8_agrees _ _ h) rfl rfl,
   mapOutcome_rangeIncNextBlock (intStep 0 255) Int.toNat Int.ofNat _ rfl rfl rfl rfl (increment_u8_next_nonneg _ _ h)⟩

/-- `RangeInclusiveIter::<u8>::next_back` (with the translated `increment_u8`/`decrement_u8`), for `self.end_ : u8` -/
theorem RangeInclusiveIter_next_back_u8_eq (self : Extracted.RangeInclusiveIter Nat) (h : self.end_ ≤ 255) :
    Extracted.RangeInclusiveIter.next_back Extracted.increment_u8 Extracted.decrement_u8 255 0 self =
        ofOutcome Int.toNat Extracted.RangeInclusiveIter.mk (rangeIncNextBackBlock (intStep 0 255) (fieldsOf Int.ofNat self.start self.end_)) ∧
      mapOutcome Int.ofNat (mapOutcome Int.toNat (rangeIncNextBackBlock (intStep 0 255) (fieldsOf Int.ofNat self.start self.end_))) =
        rangeIncNextBackBlock (intStep 0 255) (fieldsOf Int.ofNat self.start self.end_) :=
  ⟨RangeInclusiveIter_next_back_eq (intStep 0 255) Int.toNat Int.ofNat toNat_ofNat _ _ _ _ self
      (decrement_u8_agrees _ _ h) rfl rfl,
   mapOutcome_rangeIncNextBackBlock (intStep 0 255) Int.toNat Int.ofNat _ rfl rfl rfl rfl (decrement_u8_next_nonneg _ _ h)⟩

/-- `RangeInclusiveIterRev::<u8>::next` (with the translated `increment_u8`/`decrement_u8`), for `self.end_ : u8` -/
theorem RangeInclusiveIterRev_next_u8_eq (self : Extracted.RangeInclusiveIterRev Nat) (h : self.end_ ≤ 255) :
    Extracted.RangeInclusiveIterRev.next Extracted.increment_u8 Extracted.decrement_u8 255 0 self =
        ofOutcome Int.toNat Extracted.RangeInclusiveIterRev.mk (rangeIncNextBackBlock (intStep 0 255) (fieldsOf Int.ofNat self.start self.end_)) ∧
      mapOutcome Int.ofNat (mapOutcome Int.toNat (rangeIncNextBackBlock (intStep 0 255) (fieldsOf Int.ofNat self.start self.end_))) =
        rangeIncNextBackBlock (intStep 0 255) (fieldsOf Int.ofNat self.start self.end_) :=
  ⟨RangeInclusiveIterRev_next_eq (intStep 0 255) Int.toNat Int.ofNat toNat_ofNat _ _ _ _ self
      (decrement_u8_agrees _ _ h) rfl rfl,
   mapOutcome_rangeIncNextBackBlock (intStep 0 255) Int.toNat Int.ofNat _ rfl rfl rfl rfl (decrement_u8_next_nonneg _ _ h)⟩

/-- `RangeInclusiveIterRev::<u8>::next_back` (with the translated `increment_u8`/`decrement_u8`), for `self.start : u8` -/
theorem RangeInclusiveIterRev_next_back_u8_eq (self : Extracted.RangeInclusiveIterRev Nat) (h : self.start ≤ 255) :
    Extracted.RangeInclusiveIterRev.next_back Extracted.increment_u8 Extracted.decrement_u8 255 0 self =
        ofOutcome Int.toNat Extracted.RangeInclusiveIterRev.mk (rangeIncNextBlock (intStep 0 255) (fieldsOf Int.ofNat self.start self.end_)) ∧
      mapOutcome Int.ofNat (mapOutcome Int.toNat (rangeIncNextBlock (intStep 0 255) (fieldsOf Int.ofNat self.start self.end_))) =
        rangeIncNextBlock (intStep 0 255) (fieldsOf Int.ofNat self.start self.end_) :=
  ⟨RangeInclusiveIterRev_next_back_eq (intStep 0 255) Int.toNat Int.ofNat toNat_ofNat _ _ _ _ self
      (increment_u8_agrees _ _ h) rfl rfl,
   mapOutcome_rangeIncNextBlock (intStep 0 255) Int.toNat Int.ofNat _ rfl rfl rfl rfl (increment_u8_next_nonneg _ _ h)⟩

/-! ### i8 : `T = α = Int`, `S = intStep (-128) 127`, `MAX_VAL = 127`, `MIN_VAL = -128` -/

/-- `RangeIter::<i8>::next` (with the translated `increment_i8`/`decrement_i8`), for `self.start : i8` -/
theorem RangeIter_next_i8_eq (self : Extracted.RangeIter Int) (h : -128 ≤ self.start ∧ self.start ≤ 127) :
    Extracted.RangeIter.next Extracted.increment_i8 Extracted.decrement_i8 self =
      ofOutcome id Extracted.RangeIter.mk (rangeNextBlock (intStep (-128) 127) (fieldsOf id self.start self.end_)) :=
  RangeIter_next_eq (intStep (-128) 127) id id (fun _ => rfl) _ _ self
    (increment_i8_agrees _ _ h)

/-- `RangeIter::<i8>::next_back` (with the translated `increment_i8`/`decrement_i8`), for `self.end_ : i8` -/
theorem RangeIter_next_back_i8_eq (self : Extracted.RangeIter Int) (h : -128 ≤ self.end_ ∧ self.end_ ≤ 127) :
    Extracted.RangeIter.next_back Extracted.increment_i8 Extracted.decrement_i8 self =
      ofOutcome id Extracted.RangeIter.mk (rangeNextBackBlock (intStep (-128) 127) (fieldsOf id self.start self.end_)) :=
  RangeIter_next_back_eq (intStep (-128) 127) id id (fun _ => rfl) _ _ self
    (decrement_i8_agrees _ _ h)

/-- `RangeIterRev::<i8>::next` (with the translated `increment_i8`/`decrement_i8`), for `self.end_ : i8` -/
theorem RangeIterRev_next_i8_eq (self : Extracted.RangeIterRev Int) (h : -128 ≤ self.end_ ∧ self.end_ ≤ 127) :
    Extracted.RangeIterRev.next Extracted.increment_i8 Extracted.decrement_i8 self =
      ofOutcome id Extracted.RangeIterRev.mk (rangeNextBackBlock (intStep (-128) 127) (fieldsOf id self.start self.end_)) :=
  RangeIterRev_next_eq (intStep (-128) 127) id id (fun _ => rfl) _ _ self
    (decrement_i8_agrees _ _ h)

/-- `RangeIterRev::<i8>::next_back` (with the translated `increment_i8`/`decrement_i8`), for `self.start : i8` -/
theorem RangeIterRev_next_back_i8_eq (self : Extracted.RangeIterRev Int) (h : -128 ≤ self.start ∧ self.start ≤ 127) :
    Extracted.RangeIterRev.next_back Extracted.increment_i8 Extracted.decrement_i8 self =
      ofOutcome id Extracted.RangeIterRev.mk (rangeNextBlock (intStep (-128) 127) (fieldsOf id self.start self.end_)) :=
  RangeIterRev_next_back_eq (intStep (-128) 127) id id (fun _ => rfl) _ _ self
    (increment_i8_agrees _ _ h)

/-- `RangeInclusiveIter::<i8>::next` (with the translated `increment_i8`/`decrement_i8`), for `self.start : i8` -/
theorem RangeInclusiveIter_next_i8_eq (self : Extracted.RangeInclusiveIter Int) (h : -128 ≤ self.start ∧ self.start ≤ 127) :
    Extracted.RangeInclusiveIter.next Extracted.increment_i8 Extracted.decrement_i8 127 (-128) self =
      ofOutcome id Extracted.RangeInclusiveIter.mk (rangeIncNextBlock (intStep (-128) 127) (fieldsOf id self.start self.end_)) :=
  RangeInclusiveIter_next_eq (intStep (-128) 127) id id (fun _ => rfl) _ _ _ _ self
    (increment_i8_agrees _ _ h) rfl rfl

/-- `RangeInclusiveIter::<i8>::next_back` (with the translated `increment_i8`/`decrement_i8`), for `self.end_ : i8` -/
theorem RangeInclusiveIter_next_back_i8_eq (self : Extracted.RangeInclusiveIter Int) (h : -128 ≤ self.end_ ∧ self.end_ ≤ 127) :
    Extracted.RangeInclusiveIter.next_back Extracted.increment_i8 Extracted.decrement_i8 127 (-128) self =
      ofOutcome id Extracted.RangeInclusiveIter.mk (rangeIncNextBackBlock (intStep (-128) 127) (fieldsOf id self.start self.end_)) :=
  RangeInclusiveIter_next_back_eq (intStep (-128) 127) id id (fun _ => rfl) _ _ _ _ self
    (decrement_i8_agrees _ _ h) rfl rfl

/-- `RangeInclusiveIterRev::<i8>::next` (with the translated `increment_i8`/`decrement_i8`), for `self.end_ : i8` -/
theorem RangeInclusiveIterRev_next_i8_eq (self : Extracted.RangeInclusiveIterRev Int) (h : -128 ≤ self.end_ ∧ self.end_ ≤ 127) :
    Extracted.RangeInclusiveIterRev.next Extracted.increment_i8 Extracted.decrement_i8 127 (-128) self =
      ofOutcome id Extracted.RangeInclusiveIterRev.mk (rangeIncNextBackBlock (intStep (-128) 127) (fieldsOf id self.start self.end_)) :=
  RangeInclusiveIterRev_next_eq (intStep (-128) 127) id id (fun _ => rfl) _ _ _ _ self
    (decrement_i8_agrees _ _ h) rfl rfl

/-- `RangeInclusiveIterRev::<i8>::next_back` (with the translated `increment_i8`/`decrement_i8`), for `self.start : i8` -/
theorem RangeInclusiveIterRev_next_back_i8_eq (self : Extracted.RangeInclusiveIterRev Int) (h : -128 ≤ self.start ∧ self.start ≤ 127) :
    Extracted.RangeInclusiveIterRev.next_back Extracted.increment_i8 Extracted.decrement_i8 127 (-128) self =
      ofOutcome id Extracted.RangeInclusiveIterRev.mk (rangeIncNextBlock (intStep (-128) 127) (fieldsOf id self.start self.end_)) :=
  RangeInclusiveIterRev_next_back_eq (intStep (-128) 127) id id (fun _ => rfl) _ _ _ _ self
    (increment_i8_agrees _ _ h) rfl rfl

/-! ### char : `T = α = Nat` (scalar values), `S = charStep`, `MAX_VAL = 0x10FFFF`, `MIN_VAL = 0`; no hypothesis -/

/-- `RangeIter::<char>::next` (with the translated `increment_char`/`decrement_char`); unconditional: `.panic` exactly
    when the model's outcome is `panic` -/
theorem RangeIter_next_char_eq (self : Extracted.RangeIter Nat) :
    Extracted.RangeIter.next Extracted.increment_char Extracted.decrement_char self =
      ofOutcome id Extracted.RangeIter.mk (rangeNextBlock charStep (fieldsOf id self.start self.end_)) :=
  RangeIter_next_eq charStep id id (fun _ => rfl) _ _ self
    (increment_char_agrees _ _)

/-- `RangeIter::<char>::next_back` (with the translated `increment_char`/`decrement_char`); unconditional: `.panic` exactly
    when the model's outcome is `panic` -/
theorem RangeIter_next_back_char_eq (self : Extracted.RangeIter Nat) :
    Extracted.RangeIter.next_back Extracted.increment_char Extracted.decrement_char self =
      ofOutcome id Extracted.RangeIter.mk (rangeNextBackBlock charStep (fieldsOf id self.start self.end_)) :=
  RangeIter_next_back_eq charStep id id (fun _ => rfl) _ _ self
    (decrement_char_agrees _ _)

/-- `RangeIterRev::<char>::next` (with the translated `increment_char`/`decrement_char`); unconditional: `.panic` exactly
    when the model's outcome is `panic` -/
theorem RangeIterRev_next_char_eq (self : Extracted.RangeIterRev Nat) :
    Extracted.RangeIterRev.next Extracted.increment_char Extracted.decrement_char self =
      ofOutcome id Extracted.RangeIterRev.mk (rangeNextBackBlock charStep (fieldsOf id self.start self.end_)) :=
  RangeIterRev_next_eq charStep id id (fun _ => rfl) _ _ self
    (decrement_char_agrees _ _)

/-- `RangeIterRev::<char>::next_back` (with the translated `increment_char`/`decrement_char`); unconditional: `.panic` exactly
    when the model's outcome is `panic` -/
theorem RangeIterRev_next_back_char_eq (self : Extracted.RangeIterRev Nat) :
    Extracted.RangeIterRev.next_back Extracted.increment_char Extracted.decrement_char self =
      ofOutcome id Extracted.RangeIterRev.mk (rangeNextBlock charStep (fieldsOf id self.start self.end_)) :=
  RangeIterRev_next_back_eq charStep id id (fun _ => rfl) _ _ self
    (increment_char_agrees _ _)

/-- `RangeInclusiveIter::<char>::next` (with the translated `increment_char`/`decrement_char`); unconditional: `.panic` exactly
    when the model's outcome is `panic` -/
theorem RangeInclusiveIter_next_char_eq (self : Extracted.RangeInclusiveIter Nat) :
    Extracted.RangeInclusiveIter.next Extracted.increment_char Extracted.decrement_char 0x10FFFF 0 self =
      ofOutcome id Extracted.RangeInclusiveIter.mk (rangeIncNextBlock charStep (fieldsOf id self.start self.end_)) :=
  RangeInclusiveIter_next_eq charStep id id (fun _ => rfl) _ _ _ _ self
    (increment_char_agrees _ _) rfl rfl

/-- `RangeInclusiveIter::<char>::next_back` (with the translated `increment_char`/`decrement_char`); unconditional: `.panic` exactly
    when the model's outcome is `panic` -/
theorem RangeInclusiveIter_next_back_char_eq (self : Extracted.RangeInclusiveIter Nat) :
    Extracted.RangeInclusiveIter.next_back Extracted.increment_char Extracted.decrement_char 0x10FFFF 0 self =
      ofOutcome id Extracted.RangeInclusiveIter.mk (rangeIncNextBackBlock charStep (fieldsOf id self.start self.end_)) :=
  RangeInclusiveIter_next_back_eq charStep id id (fun _ => rfl) _ _ _ _ self
    (decrement_char_agrees _ _) rfl rfl

/-- `RangeInclusiveIterRev::<char>::next` (with the translated `increment_char`/`decrement_char`); unconditional: `.panic` exactly
    when the model's outcome is `panic` -/
theorem RangeInclusiveIterRev_next_char_eq (self : Extracted.RangeInclusiveIterRev Nat) :
    Extracted.RangeInclusiveIterRev.next Extracted.increment_char Extracted.decrement_char 0x10FFFF 0 self =
      ofOutcome id Extracted.RangeInclusiveIterRev.mk (rangeIncNextBackBlock charStep (fieldsOf id self.start self.end_)) :=
  RangeInclusiveIterRev_next_eq charStep id id (fun _ => rfl) _ _ _ _ self
    (decrement_char_agrees _ _) rfl rfl

/-- `RangeInclusiveIterRev::<char>::next_back` (with the translated `increment_char`/`decrement_char`); unconditional: `.panic` exactly
    when the model's outcome is `panic` -/
theorem RangeInclusiveIterRev_next_back_char_eq (self : Extracted.RangeInclusiveIterRev Nat) :
    Extracted.RangeInclusiveIterRev.next_back Extracted.increment_char Extracted.decrement_char 0x10FFFF 0 self =
      ofOutcome id Extracted.RangeInclusiveIterRev.mk (rangeIncNextBlock charStep (fieldsOf id self.start self.end_)) :=
  RangeInclusiveIterRev_next_back_eq charStep id id (fun _ => rfl) _ _ _ _ self
    (increment_char_agrees _ _) rfl rfl

/-! ### concrete instances (the hypotheses are satisfiable; both sides evaluate) -/

-- generated side
example : Extracted.RangeIter.next Extracted.increment_u8 Extracted.decrement_u8 ⟨5, 7⟩ = .ok (some (5, ⟨6, 7⟩)) := by decide
example : Extracted.RangeIter.next Extracted.increment_u8 Extracted.decrement_u8 ⟨7, 7⟩ = .ok none := by decide
example : Extracted.RangeIter.next_back Extracted.increment_u8 Extracted.decrement_u8 ⟨5, 7⟩ = .ok (some (6, ⟨5, 6⟩)) := by decide
example : Extracted.RangeIterRev.next Extracted.increment_i8 Extracted.decrement_i8 ⟨-128, 127⟩ = .ok (some (126, ⟨-128, 126⟩)) := by decide
example : Extracted.RangeIterRev.next_back Extracted.increment_i8 Extracted.decrement_i8 ⟨-128, 127⟩ = .ok (some (-128, ⟨-127, 127⟩)) := by decide
example : Extracted.RangeInclusiveIter.next Extracted.increment_u8 Extracted.decrement_u8 255 0 ⟨255, 255⟩ =
    .ok (some (255, ⟨255, 0⟩)) := by decide      -- the `(MAX_VAL, MIN_VAL)` exhausted encoding
example : Extracted.RangeInclusiveIter.next Extracted.increment_u8 Extracted.decrement_u8 255 0 ⟨255, 0⟩ = .ok none := by decide
example : Extracted.RangeInclusiveIter.next_back Extracted.increment_i8 Extracted.decrement_i8 127 (-128) ⟨-128, -128⟩ =
    .ok (some (-128, ⟨127, -128⟩)) := by decide
example : Extracted.RangeInclusiveIterRev.next Extracted.increment_char Extracted.decrement_char 0x10FFFF 0 ⟨0xD7FF, 0xE000⟩ =
    .ok (some (0xE000, ⟨0xD7FF, 0xD7FF⟩)) := by decide
example : Extracted.RangeInclusiveIterRev.next_back Extracted.increment_char Extracted.decrement_char 0x10FFFF 0 ⟨0xD7FF, 0xE000⟩ =
    .ok (some (0xD7FF, ⟨0xE000, 0xE000⟩)) := by decide
example : Extracted.RangeIter.next_back Extracted.increment_char Extracted.decrement_char ⟨0, 0xDC00⟩ = .panic := by decide  -- not a `char`
-- model side
example : rangeNextBlock (intStep 0 255) (fieldsOf Int.ofNat 5 7) = .item 5 ⟨6, 7⟩ := by decide
example : rangeIncNextBlock (intStep 0 255) (fieldsOf Int.ofNat 255 255) = .item 255 ⟨255, 0⟩ := by decide
example : rangeNextBackBlock charStep (fieldsOf id 0 0xDC00) = .panic := by decide
example : ofOutcome Int.toNat Extracted.RangeIter.mk (rangeNextBlock (intStep 0 255) (fieldsOf Int.ofNat 5 7)) =
    .ok (some (5, ⟨6, 7⟩)) := by decide
-- the theorems on concrete inputs
example := RangeIter_next_u8_eq ⟨255, 3⟩ (by decide)
example := RangeIter_next_back_u8_eq ⟨3, 0⟩ (by decide)
example := RangeIterRev_next_u8_eq ⟨3, 200⟩ (by decide)
example := RangeIterRev_next_back_u8_eq ⟨3, 200⟩ (by decide)
example := RangeInclusiveIter_next_u8_eq ⟨255, 255⟩ (by decide)
example := RangeInclusiveIter_next_back_u8_eq ⟨0, 0⟩ (by decide)
example := RangeInclusiveIterRev_next_u8_eq ⟨0, 0⟩ (by decide)
example := RangeInclusiveIterRev_next_back_u8_eq ⟨255, 255⟩ (by decide)
example := RangeIter_next_i8_eq ⟨127, -128⟩ (by decide)
example := RangeIter_next_back_i8_eq ⟨-128, 127⟩ (by decide)
example := RangeIterRev_next_i8_eq ⟨-128, -128⟩ (by decide)
example := RangeIterRev_next_back_i8_eq ⟨127, 127⟩ (by decide)
example := RangeInclusiveIter_next_i8_eq ⟨127, 127⟩ (by decide)
example := RangeInclusiveIter_next_back_i8_eq ⟨-128, -128⟩ (by decide)
example := RangeInclusiveIterRev_next_i8_eq ⟨-128, -128⟩ (by decide)
example := RangeInclusiveIterRev_next_back_i8_eq ⟨127, 127⟩ (by decide)
example : Extracted.RangeInclusiveIter.next Extracted.increment_u8 Extracted.decrement_u8 255 0 ⟨255, 255⟩ =
    ofOutcome Int.toNat Extracted.RangeInclusiveIter.mk (.item 255 ⟨255, 0⟩) :=
  (RangeInclusiveIter_next_u8_eq ⟨255, 255⟩ (by decide)).1
example : Extracted.RangeIter.next_back Extracted.increment_char Extracted.decrement_char ⟨0, 0xDC00⟩ =
    ofOutcome id Extracted.RangeIter.mk .panic :=
  RangeIter_next_back_char_eq ⟨0, 0xDC00⟩
example : Extracted.RangeInclusiveIter.next Extracted.increment_char Extracted.decrement_char 0x10FFFF 0 ⟨0x10FFFF, 0x10FFFF⟩ =
    ofOutcome id Extracted.RangeInclusiveIter.mk (.item 0x10FFFF ⟨0x10FFFF, 0⟩) :=
  RangeInclusiveIter_next_char_eq ⟨0x10FFFF, 0x10FFFF⟩

end Extracted.Equiv
