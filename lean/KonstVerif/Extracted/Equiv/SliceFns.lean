import KonstVerif.Extracted.Gen.SliceFns
import KonstVerif.Extracted.Equiv.Slice
/-
  Extracted (regenerated from /repo) = Model/Slice.lean, for konst::slice::slice_const_methods
  (group `SliceFns`): get, get_from, get_up_to, get_range, split_at and the `*_mut` twins, split_at_mut.
  The model works on the *length* of the slice and returns `View`s; the statements apply the view(s)
  to the argument.  `= .ok v` also says: no panic, no overflow, no out-of-bounds `from_raw_parts` (ub).
  The `*_mut` twins have no separate model definition (Model/Slice.lean: "*_mut twins"): they are related
  to the model function of the shared-reference twin (same macro body in the Rust source).
  No machine-bound hypothesis is needed by any of these theorems.
-/
namespace Extracted.Equiv
open Rs Konst Konst.Slice

/-! ### `get` -/

/-- `get` returns the element itself (`Option<&T>`); the model returns the length-1 view at `index`.
    First conjunct: the extracted value is exactly `s[index]?`; second conjunct: that is the (single)
    element of the model's view. -/
theorem get_eq {T : Type} (s : List T) (index : Nat) :
    Extracted.get s index = .ok s[index]? ∧
    Option.map (fun v => v.apply s) (Konst.Slice.get s.length index)
      = Option.map (fun x => [x]) s[index]? := by
  unfold Extracted.get Konst.Slice.get Rs.index
  by_cases h : index < s.length
  · have hd : s.drop index = s[index] :: s.drop (index + 1) := List.drop_eq_getElem_cons h
    simp [h, View.apply]
    rw [hd]; rfl
  · simp [h]

example : Extracted.get [10, 20, 30] 1 = .ok (some 20) := (get_eq [10, 20, 30] 1).1
example : Extracted.get [10, 20, 30] 3 = .ok none := (get_eq [10, 20, 30] 3).1

/-! ### `get_from`, `get_up_to`, `get_range` -/

theorem get_from_eq {T : Type} (s : List T) (start : Nat) :
    Extracted.get_from s start = .ok (Option.map (fun v => v.apply s) (getFrom s.length start)) := by
  unfold Extracted.get_from getFrom sliceFromImpl overflowingSub Rs.uOverflowingSub
  by_cases h : start ≤ s.length
  · simp [h, Rs.rawParts, View.apply, Ctl.run, Ctl.bind]
  · simp [h, Ctl.run, Ctl.bind]

example : Extracted.get_from [1, 2, 3, 4] 1 = .ok (some [2, 3, 4]) := by
  rw [get_from_eq]; decide
example : Extracted.get_from [1, 2, 3, 4] 5 = .ok none := by
  rw [get_from_eq]; decide

theorem get_up_to_eq {T : Type} (s : List T) (len : Nat) :
    Extracted.get_up_to s len = .ok (Option.map (fun v => v.apply s) (getUpTo s.length len)) := by
  unfold Extracted.get_up_to getUpTo sliceUpToImpl overflowingSub Rs.uOverflowingSub
  by_cases h : len ≤ s.length
  · simp [h, Rs.rawParts, View.apply, Ctl.run, Ctl.bind]
  · simp [h, Ctl.run, Ctl.bind]

example : Extracted.get_up_to [1, 2, 3, 4] 3 = .ok (some [1, 2, 3]) := by
  rw [get_up_to_eq]; decide
example : Extracted.get_up_to [1, 2, 3, 4] 5 = .ok none := by
  rw [get_up_to_eq]; decide

theorem getFrom_fits (len start : Nat) (w : View) (h : getFrom len start = some w) :
    w.off + w.len ≤ len := by
  unfold getFrom sliceFromImpl overflowingSub at h
  by_cases hs : start ≤ len
  · simp [hs] at h; subst h; simp; omega
  · simp [hs] at h

theorem get_range_eq {T : Type} (s : List T) (start end_ : Nat) :
    Extracted.get_range s start end_
      = .ok (Option.map (fun v => v.apply s) (getRange s.length start end_)) := by
  unfold Extracted.get_range getRange
  simp only [get_up_to_eq, get_from_eq, Ctl.call_ok, Ctl.bind_val, Ctl.bind_eq]
  cases hu : getUpTo s.length end_ with
  | none => simp
  | some u =>
    have hl : (u.apply s).length = u.len := by
      unfold getUpTo sliceUpToImpl overflowingSub at hu
      by_cases h : end_ ≤ s.length
      · simp [h] at hu; subst hu; simp [View.apply]; omega
      · simp [h] at hu
    simp only [Option.map_some, Ctl.pure_eq, Ctl.bind_val, Ctl.run_val, hl]
    cases hw : getFrom u.len start with
    | none => simp
    | some w => simp [comp_apply u w s (getFrom_fits _ _ w hw)]

example : Extracted.get_range [1, 2, 3, 4, 5] 1 4 = .ok (some [2, 3, 4]) := by
  rw [get_range_eq]; decide
example : Extracted.get_range [1, 2, 3, 4, 5] 1 6 = .ok none := by
  rw [get_range_eq]; decide
example : Extracted.get_range [1, 2, 3, 4, 5] 4 3 = .ok none := by
  rw [get_range_eq]; decide

/-! ### `split_at` -/

theorem split_at_eq {T : Type} (s : List T) (at_ : Nat) :
    Extracted.split_at s at_
      = .ok (((splitAt s.length at_).1).apply s, ((splitAt s.length at_).2).apply s) := by
  unfold Extracted.split_at splitAt
  simp [slice_up_to_eq, slice_from_eq]

example : Extracted.split_at [1, 2, 3, 4] 1 = .ok ([1], [2, 3, 4]) := by
  rw [split_at_eq]; decide
example : Extracted.split_at [1, 2, 3, 4] 9 = .ok ([1, 2, 3, 4], []) := by
  rw [split_at_eq]; decide

/-! ### the `*_mut` twins (values only: the returned `&mut` sub-slice as the list of its elements) -/

theorem slice_from_mut_eq {T : Type} (s : List T) (start : Nat) :
    Extracted.slice_from_mut s start = .ok ((sliceFrom s.length start).apply s) := by
  unfold Extracted.slice_from_mut sliceFrom sliceFromImpl overflowingSub Rs.uOverflowingSub
  by_cases h : start ≤ s.length
  · simp [h, Rs.rawParts, View.apply, Ctl.run, Ctl.bind]
  · simp [h, Ctl.run, Ctl.bind, View.apply]

example : Extracted.slice_from_mut [1, 2, 3, 4] 1 = .ok [2, 3, 4] := by
  rw [slice_from_mut_eq]; decide
example : Extracted.slice_from_mut [1, 2, 3, 4] 7 = .ok [] := by
  rw [slice_from_mut_eq]; decide

theorem slice_up_to_mut_eq {T : Type} (s : List T) (len : Nat) :
    Extracted.slice_up_to_mut s len = .ok ((sliceUpTo s.length len).apply s) := by
  unfold Extracted.slice_up_to_mut sliceUpTo sliceUpToImpl overflowingSub Rs.uOverflowingSub
  by_cases h : len ≤ s.length
  · simp [h, Rs.rawParts, View.apply, Ctl.run, Ctl.bind]
  · simp [h, Ctl.run, Ctl.bind, View.apply]

example : Extracted.slice_up_to_mut [1, 2, 3, 4] 3 = .ok [1, 2, 3] := by
  rw [slice_up_to_mut_eq]; decide
example : Extracted.slice_up_to_mut [1, 2, 3, 4] 7 = .ok [1, 2, 3, 4] := by
  rw [slice_up_to_mut_eq]; decide

theorem slice_range_mut_eq {T : Type} (s : List T) (start end_ : Nat) :
    Extracted.slice_range_mut s start end_ = .ok ((sliceRange s.length start end_).apply s) := by
  unfold Extracted.slice_range_mut
  simp only [slice_up_to_mut_eq, slice_from_mut_eq, Ctl.call_ok, Ctl.bind_val, Ctl.bind_eq,
    Ctl.run_val]
  congr 1
  unfold sliceRange
  have hl : ((sliceUpTo s.length end_).apply s).length = (sliceUpTo s.length end_).len := by
    unfold sliceUpTo sliceUpToImpl overflowingSub View.apply
    by_cases h : end_ ≤ s.length <;> simp [h] <;> omega
  rw [hl]
  exact (comp_apply _ _ s (sliceFrom_fits _ _)).symm

example : Extracted.slice_range_mut [1, 2, 3, 4, 5] 1 4 = .ok [2, 3, 4] := by
  rw [slice_range_mut_eq]; decide
example : Extracted.slice_range_mut [1, 2, 3, 4, 5] 1 9 = .ok [2, 3, 4, 5] := by
  rw [slice_range_mut_eq]; decide

theorem get_from_mut_eq {T : Type} (s : List T) (start : Nat) :
    Extracted.get_from_mut s start
      = .ok (Option.map (fun v => v.apply s) (getFrom s.length start)) := by
  unfold Extracted.get_from_mut getFrom sliceFromImpl overflowingSub Rs.uOverflowingSub
  by_cases h : start ≤ s.length
  · simp [h, Rs.rawParts, View.apply, Ctl.run, Ctl.bind]
  · simp [h, Ctl.run, Ctl.bind]

example : Extracted.get_from_mut [1, 2, 3, 4] 4 = .ok (some []) := by
  rw [get_from_mut_eq]; decide
example : Extracted.get_from_mut [1, 2, 3, 4] 5 = .ok none := by
  rw [get_from_mut_eq]; decide

theorem get_up_to_mut_eq {T : Type} (s : List T) (len : Nat) :
    Extracted.get_up_to_mut s len
      = .ok (Option.map (fun v => v.apply s) (getUpTo s.length len)) := by
  unfold Extracted.get_up_to_mut getUpTo sliceUpToImpl overflowingSub Rs.uOverflowingSub
  by_cases h : len ≤ s.length
  · simp [h, Rs.rawParts, View.apply, Ctl.run, Ctl.bind]
  · simp [h, Ctl.run, Ctl.bind]

example : Extracted.get_up_to_mut [1, 2, 3, 4] 2 = .ok (some [1, 2]) := by
  rw [get_up_to_mut_eq]; decide
example : Extracted.get_up_to_mut [1, 2, 3, 4] 5 = .ok none := by
  rw [get_up_to_mut_eq]; decide

theorem get_range_mut_eq {T : Type} (s : List T) (start end_ : Nat) :
    Extracted.get_range_mut s start end_
      = .ok (Option.map (fun v => v.apply s) (getRange s.length start end_)) := by
  have h1 : Extracted.get_up_to_mut s end_ = Extracted.get_up_to s end_ := by
    rw [get_up_to_mut_eq, get_up_to_eq]
  have h2 : ∀ x : List T, Extracted.get_from_mut x start = Extracted.get_from x start := by
    intro x; rw [get_from_mut_eq, get_from_eq]
  rw [← get_range_eq]
  unfold Extracted.get_range_mut Extracted.get_range
  simp only [h1, h2]

example : Extracted.get_range_mut [1, 2, 3, 4, 5] 2 5 = .ok (some [3, 4, 5]) := by
  rw [get_range_mut_eq]; decide
example : Extracted.get_range_mut [1, 2, 3, 4, 5] 2 1 = .ok none := by
  rw [get_range_mut_eq]; decide

/-! ### `split_at_mut` (own code path, own model definition `splitAtMut`) -/

theorem split_at_mut_eq {T : Type} (s : List T) (at_ : Nat) :
    Extracted.split_at_mut s at_
      = .ok (((splitAtMut s.length at_).1).apply s, ((splitAtMut s.length at_).2).apply s) := by
  unfold Extracted.split_at_mut splitAtMut Rs.usub
  by_cases h : at_ ≤ s.length
  · have h' : ¬ at_ > s.length := by omega
    simp [h, h', Rs.rawParts, View.apply, Ctl.run, Ctl.bind]
  · have h' : at_ > s.length := by omega
    simp [h', Ctl.run, Ctl.bind, View.apply]

example : Extracted.split_at_mut [1, 2, 3, 4] 1 = .ok ([1], [2, 3, 4]) := by
  rw [split_at_mut_eq]; decide
example : Extracted.split_at_mut [1, 2, 3, 4] 9 = .ok ([1, 2, 3, 4], []) := by
  rw [split_at_mut_eq]; decide

end Extracted.Equiv

namespace Extracted.Equiv
open Rs Konst Konst.Slice

/-- `try_into_array_func::<T, N>`: succeeds exactly when `len = N` (the model's `tryIntoArray`), then views the
    whole slice; the `Dereference { ptr }.reff` read of `N` elements is in bounds (no `ub`). -/
theorem try_into_array_func_eq {T : Type} (N : Nat) (s : List T) :
    Extracted.try_into_array_func N s =
      .ok (match tryIntoArray s.length N with
           | some v => Except.ok (v.apply s)
           | none => Except.error { slice_len := s.length, array_len := N }) := by
  unfold Extracted.try_into_array_func tryIntoArray
  by_cases h : s.length = N
  · subst h
    simp [Rs.rawParts, View.apply]
  · simp [h]

example : Extracted.try_into_array_func 2 [7, 8] = .ok (Except.ok [7, 8]) := by rfl
example : Extracted.try_into_array_func 3 [7, 8] = .ok (Except.error { slice_len := 2, array_len := 3 }) := by rfl

end Extracted.Equiv
