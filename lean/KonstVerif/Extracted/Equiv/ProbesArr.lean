import KonstVerif.Extracted.Gen.ProbesArr
import KonstVerif.Extracted.Equiv.Array
import KonstVerif.Model.ArrayMacros
import KonstVerif.Spec.ArrayStd
import KonstVerif.Props.C11
/-
  Extracted (regenerated from the rustc-expanded call sites of konst's array macros in the probe crate
  translator/probes/src/lib.rs), group `ProbesArr` = the std meaning of the call.

  A Rust array `[T; N]` is a `List T` plus the separate const generic `N : Nat`; the hypothesis
  `xs.length = N` of the theorems is what the Rust type guarantees.  `MaybeUninit<T>` is `Option T`,
  reading a `none` slot as initialised is `.ub`.  Every `<fn>_eq` theorem below concludes `= .ok …`, i.e. the
  expansion never reads an uninitialised slot (`.ub`), never trips the post-loop assert or a bounds check
  (`.panic`), and `N + 1` units of fuel suffice.

    helper functions (loop-free):   assert_array_eq, uninit_array_of_len_eq, unit_array_eq, arr_len_of_eq,
                                    array_assume_init_eq (+ array_assume_init_ub: BOTH branches),
                                    ArrayBuilder_infer_length_from_consumer_eq
    `array::map!` / `from_fn!`:     ar_map_eq, ar_map_ref_eq, ar_from_fn_eq (+ _panic), ar_from_fn_k_eq (+ _panic)
    `array::map_!` / `from_fn_!`:   ar_map_by_val_eq, ar_from_fn_by_val_eq (+ _panic)
    loop lemmas:                    parr_fill_loop / parr_fill_loop_panic (the four `while $i < len` loops, generic
                                    in the loop body through its one-step equations `ar_*_loop1_step/_exit`),
                                    ar_map_by_val_loop1_run, ar_from_fn_by_val_loop1_run (+ _panic)
    final section (model):          ar_map_model, ar_map_ref_model, ar_from_fn_model, ar_from_fn_k_model,
                                    ar_map_by_val_model, ar_from_fn_by_val_model  (via Props/C11)

  NOTE on `ar_map_ref` (reported): the probe `array::map!(xs, |x: &u32| *x % 2 == 0)` with `xs: &[u32; N]` is
  NOT well-typed Rust (E0308 `expected &u32, found u32` at `let x: &u32 = __konst_am_array[__konst_am_i]`;
  `-Zunpretty=expanded` does not type-check).  The generated definition erases references, so it is the
  meaning of the well-typed `|x: u32| x % 2 == 0`; the theorem is about the definition as generated.
-/
namespace Extracted.Equiv
open Rs

/-! ### list facts -/

theorem parr_filterMap_some {α β : Type} (g : α → β) (l : List α) :
    (l.map (fun j => some (g j))).filterMap id = l.map g := by
  induction l with
  | nil => rfl
  | cons a r ih => simp [ih]

theorem parr_all_some {α β : Type} (g : α → β) (l : List α) :
    (l.map (fun j => some (g j))).all Option.isSome = true := by
  induction l with
  | nil => rfl
  | cons a r ih => simp

/-- `xs.map f` read through indices -/
theorem parr_range_map_getD {α β : Type} (f : α → β) (d : α) (xs : List α) :
    (List.range xs.length).map (fun i => f (xs.getD i d)) = xs.map f := by
  apply List.ext_getElem
  · simp
  · intro i h1 h2
    simp at h1
    simp [h1]

/-! ### the loop-free helper functions -/

/-- `assert_array` is the identity -/
theorem assert_array_eq {T : Type} (N : Nat) (xs : List T) : Extracted.assert_array N xs = .ok xs := rfl

example : Extracted.assert_array 3 [4, 5, 6] = .ok [4, 5, 6] := by rw [assert_array_eq]

/-- `uninit_array_of_len(&input)`: `N` uninitialised slots -/
theorem uninit_array_of_len_eq {T U : Type} (N : Nat) (xs : List T) :
    (Extracted.uninit_array_of_len N xs : Res (List (Option U))) = .ok (List.replicate N none) := rfl

example : (Extracted.uninit_array_of_len 2 [4, 5] : Res (List (Option Bool))) = .ok [none, none] := by
  rw [uninit_array_of_len_eq]; rfl

/-- `unit_array::<N>()` = `[(); N]` -/
theorem unit_array_eq (N : Nat) : Extracted.unit_array N = .ok (List.replicate N ()) := rfl

example : Extracted.unit_array 3 = .ok [(), (), ()] := by rw [unit_array_eq]; rfl

/-- `array_len(&input)` = `N` (the const generic, not the list) -/
theorem arr_len_of_eq {T : Type} (N : Nat) (xs : List T) : Extracted.arr_len_of N xs = .ok N := rfl

example : Extracted.arr_len_of 3 [4, 5, 6] = .ok 3 := by rw [arr_len_of_eq]

/-- `array_assume_init`, both branches in one statement -/
theorem array_assume_init_res {T : Type} (N : Nat) (md : List (Option T)) :
    Extracted.array_assume_init N md
      = if md.length = N ∧ md.all Option.isSome = true then .ok (md.filterMap id) else .ub := by
  unfold Extracted.array_assume_init Rs.assumeInitArray
  by_cases h : md.length = N ∧ md.all Option.isSome = true
  · simp only [if_pos h]; rfl
  · simp only [if_neg h]; rfl

/-- `array_assume_init` on a fully initialised array of the declared length: the values -/
theorem array_assume_init_eq {T : Type} (N : Nat) (md : List (Option T))
    (hlen : md.length = N) (hall : ∀ o ∈ md, o.isSome = true) :
    Extracted.array_assume_init N md = .ok (md.filterMap id) := by
  have : md.all Option.isSome = true := by simpa using hall
  rw [array_assume_init_res, if_pos ⟨hlen, this⟩]

/-- … and undefined behaviour otherwise (some slot never written, or — impossible by the Rust type — a list of
    another length) -/
theorem array_assume_init_ub {T : Type} (N : Nat) (md : List (Option T))
    (h : md.length ≠ N ∨ ∃ o ∈ md, o = none) :
    Extracted.array_assume_init N md = .ub := by
  have : ¬ (md.length = N ∧ md.all Option.isSome = true) := by
    intro ⟨h1, h2⟩
    rcases h with h | ⟨o, ho, hn⟩
    · exact h h1
    · have := List.all_eq_true.mp h2 o ho
      simp [hn] at this
  rw [array_assume_init_res, if_neg this]

example : Extracted.array_assume_init 3 [some 4, some 5, some 6] = .ok [4, 5, 6] := by
  rw [array_assume_init_eq _ _ (by decide) (by decide)]; rfl
example : Extracted.array_assume_init 3 [some 4, none, some 6] = .ub := by
  rw [array_assume_init_ub _ _ (.inr ⟨none, by decide, rfl⟩)]

/-- `ArrayBuilder::infer_length_from_consumer` does nothing (it only unifies the two `N`s at type level) -/
theorem ArrayBuilder_infer_length_from_consumer_eq {T U : Type} (N : Nat)
    (b : Extracted.ArrayBuilder T N) (c : Extracted.ArrayConsumer U N) :
    Extracted.ArrayBuilder.infer_length_from_consumer N b c = .ok () := rfl

example : Extracted.ArrayBuilder.infer_length_from_consumer 1
    (⟨[none], 0⟩ : Extracted.ArrayBuilder Nat 1) (⟨[some true], 0, 0⟩ : Extracted.ArrayConsumer Bool 1) = .ok () := by
  rw [ArrayBuilder_infer_length_from_consumer_eq]

/-! ### the `while $i < len { out[$i] = MaybeUninit::new(…); $i += 1 }` loop of `__array_map`, generically

The four by-reference loop bodies differ only in the value written; each satisfies the one-step equations
`hstep`/`hexit` below (`ar_*_loop1_step`, `ar_*_loop1_exit`). -/

/-- state `(pre ++ suf, |pre|)`: the loop overwrites the slots of `suf` with `g |pre|, g (|pre|+1), …`, leaves
    `pre` alone and breaks with the index `N`; `|suf| + 1` iterations -/
theorem parr_fill_loop {ε β : Type} (N : Nat) (g : Nat → β)
    (body : List (Option β) × Nat →
      Ctl (LoopExit ε (List (Option β) × Nat) (List (Option β) × Nat)) (List (Option β) × Nat))
    (hstep : ∀ out i, i < N → out.length = N → body (out, i) = .val (out.set i (some (g i)), i + 1))
    (hexit : ∀ out i, ¬ i < N → body (out, i) = .exit (.brk (out, i)))
    (suf pre : List (Option β)) (n : Nat) (hN : pre.length + suf.length = N) (hn : suf.length + 1 ≤ n) :
    Rs.loop n body (pre ++ suf, pre.length)
      = .val (pre ++ (List.range' pre.length suf.length).map (fun j => some (g j)), N) := by
  induction suf generalizing pre n with
  | nil =>
    obtain ⟨n, rfl⟩ : ∃ m, n = m + 1 := ⟨n - 1, by omega⟩
    simp only [List.length_nil, Nat.add_zero] at hN
    rw [Rs.loop_succ, hexit _ _ (by omega)]
    simp [hN]
  | cons s r ih =>
    obtain ⟨n, rfl⟩ : ∃ m, n = m + 1 := ⟨n - 1, by omega⟩
    simp only [List.length_cons] at hN hn
    rw [Rs.loop_succ, hstep _ _ (by omega) (by simp; omega)]
    have hset : (pre ++ s :: r).set pre.length (some (g pre.length)) = (pre ++ [some (g pre.length)]) ++ r := by
      simp
    have hl : (pre ++ [some (g pre.length)]).length = pre.length + 1 := by simp
    simp only [hset]
    rw [← hl, ih (pre ++ [some (g pre.length)]) n (by simp; omega) (by omega)]
    simp [List.range'_succ]

/-- the panic case: the value computation panics at index `k < N` (the first such index) -/
theorem parr_fill_loop_panic {ε β : Type} (N : Nat) (g : Nat → β) (k : Nat)
    (body : List (Option β) × Nat →
      Ctl (LoopExit ε (List (Option β) × Nat) (List (Option β) × Nat)) (List (Option β) × Nat))
    (hstep : ∀ out i, i < k → out.length = N → body (out, i) = .val (out.set i (some (g i)), i + 1))
    (hpanic : ∀ out, out.length = N → body (out, k) = .panic)
    (d : Nat) (out : List (Option β)) (i n : Nat) (hlen : out.length = N) (hd : i + d = k) (hn : d + 1 ≤ n) :
    Rs.loop n body (out, i) = .panic := by
  induction d generalizing out i n with
  | zero =>
    obtain ⟨n, rfl⟩ : ∃ m, n = m + 1 := ⟨n - 1, by omega⟩
    have : i = k := by omega
    subst this
    rw [Rs.loop_succ, hpanic _ hlen]
  | succ d ih =>
    obtain ⟨n, rfl⟩ : ∃ m, n = m + 1 := ⟨n - 1, by omega⟩
    rw [Rs.loop_succ, hstep _ _ (by omega) hlen]
    exact ih _ (i + 1) n (by simp [hlen]) (by omega) (by omega)

/-- what the by-reference expansions do after the loop: `assert!($i == len)` holds and `array_assume_init` reads
    only written slots -/
theorem parr_assume_init_range {β : Type} (N : Nat) (g : Nat → β) :
    Extracted.array_assume_init N ((List.range' 0 N).map (fun j => some (g j))) = .ok ((List.range N).map g) := by
  rw [array_assume_init_eq _ _ (by simp)]
  · rw [parr_filterMap_some, List.range_eq_range']
  · intro o ho
    simp only [List.mem_map] at ho
    obtain ⟨j, _, rfl⟩ := ho
    rfl

/-! ### `ar_map`: `array::map!(xs, |x| x / 2)` -/

theorem ar_map_loop1_step (N : Nat) (xs : List Nat) (hlen : xs.length = N) (hN : N < 2 ^ 64)
    (out : List (Option Nat)) (i : Nat) (hi : i < N) (ho : out.length = N) :
    Extracted.ar_map.loop1 N N xs (out, i) = .val (out.set i (some (xs.getD i 0 / 2)), i + 1) := by
  have h1 : i + 1 < 2 ^ 64 := by omega
  have hx : i < xs.length := by omega
  have hg : xs[i]? = some (xs.getD i 0) := by simp [hx]
  simp only [Extracted.ar_map.loop1, Rs.index, hg]
  simp [hi, Rs.udiv, Rs.setIndex, ho, Rs.uadd, h1]

theorem ar_map_loop1_exit (N : Nat) (xs : List Nat) (out : List (Option Nat)) (i : Nat) (hi : ¬ i < N) :
    Extracted.ar_map.loop1 N N xs (out, i) = .exit (.brk (out, i)) := by
  simp [Extracted.ar_map.loop1, hi]

/-- loop 1 of `ar_map`, from the initial state -/
theorem ar_map_loop1_run (N fuel : Nat) (xs : List Nat) (hlen : xs.length = N) (hN : N < 2 ^ 64)
    (hf : N + 1 ≤ fuel) :
    Rs.loop fuel (Extracted.ar_map.loop1 N N xs) (List.replicate N none, 0)
      = .val ((List.range' 0 N).map (fun j => some (xs.getD j 0 / 2)), N) := by
  have h := parr_fill_loop N (fun i => xs.getD i 0 / 2) (Extracted.ar_map.loop1 N N xs)
    (fun out i hi ho => ar_map_loop1_step N xs hlen hN out i hi ho)
    (fun out i hi => ar_map_loop1_exit N xs out i hi)
    (List.replicate N none) [] fuel (by simp) (by simpa using hf)
  simpa using h

/-- `array::map!(xs, |x| x / 2)` = `xs.map(|x| x / 2)`: no `ub`, no panic.  `N < 2^64` is the type of `N`
    (`usize`; it keeps `$i += 1` from overflowing). -/
theorem ar_map_eq (N fuel : Nat) (xs : List Nat) (hlen : xs.length = N) (hN : N < 2 ^ 64)
    (hf : N + 1 ≤ fuel) :
    Extracted.ar_map N fuel xs = .ok (xs.map (· / 2)) := by
  unfold Extracted.ar_map
  simp only [assert_array_eq, arr_len_of_eq, uninit_array_of_len_eq, Ctl.call_ok, Ctl.bind_eq, Ctl.bind_val,
    Ctl.pure_eq, ar_map_loop1_run N fuel xs hlen hN hf, decide_true, Bool.not_true, Bool.false_eq_true,
    ↓reduceIte, parr_assume_init_range, Ctl.run_val]
  subst hlen
  rw [parr_range_map_getD (fun x => x / 2) 0 xs]

example : Extracted.ar_map 4 5 [7, 10, 4294967295, 0] = .ok [3, 5, 2147483647, 0] := by
  rw [ar_map_eq _ _ _ (by decide) (by decide) (by decide)]; rfl

/-! ### `ar_map_ref`: `array::map!(xs, |x: &u32| *x % 2 == 0)` (see the header NOTE: ill-typed probe) -/

theorem ar_map_ref_loop1_step (N : Nat) (xs : List Nat) (hlen : xs.length = N) (hN : N < 2 ^ 64)
    (out : List (Option Bool)) (i : Nat) (hi : i < N) (ho : out.length = N) :
    Extracted.ar_map_ref.loop1 N N xs (out, i)
      = .val (out.set i (some (decide (xs.getD i 0 % 2 = 0))), i + 1) := by
  have h1 : i + 1 < 2 ^ 64 := by omega
  have hx : i < xs.length := by omega
  have hg : xs[i]? = some (xs.getD i 0) := by simp [hx]
  simp only [Extracted.ar_map_ref.loop1, Rs.index, hg]
  simp [hi, Rs.urem, Rs.setIndex, ho, Rs.uadd, h1]

theorem ar_map_ref_loop1_exit (N : Nat) (xs : List Nat) (out : List (Option Bool)) (i : Nat) (hi : ¬ i < N) :
    Extracted.ar_map_ref.loop1 N N xs (out, i) = .exit (.brk (out, i)) := by
  simp [Extracted.ar_map_ref.loop1, hi]

theorem ar_map_ref_loop1_run (N fuel : Nat) (xs : List Nat) (hlen : xs.length = N) (hN : N < 2 ^ 64)
    (hf : N + 1 ≤ fuel) :
    Rs.loop fuel (Extracted.ar_map_ref.loop1 N N xs) (List.replicate N none, 0)
      = .val ((List.range' 0 N).map (fun j => some (decide (xs.getD j 0 % 2 = 0))), N) := by
  have h := parr_fill_loop N (fun i => decide (xs.getD i 0 % 2 = 0)) (Extracted.ar_map_ref.loop1 N N xs)
    (fun out i hi ho => ar_map_ref_loop1_step N xs hlen hN out i hi ho)
    (fun out i hi => ar_map_ref_loop1_exit N xs out i hi)
    (List.replicate N none) [] fuel (by simp) (by simpa using hf)
  simpa using h

theorem ar_map_ref_eq (N fuel : Nat) (xs : List Nat) (hlen : xs.length = N) (hN : N < 2 ^ 64)
    (hf : N + 1 ≤ fuel) :
    Extracted.ar_map_ref N fuel xs = .ok (xs.map (fun x => decide (x % 2 = 0))) := by
  unfold Extracted.ar_map_ref
  simp only [assert_array_eq, arr_len_of_eq, uninit_array_of_len_eq, Ctl.call_ok, Ctl.bind_eq, Ctl.bind_val,
    Ctl.pure_eq, ar_map_ref_loop1_run N fuel xs hlen hN hf, decide_true, Bool.not_true, Bool.false_eq_true,
    ↓reduceIte, parr_assume_init_range, Ctl.run_val]
  subst hlen
  rw [parr_range_map_getD (fun x => decide (x % 2 = 0)) 0 xs]

example : Extracted.ar_map_ref 3 4 [7, 10, 0] = .ok [false, true, true] := by
  rw [ar_map_ref_eq _ _ _ (by decide) (by decide) (by decide)]; rfl

/-! ### `ar_from_fn`: `array::from_fn!(|i| i * 2)` -/

theorem ar_from_fn_loop1_step (N : Nat)
    (out : List (Option Nat)) (i : Nat) (hi : i < N) (hm : i * 2 < 2 ^ 64) (ho : out.length = N) :
    Extracted.ar_from_fn.loop1 N N (out, i) = .val (out.set i (some (i * 2)), i + 1) := by
  have h1 : i + 1 < 2 ^ 64 := by omega
  simp [Extracted.ar_from_fn.loop1, hi, Rs.umul, hm, Rs.setIndex, ho, Rs.uadd, h1]

theorem ar_from_fn_loop1_exit (N : Nat) (out : List (Option Nat)) (i : Nat) (hi : ¬ i < N) :
    Extracted.ar_from_fn.loop1 N N (out, i) = .exit (.brk (out, i)) := by
  simp [Extracted.ar_from_fn.loop1, hi]

theorem ar_from_fn_loop1_run (N fuel : Nat) (hm : ∀ i, i < N → i * 2 < 2 ^ 64)
    (hf : N + 1 ≤ fuel) :
    Rs.loop fuel (Extracted.ar_from_fn.loop1 N N) (List.replicate N none, 0)
      = .val ((List.range' 0 N).map (fun j => some (j * 2)), N) := by
  have h := parr_fill_loop N (fun i => i * 2) (Extracted.ar_from_fn.loop1 N N)
    (fun out i hi ho => ar_from_fn_loop1_step N out i hi (hm i hi) ho)
    (fun out i hi => ar_from_fn_loop1_exit N out i hi)
    (List.replicate N none) [] fuel (by simp) (by simpa using hf)
  simpa using h

/-- `array::from_fn!(|i| i * 2)` = `core::array::from_fn(|i| i * 2)` when no `i * 2` overflows `usize`
    (`hm`, i.e. `N ≤ 2^63`; then `$i += 1` cannot overflow either) -/
theorem ar_from_fn_eq (N fuel : Nat) (hm : ∀ i, i < N → i * 2 < 2 ^ 64) (hf : N + 1 ≤ fuel) :
    Extracted.ar_from_fn N fuel = .ok ((List.range N).map (· * 2)) := by
  unfold Extracted.ar_from_fn
  simp only [unit_array_eq, arr_len_of_eq, uninit_array_of_len_eq, Ctl.call_ok, Ctl.bind_eq, Ctl.bind_val,
    Ctl.pure_eq, ar_from_fn_loop1_run N fuel hm hf, decide_true, Bool.not_true, Bool.false_eq_true,
    ↓reduceIte, parr_assume_init_range, Ctl.run_val]

example : Extracted.ar_from_fn 4 5 = .ok [0, 2, 4, 6] := by
  rw [ar_from_fn_eq _ _ (by intro i hi; omega) (by decide)]; rfl

/-- the panic case: with `N > 2^63` (no such `[usize; N]` fits in memory, but the const generic allows it) the
    closure overflows first at index `2^63`, and the expansion panics there (given the fuel to get there) -/
theorem ar_from_fn_panic (N fuel : Nat) (hk : 2 ^ 63 < N) (hf : 2 ^ 63 + 1 ≤ fuel) :
    Extracted.ar_from_fn N fuel = .panic := by
  have hloop : Rs.loop fuel (Extracted.ar_from_fn.loop1 N N) (List.replicate N none, 0)
      = (.panic : Ctl (List Nat) _) :=
    parr_fill_loop_panic N (fun i => i * 2) (2 ^ 63) (Extracted.ar_from_fn.loop1 N N)
      (fun out i hi ho => ar_from_fn_loop1_step N out i (by omega) (by omega) ho)
      (fun out ho => by
        have h2 : ¬ (2 ^ 63 * 2 < 2 ^ 64) := by omega
        simp [Extracted.ar_from_fn.loop1, hk, Rs.umul, h2])
      (2 ^ 63) _ 0 fuel (by simp) (by omega) hf
  unfold Extracted.ar_from_fn
  simp only [unit_array_eq, arr_len_of_eq, uninit_array_of_len_eq, Ctl.call_ok, Ctl.bind_eq, Ctl.bind_val,
    hloop, Ctl.bind_panic, Ctl.run_panic]

/-- (not computable by `rfl`: the loop runs `2^63` times before it panics) -/
example : Extracted.ar_from_fn (2 ^ 63 + 1) (2 ^ 63 + 1) = .panic :=
  ar_from_fn_panic _ _ (by omega) (by omega)

/-! ### `ar_from_fn_k`: `array::from_fn!(|i| i + k)` -/

theorem ar_from_fn_k_loop1_step (N k : Nat) (hN : N < 2 ^ 64)
    (out : List (Option Nat)) (i : Nat) (hi : i < N) (hm : i + k < 2 ^ 64) (ho : out.length = N) :
    Extracted.ar_from_fn_k.loop1 N N k (out, i) = .val (out.set i (some (i + k)), i + 1) := by
  have h1 : i + 1 < 2 ^ 64 := by omega
  simp [Extracted.ar_from_fn_k.loop1, hi, hm, Rs.setIndex, ho, Rs.uadd, h1]

theorem ar_from_fn_k_loop1_exit (N k : Nat) (out : List (Option Nat)) (i : Nat) (hi : ¬ i < N) :
    Extracted.ar_from_fn_k.loop1 N N k (out, i) = .exit (.brk (out, i)) := by
  simp [Extracted.ar_from_fn_k.loop1, hi]

theorem ar_from_fn_k_loop1_run (N fuel k : Nat) (hN : N < 2 ^ 64) (hm : ∀ i, i < N → i + k < 2 ^ 64)
    (hf : N + 1 ≤ fuel) :
    Rs.loop fuel (Extracted.ar_from_fn_k.loop1 N N k) (List.replicate N none, 0)
      = .val ((List.range' 0 N).map (fun j => some (j + k)), N) := by
  have h := parr_fill_loop N (fun i => i + k) (Extracted.ar_from_fn_k.loop1 N N k)
    (fun out i hi ho => ar_from_fn_k_loop1_step N k hN out i hi (hm i hi) ho)
    (fun out i hi => ar_from_fn_k_loop1_exit N k out i hi)
    (List.replicate N none) [] fuel (by simp) (by simpa using hf)
  simpa using h

/-- `array::from_fn!(|i| i + k)` = `core::array::from_fn(|i| i + k)` when no `i + k` overflows `usize` (`hm`:
    for `N > 0` this is `N + k ≤ 2^64`); `N < 2^64` is the type of `N` -/
theorem ar_from_fn_k_eq (N fuel k : Nat) (hN : N < 2 ^ 64) (hm : ∀ i, i < N → i + k < 2 ^ 64)
    (hf : N + 1 ≤ fuel) :
    Extracted.ar_from_fn_k N fuel k = .ok ((List.range N).map (· + k)) := by
  unfold Extracted.ar_from_fn_k
  simp only [unit_array_eq, arr_len_of_eq, uninit_array_of_len_eq, Ctl.call_ok, Ctl.bind_eq, Ctl.bind_val,
    Ctl.pure_eq, ar_from_fn_k_loop1_run N fuel k hN hm hf, decide_true, Bool.not_true, Bool.false_eq_true,
    ↓reduceIte, parr_assume_init_range, Ctl.run_val]

/-- the same with the bound in closed form -/
theorem ar_from_fn_k_eq' (N fuel k : Nat) (hN : N < 2 ^ 64) (hm : N + k ≤ 2 ^ 64) (hf : N + 1 ≤ fuel) :
    Extracted.ar_from_fn_k N fuel k = .ok ((List.range N).map (· + k)) :=
  ar_from_fn_k_eq N fuel k hN (fun i hi => by omega) hf

example : Extracted.ar_from_fn_k 3 4 18446744073709551613 =
    .ok [18446744073709551613, 18446744073709551614, 18446744073709551615] := by
  rw [ar_from_fn_k_eq' _ _ _ (by decide) (by decide) (by decide)]; rfl

/-- the panic case: the first index with `i + k ≥ 2^64` is `2^64 - k`; if it is `< N` the expansion panics
    there (given the fuel to get there) -/
theorem ar_from_fn_k_panic (N fuel k : Nat) (hN : N < 2 ^ 64) (hk : 2 ^ 64 - k < N)
    (hf : 2 ^ 64 - k + 1 ≤ fuel) :
    Extracted.ar_from_fn_k N fuel k = .panic := by
  have hloop : Rs.loop fuel (Extracted.ar_from_fn_k.loop1 N N k) (List.replicate N none, 0)
      = (.panic : Ctl (List Nat) _) :=
    parr_fill_loop_panic N (fun i => i + k) (2 ^ 64 - k) (Extracted.ar_from_fn_k.loop1 N N k)
      (fun out i hi ho => ar_from_fn_k_loop1_step N k hN out i (by omega) (by omega) ho)
      (fun out ho => by
        have h2 : ¬ (2 ^ 64 - k + k < 2 ^ 64) := by omega
        simp [Extracted.ar_from_fn_k.loop1, hk, Rs.uadd, h2])
      (2 ^ 64 - k) _ 0 fuel (by simp) (by omega) hf
  unfold Extracted.ar_from_fn_k
  simp only [unit_array_eq, arr_len_of_eq, uninit_array_of_len_eq, Ctl.call_ok, Ctl.bind_eq, Ctl.bind_val,
    hloop, Ctl.bind_panic, Ctl.run_panic]

example : Extracted.ar_from_fn_k 3 4 18446744073709551614 = .panic := by
  rw [ar_from_fn_k_panic _ _ _ (by decide) (by decide) (by decide)]

/-! ### `ar_map_by_val`: `array::map_!(xs, |x| x / 2)` (`ArrayConsumer` + `ArrayBuilder`)

The `&mut self` methods called by path, `ArrayConsumer::next(&mut c)` / `ArrayBuilder::push(&mut b, v)`, are
translated as `let (ret, c') ← …; let c := c'`: the loop lemma threads exactly the states returned by
`ArrayConsumer_next_eq` / `ArrayBuilder_push_eq` through the loop state, so the write-back is the right one
(with a stale state the consumer would hand out the same element forever and the lemma would be false). -/

/-- loop 1 of `ar_map_by_val`: from a consumer owning `rem` and a builder holding `acc` (structure invariants of
    Lemmas/ArrayConsumer, Lemmas/ArrayBuilder), `|rem| + 1` iterations end with an empty consumer and a builder
    holding `acc ++ rem.map (· / 2)`; `next` never reads an unwritten slot -/
theorem ar_map_by_val_loop1_run (N : Nat) (hN : N < 2 ^ 64) (rem acc : List Nat)
    (c : Extracted.ArrayConsumer Nat N) (b : Extracted.ArrayBuilder Nat N) (n : Nat)
    (hc : Konst.ArrayConsumer.Wf (ArrayConsumer.toModel c) rem)
    (hb : Konst.ArrayBuilder.Wf (ArrayBuilder.toModel b) acc)
    (hl : acc.length + rem.length ≤ N) (hn : rem.length + 1 ≤ n) :
    ∃ (c' : Extracted.ArrayConsumer Nat N) (b' : Extracted.ArrayBuilder Nat N),
      Rs.loop n (Extracted.ar_map_by_val.loop1 N) (c, b) = (.val (c', b') : Ctl (List Nat) _)
        ∧ Konst.ArrayConsumer.Wf (ArrayConsumer.toModel c') []
        ∧ Konst.ArrayBuilder.Wf (ArrayBuilder.toModel b') (acc ++ rem.map (· / 2)) := by
  induction rem generalizing acc c b n with
  | nil =>
    obtain ⟨n, rfl⟩ : ∃ m, n = m + 1 := ⟨n - 1, by omega⟩
    refine ⟨c, b, ?_, hc, by simpa using hb⟩
    rw [Rs.loop_succ]
    simp only [Extracted.ar_map_by_val.loop1, (ArrayConsumer_next_nil N c hN hc).1, Ctl.call_ok, Ctl.bind_eq,
      Ctl.bind_val]
  | cons x r ih =>
    obtain ⟨n, rfl⟩ : ∃ m, n = m + 1 := ⟨n - 1, by omega⟩
    simp only [List.length_cons] at hl hn
    obtain ⟨c1, hnx, _, hc1⟩ := ArrayConsumer_next_eq N c x r hN hc
    obtain ⟨b1, hpu, _, hb1⟩ := ArrayBuilder_push_eq N b (x / 2) acc hN hb (by omega)
    obtain ⟨c', b', hloop, hc', hb'⟩ := ih (acc ++ [x / 2]) c1 b1 n hc1 hb1 (by simp; omega) (by omega)
    refine ⟨c', b', ?_, hc', by simpa using hb'⟩
    rw [Rs.loop_succ]
    simp only [Extracted.ar_map_by_val.loop1, hnx, Ctl.call_ok, Ctl.bind_eq, Ctl.bind_val, Ctl.pure_eq,
      Rs.udiv, (by decide : ¬ ((2 : Nat) = 0)), ↓reduceIte, hpu]
    exact hloop

/-- `array::map_!(xs, |x| x / 2)` = `xs.map(|x| x / 2)`: no `ub` (neither `ArrayConsumer::next` nor
    `ArrayBuilder::build` reads an unwritten slot), no panic (`push` finds room, `build` finds the builder full) -/
theorem ar_map_by_val_eq (N fuel : Nat) (xs : List Nat) (hlen : xs.length = N) (hN : N < 2 ^ 64)
    (hf : N + 1 ≤ fuel) :
    Extracted.ar_map_by_val N fuel xs = .ok (xs.map (· / 2)) := by
  obtain ⟨c, hcn, _, hc⟩ := ArrayConsumer_new_wf N xs hlen
  obtain ⟨b, hbn, _, hb⟩ := ArrayBuilder_new_wf (T := Nat) N
  obtain ⟨c', b', hloop, _, hb'⟩ :=
    ar_map_by_val_loop1_run N hN xs [] c b fuel hc hb (by simp; omega) (by omega)
  have hbuild := (ArrayBuilder_build_eq N b' _ hb' (by simp; omega)).1
  unfold Extracted.ar_map_by_val
  simp only [hcn, hbn, ArrayBuilder_infer_length_from_consumer_eq, Ctl.call_ok, Ctl.bind_eq, Ctl.bind_val,
    hloop, hbuild, Ctl.run_val, List.nil_append]

example : Extracted.ar_map_by_val 4 5 [7, 10, 4294967295, 0] = .ok [3, 5, 2147483647, 0] := by
  rw [ar_map_by_val_eq _ _ _ (by decide) (by decide) (by decide)]; rfl

/-! ### `ar_from_fn_by_val`: `array::from_fn_!(|i| i * 2)`

The emitted body is `{ let i = __konst_am_i; __konst_am_i += 1; { i * 2 } }`: the counter is bumped BEFORE the
closure body runs. -/

/-- loop 1 of `ar_from_fn_by_val`: the counter is the number of values pushed so far -/
theorem ar_from_fn_by_val_loop1_run (N : Nat) (hN : N < 2 ^ 64) (hm : ∀ i, i < N → i * 2 < 2 ^ 64)
    (rem : List Unit) (acc : List Nat)
    (c : Extracted.ArrayConsumer Unit N) (b : Extracted.ArrayBuilder Nat N) (n : Nat)
    (hc : Konst.ArrayConsumer.Wf (ArrayConsumer.toModel c) rem)
    (hb : Konst.ArrayBuilder.Wf (ArrayBuilder.toModel b) acc)
    (hl : acc.length + rem.length ≤ N) (hn : rem.length + 1 ≤ n) :
    ∃ (c' : Extracted.ArrayConsumer Unit N) (b' : Extracted.ArrayBuilder Nat N),
      Rs.loop n (Extracted.ar_from_fn_by_val.loop1 N) (c, acc.length, b)
          = (.val (c', acc.length + rem.length, b') : Ctl (List Nat) _)
        ∧ Konst.ArrayConsumer.Wf (ArrayConsumer.toModel c') []
        ∧ Konst.ArrayBuilder.Wf (ArrayBuilder.toModel b')
            (acc ++ (List.range' acc.length rem.length).map (· * 2)) := by
  induction rem generalizing acc c b n with
  | nil =>
    obtain ⟨n, rfl⟩ : ∃ m, n = m + 1 := ⟨n - 1, by omega⟩
    refine ⟨c, b, ?_, hc, by simpa using hb⟩
    rw [Rs.loop_succ]
    simp only [Extracted.ar_from_fn_by_val.loop1, (ArrayConsumer_next_nil N c hN hc).1, Ctl.call_ok, Ctl.bind_eq,
      Ctl.bind_val, List.length_nil, Nat.add_zero]
  | cons x r ih =>
    obtain ⟨n, rfl⟩ : ∃ m, n = m + 1 := ⟨n - 1, by omega⟩
    simp only [List.length_cons] at hl hn
    have h1 : acc.length + 1 < 2 ^ 64 := by omega
    have h2 : acc.length * 2 < 2 ^ 64 := hm _ (by omega)
    obtain ⟨c1, hnx, _, hc1⟩ := ArrayConsumer_next_eq N c x r hN hc
    obtain ⟨b1, hpu, _, hb1⟩ := ArrayBuilder_push_eq N b (acc.length * 2) acc hN hb (by omega)
    obtain ⟨c', b', hloop, hc', hb'⟩ :=
      ih (acc ++ [acc.length * 2]) c1 b1 n hc1 hb1 (by simp; omega) (by omega)
    refine ⟨c', b', ?_, hc', ?_⟩
    · rw [Rs.loop_succ]
      simp only [Extracted.ar_from_fn_by_val.loop1, hnx, Ctl.call_ok, Ctl.bind_eq, Ctl.bind_val, Ctl.pure_eq,
        Rs.uadd, h1, Rs.umul, h2, ↓reduceIte, hpu]
      simp only [List.length_append, List.length_cons, List.length_nil] at hloop
      rw [hloop]
      simp only [List.length_cons]
      congr 3
      omega
    · simpa [List.range'_succ] using hb'

/-- `array::from_fn_!(|i| i * 2)` = `core::array::from_fn(|i| i * 2)` when no `i * 2` overflows (`hm`);
    `N < 2^64` is the type of `N` -/
theorem ar_from_fn_by_val_eq (N fuel : Nat) (hN : N < 2 ^ 64) (hm : ∀ i, i < N → i * 2 < 2 ^ 64)
    (hf : N + 1 ≤ fuel) :
    Extracted.ar_from_fn_by_val N fuel = .ok ((List.range N).map (· * 2)) := by
  obtain ⟨c, hcn, _, hc⟩ := ArrayConsumer_new_wf N (List.replicate N ()) (by simp)
  obtain ⟨b, hbn, _, hb⟩ := ArrayBuilder_new_wf (T := Nat) N
  obtain ⟨c', b', hloop, _, hb'⟩ :=
    ar_from_fn_by_val_loop1_run N hN hm (List.replicate N ()) [] c b fuel hc hb (by simp) (by simpa using hf)
  have hbuild := (ArrayBuilder_build_eq N b' _ hb' (by simp)).1
  simp only [List.length_nil, List.length_replicate, Nat.zero_add] at hloop
  unfold Extracted.ar_from_fn_by_val
  simp only [unit_array_eq, hcn, hbn, ArrayBuilder_infer_length_from_consumer_eq, Ctl.call_ok, Ctl.bind_eq,
    Ctl.bind_val, Ctl.pure_eq, hloop, hbuild, Ctl.run_val, List.nil_append, List.length_nil,
    List.length_replicate, List.range_eq_range']

example : Extracted.ar_from_fn_by_val 4 5 = .ok [0, 2, 4, 6] := by
  rw [ar_from_fn_by_val_eq _ _ (by decide) (by intro i hi; omega) (by decide)]; rfl

/-- the panic case of loop 1: with `N > 2^63` the closure body `i * 2` overflows first at the call with
    `i = 2^63` (the bump `__konst_am_i += 1` before it is still fine) -/
theorem ar_from_fn_by_val_loop1_panic (N : Nat) (hN : N < 2 ^ 64) (hk : 2 ^ 63 < N)
    (d : Nat) (rem : List Unit) (acc : List Nat)
    (c : Extracted.ArrayConsumer Unit N) (b : Extracted.ArrayBuilder Nat N) (n : Nat)
    (hc : Konst.ArrayConsumer.Wf (ArrayConsumer.toModel c) rem)
    (hb : Konst.ArrayBuilder.Wf (ArrayBuilder.toModel b) acc)
    (hl : acc.length + rem.length = N) (hd : acc.length + d = 2 ^ 63) (hn : d + 1 ≤ n) :
    Rs.loop n (Extracted.ar_from_fn_by_val.loop1 N) (c, acc.length, b) = (.panic : Ctl (List Nat) _) := by
  induction d generalizing rem acc c b n with
  | zero =>
    obtain ⟨n, rfl⟩ : ∃ m, n = m + 1 := ⟨n - 1, by omega⟩
    cases rem with
    | nil => simp only [List.length_nil] at hl; omega
    | cons x r =>
      have h1 : acc.length + 1 < 2 ^ 64 := by omega
      have h2 : ¬ (acc.length * 2 < 2 ^ 64) := by omega
      obtain ⟨c1, hnx, _, _⟩ := ArrayConsumer_next_eq N c x r hN hc
      rw [Rs.loop_succ]
      simp only [Extracted.ar_from_fn_by_val.loop1, hnx, Ctl.call_ok, Ctl.bind_eq, Ctl.bind_val, Ctl.pure_eq,
        Rs.uadd, h1, Rs.umul, h2, ↓reduceIte, Ctl.bind_panic]
  | succ d ih =>
    obtain ⟨n, rfl⟩ : ∃ m, n = m + 1 := ⟨n - 1, by omega⟩
    cases rem with
    | nil => simp only [List.length_nil] at hl; omega
    | cons x r =>
      simp only [List.length_cons] at hl
      have h1 : acc.length + 1 < 2 ^ 64 := by omega
      have h2 : acc.length * 2 < 2 ^ 64 := by omega
      obtain ⟨c1, hnx, _, hc1⟩ := ArrayConsumer_next_eq N c x r hN hc
      obtain ⟨b1, hpu, _, hb1⟩ := ArrayBuilder_push_eq N b (acc.length * 2) acc hN hb (by omega)
      have hloop := ih r (acc ++ [acc.length * 2]) c1 b1 n hc1 hb1 (by simp; omega) (by simp; omega) (by omega)
      rw [Rs.loop_succ]
      simp only [Extracted.ar_from_fn_by_val.loop1, hnx, Ctl.call_ok, Ctl.bind_eq, Ctl.bind_val, Ctl.pure_eq,
        Rs.uadd, h1, Rs.umul, h2, ↓reduceIte, hpu]
      simpa using hloop

theorem ar_from_fn_by_val_panic (N fuel : Nat) (hN : N < 2 ^ 64) (hk : 2 ^ 63 < N) (hf : 2 ^ 63 + 1 ≤ fuel) :
    Extracted.ar_from_fn_by_val N fuel = .panic := by
  obtain ⟨c, hcn, _, hc⟩ := ArrayConsumer_new_wf N (List.replicate N ()) (by simp)
  obtain ⟨b, hbn, _, hb⟩ := ArrayBuilder_new_wf (T := Nat) N
  have hloop := ar_from_fn_by_val_loop1_panic N hN hk (2 ^ 63) (List.replicate N ()) [] c b fuel hc hb
    (by simp) (by simp) hf
  simp only [List.length_nil] at hloop
  unfold Extracted.ar_from_fn_by_val
  simp only [unit_array_eq, hcn, hbn, ArrayBuilder_infer_length_from_consumer_eq, Ctl.call_ok, Ctl.bind_eq,
    Ctl.bind_val, hloop, Ctl.bind_panic, Ctl.run_panic]

example : Extracted.ar_from_fn_by_val (2 ^ 63 + 1) (2 ^ 63 + 1) = .panic :=
  ar_from_fn_by_val_panic _ _ (by omega) (by omega) (by omega)

/-! ## FINAL SECTION — relation to the hand-written model (Model/ArrayMacros.lean, Props/C11.lean)

Kept apart from the theorems above (which mention only the generated definitions and core `List` functions)
because the model may change upstream.  A model closure is `call number → argument → Outcome`; the Rust
closures of the probes are the `parr_cl_*` below (checked `usize` arithmetic = `panic` outcome on overflow).
`modelRes` reads a model outcome as the `Res` of a function: `diverge` (model fuel exhausted) is `nofuel`,
`returned` (control left the expansion through a `return` in the closure) has no counterpart. -/

section Model
open Konst.ArrayMacros (Outcome arrayMap arrayFromFn arrayMapByVal arrayFromFnByVal)
open Konst.Spec.ArrayStd (stdMap stdFromFn)

def modelRes {β : Type} : Konst.ArrayMacros.Res β → Option (Res (List β))
  | .array l => some (.ok l)
  | .panic => some .panic
  | .diverge => some .nofuel
  | .ub => some .ub
  | .returned => none

/-- `|x| x / 2` on `u32` -/
def parr_cl_half : Nat → Nat → Outcome Nat := fun _ x => .value (x / 2)
/-- `|x| x % 2 == 0` on `u32` -/
def parr_cl_even : Nat → Nat → Outcome Bool := fun _ x => .value (decide (x % 2 = 0))
/-- `|i| i * 2` on `usize` -/
def parr_cl_dbl : Nat → Nat → Outcome Nat := fun _ i => if i * 2 < 2 ^ 64 then .value (i * 2) else .panic
/-- `|i| i + k` on `usize` -/
def parr_cl_addk (k : Nat) : Nat → Nat → Outcome Nat :=
  fun _ i => if i + k < 2 ^ 64 then .value (i + k) else .panic

theorem ar_map_model (N fuel : Nat) (xs : List Nat) (hlen : xs.length = N) (hN : N < 2 ^ 64)
    (hf : N + 1 ≤ fuel) :
    modelRes (arrayMap fuel xs parr_cl_half) = some (Extracted.ar_map N fuel xs) := by
  rw [ar_map_eq N fuel xs hlen hN hf,
    Konst.Props.C11.arrayMap_value xs (· / 2) parr_cl_half fuel (by omega) (fun _ _ _ => rfl)]
  rfl

theorem ar_map_ref_model (N fuel : Nat) (xs : List Nat) (hlen : xs.length = N) (hN : N < 2 ^ 64)
    (hf : N + 1 ≤ fuel) :
    modelRes (arrayMap fuel xs parr_cl_even) = some (Extracted.ar_map_ref N fuel xs) := by
  rw [ar_map_ref_eq N fuel xs hlen hN hf,
    Konst.Props.C11.arrayMap_value xs (fun x => decide (x % 2 = 0)) parr_cl_even fuel (by omega)
      (fun _ _ _ => rfl)]
  rfl

/-- value AND panic case: for every `N` the generated `ar_from_fn` is the model's `from_fn!` with the overflowing
    closure (array when `N ≤ 2^63`, panic at the call with `i = 2^63` otherwise) -/
theorem ar_from_fn_model (N fuel : Nat) (hf : N + 1 ≤ fuel) :
    modelRes (arrayFromFn fuel N parr_cl_dbl) = some (Extracted.ar_from_fn N fuel) := by
  by_cases hk : 2 ^ 63 < N
  · rw [ar_from_fn_panic N fuel hk (by omega)]
    have h := (Konst.Props.C11.arrayFromFn_hostile N parr_cl_dbl (2 ^ 63) .panic fuel hk
      (fun i hi t => ⟨i * 2, by
        have : i * 2 < 2 ^ 64 := by omega
        simp [parr_cl_dbl, this]⟩)
      (fun t => by
        have : ¬ (2 ^ 63 * 2 < 2 ^ 64) := by omega
        simp only [parr_cl_dbl, this, ↓reduceIte])
      (fun v => by simp)).1
    have hlt : 2 ^ 63 < fuel := by omega
    rw [h, if_pos hlt]
    rfl
  · have hm : ∀ i, i < N → i * 2 < 2 ^ 64 := fun i hi => by omega
    rw [ar_from_fn_eq N fuel hm hf,
      Konst.Props.C11.arrayFromFn_value N (· * 2) parr_cl_dbl fuel (by omega)
        (fun i hi => by simp [parr_cl_dbl, hm i hi])]
    rfl

theorem ar_from_fn_k_model (N fuel k : Nat) (hN : N < 2 ^ 64) (hf : N + 1 ≤ fuel) :
    modelRes (arrayFromFn fuel N (parr_cl_addk k)) = some (Extracted.ar_from_fn_k N fuel k) := by
  by_cases hk : 2 ^ 64 - k < N
  · rw [ar_from_fn_k_panic N fuel k hN hk (by omega)]
    have h := (Konst.Props.C11.arrayFromFn_hostile N (parr_cl_addk k) (2 ^ 64 - k) .panic fuel hk
      (fun i hi t => ⟨i + k, by
        have : i + k < 2 ^ 64 := by omega
        simp [parr_cl_addk, this]⟩)
      (fun t => by
        have : ¬ (2 ^ 64 - k + k < 2 ^ 64) := by omega
        simp only [parr_cl_addk, this, ↓reduceIte])
      (fun v => by simp)).1
    have hlt : 2 ^ 64 - k < fuel := by omega
    rw [h, if_pos hlt]
    rfl
  · have hm : ∀ i, i < N → i + k < 2 ^ 64 := fun i hi => by omega
    rw [ar_from_fn_k_eq N fuel k hN hm hf,
      Konst.Props.C11.arrayFromFn_value N (· + k) (parr_cl_addk k) fuel (by omega)
        (fun i hi => by simp [parr_cl_addk, hm i hi])]
    rfl

theorem ar_map_by_val_model (N fuel : Nat) (xs : List Nat) (hlen : xs.length = N) (hN : N < 2 ^ 64)
    (hf : N + 1 ≤ fuel) :
    modelRes (arrayMapByVal fuel xs parr_cl_half).res = some (Extracted.ar_map_by_val N fuel xs) := by
  rw [ar_map_by_val_eq N fuel xs hlen hN hf,
    Konst.Props.C11.mapByVal_value xs (· / 2) parr_cl_half fuel (by omega) (fun _ _ _ => rfl)]
  rfl

/-- value case only: Props/C11 has no closed form for the by-value model's outcome on a panicking closure
    (`fromFnByVal_hostile` only says "not an array"); the generated function's panic case is
    `ar_from_fn_by_val_panic` above -/
theorem ar_from_fn_by_val_model (N fuel : Nat) (hN : N < 2 ^ 64) (hm : ∀ i, i < N → i * 2 < 2 ^ 64)
    (hf : N + 1 ≤ fuel) :
    modelRes (arrayFromFnByVal fuel N parr_cl_dbl).res = some (Extracted.ar_from_fn_by_val N fuel) := by
  rw [ar_from_fn_by_val_eq N fuel hN hm hf,
    Konst.Props.C11.fromFnByVal_value N (· * 2) parr_cl_dbl fuel (by omega)
      (fun i hi => by simp [parr_cl_dbl, hm i hi])]
  rfl

example : modelRes (arrayFromFn 4 3 (parr_cl_addk 18446744073709551614)) = some (Extracted.ar_from_fn_k 3 4 18446744073709551614) :=
  ar_from_fn_k_model 3 4 _ (by decide) (by decide)
example : arrayFromFn 4 3 (parr_cl_addk 18446744073709551614) = .panic := by decide

end Model

end Extracted.Equiv
