import KonstVerif.Extracted.Gen.ProbesMisc
import KonstVerif.Extracted.Equiv.Cmp
import KonstVerif.Extracted.Equiv.Cmp2
import KonstVerif.Extracted.Equiv.ParseInt
import KonstVerif.Extracted.Equiv.Split
import KonstVerif.Extracted.Equiv.Chars
import KonstVerif.Model.OptRes
import KonstVerif.Spec.OptRes
import KonstVerif.Props.C06
import KonstVerif.Props.C16
import KonstVerif.Props.C19
/-
  Extracted (regenerated from the rustc expansion of the probe crate `translator/probes/src/lib.rs`, plus the
  `CmpWrapper<T>` impl methods those call sites dispatch to) = the std meaning, group `ProbesMisc`
  (22 functions + 3 hoisted loop bodies):

    cmp_u32, CmpWrapper_{u8,u32}.{const_eq,const_cmp}, CmpWrapper_{bytes,str}.{const_eq,const_cmp}   (C16)
    cm_eq_slices, cm_cmp_u32, cm_eq_str, cm_eq_opt, cm_cmp_slice_for      (`const_eq!`/`const_cmp!`/`const_cmp_for!`)
    mm_min, mm_max, mm_min_by_key, mm_max_by_key                           (`min!`/`max!`/`min_by_key!`/`max_by_key!`, C19)
    rb_try_rebind, rb_rebind_if_ok                                         (`try_rebind!`/`rebind_if_ok!`, C19)
    it_split_count, it_chars_count                                         (`iter::eval!` over `string::split`/`chars`)

  For every function `f` the obligation theorem is `f_eq` (dots of the Lean name replaced by `_`): for ALL
  arguments, under exactly the machine-range / fuel hypotheses needed, `Extracted.f … = .ok <std meaning>`.
  Where a hand-written model definition exists (`Konst.Cmp.*`, `Konst.OptRes.minBy …`) a second theorem
  `f_model` relates to it.

  Ties of min/max (read off the expansion, and proved below):
    * `mm_min a b`          = `if let Greater = cmp(a, b) { b } else { a }`  : FIRST argument on `Equal`  (= std `min`)
    * `mm_max a b`          = `if let Greater = cmp(a, b) { a } else { b }`  : SECOND argument on `Equal` (= std `max`)
    * `mm_min_by_key a b`   = `[a, b]`, `if let Greater = cmp(a.0, b.0) { b } else { a }` : FIRST on equal keys
    * `mm_max_by_key a b`   = `[b, a]`, `if let Less = cmp(b.0, a.0) { a } else { b }`    : SECOND on equal keys
  (`mm_min`/`mm_max` are on `u32`, where equal values are indistinguishable; the `_by_key` probes are on pairs
  compared by the first component, where the tie rule is observable.)
-/
namespace Extracted.Equiv
open Rs Konst Konst.Cmp Konst.Spec.Cmp

/-! ## scalar comparison: `cmp_u32`, `CmpWrapper<u8>`, `CmpWrapper<u32>` -/

theorem pmisc_cmp_u32_fn : Extracted.cmp_u32 = cmpScalarFn (α := Nat) := rfl

/-- `cmp_u32` = `Ord::cmp` on `u32` -/
theorem cmp_u32_eq (left right : Nat) : Extracted.cmp_u32 left right = .ok (compare left right) := by
  rw [pmisc_cmp_u32_fn, cmpScalarFn_val, compare_nat]

/-- `cmp_u32` = the model's `cmp_int!` -/
theorem cmp_u32_model (left right : Nat) :
    Extracted.cmp_u32 left right = .ok (cmpInt (Int.ofNat left) (Int.ofNat right)) := by
  rw [pmisc_cmp_u32_fn]; exact cmpScalarFn_eq Int.ofNat ofNat_inj ofNat_lt left right

example : Extracted.cmp_u32 4294967295 7 = .ok .gt := by rw [cmp_u32_eq]; decide
example : Extracted.cmp_u32 7 4294967295 = .ok .lt := by rw [cmp_u32_eq]; decide

/-- `CmpWrapper<u8>::const_eq` = `==` -/
theorem CmpWrapper_u8_const_eq_eq (self other : Nat) :
    Extracted.CmpWrapper_u8.const_eq self other = .ok (decide (self = other)) := rfl

/-- … = the model's `eqPrim` -/
theorem CmpWrapper_u8_const_eq_model (self other : Nat) :
    Extracted.CmpWrapper_u8.const_eq self other = .ok (eqPrim (Int.ofNat self) (Int.ofNat other)) := by
  rw [CmpWrapper_u8_const_eq_eq]; simp only [eqPrim, ofNat_inj]

example : Extracted.CmpWrapper_u8.const_eq 200 200 = .ok true := by rw [CmpWrapper_u8_const_eq_eq]; decide

/-- `CmpWrapper<u8>::const_cmp` = `Ord::cmp` -/
theorem CmpWrapper_u8_const_cmp_eq (self other : Nat) :
    Extracted.CmpWrapper_u8.const_cmp self other = .ok (compare self other) := by
  unfold Extracted.CmpWrapper_u8.const_cmp
  simp [cmp_u8_std]

theorem CmpWrapper_u8_const_cmp_model (self other : Nat) :
    Extracted.CmpWrapper_u8.const_cmp self other = .ok (cmpInt (Int.ofNat self) (Int.ofNat other)) := by
  unfold Extracted.CmpWrapper_u8.const_cmp
  simp [cmp_u8_eq]

example : Extracted.CmpWrapper_u8.const_cmp 3 200 = .ok .lt := by rw [CmpWrapper_u8_const_cmp_eq]; decide

/-- `CmpWrapper<u32>::const_eq` = `==` -/
theorem CmpWrapper_u32_const_eq_eq (self other : Nat) :
    Extracted.CmpWrapper_u32.const_eq self other = .ok (decide (self = other)) := rfl

theorem CmpWrapper_u32_const_eq_model (self other : Nat) :
    Extracted.CmpWrapper_u32.const_eq self other = .ok (eqPrim (Int.ofNat self) (Int.ofNat other)) := by
  rw [CmpWrapper_u32_const_eq_eq]; simp only [eqPrim, ofNat_inj]

example : Extracted.CmpWrapper_u32.const_eq 70000 70001 = .ok false := by
  rw [CmpWrapper_u32_const_eq_eq]; decide

/-- `CmpWrapper<u32>::const_cmp` = `Ord::cmp` -/
theorem CmpWrapper_u32_const_cmp_eq (self other : Nat) :
    Extracted.CmpWrapper_u32.const_cmp self other = .ok (compare self other) := by
  unfold Extracted.CmpWrapper_u32.const_cmp
  simp [cmp_u32_eq]

theorem CmpWrapper_u32_const_cmp_model (self other : Nat) :
    Extracted.CmpWrapper_u32.const_cmp self other = .ok (cmpInt (Int.ofNat self) (Int.ofNat other)) := by
  unfold Extracted.CmpWrapper_u32.const_cmp
  simp [cmp_u32_model]

example : Extracted.CmpWrapper_u32.const_cmp 70001 70000 = .ok .gt := by
  rw [CmpWrapper_u32_const_cmp_eq]; decide

/-! ## `CmpWrapper<[u8]>`, `CmpWrapper<str>`: the existing `eq_bytes`/`cmp_bytes`/`eq_str`/`cmp_str` theorems

  `_model`: the right-hand side of `eq_bytes_eq` … (`∃ v, Model.f (l.map ofNat) (r.map ofNat) = some v ∧ … = .ok v`).
  `_eq`: the std meaning, `==` on `List Nat` / lexicographic `Ord::cmp` (`lexCmp compare`), obtained from the
  model statement with `Props/C16.lean` (`eqSlice_iff`, `cmpSlice_eq_lex`, …). -/

theorem pmisc_map_ofNat_inj (a b : List Nat) : a.map Int.ofNat = b.map Int.ofNat ↔ a = b := by
  constructor
  · intro h
    induction a generalizing b with
    | nil => cases b with
      | nil => rfl
      | cons y b => simp at h
    | cons x a ih =>
      cases b with
      | nil => simp at h
      | cons y b =>
        simp only [List.map_cons, List.cons.injEq] at h
        rw [Int.ofNat.inj h.1, ih b h.2]
  · intro h; rw [h]

theorem pmisc_stdEq_map (a b : List Nat) : stdEq (a.map Int.ofNat) (b.map Int.ofNat) = decide (a = b) := by
  unfold stdEq
  by_cases h : a = b
  · simp [h]
  · have : ¬ a.map Int.ofNat = b.map Int.ofNat := fun h' => h ((pmisc_map_ofNat_inj a b).1 h')
    simp [h, this]

theorem pmisc_compare_ofNat (a b : Nat) : compare (Int.ofNat a) (Int.ofNat b) = compare a b := by
  rw [compare_int, compare_nat]
  simp only [ofNat_inj, ofNat_lt]

theorem pmisc_lexCmp_map (a b : List Nat) :
    lexCmp stdCmpScalar (a.map Int.ofNat) (b.map Int.ofNat) = lexCmp compare a b := by
  induction a generalizing b with
  | nil => cases b <;> rfl
  | cons x a ih =>
    cases b with
    | nil => rfl
    | cons y b => simp only [List.map_cons, lexCmp, ih, stdCmpScalar, pmisc_compare_ofNat]

theorem CmpWrapper_bytes_const_eq_model (fuel : Nat) (self other : List Nat)
    (hb : min self.length other.length < 2 ^ 64) (hf : min self.length other.length + 1 ≤ fuel) :
    ∃ b, eqSlice (self.map Int.ofNat) (other.map Int.ofNat) = some b ∧
      Extracted.CmpWrapper_bytes.const_eq fuel self other = .ok b := by
  obtain ⟨b, h1, h2⟩ := eq_bytes_eq fuel self other hb hf
  exact ⟨b, h1, by simp [Extracted.CmpWrapper_bytes.const_eq, h2]⟩

/-- `CmpWrapper<[u8]>::const_eq` = `==` on byte slices -/
theorem CmpWrapper_bytes_const_eq_eq (fuel : Nat) (self other : List Nat)
    (hb : min self.length other.length < 2 ^ 64) (hf : min self.length other.length + 1 ≤ fuel) :
    Extracted.CmpWrapper_bytes.const_eq fuel self other = .ok (decide (self = other)) := by
  obtain ⟨b, h1, h2⟩ := CmpWrapper_bytes_const_eq_model fuel self other hb hf
  rw [Konst.Props.C16.eqSlice_iff, pmisc_stdEq_map] at h1
  rw [h2, ← Option.some.inj h1]

example : Extracted.CmpWrapper_bytes.const_eq 4 [1, 2, 3] [1, 2, 4] = .ok false := by
  rw [CmpWrapper_bytes_const_eq_eq _ _ _ (by decide) (by decide)]; decide

theorem CmpWrapper_bytes_const_cmp_model (fuel : Nat) (self other : List Nat)
    (hb : min self.length other.length < 2 ^ 64) (hf : min self.length other.length + 1 ≤ fuel) :
    ∃ c, cmpSlice (self.map Int.ofNat) (other.map Int.ofNat) = some c ∧
      Extracted.CmpWrapper_bytes.const_cmp fuel self other = .ok c := by
  obtain ⟨c, h1, h2⟩ := cmp_bytes_eq fuel self other hb hf
  exact ⟨c, h1, by simp [Extracted.CmpWrapper_bytes.const_cmp, h2]⟩

/-- `CmpWrapper<[u8]>::const_cmp` = lexicographic `Ord::cmp` on byte slices -/
theorem CmpWrapper_bytes_const_cmp_eq (fuel : Nat) (self other : List Nat)
    (hb : min self.length other.length < 2 ^ 64) (hf : min self.length other.length + 1 ≤ fuel) :
    Extracted.CmpWrapper_bytes.const_cmp fuel self other = .ok (lexCmp compare self other) := by
  obtain ⟨c, h1, h2⟩ := CmpWrapper_bytes_const_cmp_model fuel self other hb hf
  rw [Konst.Props.C16.cmpSlice_eq_lex, pmisc_lexCmp_map] at h1
  rw [h2, ← Option.some.inj h1]

example : Extracted.CmpWrapper_bytes.const_cmp 3 [1, 9] [1, 2, 0] = .ok .gt := by
  rw [CmpWrapper_bytes_const_cmp_eq _ _ _ (by decide) (by decide)]; decide

theorem CmpWrapper_str_const_eq_model (fuel : Nat) (self other : List Nat)
    (hb : min self.length other.length < 2 ^ 64) (hf : min self.length other.length + 1 ≤ fuel) :
    ∃ b, eqStr (self.map Int.ofNat) (other.map Int.ofNat) = some b ∧
      Extracted.CmpWrapper_str.const_eq fuel self other = .ok b := by
  obtain ⟨b, h1, h2⟩ := eq_str_eq fuel self other hb hf
  exact ⟨b, h1, by simp [Extracted.CmpWrapper_str.const_eq, h2]⟩

/-- `CmpWrapper<str>::const_eq` = `==` on `&str` (their UTF-8 bytes) -/
theorem CmpWrapper_str_const_eq_eq (fuel : Nat) (self other : List Nat)
    (hb : min self.length other.length < 2 ^ 64) (hf : min self.length other.length + 1 ≤ fuel) :
    Extracted.CmpWrapper_str.const_eq fuel self other = .ok (decide (self = other)) := by
  obtain ⟨b, h1, h2⟩ := CmpWrapper_str_const_eq_model fuel self other hb hf
  rw [Konst.Props.C16.eqStr_iff, pmisc_stdEq_map] at h1
  rw [h2, ← Option.some.inj h1]

example : Extracted.CmpWrapper_str.const_eq 3 [104, 105] [104, 105] = .ok true := by
  rw [CmpWrapper_str_const_eq_eq _ _ _ (by decide) (by decide)]; decide

theorem CmpWrapper_str_const_cmp_model (fuel : Nat) (self other : List Nat)
    (hb : min self.length other.length < 2 ^ 64) (hf : min self.length other.length + 1 ≤ fuel) :
    ∃ c, cmpStr (self.map Int.ofNat) (other.map Int.ofNat) = some c ∧
      Extracted.CmpWrapper_str.const_cmp fuel self other = .ok c := by
  obtain ⟨c, h1, h2⟩ := cmp_str_eq fuel self other hb hf
  exact ⟨c, h1, by simp [Extracted.CmpWrapper_str.const_cmp, h2]⟩

/-- `CmpWrapper<str>::const_cmp` = `Ord::cmp` on `&str` (lexicographic on the UTF-8 bytes) -/
theorem CmpWrapper_str_const_cmp_eq (fuel : Nat) (self other : List Nat)
    (hb : min self.length other.length < 2 ^ 64) (hf : min self.length other.length + 1 ≤ fuel) :
    Extracted.CmpWrapper_str.const_cmp fuel self other = .ok (lexCmp compare self other) := by
  obtain ⟨c, h1, h2⟩ := CmpWrapper_str_const_cmp_model fuel self other hb hf
  rw [Konst.Props.C16.cmpStr_eq_lex, pmisc_lexCmp_map] at h1
  rw [h2, ← Option.some.inj h1]

example : Extracted.CmpWrapper_str.const_cmp 3 [104, 105, 33] [104, 105] = .ok .gt := by
  rw [CmpWrapper_str_const_cmp_eq _ _ _ (by decide) (by decide)]; decide

/-! ## `const_eq!` / `const_cmp!` call sites (`coerce_to_cmp!` binds both operands once, then the method call) -/

/-- `const_eq!(a, b)` on `&[u8]` -/
theorem cm_eq_slices_eq (fuel : Nat) (a b : List Nat)
    (hb : min a.length b.length < 2 ^ 64) (hf : min a.length b.length + 1 ≤ fuel) :
    Extracted.cm_eq_slices fuel a b = .ok (decide (a = b)) := by
  unfold Extracted.cm_eq_slices
  simp [CmpWrapper_bytes_const_eq_eq fuel a b hb hf]

theorem cm_eq_slices_model (fuel : Nat) (a b : List Nat)
    (hb : min a.length b.length < 2 ^ 64) (hf : min a.length b.length + 1 ≤ fuel) :
    ∃ v, eqSlice (a.map Int.ofNat) (b.map Int.ofNat) = some v ∧ Extracted.cm_eq_slices fuel a b = .ok v := by
  obtain ⟨v, h1, h2⟩ := CmpWrapper_bytes_const_eq_model fuel a b hb hf
  refine ⟨v, h1, ?_⟩
  unfold Extracted.cm_eq_slices
  simp [h2]

example : Extracted.cm_eq_slices 4 [1, 2, 3] [1, 2, 3] = .ok true := by
  rw [cm_eq_slices_eq _ _ _ (by decide) (by decide)]; decide

/-- `const_cmp!(a, b)` on `u32` -/
theorem cm_cmp_u32_eq (fuel : Nat) (a b : Nat) : Extracted.cm_cmp_u32 fuel a b = .ok (compare a b) := by
  unfold Extracted.cm_cmp_u32
  simp [CmpWrapper_u32_const_cmp_eq]

theorem cm_cmp_u32_model (fuel : Nat) (a b : Nat) :
    Extracted.cm_cmp_u32 fuel a b = .ok (cmpInt (Int.ofNat a) (Int.ofNat b)) := by
  unfold Extracted.cm_cmp_u32
  simp [CmpWrapper_u32_const_cmp_model]

example : Extracted.cm_cmp_u32 0 5 70000 = .ok .lt := by rw [cm_cmp_u32_eq]; decide

/-- `const_eq!(a, b)` on `&str` -/
theorem cm_eq_str_eq (fuel : Nat) (a b : List Nat)
    (hb : min a.length b.length < 2 ^ 64) (hf : min a.length b.length + 1 ≤ fuel) :
    Extracted.cm_eq_str fuel a b = .ok (decide (a = b)) := by
  unfold Extracted.cm_eq_str
  simp [CmpWrapper_str_const_eq_eq fuel a b hb hf]

theorem cm_eq_str_model (fuel : Nat) (a b : List Nat)
    (hb : min a.length b.length < 2 ^ 64) (hf : min a.length b.length + 1 ≤ fuel) :
    ∃ v, eqStr (a.map Int.ofNat) (b.map Int.ofNat) = some v ∧ Extracted.cm_eq_str fuel a b = .ok v := by
  obtain ⟨v, h1, h2⟩ := CmpWrapper_str_const_eq_model fuel a b hb hf
  refine ⟨v, h1, ?_⟩
  unfold Extracted.cm_eq_str
  simp [h2]

example : Extracted.cm_eq_str 3 [104, 105] [104, 106] = .ok false := by
  rw [cm_eq_str_eq _ _ _ (by decide) (by decide)]; decide

/-- `const_eq_for!(option; a, b)` with the default element comparison (`CmpWrapper<u8>::const_eq`) = `==` on
    `Option<u8>` -/
theorem cm_eq_opt_eq (fuel : Nat) (a b : Option Nat) :
    Extracted.cm_eq_opt fuel a b = .ok (decide (a = b)) := by
  unfold Extracted.cm_eq_opt
  cases a <;> cases b <;> simp [CmpWrapper_u8_const_eq_eq]

/-- … = the model's `constEqForOption` over `eqPrim` -/
theorem cm_eq_opt_model (fuel : Nat) (a b : Option Nat) :
    ∃ v, constEqForOption (fun x y => some (eqPrim x y)) (a.map Int.ofNat) (b.map Int.ofNat) = some v ∧
      Extracted.cm_eq_opt fuel a b = .ok v := by
  rw [cm_eq_opt_eq]
  cases a <;> cases b <;> simp [constEqForOption, eqPrim, Int.natCast_inj]

example : Extracted.cm_eq_opt 0 (some 3) (some 3) = .ok true := by rw [cm_eq_opt_eq]; decide
example : Extracted.cm_eq_opt 0 (some 3) none = .ok false := by rw [cm_eq_opt_eq]; decide

/-! ## `const_cmp_for!(slice; a, b)`: the explicit slice-pattern loop, elements by `CmpWrapper<u8>::const_cmp` -/

/-- the loop of `const_cmp_for!(slice; …)` from any pair of remaining slices: it breaks with the lexicographic
    `Ord::cmp` of the two (`st` = the slices left when it stopped; not observable).  One iteration per common
    element plus the deciding one; nothing can overflow (no counter) -/
theorem pmisc_cmp_slice_for_loop (n : Nat) (a b : List Nat) (hn : min a.length b.length + 1 ≤ n) :
    ∃ st, Rs.loop (ε := Ordering) n Extracted.cm_cmp_slice_for.loop1 (a, b)
      = .val (st, lexCmp compare a b) := by
  induction n generalizing a b with
  | zero => omega
  | succ n ih =>
    rw [Rs.loop_succ]
    cases a with
    | nil =>
      cases b with
      | nil => exact ⟨([], []), by simp [Extracted.cm_cmp_slice_for.loop1, lexCmp]⟩
      | cons y b => exact ⟨([], y :: b), by simp [Extracted.cm_cmp_slice_for.loop1, lexCmp]⟩
    | cons x a =>
      cases b with
      | nil => exact ⟨(x :: a, []), by simp [Extracted.cm_cmp_slice_for.loop1, lexCmp]⟩
      | cons y b =>
        simp only [List.length_cons] at hn
        obtain ⟨st, hst⟩ := ih a b (by omega)
        cases h : compare x y with
        | eq =>
          exact ⟨st, by simp [Extracted.cm_cmp_slice_for.loop1, CmpWrapper_u8_const_cmp_eq, h, hst, lexCmp]⟩
        | lt =>
          exact ⟨(a, b), by simp [Extracted.cm_cmp_slice_for.loop1, CmpWrapper_u8_const_cmp_eq, h, lexCmp]⟩
        | gt =>
          exact ⟨(a, b), by simp [Extracted.cm_cmp_slice_for.loop1, CmpWrapper_u8_const_cmp_eq, h, lexCmp]⟩

/-- `const_cmp_for!(slice; a, b)` = lexicographic `Ord::cmp` on `&[u8]` — the same value as `cmp_bytes`
    (`CmpWrapper_bytes_const_cmp_eq`), with fuel `min(len a, len b) + 1` and NO machine-range hypothesis (the loop
    walks slice patterns, there is no index) -/
theorem cm_cmp_slice_for_eq (fuel : Nat) (a b : List Nat) (hf : min a.length b.length + 1 ≤ fuel) :
    Extracted.cm_cmp_slice_for fuel a b = .ok (lexCmp compare a b) := by
  obtain ⟨st, hst⟩ := pmisc_cmp_slice_for_loop fuel a b hf
  unfold Extracted.cm_cmp_slice_for
  simp [hst]

/-- … = the model's `constCmpForSlice` over `cmp_int!` -/
theorem cm_cmp_slice_for_model (fuel : Nat) (a b : List Nat) (hf : min a.length b.length + 1 ≤ fuel) :
    ∃ c, constCmpForSlice (fun x y => some (cmpInt x y)) (a.map Int.ofNat) (b.map Int.ofNat) = some c ∧
      Extracted.cm_cmp_slice_for fuel a b = .ok c := by
  refine ⟨_, Konst.Props.C16.constCmpForSlice_eq_lex _ stdCmpScalar
    (fun x y => by rw [Konst.Props.C16.cmpInt_eq_std]) _ _, ?_⟩
  rw [cm_cmp_slice_for_eq fuel a b hf, pmisc_lexCmp_map]

/-- `const_cmp_for!(slice; a, b)` and `cmp_bytes(a, b)` agree -/
theorem cm_cmp_slice_for_eq_cmp_bytes (fuel : Nat) (a b : List Nat)
    (hb : min a.length b.length < 2 ^ 64) (hf : min a.length b.length + 1 ≤ fuel) :
    Extracted.cm_cmp_slice_for fuel a b = Extracted.cmp_bytes fuel a b := by
  obtain ⟨c, h1, h2⟩ := cmp_bytes_eq fuel a b hb hf
  rw [Konst.Props.C16.cmpSlice_eq_lex, pmisc_lexCmp_map] at h1
  rw [cm_cmp_slice_for_eq fuel a b hf, h2, ← Option.some.inj h1]

example : Extracted.cm_cmp_slice_for 3 [1, 9] [1, 2, 0] = .ok .gt := by
  rw [cm_cmp_slice_for_eq _ _ _ (by decide)]; decide
example : Extracted.cm_cmp_slice_for 3 [1, 2] [1, 2, 0] = .ok .lt := by
  rw [cm_cmp_slice_for_eq _ _ _ (by decide)]; decide
example : Extracted.cm_cmp_slice_for 3 [1, 2] [1, 2] = .ok .eq := by
  rw [cm_cmp_slice_for_eq _ _ _ (by decide)]; decide

/-! ## `min!` / `max!` / `min_by_key!` / `max_by_key!` (C19) -/

open Konst.OptRes in
/-- `min!(a, b)` on `u32`: the model's `minBy` with `Ord::cmp` (`if let Greater = cmp(a, b) { b } else { a }`:
    the FIRST argument unless `a > b`) -/
theorem mm_min_model (fuel : Nat) (a b : Nat) :
    Extracted.mm_min fuel a b = .ok (minBy compare a b) := by
  unfold Extracted.mm_min
  simp only [CmpWrapper_u32_const_cmp_eq, Ctl.call_ok, Ctl.bind_eq, Ctl.bind_val, Ctl.pure_eq, minBy]
  cases h : compare a b <;> simp [h]

/-- `min!(a, b)` = `std::cmp::min(a, b)` (on `u32` equal values are indistinguishable; the tie rule "first argument
    on `Equal`" is `mm_min_model` + `Props/C19.lean` `minBy_eq_std`/`minmax_ties`) -/
theorem mm_min_eq (fuel : Nat) (a b : Nat) : Extracted.mm_min fuel a b = .ok (min a b) := by
  rw [mm_min_model, Konst.OptRes.minBy]
  by_cases h : a ≤ b
  · have : compare a b ≠ .gt := by
      intro hc; rw [Nat.compare_eq_gt] at hc; omega
    simp [this, Nat.min_eq_left h]
  · have : compare a b = .gt := Nat.compare_eq_gt.2 (by omega)
    simp [this, Nat.min_eq_right (by omega : b ≤ a)]

example : Extracted.mm_min 0 70000 3 = .ok 3 := by rw [mm_min_eq]; decide
example : Extracted.mm_min 0 3 70000 = .ok 3 := by rw [mm_min_eq]; decide

open Konst.OptRes in
/-- `max!(a, b)` on `u32`: the model's `maxBy` (`if let Greater = cmp(a, b) { a } else { b }`: the SECOND
    argument unless `a > b`) -/
theorem mm_max_model (fuel : Nat) (a b : Nat) :
    Extracted.mm_max fuel a b = .ok (maxBy compare a b) := by
  unfold Extracted.mm_max
  simp only [CmpWrapper_u32_const_cmp_eq, Ctl.call_ok, Ctl.bind_eq, Ctl.bind_val, Ctl.pure_eq, maxBy]
  cases h : compare a b <;> simp [h]

/-- `max!(a, b)` = `std::cmp::max(a, b)` -/
theorem mm_max_eq (fuel : Nat) (a b : Nat) : Extracted.mm_max fuel a b = .ok (max a b) := by
  rw [mm_max_model, Konst.OptRes.maxBy]
  by_cases h : a ≤ b
  · have : compare a b ≠ .gt := by
      intro hc; rw [Nat.compare_eq_gt] at hc; omega
    simp [this, Nat.max_eq_right h]
  · have : compare a b = .gt := Nat.compare_eq_gt.2 (by omega)
    simp [this, Nat.max_eq_left (by omega : b ≤ a)]

example : Extracted.mm_max 0 70000 3 = .ok 70000 := by rw [mm_max_eq]; decide
example : Extracted.mm_max 0 3 70000 = .ok 70000 := by rw [mm_max_eq]; decide

open Konst.OptRes in
/-- `min_by_key!(a, b, |p| p.0)` = the model's `minByKey` with key `Prod.fst` and `Ord::cmp` on the keys -/
theorem mm_min_by_key_model (fuel : Nat) (a b : Nat × Nat) :
    Extracted.mm_min_by_key fuel a b = .ok (minByKey Prod.fst compare a b) := by
  unfold Extracted.mm_min_by_key
  simp only [CmpWrapper_u32_const_cmp_eq, Ctl.call_ok, Ctl.bind_eq, Ctl.bind_val, Ctl.pure_eq, minByKey,
    minmaxByKey]
  cases h : compare a.1 b.1 <;> simp [h]

/-- `min_by_key!(a, b, |p| p.0)`: explicit tie rule — `b` only when its key is STRICTLY smaller, so the FIRST
    argument on equal keys, as `std::cmp::min_by_key` -/
theorem mm_min_by_key_eq (fuel : Nat) (a b : Nat × Nat) :
    Extracted.mm_min_by_key fuel a b = .ok (if b.1 < a.1 then b else a) := by
  rw [mm_min_by_key_model, Konst.OptRes.minByKey, Konst.OptRes.minmaxByKey]
  by_cases h : b.1 < a.1
  · simp [h, Nat.compare_eq_gt.2 h]
  · have : compare a.1 b.1 ≠ .gt := by
      intro hc; rw [Nat.compare_eq_gt] at hc; omega
    simp [h, this]

/-- … = `std::cmp::min_by_key` (`Spec/OptRes.lean`) -/
theorem mm_min_by_key_std (fuel : Nat) (a b : Nat × Nat) :
    Extracted.mm_min_by_key fuel a b = .ok (Spec.OptRes.minByKey Prod.fst compare a b) := by
  rw [mm_min_by_key_model, Konst.Props.C19.minByKey_eq_std]

/-- equal keys: the first argument -/
theorem mm_min_by_key_tie (fuel : Nat) (a b : Nat × Nat) (h : a.1 = b.1) :
    Extracted.mm_min_by_key fuel a b = .ok a := by
  rw [mm_min_by_key_eq]; simp [h]

example : Extracted.mm_min_by_key 0 (5, 1) (5, 2) = .ok (5, 1) := by rw [mm_min_by_key_eq]; decide
example : Extracted.mm_min_by_key 0 (6, 1) (5, 2) = .ok (5, 2) := by rw [mm_min_by_key_eq]; decide

open Konst.OptRes in
/-- `max_by_key!(a, b, |p| p.0)` = the model's `maxByKey` (arguments swapped, test for `Less`) -/
theorem mm_max_by_key_model (fuel : Nat) (a b : Nat × Nat) :
    Extracted.mm_max_by_key fuel a b = .ok (maxByKey Prod.fst compare a b) := by
  unfold Extracted.mm_max_by_key
  simp only [CmpWrapper_u32_const_cmp_eq, Ctl.call_ok, Ctl.bind_eq, Ctl.bind_val, Ctl.pure_eq, maxByKey,
    minmaxByKey]
  cases h : compare b.1 a.1 <;> simp [h]

/-- `max_by_key!(a, b, |p| p.0)`: explicit tie rule — `a` only when its key is STRICTLY greater, so the SECOND
    argument on equal keys, as `std::cmp::max_by_key` -/
theorem mm_max_by_key_eq (fuel : Nat) (a b : Nat × Nat) :
    Extracted.mm_max_by_key fuel a b = .ok (if b.1 < a.1 then a else b) := by
  rw [mm_max_by_key_model, Konst.OptRes.maxByKey, Konst.OptRes.minmaxByKey]
  by_cases h : b.1 < a.1
  · simp [h, Nat.compare_eq_lt.2 h]
  · have : compare b.1 a.1 ≠ .lt := by
      intro hc; rw [Nat.compare_eq_lt] at hc; omega
    simp [h, this]

/-- … = `std::cmp::max_by_key` (`Spec/OptRes.lean`) -/
theorem mm_max_by_key_std (fuel : Nat) (a b : Nat × Nat) :
    Extracted.mm_max_by_key fuel a b = .ok (Spec.OptRes.maxByKey Prod.fst compare a b) := by
  rw [mm_max_by_key_model, Konst.Props.C19.maxByKey_eq_std]

/-- equal keys: the second argument -/
theorem mm_max_by_key_tie (fuel : Nat) (a b : Nat × Nat) (h : a.1 = b.1) :
    Extracted.mm_max_by_key fuel a b = .ok b := by
  rw [mm_max_by_key_eq]; simp [h]

example : Extracted.mm_max_by_key 0 (5, 1) (5, 2) = .ok (5, 2) := by rw [mm_max_by_key_eq]; decide
example : Extracted.mm_max_by_key 0 (6, 1) (5, 2) = .ok (6, 1) := by rw [mm_max_by_key_eq]; decide

/-! ## `try_rebind!` / `rebind_if_ok!` around `Parser::parse_u8` (C19)

  `_eq`: relative to the call `Extracted.Parser.parse_u8 fuel p`, for EVERY outcome of that call (so without any
  hypothesis): `try_rebind!{(x, p) = p.parse_u8()}; Ok((x, p))` is the call itself (`?` + re-wrapping the two
  components), `rebind_if_ok!` assigns both components on `Ok` and leaves `x = 0`, `p` untouched on `Err`.
  `_model`: composed with `Parser.parse_u8_ok` (Equiv/ParseInt.lean) against `Konst.Parser.parseInt · false 8`. -/

/-- `rb_try_rebind` returns exactly what `p.parse_u8()` returns (also the same panic / fuel outcome) -/
theorem rb_try_rebind_eq (fuel : Nat) (p : Parser) :
    Extracted.rb_try_rebind fuel p = Extracted.Parser.parse_u8 fuel p := by
  unfold Extracted.rb_try_rebind
  cases Extracted.Parser.parse_u8 fuel p with
  | ok r => cases r <;> rfl
  | panic => rfl
  | ub => rfl
  | nofuel => rfl

theorem rb_try_rebind_ok (fuel : Nat) (p p' : Parser) (x : Nat)
    (h : Extracted.Parser.parse_u8 fuel p = .ok (.ok (x, p'))) :
    Extracted.rb_try_rebind fuel p = .ok (.ok (x, p')) := by rw [rb_try_rebind_eq, h]

theorem rb_try_rebind_err (fuel : Nat) (p : Parser) (e : ParseError)
    (h : Extracted.Parser.parse_u8 fuel p = .ok (.error e)) :
    Extracted.rb_try_rebind fuel p = .ok (.error e) := by rw [rb_try_rebind_eq, h]

/-- on a `&str`: `Ok((value, parser))` / `Err(error)` of the model's `parseInt · false 8` -/
theorem rb_try_rebind_model (fuel : Nat) (p : Parser)
    (hoff : p.start_offset + p.str.length < 2 ^ 32) (hv : Konst.Spec.Utf8.Valid p.str)
    (hf : p.str.length ≤ fuel) :
    let r := Konst.Parser.parseInt (toParser p) false 8
    (∃ q v t, r = .ok q v ∧ natVal v = some t ∧ Extracted.rb_try_rebind fuel p = .ok (.ok (t, ofParser q))) ∨
    (∃ e, r = .err e ∧ Extracted.rb_try_rebind fuel p = .ok (.error (ofError e))) := by
  rw [rb_try_rebind_eq]
  exact Parser.parse_u8_ok fuel p hoff hv hf

example : Extracted.rb_try_rebind 3 ⟨.FromEnd, true, 7, [49, 50, 120]⟩
    = .ok (.ok (12, ⟨.FromStart, true, 9, [120]⟩)) := by rw [rb_try_rebind_eq]; rfl
example : Extracted.rb_try_rebind 3 ⟨.FromStart, false, 0, [50, 53, 54]⟩
    = .ok (.error ⟨0, 3, .FromStart, .ParseInteger, [], ()⟩) := by rw [rb_try_rebind_eq]; rfl

/-- the value `rebind_if_ok!{(x, p) = p.parse_u8()}; (x, p)` computes from the outcome of the call -/
def pmisc_rebindIfOk (p : Parser) : Res (Except ParseError (Nat × Parser)) → Res (Nat × Parser)
  | .ok (.ok (x, p')) => .ok (x, p')
  | .ok (.error _) => .ok (0, p)
  | .panic => .panic
  | .ub => .ub
  | .nofuel => .nofuel

theorem rb_rebind_if_ok_eq (fuel : Nat) (p : Parser) :
    Extracted.rb_rebind_if_ok fuel p = pmisc_rebindIfOk p (Extracted.Parser.parse_u8 fuel p) := by
  unfold Extracted.rb_rebind_if_ok
  cases Extracted.Parser.parse_u8 fuel p with
  | ok r => cases r <;> rfl
  | panic => rfl
  | ub => rfl
  | nofuel => rfl

theorem rb_rebind_if_ok_ok (fuel : Nat) (p p' : Parser) (x : Nat)
    (h : Extracted.Parser.parse_u8 fuel p = .ok (.ok (x, p'))) :
    Extracted.rb_rebind_if_ok fuel p = .ok (x, p') := by rw [rb_rebind_if_ok_eq, h]; rfl

theorem rb_rebind_if_ok_err (fuel : Nat) (p : Parser) (e : ParseError)
    (h : Extracted.Parser.parse_u8 fuel p = .ok (.error e)) :
    Extracted.rb_rebind_if_ok fuel p = .ok (0, p) := by rw [rb_rebind_if_ok_eq, h]; rfl

/-- on a `&str`: both variables assigned from the model's `Ok`, untouched (`x = 0`, `p`) on the model's `Err` -/
theorem rb_rebind_if_ok_model (fuel : Nat) (p : Parser)
    (hoff : p.start_offset + p.str.length < 2 ^ 32) (hv : Konst.Spec.Utf8.Valid p.str)
    (hf : p.str.length ≤ fuel) :
    let r := Konst.Parser.parseInt (toParser p) false 8
    (∃ q v t, r = .ok q v ∧ natVal v = some t ∧ Extracted.rb_rebind_if_ok fuel p = .ok (t, ofParser q)) ∨
    (∃ e, r = .err e ∧ Extracted.rb_rebind_if_ok fuel p = .ok (0, p)) := by
  intro r
  rcases Parser.parse_u8_ok fuel p hoff hv hf with ⟨q, v, t, h1, h2, h3⟩ | ⟨e, h1, h3⟩
  · exact .inl ⟨q, v, t, h1, h2, rb_rebind_if_ok_ok fuel p _ t h3⟩
  · exact .inr ⟨e, h1, rb_rebind_if_ok_err fuel p _ h3⟩

example : Extracted.rb_rebind_if_ok 3 ⟨.FromEnd, true, 7, [49, 50, 120]⟩
    = .ok (12, ⟨.FromStart, true, 9, [120]⟩) := by rw [rb_rebind_if_ok_eq]; rfl
example : Extracted.rb_rebind_if_ok 3 ⟨.FromStart, false, 0, [50, 53, 54]⟩
    = .ok (0, ⟨.FromStart, false, 0, [50, 53, 54]⟩) := by rw [rb_rebind_if_ok_eq]; rfl

/-- the statements the model's tuple walker (`Model/OptRes.lean`) emits for the pattern `(x, p)` on a 2-tuple are
    the two assignments of the rustc expansion (`x = tuple.0; p = tuple.1;`), for both macros -/
example : Konst.OptRes.emitted (Konst.OptRes.tryRebindMatches ⟨false, [.place, .place]⟩)
      ⟨false, [.place, .place]⟩ 2 false
    = some [.assign ⟨0, .place⟩ (.field (.idx 0)), .assign ⟨1, .place⟩ (.field (.idx 1))] := by decide
example : Konst.OptRes.emitted (Konst.OptRes.rebindIfOkMatches ⟨false, [.place, .place]⟩)
      ⟨false, [.place, .place]⟩ 2 false
    = some [.assign ⟨0, .place⟩ (.field (.idx 0)), .assign ⟨1, .place⟩ (.field (.idx 1))] := by decide

/-! ## `iter::eval!(string::split(s, ","), count())`

  The loop calls `Split::next` until `None` and counts.  `Equiv/Split.lean` ties one call to the model's
  `Konst.Split.Iter.next`; the model's driver `Konst.Split.collect` (the function `Props/C06.lean` characterises:
  `collect_split`: exactly std's pieces `splitSpec s d`) makes the same calls, so the loop lemma is stated against
  `collect`.  The invariant `pmisc_SplitInv` carries the side conditions of `Split.next_eq` (bytes, machine bound,
  fuel) from one call to the next: every new remainder is a `View` of the previous one. -/

open Konst.Split in
/-- what `Split.next_eq` needs of the iterator, in a form preserved by `Konst.Split.Iter.next`: it is a `Split` (`fwd`), its
    remainder is a byte string no longer than `L`, its delimiter no longer than `D` -/
structure pmisc_SplitInv (L D : Nat) (it : Konst.Split.Iter) : Prop where
  fwd : it.fwd = true
  lt256 : ∀ b ∈ it.this.bytes, b < 256
  len : it.this.bytes.length ≤ L
  delim : (stateDelim (stateOfModel it.state)).length ≤ D

theorem pmisc_view_apply_mem {v : View} {l : List Nat} {b : Nat} (h : b ∈ v.apply l) : b ∈ l :=
  List.mem_of_mem_drop (List.mem_of_mem_take h)

theorem pmisc_view_apply_length (v : View) (l : List Nat) : (v.apply l).length ≤ l.length := by
  simp only [View.apply, List.length_take, List.length_drop]; omega

open Konst.Split in
/-- a remainder cut out of the previous one by any view keeps the invariant (any state with a short delimiter) -/
theorem pmisc_SplitInv_cut {L D : Nat} {x : Konst.Split.Str} {st st' : Konst.Split.State} (v : View)
    (h : pmisc_SplitInv L D ⟨true, x, st⟩) (hd : (stateDelim (stateOfModel st')).length ≤ D) :
    pmisc_SplitInv L D ⟨true, x.cut v, st'⟩ :=
  ⟨rfl, fun b hb => h.lt256 b (pmisc_view_apply_mem hb),
    Nat.le_trans (pmisc_view_apply_length v x.bytes) h.len, hd⟩

open Konst.Split in
/-- `Konst.Split.Iter.next` preserves the invariant -/
theorem pmisc_split_next_inv {L D : Nat} {it it' : Konst.Split.Iter} {p : Konst.Split.Str}
    (hinv : pmisc_SplitInv L D it)
    (h : Konst.Split.Iter.next it = .ok (some (p, it'))) : pmisc_SplitInv L D it' := by
  obtain ⟨fwd, x, state⟩ := it
  have hfwd : fwd = true := hinv.fwd
  subst hfwd
  simp only [Konst.Split.Iter.next, ↓reduceIte] at h
  cases state with
  | finished => simp [nextBlock] at h
  | normal d =>
    simp only [nextBlock] at h
    cases hfind : StrFns.find x.bytes d with
    | none =>
      simp only [hfind, Except.ok.injEq, Option.some.injEq, Prod.mk.injEq] at h
      rw [← h.2]
      exact ⟨rfl, by simp [Str.lit], by simp [Str.lit], by simp [stateDelim]⟩
    | some pos =>
      simp only [hfind] at h
      cases h1 : Utf8.strFrom x.bytes (pos + d.length) with
      | error e => simp [h1, bind, Except.bind] at h
      | ok a =>
        cases h2 : Utf8.strUpTo x.bytes pos with
        | error e => simp [h1, h2, bind, Except.bind] at h
        | ok b =>
          simp only [h1, h2, bind, Except.bind, pure, Except.pure, Except.ok.injEq, Option.some.injEq,
            Prod.mk.injEq] at h
          rw [← h.2]
          exact pmisc_SplitInv_cut a hinv hinv.delim
  | empty es =>
    simp only [nextBlock] at h
    cases es with
    | start =>
      simp only [nextFromEmpty, Except.ok.injEq, Option.some.injEq, Prod.mk.injEq] at h
      rw [← h.2]
      exact ⟨rfl, hinv.lt256, hinv.len, by simp [stateDelim]⟩
    | cont =>
      simp only [nextFromEmpty, splitAtStr] at h
      cases h1 : Utf8.splitAt x.bytes (Utf8.findNextCharBoundary x.bytes 0) with
      | error e => simp [h1, bind, Except.bind] at h
      | ok ab =>
        obtain ⟨a, b⟩ := ab
        simp only [h1, bind, Except.bind, pure, Except.pure, Except.ok.injEq, Option.some.injEq,
          Prod.mk.injEq] at h
        rw [← h.2]
        by_cases he : x.bytes.isEmpty = true
        · simp only [he, ↓reduceIte]
          exact pmisc_SplitInv_cut b hinv (by simp [stateDelim])
        · simp only [he, Bool.false_eq_true, ↓reduceIte]
          exact pmisc_SplitInv_cut b hinv (by simp [stateDelim])

open Konst.Split in
/-- the counting loop of `it_split_count` from any `Split` state and counter `r`: if the model's driver reaches
    `None` after yielding `l` (within the same number `n` of `next` calls), the loop exits with `r + |l|`.
    `F` = fuel handed to `Split::next`, `n` = fuel of this loop -/
theorem pmisc_split_count_loop (F L D : Nat) (hL : L + D + 1 < 2 ^ 64) (hF : L + D + 2 ≤ F)
    (n : Nat) (it : Konst.Split.Iter) (r : Nat) (l : List (Konst.Split.Str × Konst.Split.Str))
    (hinv : pmisc_SplitInv L D it)
    (hc : collect Konst.Split.Iter.next Konst.Split.Iter.remainder n it = .done l) (hr : r + l.length < 2 ^ 64) :
    ∃ st, Rs.loop (ε := Nat) n (Extracted.it_split_count.loop1 F) (splitOfModel it, r)
      = .val (st, r + l.length) := by
  induction n generalizing it r l with
  | zero => simp [collect] at hc
  | succ n ih =>
    have hnext : Extracted.Split.next F (splitOfModel it) = resStep splitOfModel (Konst.Split.Iter.next it) := by
      have h := Split.next_eq F it.this.off (splitOfModel it) hinv.lt256
        (by have := hinv.len; have := hinv.delim; simp only [splitOfModel] at *; omega)
        (by have := hinv.len; have := hinv.delim; simp only [splitOfModel] at *; omega)
      rwa [splitToModel_ofModel it hinv.fwd] at h
    rw [Rs.loop_succ]
    simp only [collect] at hc
    cases hn : Konst.Split.Iter.next it with
    | error e => simp [hn] at hc
    | ok o =>
      cases o with
      | none =>
        simp only [hn, Run.done.injEq] at hc
        subst hc
        exact ⟨splitOfModel it, by simp [Extracted.it_split_count.loop1, hnext, hn]⟩
      | some pit =>
        obtain ⟨p, it'⟩ := pit
        simp only [hn] at hc
        cases hc' : collect Konst.Split.Iter.next Konst.Split.Iter.remainder n it' with
        | panic => simp [hc'] at hc
        | fuel => simp [hc'] at hc
        | done l' =>
          simp only [hc', Run.done.injEq] at hc
          subst hc
          simp only [List.length_cons] at hr
          have h1 : r + 1 < 2 ^ 64 := by omega
          obtain ⟨st, hst⟩ := ih it' (r + 1) l' (pmisc_split_next_inv hinv hn) hc' (by omega)
          refine ⟨st, ?_⟩
          simp only [Extracted.it_split_count.loop1, hnext, hn, resStep_some, Ctl.call_ok, Ctl.bind_eq,
            Ctl.bind_val, Ctl.pure_eq, Rs.uadd, h1, ↓reduceIte, hst, List.length_cons]
          congr 2; omega

theorem pmisc_valid_comma : Konst.Spec.Utf8.Valid [44] := ⟨[44], by decide, by decide⟩

/-- `iter::eval!(string::split(s, ","), count())` = the number of pieces `str::split(",")` yields
    (`Spec/Split.lean` `splitSpec`, the reference `Props/C06.lean` is stated against), for every `&str` `s`
    (valid UTF-8: on other byte strings `str_from` behind a comma can panic).  Machine bound `|s| + 2 < 2^64` and
    fuel `|s| + 3` are those of `string::find` inside `Split::next` (`Split.next_eq`); the counter `rets += 1` stays
    `≤ |s| + 1`. -/
theorem it_split_count_eq (fuel : Nat) (s : List Nat) (hv : Konst.Spec.Utf8.Valid s)
    (hl : s.length + 2 < 2 ^ 64) (hf : s.length + 3 ≤ fuel) :
    Extracted.it_split_count fuel s = .ok (Konst.Spec.Split.splitSpec s [44]).length := by
  have hc := Konst.Props.C06.collect_split s [44] hv pmisc_valid_comma fuel hf
  have hlen : ((Konst.Spec.Split.stepsFwd [44].length 0 s (Konst.Spec.Split.splitSpec s [44])).map
      Konst.Lemmas.Split.ofP2).length = (Konst.Spec.Split.splitSpec s [44]).length := by
    have := congrArg List.length (Konst.Lemmas.Split.stepsFwd_pieces [44].length
      (Konst.Spec.Split.splitSpec s [44]) 0 s)
    simpa only [List.length_map] using this
  have hle := (Konst.Lemmas.Split.spec_lengths s [44] hv).1
  have hinv : pmisc_SplitInv s.length 1 (Konst.Split.split s [44]) :=
    ⟨rfl, pi_valid_lt_256 hv, Nat.le_refl _, by simp [Konst.Split.split, stateDelim]⟩
  obtain ⟨st, hst⟩ := pmisc_split_count_loop fuel s.length 1 (by omega) (by omega) fuel _ 0 _ hinv hc
    (by rw [hlen]; omega)
  unfold Extracted.it_split_count
  simp only [split_eq, Ctl.call_ok, Ctl.bind_eq, Ctl.bind_val, Ctl.pure_eq, hst, hlen, Nat.zero_add,
    Ctl.run_val]

/-- "a,b,,c" has four pieces -/
example : Extracted.it_split_count 9 [97, 44, 98, 44, 44, 99] = .ok 4 := by
  rw [it_split_count_eq 9 [97, 44, 98, 44, 44, 99] ⟨[97, 44, 98, 44, 44, 99], by decide, by decide⟩
    (by decide) (by decide)]
  decide

/-! ## `iter::eval!(string::chars(s), filter(|c| *c == 'a'), count())`

  One call of `Chars::next` is tied to the model by `Chars.next_eq` (Equiv/Chars.lean); on the encoding of
  `c :: cs` the model's step is `some (c, it')` with `it'` denoting `encs cs` (`Lemmas/Chars.lean`
  `chars_next_cons`), on the empty string `none` — so the loop walks the decoded characters. -/

open Konst.Spec.Utf8 in
/-- the filter-and-count loop of `it_chars_count` from any `Chars` state denoting `encs cs` and counter `r`:
    it exits with `r +` the number of `'a'` (97) among `cs`.  `F` = fuel handed to `Chars::next` -/
theorem pmisc_chars_count_loop (F : Nat) (s : List Nat) (hs64 : s.length < 2 ^ 64) (hF : s.length + 1 ≤ F)
    (n : Nat) (cs : List Nat) (it : Konst.Chars.Chars) (r : Nat)
    (hib : it.this.InBounds s.length) (hsc : ∀ c ∈ cs, isScalar c = true) (he : it.this.apply s = encs cs)
    (hn : cs.length + 1 ≤ n) (hr : r + cs.count 97 < 2 ^ 64) :
    ∃ st, Rs.loop (ε := Nat) n (Extracted.it_chars_count.loop1 F) (toChars s it, r)
      = .val (st, r + cs.count 97) := by
  induction n generalizing cs it r with
  | zero => omega
  | succ n ih =>
    have hlen := pmisc_view_apply_length it.this s
    obtain ⟨o, ho, hnext⟩ := Chars.next_eq F s it ⟨cs, hsc, he⟩ (by omega) (by omega)
    rw [Rs.loop_succ]
    cases cs with
    | nil =>
      rw [Konst.Lemmas.Chars.chars_next_nil s it (by simpa using he)] at ho
      obtain rfl : o = none := by cases ho; rfl
      exact ⟨toChars s it, by simp [Extracted.it_chars_count.loop1, hnext, charsItem]⟩
    | cons c cs =>
      obtain ⟨it', h1, hib', he', _⟩ := Konst.Lemmas.Chars.chars_next_cons s it c cs hib hsc he
      rw [h1] at ho
      obtain rfl : o = some (c, it') := by cases ho; rfl
      have hsc' : ∀ c ∈ cs, isScalar c = true := fun x hx => hsc x (List.mem_cons_of_mem _ hx)
      simp only [List.length_cons] at hn
      rw [List.count_cons] at hr ⊢
      by_cases hc : c = 97
      · subst hc
        simp only [beq_self_eq_true, ↓reduceIte] at hr ⊢
        have hr1 : r + 1 < 2 ^ 64 := by omega
        obtain ⟨st, hst⟩ := ih cs it' (r + 1) hib' hsc' he' (by omega) (by omega)
        refine ⟨st, ?_⟩
        simp only [Extracted.it_chars_count.loop1, hnext, charsItem, Option.map_some, Ctl.call_ok, Ctl.bind_eq,
          Ctl.bind_val, Ctl.pure_eq, decide_true, Bool.not_true, Bool.false_eq_true, ↓reduceIte, Rs.uadd,
          hr1, hst]
        congr 2; omega
      · have hb : (c == 97) = false := by simp [hc]
        simp only [hb, Bool.false_eq_true, ↓reduceIte, Nat.add_zero] at hr ⊢
        obtain ⟨st, hst⟩ := ih cs it' r hib' hsc' he' (by omega) hr
        refine ⟨st, ?_⟩
        simp only [Extracted.it_chars_count.loop1, hnext, charsItem, Option.map_some, Ctl.call_ok, Ctl.bind_eq,
          Ctl.bind_val, Ctl.pure_eq, hc, decide_false, Bool.not_false, ↓reduceIte, Ctl.bind_exit, hst]

open Konst.Spec.Utf8 in
/-- on the UTF-8 encoding of the scalar values `cs`: the number of `cs` equal to `'a'` -/
theorem it_chars_count_encs (fuel : Nat) (cs : List Nat) (hsc : ∀ c ∈ cs, isScalar c = true)
    (hl : (encs cs).length < 2 ^ 64) (hf : (encs cs).length + 1 ≤ fuel) :
    Extracted.it_chars_count fuel (encs cs) = .ok (cs.count 97) := by
  have hle := Konst.Lemmas.Split.length_le_encs cs
  have hcnt : cs.count 97 ≤ cs.length := List.count_le_length
  obtain ⟨st, hst⟩ := pmisc_chars_count_loop fuel (encs cs) hl hf fuel cs (Konst.Chars.chars (encs cs)) 0
    (by simp [Konst.Chars.chars, View.InBounds]) hsc (by simp [Konst.Chars.chars, whole_apply])
    (by omega) (by omega)
  unfold Extracted.it_chars_count
  simp only [chars_eq, Ctl.call_ok, Ctl.bind_eq, Ctl.bind_val, Ctl.pure_eq, hst, Nat.zero_add, Ctl.run_val]

open Konst.Spec.Utf8 in
/-- `iter::eval!(string::chars(s), filter(|c| *c == 'a'), count())` = the number of chars equal to `'a'` (97) in
    the decoded string (`decodeAll`, the reference UTF-8 decoder of `Spec/Utf8.lean`), for every `&str` `s`.
    Machine bound `|s| < 2^64` and fuel `|s| + 1`: those of `__find_next_char_boundary` inside `Chars::next`
    (`Chars.next_eq`); the same fuel bounds the number of iterations (at most `|s|` chars + the final `None`),
    and the counter stays `≤ |s|`. -/
theorem it_chars_count_eq (fuel : Nat) (s : List Nat) (hv : Valid s)
    (hl : s.length < 2 ^ 64) (hf : s.length + 1 ≤ fuel) :
    Extracted.it_chars_count fuel s = .ok (((decodeAll s).getD []).count 97) := by
  obtain ⟨cs, hsc, rfl⟩ := hv
  rw [it_chars_count_encs fuel cs hsc hl hf, Konst.Lemmas.Utf8.decodeAll_encs cs hsc]
  rfl

/-- "a€ab" (the euro sign is three bytes) has two `'a'` -/
example : Extracted.it_chars_count 7 [0x61, 0xE2, 0x82, 0xAC, 0x61, 0x62] = .ok 2 :=
  it_chars_count_encs 7 [0x61, 0x20AC, 0x61, 0x62] (by decide) (by decide) (by decide)

end Extracted.Equiv
