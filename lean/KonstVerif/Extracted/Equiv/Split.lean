import KonstVerif.Extracted.Gen.Split
import KonstVerif.Extracted.Equiv.StrFns
import KonstVerif.Extracted.Equiv.ParserB
import KonstVerif.Model.Split
/-
  Extracted (regenerated from /repo) = Model, for the string split iterators of `konst::string::splitting`
  (group `Split`, 11 functions): `split`, and for each of the two struct types `Split` / `RSplit`
  `next_from_empty`, `next_back_from_empty`, `next`, `next_back`, `remainder`.
  Model: `Konst.Split` (Model/Split.lean, the definitions Props/C06.lean is about).

  Conversion maps.  The model has ONE iterator type `Konst.Split.Iter = {fwd, this : Str, state}` for both
  structs (`fwd = true` is `Split`, `fwd = false` is `RSplit`), and a `&str` held or yielded by the iterator
  is a `Konst.Split.Str = {off, bytes}`: its bytes together with its byte offset in the original haystack.
  The extraction has the two structs `Extracted.Split` / `Extracted.RSplit = {this_ : List Nat, state}`: a
  `&str` is its byte list only (no address).  Hence
    * `splitToModel off s` / `rsplitToModel off s : Iter`  put an extracted iterator at an ARBITRARY haystack
      offset `off` (the theorems hold for every `off`: the code never looks at the address);
    * `splitOfModel it` / `rsplitOfModel it`  forget `fwd` and the offset (`it.this.bytes`);
      `splitOfModel (splitToModel off s) = s`, and `splitToModel it.this.off (splitOfModel it) = it` when
      `it.fwd = true` (same for `rsplit…` with `fwd = false`), so either side can be taken as the primary one;
    * `stateToModel` / `stateOfModel`, `emptyStateToModel` / `emptyStateOfModel`: the enums, constructor by
      constructor (mutually inverse);
    * results: `resStep f : E (Option (Str × Iter)) → Res (Option (List Nat × σ))`,
      `.ok (some (piece, it')) ↦ .ok (some (piece.bytes, f it'))`, `.ok none ↦ .ok none`, `.error _ ↦ .panic`.
      The model's pieces are not `View`s but `Str`s whose `bytes` are already the view applied
      (`Str.cut x v = ⟨x.off + v.off, v.apply x.bytes⟩`), so the conversion of a piece is `.bytes`.

  Panics.  The callees `str_from` / `str_up_to` / `split_at` panic on a non-char-boundary and
  `__find_prev_char_boundary` panics on `position -= 1` at 0.  The MODEL HAS these outcomes
  (`E = Except Utf8.Panic`), so every theorem is an equality with the model's result INCLUDING the panic
  outcome (`.error _ ↦ .panic`): the code panics exactly when the model says `.error`.  No UTF-8 validity
  hypothesis on the string or the delimiter is needed (Props/C06.lean proves `.error` unreachable for valid
  ones).  The panic message is not observable in the extraction.

  Hypotheses.
    * `hb : ∀ b ∈ s.this_, b < 256`: the remainder is a byte list (the char-boundary tests cast `as i8`).
    * machine bound / fuel of the search used:  `string::find` (`Split::next`, `RSplit::next_back`):
      `len + delim.len + 1 < 2^64`, fuel `len + delim.len + 2`;  `string::rfind` (`Split::next_back`,
      `RSplit::next`): `len < 2^64`, fuel `len + 1`;  `next_from_empty`: `len < 2^64`, fuel `len + 1`
      (`__find_next_char_boundary`); `next_back_from_empty`: fuel `len + 1`, no bound.
      `stateDelim st` is the delimiter of `State::Normal{delim}` (`[]` for the other states).
      The checked `pos + delim.len()` cannot overflow under these bounds (`bytesFind_le`, `rfind_add_le`).
    * `split`, `remainder`: none.
-/
namespace Extracted.Equiv
open Rs Konst

/-! ### conversion maps -/

/-- `EmptyState`: extraction → model -/
def emptyStateToModel : Extracted.EmptyState → Konst.Split.EmptyState
  | .Start => .start
  | .Continue => .cont

/-- `EmptyState`: model → extraction -/
def emptyStateOfModel : Konst.Split.EmptyState → Extracted.EmptyState
  | .start => .Start
  | .cont => .Continue

/-- `State`: extraction → model -/
def stateToModel : Extracted.State → Konst.Split.State
  | .Normal delim => .normal delim
  | .Empty es => .empty (emptyStateToModel es)
  | .Finished => .finished

/-- `State`: model → extraction -/
def stateOfModel : Konst.Split.State → Extracted.State
  | .normal delim => .Normal delim
  | .empty es => .Empty (emptyStateOfModel es)
  | .finished => .Finished

@[simp] theorem stateOfModel_normal (d : List Nat) : stateOfModel (.normal d) = .Normal d := rfl
@[simp] theorem stateOfModel_empty (es : Konst.Split.EmptyState) :
    stateOfModel (.empty es) = .Empty (emptyStateOfModel es) := rfl
@[simp] theorem stateOfModel_finished : stateOfModel .finished = .Finished := rfl
@[simp] theorem emptyStateOfModel_start : emptyStateOfModel .start = .Start := rfl
@[simp] theorem emptyStateOfModel_cont : emptyStateOfModel .cont = .Continue := rfl

@[simp] theorem emptyStateOfModel_toModel (es : Extracted.EmptyState) :
    emptyStateOfModel (emptyStateToModel es) = es := by cases es <;> rfl
@[simp] theorem emptyStateToModel_ofModel (es : Konst.Split.EmptyState) :
    emptyStateToModel (emptyStateOfModel es) = es := by cases es <;> rfl
@[simp] theorem stateOfModel_toModel (st : Extracted.State) : stateOfModel (stateToModel st) = st := by
  cases st <;> simp [stateToModel, stateOfModel]
@[simp] theorem stateToModel_ofModel (st : Konst.Split.State) : stateToModel (stateOfModel st) = st := by
  cases st <;> simp [stateToModel, stateOfModel]

/-- an extracted `Split` as the model iterator (`fwd = true`) whose `this` sits at haystack offset `off` -/
def splitToModel (off : Nat) (s : Extracted.Split) : Konst.Split.Iter :=
  { fwd := true, this := ⟨off, s.this_⟩, state := stateToModel s.state }

/-- the extracted `Split` of a model iterator: the bytes of `this` (offset and `fwd` forgotten) -/
def splitOfModel (it : Konst.Split.Iter) : Extracted.Split :=
  { this_ := it.this.bytes, state := stateOfModel it.state }

/-- an extracted `RSplit` as the model iterator (`fwd = false`) whose `this` sits at haystack offset `off` -/
def rsplitToModel (off : Nat) (s : Extracted.RSplit) : Konst.Split.Iter :=
  { fwd := false, this := ⟨off, s.this_⟩, state := stateToModel s.state }

/-- the extracted `RSplit` of a model iterator -/
def rsplitOfModel (it : Konst.Split.Iter) : Extracted.RSplit :=
  { this_ := it.this.bytes, state := stateOfModel it.state }

@[simp] theorem splitOfModel_toModel (off : Nat) (s : Extracted.Split) :
    splitOfModel (splitToModel off s) = s := by
  cases s; simp [splitOfModel, splitToModel]
@[simp] theorem rsplitOfModel_toModel (off : Nat) (s : Extracted.RSplit) :
    rsplitOfModel (rsplitToModel off s) = s := by
  cases s; simp [rsplitOfModel, rsplitToModel]

theorem splitToModel_ofModel (it : Konst.Split.Iter) (h : it.fwd = true) :
    splitToModel it.this.off (splitOfModel it) = it := by
  obtain ⟨fwd, ⟨off, bytes⟩, state⟩ := it
  simp only at h
  simp [splitToModel, splitOfModel, h]
theorem rsplitToModel_ofModel (it : Konst.Split.Iter) (h : it.fwd = false) :
    rsplitToModel it.this.off (rsplitOfModel it) = it := by
  obtain ⟨fwd, ⟨off, bytes⟩, state⟩ := it
  simp only at h
  simp [rsplitToModel, rsplitOfModel, h]

/-- the delimiter searched for in state `st` (`[]` unless `State::Normal{delim}`) -/
def stateDelim : Extracted.State → List Nat
  | .Normal delim => delim
  | _ => []

/-- the model's `E (Option (Str × Iter))` as the result of the extraction: a piece is its bytes, the
    returned iterator goes through `f` (`splitOfModel` / `rsplitOfModel`), `.error _` is a panic -/
def resStep {σ : Type} (f : Konst.Split.Iter → σ) :
    Konst.Split.E (Option (Konst.Split.Str × Konst.Split.Iter)) → Res (Option (List Nat × σ))
  | .ok (some (p, it)) => .ok (some (p.bytes, f it))
  | .ok none => .ok none
  | .error _ => .panic

@[simp] theorem resStep_some {σ : Type} (f : Konst.Split.Iter → σ) (p : Konst.Split.Str) (it : Konst.Split.Iter) :
    resStep f (.ok (some (p, it))) = .ok (some (p.bytes, f it)) := rfl
@[simp] theorem resStep_none {σ : Type} (f : Konst.Split.Iter → σ) : resStep f (.ok none) = .ok none := rfl
@[simp] theorem resStep_error {σ : Type} (f : Konst.Split.Iter → σ) (e : Utf8.Panic) :
    resStep f (.error e) = .panic := rfl

/-- `split`: the model's initial iterator (`State::Empty(Start)` for an empty delimiter, else
    `State::Normal{delim}`), at haystack offset 0 -/
theorem split_eq (this delim : List Nat) :
    Extracted.split this delim = .ok (splitOfModel (Konst.Split.split this delim)) := by
  unfold Extracted.split Konst.Split.split splitOfModel
  cases delim <;> simp [stateOfModel, emptyStateOfModel]

example : Extracted.split [97, 44, 98] [44] = .ok ⟨[97, 44, 98], .Normal [44]⟩ := by
  rw [split_eq]; decide
example : Extracted.split [97, 44, 98] [] = .ok ⟨[97, 44, 98], .Empty .Start⟩ := by
  rw [split_eq]; decide

/-- every position `string::rfind` reports leaves room for the pattern (also for the empty pattern, where
    the code answers `len.saturating_sub(1)`) -/
theorem rfind_add_le (left pat : List Nat) (k : Nat) (h : StrFns.rfind left pat = some k) :
    k + pat.length ≤ left.length := by
  unfold StrFns.rfind at h
  by_cases hne : pat.isEmpty = true
  · have : pat.length = 0 := by simpa using hne
    simp only [Bytes.bytesRfind, hne, ↓reduceIte, Option.some.injEq] at h
    omega
  · exact bytesRfind_le left pat (by simpa using hne) k h

/-! ### `Split` -/

/-- `Split::next_from_empty`: `Start` yields `""`; `Continue` cuts the first char off the front
    (`split_at(this, __find_next_char_boundary(this, 0))`), with the model's `split_at` error branch carried along
    as a panic (unreachable in both: the search stops on a position that passes the forgiving boundary test) -/
theorem Split.next_from_empty_eq (fuel off : Nat) (s : Extracted.Split) (es : Extracted.EmptyState)
    (hb : ∀ b ∈ s.this_, b < 256) (hl : s.this_.length < 2 ^ 64) (hf : s.this_.length + 1 ≤ fuel) :
    Extracted.Split.next_from_empty fuel s es
      = resStep splitOfModel (Konst.Split.nextFromEmpty (splitToModel off s) (emptyStateToModel es)) := by
  obtain ⟨this_, state⟩ := s
  cases es with
  | Start =>
    simp [Extracted.Split.next_from_empty, Konst.Split.nextFromEmpty, emptyStateToModel, splitToModel,
      splitOfModel, stateOfModel, emptyStateOfModel, Konst.Split.Str.lit]
  | Continue =>
    simp only at hb hl hf
    unfold Extracted.Split.next_from_empty
    simp only [Konst.Split.nextFromEmpty, emptyStateToModel, splitToModel,
      find_next_char_boundary_eq fuel this_ 0 hb (by decide) hl (by omega), str_split_at_eq _ _ hb,
      Ctl.call_ok, Ctl.bind_eq, Ctl.bind_val, Konst.Split.splitAtStr]
    cases Utf8.splitAt this_ (Utf8.findNextCharBoundary this_ 0) with
    | error e => by_cases h : this_.isEmpty = true <;> simp [h] <;> rfl
    | ok p =>
      obtain ⟨a, b⟩ := p
      by_cases h : this_.isEmpty = true <;>
        simp [h, resOfExceptPair, resStep, bind, Except.bind, pure, Except.pure, Ctl.bind, Ctl.run, splitOfModel,
          Konst.Split.Str.cut]

example : Extracted.Split.next_from_empty 5 ⟨[0xE2, 0x82, 0xAC, 0x41], .Empty .Continue⟩ .Continue
    = .ok (some ([0xE2, 0x82, 0xAC], ⟨[0x41], .Empty .Continue⟩)) := by decide
example : Extracted.Split.next_from_empty 5 ⟨[0xE2, 0x82, 0xAC, 0x41], .Empty .Continue⟩ .Continue
    = resStep splitOfModel
        (Konst.Split.nextFromEmpty (splitToModel 3 ⟨[0xE2, 0x82, 0xAC, 0x41], .Empty .Continue⟩) .cont) :=
  Split.next_from_empty_eq 5 3 _ .Continue (by decide) (by decide) (by decide)

/-- `Split::next_back_from_empty`: `Continue` cuts the last char off the back; panics exactly when the
    model does: `__find_prev_char_boundary` underflows (`this` is non-empty, all continuation bytes) or `split_at`
    rejects the position -/
theorem Split.next_back_from_empty_eq (fuel off : Nat) (s : Extracted.Split) (es : Extracted.EmptyState)
    (hb : ∀ b ∈ s.this_, b < 256) (hf : s.this_.length + 1 ≤ fuel) :
    Extracted.Split.next_back_from_empty fuel s es
      = resStep splitOfModel (Konst.Split.nextBackFromEmpty (splitToModel off s) (emptyStateToModel es)) := by
  obtain ⟨this_, state⟩ := s
  cases es with
  | Start =>
    simp [Extracted.Split.next_back_from_empty, Konst.Split.nextBackFromEmpty, emptyStateToModel, splitToModel,
      splitOfModel, Konst.Split.Str.lit]
  | Continue =>
    simp only at hb hf
    unfold Extracted.Split.next_back_from_empty
    simp only [Konst.Split.nextBackFromEmpty, emptyStateToModel, splitToModel,
      find_prev_char_boundary_eq fuel this_ this_.length hb (by omega), str_split_at_eq _ _ hb,
      Ctl.bind_eq, Konst.Split.splitAtStr]
    cases Utf8.findPrevCharBoundary this_ this_.length with
    | none => by_cases h : this_.isEmpty = true <;> simp [h] <;> rfl
    | some k =>
      simp only [resOfOption_some, Ctl.call_ok, Ctl.bind_val]
      cases Utf8.splitAt this_ k with
      | error e => by_cases h : this_.isEmpty = true <;> simp [h] <;> rfl
      | ok p =>
        obtain ⟨a, b⟩ := p
        by_cases h : this_.isEmpty = true <;>
          simp [h, resOfExceptPair, resStep, bind, Except.bind, pure, Except.pure, Ctl.bind, Ctl.run,
            splitOfModel, Konst.Split.Str.cut]

example : Extracted.Split.next_back_from_empty 5 ⟨[0x41, 0xE2, 0x82, 0xAC], .Empty .Continue⟩ .Continue
    = .ok (some ([0xE2, 0x82, 0xAC], ⟨[0x41], .Empty .Continue⟩)) := by decide
/-- not UTF-8 (continuation bytes only): `position -= 1` underflows, in code and model -/
example : Extracted.Split.next_back_from_empty 5 ⟨[0x82, 0xAC], .Empty .Continue⟩ .Continue = .panic := by
  rw [Split.next_back_from_empty_eq 5 0 _ _ (by decide) (by decide)]; decide

/-- `Split::next` (the `next` block of `split_shared!`: `string::find`, piece = `str_up_to(this, pos)`,
    rest = `str_from(this, pos + delim.len())`) = `Iter.next` of the model at `fwd = true`; panics exactly when the
    model says `.error` (`str_from`, then `str_up_to`, on a non-boundary; or inside `next_from_empty`) -/
theorem Split.next_eq (fuel off : Nat) (s : Extracted.Split)
    (hb : ∀ b ∈ s.this_, b < 256)
    (hl : s.this_.length + (stateDelim s.state).length + 1 < 2 ^ 64)
    (hf : s.this_.length + (stateDelim s.state).length + 2 ≤ fuel) :
    Extracted.Split.next fuel s = resStep splitOfModel (Konst.Split.Iter.next (splitToModel off s)) := by
  obtain ⟨this_, state⟩ := s
  cases state with
  | Normal delim =>
    simp only [stateDelim] at hb hl hf
    unfold Extracted.Split.next
    simp only [Konst.Split.Iter.next, splitToModel, Konst.Split.nextBlock, stateToModel, ↓reduceIte,
      str_find_eq fuel this_ delim hl hf, Ctl.call_ok, Ctl.bind_eq, Ctl.bind_val]
    cases hr : StrFns.find this_ delim with
    | none => simp [splitOfModel, Konst.Split.Str.lit]
    | some pos =>
      have hk := bytesFind_le this_ delim pos hr
      have hadd : pos + delim.length < 2 ^ 64 := by omega
      simp only [Rs.uadd, hadd, ↓reduceIte, str_from_eq _ _ hb, str_up_to_eq _ _ hb, Ctl.bind_val]
      cases Utf8.strFrom this_ (pos + delim.length) with
      | error e => rfl
      | ok a =>
        cases Utf8.strUpTo this_ pos with
        | error e => rfl
        | ok b => simp [resStep, bind, Except.bind, pure, Except.pure, splitOfModel, Konst.Split.Str.cut]
  | Empty es =>
    simp only [stateDelim, List.length_nil] at hb hl hf
    unfold Extracted.Split.next
    have hc := Split.next_from_empty_eq fuel off ⟨this_, .Empty es⟩ es hb (by simp only; omega)
      (by simp only; omega)
    simp only [hc, Konst.Split.Iter.next, splitToModel, Konst.Split.nextBlock, stateToModel, ↓reduceIte]
    cases Konst.Split.nextFromEmpty _ _ with
    | error e => rfl
    | ok r => cases r <;> rfl
  | Finished => rfl

example : Extracted.Split.next 7 ⟨[97, 44, 98], .Normal [44]⟩ = .ok (some ([97], ⟨[98], .Normal [44]⟩)) := by
  rw [Split.next_eq 7 0 _ (by decide) (by decide) (by decide)]; decide
example : Extracted.Split.next 7 ⟨[97, 98], .Normal [44]⟩ = .ok (some ([97, 98], ⟨[], .Finished⟩)) := by
  rw [Split.next_eq 7 0 _ (by decide) (by decide) (by decide)]; decide
example : Extracted.Split.next 7 ⟨[97, 98], .Finished⟩ = .ok none := by
  rw [Split.next_eq 7 0 _ (by decide) (by decide) (by decide)]; decide
/-- a delimiter (not UTF-8) found inside a multi-byte char: `str_from` panics, in code and model -/
example : Extracted.Split.next 9 ⟨[0x41, 0xE2, 0x82, 0xAC], .Normal [0xE2]⟩ = .panic := by
  rw [Split.next_eq 9 0 _ (by decide) (by decide) (by decide)]; decide

/-- `Split::next_back` (the `next_back` block: `string::rfind`, rest = `str_up_to(this, pos)`, piece =
    `str_from(this, pos + delim.len())`) = `Iter.nextBack` of the model at `fwd = true` -/
theorem Split.next_back_eq (fuel off : Nat) (s : Extracted.Split)
    (hb : ∀ b ∈ s.this_, b < 256) (hl : s.this_.length < 2 ^ 64) (hf : s.this_.length + 1 ≤ fuel) :
    Extracted.Split.next_back fuel s = resStep splitOfModel (Konst.Split.Iter.nextBack (splitToModel off s)) := by
  obtain ⟨this_, state⟩ := s
  simp only at hb hl hf
  cases state with
  | Normal delim =>
    unfold Extracted.Split.next_back
    simp only [Konst.Split.Iter.nextBack, splitToModel, Konst.Split.nextBackBlock, stateToModel, ↓reduceIte,
      str_rfind_eq fuel this_ delim hl hf, Ctl.call_ok, Ctl.bind_eq, Ctl.bind_val]
    cases hr : StrFns.rfind this_ delim with
    | none => simp [splitOfModel, Konst.Split.Str.lit]
    | some pos =>
      have hk := rfind_add_le this_ delim pos hr
      have hadd : pos + delim.length < 2 ^ 64 := by omega
      simp only [Rs.uadd, hadd, ↓reduceIte, str_from_eq _ _ hb, str_up_to_eq _ _ hb, Ctl.bind_val]
      cases Utf8.strUpTo this_ pos with
      | error e => rfl
      | ok a =>
        cases Utf8.strFrom this_ (pos + delim.length) with
        | error e => rfl
        | ok b => simp [resStep, bind, Except.bind, pure, Except.pure, splitOfModel, Konst.Split.Str.cut]
  | Empty es =>
    unfold Extracted.Split.next_back
    have hc := Split.next_back_from_empty_eq fuel off ⟨this_, .Empty es⟩ es hb hf
    simp only [hc, Konst.Split.Iter.nextBack, splitToModel, Konst.Split.nextBackBlock, stateToModel, ↓reduceIte]
    cases Konst.Split.nextBackFromEmpty _ _ with
    | error e => rfl
    | ok r => cases r <;> rfl
  | Finished => rfl

example : Extracted.Split.next_back 7 ⟨[97, 44, 98, 44, 99], .Normal [44]⟩
    = .ok (some ([99], ⟨[97, 44, 98], .Normal [44]⟩)) := by
  rw [Split.next_back_eq 7 0 _ (by decide) (by decide) (by decide)]; decide
example : Extracted.Split.next_back 7 ⟨[97, 98], .Empty .Start⟩
    = .ok (some ([], ⟨[97, 98], .Empty .Continue⟩)) := by
  rw [Split.next_back_eq 7 0 _ (by decide) (by decide) (by decide)]; decide
/-- a delimiter (not UTF-8) found inside a multi-byte char: `str_up_to` panics, in code and model -/
example : Extracted.Split.next_back 9 ⟨[0x41, 0xE2, 0x82, 0xAC], .Normal [0x82]⟩ = .panic := by
  rw [Split.next_back_eq 9 0 _ (by decide) (by decide) (by decide)]; decide

/-- `Split::remainder`: the bytes of the model's `remainder` (for every offset) -/
theorem Split.remainder_eq (off : Nat) (s : Extracted.Split) :
    Extracted.Split.remainder s = .ok (Konst.Split.Iter.remainder (splitToModel off s)).bytes := rfl

example : Extracted.Split.remainder ⟨[98], .Normal [44]⟩ = .ok [98] := by decide

/-! ### `RSplit` -/

/-- `RSplit::next_from_empty`: `Start` yields `""`; `Continue` cuts the first char off the front
    (`split_at(this, __find_next_char_boundary(this, 0))`), with the model's `split_at` error branch carried along
    as a panic (unreachable in both: the search stops on a position that passes the forgiving boundary test) -/
theorem RSplit.next_from_empty_eq (fuel off : Nat) (s : Extracted.RSplit) (es : Extracted.EmptyState)
    (hb : ∀ b ∈ s.this_, b < 256) (hl : s.this_.length < 2 ^ 64) (hf : s.this_.length + 1 ≤ fuel) :
    Extracted.RSplit.next_from_empty fuel s es
      = resStep rsplitOfModel (Konst.Split.nextFromEmpty (rsplitToModel off s) (emptyStateToModel es)) := by
  obtain ⟨this_, state⟩ := s
  cases es with
  | Start =>
    simp [Extracted.RSplit.next_from_empty, Konst.Split.nextFromEmpty, emptyStateToModel, rsplitToModel,
      rsplitOfModel, stateOfModel, emptyStateOfModel, Konst.Split.Str.lit]
  | Continue =>
    simp only at hb hl hf
    unfold Extracted.RSplit.next_from_empty
    simp only [Konst.Split.nextFromEmpty, emptyStateToModel, rsplitToModel,
      find_next_char_boundary_eq fuel this_ 0 hb (by decide) hl (by omega), str_split_at_eq _ _ hb,
      Ctl.call_ok, Ctl.bind_eq, Ctl.bind_val, Konst.Split.splitAtStr]
    cases Utf8.splitAt this_ (Utf8.findNextCharBoundary this_ 0) with
    | error e => by_cases h : this_.isEmpty = true <;> simp [h] <;> rfl
    | ok p =>
      obtain ⟨a, b⟩ := p
      by_cases h : this_.isEmpty = true <;>
        simp [h, resOfExceptPair, resStep, bind, Except.bind, pure, Except.pure, Ctl.bind, Ctl.run, rsplitOfModel,
          Konst.Split.Str.cut]

example : Extracted.RSplit.next_from_empty 5 ⟨[0xE2, 0x82, 0xAC, 0x41], .Empty .Continue⟩ .Continue
    = .ok (some ([0xE2, 0x82, 0xAC], ⟨[0x41], .Empty .Continue⟩)) := by decide
example : Extracted.RSplit.next_from_empty 5 ⟨[0xE2, 0x82, 0xAC, 0x41], .Empty .Continue⟩ .Continue
    = resStep rsplitOfModel
        (Konst.Split.nextFromEmpty (rsplitToModel 3 ⟨[0xE2, 0x82, 0xAC, 0x41], .Empty .Continue⟩) .cont) :=
  RSplit.next_from_empty_eq 5 3 _ .Continue (by decide) (by decide) (by decide)

/-- `RSplit::next_back_from_empty`: `Continue` cuts the last char off the back; panics exactly when the
    model does: `__find_prev_char_boundary` underflows (`this` is non-empty, all continuation bytes) or `split_at`
    rejects the position -/
theorem RSplit.next_back_from_empty_eq (fuel off : Nat) (s : Extracted.RSplit) (es : Extracted.EmptyState)
    (hb : ∀ b ∈ s.this_, b < 256) (hf : s.this_.length + 1 ≤ fuel) :
    Extracted.RSplit.next_back_from_empty fuel s es
      = resStep rsplitOfModel (Konst.Split.nextBackFromEmpty (rsplitToModel off s) (emptyStateToModel es)) := by
  obtain ⟨this_, state⟩ := s
  cases es with
  | Start =>
    simp [Extracted.RSplit.next_back_from_empty, Konst.Split.nextBackFromEmpty, emptyStateToModel, rsplitToModel,
      rsplitOfModel, Konst.Split.Str.lit]
  | Continue =>
    simp only at hb hf
    unfold Extracted.RSplit.next_back_from_empty
    simp only [Konst.Split.nextBackFromEmpty, emptyStateToModel, rsplitToModel,
      find_prev_char_boundary_eq fuel this_ this_.length hb (by omega), str_split_at_eq _ _ hb,
      Ctl.bind_eq, Konst.Split.splitAtStr]
    cases Utf8.findPrevCharBoundary this_ this_.length with
    | none => by_cases h : this_.isEmpty = true <;> simp [h] <;> rfl
    | some k =>
      simp only [resOfOption_some, Ctl.call_ok, Ctl.bind_val]
      cases Utf8.splitAt this_ k with
      | error e => by_cases h : this_.isEmpty = true <;> simp [h] <;> rfl
      | ok p =>
        obtain ⟨a, b⟩ := p
        by_cases h : this_.isEmpty = true <;>
          simp [h, resOfExceptPair, resStep, bind, Except.bind, pure, Except.pure, Ctl.bind, Ctl.run,
            rsplitOfModel, Konst.Split.Str.cut]

example : Extracted.RSplit.next_back_from_empty 5 ⟨[0x41, 0xE2, 0x82, 0xAC], .Empty .Continue⟩ .Continue
    = .ok (some ([0xE2, 0x82, 0xAC], ⟨[0x41], .Empty .Continue⟩)) := by decide
/-- not UTF-8 (continuation bytes only): `position -= 1` underflows, in code and model -/
example : Extracted.RSplit.next_back_from_empty 5 ⟨[0x82, 0xAC], .Empty .Continue⟩ .Continue = .panic := by
  rw [RSplit.next_back_from_empty_eq 5 0 _ _ (by decide) (by decide)]; decide

/-- `RSplit::next` is the `next_back` block (`__choose!`): `Iter.next` of the model at `fwd = false` -/
theorem RSplit.next_eq (fuel off : Nat) (s : Extracted.RSplit)
    (hb : ∀ b ∈ s.this_, b < 256) (hl : s.this_.length < 2 ^ 64) (hf : s.this_.length + 1 ≤ fuel) :
    Extracted.RSplit.next fuel s = resStep rsplitOfModel (Konst.Split.Iter.next (rsplitToModel off s)) := by
  obtain ⟨this_, state⟩ := s
  simp only at hb hl hf
  cases state with
  | Normal delim =>
    unfold Extracted.RSplit.next
    simp only [Konst.Split.Iter.next, rsplitToModel, Konst.Split.nextBackBlock, stateToModel, Bool.false_eq_true,
      ↓reduceIte,
      str_rfind_eq fuel this_ delim hl hf, Ctl.call_ok, Ctl.bind_eq, Ctl.bind_val]
    cases hr : StrFns.rfind this_ delim with
    | none => simp [rsplitOfModel, Konst.Split.Str.lit]
    | some pos =>
      have hk := rfind_add_le this_ delim pos hr
      have hadd : pos + delim.length < 2 ^ 64 := by omega
      simp only [Rs.uadd, hadd, ↓reduceIte, str_from_eq _ _ hb, str_up_to_eq _ _ hb, Ctl.bind_val]
      cases Utf8.strUpTo this_ pos with
      | error e => rfl
      | ok a =>
        cases Utf8.strFrom this_ (pos + delim.length) with
        | error e => rfl
        | ok b => simp [resStep, bind, Except.bind, pure, Except.pure, rsplitOfModel, Konst.Split.Str.cut]
  | Empty es =>
    unfold Extracted.RSplit.next
    have hc := RSplit.next_back_from_empty_eq fuel off ⟨this_, .Empty es⟩ es hb hf
    simp only [hc, Konst.Split.Iter.next, rsplitToModel, Konst.Split.nextBackBlock, stateToModel,
      Bool.false_eq_true, ↓reduceIte]
    cases Konst.Split.nextBackFromEmpty _ _ with
    | error e => rfl
    | ok r => cases r <;> rfl
  | Finished => rfl

example : Extracted.RSplit.next 7 ⟨[97, 44, 98, 44, 99], .Normal [44]⟩
    = .ok (some ([99], ⟨[97, 44, 98], .Normal [44]⟩)) := by
  rw [RSplit.next_eq 7 0 _ (by decide) (by decide) (by decide)]; decide
example : Extracted.RSplit.next 7 ⟨[97, 98], .Empty .Start⟩
    = .ok (some ([], ⟨[97, 98], .Empty .Continue⟩)) := by
  rw [RSplit.next_eq 7 0 _ (by decide) (by decide) (by decide)]; decide
/-- a delimiter (not UTF-8) found inside a multi-byte char: `str_up_to` panics, in code and model -/
example : Extracted.RSplit.next 9 ⟨[0x41, 0xE2, 0x82, 0xAC], .Normal [0x82]⟩ = .panic := by
  rw [RSplit.next_eq 9 0 _ (by decide) (by decide) (by decide)]; decide

/-- `RSplit::next_back` is the `next` block: `Iter.nextBack` of the model at `fwd = false` -/
theorem RSplit.next_back_eq (fuel off : Nat) (s : Extracted.RSplit)
    (hb : ∀ b ∈ s.this_, b < 256)
    (hl : s.this_.length + (stateDelim s.state).length + 1 < 2 ^ 64)
    (hf : s.this_.length + (stateDelim s.state).length + 2 ≤ fuel) :
    Extracted.RSplit.next_back fuel s = resStep rsplitOfModel (Konst.Split.Iter.nextBack (rsplitToModel off s)) := by
  obtain ⟨this_, state⟩ := s
  cases state with
  | Normal delim =>
    simp only [stateDelim] at hb hl hf
    unfold Extracted.RSplit.next_back
    simp only [Konst.Split.Iter.nextBack, rsplitToModel, Konst.Split.nextBlock, stateToModel, Bool.false_eq_true,
      ↓reduceIte,
      str_find_eq fuel this_ delim hl hf, Ctl.call_ok, Ctl.bind_eq, Ctl.bind_val]
    cases hr : StrFns.find this_ delim with
    | none => simp [rsplitOfModel, Konst.Split.Str.lit]
    | some pos =>
      have hk := bytesFind_le this_ delim pos hr
      have hadd : pos + delim.length < 2 ^ 64 := by omega
      simp only [Rs.uadd, hadd, ↓reduceIte, str_from_eq _ _ hb, str_up_to_eq _ _ hb, Ctl.bind_val]
      cases Utf8.strFrom this_ (pos + delim.length) with
      | error e => rfl
      | ok a =>
        cases Utf8.strUpTo this_ pos with
        | error e => rfl
        | ok b => simp [resStep, bind, Except.bind, pure, Except.pure, rsplitOfModel, Konst.Split.Str.cut]
  | Empty es =>
    simp only [stateDelim, List.length_nil] at hb hl hf
    unfold Extracted.RSplit.next_back
    have hc := RSplit.next_from_empty_eq fuel off ⟨this_, .Empty es⟩ es hb (by simp only; omega)
      (by simp only; omega)
    simp only [hc, Konst.Split.Iter.nextBack, rsplitToModel, Konst.Split.nextBlock, stateToModel,
      Bool.false_eq_true, ↓reduceIte]
    cases Konst.Split.nextFromEmpty _ _ with
    | error e => rfl
    | ok r => cases r <;> rfl
  | Finished => rfl

example : Extracted.RSplit.next_back 7 ⟨[97, 44, 98], .Normal [44]⟩
    = .ok (some ([97], ⟨[98], .Normal [44]⟩)) := by
  rw [RSplit.next_back_eq 7 0 _ (by decide) (by decide) (by decide)]; decide
example : Extracted.RSplit.next_back 7 ⟨[97, 98], .Normal [44]⟩ = .ok (some ([97, 98], ⟨[], .Finished⟩)) := by
  rw [RSplit.next_back_eq 7 0 _ (by decide) (by decide) (by decide)]; decide
example : Extracted.RSplit.next_back 7 ⟨[97, 98], .Finished⟩ = .ok none := by
  rw [RSplit.next_back_eq 7 0 _ (by decide) (by decide) (by decide)]; decide
/-- a delimiter (not UTF-8) found inside a multi-byte char: `str_from` panics, in code and model -/
example : Extracted.RSplit.next_back 9 ⟨[0x41, 0xE2, 0x82, 0xAC], .Normal [0xE2]⟩ = .panic := by
  rw [RSplit.next_back_eq 9 0 _ (by decide) (by decide) (by decide)]; decide

/-- `RSplit::remainder`: the bytes of the model's `remainder` (for every offset) -/
theorem RSplit.remainder_eq (off : Nat) (s : Extracted.RSplit) :
    Extracted.RSplit.remainder s = .ok (Konst.Split.Iter.remainder (rsplitToModel off s)).bytes := rfl

example : Extracted.RSplit.remainder ⟨[98], .Normal [44]⟩ = .ok [98] := by decide

end Extracted.Equiv
