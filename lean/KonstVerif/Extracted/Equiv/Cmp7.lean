import KonstVerif.Extracted.Gen.Cmp7
import KonstVerif.Extracted.Equiv.Cmp2
import KonstVerif.Model.Cmp
import KonstVerif.Spec.Cmp
/-
  Extracted (regenerated from /repo) = Model, for the comparison functions of group `Cmp7` (C16):

  * `konst::range::cmp::eq_range_T` and `eq_rangeinc_T` for `T = u8 u16 u32 u64 u128 usize char`
    (model: `eqRange`, `eqRangeInc` of `Model/Cmp.lean`),
  * `konst::other::cmp::eq_ordering`, `cmp_ordering`, `eq_option_ordering`, `cmp_option_ordering`
    (model: `eqOrdering`, `cmpOrdering`, and `eqOption` / `cmpOption` over them),
  * `konst::other::cmp::eq_phantomdata`, `cmp_phantomdata`, `eq_phantompinned`, `cmp_phantompinned`
    (no definition in `Model/Cmp.lean`: the bodies are the constants `true` / `Ordering::Equal`; the
    theorems state that constant, and the `_std` variants that it is `==` / `Ord::cmp` on the
    one-valued type, `Spec/Cmp.lean` `stdEq`).

  Representation (translator, `conv_ty`): a `core::ops::Range<T>` is the pair `(start, end)`, a
  `core::ops::RangeInclusive<T>` the triple `(start, end, exhausted)`, which are the shapes of the
  model's `eqRange : Int × Int → …` and `eqRangeInc : Int × Int × Bool → …`; `PhantomData<T>` and
  `PhantomPinned` are `Unit`; `ordering as i8` is `Rs.orderingToInt` (`Less = -1`, `Equal = 0`,
  `Greater = 1`).  The extraction keeps every `uN` and `char` (scalar value) as `Nat`; the bounds are
  handed to the model through `Int.ofNat` (`rangeInt`, `rangeIncInt`; the `exhausted` flag is kept).

  `eq_rangeinc_T` compares the bounds only — `eqRangeInc` does exactly the same (known finding F8,
  `Props/C16.lean` `eqRangeInc_exhausted_differs`); nothing is repaired or hidden here.

  All functions are loop-free and total: every theorem holds for ALL arguments, without hypotheses
  (no bounds, no fuel).  Where the model has a panic channel (`eqOption` / `cmpOption`: `Option` as
  result type) the statement is `∃ v, model = some v ∧ extracted = .ok v`, as in `Equiv/Cmp2.lean`.
-/
namespace Extracted.Equiv
open Rs Konst Konst.Cmp Konst.Spec.Cmp

/-! ### the embeddings into the model's range values -/

/-- a `Range<uN>` / `Range<char>` `(start, end)` as the model's `Int × Int` -/
def rangeInt (r : Nat × Nat) : Int × Int := (Int.ofNat r.1, Int.ofNat r.2)

/-- a `RangeInclusive<uN>` / `RangeInclusive<char>` `(start, end, exhausted)` as the model's
    `Int × Int × Bool` -/
def rangeIncInt (r : Nat × Nat × Bool) : Int × Int × Bool := (Int.ofNat r.1, Int.ofNat r.2.1, r.2.2)

/-! ### `eq_range_T`: the seven generated definitions are the same text -/

/-- the common text of `eq_range_u8 … eq_range_char` -/
def eqRangeFn (left right : Nat × Nat) : Res Bool := Ctl.run (ρ := Bool) do
  pure ((decide (left.1 = right.1)) && (decide (left.2 = right.2)))

/-- the common text of `eq_rangeinc_u8 … eq_rangeinc_char` -/
def eqRangeIncFn (left right : Nat × Nat × Bool) : Res Bool := Ctl.run (ρ := Bool) do
  pure ((decide (left.1 = right.1)) && (decide (left.2.1 = right.2.1)))

theorem eqRangeFn_eq (left right : Nat × Nat) :
    eqRangeFn left right = .ok (eqRange (rangeInt left) (rangeInt right)) := by
  simp only [eqRangeFn, eqRange, rangeInt, ofNat_inj, Ctl.pure_eq, Ctl.run_val]

theorem eqRangeIncFn_eq (left right : Nat × Nat × Bool) :
    eqRangeIncFn left right = .ok (eqRangeInc (rangeIncInt left) (rangeIncInt right)) := by
  simp only [eqRangeIncFn, eqRangeInc, rangeIncInt, ofNat_inj, Ctl.pure_eq, Ctl.run_val]

theorem eq_range_nat_eq {f : Nat × Nat → Nat × Nat → Res Bool} (hf : f = eqRangeFn)
    (left right : Nat × Nat) : f left right = .ok (eqRange (rangeInt left) (rangeInt right)) :=
  hf ▸ eqRangeFn_eq left right

theorem eq_rangeinc_nat_eq {f : Nat × Nat × Bool → Nat × Nat × Bool → Res Bool} (hf : f = eqRangeIncFn)
    (left right : Nat × Nat × Bool) :
    f left right = .ok (eqRangeInc (rangeIncInt left) (rangeIncInt right)) :=
  hf ▸ eqRangeIncFn_eq left right

/-! #### `Range<T>` -/

theorem eq_range_u8_eq (left right : Nat × Nat) :
    Extracted.eq_range_u8 left right = .ok (eqRange (rangeInt left) (rangeInt right)) :=
  eq_range_nat_eq rfl left right
theorem eq_range_u16_eq (left right : Nat × Nat) :
    Extracted.eq_range_u16 left right = .ok (eqRange (rangeInt left) (rangeInt right)) :=
  eq_range_nat_eq rfl left right
theorem eq_range_u32_eq (left right : Nat × Nat) :
    Extracted.eq_range_u32 left right = .ok (eqRange (rangeInt left) (rangeInt right)) :=
  eq_range_nat_eq rfl left right
theorem eq_range_u64_eq (left right : Nat × Nat) :
    Extracted.eq_range_u64 left right = .ok (eqRange (rangeInt left) (rangeInt right)) :=
  eq_range_nat_eq rfl left right
theorem eq_range_u128_eq (left right : Nat × Nat) :
    Extracted.eq_range_u128 left right = .ok (eqRange (rangeInt left) (rangeInt right)) :=
  eq_range_nat_eq rfl left right
theorem eq_range_usize_eq (left right : Nat × Nat) :
    Extracted.eq_range_usize left right = .ok (eqRange (rangeInt left) (rangeInt right)) :=
  eq_range_nat_eq rfl left right
theorem eq_range_char_eq (left right : Nat × Nat) :
    Extracted.eq_range_char left right = .ok (eqRange (rangeInt left) (rangeInt right)) :=
  eq_range_nat_eq rfl left right

example : Extracted.eq_range_u8 (3, 200) (3, 200) = .ok true := by decide
example : Extracted.eq_range_u8 (3, 200) (3, 201) = .ok false := by decide
example : Extracted.eq_range_u64 (0, 18446744073709551615) (1, 18446744073709551615) = .ok false := by decide
example : Extracted.eq_range_char (0x61, 0x10FFFF) (0x61, 0x10FFFF) = .ok (eqRange (0x61, 0x10FFFF) (0x61, 0x10FFFF)) :=
  eq_range_char_eq (0x61, 0x10FFFF) (0x61, 0x10FFFF)

/-! #### `RangeInclusive<T>` (bounds only: F8) -/

theorem eq_rangeinc_u8_eq (left right : Nat × Nat × Bool) :
    Extracted.eq_rangeinc_u8 left right = .ok (eqRangeInc (rangeIncInt left) (rangeIncInt right)) :=
  eq_rangeinc_nat_eq rfl left right
theorem eq_rangeinc_u16_eq (left right : Nat × Nat × Bool) :
    Extracted.eq_rangeinc_u16 left right = .ok (eqRangeInc (rangeIncInt left) (rangeIncInt right)) :=
  eq_rangeinc_nat_eq rfl left right
theorem eq_rangeinc_u32_eq (left right : Nat × Nat × Bool) :
    Extracted.eq_rangeinc_u32 left right = .ok (eqRangeInc (rangeIncInt left) (rangeIncInt right)) :=
  eq_rangeinc_nat_eq rfl left right
theorem eq_rangeinc_u64_eq (left right : Nat × Nat × Bool) :
    Extracted.eq_rangeinc_u64 left right = .ok (eqRangeInc (rangeIncInt left) (rangeIncInt right)) :=
  eq_rangeinc_nat_eq rfl left right
theorem eq_rangeinc_u128_eq (left right : Nat × Nat × Bool) :
    Extracted.eq_rangeinc_u128 left right = .ok (eqRangeInc (rangeIncInt left) (rangeIncInt right)) :=
  eq_rangeinc_nat_eq rfl left right
theorem eq_rangeinc_usize_eq (left right : Nat × Nat × Bool) :
    Extracted.eq_rangeinc_usize left right = .ok (eqRangeInc (rangeIncInt left) (rangeIncInt right)) :=
  eq_rangeinc_nat_eq rfl left right
theorem eq_rangeinc_char_eq (left right : Nat × Nat × Bool) :
    Extracted.eq_rangeinc_char left right = .ok (eqRangeInc (rangeIncInt left) (rangeIncInt right)) :=
  eq_rangeinc_nat_eq rfl left right

example : Extracted.eq_rangeinc_u8 (3, 200, false) (3, 200, false) = .ok true := by decide
example : Extracted.eq_rangeinc_u16 (3, 200, false) (4, 200, false) = .ok false := by decide
/-- F8 on the regenerated code: the `exhausted` flag is not compared -/
example : Extracted.eq_rangeinc_u8 (0, 0, true) (0, 0, false) = .ok true := by decide
example : Extracted.eq_rangeinc_usize (0, 5, true) (0, 5, false) = .ok (eqRangeInc (0, 5, true) (0, 5, false)) :=
  eq_rangeinc_usize_eq (0, 5, true) (0, 5, false)

/-! ### `Ordering` -/

/-- the translator's `ordering as i8` is the model's -/
theorem orderingToInt_eq (o : Ordering) : Rs.orderingToInt o = orderingAsI8 o := by
  cases o <;> rfl

/-- `eq_ordering` = the model's `eqOrdering` -/
theorem eq_ordering_eq (left right : Ordering) :
    Extracted.eq_ordering left right = .ok (eqOrdering left right) := by
  cases left <;> cases right <;> rfl

/-- `eq_ordering` = `==` on `Ordering` -/
theorem eq_ordering_std (left right : Ordering) :
    Extracted.eq_ordering left right = .ok (stdEq left right) := by
  cases left <;> cases right <;> rfl

/-- `cmp_ordering` = the model's `cmpOrdering` -/
theorem cmp_ordering_eq (left right : Ordering) :
    Extracted.cmp_ordering left right = .ok (cmpOrdering left right) := by
  cases left <;> cases right <;> rfl

/-- `cmp_ordering` = `Ord::cmp` on `Ordering` (`Less < Equal < Greater`) -/
theorem cmp_ordering_std (left right : Ordering) :
    Extracted.cmp_ordering left right = .ok (stdCmpOrdering left right) := by
  cases left <;> cases right <;> rfl

example : Extracted.eq_ordering .lt .lt = .ok true := by decide
example : Extracted.eq_ordering .lt .gt = .ok false := by decide
example : Extracted.cmp_ordering .lt .eq = .ok .lt := by decide
example : Extracted.cmp_ordering .gt .eq = .ok .gt := by decide
example : Extracted.cmp_ordering .gt .lt = .ok (cmpOrdering .gt .lt) := cmp_ordering_eq .gt .lt

/-! #### `Option<Ordering>` -/

/-- `eq_option_ordering` = the model's `eqOption` over `eq_ordering` (which never panics) -/
theorem eq_option_ordering_eq (left right : Option Ordering) :
    ∃ b, eqOption (fun a b => some (eqOrdering a b)) left right = some b ∧
      Extracted.eq_option_ordering left right = .ok b := by
  cases left with
  | none => cases right <;> exact ⟨_, rfl, rfl⟩
  | some l =>
    cases right with
    | none => exact ⟨_, rfl, rfl⟩
    | some r => cases l <;> cases r <;> exact ⟨_, rfl, rfl⟩

/-- `eq_option_ordering` = `==` on `Option<Ordering>` -/
theorem eq_option_ordering_std (left right : Option Ordering) :
    Extracted.eq_option_ordering left right = .ok (stdEq left right) := by
  cases left with
  | none => cases right <;> rfl
  | some l =>
    cases right with
    | none => rfl
    | some r => cases l <;> cases r <;> rfl

/-- `cmp_option_ordering` = the model's `cmpOption` over `cmp_ordering` (which never panics) -/
theorem cmp_option_ordering_eq (left right : Option Ordering) :
    ∃ c, cmpOption (fun a b => some (cmpOrdering a b)) left right = some c ∧
      Extracted.cmp_option_ordering left right = .ok c := by
  cases left with
  | none => cases right <;> exact ⟨_, rfl, rfl⟩
  | some l =>
    cases right with
    | none => exact ⟨_, rfl, rfl⟩
    | some r => cases l <;> cases r <;> exact ⟨_, rfl, rfl⟩

/-- `cmp_option_ordering` = `Ord::cmp` on `Option<Ordering>` (`None < Some(_)`) -/
theorem cmp_option_ordering_std (left right : Option Ordering) :
    Extracted.cmp_option_ordering left right = .ok (optCmp stdCmpOrdering left right) := by
  cases left with
  | none => cases right <;> rfl
  | some l =>
    cases right with
    | none => rfl
    | some r => cases l <;> cases r <;> rfl

example : Extracted.eq_option_ordering (some .lt) (some .lt) = .ok true := by decide
example : Extracted.eq_option_ordering (some .lt) none = .ok false := by decide
example : Extracted.cmp_option_ordering none (some .lt) = .ok .lt := by decide
example : Extracted.cmp_option_ordering (some .gt) (some .eq) = .ok .gt := by decide
example : ∃ c, cmpOption (fun a b => some (cmpOrdering a b)) (some .eq) (some .gt) = some c ∧
    Extracted.cmp_option_ordering (some .eq) (some .gt) = .ok c := cmp_option_ordering_eq (some .eq) (some .gt)

/-! ### `PhantomData<T>` / `PhantomPinned` (one-valued types: `Unit`)

  `Model/Cmp.lean` has no entry for these four functions; their bodies are the constants `true` and
  `Ordering::Equal`, and that is what the `_eq` theorems state.  The `_std` variants relate the
  constant to std: `==` (`stdEq`) resp. the derived `Ord::cmp` of a type with a single value, which
  is `Equal` exactly when the two values are equal — always. -/

theorem eq_phantomdata_eq {T : Type} (l r : Unit) :
    Extracted.eq_phantomdata (T := T) l r = .ok true := rfl

theorem eq_phantomdata_std {T : Type} (l r : Unit) :
    Extracted.eq_phantomdata (T := T) l r = .ok (stdEq l r) := rfl

theorem cmp_phantomdata_eq {T : Type} (l r : Unit) :
    Extracted.cmp_phantomdata (T := T) l r = .ok Ordering.eq := rfl

theorem eq_phantompinned_eq (l r : Unit) : Extracted.eq_phantompinned l r = .ok true := rfl

theorem eq_phantompinned_std (l r : Unit) : Extracted.eq_phantompinned l r = .ok (stdEq l r) := rfl

theorem cmp_phantompinned_eq (l r : Unit) : Extracted.cmp_phantompinned l r = .ok Ordering.eq := rfl

example : Extracted.eq_phantomdata (T := Nat) () () = .ok true := by decide
example : Extracted.cmp_phantomdata (T := Nat) () () = .ok .eq := by decide
example : Extracted.eq_phantompinned () () = .ok true := by decide
example : Extracted.cmp_phantompinned () () = .ok .eq := by decide

end Extracted.Equiv
