import KonstVerif.Extracted.Gen.ParseInt
import KonstVerif.Extracted.Equiv.Str
import KonstVerif.Model.Parser
import KonstVerif.Lemmas.ParseInt
import KonstVerif.Lemmas.Parser
/-
  Extracted (regenerated from /repo) = Model, for `Parser::parse_u8 / parse_i8 / parse_u32 / parse_i64 /
  parse_u128 / parse_i128 / parse_usize` (the instances of `parse_integer!`) and `Parser::parse_bool` (C12).

  Model: `Konst.Parser.parseInt self signed bits` / `Konst.Parser.parseBool self` (`Model/Parser.lean`, whose
  bodies are `Model/ParseInt.lean`'s `parseIntegerPrefix` / `parseBoolPrefix`), compared through explicit
  conversions (`toParser` on the argument; `resOf natVal/intVal/boolVal` on the result, built from
  `ofParser`, `ofError`): model `.ok q (.int n)` ↦ `.ok (Ok((n, q)))`, `.err e` ↦ `.ok (Err(e))` (with the two
  constant fields `extra_message: &""`, `_lifetime` the model omits), `.panic` ↦ `.panic`.

  Structure: the seven integer functions are instances of ONE text.  `intLoop bits T` is the loop body,
  `parseU bits` the unsigned function, `parseI bits MAX MIN` the signed one (same text with the width as a
  parameter); every generated definition is an instance BY `rfl` (`parse_*_loop1_eq`, `parse_*_shape`).
  `intLoop_spec` (the digit loop = `accLoop`, by induction on the fuel), `parseU_eq`, `parseI_eq` are proved
  once for every `bits ≥ 4`.

  Hypotheses of every theorem: `start_offset + str.len() < 2^32` (the `u32` offsets do not wrap; the same
  assumption the model states), bytes `< 256` (for `str_from`'s `as i8` cast), fuel `≥ str.len()`.
  A panic is possible on a byte list that is not a `&str` ("1\x80": `str_from` at a non-boundary); the
  theorems say the code panics exactly when the model does, and `Parser.parse_*_ok` show that on valid UTF-8
  (`Spec.Utf8.Valid`) neither does: the result is `Ok`/`Err` — in particular
  `Err(ParseError::new(copy, ErrorKind::ParseInteger))` is returned without the checked `u32` addition in
  `ParseError::new` overflowing.
-/
set_option linter.unusedVariables false
namespace Extracted.Equiv
open Rs Konst

/-! ### the one shape behind the eight instances of `parse_integer!` -/

/-- the loop body of `parse_integer!` with the width of `$uns` (`bits`) and the value type of the
    enclosing function (`T`) as parameters: the text of `Extracted.Parser.parse_u8.loop1` with `8 ↦ bits`
    in the two `$uns::overflowing_*` calls (`*byte - b'0'` stays a `u8` subtraction) -/
def intLoop (bits : Nat) (T : Type) (copy : Parser) : ((List Nat) × Nat) → Ctl (LoopExit (LoopExit (Except ParseError (T × Parser)) Unit (T × Parser)) ((List Nat) × Nat) ((List Nat) × Nat)) ((List Nat) × Nat) := fun (bytes, num) => do
  (match bytes with
    | (byte :: rem) => if (decide ((48 : Nat) ≤ byte) && decide (byte ≤ (57 : Nat))) then do
          let bytes := rem
          let (next_mul, overflowed_mul) := (Rs.uOverflowingMul bits num (10 : Nat))
          let t4_ ← Rs.usub 8 byte (48 : Nat)
          let (next_add, overflowed_add) := (Rs.uOverflowingAdd bits next_mul (id t4_))
          let _ ← (if (overflowed_mul || overflowed_add) then do
                let t5_ ← Ctl.call (ParseError.new copy ErrorKind.ParseInteger)
                Ctl.exit (.out (.out (Except.error t5_)))
              else do
                pure ())
          let num := next_add
          pure (bytes, num)
        else
          (do
              Ctl.exit (.brk (bytes, num)))
    | _ =>
        (do
            Ctl.exit (.brk (bytes, num))))

theorem parse_u8_loop1_eq : Extracted.Parser.parse_u8.loop1 = intLoop 8 Nat := rfl
theorem parse_i8_loop1_eq : Extracted.Parser.parse_i8.loop1 = intLoop 8 Int := rfl
theorem parse_u32_loop1_eq : Extracted.Parser.parse_u32.loop1 = intLoop 32 Nat := rfl
theorem parse_i64_loop1_eq : Extracted.Parser.parse_i64.loop1 = intLoop 64 Int := rfl
theorem parse_u128_loop1_eq : Extracted.Parser.parse_u128.loop1 = intLoop 128 Nat := rfl
theorem parse_i128_loop1_eq : Extracted.Parser.parse_i128.loop1 = intLoop 128 Int := rfl
theorem parse_usize_loop1_eq : Extracted.Parser.parse_usize.loop1 = intLoop 64 Nat := rfl

/-- the unsigned instances (`@parse_signed unsigned`, no `@apply_sign`): the text of
    `Extracted.Parser.parse_u8` with the loop body `intLoop bits Nat` -/
def parseU (bits : Nat) (fuel : Nat) (self : Parser) : Res (Except ParseError (Nat × Parser)) := Ctl.run (ρ := (Except ParseError (Nat × Parser))) do
  let self := { self with parse_direction := ParseDirection.FromStart }
  let copy := self
  let (t8_, self) ← (Rs.block (do
        let bytes := self.str
        let (t3_, bytes) ← (match bytes with
            | (byte :: rem) => if (decide ((48 : Nat) ≤ byte) && decide (byte ≤ (57 : Nat))) then do
                  let bytes := rem
                  let t1_ ← Rs.usub 8 byte (48 : Nat)
                  pure ((id t1_), bytes)
                else
                  (do
                      let t2_ ← Ctl.call (ParseError.new copy ErrorKind.ParseInteger)
                      Ctl.exit (.out (Except.error t2_)))
            | _ =>
                (do
                    let t2_ ← Ctl.call (ParseError.new copy ErrorKind.ParseInteger)
                    Ctl.exit (.out (Except.error t2_))))
        let num := t3_
        let (bytes, num) ← (Rs.loop fuel (intLoop bits Nat copy) (bytes, num))
        let t6_ ← Rs.usub 64 self.str.length bytes.length
        let t7_ ← Ctl.call (str_from self.str t6_)
        let self := { self with str := t7_ }
        pure (num, self)))
  let ret := t8_
  let t9_ ← Rs.usub 64 copy.str.length self.str.length
  let t10_ ← Rs.uadd 32 self.start_offset (Rs.castUU 32 t9_)
  let self := { self with start_offset := t10_ }
  pure (Except.ok (ret, self))

theorem parse_u8_shape : Extracted.Parser.parse_u8 = parseU 8 := rfl
theorem parse_u32_shape : Extracted.Parser.parse_u32 = parseU 32 := rfl
theorem parse_u128_shape : Extracted.Parser.parse_u128 = parseU 128 := rfl
theorem parse_usize_shape : Extracted.Parser.parse_usize = parseU 64 := rfl

/-- the signed instances, part 2 (everything in the `'ret` block behind `let sign = …;`): the text of
    `Extracted.Parser.parse_i8` with `8 ↦ bits` in the casts and `wrapping_neg`, and the two literals
    `<$type>::MAX`, `<$type>::MIN` as parameters -/
def parseI.afterSign (bits : Nat) (tmax tmin : Int) (fuel : Nat) (self copy : Parser) (sign : Bool)
    (bytes : List Nat) :
    Ctl (LoopExit (Except ParseError (Int × Parser)) Unit (Int × Parser)) (Int × Parser) := do
        let (t5_, bytes) ← (match bytes with
            | (byte :: rem) => if (decide ((48 : Nat) ≤ byte) && decide (byte ≤ (57 : Nat))) then do
                  let bytes := rem
                  let t3_ ← Rs.usub 8 byte (48 : Nat)
                  pure ((id t3_), bytes)
                else
                  (do
                      let t4_ ← Ctl.call (ParseError.new copy ErrorKind.ParseInteger)
                      Ctl.exit (.out (Except.error t4_)))
            | _ =>
                (do
                    let t4_ ← Ctl.call (ParseError.new copy ErrorKind.ParseInteger)
                    Ctl.exit (.out (Except.error t4_))))
        let num := t5_
        let (bytes, num) ← (Rs.loop fuel (intLoop bits Int copy) (bytes, num))
        let MAX_POS := (Rs.castIU bits tmax)
        let MAX_NEG := (Rs.castIU bits tmin)
        let t12_ ← (if sign then do
              let t9_ ← (if (decide (num ≤ MAX_NEG)) then do
                    pure (Rs.iWrappingNeg bits (Rs.castUI bits num))
                  else do
                    let t8_ ← Ctl.call (ParseError.new copy ErrorKind.ParseInteger)
                    Ctl.exit (.out (Except.error t8_)))
              pure t9_
            else do
              let t11_ ← (if (decide (num ≤ MAX_POS)) then do
                    pure (Rs.castUI bits num)
                  else do
                    let t10_ ← Ctl.call (ParseError.new copy ErrorKind.ParseInteger)
                    Ctl.exit (.out (Except.error t10_)))
              pure t11_)
        let num := t12_
        let t13_ ← Rs.usub 64 self.str.length bytes.length
        let t14_ ← Ctl.call (str_from self.str t13_)
        let self := { self with str := t14_ }
        pure (num, self)

/-- the frame `try_parsing!{self, FromStart, ret; …}` puts around the `'ret` block `blk`:
    the text of `Extracted.Parser.parse_i8` around the `Rs.block` -/
def frame {T : Type} (copy : Parser)
    (blk : Ctl (LoopExit (Except ParseError (T × Parser)) Unit (T × Parser)) (T × Parser)) :
    Res (Except ParseError (T × Parser)) := Ctl.run (ρ := (Except ParseError (T × Parser))) do
  let (t15_, self) ← (Rs.block blk)
  let ret := t15_
  let t16_ ← Rs.usub 64 copy.str.length self.str.length
  let t17_ ← Rs.uadd 32 self.start_offset (Rs.castUU 32 t16_)
  let self := { self with start_offset := t17_ }
  pure (Except.ok (ret, self))

/-- the signed instances, part 1: `@parse_signed signed` inside the frame of `try_parsing!` -/
def parseI (bits : Nat) (tmax tmin : Int) (fuel : Nat) (self : Parser) : Res (Except ParseError (Int × Parser)) :=
  let self := { self with parse_direction := ParseDirection.FromStart }
  let copy := self
  frame copy (do
        let bytes := self.str
        let (t2_, bytes) ← (match bytes with
            | (p1_ :: rem) => if decide (p1_ = (45 : Nat)) then do
                  let bytes := rem
                  pure (true, bytes)
                else
                  (do
                      pure (false, bytes))
            | _ =>
                (do
                    pure (false, bytes)))
        let sign := t2_
        parseI.afterSign bits tmax tmin fuel self copy sign bytes)

theorem parse_i8_shape : Extracted.Parser.parse_i8 = parseI 8 127 (-128) := rfl
theorem parse_i64_shape : Extracted.Parser.parse_i64 = parseI 64 9223372036854775807 (-9223372036854775808) := rfl
theorem parse_i128_shape : Extracted.Parser.parse_i128 =
    parseI 128 170141183460469231731687303715884105727 (-170141183460469231731687303715884105728) := rfl

/-! ### the digit loop, once for all widths -/

/-- the `while let [byte @ b'0'..=b'9', rem @ ..] = bytes` loop of `parse_integer!` is the model's
    `accLoop`: it falls out of the loop with the model's `(num, bytes)`, and leaves the function with
    `Err(ParseError::new(copy, ParseInteger))` exactly when the model's loop throws. `n` = fuel. -/
theorem intLoop_spec (bits : Nat) (h4 : 4 ≤ bits) (T : Type) (copy : Parser) (e : ParseError)
    (he : ParseError.new copy ErrorKind.ParseInteger = .ok e) (n : Nat) :
    ∀ (bytes : List Nat) (num : Nat), bytes.length + 1 ≤ n →
      Rs.loop n (intLoop bits T copy) (bytes, num) =
        match ParseInt.accLoop bits bytes num with
        | some (num', rest) => Ctl.val (rest, num')
        | none => Ctl.exit (.out (Except.error e)) := by
  induction n with
  | zero => intro _ _ h; omega
  | succ n ih =>
    intro bytes num hn
    rw [Rs.loop_succ]
    cases bytes with
    | nil => simp [intLoop, ParseInt.accLoop]
    | cons b rest =>
      by_cases hd : ParseInt.isDigit b = true
      · have h48 : 48 ≤ b ∧ b ≤ 57 := by simpa [ParseInt.isDigit] using hd
        have hda := Konst.Lemmas.ParseInt.digitAs_eq bits b h4 hd
        have hm : Rs.uOverflowingMul bits num 10 = ParseInt.overflowingMul bits num 10 := rfl
        have ha : ∀ x y, Rs.uOverflowingAdd bits x y = ParseInt.overflowingAdd bits x y := fun _ _ => rfl
        simp only [intLoop, ParseInt.accLoop, hd, h48.1, h48.2, Rs.usub, hda, hm, ha, id, decide_true,
          Bool.and_self, ↓reduceIte, Ctl.bind_eq, Ctl.bind_val, Ctl.pure_eq, he, Ctl.call_ok]
        by_cases hfl : ((ParseInt.overflowingMul bits num 10).snd ||
            (ParseInt.overflowingAdd bits (ParseInt.overflowingMul bits num 10).fst (b - 48)).snd) = true
        · simp only [hfl, ↓reduceIte, Ctl.bind_exit]
        · simp only [hfl, Bool.false_eq_true, ↓reduceIte, Ctl.bind_val]
          exact ih _ _ (by simp only [List.length_cons] at hn; omega)
      · have hc : (decide (48 ≤ b) && decide (b ≤ 57)) = false := by
          simpa [ParseInt.isDigit] using hd
        simp only [intLoop, ParseInt.accLoop, hd, hc, Bool.false_eq_true, ↓reduceIte]

/-! ### conversions between the extracted structures and the model's -/

def toDir : ParseDirection → Konst.Parser.ParseDirection
  | .FromStart => .fromStart
  | .FromEnd => .fromEnd
  | .FromBoth => .fromBoth

def ofDir : Konst.Parser.ParseDirection → ParseDirection
  | .fromStart => .FromStart
  | .fromEnd => .FromEnd
  | .fromBoth => .FromBoth

def ofKind : Konst.Parser.ErrorKind → ErrorKind
  | .parseInteger => .ParseInteger
  | .parseBool => .ParseBool
  | .find => .Find
  | .strip => .Strip
  | .splitExhausted => .SplitExhausted
  | .delimiterNotFound => .DelimiterNotFound
  | .other => .Other

/-- the model's view of an extracted `Parser` value (field by field) -/
def toParser (p : Parser) : Konst.Parser.Parser :=
  ⟨toDir p.parse_direction, p.yielded_last_split, p.start_offset, p.str⟩

/-- a model `Parser` as the extracted structure (field by field) -/
def ofParser (q : Konst.Parser.Parser) : Parser :=
  { parse_direction := ofDir q.dir, yielded_last_split := q.yieldedLastSplit,
    start_offset := q.startOffset, str := q.str }

/-- a model `ParseError` as the extracted structure; the two fields the model leaves out are the
    constants `ParseError::new` writes: `extra_message: &""`, `_lifetime: PhantomData` -/
def ofError (e : Konst.Parser.ParseError) : ParseError :=
  { start_offset := e.startOffset, end_offset := e.endOffset, direction := ofDir e.dir,
    kind := ofKind e.kind, extra_message := [], _lifetime := () }

/-- the value next to the parser, as the Rust type `T` of the `parse_*` function: unsigned integers
    are `Nat` in the extraction (`none` for anything that is not a value of the type) -/
def natVal : Konst.Parser.Value → Option Nat
  | .int n => if 0 ≤ n then some n.toNat else none
  | _ => none
def intVal : Konst.Parser.Value → Option Int
  | .int n => some n
  | _ => none
def boolVal : Konst.Parser.Value → Option Bool
  | .bool b => some b
  | _ => none

/-- the model's `Res` as the result of the extracted `parse_*`: `Ok((value, parser))`,
    `Err(ParseError)`, a panic.  (A model value of the wrong kind has no counterpart in `T`: `.ub` as a
    marker; `parseInt` / `parseBool` never produce one — `parseInt_value`, `parseBool_value` below.) -/
def resOf {T : Type} (f : Konst.Parser.Value → Option T) : Konst.Parser.Res → Res (Except ParseError (T × Parser))
  | .ok q v =>
    match f v with
    | some t => .ok (.ok (t, ofParser q))
    | none => .ub
  | .err e => .ok (.error (ofError e))
  | .panic => .panic

/-! ### the model in closed form, `ParseError::new`, small facts -/

theorem parseInt_closed (p : Parser) (signed : Bool) (bits : Nat) :
    Konst.Parser.parseInt (toParser p) signed bits =
      match ParseInt.parseIntegerBody signed bits p.str with
      | none => .err ⟨p.start_offset, p.start_offset + p.str.length, .fromStart, .parseInteger⟩
      | some (v, rest) =>
        match Utf8.strFrom p.str (p.str.length - rest.length) with
        | .error _ => .panic
        | .ok w => .ok ⟨.fromStart, p.yielded_last_split,
            p.start_offset + (p.str.length - (w.apply p.str).length), w.apply p.str⟩ (.int v) := by
  unfold Konst.Parser.parseInt Konst.Parser.tryParsing ParseInt.parseIntegerPrefix
  cases h : ParseInt.parseIntegerBody signed bits p.str with
  | none => simp [toParser, h, Konst.Parser.ParseError.new]
  | some vr =>
    obtain ⟨v, rest⟩ := vr
    simp only [toParser, h, Option.map_some]
    cases Utf8.strFrom p.str (p.str.length - rest.length) with
    | error _ => rfl
    | ok w => rfl

theorem new_error_ok (y : Bool) (o : Nat) (s : List Nat) (k : ErrorKind) (hoff : o + s.length < 2 ^ 32) :
    ParseError.new ⟨.FromStart, y, o, s⟩ k =
      .ok { start_offset := o, end_offset := o + s.length, direction := .FromStart, kind := k,
            extra_message := [], _lifetime := () } := by
  have h1 : s.length % 2 ^ 32 = s.length := Nat.mod_eq_of_lt (by omega)
  simp [ParseError.new, Rs.uadd, Rs.castUU, h1, hoff]

theorem accLoop_length (bits : Nat) : ∀ (bytes : List Nat) (num n : Nat) (rest : List Nat),
    ParseInt.accLoop bits bytes num = some (n, rest) → rest.length ≤ bytes.length := by
  intro bytes
  induction bytes with
  | nil => intro num n rest h; simp [ParseInt.accLoop] at h; simp [h.2]
  | cons b t ih =>
    intro num n rest h
    unfold ParseInt.accLoop at h
    by_cases hd : ParseInt.isDigit b = true
    · simp only [hd, if_true] at h
      split at h
      · cases h
      · have := ih _ _ _ h; simp only [List.length_cons]; omega
    · simp only [hd, Bool.false_eq_true, if_false, Option.some.injEq, Prod.mk.injEq] at h
      rw [← h.2]; exact Nat.le_refl _

theorem pi_apply_length_le (w : View) (s : List Nat) : (w.apply s).length ≤ s.length := by
  simp only [View.apply, List.length_take, List.length_drop]; omega

/-! ### the unsigned instances -/

theorem parseU_eq (bits : Nat) (h4 : 4 ≤ bits) (fuel : Nat) (p : Parser)
    (hoff : p.start_offset + p.str.length < 2 ^ 32) (hb : ∀ b ∈ p.str, b < 256)
    (hf : p.str.length ≤ fuel) :
    parseU bits fuel p = resOf natVal (Konst.Parser.parseInt (toParser p) false bits) := by
  rw [parseInt_closed]
  obtain ⟨d, y, o, s⟩ := p
  simp only [] at hoff hb hf ⊢
  have he := new_error_ok y o s .ParseInteger hoff
  cases s with
  | nil =>
    simp [parseU, he, ParseInt.parseIntegerBody, ParseInt.parseSign, ParseInt.firstDigit, resOf, ofError,
      ofDir, ofKind, Ctl.run, Rs.block]
  | cons b rem =>
    by_cases hd : ParseInt.isDigit b = true
    · have h48 : 48 ≤ b ∧ b ≤ 57 := by simpa [ParseInt.isDigit] using hd
      have hda := Konst.Lemmas.ParseInt.digitAs_eq bits b h4 hd
      have hloop := intLoop_spec bits h4 Nat _ _ he fuel rem (b - 48)
        (by simp only [List.length_cons] at hf; omega)
      cases hacc : ParseInt.accLoop bits rem (b - 48) with
      | none =>
        rw [hacc] at hloop
        simp [parseU, hloop, hd, h48.1, h48.2, hda, hacc, Rs.usub, ParseInt.parseIntegerBody,
          ParseInt.parseSign, ParseInt.firstDigit, resOf, ofError, ofDir, ofKind, Ctl.run, Rs.block]
      | some nr =>
        obtain ⟨num, rest⟩ := nr
        rw [hacc] at hloop
        have hlen := accLoop_length bits _ _ _ _ hacc
        simp [parseU, hloop, hd, h48.1, h48.2, hda, hacc, Rs.usub, ParseInt.parseIntegerBody,
          ParseInt.parseSign, ParseInt.firstDigit, ParseInt.applySign, resOf, ofError, ofDir, ofKind, Ctl.run, Rs.block]
        have hle : rest.length ≤ rem.length + 1 := by omega
        have hb' : ∀ x ∈ b :: rem, x < 256 := hb
        simp only [hle, ↓reduceIte, Ctl.bind_val, str_from_eq _ _ hb']
        cases Utf8.strFrom (b :: rem) (rem.length + 1 - rest.length) with
        | error _ => simp
        | ok w =>
          have hw := pi_apply_length_le w (b :: rem)
          simp only [List.length_cons] at hw hoff
          have hmod : (rem.length + 1 - (w.apply (b :: rem)).length) % 2 ^ 32
              = rem.length + 1 - (w.apply (b :: rem)).length := Nat.mod_eq_of_lt (by omega)
          have hlt : o + (rem.length + 1 - (w.apply (b :: rem)).length) < 2 ^ 32 := by omega
          simp [hw, hmod, hlt, Rs.uadd, Rs.castUU, natVal, ofParser, ofDir]
    · have hc : (decide (48 ≤ b) && decide (b ≤ 57)) = false := by
        simpa [ParseInt.isDigit] using hd
      simp [parseU, he, hd, hc, ParseInt.parseIntegerBody, ParseInt.parseSign, ParseInt.firstDigit, resOf,
        ofError, ofDir, ofKind, Ctl.run, Rs.block]

/-! ### the casts and `wrapping_neg` of the signed instances -/

theorem pow_cast (k : Nat) : (2 ^ k : Int) = ((2 ^ k : Nat) : Int) := (Int.natCast_pow 2 k).symm

/-- `wrapI` is the identity on the signed range -/
theorem wrapI_mid (bits : Nat) (h1 : 1 ≤ bits) (r : Int)
    (hlo : -((2 ^ (bits - 1) : Nat) : Int) ≤ r) (hhi : r < ((2 ^ (bits - 1) : Nat) : Int)) :
    Rs.wrapI bits r = r := by
  have h2 := Konst.Lemmas.ParseInt.two_pow_pred bits h1
  have hpos := Konst.Lemmas.ParseInt.two_pow_pos (bits - 1)
  unfold Rs.wrapI Rs.imax
  rw [pow_cast bits, pow_cast (bits - 1), h2]
  generalize 2 ^ (bits - 1) = P at *
  by_cases h0 : 0 ≤ r
  · simp only [Int.emod_eq_of_lt h0 (show r < ((2 * P : Nat) : Int) by omega)]
    split <;> omega
  · have hm : r % ((2 * P : Nat) : Int) = r + ((2 * P : Nat) : Int) := by
      rw [← Int.add_emod_right]; exact Int.emod_eq_of_lt (by omega) (by omega)
    simp only [hm]
    split <;> omega

/-- `2^(bits-1)` wraps to `MIN` -/
theorem wrapI_top (bits : Nat) (h1 : 1 ≤ bits) :
    Rs.wrapI bits ((2 ^ (bits - 1) : Nat) : Int) = -((2 ^ (bits - 1) : Nat) : Int) := by
  have h2 := Konst.Lemmas.ParseInt.two_pow_pred bits h1
  have hpos := Konst.Lemmas.ParseInt.two_pow_pos (bits - 1)
  unfold Rs.wrapI Rs.imax
  rw [pow_cast bits, pow_cast (bits - 1), h2]
  generalize 2 ^ (bits - 1) = P at *
  simp only [Int.emod_eq_of_lt (show (0 : Int) ≤ (P : Int) by omega) (show (P : Int) < ((2 * P : Nat) : Int) by omega)]
  split <;> omega

/-- `num as $type` below `2^(bits-1)` -/
theorem castUI_small (bits : Nat) (h1 : 1 ≤ bits) (num : Nat) (h : num < 2 ^ (bits - 1)) :
    Rs.castUI bits num = (num : Int) :=
  wrapI_mid bits h1 _ (by omega) (by omega)

/-- `(num as $type).wrapping_neg()` for `num ≤ MAX_NEG` -/
theorem wrappingNeg_castUI (bits : Nat) (h1 : 1 ≤ bits) (num : Nat) (h : num ≤ 2 ^ (bits - 1)) :
    Rs.iWrappingNeg bits (Rs.castUI bits num) = -(num : Int) := by
  unfold Rs.iWrappingNeg
  by_cases hlt : num < 2 ^ (bits - 1)
  · rw [castUI_small bits h1 num hlt]
    exact wrapI_mid bits h1 _ (by omega) (by omega)
  · have he : num = 2 ^ (bits - 1) := by omega
    subst he
    unfold Rs.castUI
    rw [wrapI_top bits h1, Int.neg_neg, wrapI_top bits h1]

/-- `<$type>::MAX as $uns`, `<$type>::MIN as $uns` -/
theorem castIU_eq (bits : Nat) (x : Int) : Rs.castIU bits x = ParseInt.asUnsigned bits x := by
  unfold Rs.castIU Rs.wrapU ParseInt.asUnsigned
  rw [pow_cast]

/-! ### the signed instances -/

/-- the model's `parse_integer!` body behind `@parse_signed` (`parseIntegerBody` is this applied to
    `parseSign`'s result, by `rfl` below) -/
def bodyAfterSign (bits : Nat) (isneg : Bool) (b1 : List Nat) : Option (Int × List Nat) :=
  match ParseInt.firstDigit bits b1 with
  | none => none
  | some (num0, b2) =>
    match ParseInt.accLoop bits b2 num0 with
    | none => none
    | some (num, rest) =>
      match ParseInt.applySign true bits num isneg with
      | none => none
      | some v => some (v, rest)

theorem parseIntegerBody_signed (bits : Nat) (s : List Nat) :
    ParseInt.parseIntegerBody true bits s =
      bodyAfterSign bits (ParseInt.parseSign true s).1 (ParseInt.parseSign true s).2 := rfl

theorem afterSign_spec (bits : Nat) (h4 : 4 ≤ bits) (tmax tmin : Int)
    (hmax : tmax = ParseInt.tMax bits) (hmin : tmin = ParseInt.tMin bits) (fuel : Nat)
    (self : Parser) (e : ParseError) (he : ParseError.new self ErrorKind.ParseInteger = .ok e)
    (isneg : Bool) (b1 : List Nat) (hf : b1.length ≤ fuel) (hl : b1.length ≤ self.str.length) :
    parseI.afterSign bits tmax tmin fuel self self isneg b1 =
      match bodyAfterSign bits isneg b1 with
      | none => Ctl.exit (.out (Except.error e))
      | some (v, rest) =>
        (Ctl.call (str_from self.str (self.str.length - rest.length))).bind fun t =>
          Ctl.val (v, { self with str := t }) := by
  have h1 : 1 ≤ bits := by omega
  have hP : Rs.castIU bits tmax = 2 ^ (bits - 1) - 1 := by
    rw [hmax, castIU_eq]; exact Konst.Lemmas.ParseInt.maxPos_eq bits h1
  have hN : Rs.castIU bits tmin = 2 ^ (bits - 1) := by
    rw [hmin, castIU_eq]; exact Konst.Lemmas.ParseInt.maxNeg_eq bits h1
  have hpos := Konst.Lemmas.ParseInt.two_pow_pos (bits - 1)
  cases b1 with
  | nil => simp [parseI.afterSign, bodyAfterSign, ParseInt.firstDigit, he]
  | cons b rem =>
    by_cases hd : ParseInt.isDigit b = true
    · have h48 : 48 ≤ b ∧ b ≤ 57 := by simpa [ParseInt.isDigit] using hd
      have hda := Konst.Lemmas.ParseInt.digitAs_eq bits b h4 hd
      have hloop := intLoop_spec bits h4 Int _ _ he fuel rem (b - 48)
        (by simp only [List.length_cons] at hf; omega)
      cases hacc : ParseInt.accLoop bits rem (b - 48) with
      | none =>
        rw [hacc] at hloop
        simp [parseI.afterSign, bodyAfterSign, hloop, hd, h48.1, h48.2, hda, hacc, Rs.usub,
          ParseInt.firstDigit]
      | some nr =>
        obtain ⟨num, rest⟩ := nr
        rw [hacc] at hloop
        have hlen := accLoop_length bits _ _ _ _ hacc
        have hle : rest.length ≤ self.str.length := by simp only [List.length_cons] at hl; omega
        simp only [parseI.afterSign, bodyAfterSign, hloop, hd, h48.1, h48.2, hda, hacc, Rs.usub,
          ParseInt.firstDigit, Konst.Lemmas.ParseInt.applySign_signed bits num isneg h1, hP, hN, hle,
          decide_true, Bool.and_self, ↓reduceIte, Ctl.bind_eq, Ctl.bind_val, Ctl.pure_eq, id]
        cases isneg with
        | true =>
          by_cases hc : num ≤ 2 ^ (bits - 1)
          · simp [hc, wrappingNeg_castUI bits h1 num hc]
          · simp [hc, he]
        | false =>
          by_cases hc : num < 2 ^ (bits - 1)
          · have hc' : num ≤ 2 ^ (bits - 1) - 1 := by omega
            simp [hc, hc', castUI_small bits h1 num hc]
          · have hc' : ¬ num ≤ 2 ^ (bits - 1) - 1 := by omega
            simp [hc, hc', he]
    · have hc : (decide (48 ≤ b) && decide (b ≤ 57)) = false := by
        simpa [ParseInt.isDigit] using hd
      simp [parseI.afterSign, bodyAfterSign, ParseInt.firstDigit, he, hd, hc]

/-- the frame when the block leaves the function with `return Err(..)` -/
theorem frame_exit {T : Type} (copy : Parser) (x : Except ParseError (T × Parser)) :
    frame copy (Ctl.exit (.out x)) = .ok x := rfl

/-- the frame when the block reaches `self.str = str_from(self.str, self.str.len() - bytes.len()); num` -/
theorem frame_val {T : Type} (y : Bool) (o : Nat) (s : List Nat) (hoff : o + s.length < 2 ^ 32)
    (hb : ∀ b ∈ s, b < 256) (v : T) (k : Nat) :
    frame (T := T) ⟨.FromStart, y, o, s⟩
        ((Ctl.call (str_from s k)).bind fun t => Ctl.val (v, (⟨.FromStart, y, o, t⟩ : Parser))) =
      match Utf8.strFrom s k with
      | .error _ => .panic
      | .ok w => .ok (.ok (v, (⟨.FromStart, y, o + (s.length - (w.apply s).length), w.apply s⟩ : Parser))) := by
  rw [str_from_eq _ _ hb]
  cases Utf8.strFrom s k with
  | error _ => rfl
  | ok w =>
    have hw := pi_apply_length_le w s
    have hmod : (s.length - (w.apply s).length) % 2 ^ 32 = s.length - (w.apply s).length :=
      Nat.mod_eq_of_lt (by omega)
    have hlt : o + (s.length - (w.apply s).length) < 2 ^ 32 := by omega
    simp [frame, Rs.block, Rs.usub, Rs.uadd, Rs.castUU, hw, hmod, hlt]

theorem parseI_eq (bits : Nat) (h4 : 4 ≤ bits) (tmax tmin : Int)
    (hmax : tmax = ParseInt.tMax bits) (hmin : tmin = ParseInt.tMin bits) (fuel : Nat) (p : Parser)
    (hoff : p.start_offset + p.str.length < 2 ^ 32) (hb : ∀ b ∈ p.str, b < 256)
    (hf : p.str.length ≤ fuel) :
    parseI bits tmax tmin fuel p = resOf intVal (Konst.Parser.parseInt (toParser p) true bits) := by
  rw [parseInt_closed, parseIntegerBody_signed]
  obtain ⟨d, y, o, s⟩ := p
  simp only [] at hoff hb hf ⊢
  have he := new_error_ok y o s .ParseInteger hoff
  -- what the rest of the block computes from `(sign, bytes)`
  have hrest : ∀ (isneg : Bool) (b1 : List Nat), b1.length ≤ s.length →
      frame ⟨.FromStart, y, o, s⟩
          (parseI.afterSign bits tmax tmin fuel ⟨.FromStart, y, o, s⟩ ⟨.FromStart, y, o, s⟩ isneg b1) =
        resOf intVal
          (match bodyAfterSign bits isneg b1 with
           | none => .err ⟨o, o + s.length, .fromStart, .parseInteger⟩
           | some (v, rest) =>
             match Utf8.strFrom s (s.length - rest.length) with
             | .error _ => .panic
             | .ok w => .ok ⟨.fromStart, y, o + (s.length - (w.apply s).length), w.apply s⟩ (.int v)) := by
    intro isneg b1 hl
    rw [afterSign_spec bits h4 tmax tmin hmax hmin fuel _ _ he isneg b1 (by omega) hl]
    cases bodyAfterSign bits isneg b1 with
    | none => simp [frame_exit, resOf, ofError, ofDir, ofKind]
    | some vr =>
      obtain ⟨v, rest⟩ := vr
      simp only []
      rw [frame_val y o s hoff hb]
      cases Utf8.strFrom s (s.length - rest.length) with
      | error _ => rfl
      | ok w => rfl
  cases s with
  | nil => exact hrest false [] (Nat.le_refl _)
  | cons c rem =>
    by_cases hc : c = 45
    · subst hc
      exact hrest true rem (by simp)
    · have hps : ParseInt.parseSign true (c :: rem) = (false, c :: rem) := by
        unfold ParseInt.parseSign
        simp only [if_true]
        split
        · rename_i h; simp at h; exact absurd h.1 hc
        · rfl
      rw [hps]
      have := hrest false (c :: rem) (Nat.le_refl _)
      simpa [parseI, hc] using this

/-! ### `parse_bool` -/

/-- the `'ret` block of `Extracted.Parser.parse_bool` (its text) -/
def boolBlock (self copy : Parser) :
    Ctl (LoopExit (Except ParseError (Bool × Parser)) Unit (Bool × Parser)) (Bool × Parser) := do
        let (t13_, self) ← (match self.str with
            | (p1_ :: p2_ :: p3_ :: p4_ :: _) => if decide (p1_ = (116 : Nat)) && decide (p2_ = (114 : Nat)) && decide (p3_ = (117 : Nat)) && decide (p4_ = (101 : Nat)) then do
                  let t10_ ← Ctl.call (str_from self.str (4 : Nat))
                  let self := { self with str := t10_ }
                  pure (true, self)
                else
                  (match self.str with
                    | (p5_ :: p6_ :: p7_ :: p8_ :: p9_ :: _) => if decide (p5_ = (102 : Nat)) && decide (p6_ = (97 : Nat)) && decide (p7_ = (108 : Nat)) && decide (p8_ = (115 : Nat)) && decide (p9_ = (101 : Nat)) then do
                          let t11_ ← Ctl.call (str_from self.str (5 : Nat))
                          let self := { self with str := t11_ }
                          pure (false, self)
                        else
                          (do
                              let t12_ ← Ctl.call (ParseError.new copy ErrorKind.ParseBool)
                              Ctl.exit (.out (Except.error t12_)))
                    | _ =>
                        (do
                            let t12_ ← Ctl.call (ParseError.new copy ErrorKind.ParseBool)
                            Ctl.exit (.out (Except.error t12_))))
            | _ =>
                (match self.str with
                  | (p5_ :: p6_ :: p7_ :: p8_ :: p9_ :: _) => if decide (p5_ = (102 : Nat)) && decide (p6_ = (97 : Nat)) && decide (p7_ = (108 : Nat)) && decide (p8_ = (115 : Nat)) && decide (p9_ = (101 : Nat)) then do
                        let t11_ ← Ctl.call (str_from self.str (5 : Nat))
                        let self := { self with str := t11_ }
                        pure (false, self)
                      else
                        (do
                            let t12_ ← Ctl.call (ParseError.new copy ErrorKind.ParseBool)
                            Ctl.exit (.out (Except.error t12_)))
                  | _ =>
                      (do
                          let t12_ ← Ctl.call (ParseError.new copy ErrorKind.ParseBool)
                          Ctl.exit (.out (Except.error t12_)))))
        pure (t13_, self)

theorem parse_bool_shape (self : Parser) :
    Extracted.Parser.parse_bool self =
      frame { self with parse_direction := ParseDirection.FromStart }
        (boolBlock { self with parse_direction := ParseDirection.FromStart }
          { self with parse_direction := ParseDirection.FromStart }) := rfl

theorem parseBool_closed (p : Parser) :
    Konst.Parser.parseBool (toParser p) =
      match ParseInt.parseBoolPrefix p.str with
      | none => .err ⟨p.start_offset, p.start_offset + p.str.length, .fromStart, .parseBool⟩
      | some (v, k) =>
        match Utf8.strFrom p.str k with
        | .error _ => .panic
        | .ok w => .ok ⟨.fromStart, p.yielded_last_split,
            p.start_offset + (p.str.length - (w.apply p.str).length), w.apply p.str⟩ (.bool v) := by
  unfold Konst.Parser.parseBool Konst.Parser.tryParsing
  cases h : ParseInt.parseBoolPrefix p.str with
  | none => simp [toParser, h, Konst.Parser.ParseError.new]
  | some vr =>
    obtain ⟨v, k⟩ := vr
    simp only [toParser, h]
    cases Utf8.strFrom p.str k with
    | error _ => rfl
    | ok w => rfl

theorem parseBoolPrefix_none (s : List Nat) (h1 : ∀ t, s ≠ 116 :: 114 :: 117 :: 101 :: t)
    (h2 : ∀ t, s ≠ 102 :: 97 :: 108 :: 115 :: 101 :: t) : ParseInt.parseBoolPrefix s = none := by
  unfold ParseInt.parseBoolPrefix
  split
  · exact absurd rfl (h1 _)
  · exact absurd rfl (h2 _)
  · rfl

/-- the block of `parse_bool` does what the model's `parseBoolPrefix` says -/
theorem boolBlock_spec (y : Bool) (o : Nat) (s : List Nat) (e : ParseError)
    (he : ParseError.new ⟨.FromStart, y, o, s⟩ ErrorKind.ParseBool = .ok e) :
    boolBlock ⟨.FromStart, y, o, s⟩ ⟨.FromStart, y, o, s⟩ =
      match ParseInt.parseBoolPrefix s with
      | none => Ctl.exit (.out (Except.error e))
      | some (v, k) =>
        (Ctl.call (str_from s k)).bind fun t => Ctl.val (v, (⟨.FromStart, y, o, t⟩ : Parser)) := by
  by_cases h1 : ∃ t, s = 116 :: 114 :: 117 :: 101 :: t
  · obtain ⟨t, rfl⟩ := h1
    simp only [boolBlock, ParseInt.parseBoolPrefix, decide_true, Bool.and_self, ↓reduceIte, Ctl.bind_eq,
      Ctl.pure_eq]
    cases str_from (116 :: 114 :: 117 :: 101 :: t) 4 <;> rfl
  · by_cases h2 : ∃ t, s = 102 :: 97 :: 108 :: 115 :: 101 :: t
    · obtain ⟨t, rfl⟩ := h2
      simp only [boolBlock, ParseInt.parseBoolPrefix, decide_true, decide_false, Bool.and_self,
        Bool.false_eq_true, Nat.reduceEqDiff, ↓reduceIte, Ctl.bind_eq, Ctl.pure_eq]
      cases str_from (102 :: 97 :: 108 :: 115 :: 101 :: t) 5 <;> rfl
    · have h1' : ∀ t, s ≠ 116 :: 114 :: 117 :: 101 :: t := fun t h => h1 ⟨t, h⟩
      have h2' : ∀ t, s ≠ 102 :: 97 :: 108 :: 115 :: 101 :: t := fun t h => h2 ⟨t, h⟩
      rw [parseBoolPrefix_none s h1' h2']
      rcases s with _ | ⟨a, _ | ⟨b, _ | ⟨c, _ | ⟨d, s⟩⟩⟩⟩
      · simp [boolBlock, he]
      · simp [boolBlock, he]
      · simp [boolBlock, he]
      · simp [boolBlock, he]
      · have n1 : ¬ (((a = 116 ∧ b = 114) ∧ c = 117) ∧ d = 101) := by
          rintro ⟨⟨⟨rfl, rfl⟩, rfl⟩, rfl⟩; exact h1' _ rfl
        cases s with
        | nil => simp [boolBlock, he, n1]
        | cons e' s =>
          have n2 : ¬ ((((a = 102 ∧ b = 97) ∧ c = 108) ∧ d = 115) ∧ e' = 101) := by
            rintro ⟨⟨⟨⟨rfl, rfl⟩, rfl⟩, rfl⟩, rfl⟩; exact h2' _ rfl
          simp [boolBlock, he, n1, n2]

/-- `Parser::parse_bool` = the model's `parseBool`: `Ok((bool, parser))` / `Err(ParseError::new(copy,
    ErrorKind::ParseBool))` as the model says; a panic (inside `str_from`, when byte 4 resp. 5 of the
    remainder is a UTF-8 continuation byte — impossible for a `&str`) exactly when the model panics. -/
theorem Parser.parse_bool_eq (p : Parser)
    (hoff : p.start_offset + p.str.length < 2 ^ 32) (hb : ∀ b ∈ p.str, b < 256) :
    Extracted.Parser.parse_bool p = resOf boolVal (Konst.Parser.parseBool (toParser p)) := by
  rw [parseBool_closed, parse_bool_shape]
  obtain ⟨d, y, o, s⟩ := p
  simp only [] at hoff hb ⊢
  have he := new_error_ok y o s .ParseBool hoff
  rw [boolBlock_spec y o s _ he]
  cases ParseInt.parseBoolPrefix s with
  | none => simp [frame_exit, resOf, ofError, ofDir, ofKind]
  | some vk =>
    obtain ⟨v, k⟩ := vk
    simp only []
    rw [frame_val y o s hoff hb]
    cases Utf8.strFrom s k with
    | error _ => rfl
    | ok w => rfl

/- "true!" at offset 3, "trux" -/
example : Extracted.Parser.parse_bool ⟨.FromEnd, true, 3, [116, 114, 117, 101, 33]⟩
    = resOf boolVal (Konst.Parser.parseBool (toParser ⟨.FromEnd, true, 3, [116, 114, 117, 101, 33]⟩)) :=
  Parser.parse_bool_eq _ (by decide) (by decide)
example : Extracted.Parser.parse_bool ⟨.FromEnd, true, 3, [116, 114, 117, 101, 33]⟩
    = .ok (.ok (true, ⟨.FromStart, true, 7, [33]⟩)) := by rfl
example : Extracted.Parser.parse_bool ⟨.FromStart, false, 0, [102, 97, 108, 115, 101]⟩
    = .ok (.ok (false, ⟨.FromStart, false, 5, []⟩)) := by rfl
example : Extracted.Parser.parse_bool ⟨.FromEnd, true, 3, [116, 114, 117, 120]⟩
    = .ok (.error ⟨3, 7, .FromStart, .ParseBool, [], ()⟩) := by rfl

/-! ### the eight functions -/

/-- `Parser::parse_u8` = the model's `parseInt · false 8`.  The result is exactly the model's:
    `Ok((num, parser))`, `Err(ParseError::new(copy, ErrorKind::ParseInteger))` (the checked `u32` addition
    inside `ParseError::new` does not overflow under `hoff`), and a panic (inside `str_from`, when the byte
    behind the digits is a UTF-8 continuation byte — impossible for a `&str`, see `Parser.parse_u8_ok`)
    exactly when the model panics.  Fuel: one loop iteration per digit behind the first, plus the exit. -/
theorem Parser.parse_u8_eq (fuel : Nat) (p : Parser)
    (hoff : p.start_offset + p.str.length < 2 ^ 32) (hb : ∀ b ∈ p.str, b < 256)
    (hf : p.str.length ≤ fuel) :
    Extracted.Parser.parse_u8 fuel p = resOf natVal (Konst.Parser.parseInt (toParser p) false 8) := by
  rw [parse_u8_shape]; exact parseU_eq 8 (by decide) fuel p hoff hb hf

/- "12x" at offset 7 (direction and flag arbitrary): the theorem applies, and both sides are `Ok((12, "x" at 9))` -/
example : Extracted.Parser.parse_u8 3 ⟨.FromEnd, true, 7, [49, 50, 120]⟩
    = resOf natVal (Konst.Parser.parseInt (toParser ⟨.FromEnd, true, 7, [49, 50, 120]⟩) false 8) :=
  Parser.parse_u8_eq _ _ (by decide) (by decide) (by decide)
example : resOf natVal (Konst.Parser.parseInt (toParser ⟨.FromEnd, true, 7, [49, 50, 120]⟩) false 8)
    = .ok (.ok (12, ⟨.FromStart, true, 9, [120]⟩)) := by rfl
/- "256": `Err(ParseError { start_offset: 0, end_offset: 3, FromStart, ParseInteger })`, no panic -/
example : Extracted.Parser.parse_u8 3 ⟨.FromStart, false, 0, [50, 53, 54]⟩
    = .ok (.error ⟨0, 3, .FromStart, .ParseInteger, [], ()⟩) := by rfl
/- "1\x80" (not a `&str`): `str_from(.., 1)` panics, in the code and in the model -/
example : Extracted.Parser.parse_u8 2 ⟨.FromStart, false, 0, [49, 0x80]⟩ = .panic := by rfl
example : Konst.Parser.parseInt (toParser ⟨.FromStart, false, 0, [49, 0x80]⟩) false 8 = .panic := by decide

theorem Parser.parse_i8_eq (fuel : Nat) (p : Parser)
    (hoff : p.start_offset + p.str.length < 2 ^ 32) (hb : ∀ b ∈ p.str, b < 256)
    (hf : p.str.length ≤ fuel) :
    Extracted.Parser.parse_i8 fuel p = resOf intVal (Konst.Parser.parseInt (toParser p) true 8) := by
  rw [parse_i8_shape]; exact parseI_eq 8 (by decide) _ _ (by decide) (by decide) fuel p hoff hb hf

/- "-128" and "128" -/
example : Extracted.Parser.parse_i8 4 ⟨.FromStart, false, 0, [45, 49, 50, 56]⟩
    = resOf intVal (Konst.Parser.parseInt (toParser ⟨.FromStart, false, 0, [45, 49, 50, 56]⟩) true 8) :=
  Parser.parse_i8_eq _ _ (by decide) (by decide) (by decide)
example : Extracted.Parser.parse_i8 4 ⟨.FromStart, false, 0, [45, 49, 50, 56]⟩
    = .ok (.ok (-128, ⟨.FromStart, false, 4, []⟩)) := by rfl
example : Extracted.Parser.parse_i8 3 ⟨.FromStart, false, 0, [49, 50, 56]⟩
    = .ok (.error ⟨0, 3, .FromStart, .ParseInteger, [], ()⟩) := by rfl

theorem Parser.parse_u32_eq (fuel : Nat) (p : Parser)
    (hoff : p.start_offset + p.str.length < 2 ^ 32) (hb : ∀ b ∈ p.str, b < 256)
    (hf : p.str.length ≤ fuel) :
    Extracted.Parser.parse_u32 fuel p = resOf natVal (Konst.Parser.parseInt (toParser p) false 32) := by
  rw [parse_u32_shape]; exact parseU_eq 32 (by decide) fuel p hoff hb hf

/- "4294967295," and "4294967296" -/
example : Extracted.Parser.parse_u32 11 ⟨.FromStart, false, 5, [52,50,57,52,57,54,55,50,57,53,44]⟩
    = resOf natVal (Konst.Parser.parseInt (toParser ⟨.FromStart, false, 5, [52,50,57,52,57,54,55,50,57,53,44]⟩) false 32) :=
  Parser.parse_u32_eq _ _ (by decide) (by decide) (by decide)
example : Extracted.Parser.parse_u32 11 ⟨.FromStart, false, 5, [52,50,57,52,57,54,55,50,57,53,44]⟩
    = .ok (.ok (4294967295, ⟨.FromStart, false, 15, [44]⟩)) := by rfl
example : Extracted.Parser.parse_u32 10 ⟨.FromStart, false, 0, [52,50,57,52,57,54,55,50,57,54]⟩
    = .ok (.error ⟨0, 10, .FromStart, .ParseInteger, [], ()⟩) := by rfl

theorem Parser.parse_i64_eq (fuel : Nat) (p : Parser)
    (hoff : p.start_offset + p.str.length < 2 ^ 32) (hb : ∀ b ∈ p.str, b < 256)
    (hf : p.str.length ≤ fuel) :
    Extracted.Parser.parse_i64 fuel p = resOf intVal (Konst.Parser.parseInt (toParser p) true 64) := by
  rw [parse_i64_shape]; exact parseI_eq 64 (by decide) _ _ (by decide) (by decide) fuel p hoff hb hf

/- "-9223372036854775808" and "9223372036854775808" -/
example : Extracted.Parser.parse_i64 20 ⟨.FromStart, false, 0, [45,57,50,50,51,51,55,50,48,51,54,56,53,52,55,55,53,56,48,56]⟩
    = resOf intVal (Konst.Parser.parseInt (toParser ⟨.FromStart, false, 0, [45,57,50,50,51,51,55,50,48,51,54,56,53,52,55,55,53,56,48,56]⟩) true 64) :=
  Parser.parse_i64_eq _ _ (by decide) (by decide) (by decide)
example : Extracted.Parser.parse_i64 20 ⟨.FromStart, false, 0, [45,57,50,50,51,51,55,50,48,51,54,56,53,52,55,55,53,56,48,56]⟩
    = .ok (.ok (-9223372036854775808, ⟨.FromStart, false, 20, []⟩)) := by rfl
example : Extracted.Parser.parse_i64 19 ⟨.FromStart, false, 0, [57,50,50,51,51,55,50,48,51,54,56,53,52,55,55,53,56,48,56]⟩
    = .ok (.error ⟨0, 19, .FromStart, .ParseInteger, [], ()⟩) := by rfl

theorem Parser.parse_u128_eq (fuel : Nat) (p : Parser)
    (hoff : p.start_offset + p.str.length < 2 ^ 32) (hb : ∀ b ∈ p.str, b < 256)
    (hf : p.str.length ≤ fuel) :
    Extracted.Parser.parse_u128 fuel p = resOf natVal (Konst.Parser.parseInt (toParser p) false 128) := by
  rw [parse_u128_shape]; exact parseU_eq 128 (by decide) fuel p hoff hb hf

/- "007 " and "" -/
example : Extracted.Parser.parse_u128 4 ⟨.FromStart, false, 0, [48, 48, 55, 32]⟩
    = resOf natVal (Konst.Parser.parseInt (toParser ⟨.FromStart, false, 0, [48, 48, 55, 32]⟩) false 128) :=
  Parser.parse_u128_eq _ _ (by decide) (by decide) (by decide)
example : Extracted.Parser.parse_u128 4 ⟨.FromStart, false, 0, [48, 48, 55, 32]⟩
    = .ok (.ok (7, ⟨.FromStart, false, 3, [32]⟩)) := by rfl
example : Extracted.Parser.parse_u128 0 ⟨.FromBoth, false, 9, []⟩
    = .ok (.error ⟨9, 9, .FromStart, .ParseInteger, [], ()⟩) := by rfl

theorem Parser.parse_i128_eq (fuel : Nat) (p : Parser)
    (hoff : p.start_offset + p.str.length < 2 ^ 32) (hb : ∀ b ∈ p.str, b < 256)
    (hf : p.str.length ≤ fuel) :
    Extracted.Parser.parse_i128 fuel p = resOf intVal (Konst.Parser.parseInt (toParser p) true 128) := by
  rw [parse_i128_shape]; exact parseI_eq 128 (by decide) _ _ (by decide) (by decide) fuel p hoff hb hf

/- "-0" and "-" and "+1" -/
example : Extracted.Parser.parse_i128 2 ⟨.FromStart, false, 0, [45, 48]⟩
    = resOf intVal (Konst.Parser.parseInt (toParser ⟨.FromStart, false, 0, [45, 48]⟩) true 128) :=
  Parser.parse_i128_eq _ _ (by decide) (by decide) (by decide)
example : Extracted.Parser.parse_i128 2 ⟨.FromStart, false, 0, [45, 48]⟩
    = .ok (.ok (0, ⟨.FromStart, false, 2, []⟩)) := by rfl
example : Extracted.Parser.parse_i128 1 ⟨.FromStart, false, 0, [45]⟩
    = .ok (.error ⟨0, 1, .FromStart, .ParseInteger, [], ()⟩) := by rfl
example : Extracted.Parser.parse_i128 2 ⟨.FromStart, false, 0, [43, 49]⟩
    = .ok (.error ⟨0, 2, .FromStart, .ParseInteger, [], ()⟩) := by rfl

/-- `usize` is 64 bits wide (`Konst.USIZE`) -/
theorem Parser.parse_usize_eq (fuel : Nat) (p : Parser)
    (hoff : p.start_offset + p.str.length < 2 ^ 32) (hb : ∀ b ∈ p.str, b < 256)
    (hf : p.str.length ≤ fuel) :
    Extracted.Parser.parse_usize fuel p = resOf natVal (Konst.Parser.parseInt (toParser p) false 64) := by
  rw [parse_usize_shape]; exact parseU_eq 64 (by decide) fuel p hoff hb hf

/- "18446744073709551615" and "18446744073709551616" -/
example : Extracted.Parser.parse_usize 20 ⟨.FromStart, false, 0, [49,56,52,52,54,55,52,52,48,55,51,55,48,57,53,53,49,54,49,53]⟩
    = resOf natVal (Konst.Parser.parseInt (toParser ⟨.FromStart, false, 0, [49,56,52,52,54,55,52,52,48,55,51,55,48,57,53,53,49,54,49,53]⟩) false 64) :=
  Parser.parse_usize_eq _ _ (by decide) (by decide) (by decide)
example : Extracted.Parser.parse_usize 20 ⟨.FromStart, false, 0, [49,56,52,52,54,55,52,52,48,55,51,55,48,57,53,53,49,54,49,53]⟩
    = .ok (.ok (18446744073709551615, ⟨.FromStart, false, 20, []⟩)) := by rfl
example : Extracted.Parser.parse_usize 20 ⟨.FromStart, false, 0, [49,56,52,52,54,55,52,52,48,55,51,55,48,57,53,53,49,54,49,54]⟩
    = .ok (.error ⟨0, 20, .FromStart, .ParseInteger, [], ()⟩) := by rfl

/-! ### no panic on a `&str` -/

/-- the right-hand sides above are `.ok _` whenever the model neither panics nor returns a value of
    the wrong kind -/
theorem resOf_ok_of {T : Type} (f : Konst.Parser.Value → Option T) (r : Konst.Parser.Res)
    (hp : r ≠ .panic) (hv : ∀ q v, r = .ok q v → ∃ t, f v = some t) :
    (∃ q v t, r = .ok q v ∧ f v = some t ∧ resOf f r = .ok (.ok (t, ofParser q))) ∨
    (∃ e, r = .err e ∧ resOf f r = .ok (.error (ofError e))) := by
  cases r with
  | ok q v =>
    obtain ⟨t, ht⟩ := hv q v rfl
    exact .inl ⟨q, v, t, rfl, ht, by simp [resOf, ht]⟩
  | err e => exact .inr ⟨e, rfl, rfl⟩
  | panic => exact absurd rfl hp

/-- the model's `parseInt` on a valid string does not panic (`Lemmas.Parser.parseInt_good`) -/
theorem parseInt_ne_panic (q : Konst.Parser.Parser) (signed : Bool) (bits : Nat)
    (hv : Konst.Spec.Utf8.Valid q.str) : Konst.Parser.parseInt q signed bits ≠ .panic := by
  intro h
  have := Konst.Lemmas.Parser.parseInt_good q signed bits hv
  rw [h] at this
  exact this

theorem parseBool_ne_panic (q : Konst.Parser.Parser)
    (hv : Konst.Spec.Utf8.Valid q.str) : Konst.Parser.parseBool q ≠ .panic := by
  intro h
  have := Konst.Lemmas.Parser.parseBool_good q hv
  rw [h] at this
  exact this

/-- the values the model's `parseInt` returns: an integer, non-negative for the unsigned types -/
theorem parseInt_value (p : Parser) (signed : Bool) (bits : Nat) (q : Konst.Parser.Parser)
    (v : Konst.Parser.Value) (h : Konst.Parser.parseInt (toParser p) signed bits = .ok q v) :
    ∃ n : Int, v = .int n ∧ (signed = false → 0 ≤ n) := by
  rw [parseInt_closed] at h
  cases hbody : ParseInt.parseIntegerBody signed bits p.str with
  | none => rw [hbody] at h; cases h
  | some vr =>
    obtain ⟨n, rest⟩ := vr
    rw [hbody] at h
    simp only [] at h
    cases hs : Utf8.strFrom p.str (p.str.length - rest.length) with
    | error _ => rw [hs] at h; cases h
    | ok w =>
      rw [hs] at h
      simp only [Konst.Parser.Res.ok.injEq] at h
      refine ⟨n, h.2.symm, ?_⟩
      intro hsg
      subst hsg
      unfold ParseInt.parseIntegerBody at hbody
      simp only [ParseInt.parseSign, Bool.false_eq_true, if_false] at hbody
      cases hfd : ParseInt.firstDigit bits p.str with
      | none => rw [hfd] at hbody; cases hbody
      | some x =>
        obtain ⟨n0, b2⟩ := x
        rw [hfd] at hbody
        simp only [] at hbody
        cases hacc : ParseInt.accLoop bits b2 n0 with
        | none => rw [hacc] at hbody; cases hbody
        | some x =>
          obtain ⟨num, r'⟩ := x
          rw [hacc] at hbody
          simp only [ParseInt.applySign, Bool.false_eq_true, if_false, Option.some.injEq, Prod.mk.injEq] at hbody
          rw [← hbody.1]
          exact Int.natCast_nonneg num

theorem parseBool_value (q0 q : Konst.Parser.Parser) (v : Konst.Parser.Value)
    (h : Konst.Parser.parseBool q0 = .ok q v) : ∃ b : Bool, v = .bool b := by
  unfold Konst.Parser.parseBool Konst.Parser.tryParsing at h
  simp only [] at h
  split at h
  · cases h
  · cases h
  · rename_i ret self' hc
    split at hc
    · cases hc
    · split at hc
      · cases hc
      · simp only [Konst.Parser.Body.done.injEq] at hc
        simp only [Konst.Parser.Res.ok.injEq] at h
        exact ⟨_, by rw [← h.2, ← hc.1]⟩

/-- on a `&str` (valid UTF-8: `Spec.Utf8.Valid`) every integer `parse_*` returns normally — `Ok` with
    the model's value and parser, or `Err` with the model's error; stated once for the two shapes -/
theorem parseInt_resOf_ok {T : Type} (f : Konst.Parser.Value → Option T) (p : Parser) (signed : Bool)
    (bits : Nat) (hv : Konst.Spec.Utf8.Valid p.str)
    (hf : ∀ n : Int, (signed = false → 0 ≤ n) → ∃ t, f (.int n) = some t) :
    let r := Konst.Parser.parseInt (toParser p) signed bits
    (∃ q v t, r = .ok q v ∧ f v = some t ∧ resOf f r = .ok (.ok (t, ofParser q))) ∨
    (∃ e, r = .err e ∧ resOf f r = .ok (.error (ofError e))) := by
  intro r
  refine resOf_ok_of f r (parseInt_ne_panic _ _ _ hv) ?_
  intro q v h
  obtain ⟨n, rfl, hn⟩ := parseInt_value p signed bits q v h
  exact hf n hn

theorem natVal_some (n : Int) (h : 0 ≤ n) : ∃ t, natVal (.int n) = some t := ⟨n.toNat, by simp [natVal, h]⟩
theorem intVal_some (n : Int) : ∃ t, intVal (.int n) = some t := ⟨n, rfl⟩

theorem pi_valid_lt_256 {s : List Nat} (hv : Konst.Spec.Utf8.Valid s) : ∀ b ∈ s, b < 256 := by
  obtain ⟨cs, hs, rfl⟩ := hv
  exact Konst.Lemmas.Utf8.encs_lt_256 cs hs

/-- `Parser::parse_u8` on a `&str` never panics: it returns `Ok`/`Err` as the model does -/
theorem Parser.parse_u8_ok (fuel : Nat) (p : Parser)
    (hoff : p.start_offset + p.str.length < 2 ^ 32) (hv : Konst.Spec.Utf8.Valid p.str)
    (hf : p.str.length ≤ fuel) :
    let r := Konst.Parser.parseInt (toParser p) false 8
    (∃ q v t, r = .ok q v ∧ natVal v = some t ∧ Extracted.Parser.parse_u8 fuel p = .ok (.ok (t, ofParser q))) ∨
    (∃ e, r = .err e ∧ Extracted.Parser.parse_u8 fuel p = .ok (.error (ofError e))) := by
  rw [Parser.parse_u8_eq fuel p hoff (pi_valid_lt_256 hv) hf]
  exact parseInt_resOf_ok natVal p false 8 hv fun n hn => natVal_some n (hn rfl)

theorem Parser.parse_i8_ok (fuel : Nat) (p : Parser)
    (hoff : p.start_offset + p.str.length < 2 ^ 32) (hv : Konst.Spec.Utf8.Valid p.str)
    (hf : p.str.length ≤ fuel) :
    let r := Konst.Parser.parseInt (toParser p) true 8
    (∃ q v t, r = .ok q v ∧ intVal v = some t ∧ Extracted.Parser.parse_i8 fuel p = .ok (.ok (t, ofParser q))) ∨
    (∃ e, r = .err e ∧ Extracted.Parser.parse_i8 fuel p = .ok (.error (ofError e))) := by
  rw [Parser.parse_i8_eq fuel p hoff (pi_valid_lt_256 hv) hf]
  exact parseInt_resOf_ok intVal p true 8 hv fun n _ => intVal_some n

theorem Parser.parse_u32_ok (fuel : Nat) (p : Parser)
    (hoff : p.start_offset + p.str.length < 2 ^ 32) (hv : Konst.Spec.Utf8.Valid p.str)
    (hf : p.str.length ≤ fuel) :
    let r := Konst.Parser.parseInt (toParser p) false 32
    (∃ q v t, r = .ok q v ∧ natVal v = some t ∧ Extracted.Parser.parse_u32 fuel p = .ok (.ok (t, ofParser q))) ∨
    (∃ e, r = .err e ∧ Extracted.Parser.parse_u32 fuel p = .ok (.error (ofError e))) := by
  rw [Parser.parse_u32_eq fuel p hoff (pi_valid_lt_256 hv) hf]
  exact parseInt_resOf_ok natVal p false 32 hv fun n hn => natVal_some n (hn rfl)

theorem Parser.parse_i64_ok (fuel : Nat) (p : Parser)
    (hoff : p.start_offset + p.str.length < 2 ^ 32) (hv : Konst.Spec.Utf8.Valid p.str)
    (hf : p.str.length ≤ fuel) :
    let r := Konst.Parser.parseInt (toParser p) true 64
    (∃ q v t, r = .ok q v ∧ intVal v = some t ∧ Extracted.Parser.parse_i64 fuel p = .ok (.ok (t, ofParser q))) ∨
    (∃ e, r = .err e ∧ Extracted.Parser.parse_i64 fuel p = .ok (.error (ofError e))) := by
  rw [Parser.parse_i64_eq fuel p hoff (pi_valid_lt_256 hv) hf]
  exact parseInt_resOf_ok intVal p true 64 hv fun n _ => intVal_some n

theorem Parser.parse_u128_ok (fuel : Nat) (p : Parser)
    (hoff : p.start_offset + p.str.length < 2 ^ 32) (hv : Konst.Spec.Utf8.Valid p.str)
    (hf : p.str.length ≤ fuel) :
    let r := Konst.Parser.parseInt (toParser p) false 128
    (∃ q v t, r = .ok q v ∧ natVal v = some t ∧ Extracted.Parser.parse_u128 fuel p = .ok (.ok (t, ofParser q))) ∨
    (∃ e, r = .err e ∧ Extracted.Parser.parse_u128 fuel p = .ok (.error (ofError e))) := by
  rw [Parser.parse_u128_eq fuel p hoff (pi_valid_lt_256 hv) hf]
  exact parseInt_resOf_ok natVal p false 128 hv fun n hn => natVal_some n (hn rfl)

theorem Parser.parse_i128_ok (fuel : Nat) (p : Parser)
    (hoff : p.start_offset + p.str.length < 2 ^ 32) (hv : Konst.Spec.Utf8.Valid p.str)
    (hf : p.str.length ≤ fuel) :
    let r := Konst.Parser.parseInt (toParser p) true 128
    (∃ q v t, r = .ok q v ∧ intVal v = some t ∧ Extracted.Parser.parse_i128 fuel p = .ok (.ok (t, ofParser q))) ∨
    (∃ e, r = .err e ∧ Extracted.Parser.parse_i128 fuel p = .ok (.error (ofError e))) := by
  rw [Parser.parse_i128_eq fuel p hoff (pi_valid_lt_256 hv) hf]
  exact parseInt_resOf_ok intVal p true 128 hv fun n _ => intVal_some n

theorem Parser.parse_usize_ok (fuel : Nat) (p : Parser)
    (hoff : p.start_offset + p.str.length < 2 ^ 32) (hv : Konst.Spec.Utf8.Valid p.str)
    (hf : p.str.length ≤ fuel) :
    let r := Konst.Parser.parseInt (toParser p) false 64
    (∃ q v t, r = .ok q v ∧ natVal v = some t ∧ Extracted.Parser.parse_usize fuel p = .ok (.ok (t, ofParser q))) ∨
    (∃ e, r = .err e ∧ Extracted.Parser.parse_usize fuel p = .ok (.error (ofError e))) := by
  rw [Parser.parse_usize_eq fuel p hoff (pi_valid_lt_256 hv) hf]
  exact parseInt_resOf_ok natVal p false 64 hv fun n hn => natVal_some n (hn rfl)

theorem Parser.parse_bool_ok (p : Parser)
    (hoff : p.start_offset + p.str.length < 2 ^ 32) (hv : Konst.Spec.Utf8.Valid p.str) :
    let r := Konst.Parser.parseBool (toParser p)
    (∃ q v t, r = .ok q v ∧ boolVal v = some t ∧ Extracted.Parser.parse_bool p = .ok (.ok (t, ofParser q))) ∨
    (∃ e, r = .err e ∧ Extracted.Parser.parse_bool p = .ok (.error (ofError e))) := by
  rw [Parser.parse_bool_eq p hoff (pi_valid_lt_256 hv)]
  refine resOf_ok_of boolVal _ (parseBool_ne_panic _ hv) ?_
  intro q v h
  obtain ⟨b, rfl⟩ := parseBool_value _ q v h
  exact ⟨b, rfl⟩

end Extracted.Equiv
