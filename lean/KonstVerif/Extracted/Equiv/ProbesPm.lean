import KonstVerif.Extracted.Gen.ProbesPm
import KonstVerif.Extracted.Equiv.ParserA
import KonstVerif.Model.ParserMethod
import KonstVerif.Props.C18
/-
  Extracted (regenerated from the rustc-expanded call sites of `parser_method!` in the probe crate
  translator/probes/src/lib.rs, group `ProbesPm`) = the hand-written model of the macro
  (`Konst.PM.*`, Model/ParserMethod.lean, the definitions Props/C18.lean part (ii) is about):

    pm_strip_prefix, pm_strip_suffix, pm_find_skip, pm_rfind_skip     arms `"ab" | "a" => 0, "b" => 1, _ => 9`
    pm_trim_start_matches, pm_trim_end_matches                        literals `"ab" | "a" | "b\u{e9}"`

  Conversions.  The model's state `PState` is (start offset, remainder bytes); `toPState` projects the generated
  `Parser` on it, `ofPState p d s` puts a model state back into `p` with parse direction `d`
  (`yielded_last_split` is never touched by the macro).  A match-like form returns the branch value and the
  parser: `pmOutcome p d o` = (`o.1.getD 9`, the parser with direction `d` if an arm ran — `Parser::skip` writes
  `FromStart`, `skip_back` writes `FromEnd` — and the untouched `p` in the default branch).

  Hypotheses.
    * `hb : ∀ b ∈ p.str, b < 256` — the remainder is a byte string (`as i8` casts in the char-boundary tests);
    * `hfit : p.start_offset + p.str.length < 2 ^ 32` — only for the start forms (`Parser::skip` adds to the `u32`
      `start_offset` with a checked addition); the end forms leave `start_offset` alone;
    * explicit fuel `p.str.length + 1 ≤ fuel`.
  NO validity of the remainder as UTF-8 is needed:
    * start forms: `Parser::skip` rounds the byte count UP to a char boundary exactly as the model's `skip` does
      (`skip_pm`), valid remainder or not;
    * end forms: the model's `skipBack` has no panic case while the code panics (`pos -= 1` at 0) if there is no char
      boundary at or below the position; but the macro only ever asks for a position at which a literal starts (an
      ASCII byte here) or for the end of the remainder, which are char boundaries, so `skip_back` neither rounds nor
      panics (`pm_skip_back_at`).  (`skip_back_pm` is the general tie: it also holds whenever the remainder does not
      start with a continuation byte.)
  The `_std` corollaries read the results through Spec/ParserMethod.lean / plain prefix-suffix tests, using the
  Props/C18 theorems about the model; those of the start forms assume a valid-UTF-8 remainder (so that no rounding
  happens), those of the end forms hold for all byte remainders.
-/
namespace Extracted.Equiv
open Rs Konst

/-! ### conversions -/

/-- the generated `Parser` as the `parser_method!` model's state: start offset and remainder bytes -/
def toPState (p : Extracted.Parser) : Konst.PM.PState := ⟨p.start_offset, p.str⟩

/-- back: the two fields the model does not have are given explicitly -/
def ofPState (p : Extracted.Parser) (d : Extracted.ParseDirection) (s : Konst.PM.PState) : Extracted.Parser :=
  { p with parse_direction := d, start_offset := s.start, str := s.rem }

theorem pm_up_eq (p : Konst.PM.PState) (m n : Nat) :
    Konst.PM.skip.up p m n = Konst.Parser.skipUp p.rem m n := by
  induction m generalizing n with
  | zero => simp [Konst.PM.skip.up, Konst.Parser.skipUp]
  | succ m ih => simp [Konst.PM.skip.up, Konst.Parser.skipUp, ih]

/-- the `Parser::skip` of Model/Parser.lean (the one `Parser_skip_eq` is about) never panics and is the
    `skip` of Model/ParserMethod.lean on (start offset, remainder) -/
theorem skip_model_pm (q : Konst.Parser.Parser) (bc : Nat) :
    Konst.Parser.skip q bc
      = .ok { q with dir := .fromStart,
                     startOffset := (Konst.PM.skip ⟨q.startOffset, q.str⟩ bc).start,
                     str := (Konst.PM.skip ⟨q.startOffset, q.str⟩ bc).rem } .unit := by
  unfold Konst.Parser.skip Konst.PM.skip
  have hk : Utf8.isCharBoundaryForgiving q.str
      (if bc > q.str.length then q.str.length
        else Konst.Parser.skipUp q.str (q.str.length + 1) bc) = true := by
    apply forgiving_of_strict
    by_cases hgt : bc > q.str.length
    · simp only [hgt, ↓reduceIte]; exact isCharBoundaryBytes_length _
    · simp only [hgt, ↓reduceIte]; exact skipUp_boundary _ _ _ (by omega) (by omega)
  have hle : (if bc > q.str.length then q.str.length
        else Konst.Parser.skipUp q.str (q.str.length + 1) bc) ≤ q.str.length := by
    by_cases hgt : bc > q.str.length
    · simp [hgt]
    · simp only [hgt, ↓reduceIte]; exact skipUp_le _ _ _ (by omega)
  simp only [pm_up_eq]
  generalize (if bc > q.str.length then q.str.length
        else Konst.Parser.skipUp q.str (q.str.length + 1) bc) = n at hk hle
  have hov : overflowingSub q.str.length n = (q.str.length - n, false) := by
    simp [overflowingSub]; omega
  simp [Utf8.strFrom, hk, Konst.Parser.Parser.setStr, Slice.sliceFrom, Slice.sliceFromImpl, View.apply, hov]
  exact List.take_of_length_le (by simp)

theorem skip_pm (fuel : Nat) (p : Extracted.Parser) (bc : Nat)
    (hfit : p.start_offset + p.str.length < 2 ^ 32) (hb : ∀ b ∈ p.str, b < 256)
    (hf : p.str.length - bc + 1 ≤ fuel) :
    Extracted.Parser.skip fuel p bc = .ok (ofPState p .FromStart (Konst.PM.skip (toPState p) bc)) := by
  rw [Parser_skip_eq fuel p bc hfit hb hf, skip_model_pm]
  simp [parserToModel, parserOfModel, ofPState, toPState, dirOfModel]

/-- the downward search of Model/Parser.lean (`none` = the `pos -= 1` underflow panic) finds what the
    total search of Model/ParserMethod.lean finds, as soon as position 0 or the start position is a char
    boundary -/
theorem pm_down_eq (p : Konst.PM.PState) (pos : Nat)
    (h : Utf8.isCharBoundaryBytes p.rem 0 = true ∨ Utf8.isCharBoundaryBytes p.rem pos = true) :
    Konst.Parser.skipDown p.rem pos = some (Konst.PM.skipBack.down p pos) := by
  induction pos with
  | zero =>
    have h0 : Utf8.isCharBoundaryBytes p.rem 0 = true := by rcases h with h | h <;> exact h
    simp [Konst.Parser.skipDown, Konst.PM.skipBack.down, h0]
  | succ pos ih =>
    by_cases ht : Utf8.isCharBoundaryBytes p.rem (pos + 1) = true
    · simp [Konst.Parser.skipDown, Konst.PM.skipBack.down, ht]
    · have h0 : Utf8.isCharBoundaryBytes p.rem 0 = true := by
        rcases h with h | h
        · exact h
        · exact absurd h ht
      simp [Konst.Parser.skipDown, Konst.PM.skipBack.down, ht, ih (Or.inl h0)]

theorem pm_down_le (p : Konst.PM.PState) (pos : Nat) : Konst.PM.skipBack.down p pos ≤ pos := by
  induction pos with
  | zero => simp [Konst.PM.skipBack.down]
  | succ pos ih =>
    rw [Konst.PM.skipBack.down]
    split <;> omega

/-- `Parser::skip_back` of Model/Parser.lean is the `skipBack` of Model/ParserMethod.lean (which has no panic
    case) whenever the remainder does not start with a continuation byte, or the target position is a char
    boundary already -/
theorem skipBack_model_pm (q : Konst.Parser.Parser) (bc : Nat)
    (h : Utf8.isCharBoundaryBytes q.str 0 = true ∨
      Utf8.isCharBoundaryBytes q.str (q.str.length - bc) = true) :
    Konst.Parser.skipBack q bc
      = .ok { q with dir := .fromEnd, str := (Konst.PM.skipBack ⟨q.startOffset, q.str⟩ bc).rem } .unit := by
  unfold Konst.Parser.skipBack Konst.PM.skipBack
  have hd := pm_down_eq ⟨q.startOffset, q.str⟩ (q.str.length - bc) h
  have hle := pm_down_le ⟨q.startOffset, q.str⟩ (q.str.length - bc)
  have hk := forgiving_of_strict _ _ (skipDown_boundary _ _ _ hd)
  simp only [] at hd hk hle ⊢
  rw [hd]
  generalize Konst.PM.skipBack.down ⟨q.startOffset, q.str⟩ (q.str.length - bc) = k at hk hle
  have hov : overflowingSub q.str.length k = (q.str.length - k, false) := by
    simp [overflowingSub]; omega
  simp [Utf8.strUpTo, hk, Konst.Parser.Parser.setStr, Slice.sliceUpTo, Slice.sliceUpToImpl, View.apply, hov]

theorem skip_back_pm (fuel : Nat) (p : Extracted.Parser) (bc : Nat)
    (hb : ∀ b ∈ p.str, b < 256) (hf : p.str.length - bc + 1 ≤ fuel)
    (h : Utf8.isCharBoundaryBytes p.str 0 = true ∨
      Utf8.isCharBoundaryBytes p.str (p.str.length - bc) = true) :
    Extracted.Parser.skip_back fuel p bc
      = .ok (ofPState p .FromEnd (Konst.PM.skipBack (toPState p) bc)) := by
  rw [Parser_skip_back_eq fuel p bc hb hf, skipBack_model_pm _ _ h]
  simp [parserToModel, parserOfModel, ofPState, toPState, dirOfModel, Konst.PM.skipBack]

/-! ### the arms of the probes -/

/-- `"ab" | "a" => 0, "b" => 1` (default `_ => 9`) -/
def pmArms : List (Nat × List Nat) := [(0, [97, 98]), (0, [97]), (1, [98])]

/-- `"ab" | "a" | "b\u{e9}"` of the trim probes (the branch numbers play no role) -/
def pmTrimLits : List (Nat × List Nat) := [(0, [97, 98]), (0, [97]), (0, [98, 195, 169])]

/-- the result of a match-like form: branch value (default 9) and parser; the parse direction is the one
    `Parser::skip`/`skip_back` writes when an arm ran, and untouched in the default branch -/
def pmOutcome (p : Extracted.Parser) (d : Extracted.ParseDirection) (o : Konst.PM.Outcome) :
    Nat × Extracted.Parser :=
  (o.1.getD 9, ofPState p (if o.1.isSome then d else p.parse_direction) o.2)

theorem ofPState_self (p : Extracted.Parser) : ofPState p p.parse_direction (toPState p) = p := rfl

theorem pm_le_add2 (n : Nat) : n ≤ n + 1 + 1 := by omega
theorem pm_le_add3 (n : Nat) : n ≤ n + 1 + 1 + 1 := by omega

/-! ### `pm_strip_prefix` -/

theorem pm_strip_prefix_eq (fuel : Nat) (p : Extracted.Parser)
    (hfit : p.start_offset + p.str.length < 2 ^ 32) (hb : ∀ b ∈ p.str, b < 256)
    (hf : p.str.length + 1 ≤ fuel) :
    Extracted.pm_strip_prefix fuel p
      = .ok (pmOutcome p .FromStart (Konst.PM.stripPrefix pmArms (toPState p))) := by
  have hsk : ∀ bc, Extracted.Parser.skip fuel p bc
      = .ok (ofPState p .FromStart (Konst.PM.skip (toPState p) bc)) :=
    fun bc => skip_pm fuel p bc hfit hb (by omega)
  have hrem : Extracted.Parser.fn_remainder p = .ok p.str := rfl
  unfold Extracted.pm_strip_prefix
  simp only [hrem, hsk, Ctl.call_ok, Ctl.bind_eq, Ctl.bind_val, Ctl.pure_eq]
  have hts : (toPState p).rem = p.str := rfl
  unfold Konst.PM.stripPrefix Konst.PM.setStart
  rw [hts]
  rcases hs : p.str with _ | ⟨a, _ | ⟨b, r⟩⟩
  · simp [Konst.PM.firstArm, Konst.PM.matchStart, pmArms, pmOutcome, ofPState_self]
  · by_cases ha : a = 97
    · simp [Konst.PM.firstArm, Konst.PM.matchStart, pmArms, pmOutcome, ha, Rs.usub]
    · have ha' : ¬ 97 = a := fun h => ha h.symm
      by_cases hb : a = 98
      · simp [Konst.PM.firstArm, Konst.PM.matchStart, pmArms, pmOutcome, hb, Rs.usub]
      · have hb' : ¬ 98 = a := fun h => hb h.symm
        simp [Konst.PM.firstArm, Konst.PM.matchStart, pmArms, pmOutcome, ofPState_self, ha, ha', hb, hb']
  · by_cases ha : a = 97
    · by_cases hb2 : b = 98
      · simp [Konst.PM.firstArm, Konst.PM.matchStart, pmArms, pmOutcome, ha, hb2, Rs.usub, pm_le_add2]
      · have hb2' : ¬ 98 = b := fun h => hb2 h.symm
        simp [Konst.PM.firstArm, Konst.PM.matchStart, pmArms, pmOutcome, ha, hb2, hb2', Rs.usub]
    · have ha' : ¬ 97 = a := fun h => ha h.symm
      by_cases hb : a = 98
      · simp [Konst.PM.firstArm, Konst.PM.matchStart, pmArms, pmOutcome, hb, Rs.usub]
      · have hb' : ¬ 98 = a := fun h => hb h.symm
        simp [Konst.PM.firstArm, Konst.PM.matchStart, pmArms, pmOutcome, ofPState_self, ha, ha', hb, hb']

example : Extracted.pm_strip_prefix 6 ⟨.FromEnd, false, 5, [97, 98, 0xC3, 0xA9, 33]⟩
    = .ok (0, ⟨.FromStart, false, 7, [0xC3, 0xA9, 33]⟩) := by
  rw [pm_strip_prefix_eq 6 _ (by decide) (by decide) (by decide)]; decide
/-- not valid UTF-8 after the literal: `Parser::skip` rounds up to the next char boundary, as the model does -/
example : Extracted.pm_strip_prefix 6 ⟨.FromEnd, false, 5, [98, 0xA9, 0xA9, 33]⟩
    = .ok (1, ⟨.FromStart, false, 8, [33]⟩) := by
  rw [pm_strip_prefix_eq 6 _ (by decide) (by decide) (by decide)]; decide
example : Extracted.pm_strip_prefix 6 ⟨.FromEnd, true, 5, [99, 97]⟩ = .ok (9, ⟨.FromEnd, true, 5, [99, 97]⟩) := by
  rw [pm_strip_prefix_eq 6 _ (by decide) (by decide) (by decide)]; decide

/-- the parser advanced by `n` bytes from the start (what `strip_prefix` of a matched `n`-byte literal gives) -/
def pmAdvStart (p : Extracted.Parser) (n : Nat) : Extracted.Parser :=
  { p with parse_direction := .FromStart, start_offset := p.start_offset + n, str := p.str.drop n }

/-- the parser shortened by `n` bytes at the end -/
def pmAdvEnd (p : Extracted.Parser) (n : Nat) : Extracted.Parser :=
  { p with parse_direction := .FromEnd, str := p.str.take (p.str.length - n) }

theorem pmArms_valid : ∀ a ∈ pmArms, ∃ ls, a.2 = Konst.Spec.Utf8.encs ls := by
  intro a ha
  simp only [pmArms, List.mem_cons, List.not_mem_nil, or_false] at ha
  rcases ha with rfl | rfl | rfl
  · exact ⟨[97, 98], by decide⟩
  · exact ⟨[97], by decide⟩
  · exact ⟨[98], by decide⟩

/-- std-level reading on a `&str` remainder (valid UTF-8): exactly `strip_prefix("ab")`, else
    `strip_prefix("a")`, else `strip_prefix("b")`, else the default -/
theorem pm_strip_prefix_std (fuel : Nat) (p : Extracted.Parser) (hv : Konst.Spec.Utf8.Valid p.str)
    (hfit : p.start_offset + p.str.length < 2 ^ 32) (hf : p.str.length + 1 ≤ fuel) :
    Extracted.pm_strip_prefix fuel p
      = .ok (if [97, 98].isPrefixOf p.str then (0, pmAdvStart p 2)
             else if [97].isPrefixOf p.str then (0, pmAdvStart p 1)
             else if [98].isPrefixOf p.str then (1, pmAdvStart p 1)
             else (9, p)) := by
  obtain ⟨cs, hcs, hp⟩ := hv
  have hb : ∀ b ∈ p.str, b < 256 := by rw [hp]; exact Konst.Lemmas.Utf8.encs_lt_256 cs hcs
  rw [pm_strip_prefix_eq fuel p hfit hb hf,
    Konst.Props.C18.strip_prefix_exact pmArms (toPState p) cs hcs hp pmArms_valid]
  have hts : (toPState p).rem = p.str := rfl
  simp only [hts, Konst.PM.Spec.firstPrefix, pmArms, List.find?_cons, List.find?_nil]
  by_cases h1 : [97, 98].isPrefixOf p.str = true
  · simp [h1, pmOutcome, ofPState, pmAdvStart, toPState]
  · by_cases h2 : [97].isPrefixOf p.str = true
    · simp [h1, h2, pmOutcome, ofPState, pmAdvStart, toPState]
    · by_cases h3 : [98].isPrefixOf p.str = true
      · simp [h1, h2, h3, pmOutcome, ofPState, pmAdvStart, toPState]
      · simp [h1, h2, h3, pmOutcome, ofPState_self]

/-! ### slice patterns `[rem @ .., a, b]`: `Rs.snocView` on lists given as `init ++ [a, b]` -/

theorem pm_snocView_one (a : Nat) : Rs.snocView [a] = .snoc [] .nil a := rfl

theorem pm_snocView_snoc1 (init : List Nat) (a : Nat) :
    Rs.snocView (init ++ [a]) = .snoc init (Rs.snocView init) a := Rs.snocView_append_singleton init a

theorem pm_snocView_snoc2 (init : List Nat) (a b : Nat) :
    Rs.snocView (init ++ [a, b]) = .snoc (init ++ [a]) (.snoc init (Rs.snocView init) a) b := by
  have : init ++ [a, b] = (init ++ [a]) ++ [b] := by simp
  rw [this, Rs.snocView_append_singleton, Rs.snocView_append_singleton]

theorem pm_snocView_snoc3 (init : List Nat) (a b c : Nat) :
    Rs.snocView (init ++ [a, b, c])
      = .snoc (init ++ [a, b]) (.snoc (init ++ [a]) (.snoc init (Rs.snocView init) a) b) c := by
  have : init ++ [a, b, c] = (init ++ [a, b]) ++ [c] := by simp
  rw [this, Rs.snocView_append_singleton, pm_snocView_snoc2]

/-- a list is `[]` or `init ++ [a]` -/
theorem pm_snoc_cases1 (s : List Nat) : s = [] ∨ ∃ init a, s = init ++ [a] := by
  rcases List.eq_nil_or_concat s with h | ⟨init, a, h⟩
  · exact Or.inl h
  · exact Or.inr ⟨init, a, by simpa using h⟩

/-- a list is `[]`, `[a]` or `init ++ [a, b]` -/
theorem pm_snoc_cases2 (s : List Nat) : s = [] ∨ (∃ a, s = [a]) ∨ ∃ init a b, s = init ++ [a, b] := by
  rcases pm_snoc_cases1 s with h | ⟨init, b, h⟩
  · exact Or.inl h
  · rcases pm_snoc_cases1 init with h' | ⟨init', a, h'⟩
    · exact Or.inr (Or.inl ⟨b, by simp [h, h']⟩)
    · exact Or.inr (Or.inr ⟨init', a, b, by simp [h, h']⟩)

/-- a list is `[]`, `[a]`, `[a, b]` or `init ++ [a, b, c]` -/
theorem pm_snoc_cases3 (s : List Nat) :
    s = [] ∨ (∃ a, s = [a]) ∨ (∃ a b, s = [a, b]) ∨ ∃ init a b c, s = init ++ [a, b, c] := by
  rcases pm_snoc_cases2 s with h | h | ⟨init, b, c, h⟩
  · exact Or.inl h
  · exact Or.inr (Or.inl h)
  · rcases pm_snoc_cases1 init with h' | ⟨init', a, h'⟩
    · exact Or.inr (Or.inr (Or.inl ⟨b, c, by simp [h, h']⟩))
    · exact Or.inr (Or.inr (Or.inr ⟨init', a, b, c, by simp [h, h']⟩))

/-- `Rs.unsnoc` on `init ++ [a]` -/
theorem pm_unsnoc_snoc (init : List Nat) (a : Nat) : Rs.unsnoc (init ++ [a]) = some (init, a) := by
  simp [Rs.unsnoc]

/-- the slice pattern `[rem @ .., l0, l1, ..]` of the model on `init ++ lit` -/
theorem matchEnd_append (lit init : List Nat) : Konst.PM.matchEnd lit (init ++ lit) = some init := by
  simp [Konst.PM.matchEnd, List.isSuffixOf_iff_suffix]

theorem matchEnd_none (lit bytes : List Nat) (h : ¬ lit <:+ bytes) : Konst.PM.matchEnd lit bytes = none := by
  simp [Konst.PM.matchEnd, List.isSuffixOf_iff_suffix, h]

/-! ### `Parser::skip_back` to the start of an ASCII byte (or to the end) never rounds and never panics -/

theorem pm_boundary_at_ascii (pre post : List Nat)
    (hpost : post = [] ∨ ∃ x r, post = x :: r ∧ x < 128) :
    Utf8.isCharBoundaryBytes (pre ++ post) pre.length = true := by
  rcases hpost with rfl | ⟨x, r, rfl, hx⟩
  · simp [Utf8.isCharBoundaryBytes]
  · have h1 : Utf8.asI8 x = (x : Int) := by simp [Utf8.asI8, hx]
    simp [Utf8.isCharBoundaryBytes, Utf8.byteIsCharBoundary, h1]

theorem pm_skip_back_at (fuel : Nat) (p : Extracted.Parser) (pre post : List Nat) (hs : p.str = pre ++ post)
    (hpost : post = [] ∨ ∃ x r, post = x :: r ∧ x < 128)
    (hb : ∀ b ∈ p.str, b < 256) (hf : p.str.length + 1 ≤ fuel) :
    Extracted.Parser.skip_back fuel p (p.str.length - pre.length)
      = .ok (ofPState p .FromEnd (Konst.PM.skipBack (toPState p) (p.str.length - pre.length))) := by
  apply skip_back_pm fuel p _ hb (by omega)
  right
  have : p.str.length - (p.str.length - pre.length) = pre.length := by
    rw [hs]; simp
  rw [this, hs]
  exact pm_boundary_at_ascii pre post hpost

/-- the same position in the model: `skipBack` cuts exactly there -/
theorem pm_skipBack_at (p : Extracted.Parser) (pre post : List Nat) (hs : p.str = pre ++ post)
    (hpost : post = [] ∨ ∃ x r, post = x :: r ∧ x < 128) :
    Konst.PM.skipBack (toPState p) post.length = ⟨p.start_offset, pre⟩ := by
  have hts : (toPState p).rem = p.str := rfl
  have hlen : (toPState p).rem.length - post.length = pre.length := by rw [hts, hs]; simp
  rw [Konst.Props.C18.skipBack_exact (toPState p) post.length (by rw [hts, hs]; simp)
    (by rw [hlen, hts, hs]; exact pm_boundary_at_ascii pre post hpost), hlen, hts, hs]
  simp [toPState]

theorem pm_skip_back_cut (fuel : Nat) (p : Extracted.Parser) (pre post : List Nat) (hs : p.str = pre ++ post)
    (hpost : post = [] ∨ ∃ x r, post = x :: r ∧ x < 128)
    (hb : ∀ b ∈ p.str, b < 256) (hf : p.str.length + 1 ≤ fuel) :
    Extracted.Parser.skip_back fuel p post.length
      = .ok (ofPState p .FromEnd (Konst.PM.skipBack (toPState p) post.length)) := by
  have h := pm_skip_back_at fuel p pre post hs hpost hb hf
  have hl : p.str.length - pre.length = post.length := by rw [hs]; simp
  rwa [hl] at h

theorem matchEnd_same_len (lit lit' init : List Nat) (h : lit'.length = lit.length) :
    Konst.PM.matchEnd lit (init ++ lit') = if lit = lit' then some init else none := by
  by_cases he : lit = lit'
  · subst he; simp [matchEnd_append]
  · simp only [he, if_false]
    apply matchEnd_none
    rintro ⟨t, ht⟩
    exact he (List.append_inj_right' ht h.symm)

theorem matchEnd_short (lit bytes : List Nat) (h : bytes.length < lit.length) :
    Konst.PM.matchEnd lit bytes = none := by
  apply matchEnd_none
  intro hsuf
  have := hsuf.length_le
  omega

theorem firstArm_end_nil : Konst.PM.firstArm Konst.PM.matchEnd pmArms [] = none := by decide

theorem firstArm_end_one (a : Nat) :
    Konst.PM.firstArm Konst.PM.matchEnd pmArms [a]
      = if a = 97 then some (0, []) else if a = 98 then some (1, []) else none := by
  have h1 := matchEnd_same_len [97] [a] [] rfl
  have h2 := matchEnd_same_len [98] [a] [] rfl
  have h0 := matchEnd_short [97, 98] [a] (by simp)
  simp only [List.nil_append] at h1 h2
  simp only [pmArms, Konst.PM.firstArm, h0, h1, h2]
  by_cases ha : a = 97
  · simp [ha]
  · have ha' : ¬ 97 = a := fun h => ha h.symm
    by_cases hb : a = 98
    · simp [hb]
    · have hb' : ¬ 98 = a := fun h => hb h.symm
      simp [ha, ha', hb, hb']

theorem firstArm_end_two (init : List Nat) (a b : Nat) :
    Konst.PM.firstArm Konst.PM.matchEnd pmArms (init ++ [a, b])
      = if a = 97 ∧ b = 98 then some (0, init)
        else if b = 97 then some (0, init ++ [a])
        else if b = 98 then some (1, init ++ [a]) else none := by
  have h0 := matchEnd_same_len [97, 98] [a, b] init rfl
  have h1 := matchEnd_same_len [97] [b] (init ++ [a]) rfl
  have h2 := matchEnd_same_len [98] [b] (init ++ [a]) rfl
  have e : init ++ [a] ++ [b] = init ++ [a, b] := by simp
  rw [e] at h1 h2
  simp only [pmArms, Konst.PM.firstArm, h0, h1, h2]
  by_cases ha : a = 97 <;> by_cases hb : b = 98 <;> by_cases hb7 : b = 97 <;>
    simp [ha, hb, hb7, eq_comm]

/-! ### `pm_strip_suffix` -/

/-- no UTF-8 hypothesis and no offset bound: `skip_back` is always asked for a position where an ASCII
    literal starts, so it neither rounds nor panics, and it leaves `start_offset` alone -/
theorem pm_strip_suffix_eq (fuel : Nat) (p : Extracted.Parser)
    (hb : ∀ b ∈ p.str, b < 256) (hf : p.str.length + 1 ≤ fuel) :
    Extracted.pm_strip_suffix fuel p
      = .ok (pmOutcome p .FromEnd (Konst.PM.stripSuffix pmArms (toPState p))) := by
  have hrem : Extracted.Parser.fn_remainder p = .ok p.str := rfl
  have hts : (toPState p).rem = p.str := rfl
  unfold Extracted.pm_strip_suffix
  simp only [hrem, Ctl.call_ok, Ctl.bind_eq, Ctl.bind_val, Ctl.pure_eq]
  unfold Konst.PM.stripSuffix Konst.PM.setEnd
  rw [hts]
  rcases pm_snoc_cases2 p.str with hs | ⟨a, hs⟩ | ⟨init, a, b, hs⟩
  · rw [hs]
    simp [Rs.snocView_nil, firstArm_end_nil, pmOutcome, ofPState_self]
  · rw [hs, pm_snocView_one, firstArm_end_one]
    by_cases ha : a = 97
    · have hk := pm_skip_back_cut fuel p [] [a] hs (Or.inr ⟨a, [], rfl, by omega⟩) hb hf
      simp [ha, Rs.usub, pmOutcome] at hk ⊢
      simp [hk]
    · by_cases hb8 : a = 98
      · have hk := pm_skip_back_cut fuel p [] [a] hs (Or.inr ⟨a, [], rfl, by omega⟩) hb hf
        simp [hb8, Rs.usub, pmOutcome] at hk ⊢
        simp [hk]
      · simp [ha, hb8, pmOutcome, ofPState_self]
  · have hs1 : p.str = (init ++ [a]) ++ [b] := by simp [hs]
    rw [hs, pm_snocView_snoc2, firstArm_end_two]
    by_cases hab : a = 97 ∧ b = 98
    · have hk := pm_skip_back_cut fuel p init [a, b] hs (Or.inr ⟨a, [b], rfl, by omega⟩) hb hf
      simp [hab.1, hab.2, Rs.usub, pmOutcome] at hk ⊢
      simp [hk]
    · by_cases hb7 : b = 97
      · have hk := pm_skip_back_cut fuel p (init ++ [a]) [b] hs1 (Or.inr ⟨b, [], rfl, by omega⟩) hb hf
        simp [hb7, Rs.usub, pmOutcome] at hk ⊢
        simp [hk]
      · by_cases hb8 : b = 98
        · have ha : ¬ a = 97 := fun h => hab ⟨h, hb8⟩
          have hk := pm_skip_back_cut fuel p (init ++ [a]) [b] hs1 (Or.inr ⟨b, [], rfl, by omega⟩) hb hf
          simp [hb8, ha, Rs.usub, pmOutcome] at hk ⊢
          simp [hk]
        · simp [hb7, hb8, pmOutcome, ofPState_self]

example : Extracted.pm_strip_suffix 6 ⟨.FromStart, false, 5, [33, 0xC3, 0xA9, 97, 98]⟩
    = .ok (0, ⟨.FromEnd, false, 5, [33, 0xC3, 0xA9]⟩) := by
  rw [pm_strip_suffix_eq 6 _ (by decide) (by decide)]; decide
/-- "ab" is not a suffix, "b" is -/
example : Extracted.pm_strip_suffix 6 ⟨.FromStart, true, 5, [0xA9, 0xA9, 98]⟩
    = .ok (1, ⟨.FromEnd, true, 5, [0xA9, 0xA9]⟩) := by
  rw [pm_strip_suffix_eq 6 _ (by decide) (by decide)]; decide
example : Extracted.pm_strip_suffix 6 ⟨.FromStart, true, 5, [97, 99]⟩ = .ok (9, ⟨.FromStart, true, 5, [97, 99]⟩) := by
  rw [pm_strip_suffix_eq 6 _ (by decide) (by decide)]; decide

/-- `__priv_pa_bytes_accessor!(set, ..)` of the end forms at the start of an ASCII byte: cuts exactly there -/
theorem setEnd_cut (p : Extracted.Parser) (pre post : List Nat) (hs : p.str = pre ++ post)
    (hpost : post = [] ∨ ∃ x r, post = x :: r ∧ x < 128) :
    Konst.PM.setEnd (toPState p) pre = ⟨p.start_offset, pre⟩ := by
  unfold Konst.PM.setEnd
  have hts : (toPState p).rem = p.str := rfl
  have hl : (toPState p).rem.length - pre.length = post.length := by rw [hts, hs]; simp
  rw [hl]
  exact pm_skipBack_at p pre post hs hpost

/-- std-level reading, for ANY remainder bytes: exactly `strip_suffix("ab")`, else `strip_suffix("a")`, else
    `strip_suffix("b")`, else the default -/
theorem pm_strip_suffix_std (fuel : Nat) (p : Extracted.Parser)
    (hb : ∀ b ∈ p.str, b < 256) (hf : p.str.length + 1 ≤ fuel) :
    Extracted.pm_strip_suffix fuel p
      = .ok (if [97, 98].isSuffixOf p.str then (0, pmAdvEnd p 2)
             else if [97].isSuffixOf p.str then (0, pmAdvEnd p 1)
             else if [98].isSuffixOf p.str then (1, pmAdvEnd p 1)
             else (9, p)) := by
  have hts : (toPState p).rem = p.str := rfl
  rw [pm_strip_suffix_eq fuel p hb hf]
  unfold Konst.PM.stripSuffix
  rw [hts]
  by_cases h1 : [97, 98].isSuffixOf p.str = true
  · obtain ⟨t, ht⟩ := List.isSuffixOf_iff_suffix.mp h1
    have e : p.str.take (p.str.length - 2) = t := by rw [← ht]; simp
    simp [Konst.PM.firstArm, Konst.PM.matchEnd, pmArms, h1, e,
      setEnd_cut p t [97, 98] ht.symm (Or.inr ⟨97, [98], rfl, by omega⟩), pmOutcome, ofPState, pmAdvEnd]
  · by_cases h2 : [97].isSuffixOf p.str = true
    · obtain ⟨t, ht⟩ := List.isSuffixOf_iff_suffix.mp h2
      have e : p.str.take (p.str.length - 1) = t := by rw [← ht]; simp
      simp [Konst.PM.firstArm, Konst.PM.matchEnd, pmArms, h1, h2, e,
        setEnd_cut p t [97] ht.symm (Or.inr ⟨97, [], rfl, by omega⟩), pmOutcome, ofPState, pmAdvEnd]
    · by_cases h3 : [98].isSuffixOf p.str = true
      · obtain ⟨t, ht⟩ := List.isSuffixOf_iff_suffix.mp h3
        have e : p.str.take (p.str.length - 1) = t := by rw [← ht]; simp
        simp [Konst.PM.firstArm, Konst.PM.matchEnd, pmArms, h1, h2, h3, e,
          setEnd_cut p t [98] ht.symm (Or.inr ⟨98, [], rfl, by omega⟩), pmOutcome, ofPState, pmAdvEnd]
      · simp [Konst.PM.firstArm, Konst.PM.matchEnd, pmArms, h1, h2, h3, pmOutcome, ofPState_self]

/-! ### `pm_find_skip` -/

/-- where the `loop` of the find form stops: the first suffix of the bytes at which some arm matches, else `[]` -/
def pmFindStop : List Nat → List Nat
  | [] => []
  | b :: r => if (Konst.PM.firstArm Konst.PM.matchStart pmArms (b :: r)).isSome then b :: r else pmFindStop r

theorem pmFindStop_length_le (bytes : List Nat) : (pmFindStop bytes).length ≤ bytes.length := by
  induction bytes with
  | nil => simp [pmFindStop]
  | cons b r ih =>
    rw [pmFindStop]
    split
    · exact Nat.le_refl _
    · simp only [List.length_cons]; omega

/-- the model's loop returns what the arms give at that suffix -/
theorem pm_findLoop_stop (bytes : List Nat) :
    Konst.PM.findLoop pmArms bytes = Konst.PM.firstArm Konst.PM.matchStart pmArms (pmFindStop bytes) := by
  induction bytes with
  | nil => simp [Konst.PM.findLoop, pmFindStop]
  | cons b r ih =>
    rw [Konst.PM.findLoop, pmFindStop]
    cases h : Konst.PM.firstArm Konst.PM.matchStart pmArms (b :: r) with
    | none => simpa using ih
    | some x => simp [h]

/-- the `loop` of `pm_find_skip` from any state -/
theorem pm_find_loop (n : Nat) (bytes : List Nat) (hn : bytes.length + 1 ≤ n) :
    Rs.loop (ε := Nat × Extracted.Parser) n Extracted.pm_find_skip.loop1 bytes = Ctl.val (pmFindStop bytes) := by
  induction n generalizing bytes with
  | zero => omega
  | succ n ih =>
    rw [Rs.loop_succ]
    rcases bytes with _ | ⟨a, _ | ⟨b, r⟩⟩
    · simp [Extracted.pm_find_skip.loop1, pmFindStop]
    · by_cases ha : a = 97
      · simp [Extracted.pm_find_skip.loop1, pmFindStop, Konst.PM.firstArm, Konst.PM.matchStart, pmArms, ha]
      · have ha' : ¬ 97 = a := fun h => ha h.symm
        by_cases hb : a = 98
        · simp [Extracted.pm_find_skip.loop1, pmFindStop, Konst.PM.firstArm, Konst.PM.matchStart, pmArms, hb]
        · have hb' : ¬ 98 = a := fun h => hb h.symm
          have := ih (bytes := []) (by simp at hn ⊢; omega)
          simp [Extracted.pm_find_skip.loop1, pmFindStop, Konst.PM.firstArm, Konst.PM.matchStart, pmArms,
            ha, ha', hb, hb', this]
    · have := ih (bytes := b :: r) (by simp at hn ⊢; omega)
      by_cases ha : a = 97
      · by_cases hb2 : b = 98
        · simp [Extracted.pm_find_skip.loop1, pmFindStop, Konst.PM.firstArm, Konst.PM.matchStart, pmArms, ha, hb2]
        · have hb2' : ¬ 98 = b := fun h => hb2 h.symm
          simp [Extracted.pm_find_skip.loop1, pmFindStop, Konst.PM.firstArm, Konst.PM.matchStart, pmArms, ha,
            hb2, hb2']
      · have ha' : ¬ 97 = a := fun h => ha h.symm
        by_cases hb : a = 98
        · simp [Extracted.pm_find_skip.loop1, pmFindStop, Konst.PM.firstArm, Konst.PM.matchStart, pmArms, hb]
        · have hb' : ¬ 98 = a := fun h => hb h.symm
          simp only [Extracted.pm_find_skip.loop1]
          simp [ha, hb, this]
          simp [pmFindStop, Konst.PM.firstArm, Konst.PM.matchStart, pmArms, ha', hb']

theorem pm_find_skip_eq (fuel : Nat) (p : Extracted.Parser)
    (hfit : p.start_offset + p.str.length < 2 ^ 32) (hb : ∀ b ∈ p.str, b < 256)
    (hf : p.str.length + 1 ≤ fuel) :
    Extracted.pm_find_skip fuel p
      = .ok (pmOutcome p .FromStart (Konst.PM.findSkip pmArms (toPState p))) := by
  have hsk : ∀ bc, Extracted.Parser.skip fuel p bc
      = .ok (ofPState p .FromStart (Konst.PM.skip (toPState p) bc)) :=
    fun bc => skip_pm fuel p bc hfit hb (by omega)
  have hrem : Extracted.Parser.fn_remainder p = .ok p.str := rfl
  have hts : (toPState p).rem = p.str := rfl
  unfold Extracted.pm_find_skip
  simp only [hrem, hsk, pm_find_loop fuel p.str hf, Ctl.call_ok, Ctl.bind_eq, Ctl.bind_val, Ctl.pure_eq]
  unfold Konst.PM.findSkip Konst.PM.setStart
  rw [hts, (Konst.Props.C18.search_then_match pmArms).1, pm_findLoop_stop]
  have hsl := pmFindStop_length_le p.str
  generalize pmFindStop p.str = s at hsl
  rcases s with _ | ⟨a, _ | ⟨b, r⟩⟩
  · simp [Konst.PM.firstArm, Konst.PM.matchStart, pmArms, pmOutcome, ofPState_self]
  · have hl : 0 ≤ p.str.length := Nat.zero_le _
    by_cases ha : a = 97
    · simp [Konst.PM.firstArm, Konst.PM.matchStart, pmArms, pmOutcome, ha, Rs.usub]
    · have ha' : ¬ 97 = a := fun h => ha h.symm
      by_cases hb : a = 98
      · simp [Konst.PM.firstArm, Konst.PM.matchStart, pmArms, pmOutcome, hb, Rs.usub]
      · have hb' : ¬ 98 = a := fun h => hb h.symm
        simp [Konst.PM.firstArm, Konst.PM.matchStart, pmArms, pmOutcome, ofPState_self, ha, ha', hb, hb']
  · have hl1 : r.length + 1 ≤ p.str.length := by simp at hsl; omega
    have hl0 : r.length ≤ p.str.length := by omega
    by_cases ha : a = 97
    · by_cases hb2 : b = 98
      · simp [Konst.PM.firstArm, Konst.PM.matchStart, pmArms, pmOutcome, ha, hb2, Rs.usub, hl0]
      · have hb2' : ¬ 98 = b := fun h => hb2 h.symm
        simp [Konst.PM.firstArm, Konst.PM.matchStart, pmArms, pmOutcome, ha, hb2, hb2', Rs.usub, hl1]
    · have ha' : ¬ 97 = a := fun h => ha h.symm
      by_cases hb : a = 98
      · simp [Konst.PM.firstArm, Konst.PM.matchStart, pmArms, pmOutcome, hb, Rs.usub, hl1]
      · have hb' : ¬ 98 = a := fun h => hb h.symm
        simp [Konst.PM.firstArm, Konst.PM.matchStart, pmArms, pmOutcome, ofPState_self, ha, ha', hb, hb']

/-- earliest match is "a" at position 2 (first listed alternative there), although "b" occurs nowhere before -/
example : Extracted.pm_find_skip 7 ⟨.FromEnd, false, 5, [33, 0xC3, 0xA9, 97, 99, 98]⟩
    = .ok (0, ⟨.FromStart, false, 9, [99, 98]⟩) := by
  rw [pm_find_skip_eq 7 _ (by decide) (by decide) (by decide)]; decide
example : Extracted.pm_find_skip 7 ⟨.FromEnd, false, 5, [33, 99, 98, 0xA9, 97]⟩
    = .ok (1, ⟨.FromStart, false, 9, [97]⟩) := by
  rw [pm_find_skip_eq 7 _ (by decide) (by decide) (by decide)]; decide
example : Extracted.pm_find_skip 7 ⟨.FromEnd, true, 5, [33, 99]⟩ = .ok (9, ⟨.FromEnd, true, 5, [33, 99]⟩) := by
  rw [pm_find_skip_eq 7 _ (by decide) (by decide) (by decide)]; decide

/-- reference-level reading on a `&str` remainder (valid UTF-8), `Spec/ParserMethod.lean`: the earliest position at
    which an alternative matches, there the first listed one; the parser is advanced to exactly the end of that
    match (via `Props.C18.find_skip_exact`) -/
theorem pm_find_skip_std (fuel : Nat) (p : Extracted.Parser) (hv : Konst.Spec.Utf8.Valid p.str)
    (hfit : p.start_offset + p.str.length < 2 ^ 32) (hf : p.str.length + 1 ≤ fuel) :
    Extracted.pm_find_skip fuel p
      = .ok (match Konst.PM.Spec.findSkipSpec pmArms p.str with
             | some (i, rem) =>
               (i, { p with parse_direction := .FromStart,
                            start_offset := p.start_offset + (p.str.length - rem.length), str := rem })
             | none => (9, p)) := by
  obtain ⟨cs, hcs, hp⟩ := hv
  have hb : ∀ b ∈ p.str, b < 256 := by rw [hp]; exact Konst.Lemmas.Utf8.encs_lt_256 cs hcs
  rw [pm_find_skip_eq fuel p hfit hb hf,
    Konst.Props.C18.find_skip_exact pmArms (toPState p) cs hcs hp pmArms_valid]
  have hts : (toPState p).rem = p.str := rfl
  rw [hts]
  cases Konst.PM.Spec.findSkipSpec pmArms p.str with
  | none => simp [pmOutcome, ofPState_self]
  | some r => simp [pmOutcome, ofPState, toPState]

/-! ### `pm_rfind_skip` -/

theorem pm_unsnoc_snoc2 (init : List Nat) (a b : Nat) : Rs.unsnoc (init ++ [a, b]) = some (init ++ [a], b) := by
  have : init ++ [a, b] = (init ++ [a]) ++ [b] := by simp
  rw [this, pm_unsnoc_snoc]

/-- where the `loop` of the rfind form stops: the longest prefix of the bytes at whose end some arm matches, else
    `[]` (same recursion as the model's `rfindLoop`: `fuel` = number of bytes that can still be dropped) -/
def pmRfindStop : Nat → List Nat → List Nat
  | fuel, bytes =>
    match Konst.PM.firstArm Konst.PM.matchEnd pmArms bytes with
    | some _ => bytes
    | none =>
      match fuel with
      | 0 => bytes
      | f + 1 => if bytes = [] then [] else pmRfindStop f bytes.dropLast

/-- the model's loop returns what the arms give at that prefix -/
theorem pm_rfindLoop_stop (f : Nat) (bytes : List Nat) :
    Konst.PM.rfindLoop pmArms f bytes = Konst.PM.firstArm Konst.PM.matchEnd pmArms (pmRfindStop f bytes) := by
  induction f generalizing bytes with
  | zero =>
    rw [Konst.PM.rfindLoop, pmRfindStop]
    cases h : Konst.PM.firstArm Konst.PM.matchEnd pmArms bytes with
    | none => simp [h]
    | some x => simp [h]
  | succ f ih =>
    rw [Konst.PM.rfindLoop, pmRfindStop]
    cases h : Konst.PM.firstArm Konst.PM.matchEnd pmArms bytes with
    | none =>
      by_cases he : bytes = []
      · subst he; simp [h]
      · simp [he, ih]
    | some x => simp [h]

/-- the stop is a prefix of the bytes -/
theorem pmRfindStop_prefix (f : Nat) (bytes : List Nat) : ∃ post, bytes = pmRfindStop f bytes ++ post := by
  induction f generalizing bytes with
  | zero =>
    rw [pmRfindStop]
    cases Konst.PM.firstArm Konst.PM.matchEnd pmArms bytes <;> exact ⟨[], by simp⟩
  | succ f ih =>
    rw [pmRfindStop]
    cases Konst.PM.firstArm Konst.PM.matchEnd pmArms bytes with
    | some x => exact ⟨[], by simp⟩
    | none =>
      by_cases he : bytes = []
      · exact ⟨[], by simp [he]⟩
      · obtain ⟨post, hp⟩ := ih bytes.dropLast
        obtain ⟨init, x, rfl⟩ : ∃ init x, bytes = init ++ [x] := by
          rcases pm_snoc_cases1 bytes with h | h
          · exact absurd h he
          · exact h
        simp only [he, if_false]
        simp only [List.dropLast_concat] at hp ⊢
        exact ⟨post ++ [x], by rw [← List.append_assoc, ← hp]⟩

/-- one iteration of the `loop` of `pm_rfind_skip`, by the shape of the state -/
theorem pm_rfind_loop1_nil :
    Extracted.pm_rfind_skip.loop1 [] = Ctl.exit (.brk []) := by
  unfold Extracted.pm_rfind_skip.loop1
  simp [Rs.snocView_nil, Rs.unsnoc]

theorem pm_rfind_loop1_one (a : Nat) :
    Extracted.pm_rfind_skip.loop1 [a]
      = if a = 97 ∨ a = 98 then Ctl.exit (.brk [a]) else Ctl.val [] := by
  have hu : Rs.unsnoc [a] = some ([], a) := rfl
  unfold Extracted.pm_rfind_skip.loop1
  simp only [pm_snocView_one, hu]
  by_cases ha : a = 97
  · simp [ha]
  · by_cases hb : a = 98
    · simp [hb]
    · simp [ha, hb]

theorem pm_rfind_loop1_two (init : List Nat) (a b : Nat) :
    Extracted.pm_rfind_skip.loop1 (init ++ [a, b])
      = if (a = 97 ∧ b = 98) ∨ b = 97 ∨ b = 98 then Ctl.exit (.brk (init ++ [a, b]))
        else Ctl.val (init ++ [a]) := by
  unfold Extracted.pm_rfind_skip.loop1
  simp only [pm_snocView_snoc2, pm_unsnoc_snoc2]
  by_cases hb7 : b = 97
  · by_cases ha : a = 97 <;> simp [hb7, ha]
  · by_cases hb8 : b = 98
    · by_cases ha : a = 97 <;> simp [hb8, ha]
    · simp [hb7, hb8]

/-- the `loop` of `pm_rfind_skip` from any state (`n` = fuel of the loop, `f` = the model's fuel) -/
theorem pm_rfind_loop (n f : Nat) (bytes : List Nat) (hfl : bytes.length ≤ f) (hn : bytes.length + 1 ≤ n) :
    Rs.loop (ε := Nat × Extracted.Parser) n Extracted.pm_rfind_skip.loop1 bytes
      = Ctl.val (pmRfindStop f bytes) := by
  induction n generalizing bytes f with
  | zero => omega
  | succ n ih =>
    rw [Rs.loop_succ]
    rcases pm_snoc_cases2 bytes with rfl | ⟨a, rfl⟩ | ⟨init, a, b, rfl⟩
    · rw [pm_rfind_loop1_nil]
      cases f <;> simp [pmRfindStop, firstArm_end_nil]
    · obtain ⟨f, rfl⟩ : ∃ f', f = f' + 1 := ⟨f - 1, by simp at hfl; omega⟩
      rw [pmRfindStop, firstArm_end_one, pm_rfind_loop1_one]
      by_cases ha : a = 97
      · simp [ha]
      · by_cases hb : a = 98
        · simp [hb]
        · have := ih (bytes := []) (f := f) (by simp) (by simp at hn ⊢; omega)
          simp [ha, hb, this]
    · obtain ⟨f, rfl⟩ : ∃ f', f = f' + 1 := ⟨f - 1, by simp at hfl; omega⟩
      rw [pmRfindStop, firstArm_end_two, pm_rfind_loop1_two]
      have hdl : (init ++ [a, b]).dropLast = init ++ [a] := by
        have : init ++ [a, b] = (init ++ [a]) ++ [b] := by simp
        rw [this, List.dropLast_concat]
      have := ih (bytes := init ++ [a]) (f := f) (by simp at hfl ⊢; omega) (by simp at hn ⊢; omega)
      by_cases hab : a = 97 ∧ b = 98
      · simp [hab.1, hab.2]
      · by_cases hb7 : b = 97
        · simp [hb7]
        · by_cases hb8 : b = 98
          · have ha : ¬ a = 97 := fun h => hab ⟨h, hb8⟩
            simp [hb8, ha]
          · simp [hb7, hb8, this, hdl]

/-- no UTF-8 hypothesis and no offset bound (as for `pm_strip_suffix`) -/
theorem pm_rfind_skip_eq (fuel : Nat) (p : Extracted.Parser)
    (hb : ∀ b ∈ p.str, b < 256) (hf : p.str.length + 1 ≤ fuel) :
    Extracted.pm_rfind_skip fuel p
      = .ok (pmOutcome p .FromEnd (Konst.PM.rfindSkip pmArms (toPState p))) := by
  have hrem : Extracted.Parser.fn_remainder p = .ok p.str := rfl
  have hts : (toPState p).rem = p.str := rfl
  unfold Extracted.pm_rfind_skip
  simp only [hrem, pm_rfind_loop fuel p.str.length p.str (Nat.le_refl _) hf, Ctl.call_ok, Ctl.bind_eq,
    Ctl.bind_val, Ctl.pure_eq]
  unfold Konst.PM.rfindSkip Konst.PM.setEnd
  rw [hts, (Konst.Props.C18.search_then_match pmArms).2, pm_rfindLoop_stop]
  obtain ⟨post, hpost⟩ := pmRfindStop_prefix p.str.length p.str
  generalize pmRfindStop p.str.length p.str = s at hpost
  rcases pm_snoc_cases2 s with rfl | ⟨a, rfl⟩ | ⟨init, a, b, rfl⟩
  · simp [Rs.snocView_nil, firstArm_end_nil, pmOutcome, ofPState_self]
  · rw [pm_snocView_one, firstArm_end_one]
    have hk := pm_skip_back_at fuel p [] ([a] ++ post) hpost
    by_cases ha : a = 97
    · have hk := hk (Or.inr ⟨a, post, rfl, by omega⟩) hb hf
      simp [ha, Rs.usub, pmOutcome] at hk ⊢
      simp [hk]
    · by_cases hb8 : a = 98
      · have hk := hk (Or.inr ⟨a, post, rfl, by omega⟩) hb hf
        simp [hb8, Rs.usub, pmOutcome] at hk ⊢
        simp [hk]
      · simp [ha, hb8, pmOutcome, ofPState_self]
  · have hs0 : p.str = init ++ ([a, b] ++ post) := by simp [hpost]
    have hs1 : p.str = (init ++ [a]) ++ ([b] ++ post) := by simp [hpost]
    have hl0 : init.length ≤ p.str.length := by rw [hs0]; simp
    have hl1 : init.length + 1 ≤ p.str.length := by rw [hs0]; simp
    rw [pm_snocView_snoc2, firstArm_end_two]
    by_cases hab : a = 97 ∧ b = 98
    · have hk := pm_skip_back_at fuel p init ([a, b] ++ post) hs0 (Or.inr ⟨a, [b] ++ post, rfl, by omega⟩) hb hf
      simp [hab.1, hab.2, Rs.usub, pmOutcome, hl0] at hk ⊢
      simp [hk]
    · have hk := pm_skip_back_at fuel p (init ++ [a]) ([b] ++ post) hs1
      by_cases hb7 : b = 97
      · have hk := hk (Or.inr ⟨b, post, rfl, by omega⟩) hb hf
        simp [hb7, Rs.usub, pmOutcome, hl1] at hk ⊢
        simp [hk]
      · by_cases hb8 : b = 98
        · have ha : ¬ a = 97 := fun h => hab ⟨h, hb8⟩
          have hk := hk (Or.inr ⟨b, post, rfl, by omega⟩) hb hf
          simp [hb8, ha, Rs.usub, pmOutcome, hl1] at hk ⊢
          simp [hk]
        · simp [hb7, hb8, pmOutcome, ofPState_self]

/-- latest end position with a match: "a" ending at 4 ("ab" does not end there, "b" ends nowhere later) -/
example : Extracted.pm_rfind_skip 7 ⟨.FromStart, false, 5, [98, 99, 0xC3, 97, 0xA9, 33]⟩
    = .ok (0, ⟨.FromEnd, false, 5, [98, 99, 0xC3]⟩) := by
  rw [pm_rfind_skip_eq 7 _ (by decide) (by decide)]; decide
example : Extracted.pm_rfind_skip 7 ⟨.FromStart, false, 5, [97, 98, 99, 98, 33]⟩
    = .ok (1, ⟨.FromEnd, false, 5, [97, 98, 99]⟩) := by
  rw [pm_rfind_skip_eq 7 _ (by decide) (by decide)]; decide
example : Extracted.pm_rfind_skip 7 ⟨.FromStart, false, 5, [33, 97, 98, 33]⟩
    = .ok (0, ⟨.FromEnd, false, 5, [33]⟩) := by
  rw [pm_rfind_skip_eq 7 _ (by decide) (by decide)]; decide
example : Extracted.pm_rfind_skip 7 ⟨.FromBoth, true, 5, [33, 99]⟩ = .ok (9, ⟨.FromBoth, true, 5, [33, 99]⟩) := by
  rw [pm_rfind_skip_eq 7 _ (by decide) (by decide)]; decide

/-- an arm of the end forms that matches cuts the bytes right before an ASCII byte -/
theorem firstArm_end_some (s : List Nat) (i : Nat) (rem : List Nat)
    (h : Konst.PM.firstArm Konst.PM.matchEnd pmArms s = some (i, rem)) :
    ∃ x r, x < 128 ∧ s = rem ++ x :: r := by
  rcases pm_snoc_cases2 s with rfl | ⟨a, rfl⟩ | ⟨init, a, b, rfl⟩
  · simp [firstArm_end_nil] at h
  · rw [firstArm_end_one] at h
    by_cases ha : a = 97
    · simp [ha] at h; exact ⟨a, [], by omega, by simp [← h.2]⟩
    · by_cases hb : a = 98
      · simp [hb] at h; exact ⟨a, [], by omega, by simp [← h.2]⟩
      · simp [ha, hb] at h
  · rw [firstArm_end_two] at h
    by_cases hab : a = 97 ∧ b = 98
    · simp [hab.1, hab.2] at h; exact ⟨a, [b], by omega, by simp [← h.2]⟩
    · by_cases hb7 : b = 97
      · simp [hb7] at h; exact ⟨b, [], by omega, by simp [← h.2]⟩
      · by_cases hb8 : b = 98
        · have ha : ¬ a = 97 := fun h => hab ⟨h, hb8⟩
          simp [hb8, ha] at h; exact ⟨b, [], by omega, by simp [← h.2]⟩
        · simp [hb7, hb8] at h

/-- reference-level reading, for ANY remainder bytes (`Spec/ParserMethod.lean`): the latest end position at which an
    alternative matches as a suffix, there the first listed one; the remainder is cut exactly before that match
    (via `Props.C18.find_form_earliest_then_first_listed`) -/
theorem pm_rfind_skip_std (fuel : Nat) (p : Extracted.Parser)
    (hb : ∀ b ∈ p.str, b < 256) (hf : p.str.length + 1 ≤ fuel) :
    Extracted.pm_rfind_skip fuel p
      = .ok (match Konst.PM.Spec.rfindSkipSpec pmArms p.str with
             | some (i, rem) => (i, { p with parse_direction := .FromEnd, str := rem })
             | none => (9, p)) := by
  have hts : (toPState p).rem = p.str := rfl
  rw [pm_rfind_skip_eq fuel p hb hf, (Konst.Props.C18.find_form_earliest_then_first_listed pmArms (toPState p)).2,
    hts]
  have hspec := Konst.Props.C18.rfindLoop_eq_spec pmArms p.str
  rw [pm_rfindLoop_stop] at hspec
  obtain ⟨post, hpost⟩ := pmRfindStop_prefix p.str.length p.str
  cases hr : Konst.PM.Spec.rfindSkipSpec pmArms p.str with
  | none => simp [pmOutcome, ofPState_self]
  | some r =>
    obtain ⟨i, rem⟩ := r
    rw [hr] at hspec
    obtain ⟨x, t, hx, hs⟩ := firstArm_end_some _ i rem hspec
    have hcut := setEnd_cut p rem (x :: t ++ post) (by rw [hpost, hs]; simp) (Or.inr ⟨x, t ++ post, rfl, hx⟩)
    simp [pmOutcome, ofPState, hcut]

/-! ### `pm_trim_start_matches` -/

theorem pm_ne_add1 (n : Nat) : ¬ n = n + 1 := by omega
theorem pm_ne_add3 (n : Nat) : ¬ n = n + 1 + 1 + 1 := by omega

/-- one iteration of the `while let` of `pm_trim_start_matches`: the model's step -/
theorem pm_trim_start_step (bytes : List Nat) :
    Extracted.pm_trim_start_matches.loop1 bytes
      = match Konst.PM.firstArm Konst.PM.matchStart pmTrimLits bytes with
        | none => Ctl.exit (.brk bytes)
        | some (_, rem) => if rem.length = bytes.length then Ctl.exit (.brk bytes) else Ctl.val rem := by
  unfold Extracted.pm_trim_start_matches.loop1
  rcases bytes with _ | ⟨a, _ | ⟨b, _ | ⟨c, r⟩⟩⟩
  · simp [Konst.PM.firstArm, Konst.PM.matchStart, pmTrimLits]
  · by_cases ha : a = 97
    · simp [Konst.PM.firstArm, Konst.PM.matchStart, pmTrimLits, ha]
    · have ha' : ¬ 97 = a := fun h => ha h.symm
      simp [Konst.PM.firstArm, Konst.PM.matchStart, pmTrimLits, ha, ha']
  · by_cases ha : a = 97
    · by_cases hb : b = 98
      · simp [Konst.PM.firstArm, Konst.PM.matchStart, pmTrimLits, ha, hb]
      · have hb' : ¬ 98 = b := fun h => hb h.symm
        simp [Konst.PM.firstArm, Konst.PM.matchStart, pmTrimLits, ha, hb, hb']
    · have ha' : ¬ 97 = a := fun h => ha h.symm
      simp [Konst.PM.firstArm, Konst.PM.matchStart, pmTrimLits, ha, ha']
  · by_cases ha : a = 97
    · by_cases hb : b = 98
      · simp [Konst.PM.firstArm, Konst.PM.matchStart, pmTrimLits, ha, hb]
      · have hb' : ¬ 98 = b := fun h => hb h.symm
        simp [Konst.PM.firstArm, Konst.PM.matchStart, pmTrimLits, ha, hb, hb']
    · have ha' : ¬ 97 = a := fun h => ha h.symm
      by_cases h3 : a = 98 ∧ b = 195 ∧ c = 169
      · simp [Konst.PM.firstArm, Konst.PM.matchStart, pmTrimLits, h3.1, h3.2.1, h3.2.2, pm_ne_add3]
      · have h3' : ¬ (98 = a ∧ 195 = b ∧ 169 = c) := fun h => h3 ⟨h.1.symm, h.2.1.symm, h.2.2.symm⟩
        simp [Konst.PM.firstArm, Konst.PM.matchStart, pmTrimLits, ha, ha', h3']
        intro h1 h2 h3c
        exact absurd ⟨h1, h2, h3c⟩ h3

/-- a matched arm of the start forms hands back a remainder no longer than the bytes -/
theorem firstArm_start_len (lits : List (Nat × List Nat)) (bytes : List Nat) (i : Nat) (rem : List Nat)
    (h : Konst.PM.firstArm Konst.PM.matchStart lits bytes = some (i, rem)) : rem.length ≤ bytes.length := by
  induction lits with
  | nil => simp [Konst.PM.firstArm] at h
  | cons a r ih =>
    obtain ⟨j, lit⟩ := a
    simp only [Konst.PM.firstArm, Konst.PM.matchStart] at h
    by_cases hp : lit.isPrefixOf bytes = true
    · simp [hp] at h; rw [← h.2]; simp
    · simp only [hp, Bool.false_eq_true, if_false] at h; exact ih h

/-- the `while let` loop of `pm_trim_start_matches` from any state (`n` = fuel of the loop, `m` = the model's) -/
theorem pm_trim_start_loop (n m : Nat) (bytes : List Nat) (hm : bytes.length + 1 ≤ m) (hn : bytes.length + 1 ≤ n) :
    Rs.loop (ε := Extracted.Parser) n Extracted.pm_trim_start_matches.loop1 bytes
      = Ctl.val (Konst.PM.trimLoop Konst.PM.matchStart pmTrimLits m bytes) := by
  induction n generalizing bytes m with
  | zero => omega
  | succ n ih =>
    obtain ⟨m, rfl⟩ : ∃ m', m = m' + 1 := ⟨m - 1, by omega⟩
    rw [Rs.loop_succ, pm_trim_start_step, Konst.PM.trimLoop]
    cases h : Konst.PM.firstArm Konst.PM.matchStart pmTrimLits bytes with
    | none => simp
    | some x =>
      obtain ⟨i, rem⟩ := x
      have hl := firstArm_start_len _ _ _ _ h
      by_cases he : rem.length = bytes.length
      · simp [he]
      · simp only [he, if_false]
        exact ih (bytes := rem) (m := m) (by omega) (by omega)

theorem trimLoop_start_len (lits : List (Nat × List Nat)) (m : Nat) (bytes : List Nat) :
    (Konst.PM.trimLoop Konst.PM.matchStart lits m bytes).length ≤ bytes.length := by
  induction m generalizing bytes with
  | zero => simp [Konst.PM.trimLoop]
  | succ m ih =>
    rw [Konst.PM.trimLoop]
    cases h : Konst.PM.firstArm Konst.PM.matchStart lits bytes with
    | none => simp
    | some x =>
      obtain ⟨i, rem⟩ := x
      have hl := firstArm_start_len _ _ _ _ h
      by_cases he : rem.length = bytes.length
      · simp [he]
      · simp only [he, if_false]
        exact Nat.le_trans (ih rem) hl

theorem pm_trim_start_matches_eq (fuel : Nat) (p : Extracted.Parser)
    (hfit : p.start_offset + p.str.length < 2 ^ 32) (hb : ∀ b ∈ p.str, b < 256)
    (hf : p.str.length + 1 ≤ fuel) :
    Extracted.pm_trim_start_matches fuel p
      = .ok (ofPState p .FromStart (Konst.PM.trimStartMatches pmTrimLits (toPState p))) := by
  have hsk : ∀ bc, Extracted.Parser.skip fuel p bc
      = .ok (ofPState p .FromStart (Konst.PM.skip (toPState p) bc)) :=
    fun bc => skip_pm fuel p bc hfit hb (by omega)
  have hrem : Extracted.Parser.fn_remainder p = .ok p.str := rfl
  have hts : (toPState p).rem = p.str := rfl
  have hl := trimLoop_start_len pmTrimLits (p.str.length + 1) p.str
  unfold Extracted.pm_trim_start_matches
  simp only [hrem, hsk, pm_trim_start_loop fuel (p.str.length + 1) p.str (Nat.le_refl _) hf, Ctl.call_ok,
    Ctl.bind_eq, Ctl.bind_val, Ctl.pure_eq]
  unfold Konst.PM.trimStartMatches Konst.PM.setStart
  rw [hts]
  simp [Rs.usub, hl]

/-- "ab", "bé", "a" removed, stops at "cb" -/
example : Extracted.pm_trim_start_matches 9 ⟨.FromEnd, false, 5, [97, 98, 98, 195, 169, 97, 99, 98]⟩
    = .ok ⟨.FromStart, false, 11, [99, 98]⟩ := by
  rw [pm_trim_start_matches_eq 9 _ (by decide) (by decide) (by decide)]; decide
/-- not valid UTF-8 after the last match: `Parser::skip` rounds up, as the model does -/
example : Extracted.pm_trim_start_matches 9 ⟨.FromEnd, false, 5, [97, 97, 0xA9, 33]⟩
    = .ok ⟨.FromStart, false, 8, [33]⟩ := by
  rw [pm_trim_start_matches_eq 9 _ (by decide) (by decide) (by decide)]; decide
example : Extracted.pm_trim_start_matches 9 ⟨.FromEnd, true, 5, [98, 97]⟩ = .ok ⟨.FromStart, true, 5, [98, 97]⟩ := by
  rw [pm_trim_start_matches_eq 9 _ (by decide) (by decide) (by decide)]; decide

theorem pmTrimLits_valid : ∀ a ∈ pmTrimLits, ∃ ls, a.2 = Konst.Spec.Utf8.encs ls := by
  intro a ha
  simp only [pmTrimLits, List.mem_cons, List.not_mem_nil, or_false] at ha
  rcases ha with rfl | rfl | rfl
  · exact ⟨[97, 98], by decide⟩
  · exact ⟨[97], by decide⟩
  · exact ⟨[98, 233], by decide⟩

/-- reference-level reading on a `&str` remainder (valid UTF-8), `Spec/ParserMethod.lean`: repeatedly remove the first
    listed alternative that is a prefix; the parser is advanced by exactly the bytes removed
    (via `Props.C18.trim_start_exact`) -/
theorem pm_trim_start_matches_std (fuel : Nat) (p : Extracted.Parser) (hv : Konst.Spec.Utf8.Valid p.str)
    (hfit : p.start_offset + p.str.length < 2 ^ 32) (hf : p.str.length + 1 ≤ fuel) :
    Extracted.pm_trim_start_matches fuel p
      = .ok { p with parse_direction := .FromStart,
                     start_offset := p.start_offset
                       + (p.str.length - (Konst.PM.Spec.trimStartSpec pmTrimLits p.str).length),
                     str := Konst.PM.Spec.trimStartSpec pmTrimLits p.str } := by
  obtain ⟨cs, hcs, hp⟩ := hv
  have hb : ∀ b ∈ p.str, b < 256 := by rw [hp]; exact Konst.Lemmas.Utf8.encs_lt_256 cs hcs
  rw [pm_trim_start_matches_eq fuel p hfit hb hf,
    Konst.Props.C18.trim_start_exact pmTrimLits (toPState p) cs hcs hp pmTrimLits_valid]
  simp [ofPState, toPState]

/-! ### `pm_trim_end_matches` -/

theorem pm_snocView_two (a b : Nat) : Rs.snocView [a, b] = .snoc [a] (.snoc [] .nil a) b := rfl

theorem firstArm_trim_end_nil : Konst.PM.firstArm Konst.PM.matchEnd pmTrimLits [] = none := by decide

theorem firstArm_trim_end_one (a : Nat) :
    Konst.PM.firstArm Konst.PM.matchEnd pmTrimLits [a] = if a = 97 then some (0, []) else none := by
  have h0 := matchEnd_short [97, 98] [a] (by simp)
  have h1 := matchEnd_same_len [97] [a] [] rfl
  have h2 := matchEnd_short [98, 195, 169] [a] (by simp)
  simp only [List.nil_append] at h1
  simp only [pmTrimLits, Konst.PM.firstArm, h0, h1, h2]
  by_cases ha : a = 97 <;> simp [ha, eq_comm]

theorem firstArm_trim_end_two (a b : Nat) :
    Konst.PM.firstArm Konst.PM.matchEnd pmTrimLits [a, b]
      = if a = 97 ∧ b = 98 then some (0, []) else if b = 97 then some (0, [a]) else none := by
  have h0 := matchEnd_same_len [97, 98] [a, b] [] rfl
  have h1 := matchEnd_same_len [97] [b] [a] rfl
  have h2 := matchEnd_short [98, 195, 169] [a, b] (by simp)
  simp only [List.nil_append, List.cons_append] at h0 h1
  simp only [pmTrimLits, Konst.PM.firstArm, h0, h1, h2]
  by_cases ha : a = 97 <;> by_cases hb : b = 98 <;> by_cases hb7 : b = 97 <;> simp [ha, hb, hb7, eq_comm]

theorem firstArm_trim_end_three (init : List Nat) (a b c : Nat) :
    Konst.PM.firstArm Konst.PM.matchEnd pmTrimLits (init ++ [a, b, c])
      = if b = 97 ∧ c = 98 then some (0, init ++ [a])
        else if c = 97 then some (0, init ++ [a, b])
        else if a = 98 ∧ b = 195 ∧ c = 169 then some (0, init) else none := by
  have h0 := matchEnd_same_len [97, 98] [b, c] (init ++ [a]) rfl
  have h1 := matchEnd_same_len [97] [c] (init ++ [a, b]) rfl
  have h2 := matchEnd_same_len [98, 195, 169] [a, b, c] init rfl
  have e0 : init ++ [a] ++ [b, c] = init ++ [a, b, c] := by simp
  have e1 : init ++ [a, b] ++ [c] = init ++ [a, b, c] := by simp
  rw [e0] at h0
  rw [e1] at h1
  simp only [pmTrimLits, Konst.PM.firstArm, h0, h1, h2]
  by_cases hb : b = 97 ∧ c = 98
  · simp [hb.1, hb.2]
  · have hb' : ¬ (97 = b ∧ 98 = c) := fun h => hb ⟨h.1.symm, h.2.symm⟩
    by_cases hc : c = 97
    · simp [hc]
    · have hc' : ¬ 97 = c := fun h => hc h.symm
      by_cases h3 : a = 98 ∧ b = 195 ∧ c = 169
      · simp [h3.1, h3.2.1, h3.2.2]
      · have h3' : ¬ (98 = a ∧ 195 = b ∧ 169 = c) := fun h => h3 ⟨h.1.symm, h.2.1.symm, h.2.2.symm⟩
        simp [hb, hb', hc, hc', h3, h3']

/-- one iteration of the `while let` of `pm_trim_end_matches`: the model's step -/
theorem pm_trim_end_step (bytes : List Nat) :
    Extracted.pm_trim_end_matches.loop1 bytes
      = match Konst.PM.firstArm Konst.PM.matchEnd pmTrimLits bytes with
        | none => Ctl.exit (.brk bytes)
        | some (_, rem) => if rem.length = bytes.length then Ctl.exit (.brk bytes) else Ctl.val rem := by
  unfold Extracted.pm_trim_end_matches.loop1
  rcases pm_snoc_cases3 bytes with rfl | ⟨a, rfl⟩ | ⟨a, b, rfl⟩ | ⟨init, a, b, c, rfl⟩
  · simp [Rs.snocView_nil, firstArm_trim_end_nil]
  · rw [pm_snocView_one, firstArm_trim_end_one]
    by_cases ha : a = 97 <;> simp [ha]
  · rw [pm_snocView_two, firstArm_trim_end_two]
    by_cases hab : a = 97 ∧ b = 98
    · simp [hab.1, hab.2]
    · by_cases hb7 : b = 97
      · by_cases ha : a = 97 <;> simp [hb7, ha]
      · by_cases ha : a = 97
        · have hb8 : ¬ b = 98 := fun h => hab ⟨ha, h⟩
          simp [hb7, ha, hb8]
        · simp [hb7, ha]
  · rw [pm_snocView_snoc3, firstArm_trim_end_three]
    by_cases hb : b = 97 ∧ c = 98
    · simp [hb.1, hb.2]
    · by_cases hc : c = 97
      · by_cases hb7 : b = 97 <;> simp [hc, hb7]
      · by_cases h3 : a = 98 ∧ b = 195 ∧ c = 169
        · simp [h3.1, h3.2.1, h3.2.2]
        · simp only [hb, hc, h3, if_false]
          by_cases hb7 : b = 97
          · have hc8 : ¬ c = 98 := fun h => hb ⟨hb7, h⟩
            simp [hb7, hc8]
          · simp [hb7]
            intro h1 h2 h3c
            exact absurd ⟨h1, h2, h3c⟩ h3

/-- a matched arm of the end forms (all literals starting with an ASCII byte) cuts the bytes right before an
    ASCII byte -/
theorem firstArm_end_cut (lits : List (Nat × List Nat))
    (hl : ∀ a ∈ lits, ∃ x r, a.2 = x :: r ∧ x < 128) (s : List Nat) (i : Nat) (rem : List Nat)
    (h : Konst.PM.firstArm Konst.PM.matchEnd lits s = some (i, rem)) :
    ∃ x r, x < 128 ∧ s = rem ++ x :: r := by
  induction lits with
  | nil => simp [Konst.PM.firstArm] at h
  | cons a rest ih =>
    obtain ⟨j, lit⟩ := a
    simp only [Konst.PM.firstArm, Konst.PM.matchEnd] at h
    by_cases hp : lit.isSuffixOf s = true
    · obtain ⟨t, ht⟩ := List.isSuffixOf_iff_suffix.mp hp
      obtain ⟨x, r, hx, hx128⟩ := hl (j, lit) (by simp)
      simp only [hp, if_true, Option.some.injEq, Prod.mk.injEq] at h
      have : rem = t := by rw [← h.2, ← ht]; simp
      exact ⟨x, r, hx128, by rw [this, ← ht]; simp only [] at hx; rw [hx]⟩
    · simp only [hp, Bool.false_eq_true, if_false] at h
      exact ih (fun a ha => hl a (by simp [ha])) h

theorem pmTrimLits_ascii : ∀ a ∈ pmTrimLits, ∃ x r, a.2 = x :: r ∧ x < 128 := by
  intro a ha
  simp only [pmTrimLits, List.mem_cons, List.not_mem_nil, or_false] at ha
  rcases ha with rfl | rfl | rfl
  · exact ⟨97, [98], rfl, by omega⟩
  · exact ⟨97, [], rfl, by omega⟩
  · exact ⟨98, [195, 169], rfl, by omega⟩

/-- the `while let` loop of `pm_trim_end_matches` from any state (`n` = fuel of the loop, `m` = the model's) -/
theorem pm_trim_end_loop (n m : Nat) (bytes : List Nat) (hm : bytes.length + 1 ≤ m) (hn : bytes.length + 1 ≤ n) :
    Rs.loop (ε := Extracted.Parser) n Extracted.pm_trim_end_matches.loop1 bytes
      = Ctl.val (Konst.PM.trimLoop Konst.PM.matchEnd pmTrimLits m bytes) := by
  induction n generalizing bytes m with
  | zero => omega
  | succ n ih =>
    obtain ⟨m, rfl⟩ : ∃ m', m = m' + 1 := ⟨m - 1, by omega⟩
    rw [Rs.loop_succ, pm_trim_end_step, Konst.PM.trimLoop]
    cases h : Konst.PM.firstArm Konst.PM.matchEnd pmTrimLits bytes with
    | none => simp
    | some x =>
      obtain ⟨i, rem⟩ := x
      obtain ⟨x, r, _, hs⟩ := firstArm_end_cut _ pmTrimLits_ascii _ _ _ h
      have hl : rem.length + 1 ≤ bytes.length := by rw [hs]; simp
      by_cases he : rem.length = bytes.length
      · simp [he]
      · simp only [he, if_false]
        exact ih (bytes := rem) (m := m) (by omega) (by omega)

/-- what the trim-end loop leaves is a prefix of the bytes, cut before an ASCII byte (or nothing was removed) -/
theorem trimLoop_end_cut (m : Nat) (bytes : List Nat) :
    ∃ post, bytes = Konst.PM.trimLoop Konst.PM.matchEnd pmTrimLits m bytes ++ post ∧
      (post = [] ∨ ∃ x r, post = x :: r ∧ x < 128) := by
  induction m generalizing bytes with
  | zero => exact ⟨[], by simp [Konst.PM.trimLoop], Or.inl rfl⟩
  | succ m ih =>
    rw [Konst.PM.trimLoop]
    cases h : Konst.PM.firstArm Konst.PM.matchEnd pmTrimLits bytes with
    | none => exact ⟨[], by simp, Or.inl rfl⟩
    | some x =>
      obtain ⟨i, rem⟩ := x
      by_cases he : rem.length = bytes.length
      · exact ⟨[], by simp [he], Or.inl rfl⟩
      · simp only [he, if_false]
        obtain ⟨x, r, hx, hs⟩ := firstArm_end_cut _ pmTrimLits_ascii _ _ _ h
        obtain ⟨post, hp, hpost⟩ := ih rem
        refine ⟨post ++ x :: r, by rw [← List.append_assoc, ← hp]; exact hs, Or.inr ?_⟩
        rcases hpost with rfl | ⟨y, t, rfl, hy⟩
        · exact ⟨x, r, rfl, hx⟩
        · exact ⟨y, t ++ x :: r, rfl, hy⟩

/-- no UTF-8 hypothesis and no offset bound (as for `pm_strip_suffix`) -/
theorem pm_trim_end_matches_eq (fuel : Nat) (p : Extracted.Parser)
    (hb : ∀ b ∈ p.str, b < 256) (hf : p.str.length + 1 ≤ fuel) :
    Extracted.pm_trim_end_matches fuel p
      = .ok (ofPState p .FromEnd (Konst.PM.trimEndMatches pmTrimLits (toPState p))) := by
  have hrem : Extracted.Parser.fn_remainder p = .ok p.str := rfl
  have hts : (toPState p).rem = p.str := rfl
  unfold Extracted.pm_trim_end_matches
  simp only [hrem, pm_trim_end_loop fuel (p.str.length + 1) p.str (Nat.le_refl _) hf, Ctl.call_ok,
    Ctl.bind_eq, Ctl.bind_val, Ctl.pure_eq]
  unfold Konst.PM.trimEndMatches Konst.PM.setEnd
  rw [hts]
  obtain ⟨post, hp, hpost⟩ := trimLoop_end_cut (p.str.length + 1) p.str
  generalize Konst.PM.trimLoop Konst.PM.matchEnd pmTrimLits (p.str.length + 1) p.str = s at hp
  have hk := pm_skip_back_at fuel p s post hp hpost hb hf
  have hl : s.length ≤ p.str.length := by rw [hp]; simp
  simp [Rs.usub, hl, hk]

/-- "a", "ab", "bé" removed from the end, stops at "!b" -/
example : Extracted.pm_trim_end_matches 9 ⟨.FromStart, false, 5, [33, 98, 98, 195, 169, 97, 98, 97]⟩
    = .ok ⟨.FromEnd, false, 5, [33, 98]⟩ := by
  rw [pm_trim_end_matches_eq 9 _ (by decide) (by decide)]; decide
/-- the remainder need not be valid UTF-8 -/
example : Extracted.pm_trim_end_matches 9 ⟨.FromStart, false, 5, [0xA9, 0xA9, 97, 97]⟩
    = .ok ⟨.FromEnd, false, 5, [0xA9, 0xA9]⟩ := by
  rw [pm_trim_end_matches_eq 9 _ (by decide) (by decide)]; decide
example : Extracted.pm_trim_end_matches 9 ⟨.FromStart, true, 5, [97, 98, 99]⟩ = .ok ⟨.FromEnd, true, 5, [97, 98, 99]⟩ := by
  rw [pm_trim_end_matches_eq 9 _ (by decide) (by decide)]; decide

/-- reference-level reading, for ANY remainder bytes (`Spec/ParserMethod.lean`): repeatedly remove the first listed
    alternative that is a suffix; the remainder is cut exactly there (via `Props.C18.trimEnd_eq_spec`) -/
theorem pm_trim_end_matches_std (fuel : Nat) (p : Extracted.Parser)
    (hb : ∀ b ∈ p.str, b < 256) (hf : p.str.length + 1 ≤ fuel) :
    Extracted.pm_trim_end_matches fuel p
      = .ok { p with parse_direction := .FromEnd, str := Konst.PM.Spec.trimEndSpec pmTrimLits p.str } := by
  have hts : (toPState p).rem = p.str := rfl
  rw [pm_trim_end_matches_eq fuel p hb hf]
  unfold Konst.PM.trimEndMatches
  rw [hts]
  obtain ⟨post, hp, hpost⟩ := trimLoop_end_cut (p.str.length + 1) p.str
  rw [Konst.Props.C18.trimEnd_eq_spec pmTrimLits _ _ (Nat.lt_succ_self _)] at hp ⊢
  rw [setEnd_cut p _ post hp hpost]
  simp [ofPState]

end Extracted.Equiv
