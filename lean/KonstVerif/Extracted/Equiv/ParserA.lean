import KonstVerif.Extracted.Gen.Parser
import KonstVerif.Extracted.Equiv.Str
import KonstVerif.Extracted.Equiv.StrFns
import KonstVerif.Model.Parser
/-
  Extracted (regenerated from /repo) = Model, for `konst::parsing::Parser` part A (group `Parser`, C13):

    ParseError::new, Parser::new, with_start_offset, skip, skip_back, start_offset, end_offset, into_error,
    strip_prefix, strip_suffix, trim, trim_start, trim_end, trim_matches, trim_start_matches,
    trim_end_matches, find_skip, rfind_skip

  against `Konst.Parser.*` (Model/Parser.lean), the definitions Props/C13.lean and Props/C14.lean are about.

  Conversions.  The generated structures (`Extracted.Parser`, `Extracted.ParseError`,
  `Extracted.ParseDirection`, `Extracted.ErrorKind`) and the model's (`Konst.Parser.Parser`, …) are related
  by explicit maps in both directions:

    * `dirToModel/dirOfModel`, `kindToModel/kindOfModel`, `parserToModel/parserOfModel`: bijections
      (same constructors / same four fields);
    * `errorToModel` IGNORES the two fields the model does not have, `ParseError.extra_message` and
      `ParseError._lifetime`; `errorOfModel` fills them with what `ParseError::new` writes
      (`extra_message: &""` = `[]`, `_lifetime: PhantomData` = `()`), so the theorems below are stated with
      `errorOfModel` and also pin those two fields down.  `errorToModel (errorOfModel e) = e`.
    * the model's `Res` (`ok parser value | err e | panic`) is mapped to the result of the extraction by
      `resSelf` (methods returning `Self`) and `resResult` (methods returning `Result<Self, ParseError>`).

  Hypotheses.
    * `hfit : p.start_offset + p.str.length < 2 ^ 32`: the offsets fit `u32`.  This is exactly the
      `base + len < 2^32` assumption under which the model (offsets in `Nat`) and the code (checked `u32`
      `+=`, `as u32` casts) agree (Model/Parser.lean header; `Props.C13.offsets_fit_u32`).
    * `hb : ∀ b ∈ p.str, b < 256` where the code casts a byte `as i8` (char-boundary tests: `skip`, `skip_back`).
    * explicit fuel.
-/
namespace Extracted.Equiv
open Rs Konst

/-! ### conversions -/

def dirToModel : Extracted.ParseDirection → Konst.Parser.ParseDirection
  | .FromStart => .fromStart
  | .FromEnd => .fromEnd
  | .FromBoth => .fromBoth

def dirOfModel : Konst.Parser.ParseDirection → Extracted.ParseDirection
  | .fromStart => .FromStart
  | .fromEnd => .FromEnd
  | .fromBoth => .FromBoth

def kindToModel : Extracted.ErrorKind → Konst.Parser.ErrorKind
  | .ParseInteger => .parseInteger
  | .ParseBool => .parseBool
  | .Find => .find
  | .Strip => .strip
  | .SplitExhausted => .splitExhausted
  | .DelimiterNotFound => .delimiterNotFound
  | .Other => .other

def kindOfModel : Konst.Parser.ErrorKind → Extracted.ErrorKind
  | .parseInteger => .ParseInteger
  | .parseBool => .ParseBool
  | .find => .Find
  | .strip => .Strip
  | .splitExhausted => .SplitExhausted
  | .delimiterNotFound => .DelimiterNotFound
  | .other => .Other

/-- the generated `Parser` as the model's (same four fields) -/
def parserToModel (p : Extracted.Parser) : Konst.Parser.Parser :=
  { dir := dirToModel p.parse_direction, yieldedLastSplit := p.yielded_last_split,
    startOffset := p.start_offset, str := p.str }

def parserOfModel (q : Konst.Parser.Parser) : Extracted.Parser :=
  { parse_direction := dirOfModel q.dir, yielded_last_split := q.yieldedLastSplit,
    start_offset := q.startOffset, str := q.str }

/-- the generated `ParseError` as the model's: `extra_message` and `_lifetime` (not in the model) are ignored -/
def errorToModel (e : Extracted.ParseError) : Konst.Parser.ParseError :=
  { startOffset := e.start_offset, endOffset := e.end_offset, dir := dirToModel e.direction,
    kind := kindToModel e.kind }

/-- the model's `ParseError` as the generated one: `extra_message: &""`, `_lifetime: PhantomData`
    (what `ParseError::new`, the only constructor used here, writes) -/
def errorOfModel (e : Konst.Parser.ParseError) : Extracted.ParseError :=
  { start_offset := e.startOffset, end_offset := e.endOffset, direction := dirOfModel e.dir,
    kind := kindOfModel e.kind, extra_message := [], _lifetime := () }

@[simp] theorem dirOfModel_toModel (d : Extracted.ParseDirection) : dirOfModel (dirToModel d) = d := by
  cases d <;> rfl
@[simp] theorem dirToModel_ofModel (d : Konst.Parser.ParseDirection) : dirToModel (dirOfModel d) = d := by
  cases d <;> rfl
@[simp] theorem kindOfModel_toModel (k : Extracted.ErrorKind) : kindOfModel (kindToModel k) = k := by
  cases k <;> rfl
@[simp] theorem kindToModel_ofModel (k : Konst.Parser.ErrorKind) : kindToModel (kindOfModel k) = k := by
  cases k <;> rfl
@[simp] theorem parserOfModel_toModel (p : Extracted.Parser) : parserOfModel (parserToModel p) = p := by
  cases p; simp [parserOfModel, parserToModel]
@[simp] theorem parserToModel_ofModel (q : Konst.Parser.Parser) : parserToModel (parserOfModel q) = q := by
  cases q; simp [parserOfModel, parserToModel]
@[simp] theorem errorToModel_ofModel (e : Konst.Parser.ParseError) : errorToModel (errorOfModel e) = e := by
  cases e; simp [errorOfModel, errorToModel]
/-- the other round trip holds exactly on the errors `ParseError::new` builds -/
theorem errorOfModel_toModel (e : Extracted.ParseError) (h : e.extra_message = []) :
    errorOfModel (errorToModel e) = e := by
  cases e; simp_all [errorOfModel, errorToModel]

/-- the model's result of a method returning `Self` as the result of the extraction.
    Such a method's model returns `.ok parser .unit` or `.panic`; the other shapes (`err`, a non-unit
    value) are never produced by the model functions below (see the `…_model_ok` lemmas at the end of the
    file) and are mapped to `ub`, so that nothing would be hidden if one ever were. -/
def resSelf : Konst.Parser.Res → Res Extracted.Parser
  | .ok q .unit => .ok (parserOfModel q)
  | .ok _ _ => .ub
  | .err _ => .ub
  | .panic => .panic

/-- the model's result of a method returning `Result<Self, ParseError>` as the result of the extraction -/
def resResult : Konst.Parser.Res → Res (Except Extracted.ParseError Extracted.Parser)
  | .ok q .unit => .ok (.ok (parserOfModel q))
  | .ok _ _ => .ub
  | .err e => .ok (.error (errorOfModel e))
  | .panic => .panic

@[simp] theorem resSelf_ok (q : Konst.Parser.Parser) : resSelf (.ok q .unit) = .ok (parserOfModel q) := rfl
@[simp] theorem resSelf_panic : resSelf .panic = .panic := rfl
@[simp] theorem resResult_ok (q : Konst.Parser.Parser) :
    resResult (.ok q .unit) = .ok (.ok (parserOfModel q)) := rfl
@[simp] theorem resResult_err (e : Konst.Parser.ParseError) :
    resResult (.err e) = .ok (.error (errorOfModel e)) := rfl
@[simp] theorem resResult_panic : resResult .panic = .panic := rfl

/-! ### arithmetic helpers -/

theorem castUU32_of_lt (a : Nat) (h : a < 2 ^ 32) : Rs.castUU 32 a = a := by
  unfold Rs.castUU; exact Nat.mod_eq_of_lt h

theorem apply_length_le {α : Type} (v : View) (s : List α) : (v.apply s).length ≤ s.length := by
  unfold View.apply
  simp only [List.length_take, List.length_drop]
  omega

/-- `self.start_offset += (copy.str.len() - self.str.len()) as u32; rest` for a remainder no longer than
    the old one: the `usize` subtraction, the cast and the checked `u32` addition are all exact -/
theorem offset_update {ε α : Type} (start oldLen newLen : Nat) (k : Nat → Ctl ε α)
    (hfit : start + oldLen < 2 ^ 32) (hle : newLen ≤ oldLen) :
    (Rs.usub (ε := ε) 64 oldLen newLen).bind (fun t => (Rs.uadd 32 start (Rs.castUU 32 t)).bind k)
      = k (start + (oldLen - newLen)) := by
  have h1 : oldLen - newLen < 2 ^ 32 := by omega
  have h2 : start + (oldLen - newLen) < 2 ^ 32 := by omega
  simp [Rs.usub, Rs.uadd, hle, castUU32_of_lt _ h1, h2]

/-! ### `ParseError::new`, `Parser::new`, `with_start_offset`, `start_offset`, `end_offset`, `into_error` -/

theorem ParseError_new_eq (p : Extracted.Parser) (kind : Extracted.ErrorKind)
    (hfit : p.start_offset + p.str.length < 2 ^ 32) :
    Extracted.ParseError.new p kind
      = .ok (errorOfModel (Konst.Parser.ParseError.new (parserToModel p) (kindToModel kind))) := by
  have h1 : p.str.length < 2 ^ 32 := by omega
  unfold Extracted.ParseError.new Konst.Parser.ParseError.new
  simp [Rs.uadd, castUU32_of_lt _ h1, hfit, errorOfModel, parserToModel]

example : Extracted.ParseError.new ⟨.FromEnd, false, 7, [1, 2, 3]⟩ .Strip
    = .ok ⟨7, 10, .FromEnd, .Strip, [], ()⟩ := by
  rw [ParseError_new_eq _ _ (by decide)]; decide

/-- outside the hypothesis the checked `u32` addition panics (or the `as u32` cast wraps): e.g. -/
example : Extracted.ParseError.new ⟨.FromStart, false, 2 ^ 32 - 1, [1]⟩ .Other = .panic := by decide

theorem Parser_new_eq (string : List Nat) :
    Extracted.Parser.new string = .ok (parserOfModel (Konst.Parser.new string)) := rfl

example : Extracted.Parser.new [104, 105] = .ok ⟨.FromStart, false, 0, [104, 105]⟩ := by
  rw [Parser_new_eq]; decide

/-- `start_offset as u32` wraps; the model keeps the `usize` value, so they agree for `start_offset < 2^32` -/
theorem Parser_with_start_offset_eq (string : List Nat) (start_offset : Nat) (h : start_offset < 2 ^ 32) :
    Extracted.Parser.with_start_offset string start_offset
      = .ok (parserOfModel (Konst.Parser.withStartOffset string start_offset)) := by
  unfold Extracted.Parser.with_start_offset Konst.Parser.withStartOffset
  simp [castUU32_of_lt _ h, parserOfModel, dirOfModel]

/-- in general: the model function at the wrapped offset -/
theorem Parser_with_start_offset_wrap (string : List Nat) (start_offset : Nat) :
    Extracted.Parser.with_start_offset string start_offset
      = .ok (parserOfModel (Konst.Parser.withStartOffset string (start_offset % 2 ^ 32))) := rfl

example : Extracted.Parser.with_start_offset [104, 105] 9 = .ok ⟨.FromStart, false, 9, [104, 105]⟩ := by
  rw [Parser_with_start_offset_eq _ _ (by decide)]; decide

/-- `Parser::start_offset` (the model has the field only) -/
theorem Parser_fn_start_offset_eq (p : Extracted.Parser) :
    Extracted.Parser.fn_start_offset p = .ok (parserToModel p).startOffset := rfl

example : Extracted.Parser.fn_start_offset ⟨.FromStart, false, 9, [104, 105]⟩ = .ok 9 := by
  rw [Parser_fn_start_offset_eq]; rfl

/-- `Parser::end_offset`: `self.start_offset as usize + self.str.len()` is a checked `usize` addition;
    `start_offset + len < 2^64` suffices (implied by `hfit` of the other theorems) -/
theorem Parser_fn_end_offset_eq (p : Extracted.Parser) (hfit : p.start_offset + p.str.length < 2 ^ 64) :
    Extracted.Parser.fn_end_offset p = .ok (Konst.Parser.Parser.endOffset (parserToModel p)) := by
  unfold Extracted.Parser.fn_end_offset Konst.Parser.Parser.endOffset
  simp [Rs.uadd, hfit, parserToModel]

example : Extracted.Parser.fn_end_offset ⟨.FromStart, false, 9, [104, 105]⟩ = .ok 11 := by
  rw [Parser_fn_end_offset_eq _ (by decide)]; decide

theorem Parser_into_error_eq (p : Extracted.Parser) (kind : Extracted.ErrorKind)
    (hfit : p.start_offset + p.str.length < 2 ^ 32) :
    Extracted.Parser.into_error p kind
      = .ok (errorOfModel (Konst.Parser.Parser.intoError (parserToModel p) (kindToModel kind))) := by
  unfold Extracted.Parser.into_error Konst.Parser.Parser.intoError
  simp [ParseError_new_eq p kind hfit]

example : Extracted.Parser.into_error ⟨.FromBoth, true, 7, [1, 2, 3]⟩ .Find
    = .ok ⟨7, 10, .FromBoth, .Find, [], ()⟩ := by
  rw [Parser_into_error_eq _ _ (by decide)]; decide

/-! ### `strip_prefix`, `strip_suffix` (`try_parsing!`) -/

theorem Parser_strip_prefix_eq (fuel : Nat) (p : Extracted.Parser) (matched : List Nat)
    (hfit : p.start_offset + p.str.length < 2 ^ 32) (hf : matched.length + 1 ≤ fuel) :
    Extracted.Parser.strip_prefix fuel p matched
      = resResult (Konst.Parser.stripPrefix (parserToModel p) matched) := by
  unfold Extracted.Parser.strip_prefix Konst.Parser.stripPrefix Konst.Parser.tryParsing
  simp only [str_strip_prefix_eq fuel _ _ hf, Ctl.call_ok, Ctl.bind_eq, Ctl.bind_val, parserToModel]
  cases StrFns.stripPrefix p.str matched with
  | none =>
    simp [ParseError_new_eq { p with parse_direction := ParseDirection.FromStart } ErrorKind.Strip hfit,
      Rs.block, parserToModel, dirToModel, kindToModel]
  | some v =>
    simp [Rs.block, offset_update p.start_offset p.str.length (v.apply p.str).length _ hfit (apply_length_le v p.str),
      Konst.Parser.enableIfStartAdd, Konst.Parser.Parser.setStr, parserOfModel, dirOfModel]

example : Extracted.Parser.strip_prefix 3 ⟨.FromEnd, false, 5, [104, 105, 33]⟩ [104, 105]
    = .ok (.ok ⟨.FromStart, false, 7, [33]⟩) := by
  rw [Parser_strip_prefix_eq 3 _ _ (by decide) (by decide)]; rfl
example : Extracted.Parser.strip_prefix 3 ⟨.FromEnd, false, 5, [104, 105, 33]⟩ [105]
    = .ok (.error ⟨5, 8, .FromStart, .Strip, [], ()⟩) := by
  rw [Parser_strip_prefix_eq 3 _ _ (by decide) (by decide)]; rfl

theorem Parser_strip_suffix_eq (fuel : Nat) (p : Extracted.Parser) (matched : List Nat)
    (hfit : p.start_offset + p.str.length < 2 ^ 32) (hf : matched.length + 1 ≤ fuel) :
    Extracted.Parser.strip_suffix fuel p matched
      = resResult (Konst.Parser.stripSuffix (parserToModel p) matched) := by
  unfold Extracted.Parser.strip_suffix Konst.Parser.stripSuffix Konst.Parser.tryParsing
  simp only [str_strip_suffix_eq fuel _ _ hf, Ctl.call_ok, Ctl.bind_eq, Ctl.bind_val, parserToModel]
  cases StrFns.stripSuffix p.str matched with
  | none =>
    simp [ParseError_new_eq { p with parse_direction := ParseDirection.FromEnd } ErrorKind.Strip hfit,
      Rs.block, parserToModel, dirToModel, kindToModel]
  | some v =>
    simp [Rs.block, Konst.Parser.enableIfStartAdd, Konst.Parser.Parser.setStr, parserOfModel, dirOfModel]

example : Extracted.Parser.strip_suffix 3 ⟨.FromStart, false, 5, [104, 105, 33]⟩ [105, 33]
    = .ok (.ok ⟨.FromEnd, false, 5, [104]⟩) := by
  rw [Parser_strip_suffix_eq 3 _ _ (by decide) (by decide)]; rfl
example : Extracted.Parser.strip_suffix 3 ⟨.FromStart, false, 5, [104, 105, 33]⟩ [105]
    = .ok (.error ⟨5, 8, .FromEnd, .Strip, [], ()⟩) := by
  rw [Parser_strip_suffix_eq 3 _ _ (by decide) (by decide)]; rfl

/-! ### `trim`, `trim_start`, `trim_end` -/

/-- `Parser::trim` (hand-written since f0b3228: only the start trim is added to `start_offset`) -/
theorem Parser_trim_eq (fuel : Nat) (p : Extracted.Parser)
    (hfit : p.start_offset + p.str.length < 2 ^ 32) (hf : p.str.length + 1 ≤ fuel) :
    Extracted.Parser.trim fuel p = resSelf (Konst.Parser.trim (parserToModel p)) := by
  have hle := apply_length_le (StrFns.trimStart p.str) p.str
  have hf2 : ((StrFns.trimStart p.str).apply p.str).length + 1 ≤ fuel := by omega
  unfold Extracted.Parser.trim Konst.Parser.trim
  simp [str_trim_start_eq fuel _ hf, str_trim_end_eq fuel _ hf2, offset_update _ _ _ _ hfit hle,
    parserToModel, parserOfModel, dirOfModel]

example : Extracted.Parser.trim 6 ⟨.FromStart, false, 5, [32, 12, 120, 9, 13]⟩
    = .ok ⟨.FromBoth, false, 7, [120]⟩ := by
  rw [Parser_trim_eq 6 _ (by decide) (by decide)]; decide

theorem Parser_trim_start_eq (fuel : Nat) (p : Extracted.Parser)
    (hfit : p.start_offset + p.str.length < 2 ^ 32) (hf : p.str.length + 1 ≤ fuel) :
    Extracted.Parser.trim_start fuel p = resSelf (Konst.Parser.trimStart (parserToModel p)) := by
  have hle := apply_length_le (StrFns.trimStart p.str) p.str
  unfold Extracted.Parser.trim_start Konst.Parser.trimStart Konst.Parser.parsing
  simp [str_trim_start_eq fuel _ hf, offset_update _ _ _ _ hfit hle, Konst.Parser.enableIfStartAdd,
    Konst.Parser.Parser.setStr, parserToModel, parserOfModel, dirOfModel]

example : Extracted.Parser.trim_start 6 ⟨.FromEnd, false, 5, [32, 12, 120, 9, 13]⟩
    = .ok ⟨.FromStart, false, 7, [120, 9, 13]⟩ := by
  rw [Parser_trim_start_eq 6 _ (by decide) (by decide)]; decide

/-- `trim_end` leaves `start_offset` alone: no bound on the offsets is needed -/
theorem Parser_trim_end_eq (fuel : Nat) (p : Extracted.Parser) (hf : p.str.length + 1 ≤ fuel) :
    Extracted.Parser.trim_end fuel p = resSelf (Konst.Parser.trimEnd (parserToModel p)) := by
  unfold Extracted.Parser.trim_end Konst.Parser.trimEnd Konst.Parser.parsing
  simp [str_trim_end_eq fuel _ hf, Konst.Parser.enableIfStartAdd,
    Konst.Parser.Parser.setStr, parserToModel, parserOfModel, dirOfModel]

example : Extracted.Parser.trim_end 6 ⟨.FromStart, false, 5, [32, 12, 120, 9, 13]⟩
    = .ok ⟨.FromEnd, false, 5, [32, 12, 120]⟩ := by
  rw [Parser_trim_end_eq 6 _ (by decide)]; decide

/-! ### `trim_matches`, `trim_start_matches`, `trim_end_matches` -/

theorem Parser_trim_matches_eq (fuel : Nat) (p : Extracted.Parser) (needle : List Nat)
    (hfit : p.start_offset + p.str.length < 2 ^ 32) (hf : p.str.length + needle.length + 1 ≤ fuel) :
    Extracted.Parser.trim_matches fuel p needle
      = resSelf (Konst.Parser.trimMatches (parserToModel p) needle) := by
  have hle := apply_length_le (StrFns.trimStartMatches p.str needle) p.str
  have hf2 : ((StrFns.trimStartMatches p.str needle).apply p.str).length + needle.length + 1 ≤ fuel := by
    omega
  unfold Extracted.Parser.trim_matches Konst.Parser.trimMatches
  simp [str_trim_start_matches_eq fuel _ _ hf, str_trim_end_matches_eq fuel _ _ hf2,
    offset_update _ _ _ _ hfit hle, parserToModel, parserOfModel, dirOfModel]

example : Extracted.Parser.trim_matches 9 ⟨.FromStart, false, 5, [1, 1, 1, 5, 1, 1]⟩ [1, 1]
    = .ok ⟨.FromBoth, false, 7, [1, 5]⟩ := by
  rw [Parser_trim_matches_eq 9 _ _ (by decide) (by decide)]; decide

theorem Parser_trim_start_matches_eq (fuel : Nat) (p : Extracted.Parser) (needle : List Nat)
    (hfit : p.start_offset + p.str.length < 2 ^ 32) (hf : p.str.length + needle.length + 1 ≤ fuel) :
    Extracted.Parser.trim_start_matches fuel p needle
      = resSelf (Konst.Parser.trimStartMatches (parserToModel p) needle) := by
  have hle := apply_length_le (StrFns.trimStartMatches p.str needle) p.str
  unfold Extracted.Parser.trim_start_matches Konst.Parser.trimStartMatches Konst.Parser.parsing
  simp [str_trim_start_matches_eq fuel _ _ hf, offset_update _ _ _ _ hfit hle,
    Konst.Parser.enableIfStartAdd, Konst.Parser.Parser.setStr, parserToModel, parserOfModel, dirOfModel]

example : Extracted.Parser.trim_start_matches 9 ⟨.FromEnd, false, 5, [1, 2, 1, 2, 1, 3]⟩ [1, 2]
    = .ok ⟨.FromStart, false, 9, [1, 3]⟩ := by
  rw [Parser_trim_start_matches_eq 9 _ _ (by decide) (by decide)]; decide

/-- `trim_end_matches` leaves `start_offset` alone: no bound on the offsets is needed -/
theorem Parser_trim_end_matches_eq (fuel : Nat) (p : Extracted.Parser) (needle : List Nat)
    (hf : p.str.length + needle.length + 1 ≤ fuel) :
    Extracted.Parser.trim_end_matches fuel p needle
      = resSelf (Konst.Parser.trimEndMatches (parserToModel p) needle) := by
  unfold Extracted.Parser.trim_end_matches Konst.Parser.trimEndMatches Konst.Parser.parsing
  simp [str_trim_end_matches_eq fuel _ _ hf, Konst.Parser.enableIfStartAdd,
    Konst.Parser.Parser.setStr, parserToModel, parserOfModel, dirOfModel]

example : Extracted.Parser.trim_end_matches 9 ⟨.FromStart, false, 5, [3, 1, 1, 2, 1, 2]⟩ [1, 2]
    = .ok ⟨.FromEnd, false, 5, [3, 1]⟩ := by
  rw [Parser_trim_end_matches_eq 9 _ _ (by decide)]; decide

/-! ### `find_skip`, `rfind_skip` (`try_parsing!`) -/

/-- the machine bound `hb` is the one of `bytes_find` (`i + pat.len()` is a checked `usize` addition);
    with `hfit` it only constrains the needle: `needle.length + 2^32 ≤ 2^64` suffices -/
theorem Parser_find_skip_eq (fuel : Nat) (p : Extracted.Parser) (needle : List Nat)
    (hfit : p.start_offset + p.str.length < 2 ^ 32)
    (hb : p.str.length + needle.length + 1 < 2 ^ 64) (hf : p.str.length + needle.length + 2 ≤ fuel) :
    Extracted.Parser.find_skip fuel p needle
      = resResult (Konst.Parser.findSkip (parserToModel p) needle) := by
  unfold Extracted.Parser.find_skip Konst.Parser.findSkip Konst.Parser.tryParsing
  simp only [str_find_skip_eq fuel _ _ hb hf, Ctl.call_ok, Ctl.bind_eq, Ctl.bind_val, parserToModel]
  cases StrFns.findSkip p.str needle with
  | none =>
    simp [ParseError_new_eq { p with parse_direction := ParseDirection.FromStart } ErrorKind.Find hfit,
      Rs.block, parserToModel, dirToModel, kindToModel]
  | some v =>
    simp [Rs.block, offset_update p.start_offset p.str.length (v.apply p.str).length _ hfit (apply_length_le v p.str),
      Konst.Parser.enableIfStartAdd, Konst.Parser.Parser.setStr, parserOfModel, dirOfModel]

example : Extracted.Parser.find_skip 8 ⟨.FromEnd, false, 5, [1, 2, 3, 4]⟩ [2, 3]
    = .ok (.ok ⟨.FromStart, false, 8, [4]⟩) := by
  rw [Parser_find_skip_eq 8 _ _ (by decide) (by decide) (by decide)]; rfl
example : Extracted.Parser.find_skip 8 ⟨.FromEnd, false, 5, [1, 2, 3, 4]⟩ [3, 2]
    = .ok (.error ⟨5, 9, .FromStart, .Find, [], ()⟩) := by
  rw [Parser_find_skip_eq 8 _ _ (by decide) (by decide) (by decide)]; rfl

theorem Parser_rfind_skip_eq (fuel : Nat) (p : Extracted.Parser) (needle : List Nat)
    (hfit : p.start_offset + p.str.length < 2 ^ 32) (hf : p.str.length + 1 ≤ fuel) :
    Extracted.Parser.rfind_skip fuel p needle
      = resResult (Konst.Parser.rfindSkip (parserToModel p) needle) := by
  have hb : p.str.length < 2 ^ 64 := by omega
  unfold Extracted.Parser.rfind_skip Konst.Parser.rfindSkip Konst.Parser.tryParsing
  simp only [str_rfind_skip_eq fuel _ _ hb hf, Ctl.call_ok, Ctl.bind_eq, Ctl.bind_val, parserToModel]
  cases StrFns.rfindSkip p.str needle with
  | none =>
    simp [ParseError_new_eq { p with parse_direction := ParseDirection.FromEnd } ErrorKind.Find hfit,
      Rs.block, parserToModel, dirToModel, kindToModel]
  | some v =>
    simp [Rs.block, Konst.Parser.enableIfStartAdd, Konst.Parser.Parser.setStr, parserOfModel, dirOfModel]

example : Extracted.Parser.rfind_skip 6 ⟨.FromStart, false, 5, [1, 2, 3, 2, 3]⟩ [2, 3]
    = .ok (.ok ⟨.FromEnd, false, 5, [1, 2, 3]⟩) := by
  rw [Parser_rfind_skip_eq 6 _ _ (by decide) (by decide)]; rfl
example : Extracted.Parser.rfind_skip 6 ⟨.FromStart, false, 5, [1, 2, 3, 2, 3]⟩ [4]
    = .ok (.error ⟨5, 10, .FromEnd, .Find, [], ()⟩) := by
  rw [Parser_rfind_skip_eq 6 _ _ (by decide) (by decide)]; rfl

/-! ### `skip`, `skip_back` -/

/-- the strict test passes at the end of the bytes -/
theorem isCharBoundaryBytes_length (bytes : List Nat) : Utf8.isCharBoundaryBytes bytes bytes.length = true := by
  simp [Utf8.isCharBoundaryBytes]

/-- a strict boundary also passes the forgiving test (the one `str_from`/`str_up_to` use) -/
theorem forgiving_of_strict (bytes : List Nat) (i : Nat) (h : Utf8.isCharBoundaryBytes bytes i = true) :
    Utf8.isCharBoundaryForgiving bytes i = true := by
  simp only [Utf8.isCharBoundaryBytes, Utf8.isCharBoundaryForgiving, Bool.or_eq_true, Bool.and_eq_true,
    decide_eq_true_eq, beq_iff_eq] at h ⊢
  rcases h with h | ⟨_, h⟩
  · left; omega
  · right; exact h

/-- the model's upward search stays inside the bytes -/
theorem skipUp_le (bytes : List Nat) (m bc : Nat) (h : bc ≤ bytes.length) :
    Konst.Parser.skipUp bytes m bc ≤ bytes.length := by
  induction m generalizing bc with
  | zero => simpa [Konst.Parser.skipUp] using h
  | succ m ih =>
    rw [Konst.Parser.skipUp]
    by_cases ht : Utf8.isCharBoundaryBytes bytes bc = true
    · simpa [ht] using h
    · have hne : bc ≠ bytes.length := by
        intro e; rw [e, isCharBoundaryBytes_length] at ht; exact ht rfl
      simp only [ht]
      exact ih (bc + 1) (by omega)

/-- the `while` loop of `skip` from any state `bc ≤ len`: `n` = fuel, `m` = the model's fuel -/
theorem skip_loop (n m : Nat) (bytes : List Nat) (bc : Nat) (hb : ∀ b ∈ bytes, b < 256)
    (hl : bytes.length < 2 ^ 64) (hle : bc ≤ bytes.length)
    (hn : bytes.length - bc + 1 ≤ n) (hm : bytes.length - bc + 1 ≤ m) :
    Rs.loop (ε := Extracted.Parser) n (Extracted.Parser.skip.loop1 bytes) bc
      = Ctl.val (Konst.Parser.skipUp bytes m bc) := by
  induction n generalizing bc m with
  | zero => omega
  | succ n ih =>
    obtain ⟨m, rfl⟩ : ∃ m', m = m' + 1 := ⟨m - 1, by omega⟩
    rw [Rs.loop_succ]
    simp only [Extracted.Parser.skip.loop1, is_char_boundary_bytes_eq _ _ hb, Ctl.call_ok, Ctl.bind_eq,
      Ctl.bind_val, Konst.Parser.skipUp]
    by_cases ht : Utf8.isCharBoundaryBytes bytes bc = true
    · simp [ht]
    · have hne : bc ≠ bytes.length := by
        intro e; rw [e, isCharBoundaryBytes_length] at ht; exact ht rfl
      have h1 : bc + 1 < 2 ^ 64 := by omega
      simp only [ht, Rs.uadd, h1, Bool.not_false, ↓reduceIte, Bool.false_eq_true]
      exact ih (bc := bc + 1) (m := m) (by omega) (by omega) (by omega)

/-- `Parser::skip`.  The right-hand side is `.ok` (see `Parser_skip_ok`): the loop stops on a strict char
    boundary `≤ len`, where `str_from` does not panic. -/
theorem Parser_skip_eq (fuel : Nat) (p : Extracted.Parser) (byte_count : Nat)
    (hfit : p.start_offset + p.str.length < 2 ^ 32) (hb : ∀ b ∈ p.str, b < 256)
    (hf : p.str.length - byte_count + 1 ≤ fuel) :
    Extracted.Parser.skip fuel p byte_count
      = resSelf (Konst.Parser.skip (parserToModel p) byte_count) := by
  have hl : p.str.length < 2 ^ 64 := by omega
  unfold Extracted.Parser.skip Konst.Parser.skip
  simp only [parserToModel]
  by_cases hgt : byte_count > p.str.length
  · have h1 : p.str.length < 2 ^ 32 := by omega
    simp only [hgt, decide_true, ↓reduceIte, Ctl.pure_eq, Ctl.bind_eq, Ctl.bind_val, Rs.uadd,
      castUU32_of_lt _ h1, hfit, str_from_eq _ _ hb]
    cases Utf8.strFrom p.str p.str.length <;>
      simp [resOfExcept, Konst.Parser.Parser.setStr, parserOfModel, dirOfModel, Ctl.run]
  · have hle : byte_count ≤ p.str.length := by omega
    have hk := skipUp_le p.str (p.str.length + 1) byte_count hle
    have h1 : Konst.Parser.skipUp p.str (p.str.length + 1) byte_count < 2 ^ 32 := by omega
    have h2 : p.start_offset + Konst.Parser.skipUp p.str (p.str.length + 1) byte_count < 2 ^ 32 := by omega
    simp only [hgt, decide_false, Bool.false_eq_true, ↓reduceIte, Ctl.pure_eq, Ctl.bind_eq, Ctl.bind_val,
      skip_loop fuel (p.str.length + 1) p.str byte_count hb hl hle (by omega) (by omega), Rs.uadd,
      castUU32_of_lt _ h1, h2, str_from_eq _ _ hb]
    cases Utf8.strFrom p.str (Konst.Parser.skipUp p.str (p.str.length + 1) byte_count) <;>
      simp [resOfExcept, Konst.Parser.Parser.setStr, parserOfModel, dirOfModel, Ctl.run]

example : Extracted.Parser.skip 4 ⟨.FromEnd, false, 5, [0x41, 0xE2, 0x82, 0xAC, 0x42]⟩ 2
    = .ok ⟨.FromStart, false, 9, [0x42]⟩ := by
  rw [Parser_skip_eq 4 _ _ (by decide) (by decide) (by decide)]; decide
example : Extracted.Parser.skip 1 ⟨.FromEnd, false, 5, [0x41, 0xE2, 0x82, 0xAC, 0x42]⟩ 9
    = .ok ⟨.FromStart, false, 10, []⟩ := by
  rw [Parser_skip_eq 1 _ _ (by decide) (by decide) (by decide)]; decide

/-- the model's upward search ends on a strict char boundary (given enough model fuel) -/
theorem skipUp_boundary (bytes : List Nat) (m bc : Nat) (h : bc ≤ bytes.length)
    (hm : bytes.length - bc + 1 ≤ m) :
    Utf8.isCharBoundaryBytes bytes (Konst.Parser.skipUp bytes m bc) = true := by
  induction m generalizing bc with
  | zero => omega
  | succ m ih =>
    rw [Konst.Parser.skipUp]
    by_cases ht : Utf8.isCharBoundaryBytes bytes bc = true
    · simp [ht]
    · have hne : bc ≠ bytes.length := by
        intro e; rw [e, isCharBoundaryBytes_length] at ht; exact ht rfl
      simp only [ht]
      exact ih (bc + 1) (by omega) (by omega)

/-- `Parser::skip` never panics (on any bytes `< 256`, valid UTF-8 or not): the model's result is `.ok` -/
theorem skip_model_ok (q : Konst.Parser.Parser) (byteCount : Nat) :
    ∃ q', Konst.Parser.skip q byteCount = .ok q' .unit := by
  unfold Konst.Parser.skip
  have hk : Utf8.isCharBoundaryForgiving q.str
      (if byteCount > q.str.length then q.str.length
        else Konst.Parser.skipUp q.str (q.str.length + 1) byteCount) = true := by
    apply forgiving_of_strict
    by_cases hgt : byteCount > q.str.length
    · simp only [hgt, ↓reduceIte]; exact isCharBoundaryBytes_length _
    · simp only [hgt, ↓reduceIte]; exact skipUp_boundary _ _ _ (by omega) (by omega)
  simp only [Utf8.strFrom, hk, ↓reduceIte]
  exact ⟨_, rfl⟩

theorem Parser_skip_ok (fuel : Nat) (p : Extracted.Parser) (byte_count : Nat)
    (hfit : p.start_offset + p.str.length < 2 ^ 32) (hb : ∀ b ∈ p.str, b < 256)
    (hf : p.str.length - byte_count + 1 ≤ fuel) :
    ∃ q', Konst.Parser.skip (parserToModel p) byte_count = .ok q' .unit ∧
      Extracted.Parser.skip fuel p byte_count = .ok (parserOfModel q') := by
  obtain ⟨q', hq⟩ := skip_model_ok (parserToModel p) byte_count
  exact ⟨q', hq, by rw [Parser_skip_eq fuel p byte_count hfit hb hf, hq]; rfl⟩

/-- the `while` loop of `skip_back` from any state `pos`: it breaks at the model's position, and panics
    (`pos -= 1` at `pos == 0`) exactly when the model's loop returns `none` -/
theorem skip_back_loop (n : Nat) (bytes : List Nat) (pos : Nat) (hb : ∀ b ∈ bytes, b < 256)
    (hn : pos + 1 ≤ n) :
    (∀ k, Konst.Parser.skipDown bytes pos = some k →
        Rs.loop (ε := Extracted.Parser) n (Extracted.Parser.skip_back.loop1 bytes) pos = Ctl.val k) ∧
    (Konst.Parser.skipDown bytes pos = none →
        Rs.loop (ε := Extracted.Parser) n (Extracted.Parser.skip_back.loop1 bytes) pos = Ctl.panic) := by
  induction n generalizing pos with
  | zero => omega
  | succ n ih =>
    rw [Rs.loop_succ]
    simp only [Extracted.Parser.skip_back.loop1, is_char_boundary_bytes_eq _ _ hb, Ctl.call_ok,
      Ctl.bind_eq, Ctl.bind_val]
    by_cases ht : Utf8.isCharBoundaryBytes bytes pos = true
    · cases pos <;> simp [Konst.Parser.skipDown, ht]
    · cases pos with
      | zero => simp [Konst.Parser.skipDown, ht, Rs.usub]
      | succ pos =>
        have ih' := ih (pos := pos) (by omega)
        simpa [Konst.Parser.skipDown, ht, Rs.usub] using ih'

/-- `Parser::skip_back`: the code panics (arithmetic underflow of `pos -= 1` at `pos == 0`) exactly when the
    model does, i.e. when `skipDown` finds no strict char boundary at or below `len - byte_count`
    (`Parser_skip_back_panic_iff`); impossible when `str` starts with a non-continuation byte.
    `start_offset` is untouched: no bound on the offsets is needed. -/
theorem Parser_skip_back_eq (fuel : Nat) (p : Extracted.Parser) (byte_count : Nat)
    (hb : ∀ b ∈ p.str, b < 256) (hf : p.str.length - byte_count + 1 ≤ fuel) :
    Extracted.Parser.skip_back fuel p byte_count
      = resSelf (Konst.Parser.skipBack (parserToModel p) byte_count) := by
  unfold Extracted.Parser.skip_back Konst.Parser.skipBack Rs.uSaturatingSub
  simp only [parserToModel]
  have ⟨h1, h2⟩ := skip_back_loop fuel p.str (p.str.length - byte_count) hb hf
  cases hr : Konst.Parser.skipDown p.str (p.str.length - byte_count) with
  | none => simp [h2 hr, Ctl.run]
  | some k =>
    simp only [h1 k hr, Ctl.bind_eq, Ctl.bind_val, str_up_to_eq _ _ hb]
    cases Utf8.strUpTo p.str k <;>
      simp [resOfExcept, Konst.Parser.Parser.setStr, parserOfModel, dirOfModel, Ctl.run]

example : Extracted.Parser.skip_back 4 ⟨.FromStart, false, 5, [0x41, 0xE2, 0x82, 0xAC, 0x42]⟩ 2
    = .ok ⟨.FromEnd, false, 5, [0x41]⟩ := by
  rw [Parser_skip_back_eq 4 _ _ (by decide) (by decide)]; decide
example : Extracted.Parser.skip_back 2 ⟨.FromStart, false, 5, [0x82, 0xAC, 0x42]⟩ 2 = .panic := by
  rw [Parser_skip_back_eq 2 _ _ (by decide) (by decide)]; decide

/-- a position found by the model's downward search is a strict char boundary -/
theorem skipDown_boundary (bytes : List Nat) (pos k : Nat) (h : Konst.Parser.skipDown bytes pos = some k) :
    Utf8.isCharBoundaryBytes bytes k = true := by
  induction pos with
  | zero =>
    by_cases ht : Utf8.isCharBoundaryBytes bytes 0 = true
    · simp only [Konst.Parser.skipDown, ht, ↓reduceIte, Option.some.injEq] at h; subst h; exact ht
    · simp [Konst.Parser.skipDown, ht] at h
  | succ pos ih =>
    by_cases ht : Utf8.isCharBoundaryBytes bytes (pos + 1) = true
    · simp only [Konst.Parser.skipDown, ht, ↓reduceIte, Option.some.injEq] at h; subst h; exact ht
    · simp only [Konst.Parser.skipDown, ht, Bool.false_eq_true, ↓reduceIte] at h; exact ih h

/-- the exact panic condition of `skip_back` -/
theorem Parser_skip_back_panic_iff (fuel : Nat) (p : Extracted.Parser) (byte_count : Nat)
    (hb : ∀ b ∈ p.str, b < 256) (hf : p.str.length - byte_count + 1 ≤ fuel) :
    Extracted.Parser.skip_back fuel p byte_count = .panic
      ↔ Konst.Parser.skipDown p.str (p.str.length - byte_count) = none := by
  rw [Parser_skip_back_eq fuel p byte_count hb hf]
  unfold Konst.Parser.skipBack
  simp only [parserToModel]
  cases hr : Konst.Parser.skipDown p.str (p.str.length - byte_count) with
  | none => simp
  | some k =>
    have hk := forgiving_of_strict _ _ (skipDown_boundary _ _ _ hr)
    simp [Utf8.strUpTo, hk]

/-! ### the shapes `resSelf`/`resResult` are applied to

  None of the junk cases of `resSelf`/`resResult` (mapped to `ub`) occurs on the right-hand sides above:
  the `Self`-returning models return `.ok _ .unit` (`skip_back`: or `.panic`, `Parser_skip_back_panic_iff`;
  `skip`: `skip_model_ok`), the `Result`-returning ones `.ok _ .unit` or `.err _`, never `.panic`. -/

theorem trim_model_ok (q : Konst.Parser.Parser) : ∃ q', Konst.Parser.trim q = .ok q' .unit := ⟨_, rfl⟩
theorem trimStart_model_ok (q : Konst.Parser.Parser) : ∃ q', Konst.Parser.trimStart q = .ok q' .unit :=
  ⟨_, rfl⟩
theorem trimEnd_model_ok (q : Konst.Parser.Parser) : ∃ q', Konst.Parser.trimEnd q = .ok q' .unit := ⟨_, rfl⟩
theorem trimMatches_model_ok (q : Konst.Parser.Parser) (n : List Nat) :
    ∃ q', Konst.Parser.trimMatches q n = .ok q' .unit := ⟨_, rfl⟩
theorem trimStartMatches_model_ok (q : Konst.Parser.Parser) (n : List Nat) :
    ∃ q', Konst.Parser.trimStartMatches q n = .ok q' .unit := ⟨_, rfl⟩
theorem trimEndMatches_model_ok (q : Konst.Parser.Parser) (n : List Nat) :
    ∃ q', Konst.Parser.trimEndMatches q n = .ok q' .unit := ⟨_, rfl⟩

/-- `Ok(parser)` or `Err(e)` -/
def IsResult (r : Konst.Parser.Res) : Prop := (∃ q', r = .ok q' .unit) ∨ (∃ e, r = .err e)

theorem stripPrefix_model_shape (q : Konst.Parser.Parser) (m : List Nat) :
    IsResult (Konst.Parser.stripPrefix q m) := by
  unfold Konst.Parser.stripPrefix Konst.Parser.tryParsing
  cases h : StrFns.stripPrefix q.str m <;> simp [IsResult, h]

theorem stripSuffix_model_shape (q : Konst.Parser.Parser) (m : List Nat) :
    IsResult (Konst.Parser.stripSuffix q m) := by
  unfold Konst.Parser.stripSuffix Konst.Parser.tryParsing
  cases h : StrFns.stripSuffix q.str m <;> simp [IsResult, h]

theorem findSkip_model_shape (q : Konst.Parser.Parser) (n : List Nat) :
    IsResult (Konst.Parser.findSkip q n) := by
  unfold Konst.Parser.findSkip Konst.Parser.tryParsing
  cases h : StrFns.findSkip q.str n <;> simp [IsResult, h]

theorem rfindSkip_model_shape (q : Konst.Parser.Parser) (n : List Nat) :
    IsResult (Konst.Parser.rfindSkip q n) := by
  unfold Konst.Parser.rfindSkip Konst.Parser.tryParsing
  cases h : StrFns.rfindSkip q.str n <;> simp [IsResult, h]

end Extracted.Equiv
