import KonstVerif.Extracted.Gen.Cmp5
import KonstVerif.Extracted.Equiv.Cmp3
import KonstVerif.Model.Cmp
/-
  Extracted (regenerated from /repo) = Model, for the `NonZero*` comparison functions of group `Cmp5`
  (C16, `konst/src/nonzero/cmp.rs`): `eq_nonzero<int>` / `cmp_nonzero<int>` and
  `eq_option_nonzero<int>` / `cmp_option_nonzero<int>` for the twelve integer types
  `u8 i8 u16 i16 u32 i32 u64 i64 u128 i128 usize isize` (48 functions).

  Embedding.  The translator reads a `NonZeroU8` … `NonZeroIsize` value as its integer value (`Nat`
  for the unsigned, `Int` for the signed types) and `NonZero*::get()` as the identity on it
  (`translator/src/tr.rs` `nonzero_int`) — the same convention as the model (`Model/Cmp.lean`: "a
  NonZero value is its `.get()`").  THE NON-ZERO INVARIANT IS NOT NEEDED BY ANY THEOREM of this file:
  the code only compares the two `.get()` values, so every statement holds for all `Nat` / `Int`
  arguments, a superset of the values of the Rust types (no hypothesis `left ≠ 0`, no range bound).

  So the generated definitions are, character for character, the texts of `Equiv/Cmp2.lean`:
  `cmp_nonzero*` is `cmpScalarFn`, `eq_option_nonzero*` is `eqOptionFn`, `cmp_option_nonzero*` is
  `cmpOptionFn`; `eq_nonzero*` (`left.get() == right.get()`) is the one new text, `eqScalarFn` below.
  One theorem per function, proved once per carrier type and instantiated:

    `<f>_eq`   regenerated definition = model definition (`Model/Cmp.lean`): `eqNonZero`,
               `cmpNonZero`, and `eqOption` over `eqNonZero` / `cmpOption` over `cmpNonZero`
               (`Option` as result type of the payload comparison = "value or panic", hence
               `∃ v, model = some v ∧ extracted = .ok v` as for the `Cmp2`/`Cmp3` siblings), through
               `Int.ofNat` for the unsigned types.
  All theorems hold for all arguments, without hypotheses (no fuel: the functions are loop-free).
  That the model functions are std's `==` / `Ord::cmp` is `Props/C16.lean` (`eqNonZero_iff`,
  `cmpNonZero_eq_std`, `cmpOption_eq_std`).
-/
namespace Extracted.Equiv
open Rs Konst Konst.Cmp

/-! ### the text of `eq_nonzero*`, and every function of a carrier type at once

  `f` ranges over functions equal to the common text; the `*_fn` equations below supply the
  hypothesis for each generated definition.  `eqNonZero` / `cmpNonZero` unfold to `eqPrim` /
  `cmpInt` (definitionally), which is how the `Cmp2` / `Cmp3` lemmas apply. -/

/-- `left.get() == right.get()` over an arbitrary carrier type -/
def eqScalarFn {α : Type} [DecidableEq α] (left right : α) : Res Bool := Ctl.run (ρ := Bool) do
  pure (decide (left = right))

/-- `eq_nonzero*` = the model's `eqNonZero`; `g` embeds the carrier type into the model's `Int` -/
theorem eqScalarFn_eq {α : Type} [DecidableEq α] (g : α → Int) (hinj : ∀ a b, g a = g b ↔ a = b)
    (l r : α) : eqScalarFn l r = .ok (eqNonZero (g l) (g r)) := by
  simp [eqScalarFn, eqNonZero, hinj]

theorem eq_nonzero_nat_eq {f : Nat → Nat → Res Bool} (hf : f = eqScalarFn (α := Nat)) (left right : Nat) :
    f left right = .ok (eqNonZero (Int.ofNat left) (Int.ofNat right)) :=
  hf ▸ eqScalarFn_eq Int.ofNat ofNat_inj left right

theorem eq_nonzero_int_eq {f : Int → Int → Res Bool} (hf : f = eqScalarFn (α := Int)) (left right : Int) :
    f left right = .ok (eqNonZero left right) :=
  hf ▸ eqScalarFn_eq id id_inj left right

theorem cmp_nonzero_nat_eq {f : Nat → Nat → Res Ordering} (hf : f = cmpScalarFn (α := Nat))
    (left right : Nat) : f left right = .ok (cmpNonZero (Int.ofNat left) (Int.ofNat right)) :=
  cmp_nat_eq hf left right

theorem cmp_nonzero_int_eq {f : Int → Int → Res Ordering} (hf : f = cmpScalarFn (α := Int))
    (left right : Int) : f left right = .ok (cmpNonZero left right) :=
  cmp_int_eq hf left right

theorem eq_option_nonzero_nat_eq {f : Option Nat → Option Nat → Res Bool} (hf : f = eqOptionFn (α := Nat))
    (left right : Option Nat) :
    ∃ b, eqOption (fun a b => some (eqNonZero a b)) (left.map Int.ofNat) (right.map Int.ofNat) = some b ∧
      f left right = .ok b :=
  eq_option_nat_eq hf left right

theorem eq_option_nonzero_int_eq {f : Option Int → Option Int → Res Bool} (hf : f = eqOptionFn (α := Int))
    (left right : Option Int) :
    ∃ b, eqOption (fun a b => some (eqNonZero a b)) left right = some b ∧ f left right = .ok b :=
  eq_option_int_eq hf left right

theorem cmp_option_nonzero_nat_eq {f : Option Nat → Option Nat → Res Ordering}
    (hf : f = cmpOptionFn (α := Nat)) (left right : Option Nat) :
    ∃ c, cmpOption (fun a b => some (cmpNonZero a b)) (left.map Int.ofNat) (right.map Int.ofNat) = some c ∧
      f left right = .ok c :=
  cmp_option_nat_eq hf left right

theorem cmp_option_nonzero_int_eq {f : Option Int → Option Int → Res Ordering}
    (hf : f = cmpOptionFn (α := Int)) (left right : Option Int) :
    ∃ c, cmpOption (fun a b => some (cmpNonZero a b)) left right = some c ∧ f left right = .ok c :=
  cmp_option_int_eq hf left right

/-! ### each generated definition is the common text

  `rfl` for the scalar functions; the `match` of every `Option` function is its own auxiliary
  matcher, so those are `rfl` after `cases` on the two arguments (as in `Equiv/Cmp2.lean`). -/

theorem eq_nonzerou8_fn : Extracted.eq_nonzerou8 = eqScalarFn (α := Nat) := rfl
theorem cmp_nonzerou8_fn : Extracted.cmp_nonzerou8 = cmpScalarFn (α := Nat) := rfl
theorem eq_nonzeroi8_fn : Extracted.eq_nonzeroi8 = eqScalarFn (α := Int) := rfl
theorem cmp_nonzeroi8_fn : Extracted.cmp_nonzeroi8 = cmpScalarFn (α := Int) := rfl
theorem eq_nonzerou16_fn : Extracted.eq_nonzerou16 = eqScalarFn (α := Nat) := rfl
theorem cmp_nonzerou16_fn : Extracted.cmp_nonzerou16 = cmpScalarFn (α := Nat) := rfl
theorem eq_nonzeroi16_fn : Extracted.eq_nonzeroi16 = eqScalarFn (α := Int) := rfl
theorem cmp_nonzeroi16_fn : Extracted.cmp_nonzeroi16 = cmpScalarFn (α := Int) := rfl
theorem eq_nonzerou32_fn : Extracted.eq_nonzerou32 = eqScalarFn (α := Nat) := rfl
theorem cmp_nonzerou32_fn : Extracted.cmp_nonzerou32 = cmpScalarFn (α := Nat) := rfl
theorem eq_nonzeroi32_fn : Extracted.eq_nonzeroi32 = eqScalarFn (α := Int) := rfl
theorem cmp_nonzeroi32_fn : Extracted.cmp_nonzeroi32 = cmpScalarFn (α := Int) := rfl
theorem eq_nonzerou64_fn : Extracted.eq_nonzerou64 = eqScalarFn (α := Nat) := rfl
theorem cmp_nonzerou64_fn : Extracted.cmp_nonzerou64 = cmpScalarFn (α := Nat) := rfl
theorem eq_nonzeroi64_fn : Extracted.eq_nonzeroi64 = eqScalarFn (α := Int) := rfl
theorem cmp_nonzeroi64_fn : Extracted.cmp_nonzeroi64 = cmpScalarFn (α := Int) := rfl
theorem eq_nonzerou128_fn : Extracted.eq_nonzerou128 = eqScalarFn (α := Nat) := rfl
theorem cmp_nonzerou128_fn : Extracted.cmp_nonzerou128 = cmpScalarFn (α := Nat) := rfl
theorem eq_nonzeroi128_fn : Extracted.eq_nonzeroi128 = eqScalarFn (α := Int) := rfl
theorem cmp_nonzeroi128_fn : Extracted.cmp_nonzeroi128 = cmpScalarFn (α := Int) := rfl
theorem eq_nonzerousize_fn : Extracted.eq_nonzerousize = eqScalarFn (α := Nat) := rfl
theorem cmp_nonzerousize_fn : Extracted.cmp_nonzerousize = cmpScalarFn (α := Nat) := rfl
theorem eq_nonzeroisize_fn : Extracted.eq_nonzeroisize = eqScalarFn (α := Int) := rfl
theorem cmp_nonzeroisize_fn : Extracted.cmp_nonzeroisize = cmpScalarFn (α := Int) := rfl
theorem eq_option_nonzerou8_fn : Extracted.eq_option_nonzerou8 = eqOptionFn (α := Nat) := by
  funext l r; cases l <;> cases r <;> rfl
theorem cmp_option_nonzerou8_fn : Extracted.cmp_option_nonzerou8 = cmpOptionFn (α := Nat) := by
  funext l r; cases l <;> cases r <;> rfl
theorem eq_option_nonzeroi8_fn : Extracted.eq_option_nonzeroi8 = eqOptionFn (α := Int) := by
  funext l r; cases l <;> cases r <;> rfl
theorem cmp_option_nonzeroi8_fn : Extracted.cmp_option_nonzeroi8 = cmpOptionFn (α := Int) := by
  funext l r; cases l <;> cases r <;> rfl
theorem eq_option_nonzerou16_fn : Extracted.eq_option_nonzerou16 = eqOptionFn (α := Nat) := by
  funext l r; cases l <;> cases r <;> rfl
theorem cmp_option_nonzerou16_fn : Extracted.cmp_option_nonzerou16 = cmpOptionFn (α := Nat) := by
  funext l r; cases l <;> cases r <;> rfl
theorem eq_option_nonzeroi16_fn : Extracted.eq_option_nonzeroi16 = eqOptionFn (α := Int) := by
  funext l r; cases l <;> cases r <;> rfl
theorem cmp_option_nonzeroi16_fn : Extracted.cmp_option_nonzeroi16 = cmpOptionFn (α := Int) := by
  funext l r; cases l <;> cases r <;> rfl
theorem eq_option_nonzerou32_fn : Extracted.eq_option_nonzerou32 = eqOptionFn (α := Nat) := by
  funext l r; cases l <;> cases r <;> rfl
theorem cmp_option_nonzerou32_fn : Extracted.cmp_option_nonzerou32 = cmpOptionFn (α := Nat) := by
  funext l r; cases l <;> cases r <;> rfl
theorem eq_option_nonzeroi32_fn : Extracted.eq_option_nonzeroi32 = eqOptionFn (α := Int) := by
  funext l r; cases l <;> cases r <;> rfl
theorem cmp_option_nonzeroi32_fn : Extracted.cmp_option_nonzeroi32 = cmpOptionFn (α := Int) := by
  funext l r; cases l <;> cases r <;> rfl
theorem eq_option_nonzerou64_fn : Extracted.eq_option_nonzerou64 = eqOptionFn (α := Nat) := by
  funext l r; cases l <;> cases r <;> rfl
theorem cmp_option_nonzerou64_fn : Extracted.cmp_option_nonzerou64 = cmpOptionFn (α := Nat) := by
  funext l r; cases l <;> cases r <;> rfl
theorem eq_option_nonzeroi64_fn : Extracted.eq_option_nonzeroi64 = eqOptionFn (α := Int) := by
  funext l r; cases l <;> cases r <;> rfl
theorem cmp_option_nonzeroi64_fn : Extracted.cmp_option_nonzeroi64 = cmpOptionFn (α := Int) := by
  funext l r; cases l <;> cases r <;> rfl
theorem eq_option_nonzerou128_fn : Extracted.eq_option_nonzerou128 = eqOptionFn (α := Nat) := by
  funext l r; cases l <;> cases r <;> rfl
theorem cmp_option_nonzerou128_fn : Extracted.cmp_option_nonzerou128 = cmpOptionFn (α := Nat) := by
  funext l r; cases l <;> cases r <;> rfl
theorem eq_option_nonzeroi128_fn : Extracted.eq_option_nonzeroi128 = eqOptionFn (α := Int) := by
  funext l r; cases l <;> cases r <;> rfl
theorem cmp_option_nonzeroi128_fn : Extracted.cmp_option_nonzeroi128 = cmpOptionFn (α := Int) := by
  funext l r; cases l <;> cases r <;> rfl
theorem eq_option_nonzerousize_fn : Extracted.eq_option_nonzerousize = eqOptionFn (α := Nat) := by
  funext l r; cases l <;> cases r <;> rfl
theorem cmp_option_nonzerousize_fn : Extracted.cmp_option_nonzerousize = cmpOptionFn (α := Nat) := by
  funext l r; cases l <;> cases r <;> rfl
theorem eq_option_nonzeroisize_fn : Extracted.eq_option_nonzeroisize = eqOptionFn (α := Int) := by
  funext l r; cases l <;> cases r <;> rfl
theorem cmp_option_nonzeroisize_fn : Extracted.cmp_option_nonzeroisize = cmpOptionFn (α := Int) := by
  funext l r; cases l <;> cases r <;> rfl

/-! ### the equivalence theorems: `NonZero*` -/

/-! #### `NonZeroU8` -/

theorem eq_nonzerou8_eq (left right : Nat) :
    Extracted.eq_nonzerou8 left right = .ok (eqNonZero (Int.ofNat left) (Int.ofNat right)) :=
  eq_nonzero_nat_eq eq_nonzerou8_fn left right

theorem cmp_nonzerou8_eq (left right : Nat) :
    Extracted.cmp_nonzerou8 left right = .ok (cmpNonZero (Int.ofNat left) (Int.ofNat right)) :=
  cmp_nonzero_nat_eq cmp_nonzerou8_fn left right

example : Extracted.eq_nonzerou8 255 255 = .ok true := by decide
example : Extracted.eq_nonzerou8 1 255 = .ok (eqNonZero 1 255) := eq_nonzerou8_eq 1 255
example : Extracted.cmp_nonzerou8 255 1 = .ok .gt := by decide
example : Extracted.cmp_nonzerou8 3 255 = .ok (cmpNonZero 3 255) := cmp_nonzerou8_eq 3 255

/-! #### `NonZeroI8` -/

theorem eq_nonzeroi8_eq (left right : Int) :
    Extracted.eq_nonzeroi8 left right = .ok (eqNonZero left right) :=
  eq_nonzero_int_eq eq_nonzeroi8_fn left right

theorem cmp_nonzeroi8_eq (left right : Int) :
    Extracted.cmp_nonzeroi8 left right = .ok (cmpNonZero left right) :=
  cmp_nonzero_int_eq cmp_nonzeroi8_fn left right

example : Extracted.eq_nonzeroi8 (-128) (-128) = .ok true := by decide
example : Extracted.eq_nonzeroi8 (-1) 1 = .ok (eqNonZero (-1) 1) := eq_nonzeroi8_eq (-1) 1
example : Extracted.cmp_nonzeroi8 (-128) 127 = .ok .lt := by decide
example : Extracted.cmp_nonzeroi8 (-1) (-2) = .ok (cmpNonZero (-1) (-2)) := cmp_nonzeroi8_eq (-1) (-2)

/-! #### `NonZeroU16` -/

theorem eq_nonzerou16_eq (left right : Nat) :
    Extracted.eq_nonzerou16 left right = .ok (eqNonZero (Int.ofNat left) (Int.ofNat right)) :=
  eq_nonzero_nat_eq eq_nonzerou16_fn left right

theorem cmp_nonzerou16_eq (left right : Nat) :
    Extracted.cmp_nonzerou16 left right = .ok (cmpNonZero (Int.ofNat left) (Int.ofNat right)) :=
  cmp_nonzero_nat_eq cmp_nonzerou16_fn left right

example : Extracted.eq_nonzerou16 65535 65535 = .ok true := by decide
example : Extracted.eq_nonzerou16 1 65535 = .ok (eqNonZero 1 65535) := eq_nonzerou16_eq 1 65535
example : Extracted.cmp_nonzerou16 65535 1 = .ok .gt := by decide
example : Extracted.cmp_nonzerou16 3 65535 = .ok (cmpNonZero 3 65535) := cmp_nonzerou16_eq 3 65535

/-! #### `NonZeroI16` -/

theorem eq_nonzeroi16_eq (left right : Int) :
    Extracted.eq_nonzeroi16 left right = .ok (eqNonZero left right) :=
  eq_nonzero_int_eq eq_nonzeroi16_fn left right

theorem cmp_nonzeroi16_eq (left right : Int) :
    Extracted.cmp_nonzeroi16 left right = .ok (cmpNonZero left right) :=
  cmp_nonzero_int_eq cmp_nonzeroi16_fn left right

example : Extracted.eq_nonzeroi16 (-32768) (-32768) = .ok true := by decide
example : Extracted.eq_nonzeroi16 (-1) 1 = .ok (eqNonZero (-1) 1) := eq_nonzeroi16_eq (-1) 1
example : Extracted.cmp_nonzeroi16 (-32768) 32767 = .ok .lt := by decide
example : Extracted.cmp_nonzeroi16 (-1) (-2) = .ok (cmpNonZero (-1) (-2)) := cmp_nonzeroi16_eq (-1) (-2)

/-! #### `NonZeroU32` -/

theorem eq_nonzerou32_eq (left right : Nat) :
    Extracted.eq_nonzerou32 left right = .ok (eqNonZero (Int.ofNat left) (Int.ofNat right)) :=
  eq_nonzero_nat_eq eq_nonzerou32_fn left right

theorem cmp_nonzerou32_eq (left right : Nat) :
    Extracted.cmp_nonzerou32 left right = .ok (cmpNonZero (Int.ofNat left) (Int.ofNat right)) :=
  cmp_nonzero_nat_eq cmp_nonzerou32_fn left right

example : Extracted.eq_nonzerou32 4294967295 4294967295 = .ok true := by decide
example : Extracted.eq_nonzerou32 1 4294967295 = .ok (eqNonZero 1 4294967295) := eq_nonzerou32_eq 1 4294967295
example : Extracted.cmp_nonzerou32 4294967295 1 = .ok .gt := by decide
example : Extracted.cmp_nonzerou32 3 4294967295 = .ok (cmpNonZero 3 4294967295) := cmp_nonzerou32_eq 3 4294967295

/-! #### `NonZeroI32` -/

theorem eq_nonzeroi32_eq (left right : Int) :
    Extracted.eq_nonzeroi32 left right = .ok (eqNonZero left right) :=
  eq_nonzero_int_eq eq_nonzeroi32_fn left right

theorem cmp_nonzeroi32_eq (left right : Int) :
    Extracted.cmp_nonzeroi32 left right = .ok (cmpNonZero left right) :=
  cmp_nonzero_int_eq cmp_nonzeroi32_fn left right

example : Extracted.eq_nonzeroi32 (-2147483648) (-2147483648) = .ok true := by decide
example : Extracted.eq_nonzeroi32 (-1) 1 = .ok (eqNonZero (-1) 1) := eq_nonzeroi32_eq (-1) 1
example : Extracted.cmp_nonzeroi32 (-2147483648) 2147483647 = .ok .lt := by decide
example : Extracted.cmp_nonzeroi32 (-1) (-2) = .ok (cmpNonZero (-1) (-2)) := cmp_nonzeroi32_eq (-1) (-2)

/-! #### `NonZeroU64` -/

theorem eq_nonzerou64_eq (left right : Nat) :
    Extracted.eq_nonzerou64 left right = .ok (eqNonZero (Int.ofNat left) (Int.ofNat right)) :=
  eq_nonzero_nat_eq eq_nonzerou64_fn left right

theorem cmp_nonzerou64_eq (left right : Nat) :
    Extracted.cmp_nonzerou64 left right = .ok (cmpNonZero (Int.ofNat left) (Int.ofNat right)) :=
  cmp_nonzero_nat_eq cmp_nonzerou64_fn left right

example : Extracted.eq_nonzerou64 18446744073709551615 18446744073709551615 = .ok true := by decide
example : Extracted.eq_nonzerou64 1 18446744073709551615 = .ok (eqNonZero 1 18446744073709551615) := eq_nonzerou64_eq 1 18446744073709551615
example : Extracted.cmp_nonzerou64 18446744073709551615 1 = .ok .gt := by decide
example : Extracted.cmp_nonzerou64 3 18446744073709551615 = .ok (cmpNonZero 3 18446744073709551615) := cmp_nonzerou64_eq 3 18446744073709551615

/-! #### `NonZeroI64` -/

theorem eq_nonzeroi64_eq (left right : Int) :
    Extracted.eq_nonzeroi64 left right = .ok (eqNonZero left right) :=
  eq_nonzero_int_eq eq_nonzeroi64_fn left right

theorem cmp_nonzeroi64_eq (left right : Int) :
    Extracted.cmp_nonzeroi64 left right = .ok (cmpNonZero left right) :=
  cmp_nonzero_int_eq cmp_nonzeroi64_fn left right

example : Extracted.eq_nonzeroi64 (-9223372036854775808) (-9223372036854775808) = .ok true := by decide
example : Extracted.eq_nonzeroi64 (-1) 1 = .ok (eqNonZero (-1) 1) := eq_nonzeroi64_eq (-1) 1
example : Extracted.cmp_nonzeroi64 (-9223372036854775808) 9223372036854775807 = .ok .lt := by decide
example : Extracted.cmp_nonzeroi64 (-1) (-2) = .ok (cmpNonZero (-1) (-2)) := cmp_nonzeroi64_eq (-1) (-2)

/-! #### `NonZeroU128` -/

theorem eq_nonzerou128_eq (left right : Nat) :
    Extracted.eq_nonzerou128 left right = .ok (eqNonZero (Int.ofNat left) (Int.ofNat right)) :=
  eq_nonzero_nat_eq eq_nonzerou128_fn left right

theorem cmp_nonzerou128_eq (left right : Nat) :
    Extracted.cmp_nonzerou128 left right = .ok (cmpNonZero (Int.ofNat left) (Int.ofNat right)) :=
  cmp_nonzero_nat_eq cmp_nonzerou128_fn left right

example : Extracted.eq_nonzerou128 340282366920938463463374607431768211455 340282366920938463463374607431768211455 = .ok true := by decide
example : Extracted.eq_nonzerou128 1 340282366920938463463374607431768211455 = .ok (eqNonZero 1 340282366920938463463374607431768211455) := eq_nonzerou128_eq 1 340282366920938463463374607431768211455
example : Extracted.cmp_nonzerou128 340282366920938463463374607431768211455 1 = .ok .gt := by decide
example : Extracted.cmp_nonzerou128 3 340282366920938463463374607431768211455 = .ok (cmpNonZero 3 340282366920938463463374607431768211455) := cmp_nonzerou128_eq 3 340282366920938463463374607431768211455

/-! #### `NonZeroI128` -/

theorem eq_nonzeroi128_eq (left right : Int) :
    Extracted.eq_nonzeroi128 left right = .ok (eqNonZero left right) :=
  eq_nonzero_int_eq eq_nonzeroi128_fn left right

theorem cmp_nonzeroi128_eq (left right : Int) :
    Extracted.cmp_nonzeroi128 left right = .ok (cmpNonZero left right) :=
  cmp_nonzero_int_eq cmp_nonzeroi128_fn left right

example : Extracted.eq_nonzeroi128 (-170141183460469231731687303715884105728) (-170141183460469231731687303715884105728) = .ok true := by decide
example : Extracted.eq_nonzeroi128 (-1) 1 = .ok (eqNonZero (-1) 1) := eq_nonzeroi128_eq (-1) 1
example : Extracted.cmp_nonzeroi128 (-170141183460469231731687303715884105728) 170141183460469231731687303715884105727 = .ok .lt := by decide
example : Extracted.cmp_nonzeroi128 (-1) (-2) = .ok (cmpNonZero (-1) (-2)) := cmp_nonzeroi128_eq (-1) (-2)

/-! #### `NonZeroUsize` -/

theorem eq_nonzerousize_eq (left right : Nat) :
    Extracted.eq_nonzerousize left right = .ok (eqNonZero (Int.ofNat left) (Int.ofNat right)) :=
  eq_nonzero_nat_eq eq_nonzerousize_fn left right

theorem cmp_nonzerousize_eq (left right : Nat) :
    Extracted.cmp_nonzerousize left right = .ok (cmpNonZero (Int.ofNat left) (Int.ofNat right)) :=
  cmp_nonzero_nat_eq cmp_nonzerousize_fn left right

example : Extracted.eq_nonzerousize 18446744073709551615 18446744073709551615 = .ok true := by decide
example : Extracted.eq_nonzerousize 1 18446744073709551615 = .ok (eqNonZero 1 18446744073709551615) := eq_nonzerousize_eq 1 18446744073709551615
example : Extracted.cmp_nonzerousize 18446744073709551615 1 = .ok .gt := by decide
example : Extracted.cmp_nonzerousize 3 18446744073709551615 = .ok (cmpNonZero 3 18446744073709551615) := cmp_nonzerousize_eq 3 18446744073709551615

/-! #### `NonZeroIsize` -/

theorem eq_nonzeroisize_eq (left right : Int) :
    Extracted.eq_nonzeroisize left right = .ok (eqNonZero left right) :=
  eq_nonzero_int_eq eq_nonzeroisize_fn left right

theorem cmp_nonzeroisize_eq (left right : Int) :
    Extracted.cmp_nonzeroisize left right = .ok (cmpNonZero left right) :=
  cmp_nonzero_int_eq cmp_nonzeroisize_fn left right

example : Extracted.eq_nonzeroisize (-9223372036854775808) (-9223372036854775808) = .ok true := by decide
example : Extracted.eq_nonzeroisize (-1) 1 = .ok (eqNonZero (-1) 1) := eq_nonzeroisize_eq (-1) 1
example : Extracted.cmp_nonzeroisize (-9223372036854775808) 9223372036854775807 = .ok .lt := by decide
example : Extracted.cmp_nonzeroisize (-1) (-2) = .ok (cmpNonZero (-1) (-2)) := cmp_nonzeroisize_eq (-1) (-2)

/-! ### the equivalence theorems: `Option` of a `NonZero*` -/

/-! #### `Option<NonZeroU8>` -/

theorem eq_option_nonzerou8_eq (left right : Option Nat) :
    ∃ b, eqOption (fun a b => some (eqNonZero a b)) (left.map Int.ofNat) (right.map Int.ofNat) = some b ∧
      Extracted.eq_option_nonzerou8 left right = .ok b :=
  eq_option_nonzero_nat_eq eq_option_nonzerou8_fn left right

theorem cmp_option_nonzerou8_eq (left right : Option Nat) :
    ∃ c, cmpOption (fun a b => some (cmpNonZero a b)) (left.map Int.ofNat) (right.map Int.ofNat) = some c ∧
      Extracted.cmp_option_nonzerou8 left right = .ok c :=
  cmp_option_nonzero_nat_eq cmp_option_nonzerou8_fn left right

example : Extracted.eq_option_nonzerou8 (some 255) (some 255) = .ok true := by decide
example : Extracted.eq_option_nonzerou8 (some 3) none = .ok false := by decide
example : Extracted.cmp_option_nonzerou8 none (some 1) = .ok .lt := by decide
example : Extracted.cmp_option_nonzerou8 (some 9) (some 255) = .ok .lt := by decide
example : ∃ c, cmpOption (fun a b => some (cmpNonZero a b)) (some 9) none = some c ∧
    Extracted.cmp_option_nonzerou8 (some 9) none = .ok c := cmp_option_nonzerou8_eq (some 9) none

/-! #### `Option<NonZeroI8>` -/

theorem eq_option_nonzeroi8_eq (left right : Option Int) :
    ∃ b, eqOption (fun a b => some (eqNonZero a b)) left right = some b ∧
      Extracted.eq_option_nonzeroi8 left right = .ok b :=
  eq_option_nonzero_int_eq eq_option_nonzeroi8_fn left right

theorem cmp_option_nonzeroi8_eq (left right : Option Int) :
    ∃ c, cmpOption (fun a b => some (cmpNonZero a b)) left right = some c ∧
      Extracted.cmp_option_nonzeroi8 left right = .ok c :=
  cmp_option_nonzero_int_eq cmp_option_nonzeroi8_fn left right

example : Extracted.eq_option_nonzeroi8 (some (-1)) (some 1) = .ok false := by decide
example : Extracted.eq_option_nonzeroi8 none none = .ok true := by decide
example : Extracted.cmp_option_nonzeroi8 (some (-128)) (some 127) = .ok .lt := by decide
example : Extracted.cmp_option_nonzeroi8 (some (-128)) none = .ok .gt := by decide
example : ∃ c, cmpOption (fun a b => some (cmpNonZero a b)) (some (-3)) (some (-3)) = some c ∧
    Extracted.cmp_option_nonzeroi8 (some (-3)) (some (-3)) = .ok c :=
  cmp_option_nonzeroi8_eq (some (-3)) (some (-3))

/-! #### `Option<NonZeroU16>` -/

theorem eq_option_nonzerou16_eq (left right : Option Nat) :
    ∃ b, eqOption (fun a b => some (eqNonZero a b)) (left.map Int.ofNat) (right.map Int.ofNat) = some b ∧
      Extracted.eq_option_nonzerou16 left right = .ok b :=
  eq_option_nonzero_nat_eq eq_option_nonzerou16_fn left right

theorem cmp_option_nonzerou16_eq (left right : Option Nat) :
    ∃ c, cmpOption (fun a b => some (cmpNonZero a b)) (left.map Int.ofNat) (right.map Int.ofNat) = some c ∧
      Extracted.cmp_option_nonzerou16 left right = .ok c :=
  cmp_option_nonzero_nat_eq cmp_option_nonzerou16_fn left right

example : Extracted.eq_option_nonzerou16 (some 65535) (some 65535) = .ok true := by decide
example : Extracted.eq_option_nonzerou16 (some 3) none = .ok false := by decide
example : Extracted.cmp_option_nonzerou16 none (some 1) = .ok .lt := by decide
example : Extracted.cmp_option_nonzerou16 (some 9) (some 65535) = .ok .lt := by decide
example : ∃ c, cmpOption (fun a b => some (cmpNonZero a b)) (some 9) none = some c ∧
    Extracted.cmp_option_nonzerou16 (some 9) none = .ok c := cmp_option_nonzerou16_eq (some 9) none

/-! #### `Option<NonZeroI16>` -/

theorem eq_option_nonzeroi16_eq (left right : Option Int) :
    ∃ b, eqOption (fun a b => some (eqNonZero a b)) left right = some b ∧
      Extracted.eq_option_nonzeroi16 left right = .ok b :=
  eq_option_nonzero_int_eq eq_option_nonzeroi16_fn left right

theorem cmp_option_nonzeroi16_eq (left right : Option Int) :
    ∃ c, cmpOption (fun a b => some (cmpNonZero a b)) left right = some c ∧
      Extracted.cmp_option_nonzeroi16 left right = .ok c :=
  cmp_option_nonzero_int_eq cmp_option_nonzeroi16_fn left right

example : Extracted.eq_option_nonzeroi16 (some (-1)) (some 1) = .ok false := by decide
example : Extracted.eq_option_nonzeroi16 none none = .ok true := by decide
example : Extracted.cmp_option_nonzeroi16 (some (-32768)) (some 32767) = .ok .lt := by decide
example : Extracted.cmp_option_nonzeroi16 (some (-32768)) none = .ok .gt := by decide
example : ∃ c, cmpOption (fun a b => some (cmpNonZero a b)) (some (-3)) (some (-3)) = some c ∧
    Extracted.cmp_option_nonzeroi16 (some (-3)) (some (-3)) = .ok c :=
  cmp_option_nonzeroi16_eq (some (-3)) (some (-3))

/-! #### `Option<NonZeroU32>` -/

theorem eq_option_nonzerou32_eq (left right : Option Nat) :
    ∃ b, eqOption (fun a b => some (eqNonZero a b)) (left.map Int.ofNat) (right.map Int.ofNat) = some b ∧
      Extracted.eq_option_nonzerou32 left right = .ok b :=
  eq_option_nonzero_nat_eq eq_option_nonzerou32_fn left right

theorem cmp_option_nonzerou32_eq (left right : Option Nat) :
    ∃ c, cmpOption (fun a b => some (cmpNonZero a b)) (left.map Int.ofNat) (right.map Int.ofNat) = some c ∧
      Extracted.cmp_option_nonzerou32 left right = .ok c :=
  cmp_option_nonzero_nat_eq cmp_option_nonzerou32_fn left right

example : Extracted.eq_option_nonzerou32 (some 4294967295) (some 4294967295) = .ok true := by decide
example : Extracted.eq_option_nonzerou32 (some 3) none = .ok false := by decide
example : Extracted.cmp_option_nonzerou32 none (some 1) = .ok .lt := by decide
example : Extracted.cmp_option_nonzerou32 (some 9) (some 4294967295) = .ok .lt := by decide
example : ∃ c, cmpOption (fun a b => some (cmpNonZero a b)) (some 9) none = some c ∧
    Extracted.cmp_option_nonzerou32 (some 9) none = .ok c := cmp_option_nonzerou32_eq (some 9) none

/-! #### `Option<NonZeroI32>` -/

theorem eq_option_nonzeroi32_eq (left right : Option Int) :
    ∃ b, eqOption (fun a b => some (eqNonZero a b)) left right = some b ∧
      Extracted.eq_option_nonzeroi32 left right = .ok b :=
  eq_option_nonzero_int_eq eq_option_nonzeroi32_fn left right

theorem cmp_option_nonzeroi32_eq (left right : Option Int) :
    ∃ c, cmpOption (fun a b => some (cmpNonZero a b)) left right = some c ∧
      Extracted.cmp_option_nonzeroi32 left right = .ok c :=
  cmp_option_nonzero_int_eq cmp_option_nonzeroi32_fn left right

example : Extracted.eq_option_nonzeroi32 (some (-1)) (some 1) = .ok false := by decide
example : Extracted.eq_option_nonzeroi32 none none = .ok true := by decide
example : Extracted.cmp_option_nonzeroi32 (some (-2147483648)) (some 2147483647) = .ok .lt := by decide
example : Extracted.cmp_option_nonzeroi32 (some (-2147483648)) none = .ok .gt := by decide
example : ∃ c, cmpOption (fun a b => some (cmpNonZero a b)) (some (-3)) (some (-3)) = some c ∧
    Extracted.cmp_option_nonzeroi32 (some (-3)) (some (-3)) = .ok c :=
  cmp_option_nonzeroi32_eq (some (-3)) (some (-3))

/-! #### `Option<NonZeroU64>` -/

theorem eq_option_nonzerou64_eq (left right : Option Nat) :
    ∃ b, eqOption (fun a b => some (eqNonZero a b)) (left.map Int.ofNat) (right.map Int.ofNat) = some b ∧
      Extracted.eq_option_nonzerou64 left right = .ok b :=
  eq_option_nonzero_nat_eq eq_option_nonzerou64_fn left right

theorem cmp_option_nonzerou64_eq (left right : Option Nat) :
    ∃ c, cmpOption (fun a b => some (cmpNonZero a b)) (left.map Int.ofNat) (right.map Int.ofNat) = some c ∧
      Extracted.cmp_option_nonzerou64 left right = .ok c :=
  cmp_option_nonzero_nat_eq cmp_option_nonzerou64_fn left right

example : Extracted.eq_option_nonzerou64 (some 18446744073709551615) (some 18446744073709551615) = .ok true := by decide
example : Extracted.eq_option_nonzerou64 (some 3) none = .ok false := by decide
example : Extracted.cmp_option_nonzerou64 none (some 1) = .ok .lt := by decide
example : Extracted.cmp_option_nonzerou64 (some 9) (some 18446744073709551615) = .ok .lt := by decide
example : ∃ c, cmpOption (fun a b => some (cmpNonZero a b)) (some 9) none = some c ∧
    Extracted.cmp_option_nonzerou64 (some 9) none = .ok c := cmp_option_nonzerou64_eq (some 9) none

/-! #### `Option<NonZeroI64>` -/

theorem eq_option_nonzeroi64_eq (left right : Option Int) :
    ∃ b, eqOption (fun a b => some (eqNonZero a b)) left right = some b ∧
      Extracted.eq_option_nonzeroi64 left right = .ok b :=
  eq_option_nonzero_int_eq eq_option_nonzeroi64_fn left right

theorem cmp_option_nonzeroi64_eq (left right : Option Int) :
    ∃ c, cmpOption (fun a b => some (cmpNonZero a b)) left right = some c ∧
      Extracted.cmp_option_nonzeroi64 left right = .ok c :=
  cmp_option_nonzero_int_eq cmp_option_nonzeroi64_fn left right

example : Extracted.eq_option_nonzeroi64 (some (-1)) (some 1) = .ok false := by decide
example : Extracted.eq_option_nonzeroi64 none none = .ok true := by decide
example : Extracted.cmp_option_nonzeroi64 (some (-9223372036854775808)) (some 9223372036854775807) = .ok .lt := by decide
example : Extracted.cmp_option_nonzeroi64 (some (-9223372036854775808)) none = .ok .gt := by decide
example : ∃ c, cmpOption (fun a b => some (cmpNonZero a b)) (some (-3)) (some (-3)) = some c ∧
    Extracted.cmp_option_nonzeroi64 (some (-3)) (some (-3)) = .ok c :=
  cmp_option_nonzeroi64_eq (some (-3)) (some (-3))

/-! #### `Option<NonZeroU128>` -/

theorem eq_option_nonzerou128_eq (left right : Option Nat) :
    ∃ b, eqOption (fun a b => some (eqNonZero a b)) (left.map Int.ofNat) (right.map Int.ofNat) = some b ∧
      Extracted.eq_option_nonzerou128 left right = .ok b :=
  eq_option_nonzero_nat_eq eq_option_nonzerou128_fn left right

theorem cmp_option_nonzerou128_eq (left right : Option Nat) :
    ∃ c, cmpOption (fun a b => some (cmpNonZero a b)) (left.map Int.ofNat) (right.map Int.ofNat) = some c ∧
      Extracted.cmp_option_nonzerou128 left right = .ok c :=
  cmp_option_nonzero_nat_eq cmp_option_nonzerou128_fn left right

example : Extracted.eq_option_nonzerou128 (some 340282366920938463463374607431768211455) (some 340282366920938463463374607431768211455) = .ok true := by decide
example : Extracted.eq_option_nonzerou128 (some 3) none = .ok false := by decide
example : Extracted.cmp_option_nonzerou128 none (some 1) = .ok .lt := by decide
example : Extracted.cmp_option_nonzerou128 (some 9) (some 340282366920938463463374607431768211455) = .ok .lt := by decide
example : ∃ c, cmpOption (fun a b => some (cmpNonZero a b)) (some 9) none = some c ∧
    Extracted.cmp_option_nonzerou128 (some 9) none = .ok c := cmp_option_nonzerou128_eq (some 9) none

/-! #### `Option<NonZeroI128>` -/

theorem eq_option_nonzeroi128_eq (left right : Option Int) :
    ∃ b, eqOption (fun a b => some (eqNonZero a b)) left right = some b ∧
      Extracted.eq_option_nonzeroi128 left right = .ok b :=
  eq_option_nonzero_int_eq eq_option_nonzeroi128_fn left right

theorem cmp_option_nonzeroi128_eq (left right : Option Int) :
    ∃ c, cmpOption (fun a b => some (cmpNonZero a b)) left right = some c ∧
      Extracted.cmp_option_nonzeroi128 left right = .ok c :=
  cmp_option_nonzero_int_eq cmp_option_nonzeroi128_fn left right

example : Extracted.eq_option_nonzeroi128 (some (-1)) (some 1) = .ok false := by decide
example : Extracted.eq_option_nonzeroi128 none none = .ok true := by decide
example : Extracted.cmp_option_nonzeroi128 (some (-170141183460469231731687303715884105728)) (some 170141183460469231731687303715884105727) = .ok .lt := by decide
example : Extracted.cmp_option_nonzeroi128 (some (-170141183460469231731687303715884105728)) none = .ok .gt := by decide
example : ∃ c, cmpOption (fun a b => some (cmpNonZero a b)) (some (-3)) (some (-3)) = some c ∧
    Extracted.cmp_option_nonzeroi128 (some (-3)) (some (-3)) = .ok c :=
  cmp_option_nonzeroi128_eq (some (-3)) (some (-3))

/-! #### `Option<NonZeroUsize>` -/

theorem eq_option_nonzerousize_eq (left right : Option Nat) :
    ∃ b, eqOption (fun a b => some (eqNonZero a b)) (left.map Int.ofNat) (right.map Int.ofNat) = some b ∧
      Extracted.eq_option_nonzerousize left right = .ok b :=
  eq_option_nonzero_nat_eq eq_option_nonzerousize_fn left right

theorem cmp_option_nonzerousize_eq (left right : Option Nat) :
    ∃ c, cmpOption (fun a b => some (cmpNonZero a b)) (left.map Int.ofNat) (right.map Int.ofNat) = some c ∧
      Extracted.cmp_option_nonzerousize left right = .ok c :=
  cmp_option_nonzero_nat_eq cmp_option_nonzerousize_fn left right

example : Extracted.eq_option_nonzerousize (some 18446744073709551615) (some 18446744073709551615) = .ok true := by decide
example : Extracted.eq_option_nonzerousize (some 3) none = .ok false := by decide
example : Extracted.cmp_option_nonzerousize none (some 1) = .ok .lt := by decide
example : Extracted.cmp_option_nonzerousize (some 9) (some 18446744073709551615) = .ok .lt := by decide
example : ∃ c, cmpOption (fun a b => some (cmpNonZero a b)) (some 9) none = some c ∧
    Extracted.cmp_option_nonzerousize (some 9) none = .ok c := cmp_option_nonzerousize_eq (some 9) none

/-! #### `Option<NonZeroIsize>` -/

theorem eq_option_nonzeroisize_eq (left right : Option Int) :
    ∃ b, eqOption (fun a b => some (eqNonZero a b)) left right = some b ∧
      Extracted.eq_option_nonzeroisize left right = .ok b :=
  eq_option_nonzero_int_eq eq_option_nonzeroisize_fn left right

theorem cmp_option_nonzeroisize_eq (left right : Option Int) :
    ∃ c, cmpOption (fun a b => some (cmpNonZero a b)) left right = some c ∧
      Extracted.cmp_option_nonzeroisize left right = .ok c :=
  cmp_option_nonzero_int_eq cmp_option_nonzeroisize_fn left right

example : Extracted.eq_option_nonzeroisize (some (-1)) (some 1) = .ok false := by decide
example : Extracted.eq_option_nonzeroisize none none = .ok true := by decide
example : Extracted.cmp_option_nonzeroisize (some (-9223372036854775808)) (some 9223372036854775807) = .ok .lt := by decide
example : Extracted.cmp_option_nonzeroisize (some (-9223372036854775808)) none = .ok .gt := by decide
example : ∃ c, cmpOption (fun a b => some (cmpNonZero a b)) (some (-3)) (some (-3)) = some c ∧
    Extracted.cmp_option_nonzeroisize (some (-3)) (some (-3)) = .ok c :=
  cmp_option_nonzeroisize_eq (some (-3)) (some (-3))

end Extracted.Equiv
