import KonstVerif.Extracted.Gen.Parser
import KonstVerif.Extracted.Equiv.StrFns
import KonstVerif.Model.StrFns
import KonstVerif.Model.Parser
import KonstVerif.Lemmas.Bytes
/-
  Extracted (regenerated from /repo) = Model, for `string::split_once` / `string::rsplit_once`
  (group `StrFns`; model `Konst.StrFns.splitOnce/rsplitOnce`, Model/StrFns.lean) and the split family of
  `konst::parsing::Parser` (group `Parser`; model `Konst.Parser.splitTerminator/rsplitTerminator/split/rsplit/
  splitKeep`, Model/Parser.lean, the definitions Props/C14.lean is about).

  Shape of the theorems.
    * `str_split_once_eq`, `str_rsplit_once_eq`:
        `Extracted.str_split_once fuel this delim = resOfSplitOnce this (StrFns.splitOnce this delim)`
      (`.ok (some (a, b)) ↦ .ok (some (a.apply this, b.apply this))`, `.ok none ↦ .ok none`,
      `.error () ↦ .panic`): the code panics (`non_char_boundary_panic` inside `split_at` / `str_up_to` /
      `str_from`) exactly when the model says `.error ()`.  No UTF-8 validity hypothesis is needed.
    * `Parser.<method>_eq`:
        `Extracted.Parser.<method> fuel p delim = resPiece p.str (Konst.Parser.<method> (parserToModel p) delim)`
      with `resPiece s`: `.ok q (.piece v) ↦ .ok (Ok (v.apply s, parserOfModel q))`,
      `.err e ↦ .ok (Err (errorOfModel e))`, `.panic ↦ .panic`.  Again the code panics exactly when the
      model does; `Props/C13.lean` proves that unreachable for `&str` (valid UTF-8) remainders and patterns.

  Hypotheses.
    * `hfit : p.start_offset + p.str.length < 2 ^ 32`: the offsets fit `u32`.  This is the model's
      `base + len < 2^32` assumption (Model/Parser.lean header), under which the model (offsets in `Nat`) and
      the code (checked `u32` `+=` / `+`, `as u32` casts, in `ParseError::new` and in the `enable_if_start!`
      update) agree.  It is needed by all five methods (also by the `FromEnd` ones: their error paths call
      `ParseError::new`).
    * `hb : ∀ b ∈ p.str, b < 256`: the remainder is a byte list (the code casts `bytes[i] as i8` in the
      char-boundary tests of `str_up_to` / `str_from` / `split_at`).
    * `hl : p.str.length + delim.length + 1 < 2 ^ 64` for the methods searching forwards (the bound of
      `string::find`, `str_find_eq`; it also keeps the checked `pos + delim.len()` in range); the methods
      searching backwards only need `p.str.length < 2 ^ 64`, which follows from `hfit`.
    * explicit fuel: that of `string::find` (`len + delim.len + 2`) resp. `string::rfind` (`len + 1`).
-/
namespace Extracted.Equiv
open Rs Konst

/-! ### `split_once`, `rsplit_once` (model: `Konst.StrFns.splitOnce` / `rsplitOnce`) -/

/-- the model's `Except Unit (Option (View × View))` as the result of the extraction on the string `s`:
    views are the sub-lists they denote, `.error ()` (the `non_char_boundary_panic` of
    `str_up_to`/`str_from`/`split_at`) is a panic -/
def resOfSplitOnce (s : List Nat) : Except Unit (Option (View × View)) → Res (Option (List Nat × List Nat))
  | .ok (some (a, b)) => .ok (some (a.apply s, b.apply s))
  | .ok none => .ok none
  | .error _ => .panic

@[simp] theorem resOfSplitOnce_some (s : List Nat) (a b : View) :
    resOfSplitOnce s (.ok (some (a, b))) = .ok (some (a.apply s, b.apply s)) := rfl
@[simp] theorem resOfSplitOnce_none (s : List Nat) : resOfSplitOnce s (.ok none) = .ok none := rfl
@[simp] theorem resOfSplitOnce_error (s : List Nat) (e : Unit) : resOfSplitOnce s (.error e) = .panic := rfl

/-- the common tail of `split_once` / `rsplit_once`:
    `Some((str_up_to(this, pos), str_from(this, pos + delim.len())))` -/
theorem split_once_tail (this : List Nat) (pos dl : Nat) (hb : ∀ b ∈ this, b < 256)
    (hadd : pos + dl < 2 ^ 64) :
    (Ctl.run (ρ := Option (List Nat × List Nat)) do
        let t6_ ← (do
          let t3_ ← Ctl.call (Extracted.str_up_to this pos)
          let t4_ ← Rs.uadd 64 pos dl
          let t5_ ← Ctl.call (Extracted.str_from this t4_)
          pure (some (t3_, t5_)))
        pure t6_)
      = resOfSplitOnce this (do
          let a ← StrFns.strUpTo this pos
          let b ← StrFns.strFrom this (pos + dl)
          pure (some (a, b))) := by
  simp only [str_up_to_eq _ _ hb, str_from_eq _ _ hb, Rs.uadd, hadd, ↓reduceIte]
  unfold Utf8.strUpTo Utf8.strFrom StrFns.strUpTo StrFns.strFrom
  simp only [strFns_isCharBoundaryForgiving_eq]
  cases Utf8.isCharBoundaryForgiving this pos <;> cases h2 : Utf8.isCharBoundaryForgiving this (pos + dl) <;>
    simp [h2, Ctl.run, bind, Except.bind, pure, Except.pure]

/-- every position `__bytes_find` reports is at most `left.len()` -/
theorem bytesFind_le (left pat : List Nat) (k : Nat) (h : Bytes.bytesFind left pat = some k) :
    k ≤ left.length :=
  ((Lemmas.Bytes.findLoop_spec left pat (left.length + 1) 0 (by omega) (by intro j hj; omega)).1 k h).2.1

/-- every position `__bytes_rfind` reports for a non-empty pattern leaves room for the pattern -/
theorem bytesRfind_le (left pat : List Nat) (hne : pat.isEmpty = false) (k : Nat)
    (h : Bytes.bytesRfind left pat = some k) : k + pat.length ≤ left.length := by
  unfold Bytes.bytesRfind at h
  simp only [hne, Bool.false_eq_true, ↓reduceIte] at h
  by_cases hlen : pat.length > left.length
  · simp [hlen] at h
  · simp only [hlen, ↓reduceIte] at h
    have := rfindLoop_lt left pat _ k h
    omega

/-- `split_once`: the model's pair of views applied to `this`; a panic (`non_char_boundary_panic` in
    `split_at`/`str_up_to`/`str_from`) exactly when the model says `.error ()`.
    Machine bound and fuel are those of `string::find` (`str_find_eq`); the checked `pos + delim.len()`
    cannot overflow under the same bound. -/
theorem str_split_once_eq (fuel : Nat) (this delim : List Nat) (hb : ∀ b ∈ this, b < 256)
    (hl : this.length + delim.length + 1 < 2 ^ 64) (hf : this.length + delim.length + 2 ≤ fuel) :
    Extracted.str_split_once fuel this delim = resOfSplitOnce this (StrFns.splitOnce this delim) := by
  unfold Extracted.str_split_once StrFns.splitOnce
  by_cases he : delim.isEmpty = true
  · simp only [he, ↓reduceIte, str_split_at_eq_strfns _ _ hb]
    cases StrFns.splitAt this 0 with
    | error e => rfl
    | ok p => rfl
  · simp only [he, Bool.false_eq_true, ↓reduceIte, str_find_eq fuel this delim hl hf, Ctl.call_ok,
      Ctl.bind_eq, Ctl.bind_val]
    cases hr : StrFns.find this delim with
    | none => rfl
    | some pos =>
      have hk : pos ≤ this.length := bytesFind_le this delim pos hr
      exact split_once_tail this pos delim.length hb (by omega)

example : Extracted.str_split_once 9 [97, 61, 98, 61, 99] [61] = .ok (some ([97], [98, 61, 99])) := by
  rw [str_split_once_eq 9 _ _ (by decide) (by decide) (by decide)]; decide
example : Extracted.str_split_once 9 [97, 61, 98] [44] = .ok none := by
  rw [str_split_once_eq 9 _ _ (by decide) (by decide) (by decide)]; decide
/-- a delimiter (not UTF-8) found inside a multi-byte char: `str_from` panics, in code and model -/
example : Extracted.str_split_once 9 [0x41, 0xE2, 0x82, 0xAC] [0xE2] = .panic := by
  rw [str_split_once_eq 9 _ _ (by decide) (by decide) (by decide)]; decide

/-- `rsplit_once`: as `split_once`, at the `rfind` position (`split_at(this, this.len())` for an empty
    delimiter).  Machine bound and fuel are those of `string::rfind` (`str_rfind_eq`); `pos + delim.len()`
    is at most `this.len()` for a non-empty delimiter. -/
theorem str_rsplit_once_eq (fuel : Nat) (this delim : List Nat) (hb : ∀ b ∈ this, b < 256)
    (hl : this.length < 2 ^ 64) (hf : this.length + 1 ≤ fuel) :
    Extracted.str_rsplit_once fuel this delim = resOfSplitOnce this (StrFns.rsplitOnce this delim) := by
  unfold Extracted.str_rsplit_once StrFns.rsplitOnce
  by_cases he : delim.isEmpty = true
  · simp only [he, ↓reduceIte, str_split_at_eq_strfns _ _ hb]
    cases StrFns.splitAt this this.length with
    | error e => rfl
    | ok p => rfl
  · simp only [he, Bool.false_eq_true, ↓reduceIte, str_rfind_eq fuel this delim hl hf, Ctl.call_ok,
      Ctl.bind_eq, Ctl.bind_val]
    cases hr : StrFns.rfind this delim with
    | none => rfl
    | some pos =>
      have hk : pos + delim.length ≤ this.length :=
        bytesRfind_le this delim (by simpa using he) pos hr
      exact split_once_tail this pos delim.length hb (by omega)

example : Extracted.str_rsplit_once 6 [97, 61, 98, 61, 99] [61] = .ok (some ([97, 61, 98], [99])) := by
  rw [str_rsplit_once_eq 6 _ _ (by decide) (by decide) (by decide)]; decide
example : Extracted.str_rsplit_once 6 [97, 61, 98] [] = .ok (some ([97, 61, 98], [])) := by
  rw [str_rsplit_once_eq 6 _ _ (by decide) (by decide) (by decide)]; decide

/-! ### conversions between the generated structures and the model's

  (kept in the namespace `Extracted.Equiv.ParserB`; the definitions are the same as the ones of
  Equiv/ParserA.lean, repeated here so that this file stands alone)

    * `dirToModel/dirOfModel`, `kindToModel/kindOfModel`, `parserToModel/parserOfModel`: bijections
      (same constructors / same four fields);
    * `errorToModel` IGNORES the two fields the model does not have, `ParseError.extra_message` and
      `ParseError._lifetime`; `errorOfModel` fills them with what `ParseError::new` (the only constructor
      the split family uses) writes: `extra_message: &""` = `[]`, `_lifetime: PhantomData` = `()`.  The
      theorems below are stated with `errorOfModel`, so they pin those two fields down as well.
    * `resPiece s`: the model's `Res` of a method returning `Result<(&str, Self), ParseError>` called on
      the remainder `s`, as the result of the extraction (the piece is a `View` into `s`).
-/
namespace ParserB

def dirToModel : Extracted.ParseDirection → Konst.Parser.ParseDirection
  | .FromStart => .fromStart
  | .FromEnd => .fromEnd
  | .FromBoth => .fromBoth

def dirOfModel : Konst.Parser.ParseDirection → Extracted.ParseDirection
  | .fromStart => .FromStart
  | .fromEnd => .FromEnd
  | .fromBoth => .FromBoth

def kindToModel : Extracted.ErrorKind → Konst.Parser.ErrorKind
  | .ParseInteger => .parseInteger
  | .ParseBool => .parseBool
  | .Find => .find
  | .Strip => .strip
  | .SplitExhausted => .splitExhausted
  | .DelimiterNotFound => .delimiterNotFound
  | .Other => .other

def kindOfModel : Konst.Parser.ErrorKind → Extracted.ErrorKind
  | .parseInteger => .ParseInteger
  | .parseBool => .ParseBool
  | .find => .Find
  | .strip => .Strip
  | .splitExhausted => .SplitExhausted
  | .delimiterNotFound => .DelimiterNotFound
  | .other => .Other

/-- the generated `Parser` as the model's (same four fields) -/
def parserToModel (p : Extracted.Parser) : Konst.Parser.Parser :=
  { dir := dirToModel p.parse_direction, yieldedLastSplit := p.yielded_last_split,
    startOffset := p.start_offset, str := p.str }

def parserOfModel (q : Konst.Parser.Parser) : Extracted.Parser :=
  { parse_direction := dirOfModel q.dir, yielded_last_split := q.yieldedLastSplit,
    start_offset := q.startOffset, str := q.str }

/-- the generated `ParseError` as the model's: `extra_message` and `_lifetime` (not in the model) are ignored -/
def errorToModel (e : Extracted.ParseError) : Konst.Parser.ParseError :=
  { startOffset := e.start_offset, endOffset := e.end_offset, dir := dirToModel e.direction,
    kind := kindToModel e.kind }

/-- the model's `ParseError` as the generated one: `extra_message: &""`, `_lifetime: PhantomData`
    (what `ParseError::new` writes) -/
def errorOfModel (e : Konst.Parser.ParseError) : Extracted.ParseError :=
  { start_offset := e.startOffset, end_offset := e.endOffset, direction := dirOfModel e.dir,
    kind := kindOfModel e.kind, extra_message := [], _lifetime := () }

@[simp] theorem dirOfModel_toModel (d : Extracted.ParseDirection) : dirOfModel (dirToModel d) = d := by
  cases d <;> rfl
@[simp] theorem dirToModel_ofModel (d : Konst.Parser.ParseDirection) : dirToModel (dirOfModel d) = d := by
  cases d <;> rfl
@[simp] theorem kindOfModel_toModel (k : Extracted.ErrorKind) : kindOfModel (kindToModel k) = k := by
  cases k <;> rfl
@[simp] theorem kindToModel_ofModel (k : Konst.Parser.ErrorKind) : kindToModel (kindOfModel k) = k := by
  cases k <;> rfl
@[simp] theorem parserOfModel_toModel (p : Extracted.Parser) : parserOfModel (parserToModel p) = p := by
  cases p; simp [parserOfModel, parserToModel]
@[simp] theorem parserToModel_ofModel (q : Konst.Parser.Parser) : parserToModel (parserOfModel q) = q := by
  cases q; simp [parserOfModel, parserToModel]
@[simp] theorem errorToModel_ofModel (e : Konst.Parser.ParseError) : errorToModel (errorOfModel e) = e := by
  cases e; simp [errorOfModel, errorToModel]
/-- the other round trip holds exactly on the errors `ParseError::new` builds -/
theorem errorOfModel_toModel (e : Extracted.ParseError) (h : e.extra_message = []) :
    errorOfModel (errorToModel e) = e := by
  cases e; simp_all [errorOfModel, errorToModel]

/-- the model's result of a method returning `Result<(&'a str, Self), ParseError<'a>>`, called on a parser
    whose remainder is `s`, as the result of the extraction: the piece (a `View` into `s`) is the
    sub-list it denotes.  The model functions of the split family only produce `.ok _ (.piece _)`,
    `.err _` and `.panic` (`splitFamily_shape` below); any other value is mapped to `ub`, so that nothing
    would be hidden if one were ever produced. -/
def resPiece (s : List Nat) : Konst.Parser.Res → Res (Except Extracted.ParseError (List Nat × Extracted.Parser))
  | .ok q (.piece v) => .ok (.ok (v.apply s, parserOfModel q))
  | .ok _ _ => .ub
  | .err e => .ok (.error (errorOfModel e))
  | .panic => .panic

@[simp] theorem resPiece_ok (s : List Nat) (q : Konst.Parser.Parser) (v : View) :
    resPiece s (.ok q (.piece v)) = .ok (.ok (v.apply s, parserOfModel q)) := rfl
@[simp] theorem resPiece_err (s : List Nat) (e : Konst.Parser.ParseError) :
    resPiece s (.err e) = .ok (.error (errorOfModel e)) := rfl
@[simp] theorem resPiece_panic (s : List Nat) : resPiece s .panic = .panic := rfl

theorem castUU32_of_lt (a : Nat) (h : a < 2 ^ 32) : Rs.castUU 32 a = a := by
  unfold Rs.castUU; exact Nat.mod_eq_of_lt h

/-- the piece `(self.str, …)` of the not-found branches: the whole remainder -/
theorem whole_apply {α : Type} (s : List α) : (⟨0, s.length⟩ : View).apply s = s := by
  simp [View.apply]

theorem apply_length_le {α : Type} (v : View) (s : List α) : (v.apply s).length ≤ s.length := by
  unfold View.apply
  simp only [List.length_take, List.length_drop]
  omega

/-- `ParseError::new` (checked `u32` addition of the end offset) under the `u32` fit hypothesis -/
theorem parseError_new_mk (d : Extracted.ParseDirection) (y : Bool) (off : Nat) (s : List Nat)
    (k : Extracted.ErrorKind) (hfit : off + s.length < 2 ^ 32) :
    Extracted.ParseError.new ⟨d, y, off, s⟩ k
      = .ok { start_offset := off, end_offset := off + s.length, direction := d, kind := k,
              extra_message := [], _lifetime := () } := by
  unfold Extracted.ParseError.new
  have h1 : s.length < 2 ^ 32 := by omega
  simp [Rs.uadd, castUU32_of_lt _ h1, hfit]

theorem parseError_new_eq (p : Extracted.Parser) (k : Extracted.ErrorKind)
    (hfit : p.start_offset + p.str.length < 2 ^ 32) :
    Extracted.ParseError.new p k
      = .ok (errorOfModel (Konst.Parser.ParseError.new (parserToModel p) (kindToModel k))) := by
  obtain ⟨d, y, off, s⟩ := p
  rw [parseError_new_mk d y off s k hfit]
  simp [errorOfModel, Konst.Parser.ParseError.new, parserToModel]

/-- the shapes `resPiece` translates faithfully (everything but `.ok _ v` with `v` not a piece) -/
def IsPieceRes : Konst.Parser.Res → Prop
  | .ok _ (.piece _) => True
  | .ok _ _ => False
  | .err _ => True
  | .panic => True

theorem resPiece_ne_ub (s : List Nat) (r : Konst.Parser.Res) (h : IsPieceRes r) : resPiece s r ≠ .ub := by
  unfold resPiece
  split <;> simp_all [IsPieceRes]

/-- the five model functions of the split family only return `.ok _ (.piece _)`, `.err _`, `.panic`:
    the `ub` case of `resPiece` never applies to them -/
theorem splitFamily_shape (q : Konst.Parser.Parser) (d : List Nat) :
    IsPieceRes (Konst.Parser.splitTerminator q d) ∧ IsPieceRes (Konst.Parser.rsplitTerminator q d) ∧
    IsPieceRes (Konst.Parser.split q d) ∧ IsPieceRes (Konst.Parser.rsplit q d) ∧
    IsPieceRes (Konst.Parser.splitKeep q d) := by
  obtain ⟨dr, y, off, s⟩ := q
  refine ⟨?_, ?_, ?_, ?_, ?_⟩
  · unfold Konst.Parser.splitTerminator Konst.Parser.tryParsing
    cases y
    · by_cases he : s.isEmpty = true
      · simp [he, IsPieceRes]
      · cases h1 : StrFns.splitOnce s d with
        | error e => simp [he, h1, IsPieceRes]
        | ok o => cases o <;> simp [he, h1, IsPieceRes]
    · simp [IsPieceRes]
  · unfold Konst.Parser.rsplitTerminator Konst.Parser.tryParsing
    cases y
    · by_cases he : s.isEmpty = true
      · simp [he, IsPieceRes]
      · cases h1 : StrFns.rsplitOnce s d with
        | error e => simp [he, h1, IsPieceRes]
        | ok o => cases o <;> simp [he, h1, IsPieceRes]
    · simp [IsPieceRes]
  · unfold Konst.Parser.split Konst.Parser.tryParsing
    cases y
    · cases h1 : StrFns.splitOnce s d with
      | error e => simp [h1, IsPieceRes]
      | ok o =>
        cases o with
        | none => cases h2 : Utf8.strFrom s s.length <;> simp [h1, h2, IsPieceRes]
        | some ab => simp [h1, IsPieceRes]
    · simp [IsPieceRes]
  · unfold Konst.Parser.rsplit Konst.Parser.tryParsing
    cases y
    · cases h1 : StrFns.rsplitOnce s d with
      | error e => simp [h1, IsPieceRes]
      | ok o =>
        cases o with
        | none => cases h2 : Utf8.strUpTo s 0 <;> simp [h1, h2, IsPieceRes]
        | some ab => simp [h1, IsPieceRes]
    · simp [IsPieceRes]
  · unfold Konst.Parser.splitKeep Konst.Parser.tryParsing
    cases y
    · cases h1 : StrFns.find s d with
      | none => cases h2 : Utf8.strFrom s s.length <;> simp [h1, h2, IsPieceRes]
      | some pos => cases h2 : Utf8.splitAt s pos <;> simp [h1, h2, IsPieceRes]
    · simp [IsPieceRes]

end ParserB

open ParserB

/-! ### `Parser::split_terminator` -/

theorem Parser.split_terminator_eq (fuel : Nat) (p : Extracted.Parser) (delim : List Nat)
    (hb : ∀ b ∈ p.str, b < 256) (hfit : p.start_offset + p.str.length < 2 ^ 32)
    (hl : p.str.length + delim.length + 1 < 2 ^ 64) (hf : p.str.length + delim.length + 2 ≤ fuel) :
    Extracted.Parser.split_terminator fuel p delim
      = resPiece p.str (Konst.Parser.splitTerminator (parserToModel p) delim) := by
  obtain ⟨d, y, off, s⟩ := p
  simp only at hb hfit hl hf
  unfold Extracted.Parser.split_terminator Konst.Parser.splitTerminator Konst.Parser.tryParsing
  simp only [parserToModel]
  cases y with
  | true =>
    simp [parseError_new_mk _ _ _ _ _ hfit, Rs.block, errorOfModel, Konst.Parser.ParseError.new, dirOfModel,
      kindOfModel]
  | false =>
    by_cases he : s.isEmpty = true
    · simp [he, parseError_new_mk _ _ _ _ _ hfit, Rs.block, errorOfModel, Konst.Parser.ParseError.new,
        dirOfModel, kindOfModel]
    · simp only [str_split_once_eq fuel _ delim hb hl hf, he]
      cases hr : StrFns.splitOnce s delim with
      | error e => simp [Rs.block]
      | ok o =>
        cases o with
        | none =>
          simp [parseError_new_mk _ _ _ _ _ hfit, Rs.block, errorOfModel, Konst.Parser.ParseError.new,
            dirOfModel, kindOfModel]
        | some ab =>
          obtain ⟨a, b⟩ := ab
          have hle : (b.apply s).length ≤ s.length := apply_length_le b s
          have h1 : s.length - (b.apply s).length < 2 ^ 32 := by omega
          have h2 : off + (s.length - (b.apply s).length) < 2 ^ 32 := by omega
          simp [Rs.block, Rs.usub, hle, Rs.uadd, castUU32_of_lt _ h1, h2, Konst.Parser.enableIfStartAdd,
            parserOfModel, dirOfModel]

/-- "a=b" at offset 5, delimiter "=": the piece "a", the parser at offset 7 on "b" -/
example : Extracted.Parser.split_terminator 9 ⟨.FromEnd, false, 5, [97, 61, 98]⟩ [61]
    = .ok (.ok ([97], ⟨.FromStart, false, 7, [98]⟩)) := by
  rw [Parser.split_terminator_eq 9 _ _ (by decide) (by decide) (by decide) (by decide)]; rfl
/-- "a=": the remainder after the terminator is empty, `yielded_last_split` is set -/
example : Extracted.Parser.split_terminator 9 ⟨.FromStart, false, 5, [97, 61]⟩ [61]
    = .ok (.ok ([97], ⟨.FromStart, true, 7, []⟩)) := by
  rw [Parser.split_terminator_eq 9 _ _ (by decide) (by decide) (by decide) (by decide)]; rfl
/-- the flag set: `Err(SplitExhausted)`, offsets of the parser it was called on -/
example : Extracted.Parser.split_terminator 9 ⟨.FromEnd, true, 5, [97, 61, 98]⟩ [61]
    = .ok (.error { start_offset := 5, end_offset := 8, direction := .FromStart, kind := .SplitExhausted,
                    extra_message := [], _lifetime := () }) := by
  rw [Parser.split_terminator_eq 9 _ _ (by decide) (by decide) (by decide) (by decide)]; rfl

/-! ### `Parser::rsplit_terminator` -/

theorem Parser.rsplit_terminator_eq (fuel : Nat) (p : Extracted.Parser) (delim : List Nat)
    (hb : ∀ b ∈ p.str, b < 256) (hfit : p.start_offset + p.str.length < 2 ^ 32)
    (hf : p.str.length + 1 ≤ fuel) :
    Extracted.Parser.rsplit_terminator fuel p delim
      = resPiece p.str (Konst.Parser.rsplitTerminator (parserToModel p) delim) := by
  obtain ⟨d, y, off, s⟩ := p
  simp only at hb hfit hf
  have hl : s.length < 2 ^ 64 := by omega
  unfold Extracted.Parser.rsplit_terminator Konst.Parser.rsplitTerminator Konst.Parser.tryParsing
  simp only [parserToModel]
  cases y with
  | true =>
    simp [parseError_new_mk _ _ _ _ _ hfit, Rs.block, errorOfModel, Konst.Parser.ParseError.new, dirOfModel,
      kindOfModel]
  | false =>
    by_cases he : s.isEmpty = true
    · simp [he, parseError_new_mk _ _ _ _ _ hfit, Rs.block, errorOfModel, Konst.Parser.ParseError.new,
        dirOfModel, kindOfModel]
    · simp only [str_rsplit_once_eq fuel _ delim hb hl hf, he]
      cases hr : StrFns.rsplitOnce s delim with
      | error e => simp [Rs.block]
      | ok o =>
        cases o with
        | none =>
          simp [parseError_new_mk _ _ _ _ _ hfit, Rs.block, errorOfModel, Konst.Parser.ParseError.new,
            dirOfModel, kindOfModel]
        | some ab =>
          obtain ⟨a, b⟩ := ab
          simp [Rs.block, Konst.Parser.enableIfStartAdd, parserOfModel, dirOfModel]

example : Extracted.Parser.rsplit_terminator 9 ⟨.FromStart, false, 5, [97, 61, 98]⟩ [61]
    = .ok (.ok ([98], ⟨.FromEnd, false, 5, [97]⟩)) := by
  rw [Parser.rsplit_terminator_eq 9 _ _ (by decide) (by decide) (by decide)]; rfl
/-- delimiter absent: `Err(DelimiterNotFound)` -/
example : Extracted.Parser.rsplit_terminator 9 ⟨.FromStart, false, 5, [97, 98]⟩ [61]
    = .ok (.error { start_offset := 5, end_offset := 7, direction := .FromEnd, kind := .DelimiterNotFound,
                    extra_message := [], _lifetime := () }) := by
  rw [Parser.rsplit_terminator_eq 9 _ _ (by decide) (by decide) (by decide)]; rfl

/-! ### `Parser::split` -/

theorem Parser.split_eq (fuel : Nat) (p : Extracted.Parser) (delim : List Nat)
    (hb : ∀ b ∈ p.str, b < 256) (hfit : p.start_offset + p.str.length < 2 ^ 32)
    (hl : p.str.length + delim.length + 1 < 2 ^ 64) (hf : p.str.length + delim.length + 2 ≤ fuel) :
    Extracted.Parser.split fuel p delim
      = resPiece p.str (Konst.Parser.split (parserToModel p) delim) := by
  obtain ⟨d, y, off, s⟩ := p
  simp only at hb hfit hl hf
  unfold Extracted.Parser.split Konst.Parser.split Konst.Parser.tryParsing
  simp only [parserToModel]
  cases y with
  | true =>
    simp [parseError_new_mk _ _ _ _ _ hfit, Rs.block, errorOfModel, Konst.Parser.ParseError.new, dirOfModel,
      kindOfModel]
  | false =>
    simp only [str_split_once_eq fuel _ delim hb hl hf]
    cases hr : StrFns.splitOnce s delim with
    | error e => simp [Rs.block]
    | ok o =>
      cases o with
      | none =>
        simp only [resOfSplitOnce_none, str_from_eq _ _ hb]
        cases hs : Utf8.strFrom s s.length with
        | error e => simp [Rs.block]
        | ok after =>
          have hle : (after.apply s).length ≤ s.length := apply_length_le after s
          have h1 : s.length - (after.apply s).length < 2 ^ 32 := by omega
          have h2 : off + (s.length - (after.apply s).length) < 2 ^ 32 := by omega
          simp [Rs.block, Rs.usub, hle, Rs.uadd, castUU32_of_lt _ h1, h2, Konst.Parser.enableIfStartAdd,
            Konst.Parser.Parser.setStr, parserOfModel, dirOfModel, whole_apply]
      | some ab =>
        obtain ⟨a, b⟩ := ab
        have hle : (b.apply s).length ≤ s.length := apply_length_le b s
        have h1 : s.length - (b.apply s).length < 2 ^ 32 := by omega
        have h2 : off + (s.length - (b.apply s).length) < 2 ^ 32 := by omega
        simp [Rs.block, Rs.usub, hle, Rs.uadd, castUU32_of_lt _ h1, h2, Konst.Parser.enableIfStartAdd,
          Konst.Parser.Parser.setStr, parserOfModel, dirOfModel]

example : Extracted.Parser.split 9 ⟨.FromEnd, false, 5, [97, 61, 98]⟩ [61]
    = .ok (.ok ([97], ⟨.FromStart, false, 7, [98]⟩)) := by
  rw [Parser.split_eq 9 _ _ (by decide) (by decide) (by decide) (by decide)]; rfl
/-- delimiter absent: the whole remainder is the last piece, the flag is set, the offset moves to the end -/
example : Extracted.Parser.split 9 ⟨.FromEnd, false, 5, [97, 98]⟩ [61]
    = .ok (.ok ([97, 98], ⟨.FromStart, true, 7, []⟩)) := by
  rw [Parser.split_eq 9 _ _ (by decide) (by decide) (by decide) (by decide)]; rfl

/-! ### `Parser::rsplit` -/

theorem Parser.rsplit_eq (fuel : Nat) (p : Extracted.Parser) (delim : List Nat)
    (hb : ∀ b ∈ p.str, b < 256) (hfit : p.start_offset + p.str.length < 2 ^ 32)
    (hf : p.str.length + 1 ≤ fuel) :
    Extracted.Parser.rsplit fuel p delim
      = resPiece p.str (Konst.Parser.rsplit (parserToModel p) delim) := by
  obtain ⟨d, y, off, s⟩ := p
  simp only at hb hfit hf
  have hl : s.length < 2 ^ 64 := by omega
  unfold Extracted.Parser.rsplit Konst.Parser.rsplit Konst.Parser.tryParsing
  simp only [parserToModel]
  cases y with
  | true =>
    simp [parseError_new_mk _ _ _ _ _ hfit, Rs.block, errorOfModel, Konst.Parser.ParseError.new, dirOfModel,
      kindOfModel]
  | false =>
    simp only [str_rsplit_once_eq fuel _ delim hb hl hf]
    cases hr : StrFns.rsplitOnce s delim with
    | error e => simp [Rs.block]
    | ok o =>
      cases o with
      | none =>
        simp only [resOfSplitOnce_none, str_up_to_eq _ _ hb]
        cases hs : Utf8.strUpTo s 0 with
        | error e => simp [Rs.block]
        | ok after =>
          simp [Rs.block, Konst.Parser.enableIfStartAdd, Konst.Parser.Parser.setStr, parserOfModel, dirOfModel,
            whole_apply]
      | some ab =>
        obtain ⟨a, b⟩ := ab
        simp [Rs.block, Konst.Parser.enableIfStartAdd, Konst.Parser.Parser.setStr, parserOfModel, dirOfModel]

example : Extracted.Parser.rsplit 9 ⟨.FromStart, false, 5, [97, 61, 98, 61, 99]⟩ [61]
    = .ok (.ok ([99], ⟨.FromEnd, false, 5, [97, 61, 98]⟩)) := by
  rw [Parser.rsplit_eq 9 _ _ (by decide) (by decide) (by decide)]; rfl
example : Extracted.Parser.rsplit 9 ⟨.FromStart, false, 5, [97, 98]⟩ [61]
    = .ok (.ok ([97, 98], ⟨.FromEnd, true, 5, []⟩)) := by
  rw [Parser.rsplit_eq 9 _ _ (by decide) (by decide) (by decide)]; rfl

/-! ### `Parser::split_keep` -/

theorem Parser.split_keep_eq (fuel : Nat) (p : Extracted.Parser) (delim : List Nat)
    (hb : ∀ b ∈ p.str, b < 256) (hfit : p.start_offset + p.str.length < 2 ^ 32)
    (hl : p.str.length + delim.length + 1 < 2 ^ 64) (hf : p.str.length + delim.length + 2 ≤ fuel) :
    Extracted.Parser.split_keep fuel p delim
      = resPiece p.str (Konst.Parser.splitKeep (parserToModel p) delim) := by
  obtain ⟨d, y, off, s⟩ := p
  simp only at hb hfit hl hf
  unfold Extracted.Parser.split_keep Konst.Parser.splitKeep Konst.Parser.tryParsing
  simp only [parserToModel]
  cases y with
  | true =>
    simp [parseError_new_mk _ _ _ _ _ hfit, Rs.block, errorOfModel, Konst.Parser.ParseError.new, dirOfModel,
      kindOfModel]
  | false =>
    simp only [str_find_eq fuel _ delim hl hf]
    cases hr : StrFns.find s delim with
    | none =>
      simp only [str_from_eq _ _ hb]
      cases hs : Utf8.strFrom s s.length with
      | error e => simp [Rs.block]
      | ok after =>
        have hle : (after.apply s).length ≤ s.length := apply_length_le after s
        have h1 : s.length - (after.apply s).length < 2 ^ 32 := by omega
        have h2 : off + (s.length - (after.apply s).length) < 2 ^ 32 := by omega
        simp [Rs.block, Rs.usub, hle, Rs.uadd, castUU32_of_lt _ h1, h2, Konst.Parser.enableIfStartAdd,
          Konst.Parser.Parser.setStr, parserOfModel, dirOfModel, whole_apply]
    | some pos =>
      simp only [Ctl.call_ok, Ctl.bind_eq, Ctl.bind_val, str_split_at_eq _ _ hb]
      cases hs : Utf8.splitAt s pos with
      | error e => simp [Rs.block]
      | ok ab =>
        obtain ⟨a, b⟩ := ab
        have hle : (b.apply s).length ≤ s.length := apply_length_le b s
        have h1 : s.length - (b.apply s).length < 2 ^ 32 := by omega
        have h2 : off + (s.length - (b.apply s).length) < 2 ^ 32 := by omega
        simp [Rs.block, Rs.usub, hle, Rs.uadd, castUU32_of_lt _ h1, h2, Konst.Parser.enableIfStartAdd,
          Konst.Parser.Parser.setStr, parserOfModel, dirOfModel]

example : Extracted.Parser.split_keep 9 ⟨.FromEnd, false, 5, [97, 61, 98]⟩ [61]
    = .ok (.ok ([97], ⟨.FromStart, false, 6, [61, 98]⟩)) := by
  rw [Parser.split_keep_eq 9 _ _ (by decide) (by decide) (by decide) (by decide)]; rfl
/-- a delimiter (not UTF-8) found inside a multi-byte char: `split_at` panics, in code and model -/
example : Extracted.Parser.split_keep 9 ⟨.FromStart, false, 0, [0x41, 0xE2, 0x82, 0xAC]⟩ [0x82] = .panic := by
  rw [Parser.split_keep_eq 9 _ _ (by decide) (by decide) (by decide) (by decide)]; rfl

end Extracted.Equiv
