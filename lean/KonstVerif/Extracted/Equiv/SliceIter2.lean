import KonstVerif.Extracted.Gen.SliceIter2
import KonstVerif.Extracted.Equiv.SliceIter
import KonstVerif.Model.SliceIter
/-
  Extracted (regenerated from /repo) = Model/SliceIter.lean, group `SliceIter2`:
  konst_kernel::into_iter::slice_into_iter::{iter, Iter, IterRev} and
  konst_kernel::into_iter::slice_into_iter::copied::{iter_copied, IterCopied, IterCopiedRev}
  (constructors, `next`, `next_back`, `as_slice`, `copy` of the four element iterators: 18 functions).

  Conventions are those of `Equiv/SliceIter.lean` (whose `stepRes`/`stepOpt`/`ok_of_res`/`mapState_ne_panic`
  are reused).  The model's iterator state is `It σ = ⟨fwd, fields⟩` (`fwd = true`: the forward struct,
  `fwd = false`: the `*Rev` struct) with `fields = {slice}`, exactly like the generated structures, so
  `X.toIt : Extracted.X T → It (SliceIter.Iter T)` and `X.ofIt` (forgets `fwd`, which a step never changes)
  are field copies.

  Shape of the statements.  None of these functions can panic (no arithmetic, no indexing), in the code and
  in the model, so every theorem is hypothesis-free:

  * `<X>_<step>_eq`: `Extracted.X.step c = .ok (stepOpt X.ofIt (It.step blocks (X.toIt c)))` together with
    the fact that the model's step is not `Step.panic` (so `stepOpt` loses nothing); `<X>_<step>_res` is the
    same statement through `stepRes` (panic ↦ panic), the form the chunk iterators use.
  * `iter_eq`/`iter_copied_eq`, `<X>_as_slice_eq`, `<X>_copy_eq`: `= .ok (the model's value)`.

  `*Rev` structs: `XRev::next` is the text of `X::next_back` and vice versa; in the model the Rev type is
  `fwd = false`, i.e. `It.next` runs `nextBackBlock`.  `[elem, rem @ ..]` is generated as `elem :: rem`,
  `[rem @ .., elem]` as `Rs.unsnoc` (= `dropLast`/`getLast`, the model's `nextBackBlock`).
-/
namespace Extracted.Equiv
open Rs Konst Konst.Slice

/-! ### `Rs.unsnoc` -/

theorem unsnoc_nil {α : Type} : Rs.unsnoc ([] : List α) = none := rfl

theorem unsnoc_of_ne_nil {α : Type} (l : List α) (h : l ≠ []) :
    Rs.unsnoc l = some (l.dropLast, l.getLast h) := by
  simp [Rs.unsnoc, List.getLast?_eq_some_getLast h]

/-! ### conversion maps -/

def Iter.toModel {T : Type} (c : Extracted.Iter T) : SliceIter.Iter T := ⟨c.slice⟩
def Iter.ofModel {T : Type} (c : SliceIter.Iter T) : Extracted.Iter T := ⟨c.slice⟩
def Iter.toIt {T : Type} (c : Extracted.Iter T) : SliceIter.It (SliceIter.Iter T) :=
  ⟨true, Iter.toModel c⟩
def Iter.ofIt {T : Type} (it : SliceIter.It (SliceIter.Iter T)) : Extracted.Iter T :=
  Iter.ofModel it.fields

def IterRev.toModel {T : Type} (c : Extracted.IterRev T) : SliceIter.Iter T := ⟨c.slice⟩
def IterRev.ofModel {T : Type} (c : SliceIter.Iter T) : Extracted.IterRev T := ⟨c.slice⟩
def IterRev.toIt {T : Type} (c : Extracted.IterRev T) : SliceIter.It (SliceIter.Iter T) :=
  ⟨false, IterRev.toModel c⟩
def IterRev.ofIt {T : Type} (it : SliceIter.It (SliceIter.Iter T)) : Extracted.IterRev T :=
  IterRev.ofModel it.fields

def IterCopied.toModel {T : Type} (c : Extracted.IterCopied T) : SliceIter.IterCopied T := ⟨c.slice⟩
def IterCopied.ofModel {T : Type} (c : SliceIter.IterCopied T) : Extracted.IterCopied T := ⟨c.slice⟩
def IterCopied.toIt {T : Type} (c : Extracted.IterCopied T) :
    SliceIter.It (SliceIter.IterCopied T) :=
  ⟨true, IterCopied.toModel c⟩
def IterCopied.ofIt {T : Type} (it : SliceIter.It (SliceIter.IterCopied T)) :
    Extracted.IterCopied T :=
  IterCopied.ofModel it.fields

def IterCopiedRev.toModel {T : Type} (c : Extracted.IterCopiedRev T) : SliceIter.IterCopied T :=
  ⟨c.slice⟩
def IterCopiedRev.ofModel {T : Type} (c : SliceIter.IterCopied T) : Extracted.IterCopiedRev T :=
  ⟨c.slice⟩
def IterCopiedRev.toIt {T : Type} (c : Extracted.IterCopiedRev T) :
    SliceIter.It (SliceIter.IterCopied T) :=
  ⟨false, IterCopiedRev.toModel c⟩
def IterCopiedRev.ofIt {T : Type} (it : SliceIter.It (SliceIter.IterCopied T)) :
    Extracted.IterCopiedRev T :=
  IterCopiedRev.ofModel it.fields

/-- the conversion maps are mutually inverse (on the model side: at the struct's own `fwd`) -/
theorem Iter.ofIt_toIt {T : Type} (c : Extracted.Iter T) : Iter.ofIt (Iter.toIt c) = c := rfl
theorem Iter.toIt_ofIt {T : Type} (it : SliceIter.It (SliceIter.Iter T)) (h : it.fwd = true) :
    Iter.toIt (Iter.ofIt it) = it := by
  cases it; simp_all [Iter.toIt, Iter.ofIt, Iter.toModel, Iter.ofModel]
theorem IterRev.ofIt_toIt {T : Type} (c : Extracted.IterRev T) : IterRev.ofIt (IterRev.toIt c) = c := rfl
theorem IterRev.toIt_ofIt {T : Type} (it : SliceIter.It (SliceIter.Iter T)) (h : it.fwd = false) :
    IterRev.toIt (IterRev.ofIt it) = it := by
  cases it; simp_all [IterRev.toIt, IterRev.ofIt, IterRev.toModel, IterRev.ofModel]
theorem IterCopied.ofIt_toIt {T : Type} (c : Extracted.IterCopied T) :
    IterCopied.ofIt (IterCopied.toIt c) = c := rfl
theorem IterCopied.toIt_ofIt {T : Type} (it : SliceIter.It (SliceIter.IterCopied T))
    (h : it.fwd = true) : IterCopied.toIt (IterCopied.ofIt it) = it := by
  cases it; simp_all [IterCopied.toIt, IterCopied.ofIt, IterCopied.toModel, IterCopied.ofModel]
theorem IterCopiedRev.ofIt_toIt {T : Type} (c : Extracted.IterCopiedRev T) :
    IterCopiedRev.ofIt (IterCopiedRev.toIt c) = c := rfl
theorem IterCopiedRev.toIt_ofIt {T : Type} (it : SliceIter.It (SliceIter.IterCopied T))
    (h : it.fwd = false) : IterCopiedRev.toIt (IterCopiedRev.ofIt it) = it := by
  cases it
  simp_all [IterCopiedRev.toIt, IterCopiedRev.ofIt, IterCopiedRev.toModel, IterCopiedRev.ofModel]

/-! ### the model's blocks never panic -/

theorem Iter.nextBlock_ne_panic {T : Type} (c : SliceIter.Iter T) :
    SliceIter.Iter.nextBlock c ≠ .panic := by
  unfold SliceIter.Iter.nextBlock; split <;> simp

theorem Iter.nextBackBlock_ne_panic {T : Type} (c : SliceIter.Iter T) :
    SliceIter.Iter.nextBackBlock c ≠ .panic := by
  unfold SliceIter.Iter.nextBackBlock; split <;> simp

theorem IterCopied.nextBlock_ne_panic {T : Type} (c : SliceIter.IterCopied T) :
    SliceIter.IterCopied.nextBlock c ≠ .panic := by
  unfold SliceIter.IterCopied.nextBlock; split <;> simp

theorem IterCopied.nextBackBlock_ne_panic {T : Type} (c : SliceIter.IterCopied T) :
    SliceIter.IterCopied.nextBackBlock c ≠ .panic := by
  unfold SliceIter.IterCopied.nextBackBlock; split <;> simp

/-! ### constructors `iter`, `iter_copied` -/

/-- `iter(slice) = Iter { slice }`; the model's value is the forward iterator (`fwd = true`) -/
theorem iter_eq {T : Type} (l : List T) :
    Extracted.iter l = .ok (Iter.ofIt (SliceIter.iter l)) := rfl

/-- nothing is lost by `Iter.ofIt`: the model's `iter l` is the forward struct -/
theorem iter_toIt {T : Type} (l : List T) :
    Iter.toIt (Iter.ofIt (SliceIter.iter l)) = SliceIter.iter l := rfl

example : Extracted.iter [1, 2, 3] = .ok ⟨[1, 2, 3]⟩ := by rw [iter_eq]; rfl

theorem iter_copied_eq {T : Type} (l : List T) :
    Extracted.iter_copied l = .ok (IterCopied.ofIt (SliceIter.iterCopied l)) := rfl

theorem iter_copied_toIt {T : Type} (l : List T) :
    IterCopied.toIt (IterCopied.ofIt (SliceIter.iterCopied l)) = SliceIter.iterCopied l := rfl

example : Extracted.iter_copied [1, 2, 3] = .ok ⟨[1, 2, 3]⟩ := by rw [iter_copied_eq]; rfl

/-! ### `Iter` -/

theorem Iter_next_res {T : Type} (c : Extracted.Iter T) :
    Extracted.Iter.next c
      = stepRes Iter.ofIt (SliceIter.It.next SliceIter.Iter.blocks (Iter.toIt c)) := by
  unfold Extracted.Iter.next
  unfold Iter.toIt Iter.toModel Iter.ofIt Iter.ofModel
  simp only [SliceIter.It.next, SliceIter.Iter.blocks, SliceIter.Iter.nextBlock]
  rcases c with ⟨_ | ⟨x, xs⟩⟩ <;> simp [stepRes, SliceIter.Step.mapState]

theorem Iter_next_eq {T : Type} (c : Extracted.Iter T) :
    Extracted.Iter.next c
      = .ok (stepOpt Iter.ofIt (SliceIter.It.next SliceIter.Iter.blocks (Iter.toIt c)))
    ∧ SliceIter.It.next SliceIter.Iter.blocks (Iter.toIt c) ≠ .panic :=
  ok_of_res (Iter_next_res c) (by
    simp only [SliceIter.It.next, Iter.toIt, SliceIter.Iter.blocks, mapState_ne_panic, ↓reduceIte]
    exact Iter.nextBlock_ne_panic _)

example : Extracted.Iter.next ⟨[1, 2, 3]⟩ = .ok (some (1, ⟨[2, 3]⟩)) := by
  rw [(Iter_next_eq _).1]; rfl
example : Extracted.Iter.next (⟨[]⟩ : Extracted.Iter Nat) = .ok none := by
  rw [(Iter_next_eq _).1]; rfl

theorem Iter_next_back_res {T : Type} (c : Extracted.Iter T) :
    Extracted.Iter.next_back c
      = stepRes Iter.ofIt (SliceIter.It.nextBack SliceIter.Iter.blocks (Iter.toIt c)) := by
  unfold Extracted.Iter.next_back
  unfold Iter.toIt Iter.toModel Iter.ofIt Iter.ofModel
  simp only [SliceIter.It.nextBack, SliceIter.Iter.blocks, SliceIter.Iter.nextBackBlock]
  by_cases h : c.slice = []
  · simp [h, unsnoc_nil, stepRes, SliceIter.Step.mapState]
  · simp [h, unsnoc_of_ne_nil _ h, stepRes, SliceIter.Step.mapState]

theorem Iter_next_back_eq {T : Type} (c : Extracted.Iter T) :
    Extracted.Iter.next_back c
      = .ok (stepOpt Iter.ofIt (SliceIter.It.nextBack SliceIter.Iter.blocks (Iter.toIt c)))
    ∧ SliceIter.It.nextBack SliceIter.Iter.blocks (Iter.toIt c) ≠ .panic :=
  ok_of_res (Iter_next_back_res c) (by
    simp only [SliceIter.It.nextBack, Iter.toIt, SliceIter.Iter.blocks, mapState_ne_panic, ↓reduceIte]
    exact Iter.nextBackBlock_ne_panic _)

example : Extracted.Iter.next_back ⟨[1, 2, 3]⟩ = .ok (some (3, ⟨[1, 2]⟩)) := by
  rw [(Iter_next_back_eq _).1]; rfl
example : Extracted.Iter.next_back (⟨[]⟩ : Extracted.Iter Nat) = .ok none := by
  rw [(Iter_next_back_eq _).1]; rfl

theorem Iter_as_slice_eq {T : Type} (c : Extracted.Iter T) :
    Extracted.Iter.as_slice c = .ok (SliceIter.Iter.asSlice (Iter.toIt c)) := rfl

theorem Iter_copy_eq {T : Type} (c : Extracted.Iter T) :
    Extracted.Iter.copy c = .ok (Iter.ofIt (SliceIter.It.copy (Iter.toIt c))) := rfl

example : Extracted.Iter.as_slice ⟨[1, 2, 3]⟩ = .ok [1, 2, 3] := by rw [Iter_as_slice_eq]; rfl
example : Extracted.Iter.copy ⟨[1, 2, 3]⟩ = .ok ⟨[1, 2, 3]⟩ := by rw [Iter_copy_eq]; rfl

/-! ### `IterRev` -/

/-- `IterRev::next` is the text of `Iter::next_back` (model: `It.next` at `fwd = false`) -/
theorem IterRev_next_res {T : Type} (c : Extracted.IterRev T) :
    Extracted.IterRev.next c
      = stepRes IterRev.ofIt (SliceIter.It.next SliceIter.Iter.blocks (IterRev.toIt c)) := by
  unfold Extracted.IterRev.next
  unfold IterRev.toIt IterRev.toModel IterRev.ofIt IterRev.ofModel
  simp only [SliceIter.It.next, SliceIter.Iter.blocks, SliceIter.Iter.nextBackBlock]
  by_cases h : c.slice = []
  · simp [h, unsnoc_nil, stepRes, SliceIter.Step.mapState]
  · simp [h, unsnoc_of_ne_nil _ h, stepRes, SliceIter.Step.mapState]

theorem IterRev_next_eq {T : Type} (c : Extracted.IterRev T) :
    Extracted.IterRev.next c
      = .ok (stepOpt IterRev.ofIt (SliceIter.It.next SliceIter.Iter.blocks (IterRev.toIt c)))
    ∧ SliceIter.It.next SliceIter.Iter.blocks (IterRev.toIt c) ≠ .panic :=
  ok_of_res (IterRev_next_res c) (by
    simp only [SliceIter.It.next, IterRev.toIt, SliceIter.Iter.blocks, mapState_ne_panic,
      Bool.false_eq_true, ↓reduceIte]
    exact Iter.nextBackBlock_ne_panic _)

example : Extracted.IterRev.next ⟨[1, 2, 3]⟩ = .ok (some (3, ⟨[1, 2]⟩)) := by
  rw [(IterRev_next_eq _).1]; rfl
example : Extracted.IterRev.next (⟨[]⟩ : Extracted.IterRev Nat) = .ok none := by
  rw [(IterRev_next_eq _).1]; rfl

/-- `IterRev::next_back` is the text of `Iter::next` -/
theorem IterRev_next_back_res {T : Type} (c : Extracted.IterRev T) :
    Extracted.IterRev.next_back c
      = stepRes IterRev.ofIt (SliceIter.It.nextBack SliceIter.Iter.blocks (IterRev.toIt c)) := by
  unfold Extracted.IterRev.next_back
  unfold IterRev.toIt IterRev.toModel IterRev.ofIt IterRev.ofModel
  simp only [SliceIter.It.nextBack, SliceIter.Iter.blocks, SliceIter.Iter.nextBlock]
  rcases c with ⟨_ | ⟨x, xs⟩⟩ <;> simp [stepRes, SliceIter.Step.mapState]

theorem IterRev_next_back_eq {T : Type} (c : Extracted.IterRev T) :
    Extracted.IterRev.next_back c
      = .ok (stepOpt IterRev.ofIt (SliceIter.It.nextBack SliceIter.Iter.blocks (IterRev.toIt c)))
    ∧ SliceIter.It.nextBack SliceIter.Iter.blocks (IterRev.toIt c) ≠ .panic :=
  ok_of_res (IterRev_next_back_res c) (by
    simp only [SliceIter.It.nextBack, IterRev.toIt, SliceIter.Iter.blocks, mapState_ne_panic,
      Bool.false_eq_true, ↓reduceIte]
    exact Iter.nextBlock_ne_panic _)

example : Extracted.IterRev.next_back ⟨[1, 2, 3]⟩ = .ok (some (1, ⟨[2, 3]⟩)) := by
  rw [(IterRev_next_back_eq _).1]; rfl

theorem IterRev_as_slice_eq {T : Type} (c : Extracted.IterRev T) :
    Extracted.IterRev.as_slice c = .ok (SliceIter.Iter.asSlice (IterRev.toIt c)) := rfl

theorem IterRev_copy_eq {T : Type} (c : Extracted.IterRev T) :
    Extracted.IterRev.copy c = .ok (IterRev.ofIt (SliceIter.It.copy (IterRev.toIt c))) := rfl

example : Extracted.IterRev.as_slice ⟨[1, 2, 3]⟩ = .ok [1, 2, 3] := by rw [IterRev_as_slice_eq]; rfl
example : Extracted.IterRev.copy ⟨[1, 2, 3]⟩ = .ok ⟨[1, 2, 3]⟩ := by rw [IterRev_copy_eq]; rfl

/-! ### `IterCopied` (the item is `*elem`: the same element value) -/

theorem IterCopied_next_res {T : Type} (c : Extracted.IterCopied T) :
    Extracted.IterCopied.next c
      = stepRes IterCopied.ofIt
          (SliceIter.It.next SliceIter.IterCopied.blocks (IterCopied.toIt c)) := by
  unfold Extracted.IterCopied.next
  unfold IterCopied.toIt IterCopied.toModel IterCopied.ofIt IterCopied.ofModel
  simp only [SliceIter.It.next, SliceIter.IterCopied.blocks, SliceIter.IterCopied.nextBlock]
  rcases c with ⟨_ | ⟨x, xs⟩⟩ <;> simp [stepRes, SliceIter.Step.mapState]

theorem IterCopied_next_eq {T : Type} (c : Extracted.IterCopied T) :
    Extracted.IterCopied.next c
      = .ok (stepOpt IterCopied.ofIt
          (SliceIter.It.next SliceIter.IterCopied.blocks (IterCopied.toIt c)))
    ∧ SliceIter.It.next SliceIter.IterCopied.blocks (IterCopied.toIt c) ≠ .panic :=
  ok_of_res (IterCopied_next_res c) (by
    simp only [SliceIter.It.next, IterCopied.toIt, SliceIter.IterCopied.blocks, mapState_ne_panic,
      ↓reduceIte]
    exact IterCopied.nextBlock_ne_panic _)

example : Extracted.IterCopied.next ⟨[1, 2, 3]⟩ = .ok (some (1, ⟨[2, 3]⟩)) := by
  rw [(IterCopied_next_eq _).1]; rfl
example : Extracted.IterCopied.next (⟨[]⟩ : Extracted.IterCopied Nat) = .ok none := by
  rw [(IterCopied_next_eq _).1]; rfl

theorem IterCopied_next_back_res {T : Type} (c : Extracted.IterCopied T) :
    Extracted.IterCopied.next_back c
      = stepRes IterCopied.ofIt
          (SliceIter.It.nextBack SliceIter.IterCopied.blocks (IterCopied.toIt c)) := by
  unfold Extracted.IterCopied.next_back
  unfold IterCopied.toIt IterCopied.toModel IterCopied.ofIt IterCopied.ofModel
  simp only [SliceIter.It.nextBack, SliceIter.IterCopied.blocks, SliceIter.IterCopied.nextBackBlock]
  by_cases h : c.slice = []
  · simp [h, unsnoc_nil, stepRes, SliceIter.Step.mapState]
  · simp [h, unsnoc_of_ne_nil _ h, stepRes, SliceIter.Step.mapState]

theorem IterCopied_next_back_eq {T : Type} (c : Extracted.IterCopied T) :
    Extracted.IterCopied.next_back c
      = .ok (stepOpt IterCopied.ofIt
          (SliceIter.It.nextBack SliceIter.IterCopied.blocks (IterCopied.toIt c)))
    ∧ SliceIter.It.nextBack SliceIter.IterCopied.blocks (IterCopied.toIt c) ≠ .panic :=
  ok_of_res (IterCopied_next_back_res c) (by
    simp only [SliceIter.It.nextBack, IterCopied.toIt, SliceIter.IterCopied.blocks, mapState_ne_panic,
      ↓reduceIte]
    exact IterCopied.nextBackBlock_ne_panic _)

example : Extracted.IterCopied.next_back ⟨[1, 2, 3]⟩ = .ok (some (3, ⟨[1, 2]⟩)) := by
  rw [(IterCopied_next_back_eq _).1]; rfl
example : Extracted.IterCopied.next_back (⟨[]⟩ : Extracted.IterCopied Nat) = .ok none := by
  rw [(IterCopied_next_back_eq _).1]; rfl

theorem IterCopied_as_slice_eq {T : Type} (c : Extracted.IterCopied T) :
    Extracted.IterCopied.as_slice c = .ok (SliceIter.IterCopied.asSlice (IterCopied.toIt c)) := rfl

theorem IterCopied_copy_eq {T : Type} (c : Extracted.IterCopied T) :
    Extracted.IterCopied.copy c
      = .ok (IterCopied.ofIt (SliceIter.It.copy (IterCopied.toIt c))) := rfl

example : Extracted.IterCopied.as_slice ⟨[1, 2, 3]⟩ = .ok [1, 2, 3] := by
  rw [IterCopied_as_slice_eq]; rfl
example : Extracted.IterCopied.copy ⟨[1, 2, 3]⟩ = .ok ⟨[1, 2, 3]⟩ := by
  rw [IterCopied_copy_eq]; rfl

/-! ### `IterCopiedRev` -/

/-- `IterCopiedRev::next` is the text of `IterCopied::next_back` (model: `It.next` at `fwd = false`) -/
theorem IterCopiedRev_next_res {T : Type} (c : Extracted.IterCopiedRev T) :
    Extracted.IterCopiedRev.next c
      = stepRes IterCopiedRev.ofIt
          (SliceIter.It.next SliceIter.IterCopied.blocks (IterCopiedRev.toIt c)) := by
  unfold Extracted.IterCopiedRev.next
  unfold IterCopiedRev.toIt IterCopiedRev.toModel IterCopiedRev.ofIt IterCopiedRev.ofModel
  simp only [SliceIter.It.next, SliceIter.IterCopied.blocks, SliceIter.IterCopied.nextBackBlock]
  by_cases h : c.slice = []
  · simp [h, unsnoc_nil, stepRes, SliceIter.Step.mapState]
  · simp [h, unsnoc_of_ne_nil _ h, stepRes, SliceIter.Step.mapState]

theorem IterCopiedRev_next_eq {T : Type} (c : Extracted.IterCopiedRev T) :
    Extracted.IterCopiedRev.next c
      = .ok (stepOpt IterCopiedRev.ofIt
          (SliceIter.It.next SliceIter.IterCopied.blocks (IterCopiedRev.toIt c)))
    ∧ SliceIter.It.next SliceIter.IterCopied.blocks (IterCopiedRev.toIt c) ≠ .panic :=
  ok_of_res (IterCopiedRev_next_res c) (by
    simp only [SliceIter.It.next, IterCopiedRev.toIt, SliceIter.IterCopied.blocks, mapState_ne_panic,
      Bool.false_eq_true, ↓reduceIte]
    exact IterCopied.nextBackBlock_ne_panic _)

example : Extracted.IterCopiedRev.next ⟨[1, 2, 3]⟩ = .ok (some (3, ⟨[1, 2]⟩)) := by
  rw [(IterCopiedRev_next_eq _).1]; rfl
example : Extracted.IterCopiedRev.next (⟨[]⟩ : Extracted.IterCopiedRev Nat) = .ok none := by
  rw [(IterCopiedRev_next_eq _).1]; rfl

/-- `IterCopiedRev::next_back` is the text of `IterCopied::next` -/
theorem IterCopiedRev_next_back_res {T : Type} (c : Extracted.IterCopiedRev T) :
    Extracted.IterCopiedRev.next_back c
      = stepRes IterCopiedRev.ofIt
          (SliceIter.It.nextBack SliceIter.IterCopied.blocks (IterCopiedRev.toIt c)) := by
  unfold Extracted.IterCopiedRev.next_back
  unfold IterCopiedRev.toIt IterCopiedRev.toModel IterCopiedRev.ofIt IterCopiedRev.ofModel
  simp only [SliceIter.It.nextBack, SliceIter.IterCopied.blocks, SliceIter.IterCopied.nextBlock]
  rcases c with ⟨_ | ⟨x, xs⟩⟩ <;> simp [stepRes, SliceIter.Step.mapState]

theorem IterCopiedRev_next_back_eq {T : Type} (c : Extracted.IterCopiedRev T) :
    Extracted.IterCopiedRev.next_back c
      = .ok (stepOpt IterCopiedRev.ofIt
          (SliceIter.It.nextBack SliceIter.IterCopied.blocks (IterCopiedRev.toIt c)))
    ∧ SliceIter.It.nextBack SliceIter.IterCopied.blocks (IterCopiedRev.toIt c) ≠ .panic :=
  ok_of_res (IterCopiedRev_next_back_res c) (by
    simp only [SliceIter.It.nextBack, IterCopiedRev.toIt, SliceIter.IterCopied.blocks,
      mapState_ne_panic, Bool.false_eq_true, ↓reduceIte]
    exact IterCopied.nextBlock_ne_panic _)

example : Extracted.IterCopiedRev.next_back ⟨[1, 2, 3]⟩ = .ok (some (1, ⟨[2, 3]⟩)) := by
  rw [(IterCopiedRev_next_back_eq _).1]; rfl

theorem IterCopiedRev_as_slice_eq {T : Type} (c : Extracted.IterCopiedRev T) :
    Extracted.IterCopiedRev.as_slice c
      = .ok (SliceIter.IterCopied.asSlice (IterCopiedRev.toIt c)) := rfl

theorem IterCopiedRev_copy_eq {T : Type} (c : Extracted.IterCopiedRev T) :
    Extracted.IterCopiedRev.copy c
      = .ok (IterCopiedRev.ofIt (SliceIter.It.copy (IterCopiedRev.toIt c))) := rfl

example : Extracted.IterCopiedRev.as_slice ⟨[1, 2, 3]⟩ = .ok [1, 2, 3] := by
  rw [IterCopiedRev_as_slice_eq]; rfl
example : Extracted.IterCopiedRev.copy ⟨[1, 2, 3]⟩ = .ok ⟨[1, 2, 3]⟩ := by
  rw [IterCopiedRev_copy_eq]; rfl

end Extracted.Equiv
