import KonstVerif.Extracted.Gen.Cmp3
import KonstVerif.Extracted.Equiv.Cmp2
import KonstVerif.Model.Cmp
import KonstVerif.Spec.Cmp
/-
  Extracted (regenerated from /repo) = Model, and = std, for the comparison functions of group
  `Cmp3` (C16): `cmp_<int>` for the integer types not covered by `Equiv/Cmp.lean` / `Equiv/Cmp2.lean`
  (`u16`, `u128`, `i16`, `i32`, `i64`, `isize`) and `eq_option_<int>` / `cmp_option_<int>` for
  `u16 u32 u64 u128 usize i16 i32 i64 i128 isize`.

  The 26 generated definitions are, character for character, the text of their `Cmp2` siblings
  (`cmp_u8` / `cmp_i8`, `eq_option_u8` / `eq_option_i8`, `cmp_option_u8` / `cmp_option_i8`): the Rust
  functions come out of the same macros, and the extraction keeps every `uN` as `Nat` and every `iN`
  as `Int`.  So each one is an instance of `cmpScalarFn` / `eqOptionFn` / `cmpOptionFn` of
  `Equiv/Cmp2.lean` (`*_fn`), and the theorems below are the `Cmp2` statements verbatim, proved
  once per carrier type (`*_nat_*`, `*_int_*`) and instantiated:

    `<f>_eq`   regenerated definition = model definition (`Model/Cmp.lean`: `cmpInt`, and
               `eqOption` over `eqPrim` / `cmpOption` over `cmpInt`, through `Int.ofNat` for the
               unsigned types; `∃ v, model = some v ∧ extracted = .ok v` where the model has a
               panic channel)
    `<f>_std`  regenerated definition = std (`Spec/Cmp.lean`): `compare` on `Nat` / `Int`,
               `stdEq` (`==`) and `optCmp compare` (`None < Some`) on `Option`.
  All theorems hold for all arguments, without hypotheses (no fuel: the functions are loop-free).
-/
namespace Extracted.Equiv
open Rs Konst Konst.Cmp Konst.Spec.Cmp

/-! ### every function of a carrier type at once

  `f` ranges over functions equal to the common text; the `*_fn` equations below supply the
  hypothesis for each generated definition. -/

theorem cmp_nat_eq {f : Nat → Nat → Res Ordering} (hf : f = cmpScalarFn (α := Nat)) (left right : Nat) :
    f left right = .ok (cmpInt (Int.ofNat left) (Int.ofNat right)) :=
  hf ▸ cmpScalarFn_eq Int.ofNat ofNat_inj ofNat_lt left right

theorem cmp_nat_std {f : Nat → Nat → Res Ordering} (hf : f = cmpScalarFn (α := Nat)) (left right : Nat) :
    f left right = .ok (compare left right) := by
  rw [hf, cmpScalarFn_val, compare_nat]

theorem cmp_int_eq {f : Int → Int → Res Ordering} (hf : f = cmpScalarFn (α := Int)) (left right : Int) :
    f left right = .ok (cmpInt left right) :=
  hf ▸ cmpScalarFn_eq id id_inj id_lt left right

theorem cmp_int_std {f : Int → Int → Res Ordering} (hf : f = cmpScalarFn (α := Int)) (left right : Int) :
    f left right = .ok (compare left right) := by
  rw [hf, cmpScalarFn_val, compare_int]

theorem eq_option_nat_eq {f : Option Nat → Option Nat → Res Bool} (hf : f = eqOptionFn (α := Nat))
    (left right : Option Nat) :
    ∃ b, eqOption (fun a b => some (eqPrim a b)) (left.map Int.ofNat) (right.map Int.ofNat) = some b ∧
      f left right = .ok b :=
  hf ▸ eqOptionFn_eq Int.ofNat ofNat_inj left right

theorem eq_option_int_eq {f : Option Int → Option Int → Res Bool} (hf : f = eqOptionFn (α := Int))
    (left right : Option Int) :
    ∃ b, eqOption (fun a b => some (eqPrim a b)) left right = some b ∧ f left right = .ok b := by
  have h := eqOptionFn_eq id id_inj left right
  simp only [Option.map_id_fun, id_eq] at h
  exact hf ▸ h

theorem eq_option_std {α : Type} [DecidableEq α] {f : Option α → Option α → Res Bool}
    (hf : f = eqOptionFn (α := α)) (left right : Option α) :
    f left right = .ok (stdEq left right) :=
  hf ▸ eqOptionFn_std left right

theorem cmp_option_nat_eq {f : Option Nat → Option Nat → Res Ordering} (hf : f = cmpOptionFn (α := Nat))
    (left right : Option Nat) :
    ∃ c, cmpOption (fun a b => some (cmpInt a b)) (left.map Int.ofNat) (right.map Int.ofNat) = some c ∧
      f left right = .ok c :=
  hf ▸ cmpOptionFn_eq Int.ofNat ofNat_inj ofNat_lt left right

theorem cmp_option_int_eq {f : Option Int → Option Int → Res Ordering} (hf : f = cmpOptionFn (α := Int))
    (left right : Option Int) :
    ∃ c, cmpOption (fun a b => some (cmpInt a b)) left right = some c ∧ f left right = .ok c := by
  have h := cmpOptionFn_eq id id_inj id_lt left right
  simp only [Option.map_id_fun, id_eq] at h
  exact hf ▸ h

theorem cmp_option_nat_std {f : Option Nat → Option Nat → Res Ordering} (hf : f = cmpOptionFn (α := Nat))
    (left right : Option Nat) : f left right = .ok (optCmp compare left right) := by
  rw [hf, cmpOptionFn_val]
  simp only [← compare_nat]

theorem cmp_option_int_std {f : Option Int → Option Int → Res Ordering} (hf : f = cmpOptionFn (α := Int))
    (left right : Option Int) : f left right = .ok (optCmp compare left right) := by
  rw [hf, cmpOptionFn_val]
  simp only [← compare_int]

/-! ### each generated definition is the common text

  `rfl` for the scalar functions; the `match` of every `Option` function is its own auxiliary
  matcher, so those are `rfl` after `cases` on the two arguments (as in `Equiv/Cmp2.lean`). -/

theorem cmp_u16_fn : Extracted.cmp_u16 = cmpScalarFn (α := Nat) := rfl
theorem cmp_u128_fn : Extracted.cmp_u128 = cmpScalarFn (α := Nat) := rfl
theorem cmp_i16_fn : Extracted.cmp_i16 = cmpScalarFn (α := Int) := rfl
theorem cmp_i32_fn : Extracted.cmp_i32 = cmpScalarFn (α := Int) := rfl
theorem cmp_i64_fn : Extracted.cmp_i64 = cmpScalarFn (α := Int) := rfl
theorem cmp_isize_fn : Extracted.cmp_isize = cmpScalarFn (α := Int) := rfl
theorem eq_option_u16_fn : Extracted.eq_option_u16 = eqOptionFn (α := Nat) := by
  funext l r; cases l <;> cases r <;> rfl
theorem cmp_option_u16_fn : Extracted.cmp_option_u16 = cmpOptionFn (α := Nat) := by
  funext l r; cases l <;> cases r <;> rfl
theorem eq_option_u32_fn : Extracted.eq_option_u32 = eqOptionFn (α := Nat) := by
  funext l r; cases l <;> cases r <;> rfl
theorem cmp_option_u32_fn : Extracted.cmp_option_u32 = cmpOptionFn (α := Nat) := by
  funext l r; cases l <;> cases r <;> rfl
theorem eq_option_u64_fn : Extracted.eq_option_u64 = eqOptionFn (α := Nat) := by
  funext l r; cases l <;> cases r <;> rfl
theorem cmp_option_u64_fn : Extracted.cmp_option_u64 = cmpOptionFn (α := Nat) := by
  funext l r; cases l <;> cases r <;> rfl
theorem eq_option_u128_fn : Extracted.eq_option_u128 = eqOptionFn (α := Nat) := by
  funext l r; cases l <;> cases r <;> rfl
theorem cmp_option_u128_fn : Extracted.cmp_option_u128 = cmpOptionFn (α := Nat) := by
  funext l r; cases l <;> cases r <;> rfl
theorem eq_option_usize_fn : Extracted.eq_option_usize = eqOptionFn (α := Nat) := by
  funext l r; cases l <;> cases r <;> rfl
theorem cmp_option_usize_fn : Extracted.cmp_option_usize = cmpOptionFn (α := Nat) := by
  funext l r; cases l <;> cases r <;> rfl
theorem eq_option_i16_fn : Extracted.eq_option_i16 = eqOptionFn (α := Int) := by
  funext l r; cases l <;> cases r <;> rfl
theorem cmp_option_i16_fn : Extracted.cmp_option_i16 = cmpOptionFn (α := Int) := by
  funext l r; cases l <;> cases r <;> rfl
theorem eq_option_i32_fn : Extracted.eq_option_i32 = eqOptionFn (α := Int) := by
  funext l r; cases l <;> cases r <;> rfl
theorem cmp_option_i32_fn : Extracted.cmp_option_i32 = cmpOptionFn (α := Int) := by
  funext l r; cases l <;> cases r <;> rfl
theorem eq_option_i64_fn : Extracted.eq_option_i64 = eqOptionFn (α := Int) := by
  funext l r; cases l <;> cases r <;> rfl
theorem cmp_option_i64_fn : Extracted.cmp_option_i64 = cmpOptionFn (α := Int) := by
  funext l r; cases l <;> cases r <;> rfl
theorem eq_option_i128_fn : Extracted.eq_option_i128 = eqOptionFn (α := Int) := by
  funext l r; cases l <;> cases r <;> rfl
theorem cmp_option_i128_fn : Extracted.cmp_option_i128 = cmpOptionFn (α := Int) := by
  funext l r; cases l <;> cases r <;> rfl
theorem eq_option_isize_fn : Extracted.eq_option_isize = eqOptionFn (α := Int) := by
  funext l r; cases l <;> cases r <;> rfl
theorem cmp_option_isize_fn : Extracted.cmp_option_isize = cmpOptionFn (α := Int) := by
  funext l r; cases l <;> cases r <;> rfl

/-! ### the equivalence theorems: scalars -/

/-! #### `u16` -/

theorem cmp_u16_eq (left right : Nat) :
    Extracted.cmp_u16 left right = .ok (cmpInt (Int.ofNat left) (Int.ofNat right)) :=
  cmp_nat_eq cmp_u16_fn left right

theorem cmp_u16_std (left right : Nat) : Extracted.cmp_u16 left right = .ok (compare left right) :=
  cmp_nat_std cmp_u16_fn left right

example : Extracted.cmp_u16 65535 0 = .ok .gt := by decide
example : Extracted.cmp_u16 3 65535 = .ok (cmpInt 3 65535) := cmp_u16_eq 3 65535
example : Extracted.cmp_u16 7 7 = .ok .eq := by decide

/-! #### `u128` -/

theorem cmp_u128_eq (left right : Nat) :
    Extracted.cmp_u128 left right = .ok (cmpInt (Int.ofNat left) (Int.ofNat right)) :=
  cmp_nat_eq cmp_u128_fn left right

theorem cmp_u128_std (left right : Nat) : Extracted.cmp_u128 left right = .ok (compare left right) :=
  cmp_nat_std cmp_u128_fn left right

example : Extracted.cmp_u128 340282366920938463463374607431768211455 0 = .ok .gt := by decide
example : Extracted.cmp_u128 3 340282366920938463463374607431768211455 = .ok (cmpInt 3 340282366920938463463374607431768211455) := cmp_u128_eq 3 340282366920938463463374607431768211455
example : Extracted.cmp_u128 7 7 = .ok .eq := by decide

/-! #### `i16` -/

theorem cmp_i16_eq (left right : Int) :
    Extracted.cmp_i16 left right = .ok (cmpInt left right) :=
  cmp_int_eq cmp_i16_fn left right

theorem cmp_i16_std (left right : Int) : Extracted.cmp_i16 left right = .ok (compare left right) :=
  cmp_int_std cmp_i16_fn left right

example : Extracted.cmp_i16 (-32768) 32767 = .ok .lt := by decide
example : Extracted.cmp_i16 (-1) (-2) = .ok (cmpInt (-1) (-2)) := cmp_i16_eq (-1) (-2)
example : Extracted.cmp_i16 (-5) (-5) = .ok .eq := by decide

/-! #### `i32` -/

theorem cmp_i32_eq (left right : Int) :
    Extracted.cmp_i32 left right = .ok (cmpInt left right) :=
  cmp_int_eq cmp_i32_fn left right

theorem cmp_i32_std (left right : Int) : Extracted.cmp_i32 left right = .ok (compare left right) :=
  cmp_int_std cmp_i32_fn left right

example : Extracted.cmp_i32 (-2147483648) 2147483647 = .ok .lt := by decide
example : Extracted.cmp_i32 (-1) (-2) = .ok (cmpInt (-1) (-2)) := cmp_i32_eq (-1) (-2)
example : Extracted.cmp_i32 (-5) (-5) = .ok .eq := by decide

/-! #### `i64` -/

theorem cmp_i64_eq (left right : Int) :
    Extracted.cmp_i64 left right = .ok (cmpInt left right) :=
  cmp_int_eq cmp_i64_fn left right

theorem cmp_i64_std (left right : Int) : Extracted.cmp_i64 left right = .ok (compare left right) :=
  cmp_int_std cmp_i64_fn left right

example : Extracted.cmp_i64 (-9223372036854775808) 9223372036854775807 = .ok .lt := by decide
example : Extracted.cmp_i64 (-1) (-2) = .ok (cmpInt (-1) (-2)) := cmp_i64_eq (-1) (-2)
example : Extracted.cmp_i64 (-5) (-5) = .ok .eq := by decide

/-! #### `isize` -/

theorem cmp_isize_eq (left right : Int) :
    Extracted.cmp_isize left right = .ok (cmpInt left right) :=
  cmp_int_eq cmp_isize_fn left right

theorem cmp_isize_std (left right : Int) : Extracted.cmp_isize left right = .ok (compare left right) :=
  cmp_int_std cmp_isize_fn left right

example : Extracted.cmp_isize (-9223372036854775808) 9223372036854775807 = .ok .lt := by decide
example : Extracted.cmp_isize (-1) (-2) = .ok (cmpInt (-1) (-2)) := cmp_isize_eq (-1) (-2)
example : Extracted.cmp_isize (-5) (-5) = .ok .eq := by decide

/-! ### the equivalence theorems: `Option` of an integer -/

/-! #### `Option<u16>` -/

theorem eq_option_u16_eq (left right : Option Nat) :
    ∃ b, eqOption (fun a b => some (eqPrim a b)) (left.map Int.ofNat) (right.map Int.ofNat) = some b ∧
      Extracted.eq_option_u16 left right = .ok b :=
  eq_option_nat_eq eq_option_u16_fn left right

theorem eq_option_u16_std (left right : Option Nat) :
    Extracted.eq_option_u16 left right = .ok (stdEq left right) :=
  eq_option_std eq_option_u16_fn left right

theorem cmp_option_u16_eq (left right : Option Nat) :
    ∃ c, cmpOption (fun a b => some (cmpInt a b)) (left.map Int.ofNat) (right.map Int.ofNat) = some c ∧
      Extracted.cmp_option_u16 left right = .ok c :=
  cmp_option_nat_eq cmp_option_u16_fn left right

theorem cmp_option_u16_std (left right : Option Nat) :
    Extracted.cmp_option_u16 left right = .ok (optCmp compare left right) :=
  cmp_option_nat_std cmp_option_u16_fn left right

example : Extracted.eq_option_u16 (some 65535) (some 65535) = .ok true := by decide
example : Extracted.eq_option_u16 (some 3) none = .ok false := by decide
example : Extracted.cmp_option_u16 none (some 0) = .ok .lt := by decide
example : Extracted.cmp_option_u16 (some 9) (some 65535) = .ok .lt := by decide
example : ∃ c, cmpOption (fun a b => some (cmpInt a b)) (some 9) none = some c ∧
    Extracted.cmp_option_u16 (some 9) none = .ok c := cmp_option_u16_eq (some 9) none

/-! #### `Option<u32>` -/

theorem eq_option_u32_eq (left right : Option Nat) :
    ∃ b, eqOption (fun a b => some (eqPrim a b)) (left.map Int.ofNat) (right.map Int.ofNat) = some b ∧
      Extracted.eq_option_u32 left right = .ok b :=
  eq_option_nat_eq eq_option_u32_fn left right

theorem eq_option_u32_std (left right : Option Nat) :
    Extracted.eq_option_u32 left right = .ok (stdEq left right) :=
  eq_option_std eq_option_u32_fn left right

theorem cmp_option_u32_eq (left right : Option Nat) :
    ∃ c, cmpOption (fun a b => some (cmpInt a b)) (left.map Int.ofNat) (right.map Int.ofNat) = some c ∧
      Extracted.cmp_option_u32 left right = .ok c :=
  cmp_option_nat_eq cmp_option_u32_fn left right

theorem cmp_option_u32_std (left right : Option Nat) :
    Extracted.cmp_option_u32 left right = .ok (optCmp compare left right) :=
  cmp_option_nat_std cmp_option_u32_fn left right

example : Extracted.eq_option_u32 (some 4294967295) (some 4294967295) = .ok true := by decide
example : Extracted.eq_option_u32 (some 3) none = .ok false := by decide
example : Extracted.cmp_option_u32 none (some 0) = .ok .lt := by decide
example : Extracted.cmp_option_u32 (some 9) (some 4294967295) = .ok .lt := by decide
example : ∃ c, cmpOption (fun a b => some (cmpInt a b)) (some 9) none = some c ∧
    Extracted.cmp_option_u32 (some 9) none = .ok c := cmp_option_u32_eq (some 9) none

/-! #### `Option<u64>` -/

theorem eq_option_u64_eq (left right : Option Nat) :
    ∃ b, eqOption (fun a b => some (eqPrim a b)) (left.map Int.ofNat) (right.map Int.ofNat) = some b ∧
      Extracted.eq_option_u64 left right = .ok b :=
  eq_option_nat_eq eq_option_u64_fn left right

theorem eq_option_u64_std (left right : Option Nat) :
    Extracted.eq_option_u64 left right = .ok (stdEq left right) :=
  eq_option_std eq_option_u64_fn left right

theorem cmp_option_u64_eq (left right : Option Nat) :
    ∃ c, cmpOption (fun a b => some (cmpInt a b)) (left.map Int.ofNat) (right.map Int.ofNat) = some c ∧
      Extracted.cmp_option_u64 left right = .ok c :=
  cmp_option_nat_eq cmp_option_u64_fn left right

theorem cmp_option_u64_std (left right : Option Nat) :
    Extracted.cmp_option_u64 left right = .ok (optCmp compare left right) :=
  cmp_option_nat_std cmp_option_u64_fn left right

example : Extracted.eq_option_u64 (some 18446744073709551615) (some 18446744073709551615) = .ok true := by decide
example : Extracted.eq_option_u64 (some 3) none = .ok false := by decide
example : Extracted.cmp_option_u64 none (some 0) = .ok .lt := by decide
example : Extracted.cmp_option_u64 (some 9) (some 18446744073709551615) = .ok .lt := by decide
example : ∃ c, cmpOption (fun a b => some (cmpInt a b)) (some 9) none = some c ∧
    Extracted.cmp_option_u64 (some 9) none = .ok c := cmp_option_u64_eq (some 9) none

/-! #### `Option<u128>` -/

theorem eq_option_u128_eq (left right : Option Nat) :
    ∃ b, eqOption (fun a b => some (eqPrim a b)) (left.map Int.ofNat) (right.map Int.ofNat) = some b ∧
      Extracted.eq_option_u128 left right = .ok b :=
  eq_option_nat_eq eq_option_u128_fn left right

theorem eq_option_u128_std (left right : Option Nat) :
    Extracted.eq_option_u128 left right = .ok (stdEq left right) :=
  eq_option_std eq_option_u128_fn left right

theorem cmp_option_u128_eq (left right : Option Nat) :
    ∃ c, cmpOption (fun a b => some (cmpInt a b)) (left.map Int.ofNat) (right.map Int.ofNat) = some c ∧
      Extracted.cmp_option_u128 left right = .ok c :=
  cmp_option_nat_eq cmp_option_u128_fn left right

theorem cmp_option_u128_std (left right : Option Nat) :
    Extracted.cmp_option_u128 left right = .ok (optCmp compare left right) :=
  cmp_option_nat_std cmp_option_u128_fn left right

example : Extracted.eq_option_u128 (some 340282366920938463463374607431768211455) (some 340282366920938463463374607431768211455) = .ok true := by decide
example : Extracted.eq_option_u128 (some 3) none = .ok false := by decide
example : Extracted.cmp_option_u128 none (some 0) = .ok .lt := by decide
example : Extracted.cmp_option_u128 (some 9) (some 340282366920938463463374607431768211455) = .ok .lt := by decide
example : ∃ c, cmpOption (fun a b => some (cmpInt a b)) (some 9) none = some c ∧
    Extracted.cmp_option_u128 (some 9) none = .ok c := cmp_option_u128_eq (some 9) none

/-! #### `Option<usize>` -/

theorem eq_option_usize_eq (left right : Option Nat) :
    ∃ b, eqOption (fun a b => some (eqPrim a b)) (left.map Int.ofNat) (right.map Int.ofNat) = some b ∧
      Extracted.eq_option_usize left right = .ok b :=
  eq_option_nat_eq eq_option_usize_fn left right

theorem eq_option_usize_std (left right : Option Nat) :
    Extracted.eq_option_usize left right = .ok (stdEq left right) :=
  eq_option_std eq_option_usize_fn left right

theorem cmp_option_usize_eq (left right : Option Nat) :
    ∃ c, cmpOption (fun a b => some (cmpInt a b)) (left.map Int.ofNat) (right.map Int.ofNat) = some c ∧
      Extracted.cmp_option_usize left right = .ok c :=
  cmp_option_nat_eq cmp_option_usize_fn left right

theorem cmp_option_usize_std (left right : Option Nat) :
    Extracted.cmp_option_usize left right = .ok (optCmp compare left right) :=
  cmp_option_nat_std cmp_option_usize_fn left right

example : Extracted.eq_option_usize (some 18446744073709551615) (some 18446744073709551615) = .ok true := by decide
example : Extracted.eq_option_usize (some 3) none = .ok false := by decide
example : Extracted.cmp_option_usize none (some 0) = .ok .lt := by decide
example : Extracted.cmp_option_usize (some 9) (some 18446744073709551615) = .ok .lt := by decide
example : ∃ c, cmpOption (fun a b => some (cmpInt a b)) (some 9) none = some c ∧
    Extracted.cmp_option_usize (some 9) none = .ok c := cmp_option_usize_eq (some 9) none

/-! #### `Option<i16>` -/

theorem eq_option_i16_eq (left right : Option Int) :
    ∃ b, eqOption (fun a b => some (eqPrim a b)) left right = some b ∧
      Extracted.eq_option_i16 left right = .ok b :=
  eq_option_int_eq eq_option_i16_fn left right

theorem eq_option_i16_std (left right : Option Int) :
    Extracted.eq_option_i16 left right = .ok (stdEq left right) :=
  eq_option_std eq_option_i16_fn left right

theorem cmp_option_i16_eq (left right : Option Int) :
    ∃ c, cmpOption (fun a b => some (cmpInt a b)) left right = some c ∧
      Extracted.cmp_option_i16 left right = .ok c :=
  cmp_option_int_eq cmp_option_i16_fn left right

theorem cmp_option_i16_std (left right : Option Int) :
    Extracted.cmp_option_i16 left right = .ok (optCmp compare left right) :=
  cmp_option_int_std cmp_option_i16_fn left right

example : Extracted.eq_option_i16 (some (-1)) (some 1) = .ok false := by decide
example : Extracted.eq_option_i16 none none = .ok true := by decide
example : Extracted.cmp_option_i16 (some (-32768)) (some 32767) = .ok .lt := by decide
example : Extracted.cmp_option_i16 (some (-32768)) none = .ok .gt := by decide
example : ∃ c, cmpOption (fun a b => some (cmpInt a b)) (some (-3)) (some (-3)) = some c ∧
    Extracted.cmp_option_i16 (some (-3)) (some (-3)) = .ok c := cmp_option_i16_eq (some (-3)) (some (-3))

/-! #### `Option<i32>` -/

theorem eq_option_i32_eq (left right : Option Int) :
    ∃ b, eqOption (fun a b => some (eqPrim a b)) left right = some b ∧
      Extracted.eq_option_i32 left right = .ok b :=
  eq_option_int_eq eq_option_i32_fn left right

theorem eq_option_i32_std (left right : Option Int) :
    Extracted.eq_option_i32 left right = .ok (stdEq left right) :=
  eq_option_std eq_option_i32_fn left right

theorem cmp_option_i32_eq (left right : Option Int) :
    ∃ c, cmpOption (fun a b => some (cmpInt a b)) left right = some c ∧
      Extracted.cmp_option_i32 left right = .ok c :=
  cmp_option_int_eq cmp_option_i32_fn left right

theorem cmp_option_i32_std (left right : Option Int) :
    Extracted.cmp_option_i32 left right = .ok (optCmp compare left right) :=
  cmp_option_int_std cmp_option_i32_fn left right

example : Extracted.eq_option_i32 (some (-1)) (some 1) = .ok false := by decide
example : Extracted.eq_option_i32 none none = .ok true := by decide
example : Extracted.cmp_option_i32 (some (-2147483648)) (some 2147483647) = .ok .lt := by decide
example : Extracted.cmp_option_i32 (some (-2147483648)) none = .ok .gt := by decide
example : ∃ c, cmpOption (fun a b => some (cmpInt a b)) (some (-3)) (some (-3)) = some c ∧
    Extracted.cmp_option_i32 (some (-3)) (some (-3)) = .ok c := cmp_option_i32_eq (some (-3)) (some (-3))

/-! #### `Option<i64>` -/

theorem eq_option_i64_eq (left right : Option Int) :
    ∃ b, eqOption (fun a b => some (eqPrim a b)) left right = some b ∧
      Extracted.eq_option_i64 left right = .ok b :=
  eq_option_int_eq eq_option_i64_fn left right

theorem eq_option_i64_std (left right : Option Int) :
    Extracted.eq_option_i64 left right = .ok (stdEq left right) :=
  eq_option_std eq_option_i64_fn left right

theorem cmp_option_i64_eq (left right : Option Int) :
    ∃ c, cmpOption (fun a b => some (cmpInt a b)) left right = some c ∧
      Extracted.cmp_option_i64 left right = .ok c :=
  cmp_option_int_eq cmp_option_i64_fn left right

theorem cmp_option_i64_std (left right : Option Int) :
    Extracted.cmp_option_i64 left right = .ok (optCmp compare left right) :=
  cmp_option_int_std cmp_option_i64_fn left right

example : Extracted.eq_option_i64 (some (-1)) (some 1) = .ok false := by decide
example : Extracted.eq_option_i64 none none = .ok true := by decide
example : Extracted.cmp_option_i64 (some (-9223372036854775808)) (some 9223372036854775807) = .ok .lt := by decide
example : Extracted.cmp_option_i64 (some (-9223372036854775808)) none = .ok .gt := by decide
example : ∃ c, cmpOption (fun a b => some (cmpInt a b)) (some (-3)) (some (-3)) = some c ∧
    Extracted.cmp_option_i64 (some (-3)) (some (-3)) = .ok c := cmp_option_i64_eq (some (-3)) (some (-3))

/-! #### `Option<i128>` -/

theorem eq_option_i128_eq (left right : Option Int) :
    ∃ b, eqOption (fun a b => some (eqPrim a b)) left right = some b ∧
      Extracted.eq_option_i128 left right = .ok b :=
  eq_option_int_eq eq_option_i128_fn left right

theorem eq_option_i128_std (left right : Option Int) :
    Extracted.eq_option_i128 left right = .ok (stdEq left right) :=
  eq_option_std eq_option_i128_fn left right

theorem cmp_option_i128_eq (left right : Option Int) :
    ∃ c, cmpOption (fun a b => some (cmpInt a b)) left right = some c ∧
      Extracted.cmp_option_i128 left right = .ok c :=
  cmp_option_int_eq cmp_option_i128_fn left right

theorem cmp_option_i128_std (left right : Option Int) :
    Extracted.cmp_option_i128 left right = .ok (optCmp compare left right) :=
  cmp_option_int_std cmp_option_i128_fn left right

example : Extracted.eq_option_i128 (some (-1)) (some 1) = .ok false := by decide
example : Extracted.eq_option_i128 none none = .ok true := by decide
example : Extracted.cmp_option_i128 (some (-170141183460469231731687303715884105728)) (some 170141183460469231731687303715884105727) = .ok .lt := by decide
example : Extracted.cmp_option_i128 (some (-170141183460469231731687303715884105728)) none = .ok .gt := by decide
example : ∃ c, cmpOption (fun a b => some (cmpInt a b)) (some (-3)) (some (-3)) = some c ∧
    Extracted.cmp_option_i128 (some (-3)) (some (-3)) = .ok c := cmp_option_i128_eq (some (-3)) (some (-3))

/-! #### `Option<isize>` -/

theorem eq_option_isize_eq (left right : Option Int) :
    ∃ b, eqOption (fun a b => some (eqPrim a b)) left right = some b ∧
      Extracted.eq_option_isize left right = .ok b :=
  eq_option_int_eq eq_option_isize_fn left right

theorem eq_option_isize_std (left right : Option Int) :
    Extracted.eq_option_isize left right = .ok (stdEq left right) :=
  eq_option_std eq_option_isize_fn left right

theorem cmp_option_isize_eq (left right : Option Int) :
    ∃ c, cmpOption (fun a b => some (cmpInt a b)) left right = some c ∧
      Extracted.cmp_option_isize left right = .ok c :=
  cmp_option_int_eq cmp_option_isize_fn left right

theorem cmp_option_isize_std (left right : Option Int) :
    Extracted.cmp_option_isize left right = .ok (optCmp compare left right) :=
  cmp_option_int_std cmp_option_isize_fn left right

example : Extracted.eq_option_isize (some (-1)) (some 1) = .ok false := by decide
example : Extracted.eq_option_isize none none = .ok true := by decide
example : Extracted.cmp_option_isize (some (-9223372036854775808)) (some 9223372036854775807) = .ok .lt := by decide
example : Extracted.cmp_option_isize (some (-9223372036854775808)) none = .ok .gt := by decide
example : ∃ c, cmpOption (fun a b => some (cmpInt a b)) (some (-3)) (some (-3)) = some c ∧
    Extracted.cmp_option_isize (some (-3)) (some (-3)) = .ok c := cmp_option_isize_eq (some (-3)) (some (-3))

end Extracted.Equiv
