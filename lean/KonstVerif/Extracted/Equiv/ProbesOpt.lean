import KonstVerif.Extracted.Gen.ProbesOpt
import KonstVerif.Model.OptRes
import KonstVerif.Spec.OptRes
/-
  Equivalence of the regenerated probe functions `Extracted.op_*`, `Extracted.rs_*`, `Extracted.tr_*`
  (rs2lean over the rustc-expanded call sites of konst's `option::*!`, `result::*!`, `try_!`, `try_opt!`
  in translator/probes/src/lib.rs) with the hand-written model `Konst.OptRes.*` (Model/OptRes.lean) the
  property theorems of C19 (Props/C19.lean) are about.

  For every probe `f` two theorems:
    * `f_eq`  : `Extracted.f args = .ok <value of the MODEL function instantiated with the same closure>`.
                The closure-taking model functions live in the call-counting monad `Ev`; the value is the
                first projection of `Ev.run` (the projections `Props/C19.lean` uses: `.run.1` value,
                `.run.2` number of closure calls).  The eager forms (`unwrap_or!`, `ok_or!`) take the
                already evaluated argument as the computation `pure d`.
    * `f_std` : the same right-hand side written with the std function (`Option.getD`, `Option.map`,
                `Option.bind`, `Option.orElse`, `Option.join`, `Option.filter`, `Except.toOption`,
                `Except.map`, `Except.mapError`, `Except.bind`, `>>=` for `?`; where Lean's core has no
                such function, the reference definition of `Spec/OptRes.lean`).
  `= .ok v` also says: no panic, no arithmetic overflow.  The only probe that can panic is
  `op_unwrap_or_else` (`|| d + 1` overflows `u32` iff it is evaluated, i.e. iff `o` is `None`, and
  `d = u32::MAX`): `op_unwrap_or_else_panic` / `op_unwrap_or_else_panic_iff` give the exact guard.
  No other probe needs a machine-range hypothesis: `x / 2`, `x % 2`, `x % 256` have a non-zero literal
  divisor, `e as u32` on a `u8` is the identity (translated as `id`), and `(x % 256) as u8`
  (`Rs.castUU 8`) is `x % 256 % 256 = x % 256` for every natural number.
-/
namespace Extracted.Equiv
open Rs Konst Konst.OptRes

/-! ## option:: -/

/-- `option::unwrap_or!(o, d)`: model `optUnwrapOr` with the already evaluated fallback `pure d` -/
theorem op_unwrap_or_eq (o : Option Nat) (d : Nat) :
    Extracted.op_unwrap_or o d = .ok ((optUnwrapOr o (pure d)).run.1) := by
  cases o <;> rfl

theorem op_unwrap_or_std (o : Option Nat) (d : Nat) :
    Extracted.op_unwrap_or o d = .ok (o.getD d) := by
  cases o <;> rfl

example : Extracted.op_unwrap_or none 9 = .ok 9 := op_unwrap_or_std none 9
example : Extracted.op_unwrap_or (some 4) 9 = .ok 4 := op_unwrap_or_std (some 4) 9

/-- `option::unwrap_or_else!(o, || d + 1)`: the closure body is evaluated (in `u32`, overflow-checked)
    only in the `None` arm, so the bound on `d` is needed only there -/
theorem op_unwrap_or_else_eq (o : Option Nat) (d : Nat) (h : o = none → d + 1 < 2 ^ 32) :
    Extracted.op_unwrap_or_else o d = .ok ((optUnwrapOrElse o (fun _ => d + 1)).run.1) := by
  cases o with
  | some x => rfl
  | none =>
    have hd : d + 1 < 2 ^ 32 := h rfl
    simp [Extracted.op_unwrap_or_else, Rs.uadd, hd, optUnwrapOrElse, Ev.call, Ev.run]

theorem op_unwrap_or_else_std (o : Option Nat) (d : Nat) (h : o = none → d + 1 < 2 ^ 32) :
    Extracted.op_unwrap_or_else o d = .ok (o.getD (d + 1)) := by
  rw [op_unwrap_or_else_eq o d h]
  cases o <;> rfl

/-- the panic branch: `None` and `d = u32::MAX` (or anything larger, were it a `u32`) -/
theorem op_unwrap_or_else_panic (d : Nat) (h : 2 ^ 32 ≤ d + 1) :
    Extracted.op_unwrap_or_else none d = .panic := by
  have hd : ¬ d + 1 < 2 ^ 32 := by omega
  simp [Extracted.op_unwrap_or_else, Rs.uadd, hd]

/-- exact guard: the probe panics iff the closure runs and overflows; it never returns `ub`/`nofuel` -/
theorem op_unwrap_or_else_panic_iff (o : Option Nat) (d : Nat) :
    Extracted.op_unwrap_or_else o d = .panic ↔ (o = none ∧ 2 ^ 32 ≤ d + 1) := by
  cases o with
  | some x =>
    have : Extracted.op_unwrap_or_else (some x) d = .ok x := rfl
    simp [this]
  | none =>
    by_cases hd : d + 1 < 2 ^ 32
    · rw [op_unwrap_or_else_eq none d (fun _ => hd)]
      constructor
      · intro h; cases h
      · intro h; omega
    · rw [op_unwrap_or_else_panic d (by omega)]
      simp; omega

example : Extracted.op_unwrap_or_else none 41 = .ok 42 :=
  op_unwrap_or_else_std none 41 (by intro _; decide)
example : Extracted.op_unwrap_or_else (some 5) (2 ^ 32 - 1) = .ok 5 :=
  op_unwrap_or_else_std (some 5) (2 ^ 32 - 1) (by intro h; cases h)
example : Extracted.op_unwrap_or_else none (2 ^ 32 - 1) = .panic :=
  op_unwrap_or_else_panic (2 ^ 32 - 1) (by decide)

/-- `option::ok_or!(o, e)` -/
theorem op_ok_or_eq (o : Option Nat) (e : Nat) :
    Extracted.op_ok_or o e = .ok ((optOkOr o (pure e)).run.1) := by
  cases o <;> rfl

/-- Lean's core has no `Option.ok_or`; `Spec.OptRes.optOkOr` is `some x ↦ .ok x`, `none ↦ .error e` -/
theorem op_ok_or_std (o : Option Nat) (e : Nat) :
    Extracted.op_ok_or o e = .ok (Spec.OptRes.optOkOr o e) := by
  cases o <;> rfl

example : Extracted.op_ok_or none 3 = .ok (.error 3) := op_ok_or_std none 3
example : Extracted.op_ok_or (some 8) 3 = .ok (.ok 8) := op_ok_or_std (some 8) 3

/-- `option::ok_or_else!(o, || e)` -/
theorem op_ok_or_else_eq (o : Option Nat) (e : Nat) :
    Extracted.op_ok_or_else o e = .ok ((optOkOrElse o (fun _ => e)).run.1) := by
  cases o <;> rfl

theorem op_ok_or_else_std (o : Option Nat) (e : Nat) :
    Extracted.op_ok_or_else o e = .ok (Spec.OptRes.optOkOrElse o (fun _ => e)).1 := by
  cases o <;> rfl

example : Extracted.op_ok_or_else none 3 = .ok (.error 3) := op_ok_or_else_std none 3
example : Extracted.op_ok_or_else (some 8) 3 = .ok (.ok 8) := op_ok_or_else_std (some 8) 3

/-- `option::map!(o, |x| x / 2)` -/
theorem op_map_eq (o : Option Nat) :
    Extracted.op_map o = .ok ((optMap o (fun x => x / 2)).run.1) := by
  cases o with
  | none => rfl
  | some x => simp [Extracted.op_map, Rs.udiv, optMap, Ev.call, Ev.run, bind, Ev.bind, pure, Ev.pure]

theorem op_map_std (o : Option Nat) :
    Extracted.op_map o = .ok (o.map (fun x => x / 2)) := by
  rw [op_map_eq]
  cases o <;> rfl

example : Extracted.op_map (some 7) = .ok (some 3) := op_map_std (some 7)
example : Extracted.op_map none = .ok none := op_map_std none

/-- `option::and_then!(o, |x| if x % 2 == 0 { Some(x / 2) } else { None })` -/
theorem op_and_then_eq (o : Option Nat) :
    Extracted.op_and_then o =
      .ok ((optAndThen o (fun x => if x % 2 = 0 then some (x / 2) else none)).run.1) := by
  cases o with
  | none => rfl
  | some x =>
    by_cases h : x % 2 = 0 <;>
      simp [Extracted.op_and_then, Rs.urem, Rs.udiv, optAndThen, Ev.call, Ev.run, h]

theorem op_and_then_std (o : Option Nat) :
    Extracted.op_and_then o = .ok (o.bind (fun x => if x % 2 = 0 then some (x / 2) else none)) := by
  rw [op_and_then_eq]
  cases o <;> rfl

example : Extracted.op_and_then (some 10) = .ok (some 5) := op_and_then_std (some 10)
example : Extracted.op_and_then (some 11) = .ok none := op_and_then_std (some 11)

/-- `option::or_else!(o, || Some(d))` -/
theorem op_or_else_eq (o : Option Nat) (d : Nat) :
    Extracted.op_or_else o d = .ok ((optOrElse o (fun _ => some d)).run.1) := by
  cases o <;> rfl

theorem op_or_else_std (o : Option Nat) (d : Nat) :
    Extracted.op_or_else o d = .ok (o.orElse (fun _ => some d)) := by
  cases o <;> rfl

example : Extracted.op_or_else none 6 = .ok (some 6) := op_or_else_std none 6
example : Extracted.op_or_else (some 1) 6 = .ok (some 1) := op_or_else_std (some 1) 6

/-- `option::flatten!(o)` (the model function is pure: no closure) -/
theorem op_flatten_eq (o : Option (Option Nat)) :
    Extracted.op_flatten o = .ok (optFlatten o) := by
  cases o <;> rfl

theorem op_flatten_std (o : Option (Option Nat)) :
    Extracted.op_flatten o = .ok o.join := by
  cases o <;> rfl

example : Extracted.op_flatten (some (some 2)) = .ok (some 2) := op_flatten_std (some (some 2))
example : Extracted.op_flatten (some none) = .ok none := op_flatten_std (some none)

/-- `option::filter!(o, |x| *x % 2 == 0)` -/
theorem op_filter_eq (o : Option Nat) :
    Extracted.op_filter o = .ok ((optFilter o (fun x => decide (x % 2 = 0))).run.1) := by
  cases o with
  | none => rfl
  | some x =>
    by_cases h : x % 2 = 0 <;>
      simp [Extracted.op_filter, Rs.urem, optFilter, Ev.call, Ev.run, bind, Ev.bind, pure, Ev.pure, h]

theorem op_filter_std (o : Option Nat) :
    Extracted.op_filter o = .ok (o.filter (fun x => decide (x % 2 = 0))) := by
  rw [op_filter_eq]
  cases o with
  | none => rfl
  | some x =>
    by_cases h : x % 2 = 0 <;>
      simp [optFilter, Ev.call, Ev.run, bind, Ev.bind, pure, Ev.pure, Option.filter, h]

example : Extracted.op_filter (some 10) = .ok (some 10) := op_filter_std (some 10)
example : Extracted.op_filter (some 11) = .ok none := op_filter_std (some 11)

/-! ## result:: -/

/-- `result::unwrap_or!(r, d)` -/
theorem rs_unwrap_or_eq (r : Except Nat Nat) (d : Nat) :
    Extracted.rs_unwrap_or r d = .ok ((resUnwrapOr r (pure d)).run.1) := by
  cases r <;> rfl

theorem rs_unwrap_or_std (r : Except Nat Nat) (d : Nat) :
    Extracted.rs_unwrap_or r d = .ok (r.toOption.getD d) := by
  cases r <;> rfl

example : Extracted.rs_unwrap_or (.error 1) 9 = .ok 9 := rs_unwrap_or_std (.error 1) 9
example : Extracted.rs_unwrap_or (.ok 4) 9 = .ok 4 := rs_unwrap_or_std (.ok 4) 9

/-- `result::unwrap_or_else!(r, |e| e as u32)`: `u8 as u32` is the identity on the value -/
theorem rs_unwrap_or_else_eq (r : Except Nat Nat) :
    Extracted.rs_unwrap_or_else r = .ok ((resUnwrapOrElse r (fun e => e)).run.1) := by
  cases r <;> rfl

theorem rs_unwrap_or_else_std (r : Except Nat Nat) :
    Extracted.rs_unwrap_or_else r = .ok (Spec.OptRes.resUnwrapOrElse r (fun e => e)).1 := by
  cases r <;> rfl

example : Extracted.rs_unwrap_or_else (.error 200) = .ok 200 := rs_unwrap_or_else_std (.error 200)
example : Extracted.rs_unwrap_or_else (.ok 70000) = .ok 70000 := rs_unwrap_or_else_std (.ok 70000)

/-- `result::ok!(r)` -/
theorem rs_ok_eq (r : Except Nat Nat) : Extracted.rs_ok r = .ok (resOk r) := by
  cases r <;> rfl

theorem rs_ok_std (r : Except Nat Nat) : Extracted.rs_ok r = .ok r.toOption := by
  cases r <;> rfl

example : Extracted.rs_ok (.ok 5) = .ok (some 5) := rs_ok_std (.ok 5)
example : Extracted.rs_ok (.error 5) = .ok none := rs_ok_std (.error 5)

/-- `result::err!(r)` -/
theorem rs_err_eq (r : Except Nat Nat) : Extracted.rs_err r = .ok (resErr r) := by
  cases r <;> rfl

/-- Lean's core has no `Except.err`; `Spec.OptRes.resErr` is `.error e ↦ some e`, `.ok _ ↦ none` -/
theorem rs_err_std (r : Except Nat Nat) : Extracted.rs_err r = .ok (Spec.OptRes.resErr r) := by
  cases r <;> rfl

example : Extracted.rs_err (.ok 5) = .ok none := rs_err_std (.ok 5)
example : Extracted.rs_err (.error 5) = .ok (some 5) := rs_err_std (.error 5)

/-- `result::map!(r, |x| x / 2)` -/
theorem rs_map_eq (r : Except Nat Nat) :
    Extracted.rs_map r = .ok ((resMap r (fun x => x / 2)).run.1) := by
  cases r with
  | error e => rfl
  | ok x => simp [Extracted.rs_map, Rs.udiv, resMap, Ev.call, Ev.run, bind, Ev.bind, pure, Ev.pure]

theorem rs_map_std (r : Except Nat Nat) :
    Extracted.rs_map r = .ok (Except.map (fun x => x / 2) r) := by
  rw [rs_map_eq]
  cases r <;> rfl

example : Extracted.rs_map (.ok 9) = .ok (.ok 4) := rs_map_std (.ok 9)
example : Extracted.rs_map (.error 9) = .ok (.error 9) := rs_map_std (.error 9)

/-- `result::map_err!(r, |e| e as u32)` -/
theorem rs_map_err_eq (r : Except Nat Nat) :
    Extracted.rs_map_err r = .ok ((resMapErr r (fun e => e)).run.1) := by
  cases r <;> rfl

theorem rs_map_err_std (r : Except Nat Nat) :
    Extracted.rs_map_err r = .ok (Except.mapError (fun e => e) r) := by
  cases r <;> rfl

example : Extracted.rs_map_err (.error 255) = .ok (.error 255) := rs_map_err_std (.error 255)
example : Extracted.rs_map_err (.ok 1) = .ok (.ok 1) := rs_map_err_std (.ok 1)

/-- `result::and_then!(r, |x| if x % 2 == 0 { Ok(x / 2) } else { Err(7) })` -/
theorem rs_and_then_eq (r : Except Nat Nat) :
    Extracted.rs_and_then r =
      .ok ((resAndThen r (fun x => if x % 2 = 0 then .ok (x / 2) else .error 7)).run.1) := by
  cases r with
  | error e => rfl
  | ok x =>
    by_cases h : x % 2 = 0 <;>
      simp [Extracted.rs_and_then, Rs.urem, Rs.udiv, resAndThen, Ev.call, Ev.run, h]

theorem rs_and_then_std (r : Except Nat Nat) :
    Extracted.rs_and_then r =
      .ok (Except.bind r (fun x => if x % 2 = 0 then .ok (x / 2) else .error 7)) := by
  rw [rs_and_then_eq]
  cases r <;> rfl

example : Extracted.rs_and_then (.ok 10) = .ok (.ok 5) := rs_and_then_std (.ok 10)
example : Extracted.rs_and_then (.ok 11) = .ok (.error 7) := rs_and_then_std (.ok 11)
example : Extracted.rs_and_then (.error 3) = .ok (.error 3) := rs_and_then_std (.error 3)

/-- `result::or_else!(r, |e| if e == 0 { Ok(0) } else { Err(e as u32) })` -/
theorem rs_or_else_eq (r : Except Nat Nat) :
    Extracted.rs_or_else r =
      .ok ((resOrElse r (fun e => if e = 0 then .ok 0 else .error e)).run.1) := by
  cases r with
  | ok x => rfl
  | error e =>
    by_cases h : e = 0 <;>
      simp [Extracted.rs_or_else, resOrElse, Ev.call, Ev.run, h]

/-- `Result::or_else` may change the error type, which `Except.orElseLazy` cannot:
    `Spec.OptRes.resOrElse` is `.error e ↦ f e`, `.ok x ↦ .ok x` -/
theorem rs_or_else_std (r : Except Nat Nat) :
    Extracted.rs_or_else r =
      .ok (Spec.OptRes.resOrElse r (fun e => if e = 0 then .ok 0 else .error e)).1 := by
  rw [rs_or_else_eq]
  cases r <;> rfl

example : Extracted.rs_or_else (.error 0) = .ok (.ok 0) := rs_or_else_std (.error 0)
example : Extracted.rs_or_else (.error 4) = .ok (.error 4) := rs_or_else_std (.error 4)
example : Extracted.rs_or_else (.ok 4) = .ok (.ok 4) := rs_or_else_std (.ok 4)

/-- `result::unwrap_err_or_else!(r, |x| (x % 256) as u8)`: the truncating cast `as u8` of a value
    `< 256` is the identity, so the closure is `x ↦ x % 256` -/
theorem rs_unwrap_err_or_else_eq (r : Except Nat Nat) :
    Extracted.rs_unwrap_err_or_else r = .ok ((resUnwrapErrOrElse r (fun x => x % 256)).run.1) := by
  cases r with
  | error e => rfl
  | ok x =>
    simp [Extracted.rs_unwrap_err_or_else, Rs.urem, Rs.castUU, resUnwrapErrOrElse, Ev.call, Ev.run]

/-- std has no such method; `Spec.OptRes.resUnwrapErrOrElse` is the documented behaviour
    (`.error e ↦ e`, `.ok x ↦ f x`) -/
theorem rs_unwrap_err_or_else_std (r : Except Nat Nat) :
    Extracted.rs_unwrap_err_or_else r =
      .ok (Spec.OptRes.resUnwrapErrOrElse r (fun x => x % 256)).1 := by
  rw [rs_unwrap_err_or_else_eq]
  cases r <;> rfl

example : Extracted.rs_unwrap_err_or_else (.ok 1000) = .ok 232 := rs_unwrap_err_or_else_std (.ok 1000)
example : Extracted.rs_unwrap_err_or_else (.error 9) = .ok 9 := rs_unwrap_err_or_else_std (.error 9)

/-! ## try_! / try_opt!

  The model describes the MACRO (`try_ r : Flow …` = "`return Err(e)`, or go on with `x`"), not a whole
  function; the probe function is the macro followed by the rest of the body `Ok(x / 2)` /
  `Some(x / 2)`.  So the probes are related to `Flow.andThen` of the model with that continuation — the
  shape `Props/C19.lean` (`try_eq_question`, `tryOpt_eq_question`) states for every continuation. -/

/-- `let x = try_!(r); Ok(x / 2)` -/
theorem tr_try_eq (r : Except Nat Nat) :
    Extracted.tr_try r = .ok ((try_ r).andThen (fun x => (.ok (x / 2) : Except Nat Nat))) := by
  cases r with
  | error e => rfl
  | ok x => simp [Extracted.tr_try, Rs.udiv, try_, Flow.andThen]

/-- `let x = r?; Ok(x / 2)` -/
theorem tr_try_std (r : Except Nat Nat) :
    Extracted.tr_try r = .ok (r >>= fun x => (.ok (x / 2) : Except Nat Nat)) := by
  rw [tr_try_eq]
  cases r <;> rfl

example : Extracted.tr_try (.ok 9) = .ok (.ok 4) := tr_try_std (.ok 9)
example : Extracted.tr_try (.error 9) = .ok (.error 9) := tr_try_std (.error 9)

/-- `let x = try_opt!(o); Some(x / 2)`: there is no model of a whole function using `try_opt!`; the
    closest is the macro model `tryOpt` continued (`Flow.andThen`) with the rest of the body -/
theorem tr_try_opt_eq (o : Option Nat) :
    Extracted.tr_try_opt o = .ok ((tryOpt o).andThen (fun x => some (x / 2))) := by
  cases o with
  | none => rfl
  | some x => simp [Extracted.tr_try_opt, Rs.udiv, tryOpt, Flow.andThen]

/-- `let x = o?; Some(x / 2)` -/
theorem tr_try_opt_std (o : Option Nat) :
    Extracted.tr_try_opt o = .ok (o >>= fun x => some (x / 2)) := by
  rw [tr_try_opt_eq]
  cases o <;> rfl

example : Extracted.tr_try_opt (some 9) = .ok (some 4) := tr_try_opt_std (some 9)
example : Extracted.tr_try_opt none = .ok none := tr_try_opt_std none

end Extracted.Equiv
