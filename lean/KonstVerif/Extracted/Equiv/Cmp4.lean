import KonstVerif.Extracted.Gen.Cmp4
import KonstVerif.Extracted.Equiv.Cmp
import KonstVerif.Extracted.Equiv.Cmp2
/-
  Extracted (regenerated from /repo) = Model, for the remaining instances of `__declare_slice_cmp_fns!` (C16):
  `eq_slice_T`, `cmp_slice_T::cmp_inner`, `cmp_slice_T` for
  T ∈ {u16, u32, u128, usize, i16, i32, i64, i128, isize, bool, char}.

  Everything is an instance of the element-type-generic development of `Equiv/Cmp.lean`:
  the generated loop bodies `eq_slice_T.loop1` / `cmp_slice_T_inner.loop1` are (by `rfl`) `eqBody` / `cmpBody` at the
  carrier type, the generated functions are (by `rfl`) `eqFn` / `cmpInnerFn`, and the theorems are
  `eqFn_eq` / `cmpInnerFn_eq` / `cmp_of_inner` with the embedding of the carrier into the model's `Int`:

    * `u16`, `u32`, `u128`, `usize`, `char` (`Nat`; a `char` is its scalar value): `Int.ofNat`
      (`ofNat_inj`, `ofNat_gt`), the model is applied to `left.map Int.ofNat`
    * `i16`, `i32`, `i64`, `i128`, `isize` (`Int`): `id`, the model is applied to `left` itself
    * `bool` (`Bool`): `boolInt` of `Equiv/Cmp2.lean` (`false = 0`, `true = 1`, the model's convention);
      the generated `l != r` / `l > r` are the ones of `Bool` (`false < true`), `boolInt_inj` / `boolInt_gt`

  Same statements, bound and fuel hypotheses as the siblings `eq_slice_i8/u64`, `cmp_slice_i8/u64(_inner)`:

      ∃ v, Model.f left' right' = some v ∧ Extracted.f fuel left right = .ok v

  (model and extraction both return normally with the same value).  No hypothesis on the element values is needed
  (the code only compares them), so the width of `T` does not occur in the statements; in particular the theorems
  hold for all lists of values of the type.  The `bool` and `char` bodies have exactly the shape of the integer
  ones (the macro compares with the built-in `!=` / `>`; `cmp_bool` / `cmp_char` are not called).
-/
namespace Extracted.Equiv
open Rs Konst Konst.Cmp

/-- `bool`: `l > r` on `Bool` is `>` on the model's integers -/
theorem boolInt_gt (a b : Bool) : boolInt a > boolInt b ↔ a > b := boolInt_lt b a

/-! ### the generated loop bodies and functions are instances of `eqBody` / `cmpBody` / `eqFn` / `cmpInnerFn` -/
theorem eq_slice_u16_loop1 : Extracted.eq_slice_u16.loop1 = eqBody (α := Nat) := rfl
theorem eq_slice_u32_loop1 : Extracted.eq_slice_u32.loop1 = eqBody (α := Nat) := rfl
theorem eq_slice_u128_loop1 : Extracted.eq_slice_u128.loop1 = eqBody (α := Nat) := rfl
theorem eq_slice_usize_loop1 : Extracted.eq_slice_usize.loop1 = eqBody (α := Nat) := rfl
theorem eq_slice_i16_loop1 : Extracted.eq_slice_i16.loop1 = eqBody (α := Int) := rfl
theorem eq_slice_i32_loop1 : Extracted.eq_slice_i32.loop1 = eqBody (α := Int) := rfl
theorem eq_slice_i64_loop1 : Extracted.eq_slice_i64.loop1 = eqBody (α := Int) := rfl
theorem eq_slice_i128_loop1 : Extracted.eq_slice_i128.loop1 = eqBody (α := Int) := rfl
theorem eq_slice_isize_loop1 : Extracted.eq_slice_isize.loop1 = eqBody (α := Int) := rfl
theorem eq_slice_bool_loop1 : Extracted.eq_slice_bool.loop1 = eqBody (α := Bool) := rfl
theorem eq_slice_char_loop1 : Extracted.eq_slice_char.loop1 = eqBody (α := Nat) := rfl
theorem cmp_slice_u16_inner_loop1 : Extracted.cmp_slice_u16_inner.loop1 = cmpBody (α := Nat) := rfl
theorem cmp_slice_u32_inner_loop1 : Extracted.cmp_slice_u32_inner.loop1 = cmpBody (α := Nat) := rfl
theorem cmp_slice_u128_inner_loop1 : Extracted.cmp_slice_u128_inner.loop1 = cmpBody (α := Nat) := rfl
theorem cmp_slice_usize_inner_loop1 : Extracted.cmp_slice_usize_inner.loop1 = cmpBody (α := Nat) := rfl
theorem cmp_slice_i16_inner_loop1 : Extracted.cmp_slice_i16_inner.loop1 = cmpBody (α := Int) := rfl
theorem cmp_slice_i32_inner_loop1 : Extracted.cmp_slice_i32_inner.loop1 = cmpBody (α := Int) := rfl
theorem cmp_slice_i64_inner_loop1 : Extracted.cmp_slice_i64_inner.loop1 = cmpBody (α := Int) := rfl
theorem cmp_slice_i128_inner_loop1 : Extracted.cmp_slice_i128_inner.loop1 = cmpBody (α := Int) := rfl
theorem cmp_slice_isize_inner_loop1 : Extracted.cmp_slice_isize_inner.loop1 = cmpBody (α := Int) := rfl
theorem cmp_slice_bool_inner_loop1 : Extracted.cmp_slice_bool_inner.loop1 = cmpBody (α := Bool) := rfl
theorem cmp_slice_char_inner_loop1 : Extracted.cmp_slice_char_inner.loop1 = cmpBody (α := Nat) := rfl

theorem eq_slice_u16_fn : Extracted.eq_slice_u16 = eqFn (α := Nat) := rfl
theorem eq_slice_u32_fn : Extracted.eq_slice_u32 = eqFn (α := Nat) := rfl
theorem eq_slice_u128_fn : Extracted.eq_slice_u128 = eqFn (α := Nat) := rfl
theorem eq_slice_usize_fn : Extracted.eq_slice_usize = eqFn (α := Nat) := rfl
theorem eq_slice_i16_fn : Extracted.eq_slice_i16 = eqFn (α := Int) := rfl
theorem eq_slice_i32_fn : Extracted.eq_slice_i32 = eqFn (α := Int) := rfl
theorem eq_slice_i64_fn : Extracted.eq_slice_i64 = eqFn (α := Int) := rfl
theorem eq_slice_i128_fn : Extracted.eq_slice_i128 = eqFn (α := Int) := rfl
theorem eq_slice_isize_fn : Extracted.eq_slice_isize = eqFn (α := Int) := rfl
theorem eq_slice_bool_fn : Extracted.eq_slice_bool = eqFn (α := Bool) := rfl
theorem eq_slice_char_fn : Extracted.eq_slice_char = eqFn (α := Nat) := rfl
theorem cmp_slice_u16_inner_fn : Extracted.cmp_slice_u16_inner = cmpInnerFn (α := Nat) := rfl
theorem cmp_slice_u32_inner_fn : Extracted.cmp_slice_u32_inner = cmpInnerFn (α := Nat) := rfl
theorem cmp_slice_u128_inner_fn : Extracted.cmp_slice_u128_inner = cmpInnerFn (α := Nat) := rfl
theorem cmp_slice_usize_inner_fn : Extracted.cmp_slice_usize_inner = cmpInnerFn (α := Nat) := rfl
theorem cmp_slice_i16_inner_fn : Extracted.cmp_slice_i16_inner = cmpInnerFn (α := Int) := rfl
theorem cmp_slice_i32_inner_fn : Extracted.cmp_slice_i32_inner = cmpInnerFn (α := Int) := rfl
theorem cmp_slice_i64_inner_fn : Extracted.cmp_slice_i64_inner = cmpInnerFn (α := Int) := rfl
theorem cmp_slice_i128_inner_fn : Extracted.cmp_slice_i128_inner = cmpInnerFn (α := Int) := rfl
theorem cmp_slice_isize_inner_fn : Extracted.cmp_slice_isize_inner = cmpInnerFn (α := Int) := rfl
theorem cmp_slice_bool_inner_fn : Extracted.cmp_slice_bool_inner = cmpInnerFn (α := Bool) := rfl
theorem cmp_slice_char_inner_fn : Extracted.cmp_slice_char_inner = cmpInnerFn (α := Nat) := rfl

/-! ### the generic loop lemmas `eq_loop` / `cmp_loop` of `Equiv/Cmp.lean`, instantiated at every generated loop body

  `eq_slice_T_loop`: the `while i != left.len()` loop of `eq_slice_T` from any state `i` on slices of equal length;
  `cmp_slice_T_inner_loop`: the `while i < min_len` loop of `cmp_slice_T::cmp_inner` from any state `i`
  (`tail` = the value of the code after the loop). -/

theorem eq_slice_u16_loop (n : Nat) (left right : List Nat) (i : Nat)
    (hlen : left.length = right.length) (hb : left.length < 2 ^ 64)
    (hn : left.length + 1 ≤ n + i) (hi : i ≤ left.length) :
    (eqLoop (left.map Int.ofNat) (right.map Int.ofNat) i = some false ∧
        Rs.loop n (Extracted.eq_slice_u16.loop1 left right) i = (Ctl.exit false : Ctl Bool Nat)) ∨
    (eqLoop (left.map Int.ofNat) (right.map Int.ofNat) i = some true ∧
        ∃ j, Rs.loop n (Extracted.eq_slice_u16.loop1 left right) i = (Ctl.val j : Ctl Bool Nat)) := by
  rw [eq_slice_u16_loop1]
  exact eq_loop Int.ofNat ofNat_inj n left right i hlen hb hn hi

theorem cmp_slice_u16_inner_loop (n : Nat) (left right : List Nat) (minLen : Nat) (tail : Konst.Cmp.U8Ordering)
    (i : Nat) (hl : minLen ≤ left.length) (hr : minLen ≤ right.length) (hb : minLen < 2 ^ 64)
    (hn : minLen + 1 ≤ n + i) (hi : i ≤ minLen) :
    (∃ o, elemLoop (left.map Int.ofNat) (right.map Int.ofNat) minLen tail i = some o ∧
        Rs.loop n (Extracted.cmp_slice_u16_inner.loop1 minLen left right) i
          = (Ctl.exit (u8ordOfModel o) : Ctl Extracted.U8Ordering Nat)) ∨
    (elemLoop (left.map Int.ofNat) (right.map Int.ofNat) minLen tail i = some tail ∧
        ∃ j, Rs.loop n (Extracted.cmp_slice_u16_inner.loop1 minLen left right) i
          = (Ctl.val j : Ctl Extracted.U8Ordering Nat)) := by
  rw [cmp_slice_u16_inner_loop1]
  exact cmp_loop Int.ofNat ofNat_inj ofNat_gt n left right minLen tail i hl hr hb hn hi

theorem eq_slice_u32_loop (n : Nat) (left right : List Nat) (i : Nat)
    (hlen : left.length = right.length) (hb : left.length < 2 ^ 64)
    (hn : left.length + 1 ≤ n + i) (hi : i ≤ left.length) :
    (eqLoop (left.map Int.ofNat) (right.map Int.ofNat) i = some false ∧
        Rs.loop n (Extracted.eq_slice_u32.loop1 left right) i = (Ctl.exit false : Ctl Bool Nat)) ∨
    (eqLoop (left.map Int.ofNat) (right.map Int.ofNat) i = some true ∧
        ∃ j, Rs.loop n (Extracted.eq_slice_u32.loop1 left right) i = (Ctl.val j : Ctl Bool Nat)) := by
  rw [eq_slice_u32_loop1]
  exact eq_loop Int.ofNat ofNat_inj n left right i hlen hb hn hi

theorem cmp_slice_u32_inner_loop (n : Nat) (left right : List Nat) (minLen : Nat) (tail : Konst.Cmp.U8Ordering)
    (i : Nat) (hl : minLen ≤ left.length) (hr : minLen ≤ right.length) (hb : minLen < 2 ^ 64)
    (hn : minLen + 1 ≤ n + i) (hi : i ≤ minLen) :
    (∃ o, elemLoop (left.map Int.ofNat) (right.map Int.ofNat) minLen tail i = some o ∧
        Rs.loop n (Extracted.cmp_slice_u32_inner.loop1 minLen left right) i
          = (Ctl.exit (u8ordOfModel o) : Ctl Extracted.U8Ordering Nat)) ∨
    (elemLoop (left.map Int.ofNat) (right.map Int.ofNat) minLen tail i = some tail ∧
        ∃ j, Rs.loop n (Extracted.cmp_slice_u32_inner.loop1 minLen left right) i
          = (Ctl.val j : Ctl Extracted.U8Ordering Nat)) := by
  rw [cmp_slice_u32_inner_loop1]
  exact cmp_loop Int.ofNat ofNat_inj ofNat_gt n left right minLen tail i hl hr hb hn hi

theorem eq_slice_u128_loop (n : Nat) (left right : List Nat) (i : Nat)
    (hlen : left.length = right.length) (hb : left.length < 2 ^ 64)
    (hn : left.length + 1 ≤ n + i) (hi : i ≤ left.length) :
    (eqLoop (left.map Int.ofNat) (right.map Int.ofNat) i = some false ∧
        Rs.loop n (Extracted.eq_slice_u128.loop1 left right) i = (Ctl.exit false : Ctl Bool Nat)) ∨
    (eqLoop (left.map Int.ofNat) (right.map Int.ofNat) i = some true ∧
        ∃ j, Rs.loop n (Extracted.eq_slice_u128.loop1 left right) i = (Ctl.val j : Ctl Bool Nat)) := by
  rw [eq_slice_u128_loop1]
  exact eq_loop Int.ofNat ofNat_inj n left right i hlen hb hn hi

theorem cmp_slice_u128_inner_loop (n : Nat) (left right : List Nat) (minLen : Nat) (tail : Konst.Cmp.U8Ordering)
    (i : Nat) (hl : minLen ≤ left.length) (hr : minLen ≤ right.length) (hb : minLen < 2 ^ 64)
    (hn : minLen + 1 ≤ n + i) (hi : i ≤ minLen) :
    (∃ o, elemLoop (left.map Int.ofNat) (right.map Int.ofNat) minLen tail i = some o ∧
        Rs.loop n (Extracted.cmp_slice_u128_inner.loop1 minLen left right) i
          = (Ctl.exit (u8ordOfModel o) : Ctl Extracted.U8Ordering Nat)) ∨
    (elemLoop (left.map Int.ofNat) (right.map Int.ofNat) minLen tail i = some tail ∧
        ∃ j, Rs.loop n (Extracted.cmp_slice_u128_inner.loop1 minLen left right) i
          = (Ctl.val j : Ctl Extracted.U8Ordering Nat)) := by
  rw [cmp_slice_u128_inner_loop1]
  exact cmp_loop Int.ofNat ofNat_inj ofNat_gt n left right minLen tail i hl hr hb hn hi

theorem eq_slice_usize_loop (n : Nat) (left right : List Nat) (i : Nat)
    (hlen : left.length = right.length) (hb : left.length < 2 ^ 64)
    (hn : left.length + 1 ≤ n + i) (hi : i ≤ left.length) :
    (eqLoop (left.map Int.ofNat) (right.map Int.ofNat) i = some false ∧
        Rs.loop n (Extracted.eq_slice_usize.loop1 left right) i = (Ctl.exit false : Ctl Bool Nat)) ∨
    (eqLoop (left.map Int.ofNat) (right.map Int.ofNat) i = some true ∧
        ∃ j, Rs.loop n (Extracted.eq_slice_usize.loop1 left right) i = (Ctl.val j : Ctl Bool Nat)) := by
  rw [eq_slice_usize_loop1]
  exact eq_loop Int.ofNat ofNat_inj n left right i hlen hb hn hi

theorem cmp_slice_usize_inner_loop (n : Nat) (left right : List Nat) (minLen : Nat) (tail : Konst.Cmp.U8Ordering)
    (i : Nat) (hl : minLen ≤ left.length) (hr : minLen ≤ right.length) (hb : minLen < 2 ^ 64)
    (hn : minLen + 1 ≤ n + i) (hi : i ≤ minLen) :
    (∃ o, elemLoop (left.map Int.ofNat) (right.map Int.ofNat) minLen tail i = some o ∧
        Rs.loop n (Extracted.cmp_slice_usize_inner.loop1 minLen left right) i
          = (Ctl.exit (u8ordOfModel o) : Ctl Extracted.U8Ordering Nat)) ∨
    (elemLoop (left.map Int.ofNat) (right.map Int.ofNat) minLen tail i = some tail ∧
        ∃ j, Rs.loop n (Extracted.cmp_slice_usize_inner.loop1 minLen left right) i
          = (Ctl.val j : Ctl Extracted.U8Ordering Nat)) := by
  rw [cmp_slice_usize_inner_loop1]
  exact cmp_loop Int.ofNat ofNat_inj ofNat_gt n left right minLen tail i hl hr hb hn hi

theorem eq_slice_i16_loop (n : Nat) (left right : List Int) (i : Nat)
    (hlen : left.length = right.length) (hb : left.length < 2 ^ 64)
    (hn : left.length + 1 ≤ n + i) (hi : i ≤ left.length) :
    (eqLoop left right i = some false ∧
        Rs.loop n (Extracted.eq_slice_i16.loop1 left right) i = (Ctl.exit false : Ctl Bool Nat)) ∨
    (eqLoop left right i = some true ∧
        ∃ j, Rs.loop n (Extracted.eq_slice_i16.loop1 left right) i = (Ctl.val j : Ctl Bool Nat)) := by
  rw [eq_slice_i16_loop1]
  have h := eq_loop id id_inj n left right i hlen hb hn hi
  simp only [List.map_id] at h
  exact h

theorem cmp_slice_i16_inner_loop (n : Nat) (left right : List Int) (minLen : Nat) (tail : Konst.Cmp.U8Ordering)
    (i : Nat) (hl : minLen ≤ left.length) (hr : minLen ≤ right.length) (hb : minLen < 2 ^ 64)
    (hn : minLen + 1 ≤ n + i) (hi : i ≤ minLen) :
    (∃ o, elemLoop left right minLen tail i = some o ∧
        Rs.loop n (Extracted.cmp_slice_i16_inner.loop1 minLen left right) i
          = (Ctl.exit (u8ordOfModel o) : Ctl Extracted.U8Ordering Nat)) ∨
    (elemLoop left right minLen tail i = some tail ∧
        ∃ j, Rs.loop n (Extracted.cmp_slice_i16_inner.loop1 minLen left right) i
          = (Ctl.val j : Ctl Extracted.U8Ordering Nat)) := by
  rw [cmp_slice_i16_inner_loop1]
  have h := cmp_loop id id_inj id_gt n left right minLen tail i hl hr hb hn hi
  simp only [List.map_id] at h
  exact h

theorem eq_slice_i32_loop (n : Nat) (left right : List Int) (i : Nat)
    (hlen : left.length = right.length) (hb : left.length < 2 ^ 64)
    (hn : left.length + 1 ≤ n + i) (hi : i ≤ left.length) :
    (eqLoop left right i = some false ∧
        Rs.loop n (Extracted.eq_slice_i32.loop1 left right) i = (Ctl.exit false : Ctl Bool Nat)) ∨
    (eqLoop left right i = some true ∧
        ∃ j, Rs.loop n (Extracted.eq_slice_i32.loop1 left right) i = (Ctl.val j : Ctl Bool Nat)) := by
  rw [eq_slice_i32_loop1]
  have h := eq_loop id id_inj n left right i hlen hb hn hi
  simp only [List.map_id] at h
  exact h

theorem cmp_slice_i32_inner_loop (n : Nat) (left right : List Int) (minLen : Nat) (tail : Konst.Cmp.U8Ordering)
    (i : Nat) (hl : minLen ≤ left.length) (hr : minLen ≤ right.length) (hb : minLen < 2 ^ 64)
    (hn : minLen + 1 ≤ n + i) (hi : i ≤ minLen) :
    (∃ o, elemLoop left right minLen tail i = some o ∧
        Rs.loop n (Extracted.cmp_slice_i32_inner.loop1 minLen left right) i
          = (Ctl.exit (u8ordOfModel o) : Ctl Extracted.U8Ordering Nat)) ∨
    (elemLoop left right minLen tail i = some tail ∧
        ∃ j, Rs.loop n (Extracted.cmp_slice_i32_inner.loop1 minLen left right) i
          = (Ctl.val j : Ctl Extracted.U8Ordering Nat)) := by
  rw [cmp_slice_i32_inner_loop1]
  have h := cmp_loop id id_inj id_gt n left right minLen tail i hl hr hb hn hi
  simp only [List.map_id] at h
  exact h

theorem eq_slice_i64_loop (n : Nat) (left right : List Int) (i : Nat)
    (hlen : left.length = right.length) (hb : left.length < 2 ^ 64)
    (hn : left.length + 1 ≤ n + i) (hi : i ≤ left.length) :
    (eqLoop left right i = some false ∧
        Rs.loop n (Extracted.eq_slice_i64.loop1 left right) i = (Ctl.exit false : Ctl Bool Nat)) ∨
    (eqLoop left right i = some true ∧
        ∃ j, Rs.loop n (Extracted.eq_slice_i64.loop1 left right) i = (Ctl.val j : Ctl Bool Nat)) := by
  rw [eq_slice_i64_loop1]
  have h := eq_loop id id_inj n left right i hlen hb hn hi
  simp only [List.map_id] at h
  exact h

theorem cmp_slice_i64_inner_loop (n : Nat) (left right : List Int) (minLen : Nat) (tail : Konst.Cmp.U8Ordering)
    (i : Nat) (hl : minLen ≤ left.length) (hr : minLen ≤ right.length) (hb : minLen < 2 ^ 64)
    (hn : minLen + 1 ≤ n + i) (hi : i ≤ minLen) :
    (∃ o, elemLoop left right minLen tail i = some o ∧
        Rs.loop n (Extracted.cmp_slice_i64_inner.loop1 minLen left right) i
          = (Ctl.exit (u8ordOfModel o) : Ctl Extracted.U8Ordering Nat)) ∨
    (elemLoop left right minLen tail i = some tail ∧
        ∃ j, Rs.loop n (Extracted.cmp_slice_i64_inner.loop1 minLen left right) i
          = (Ctl.val j : Ctl Extracted.U8Ordering Nat)) := by
  rw [cmp_slice_i64_inner_loop1]
  have h := cmp_loop id id_inj id_gt n left right minLen tail i hl hr hb hn hi
  simp only [List.map_id] at h
  exact h

theorem eq_slice_i128_loop (n : Nat) (left right : List Int) (i : Nat)
    (hlen : left.length = right.length) (hb : left.length < 2 ^ 64)
    (hn : left.length + 1 ≤ n + i) (hi : i ≤ left.length) :
    (eqLoop left right i = some false ∧
        Rs.loop n (Extracted.eq_slice_i128.loop1 left right) i = (Ctl.exit false : Ctl Bool Nat)) ∨
    (eqLoop left right i = some true ∧
        ∃ j, Rs.loop n (Extracted.eq_slice_i128.loop1 left right) i = (Ctl.val j : Ctl Bool Nat)) := by
  rw [eq_slice_i128_loop1]
  have h := eq_loop id id_inj n left right i hlen hb hn hi
  simp only [List.map_id] at h
  exact h

theorem cmp_slice_i128_inner_loop (n : Nat) (left right : List Int) (minLen : Nat) (tail : Konst.Cmp.U8Ordering)
    (i : Nat) (hl : minLen ≤ left.length) (hr : minLen ≤ right.length) (hb : minLen < 2 ^ 64)
    (hn : minLen + 1 ≤ n + i) (hi : i ≤ minLen) :
    (∃ o, elemLoop left right minLen tail i = some o ∧
        Rs.loop n (Extracted.cmp_slice_i128_inner.loop1 minLen left right) i
          = (Ctl.exit (u8ordOfModel o) : Ctl Extracted.U8Ordering Nat)) ∨
    (elemLoop left right minLen tail i = some tail ∧
        ∃ j, Rs.loop n (Extracted.cmp_slice_i128_inner.loop1 minLen left right) i
          = (Ctl.val j : Ctl Extracted.U8Ordering Nat)) := by
  rw [cmp_slice_i128_inner_loop1]
  have h := cmp_loop id id_inj id_gt n left right minLen tail i hl hr hb hn hi
  simp only [List.map_id] at h
  exact h

theorem eq_slice_isize_loop (n : Nat) (left right : List Int) (i : Nat)
    (hlen : left.length = right.length) (hb : left.length < 2 ^ 64)
    (hn : left.length + 1 ≤ n + i) (hi : i ≤ left.length) :
    (eqLoop left right i = some false ∧
        Rs.loop n (Extracted.eq_slice_isize.loop1 left right) i = (Ctl.exit false : Ctl Bool Nat)) ∨
    (eqLoop left right i = some true ∧
        ∃ j, Rs.loop n (Extracted.eq_slice_isize.loop1 left right) i = (Ctl.val j : Ctl Bool Nat)) := by
  rw [eq_slice_isize_loop1]
  have h := eq_loop id id_inj n left right i hlen hb hn hi
  simp only [List.map_id] at h
  exact h

theorem cmp_slice_isize_inner_loop (n : Nat) (left right : List Int) (minLen : Nat) (tail : Konst.Cmp.U8Ordering)
    (i : Nat) (hl : minLen ≤ left.length) (hr : minLen ≤ right.length) (hb : minLen < 2 ^ 64)
    (hn : minLen + 1 ≤ n + i) (hi : i ≤ minLen) :
    (∃ o, elemLoop left right minLen tail i = some o ∧
        Rs.loop n (Extracted.cmp_slice_isize_inner.loop1 minLen left right) i
          = (Ctl.exit (u8ordOfModel o) : Ctl Extracted.U8Ordering Nat)) ∨
    (elemLoop left right minLen tail i = some tail ∧
        ∃ j, Rs.loop n (Extracted.cmp_slice_isize_inner.loop1 minLen left right) i
          = (Ctl.val j : Ctl Extracted.U8Ordering Nat)) := by
  rw [cmp_slice_isize_inner_loop1]
  have h := cmp_loop id id_inj id_gt n left right minLen tail i hl hr hb hn hi
  simp only [List.map_id] at h
  exact h

theorem eq_slice_bool_loop (n : Nat) (left right : List Bool) (i : Nat)
    (hlen : left.length = right.length) (hb : left.length < 2 ^ 64)
    (hn : left.length + 1 ≤ n + i) (hi : i ≤ left.length) :
    (eqLoop (left.map boolInt) (right.map boolInt) i = some false ∧
        Rs.loop n (Extracted.eq_slice_bool.loop1 left right) i = (Ctl.exit false : Ctl Bool Nat)) ∨
    (eqLoop (left.map boolInt) (right.map boolInt) i = some true ∧
        ∃ j, Rs.loop n (Extracted.eq_slice_bool.loop1 left right) i = (Ctl.val j : Ctl Bool Nat)) := by
  rw [eq_slice_bool_loop1]
  exact eq_loop boolInt boolInt_inj n left right i hlen hb hn hi

theorem cmp_slice_bool_inner_loop (n : Nat) (left right : List Bool) (minLen : Nat) (tail : Konst.Cmp.U8Ordering)
    (i : Nat) (hl : minLen ≤ left.length) (hr : minLen ≤ right.length) (hb : minLen < 2 ^ 64)
    (hn : minLen + 1 ≤ n + i) (hi : i ≤ minLen) :
    (∃ o, elemLoop (left.map boolInt) (right.map boolInt) minLen tail i = some o ∧
        Rs.loop n (Extracted.cmp_slice_bool_inner.loop1 minLen left right) i
          = (Ctl.exit (u8ordOfModel o) : Ctl Extracted.U8Ordering Nat)) ∨
    (elemLoop (left.map boolInt) (right.map boolInt) minLen tail i = some tail ∧
        ∃ j, Rs.loop n (Extracted.cmp_slice_bool_inner.loop1 minLen left right) i
          = (Ctl.val j : Ctl Extracted.U8Ordering Nat)) := by
  rw [cmp_slice_bool_inner_loop1]
  exact cmp_loop boolInt boolInt_inj boolInt_gt n left right minLen tail i hl hr hb hn hi

theorem eq_slice_char_loop (n : Nat) (left right : List Nat) (i : Nat)
    (hlen : left.length = right.length) (hb : left.length < 2 ^ 64)
    (hn : left.length + 1 ≤ n + i) (hi : i ≤ left.length) :
    (eqLoop (left.map Int.ofNat) (right.map Int.ofNat) i = some false ∧
        Rs.loop n (Extracted.eq_slice_char.loop1 left right) i = (Ctl.exit false : Ctl Bool Nat)) ∨
    (eqLoop (left.map Int.ofNat) (right.map Int.ofNat) i = some true ∧
        ∃ j, Rs.loop n (Extracted.eq_slice_char.loop1 left right) i = (Ctl.val j : Ctl Bool Nat)) := by
  rw [eq_slice_char_loop1]
  exact eq_loop Int.ofNat ofNat_inj n left right i hlen hb hn hi

theorem cmp_slice_char_inner_loop (n : Nat) (left right : List Nat) (minLen : Nat) (tail : Konst.Cmp.U8Ordering)
    (i : Nat) (hl : minLen ≤ left.length) (hr : minLen ≤ right.length) (hb : minLen < 2 ^ 64)
    (hn : minLen + 1 ≤ n + i) (hi : i ≤ minLen) :
    (∃ o, elemLoop (left.map Int.ofNat) (right.map Int.ofNat) minLen tail i = some o ∧
        Rs.loop n (Extracted.cmp_slice_char_inner.loop1 minLen left right) i
          = (Ctl.exit (u8ordOfModel o) : Ctl Extracted.U8Ordering Nat)) ∨
    (elemLoop (left.map Int.ofNat) (right.map Int.ofNat) minLen tail i = some tail ∧
        ∃ j, Rs.loop n (Extracted.cmp_slice_char_inner.loop1 minLen left right) i
          = (Ctl.val j : Ctl Extracted.U8Ordering Nat)) := by
  rw [cmp_slice_char_inner_loop1]
  exact cmp_loop Int.ofNat ofNat_inj ofNat_gt n left right minLen tail i hl hr hb hn hi

/-! ### the equivalence theorems -/

/-! #### `&[u16]` -/

theorem eq_slice_u16_eq (fuel : Nat) (left right : List Nat)
    (hb : min left.length right.length < 2 ^ 64) (hf : min left.length right.length + 1 ≤ fuel) :
    ∃ b, eqSlice (left.map Int.ofNat) (right.map Int.ofNat) = some b ∧
      Extracted.eq_slice_u16 fuel left right = .ok b :=
  eqFn_eq Int.ofNat ofNat_inj fuel left right hb hf

example : ∃ b, eqSlice [65535, 0] [65535, 1] = some b ∧ Extracted.eq_slice_u16 3 [65535, 0] [65535, 1] = .ok b :=
  eq_slice_u16_eq 3 [65535, 0] [65535, 1] (by decide) (by decide)
example : Extracted.eq_slice_u16 3 [65535, 0] [65535, 1] = .ok false := by decide
example : Extracted.eq_slice_u16 3 [65535, 0] [65535, 0] = .ok true := by decide
example : Extracted.eq_slice_u16 3 [65535, 0] [65535] = .ok false := by decide

theorem cmp_slice_u16_inner_eq (fuel : Nat) (left right : List Nat)
    (hb : min left.length right.length < 2 ^ 64) (hf : min left.length right.length + 1 ≤ fuel) :
    ∃ o, cmpSliceInner (left.map Int.ofNat) (right.map Int.ofNat) = some o ∧
      Extracted.cmp_slice_u16_inner fuel left right = .ok (u8ordOfModel o) :=
  cmpInnerFn_eq Int.ofNat ofNat_inj ofNat_gt fuel left right hb hf

example : Extracted.cmp_slice_u16_inner 3 [65535, 0] [65535, 1] = .ok ⟨0⟩ := by decide
example : Extracted.cmp_slice_u16_inner 3 [65535, 1] [65535, 0] = .ok ⟨1⟩ := by decide
example : Extracted.cmp_slice_u16_inner 3 [65535, 0] [65535, 0] = .ok ⟨2⟩ := by decide

theorem cmp_slice_u16_eq (fuel : Nat) (left right : List Nat)
    (hb : min left.length right.length < 2 ^ 64) (hf : min left.length right.length + 1 ≤ fuel) :
    ∃ c, cmpSlice (left.map Int.ofNat) (right.map Int.ofNat) = some c ∧
      Extracted.cmp_slice_u16 fuel left right = .ok c := by
  obtain ⟨o, h1, h2⟩ := cmp_slice_u16_inner_eq fuel left right hb hf
  exact cmp_of_inner h1 h2

example : ∃ c, cmpSlice [65535, 0] [65535] = some c ∧
    Extracted.cmp_slice_u16 2 [65535, 0] [65535] = .ok c :=
  cmp_slice_u16_eq 2 [65535, 0] [65535] (by decide) (by decide)
example : Extracted.cmp_slice_u16 2 [65535, 0] [65535] = .ok .gt := by decide
example : Extracted.cmp_slice_u16 3 [65535, 0] [65535, 1] = .ok .lt := by decide
example : Extracted.cmp_slice_u16 3 [65535, 0] [65535, 0] = .ok .eq := by decide

/-! #### `&[u32]` -/

theorem eq_slice_u32_eq (fuel : Nat) (left right : List Nat)
    (hb : min left.length right.length < 2 ^ 64) (hf : min left.length right.length + 1 ≤ fuel) :
    ∃ b, eqSlice (left.map Int.ofNat) (right.map Int.ofNat) = some b ∧
      Extracted.eq_slice_u32 fuel left right = .ok b :=
  eqFn_eq Int.ofNat ofNat_inj fuel left right hb hf

example : ∃ b, eqSlice [4294967295, 0] [4294967295, 1] = some b ∧ Extracted.eq_slice_u32 3 [4294967295, 0] [4294967295, 1] = .ok b :=
  eq_slice_u32_eq 3 [4294967295, 0] [4294967295, 1] (by decide) (by decide)
example : Extracted.eq_slice_u32 3 [4294967295, 0] [4294967295, 1] = .ok false := by decide
example : Extracted.eq_slice_u32 3 [4294967295, 0] [4294967295, 0] = .ok true := by decide
example : Extracted.eq_slice_u32 3 [4294967295, 0] [4294967295] = .ok false := by decide

theorem cmp_slice_u32_inner_eq (fuel : Nat) (left right : List Nat)
    (hb : min left.length right.length < 2 ^ 64) (hf : min left.length right.length + 1 ≤ fuel) :
    ∃ o, cmpSliceInner (left.map Int.ofNat) (right.map Int.ofNat) = some o ∧
      Extracted.cmp_slice_u32_inner fuel left right = .ok (u8ordOfModel o) :=
  cmpInnerFn_eq Int.ofNat ofNat_inj ofNat_gt fuel left right hb hf

example : Extracted.cmp_slice_u32_inner 3 [4294967295, 0] [4294967295, 1] = .ok ⟨0⟩ := by decide
example : Extracted.cmp_slice_u32_inner 3 [4294967295, 1] [4294967295, 0] = .ok ⟨1⟩ := by decide
example : Extracted.cmp_slice_u32_inner 3 [4294967295, 0] [4294967295, 0] = .ok ⟨2⟩ := by decide

theorem cmp_slice_u32_eq (fuel : Nat) (left right : List Nat)
    (hb : min left.length right.length < 2 ^ 64) (hf : min left.length right.length + 1 ≤ fuel) :
    ∃ c, cmpSlice (left.map Int.ofNat) (right.map Int.ofNat) = some c ∧
      Extracted.cmp_slice_u32 fuel left right = .ok c := by
  obtain ⟨o, h1, h2⟩ := cmp_slice_u32_inner_eq fuel left right hb hf
  exact cmp_of_inner h1 h2

example : ∃ c, cmpSlice [4294967295, 0] [4294967295] = some c ∧
    Extracted.cmp_slice_u32 2 [4294967295, 0] [4294967295] = .ok c :=
  cmp_slice_u32_eq 2 [4294967295, 0] [4294967295] (by decide) (by decide)
example : Extracted.cmp_slice_u32 2 [4294967295, 0] [4294967295] = .ok .gt := by decide
example : Extracted.cmp_slice_u32 3 [4294967295, 0] [4294967295, 1] = .ok .lt := by decide
example : Extracted.cmp_slice_u32 3 [4294967295, 0] [4294967295, 0] = .ok .eq := by decide

/-! #### `&[u128]` -/

theorem eq_slice_u128_eq (fuel : Nat) (left right : List Nat)
    (hb : min left.length right.length < 2 ^ 64) (hf : min left.length right.length + 1 ≤ fuel) :
    ∃ b, eqSlice (left.map Int.ofNat) (right.map Int.ofNat) = some b ∧
      Extracted.eq_slice_u128 fuel left right = .ok b :=
  eqFn_eq Int.ofNat ofNat_inj fuel left right hb hf

example : ∃ b, eqSlice [340282366920938463463374607431768211455, 0] [340282366920938463463374607431768211455, 1] = some b ∧ Extracted.eq_slice_u128 3 [340282366920938463463374607431768211455, 0] [340282366920938463463374607431768211455, 1] = .ok b :=
  eq_slice_u128_eq 3 [340282366920938463463374607431768211455, 0] [340282366920938463463374607431768211455, 1] (by decide) (by decide)
example : Extracted.eq_slice_u128 3 [340282366920938463463374607431768211455, 0] [340282366920938463463374607431768211455, 1] = .ok false := by decide
example : Extracted.eq_slice_u128 3 [340282366920938463463374607431768211455, 0] [340282366920938463463374607431768211455, 0] = .ok true := by decide
example : Extracted.eq_slice_u128 3 [340282366920938463463374607431768211455, 0] [340282366920938463463374607431768211455] = .ok false := by decide

theorem cmp_slice_u128_inner_eq (fuel : Nat) (left right : List Nat)
    (hb : min left.length right.length < 2 ^ 64) (hf : min left.length right.length + 1 ≤ fuel) :
    ∃ o, cmpSliceInner (left.map Int.ofNat) (right.map Int.ofNat) = some o ∧
      Extracted.cmp_slice_u128_inner fuel left right = .ok (u8ordOfModel o) :=
  cmpInnerFn_eq Int.ofNat ofNat_inj ofNat_gt fuel left right hb hf

example : Extracted.cmp_slice_u128_inner 3 [340282366920938463463374607431768211455, 0] [340282366920938463463374607431768211455, 1] = .ok ⟨0⟩ := by decide
example : Extracted.cmp_slice_u128_inner 3 [340282366920938463463374607431768211455, 1] [340282366920938463463374607431768211455, 0] = .ok ⟨1⟩ := by decide
example : Extracted.cmp_slice_u128_inner 3 [340282366920938463463374607431768211455, 0] [340282366920938463463374607431768211455, 0] = .ok ⟨2⟩ := by decide

theorem cmp_slice_u128_eq (fuel : Nat) (left right : List Nat)
    (hb : min left.length right.length < 2 ^ 64) (hf : min left.length right.length + 1 ≤ fuel) :
    ∃ c, cmpSlice (left.map Int.ofNat) (right.map Int.ofNat) = some c ∧
      Extracted.cmp_slice_u128 fuel left right = .ok c := by
  obtain ⟨o, h1, h2⟩ := cmp_slice_u128_inner_eq fuel left right hb hf
  exact cmp_of_inner h1 h2

example : ∃ c, cmpSlice [340282366920938463463374607431768211455, 0] [340282366920938463463374607431768211455] = some c ∧
    Extracted.cmp_slice_u128 2 [340282366920938463463374607431768211455, 0] [340282366920938463463374607431768211455] = .ok c :=
  cmp_slice_u128_eq 2 [340282366920938463463374607431768211455, 0] [340282366920938463463374607431768211455] (by decide) (by decide)
example : Extracted.cmp_slice_u128 2 [340282366920938463463374607431768211455, 0] [340282366920938463463374607431768211455] = .ok .gt := by decide
example : Extracted.cmp_slice_u128 3 [340282366920938463463374607431768211455, 0] [340282366920938463463374607431768211455, 1] = .ok .lt := by decide
example : Extracted.cmp_slice_u128 3 [340282366920938463463374607431768211455, 0] [340282366920938463463374607431768211455, 0] = .ok .eq := by decide

/-! #### `&[usize]` (64-bit) -/

theorem eq_slice_usize_eq (fuel : Nat) (left right : List Nat)
    (hb : min left.length right.length < 2 ^ 64) (hf : min left.length right.length + 1 ≤ fuel) :
    ∃ b, eqSlice (left.map Int.ofNat) (right.map Int.ofNat) = some b ∧
      Extracted.eq_slice_usize fuel left right = .ok b :=
  eqFn_eq Int.ofNat ofNat_inj fuel left right hb hf

example : ∃ b, eqSlice [18446744073709551615, 0] [18446744073709551615, 1] = some b ∧ Extracted.eq_slice_usize 3 [18446744073709551615, 0] [18446744073709551615, 1] = .ok b :=
  eq_slice_usize_eq 3 [18446744073709551615, 0] [18446744073709551615, 1] (by decide) (by decide)
example : Extracted.eq_slice_usize 3 [18446744073709551615, 0] [18446744073709551615, 1] = .ok false := by decide
example : Extracted.eq_slice_usize 3 [18446744073709551615, 0] [18446744073709551615, 0] = .ok true := by decide
example : Extracted.eq_slice_usize 3 [18446744073709551615, 0] [18446744073709551615] = .ok false := by decide

theorem cmp_slice_usize_inner_eq (fuel : Nat) (left right : List Nat)
    (hb : min left.length right.length < 2 ^ 64) (hf : min left.length right.length + 1 ≤ fuel) :
    ∃ o, cmpSliceInner (left.map Int.ofNat) (right.map Int.ofNat) = some o ∧
      Extracted.cmp_slice_usize_inner fuel left right = .ok (u8ordOfModel o) :=
  cmpInnerFn_eq Int.ofNat ofNat_inj ofNat_gt fuel left right hb hf

example : Extracted.cmp_slice_usize_inner 3 [18446744073709551615, 0] [18446744073709551615, 1] = .ok ⟨0⟩ := by decide
example : Extracted.cmp_slice_usize_inner 3 [18446744073709551615, 1] [18446744073709551615, 0] = .ok ⟨1⟩ := by decide
example : Extracted.cmp_slice_usize_inner 3 [18446744073709551615, 0] [18446744073709551615, 0] = .ok ⟨2⟩ := by decide

theorem cmp_slice_usize_eq (fuel : Nat) (left right : List Nat)
    (hb : min left.length right.length < 2 ^ 64) (hf : min left.length right.length + 1 ≤ fuel) :
    ∃ c, cmpSlice (left.map Int.ofNat) (right.map Int.ofNat) = some c ∧
      Extracted.cmp_slice_usize fuel left right = .ok c := by
  obtain ⟨o, h1, h2⟩ := cmp_slice_usize_inner_eq fuel left right hb hf
  exact cmp_of_inner h1 h2

example : ∃ c, cmpSlice [18446744073709551615, 0] [18446744073709551615] = some c ∧
    Extracted.cmp_slice_usize 2 [18446744073709551615, 0] [18446744073709551615] = .ok c :=
  cmp_slice_usize_eq 2 [18446744073709551615, 0] [18446744073709551615] (by decide) (by decide)
example : Extracted.cmp_slice_usize 2 [18446744073709551615, 0] [18446744073709551615] = .ok .gt := by decide
example : Extracted.cmp_slice_usize 3 [18446744073709551615, 0] [18446744073709551615, 1] = .ok .lt := by decide
example : Extracted.cmp_slice_usize 3 [18446744073709551615, 0] [18446744073709551615, 0] = .ok .eq := by decide

/-! #### `&[i16]` (elements already `Int`) -/

theorem eq_slice_i16_eq (fuel : Nat) (left right : List Int)
    (hb : min left.length right.length < 2 ^ 64) (hf : min left.length right.length + 1 ≤ fuel) :
    ∃ b, eqSlice left right = some b ∧ Extracted.eq_slice_i16 fuel left right = .ok b := by
  have h := eqFn_eq id id_inj fuel left right hb hf
  simp only [List.map_id] at h
  exact h

example : ∃ b, eqSlice [-1, -32768] [-1, 32767] = some b ∧ Extracted.eq_slice_i16 3 [-1, -32768] [-1, 32767] = .ok b :=
  eq_slice_i16_eq 3 [-1, -32768] [-1, 32767] (by decide) (by decide)
example : Extracted.eq_slice_i16 3 [-1, -32768] [-1, 32767] = .ok false := by decide
example : Extracted.eq_slice_i16 3 [-1, -32768] [-1, -32768] = .ok true := by decide
example : Extracted.eq_slice_i16 3 [-1, -32768] [-1] = .ok false := by decide

theorem cmp_slice_i16_inner_eq (fuel : Nat) (left right : List Int)
    (hb : min left.length right.length < 2 ^ 64) (hf : min left.length right.length + 1 ≤ fuel) :
    ∃ o, cmpSliceInner left right = some o ∧
      Extracted.cmp_slice_i16_inner fuel left right = .ok (u8ordOfModel o) := by
  have h := cmpInnerFn_eq id id_inj id_gt fuel left right hb hf
  simp only [List.map_id] at h
  exact h

example : Extracted.cmp_slice_i16_inner 3 [-1, -32768] [-1, 32767] = .ok ⟨0⟩ := by decide
example : Extracted.cmp_slice_i16_inner 3 [-1, 32767] [-1, -32768] = .ok ⟨1⟩ := by decide
example : Extracted.cmp_slice_i16_inner 3 [-1, -32768] [-1, -32768] = .ok ⟨2⟩ := by decide

theorem cmp_slice_i16_eq (fuel : Nat) (left right : List Int)
    (hb : min left.length right.length < 2 ^ 64) (hf : min left.length right.length + 1 ≤ fuel) :
    ∃ c, cmpSlice left right = some c ∧ Extracted.cmp_slice_i16 fuel left right = .ok c := by
  obtain ⟨o, h1, h2⟩ := cmp_slice_i16_inner_eq fuel left right hb hf
  exact cmp_of_inner h1 h2

example : ∃ c, cmpSlice [-1, -32768] [-1, 32767] = some c ∧
    Extracted.cmp_slice_i16 3 [-1, -32768] [-1, 32767] = .ok c :=
  cmp_slice_i16_eq 3 [-1, -32768] [-1, 32767] (by decide) (by decide)
example : Extracted.cmp_slice_i16 3 [-1, -32768] [-1, 32767] = .ok .lt := by decide
example : Extracted.cmp_slice_i16 2 [-1, -32768] [-1] = .ok .gt := by decide
example : Extracted.cmp_slice_i16 3 [-1, -32768] [-1, -32768] = .ok .eq := by decide

/-! #### `&[i32]` (elements already `Int`) -/

theorem eq_slice_i32_eq (fuel : Nat) (left right : List Int)
    (hb : min left.length right.length < 2 ^ 64) (hf : min left.length right.length + 1 ≤ fuel) :
    ∃ b, eqSlice left right = some b ∧ Extracted.eq_slice_i32 fuel left right = .ok b := by
  have h := eqFn_eq id id_inj fuel left right hb hf
  simp only [List.map_id] at h
  exact h

example : ∃ b, eqSlice [-1, -2147483648] [-1, 2147483647] = some b ∧ Extracted.eq_slice_i32 3 [-1, -2147483648] [-1, 2147483647] = .ok b :=
  eq_slice_i32_eq 3 [-1, -2147483648] [-1, 2147483647] (by decide) (by decide)
example : Extracted.eq_slice_i32 3 [-1, -2147483648] [-1, 2147483647] = .ok false := by decide
example : Extracted.eq_slice_i32 3 [-1, -2147483648] [-1, -2147483648] = .ok true := by decide
example : Extracted.eq_slice_i32 3 [-1, -2147483648] [-1] = .ok false := by decide

theorem cmp_slice_i32_inner_eq (fuel : Nat) (left right : List Int)
    (hb : min left.length right.length < 2 ^ 64) (hf : min left.length right.length + 1 ≤ fuel) :
    ∃ o, cmpSliceInner left right = some o ∧
      Extracted.cmp_slice_i32_inner fuel left right = .ok (u8ordOfModel o) := by
  have h := cmpInnerFn_eq id id_inj id_gt fuel left right hb hf
  simp only [List.map_id] at h
  exact h

example : Extracted.cmp_slice_i32_inner 3 [-1, -2147483648] [-1, 2147483647] = .ok ⟨0⟩ := by decide
example : Extracted.cmp_slice_i32_inner 3 [-1, 2147483647] [-1, -2147483648] = .ok ⟨1⟩ := by decide
example : Extracted.cmp_slice_i32_inner 3 [-1, -2147483648] [-1, -2147483648] = .ok ⟨2⟩ := by decide

theorem cmp_slice_i32_eq (fuel : Nat) (left right : List Int)
    (hb : min left.length right.length < 2 ^ 64) (hf : min left.length right.length + 1 ≤ fuel) :
    ∃ c, cmpSlice left right = some c ∧ Extracted.cmp_slice_i32 fuel left right = .ok c := by
  obtain ⟨o, h1, h2⟩ := cmp_slice_i32_inner_eq fuel left right hb hf
  exact cmp_of_inner h1 h2

example : ∃ c, cmpSlice [-1, -2147483648] [-1, 2147483647] = some c ∧
    Extracted.cmp_slice_i32 3 [-1, -2147483648] [-1, 2147483647] = .ok c :=
  cmp_slice_i32_eq 3 [-1, -2147483648] [-1, 2147483647] (by decide) (by decide)
example : Extracted.cmp_slice_i32 3 [-1, -2147483648] [-1, 2147483647] = .ok .lt := by decide
example : Extracted.cmp_slice_i32 2 [-1, -2147483648] [-1] = .ok .gt := by decide
example : Extracted.cmp_slice_i32 3 [-1, -2147483648] [-1, -2147483648] = .ok .eq := by decide

/-! #### `&[i64]` (elements already `Int`) -/

theorem eq_slice_i64_eq (fuel : Nat) (left right : List Int)
    (hb : min left.length right.length < 2 ^ 64) (hf : min left.length right.length + 1 ≤ fuel) :
    ∃ b, eqSlice left right = some b ∧ Extracted.eq_slice_i64 fuel left right = .ok b := by
  have h := eqFn_eq id id_inj fuel left right hb hf
  simp only [List.map_id] at h
  exact h

example : ∃ b, eqSlice [-1, -9223372036854775808] [-1, 9223372036854775807] = some b ∧ Extracted.eq_slice_i64 3 [-1, -9223372036854775808] [-1, 9223372036854775807] = .ok b :=
  eq_slice_i64_eq 3 [-1, -9223372036854775808] [-1, 9223372036854775807] (by decide) (by decide)
example : Extracted.eq_slice_i64 3 [-1, -9223372036854775808] [-1, 9223372036854775807] = .ok false := by decide
example : Extracted.eq_slice_i64 3 [-1, -9223372036854775808] [-1, -9223372036854775808] = .ok true := by decide
example : Extracted.eq_slice_i64 3 [-1, -9223372036854775808] [-1] = .ok false := by decide

theorem cmp_slice_i64_inner_eq (fuel : Nat) (left right : List Int)
    (hb : min left.length right.length < 2 ^ 64) (hf : min left.length right.length + 1 ≤ fuel) :
    ∃ o, cmpSliceInner left right = some o ∧
      Extracted.cmp_slice_i64_inner fuel left right = .ok (u8ordOfModel o) := by
  have h := cmpInnerFn_eq id id_inj id_gt fuel left right hb hf
  simp only [List.map_id] at h
  exact h

example : Extracted.cmp_slice_i64_inner 3 [-1, -9223372036854775808] [-1, 9223372036854775807] = .ok ⟨0⟩ := by decide
example : Extracted.cmp_slice_i64_inner 3 [-1, 9223372036854775807] [-1, -9223372036854775808] = .ok ⟨1⟩ := by decide
example : Extracted.cmp_slice_i64_inner 3 [-1, -9223372036854775808] [-1, -9223372036854775808] = .ok ⟨2⟩ := by decide

theorem cmp_slice_i64_eq (fuel : Nat) (left right : List Int)
    (hb : min left.length right.length < 2 ^ 64) (hf : min left.length right.length + 1 ≤ fuel) :
    ∃ c, cmpSlice left right = some c ∧ Extracted.cmp_slice_i64 fuel left right = .ok c := by
  obtain ⟨o, h1, h2⟩ := cmp_slice_i64_inner_eq fuel left right hb hf
  exact cmp_of_inner h1 h2

example : ∃ c, cmpSlice [-1, -9223372036854775808] [-1, 9223372036854775807] = some c ∧
    Extracted.cmp_slice_i64 3 [-1, -9223372036854775808] [-1, 9223372036854775807] = .ok c :=
  cmp_slice_i64_eq 3 [-1, -9223372036854775808] [-1, 9223372036854775807] (by decide) (by decide)
example : Extracted.cmp_slice_i64 3 [-1, -9223372036854775808] [-1, 9223372036854775807] = .ok .lt := by decide
example : Extracted.cmp_slice_i64 2 [-1, -9223372036854775808] [-1] = .ok .gt := by decide
example : Extracted.cmp_slice_i64 3 [-1, -9223372036854775808] [-1, -9223372036854775808] = .ok .eq := by decide

/-! #### `&[i128]` (elements already `Int`) -/

theorem eq_slice_i128_eq (fuel : Nat) (left right : List Int)
    (hb : min left.length right.length < 2 ^ 64) (hf : min left.length right.length + 1 ≤ fuel) :
    ∃ b, eqSlice left right = some b ∧ Extracted.eq_slice_i128 fuel left right = .ok b := by
  have h := eqFn_eq id id_inj fuel left right hb hf
  simp only [List.map_id] at h
  exact h

example : ∃ b, eqSlice [-1, -170141183460469231731687303715884105728] [-1, 170141183460469231731687303715884105727] = some b ∧ Extracted.eq_slice_i128 3 [-1, -170141183460469231731687303715884105728] [-1, 170141183460469231731687303715884105727] = .ok b :=
  eq_slice_i128_eq 3 [-1, -170141183460469231731687303715884105728] [-1, 170141183460469231731687303715884105727] (by decide) (by decide)
example : Extracted.eq_slice_i128 3 [-1, -170141183460469231731687303715884105728] [-1, 170141183460469231731687303715884105727] = .ok false := by decide
example : Extracted.eq_slice_i128 3 [-1, -170141183460469231731687303715884105728] [-1, -170141183460469231731687303715884105728] = .ok true := by decide
example : Extracted.eq_slice_i128 3 [-1, -170141183460469231731687303715884105728] [-1] = .ok false := by decide

theorem cmp_slice_i128_inner_eq (fuel : Nat) (left right : List Int)
    (hb : min left.length right.length < 2 ^ 64) (hf : min left.length right.length + 1 ≤ fuel) :
    ∃ o, cmpSliceInner left right = some o ∧
      Extracted.cmp_slice_i128_inner fuel left right = .ok (u8ordOfModel o) := by
  have h := cmpInnerFn_eq id id_inj id_gt fuel left right hb hf
  simp only [List.map_id] at h
  exact h

example : Extracted.cmp_slice_i128_inner 3 [-1, -170141183460469231731687303715884105728] [-1, 170141183460469231731687303715884105727] = .ok ⟨0⟩ := by decide
example : Extracted.cmp_slice_i128_inner 3 [-1, 170141183460469231731687303715884105727] [-1, -170141183460469231731687303715884105728] = .ok ⟨1⟩ := by decide
example : Extracted.cmp_slice_i128_inner 3 [-1, -170141183460469231731687303715884105728] [-1, -170141183460469231731687303715884105728] = .ok ⟨2⟩ := by decide

theorem cmp_slice_i128_eq (fuel : Nat) (left right : List Int)
    (hb : min left.length right.length < 2 ^ 64) (hf : min left.length right.length + 1 ≤ fuel) :
    ∃ c, cmpSlice left right = some c ∧ Extracted.cmp_slice_i128 fuel left right = .ok c := by
  obtain ⟨o, h1, h2⟩ := cmp_slice_i128_inner_eq fuel left right hb hf
  exact cmp_of_inner h1 h2

example : ∃ c, cmpSlice [-1, -170141183460469231731687303715884105728] [-1, 170141183460469231731687303715884105727] = some c ∧
    Extracted.cmp_slice_i128 3 [-1, -170141183460469231731687303715884105728] [-1, 170141183460469231731687303715884105727] = .ok c :=
  cmp_slice_i128_eq 3 [-1, -170141183460469231731687303715884105728] [-1, 170141183460469231731687303715884105727] (by decide) (by decide)
example : Extracted.cmp_slice_i128 3 [-1, -170141183460469231731687303715884105728] [-1, 170141183460469231731687303715884105727] = .ok .lt := by decide
example : Extracted.cmp_slice_i128 2 [-1, -170141183460469231731687303715884105728] [-1] = .ok .gt := by decide
example : Extracted.cmp_slice_i128 3 [-1, -170141183460469231731687303715884105728] [-1, -170141183460469231731687303715884105728] = .ok .eq := by decide

/-! #### `&[isize]` (64-bit; elements already `Int`) -/

theorem eq_slice_isize_eq (fuel : Nat) (left right : List Int)
    (hb : min left.length right.length < 2 ^ 64) (hf : min left.length right.length + 1 ≤ fuel) :
    ∃ b, eqSlice left right = some b ∧ Extracted.eq_slice_isize fuel left right = .ok b := by
  have h := eqFn_eq id id_inj fuel left right hb hf
  simp only [List.map_id] at h
  exact h

example : ∃ b, eqSlice [-1, -9223372036854775808] [-1, 9223372036854775807] = some b ∧ Extracted.eq_slice_isize 3 [-1, -9223372036854775808] [-1, 9223372036854775807] = .ok b :=
  eq_slice_isize_eq 3 [-1, -9223372036854775808] [-1, 9223372036854775807] (by decide) (by decide)
example : Extracted.eq_slice_isize 3 [-1, -9223372036854775808] [-1, 9223372036854775807] = .ok false := by decide
example : Extracted.eq_slice_isize 3 [-1, -9223372036854775808] [-1, -9223372036854775808] = .ok true := by decide
example : Extracted.eq_slice_isize 3 [-1, -9223372036854775808] [-1] = .ok false := by decide

theorem cmp_slice_isize_inner_eq (fuel : Nat) (left right : List Int)
    (hb : min left.length right.length < 2 ^ 64) (hf : min left.length right.length + 1 ≤ fuel) :
    ∃ o, cmpSliceInner left right = some o ∧
      Extracted.cmp_slice_isize_inner fuel left right = .ok (u8ordOfModel o) := by
  have h := cmpInnerFn_eq id id_inj id_gt fuel left right hb hf
  simp only [List.map_id] at h
  exact h

example : Extracted.cmp_slice_isize_inner 3 [-1, -9223372036854775808] [-1, 9223372036854775807] = .ok ⟨0⟩ := by decide
example : Extracted.cmp_slice_isize_inner 3 [-1, 9223372036854775807] [-1, -9223372036854775808] = .ok ⟨1⟩ := by decide
example : Extracted.cmp_slice_isize_inner 3 [-1, -9223372036854775808] [-1, -9223372036854775808] = .ok ⟨2⟩ := by decide

theorem cmp_slice_isize_eq (fuel : Nat) (left right : List Int)
    (hb : min left.length right.length < 2 ^ 64) (hf : min left.length right.length + 1 ≤ fuel) :
    ∃ c, cmpSlice left right = some c ∧ Extracted.cmp_slice_isize fuel left right = .ok c := by
  obtain ⟨o, h1, h2⟩ := cmp_slice_isize_inner_eq fuel left right hb hf
  exact cmp_of_inner h1 h2

example : ∃ c, cmpSlice [-1, -9223372036854775808] [-1, 9223372036854775807] = some c ∧
    Extracted.cmp_slice_isize 3 [-1, -9223372036854775808] [-1, 9223372036854775807] = .ok c :=
  cmp_slice_isize_eq 3 [-1, -9223372036854775808] [-1, 9223372036854775807] (by decide) (by decide)
example : Extracted.cmp_slice_isize 3 [-1, -9223372036854775808] [-1, 9223372036854775807] = .ok .lt := by decide
example : Extracted.cmp_slice_isize 2 [-1, -9223372036854775808] [-1] = .ok .gt := by decide
example : Extracted.cmp_slice_isize 3 [-1, -9223372036854775808] [-1, -9223372036854775808] = .ok .eq := by decide

/-! #### `&[bool]` (elements `Bool`, embedded by `boolInt`: `false = 0 < true = 1`) -/

theorem eq_slice_bool_eq (fuel : Nat) (left right : List Bool)
    (hb : min left.length right.length < 2 ^ 64) (hf : min left.length right.length + 1 ≤ fuel) :
    ∃ b, eqSlice (left.map boolInt) (right.map boolInt) = some b ∧
      Extracted.eq_slice_bool fuel left right = .ok b :=
  eqFn_eq boolInt boolInt_inj fuel left right hb hf

example : ∃ b, eqSlice [1, 0] [1, 1] = some b ∧ Extracted.eq_slice_bool 3 [true, false] [true, true] = .ok b :=
  eq_slice_bool_eq 3 [true, false] [true, true] (by decide) (by decide)
example : Extracted.eq_slice_bool 3 [true, false] [true, true] = .ok false := by decide
example : Extracted.eq_slice_bool 3 [true, false] [true, false] = .ok true := by decide
example : Extracted.eq_slice_bool 3 [true, false] [true] = .ok false := by decide

theorem cmp_slice_bool_inner_eq (fuel : Nat) (left right : List Bool)
    (hb : min left.length right.length < 2 ^ 64) (hf : min left.length right.length + 1 ≤ fuel) :
    ∃ o, cmpSliceInner (left.map boolInt) (right.map boolInt) = some o ∧
      Extracted.cmp_slice_bool_inner fuel left right = .ok (u8ordOfModel o) :=
  cmpInnerFn_eq boolInt boolInt_inj boolInt_gt fuel left right hb hf

example : Extracted.cmp_slice_bool_inner 3 [true, false] [true, true] = .ok ⟨0⟩ := by decide
example : Extracted.cmp_slice_bool_inner 3 [true, true] [true, false] = .ok ⟨1⟩ := by decide
example : Extracted.cmp_slice_bool_inner 3 [true, false] [true, false] = .ok ⟨2⟩ := by decide

theorem cmp_slice_bool_eq (fuel : Nat) (left right : List Bool)
    (hb : min left.length right.length < 2 ^ 64) (hf : min left.length right.length + 1 ≤ fuel) :
    ∃ c, cmpSlice (left.map boolInt) (right.map boolInt) = some c ∧
      Extracted.cmp_slice_bool fuel left right = .ok c := by
  obtain ⟨o, h1, h2⟩ := cmp_slice_bool_inner_eq fuel left right hb hf
  exact cmp_of_inner h1 h2

example : ∃ c, cmpSlice [1, 0] [1, 1] = some c ∧
    Extracted.cmp_slice_bool 3 [true, false] [true, true] = .ok c :=
  cmp_slice_bool_eq 3 [true, false] [true, true] (by decide) (by decide)
example : Extracted.cmp_slice_bool 3 [true, false] [true, true] = .ok .lt := by decide
example : Extracted.cmp_slice_bool 3 [true, true] [false, true] = .ok .gt := by decide
example : Extracted.cmp_slice_bool 2 [false, false] [false] = .ok .gt := by decide
example : Extracted.cmp_slice_bool 3 [false, true] [false, true] = .ok .eq := by decide

/-! #### `&[char]` (elements are the scalar values, `Nat`) -/

theorem eq_slice_char_eq (fuel : Nat) (left right : List Nat)
    (hb : min left.length right.length < 2 ^ 64) (hf : min left.length right.length + 1 ≤ fuel) :
    ∃ b, eqSlice (left.map Int.ofNat) (right.map Int.ofNat) = some b ∧
      Extracted.eq_slice_char fuel left right = .ok b :=
  eqFn_eq Int.ofNat ofNat_inj fuel left right hb hf

example : ∃ b, eqSlice [0x10FFFF, 0x61] [0x10FFFF, 0xE000] = some b ∧ Extracted.eq_slice_char 3 [0x10FFFF, 0x61] [0x10FFFF, 0xE000] = .ok b :=
  eq_slice_char_eq 3 [0x10FFFF, 0x61] [0x10FFFF, 0xE000] (by decide) (by decide)
example : Extracted.eq_slice_char 3 [0x10FFFF, 0x61] [0x10FFFF, 0xE000] = .ok false := by decide
example : Extracted.eq_slice_char 3 [0x10FFFF, 0x61] [0x10FFFF, 0x61] = .ok true := by decide
example : Extracted.eq_slice_char 3 [0x10FFFF, 0x61] [0x10FFFF] = .ok false := by decide

theorem cmp_slice_char_inner_eq (fuel : Nat) (left right : List Nat)
    (hb : min left.length right.length < 2 ^ 64) (hf : min left.length right.length + 1 ≤ fuel) :
    ∃ o, cmpSliceInner (left.map Int.ofNat) (right.map Int.ofNat) = some o ∧
      Extracted.cmp_slice_char_inner fuel left right = .ok (u8ordOfModel o) :=
  cmpInnerFn_eq Int.ofNat ofNat_inj ofNat_gt fuel left right hb hf

example : Extracted.cmp_slice_char_inner 3 [0x10FFFF, 0x61] [0x10FFFF, 0xE000] = .ok ⟨0⟩ := by decide
example : Extracted.cmp_slice_char_inner 3 [0x10FFFF, 0xE000] [0x10FFFF, 0x61] = .ok ⟨1⟩ := by decide
example : Extracted.cmp_slice_char_inner 3 [0x10FFFF, 0x61] [0x10FFFF, 0x61] = .ok ⟨2⟩ := by decide

theorem cmp_slice_char_eq (fuel : Nat) (left right : List Nat)
    (hb : min left.length right.length < 2 ^ 64) (hf : min left.length right.length + 1 ≤ fuel) :
    ∃ c, cmpSlice (left.map Int.ofNat) (right.map Int.ofNat) = some c ∧
      Extracted.cmp_slice_char fuel left right = .ok c := by
  obtain ⟨o, h1, h2⟩ := cmp_slice_char_inner_eq fuel left right hb hf
  exact cmp_of_inner h1 h2

example : ∃ c, cmpSlice [0x10FFFF, 0x61] [0x10FFFF] = some c ∧
    Extracted.cmp_slice_char 2 [0x10FFFF, 0x61] [0x10FFFF] = .ok c :=
  cmp_slice_char_eq 2 [0x10FFFF, 0x61] [0x10FFFF] (by decide) (by decide)
example : Extracted.cmp_slice_char 2 [0x10FFFF, 0x61] [0x10FFFF] = .ok .gt := by decide
example : Extracted.cmp_slice_char 3 [0x10FFFF, 0x61] [0x10FFFF, 0xE000] = .ok .lt := by decide
example : Extracted.cmp_slice_char 3 [0x10FFFF, 0x61] [0x10FFFF, 0x61] = .ok .eq := by decide

end Extracted.Equiv
