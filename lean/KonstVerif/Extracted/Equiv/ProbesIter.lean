import KonstVerif.Extracted.Gen.ProbesIter
import KonstVerif.Extracted.Equiv.SliceIter2
/-
  Extracted (regenerated from the rustc expansion of the probe crate `translator/probes/src/lib.rs`) = the plain
  std-iterator meaning, group `ProbesIter`: the 16 translated call sites `it_*` of konst's iterator DSL macros
  `iter::eval!` / `iter::for_each!` (C10).  (`it_zip_count` of the probe crate is not in `Gen/ProbesIter.lean`.)

  SECTION (a), this file: for every probe `it_X` a theorem `it_X_eq`, for ALL inputs: the extracted function
  returns `.ok` of the method chain written with core `List` functions.  Shape of the proofs: a loop lemma
  `it_X_loop` by induction on the fuel for the hoisted loop body `Extracted.it_X.loop1`, generalised over the
  remaining slice and the hoisted counters / the accumulator (`∃ it …` where the final iterator state depends on
  where the loop stopped), then the function by unfolding.  The reversed probes (`next_back`) are stated on
  `r.reverse` so that one iteration is a `cons` step of `r`.  `flat_map`/`flatten`: inner-loop lemma `…_loop2` first.

  Hypotheses.  Fuel: `xs.length + 1 ≤ fuel` (one iteration per item + the exhausted `next()`); the two
  single-iteration probes need `1 ≤ fuel`; the nested ones additionally `xs.length + 1 ≤ fuel` for every inner
  slice (both loops receive the same fuel).  Machine range: ONLY the `usize` counters `rets += 1`/`var += 1`/`i += 1`
  can overflow, hence a bound `< 2^64` on the counted quantity (implied by slice lengths `< 2^63`); NO hypothesis on
  the elements is needed anywhere (`u32` items are only compared, `^`-ed, divided or reduced `%`; in
  `it_filter_map_rfold` the accumulator stays `< 1000`, so `a * 3 + b` fits `u32` whatever the items are).

  Deviations from std, stated as what the emitted code computes (both are KNOWN, Props/C10):
    * `it_take_rev_next` (`take(2), rev(), next()`): the last element of `xs` — finding F7;
    * `it_rposition`: index counted from the back — konst's documented convention.

  SECTION (b) (corollaries `it_X_model` about the hand-written model `Konst.Iter.konstEval`) is the separate
  file `Equiv/ProbesIterModel.lean`.
-/
namespace Extracted.Equiv
open Rs

/-! ### the slice iterator on concrete shapes (`next` by computation; `next_back` through
    `unsnoc_of_ne_nil` of `Equiv/SliceIter2`) -/

theorem Iter_next_cons {T : Type} (x : T) (l : List T) :
    Extracted.Iter.next ⟨x :: l⟩ = .ok (some (x, ⟨l⟩)) := rfl

theorem Iter_next_nil {T : Type} :
    Extracted.Iter.next (⟨[]⟩ : Extracted.Iter T) = .ok none := rfl

theorem Iter_next_back_nil {T : Type} :
    Extracted.Iter.next_back (⟨[]⟩ : Extracted.Iter T) = .ok none := rfl

theorem Iter_next_back_snoc {T : Type} (l : List T) (x : T) :
    Extracted.Iter.next_back ⟨l ++ [x]⟩ = .ok (some (x, ⟨l⟩)) := by
  unfold Extracted.Iter.next_back
  simp [unsnoc_of_ne_nil]

theorem it_fold_filter_map_loop (n : Nat) (l : List Nat) (acc : Nat) (hn : l.length + 1 ≤ n) :
    Rs.loop (ε := Nat) n Extracted.it_fold_filter_map.loop1 (⟨l⟩, acc)
      = .val (⟨[]⟩, ((l.filter (fun x => x % 2 == 0)).map (· / 2)).foldl (· ^^^ ·) acc) := by
  induction n generalizing l acc with
  | zero => omega
  | succ n ih =>
    rw [Rs.loop_succ]
    cases l with
    | nil => simp [Extracted.it_fold_filter_map.loop1, Iter_next_nil]
    | cons x l =>
      have ih' := fun a => ih l a (by simp at hn; omega)
      by_cases hx : x % 2 = 0
      · simp [Extracted.it_fold_filter_map.loop1, Iter_next_cons, Rs.urem, Rs.udiv, hx, ih']
      · have hx1 : x % 2 = 1 := by omega
        simp [Extracted.it_fold_filter_map.loop1, Iter_next_cons, Rs.urem, Rs.udiv, hx1, ih']

theorem it_fold_filter_map_eq (fuel : Nat) (xs : List Nat) (hf : xs.length + 1 ≤ fuel) :
    Extracted.it_fold_filter_map fuel xs
      = .ok (((xs.filter (fun x => x % 2 == 0)).map (· / 2)).foldl (· ^^^ ·) 0) := by
  unfold Extracted.it_fold_filter_map
  simp [Extracted.iter, it_fold_filter_map_loop fuel xs 0 hf]

example : Extracted.it_fold_filter_map 10 [4, 7, 10, 12] = .ok (2 ^^^ 5 ^^^ 6) := by
  rw [it_fold_filter_map_eq _ _ (by decide)]; rfl

/-! ### `it_take_next`: `copied(), take(n), next()` -/

theorem it_take_next_eq (fuel : Nat) (xs : List Nat) (n : Nat) (hf : 1 ≤ fuel) :
    Extracted.it_take_next fuel xs n = .ok ((xs.take n).head?) := by
  unfold Extracted.it_take_next
  cases fuel with
  | zero => omega
  | succ f =>
    simp only [Extracted.iter, Ctl.pure_eq, Ctl.run_val, Ctl.call_ok, Ctl.bind_eq, Ctl.bind_val]
    rw [Rs.loop_succ]
    cases n with
    | zero => simp [Extracted.it_take_next.loop1]
    | succ n =>
      cases xs with
      | nil => simp [Extracted.it_take_next.loop1, Iter_next_nil]
      | cons x l => simp [Extracted.it_take_next.loop1, Iter_next_cons, Rs.usub]

example : Extracted.it_take_next 1 [7, 8, 9] 2 = .ok (some 7) := by
  rw [it_take_next_eq _ _ _ (by decide)]; rfl
example : Extracted.it_take_next 1 [7, 8, 9] 0 = .ok none := by
  rw [it_take_next_eq _ _ _ (by decide)]; rfl

/-! ### `it_skip_count`: `skip(n), count()` -/

theorem it_skip_count_loop (m : Nat) (l : List Nat) (rem c : Nat) (hm : l.length + 1 ≤ m)
    (hb : c + (l.drop rem).length < 2 ^ 64) :
    Rs.loop (ε := Nat) m Extracted.it_skip_count.loop1 (⟨l⟩, rem, c)
      = .val (⟨[]⟩, rem - l.length, c + (l.drop rem).length) := by
  induction m generalizing l rem c with
  | zero => omega
  | succ m ih =>
    rw [Rs.loop_succ]
    cases l with
    | nil => simp [Extracted.it_skip_count.loop1, Iter_next_nil]
    | cons x l =>
      simp only [List.length_cons] at hm
      cases rem with
      | zero =>
        simp only [List.drop_zero, List.length_cons] at hb
        have h1 : c + 1 < 2 ^ 64 := by omega
        have ih' := ih l 0 (c + 1) (by omega) (by simp; omega)
        simp only [List.drop_zero] at ih'
        simp [Extracted.it_skip_count.loop1, Iter_next_cons, Rs.uadd, h1, ih']
        omega
      | succ r =>
        simp only [List.drop_succ_cons] at hb
        have ih' := ih l r c (by omega) hb
        simp [Extracted.it_skip_count.loop1, Iter_next_cons, Rs.usub, ih']

theorem it_skip_count_eq (fuel : Nat) (xs : List Nat) (n : Nat) (hf : xs.length + 1 ≤ fuel)
    (hb : (xs.drop n).length < 2 ^ 64) :
    Extracted.it_skip_count fuel xs n = .ok ((xs.drop n).length) := by
  unfold Extracted.it_skip_count
  simp [Extracted.iter, it_skip_count_loop fuel xs n 0 hf (by simpa using hb)]

example : Extracted.it_skip_count 5 [7, 8, 9] 1 = .ok 2 := by
  rw [it_skip_count_eq _ _ _ (by decide) (by simp)]; rfl

/-! ### `it_take_rev_next`: `copied(), take(2), rev(), next()`

  FINDING F7 of property C10 (known, not to be fixed here): the emitted loop drives the SOURCE by `next_back`
  as soon as a `rev()` occurs anywhere in the chain, so the `take(2)` counter counts items coming from the
  back: the value is the LAST element of `xs`.  std's `xs.iter().copied().take(2).rev().next()` is
  `(xs.take 2).getLast?` (the second element when there are two). -/

theorem it_take_rev_next_eq (fuel : Nat) (xs : List Nat) (hf : 1 ≤ fuel) :
    Extracted.it_take_rev_next fuel xs = .ok (xs.getLast?) := by
  unfold Extracted.it_take_rev_next
  cases fuel with
  | zero => omega
  | succ f =>
    simp only [Extracted.iter, Ctl.pure_eq, Ctl.run_val, Ctl.call_ok, Ctl.bind_eq, Ctl.bind_val]
    rw [Rs.loop_succ]
    rcases List.eq_nil_or_concat xs with rfl | ⟨l, x, rfl⟩
    · simp [Extracted.it_take_rev_next.loop1, Iter_next_back_nil]
    · simp [Extracted.it_take_rev_next.loop1, Iter_next_back_snoc, Rs.usub]

example : Extracted.it_take_rev_next 1 [7, 8, 9] = .ok (some 9) := by
  rw [it_take_rev_next_eq _ _ (by decide)]; rfl
/-- std's value on the same input is `some 8` -/
example : ([7, 8, 9].take 2).getLast? = some 8 := rfl

/-! ### `it_rev_find`: `copied(), rev(), find(|x| *x == k)` -/

theorem it_rev_find_loop (k m : Nat) (r : List Nat) (hm : r.length + 1 ≤ m) :
    ∃ it, Rs.loop (ε := Option Nat) m (Extracted.it_rev_find.loop1 k) (⟨r.reverse⟩, none)
      = .val (it, r.find? (· == k)) := by
  induction m generalizing r with
  | zero => omega
  | succ m ih =>
    rw [Rs.loop_succ]
    cases r with
    | nil => exact ⟨⟨[]⟩, by simp [Extracted.it_rev_find.loop1, Iter_next_back_nil]⟩
    | cons x r =>
      simp only [List.length_cons] at hm
      obtain ⟨it, hit⟩ := ih r (by omega)
      by_cases hx : x = k
      · exact ⟨⟨r.reverse⟩, by simp [Extracted.it_rev_find.loop1, Iter_next_back_snoc, hx]⟩
      · exact ⟨it, by simp [Extracted.it_rev_find.loop1, Iter_next_back_snoc, hx, hit]⟩

theorem it_rev_find_eq (fuel : Nat) (xs : List Nat) (k : Nat) (hf : xs.length + 1 ≤ fuel) :
    Extracted.it_rev_find fuel xs k = .ok (xs.reverse.find? (· == k)) := by
  unfold Extracted.it_rev_find
  obtain ⟨it, hit⟩ := it_rev_find_loop k fuel xs.reverse (by simpa using hf)
  rw [List.reverse_reverse] at hit
  simp [Extracted.iter, hit]

example : Extracted.it_rev_find 5 [7, 8, 9] 8 = .ok (some 8) := by
  rw [it_rev_find_eq _ _ _ (by decide)]; rfl

/-! ### `it_position`: `copied(), position(|x| x == k)` -/

theorem map_add_succ (o : Option Nat) (v : Nat) :
    Option.map ((fun x => x + v) ∘ fun i => i + 1) o = Option.map (fun x => x + (v + 1)) o := by
  cases o <;> simp <;> omega

theorem it_position_loop (k m : Nat) (l : List Nat) (v : Nat) (hm : l.length + 1 ≤ m)
    (hb : v + l.length < 2 ^ 64) :
    ∃ it v', Rs.loop (ε := Option Nat) m (Extracted.it_position.loop1 k) (⟨l⟩, none, v)
      = .val (it, (l.findIdx? (· == k)).map (· + v), v') := by
  induction m generalizing l v with
  | zero => omega
  | succ m ih =>
    rw [Rs.loop_succ]
    cases l with
    | nil => exact ⟨⟨[]⟩, v, by simp [Extracted.it_position.loop1, Iter_next_nil]⟩
    | cons x l =>
      simp only [List.length_cons] at hm hb
      obtain ⟨it, v', hit⟩ := ih l (v + 1) (by omega) (by omega)
      by_cases hx : x = k
      · exact ⟨⟨l⟩, v, by simp [Extracted.it_position.loop1, Iter_next_cons, hx, List.findIdx?_cons]⟩
      · have h1 : v + 1 < 2 ^ 64 := by omega
        refine ⟨it, v', ?_⟩
        simp [Extracted.it_position.loop1, Iter_next_cons, hx, List.findIdx?_cons, Rs.uadd, h1, hit,
          map_add_succ]

theorem it_position_eq (fuel : Nat) (xs : List Nat) (k : Nat) (hf : xs.length + 1 ≤ fuel)
    (hb : xs.length < 2 ^ 64) :
    Extracted.it_position fuel xs k = .ok (xs.findIdx? (· == k)) := by
  unfold Extracted.it_position
  obtain ⟨it, v', hit⟩ := it_position_loop k fuel xs 0 hf (by omega)
  simp [Extracted.iter, hit]

example : Extracted.it_position 5 [7, 8, 9] 9 = .ok (some 2) := by
  rw [it_position_eq _ _ _ (by decide) (by decide)]; rfl

/-! ### `it_rposition`: `copied(), rposition(|x| x == k)`

  Documented convention of konst (`Props/C10.konst_rposition_doc`): the index counts from the BACK
  (the position in the reversed stream); std's `rposition` would return `xs.length - 1 -` that. -/

theorem it_rposition_loop (k m : Nat) (r : List Nat) (v : Nat) (hm : r.length + 1 ≤ m)
    (hb : v + r.length < 2 ^ 64) :
    ∃ it v', Rs.loop (ε := Option Nat) m (Extracted.it_rposition.loop1 k) (⟨r.reverse⟩, none, v)
      = .val (it, (r.findIdx? (· == k)).map (· + v), v') := by
  induction m generalizing r v with
  | zero => omega
  | succ m ih =>
    rw [Rs.loop_succ]
    cases r with
    | nil => exact ⟨⟨[]⟩, v, by simp [Extracted.it_rposition.loop1, Iter_next_back_nil]⟩
    | cons x r =>
      simp only [List.length_cons] at hm hb
      obtain ⟨it, v', hit⟩ := ih r (v + 1) (by omega) (by omega)
      by_cases hx : x = k
      · exact ⟨⟨r.reverse⟩, v, by
          simp [Extracted.it_rposition.loop1, Iter_next_back_snoc, hx, List.findIdx?_cons]⟩
      · have h1 : v + 1 < 2 ^ 64 := by omega
        refine ⟨it, v', ?_⟩
        simp [Extracted.it_rposition.loop1, Iter_next_back_snoc, hx, List.findIdx?_cons, Rs.uadd, h1,
          hit, map_add_succ]

theorem it_rposition_eq (fuel : Nat) (xs : List Nat) (k : Nat) (hf : xs.length + 1 ≤ fuel)
    (hb : xs.length < 2 ^ 64) :
    Extracted.it_rposition fuel xs k = .ok (xs.reverse.findIdx? (· == k)) := by
  unfold Extracted.it_rposition
  obtain ⟨it, v', hit⟩ := it_rposition_loop k fuel xs.reverse 0 (by simpa using hf) (by simpa using hb)
  rw [List.reverse_reverse] at hit
  simp [Extracted.iter, hit]

example : Extracted.it_rposition 6 [7, 8, 9, 8, 1] 8 = .ok (some 1) := by
  rw [it_rposition_eq _ _ _ (by decide) (by decide)]; rfl

/-! ### `it_all`: `copied(), all(|x| x < k)` -/

theorem it_all_loop (k m : Nat) (l : List Nat) (hm : l.length + 1 ≤ m) :
    ∃ it, Rs.loop (ε := Bool) m (Extracted.it_all.loop1 k) (⟨l⟩, true)
      = .val (it, l.all (fun x => decide (x < k))) := by
  induction m generalizing l with
  | zero => omega
  | succ m ih =>
    rw [Rs.loop_succ]
    cases l with
    | nil => exact ⟨⟨[]⟩, by simp [Extracted.it_all.loop1, Iter_next_nil]⟩
    | cons x l =>
      simp only [List.length_cons] at hm
      obtain ⟨it, hit⟩ := ih l (by omega)
      by_cases hx : x < k
      · have hx' : ¬ k ≤ x := by omega
        exact ⟨it, by simp [Extracted.it_all.loop1, Iter_next_cons, hx, hx', hit]⟩
      · have hx' : k ≤ x := by omega
        exact ⟨⟨l⟩, by simp [Extracted.it_all.loop1, Iter_next_cons, hx, hx']⟩

theorem it_all_eq (fuel : Nat) (xs : List Nat) (k : Nat) (hf : xs.length + 1 ≤ fuel) :
    Extracted.it_all fuel xs k = .ok (xs.all (fun x => decide (x < k))) := by
  unfold Extracted.it_all
  obtain ⟨it, hit⟩ := it_all_loop k fuel xs hf
  simp [Extracted.iter, hit]

example : Extracted.it_all 5 [7, 8, 9] 9 = .ok false := by
  rw [it_all_eq _ _ _ (by decide)]; rfl
example : Extracted.it_all 5 [7, 8, 9] 10 = .ok true := by
  rw [it_all_eq _ _ _ (by decide)]; rfl

/-! ### `it_any`: `copied(), any(|x| x == k)` -/

theorem it_any_loop (k m : Nat) (l : List Nat) (hm : l.length + 1 ≤ m) :
    ∃ it, Rs.loop (ε := Bool) m (Extracted.it_any.loop1 k) (⟨l⟩, false)
      = .val (it, l.any (· == k)) := by
  induction m generalizing l with
  | zero => omega
  | succ m ih =>
    rw [Rs.loop_succ]
    cases l with
    | nil => exact ⟨⟨[]⟩, by simp [Extracted.it_any.loop1, Iter_next_nil]⟩
    | cons x l =>
      simp only [List.length_cons] at hm
      obtain ⟨it, hit⟩ := ih l (by omega)
      by_cases hx : x = k
      · exact ⟨⟨l⟩, by simp [Extracted.it_any.loop1, Iter_next_cons, hx]⟩
      · exact ⟨it, by simp [Extracted.it_any.loop1, Iter_next_cons, hx, hit]⟩

theorem it_any_eq (fuel : Nat) (xs : List Nat) (k : Nat) (hf : xs.length + 1 ≤ fuel) :
    Extracted.it_any fuel xs k = .ok (xs.any (· == k)) := by
  unfold Extracted.it_any
  obtain ⟨it, hit⟩ := it_any_loop k fuel xs hf
  simp [Extracted.iter, hit]

example : Extracted.it_any 5 [7, 8, 9] 9 = .ok true := by
  rw [it_any_eq _ _ _ (by decide)]; rfl

/-! ### `it_nth`: `copied(), nth(n)` -/

theorem it_nth_loop (m : Nat) (l : List Nat) (v : Nat) (hm : l.length + 1 ≤ m) :
    ∃ it v', Rs.loop (ε := Option Nat) m Extracted.it_nth.loop1 (⟨l⟩, none, v)
      = .val (it, l[v]?, v') := by
  induction m generalizing l v with
  | zero => omega
  | succ m ih =>
    rw [Rs.loop_succ]
    cases l with
    | nil => exact ⟨⟨[]⟩, v, by simp [Extracted.it_nth.loop1, Iter_next_nil]⟩
    | cons x l =>
      simp only [List.length_cons] at hm
      cases v with
      | zero => exact ⟨⟨l⟩, 0, by simp [Extracted.it_nth.loop1, Iter_next_cons]⟩
      | succ v =>
        obtain ⟨it, v', hit⟩ := ih l v (by omega)
        exact ⟨it, v', by simp [Extracted.it_nth.loop1, Iter_next_cons, Rs.usub, hit]⟩

theorem it_nth_eq (fuel : Nat) (xs : List Nat) (n : Nat) (hf : xs.length + 1 ≤ fuel) :
    Extracted.it_nth fuel xs n = .ok (xs[n]?) := by
  unfold Extracted.it_nth
  obtain ⟨it, v', hit⟩ := it_nth_loop fuel xs n hf
  simp [Extracted.iter, hit]

example : Extracted.it_nth 5 [7, 8, 9] 1 = .ok (some 8) := by
  rw [it_nth_eq _ _ _ (by decide)]; rfl
example : Extracted.it_nth 5 [7, 8, 9] 3 = .ok none := by
  rw [it_nth_eq _ _ _ (by decide)]; rfl

/-! ### `it_take_while_skip_while_count`: `copied(), skip_while(|x| *x < a), take_while(|x| *x < b), count()` -/

/-- after the skipping phase (`still_skipping = false`) -/
theorem it_take_while_skip_while_count_loop_f (a b m : Nat) (l : List Nat) (c : Nat)
    (hm : l.length + 1 ≤ m) (hb : c + (l.takeWhile (fun x => decide (x < b))).length < 2 ^ 64) :
    ∃ it, Rs.loop (ε := Nat) m (Extracted.it_take_while_skip_while_count.loop1 a b) (⟨l⟩, false, c)
      = .val (it, false, c + (l.takeWhile (fun x => decide (x < b))).length) := by
  induction m generalizing l c with
  | zero => omega
  | succ m ih =>
    rw [Rs.loop_succ]
    cases l with
    | nil => exact ⟨⟨[]⟩, by simp [Extracted.it_take_while_skip_while_count.loop1, Iter_next_nil]⟩
    | cons x l =>
      simp only [List.length_cons] at hm
      by_cases hx : x < b
      · simp only [List.takeWhile_cons, hx, decide_true, ↓reduceIte, List.length_cons] at hb ⊢
        have h1 : c + 1 < 2 ^ 64 := by omega
        obtain ⟨it, hit⟩ := ih l (c + 1) (by omega) (by omega)
        have hx' : ¬ b ≤ x := by omega
        refine ⟨it, ?_⟩
        simp [Extracted.it_take_while_skip_while_count.loop1, Iter_next_cons, hx', Rs.uadd, h1, hit]
        omega
      · have hx' : b ≤ x := by omega
        exact ⟨⟨l⟩, by
          simp [Extracted.it_take_while_skip_while_count.loop1, Iter_next_cons, hx, hx']⟩

/-- from the start (`still_skipping = true`) -/
theorem it_take_while_skip_while_count_loop_t (a b m : Nat) (l : List Nat) (c : Nat)
    (hm : l.length + 1 ≤ m)
    (hb : c + ((l.dropWhile (fun x => decide (x < a))).takeWhile (fun x => decide (x < b))).length
            < 2 ^ 64) :
    ∃ it s, Rs.loop (ε := Nat) m (Extracted.it_take_while_skip_while_count.loop1 a b) (⟨l⟩, true, c)
      = .val (it, s,
          c + ((l.dropWhile (fun x => decide (x < a))).takeWhile (fun x => decide (x < b))).length) := by
  induction m generalizing l with
  | zero => omega
  | succ m ih =>
    cases l with
    | nil =>
      rw [Rs.loop_succ]
      exact ⟨⟨[]⟩, true, by simp [Extracted.it_take_while_skip_while_count.loop1, Iter_next_nil]⟩
    | cons x l =>
      simp only [List.length_cons] at hm
      by_cases hx : x < a
      · rw [Rs.loop_succ]
        simp only [List.dropWhile_cons, hx, decide_true, ↓reduceIte] at hb ⊢
        obtain ⟨it, s, hit⟩ := ih l (by omega) hb
        exact ⟨it, s, by
          simp [Extracted.it_take_while_skip_while_count.loop1, Iter_next_cons, hx, hit]⟩
      · simp only [List.dropWhile_cons, hx, decide_false, Bool.false_eq_true, ↓reduceIte] at hb ⊢
        obtain ⟨it, hit⟩ :=
          it_take_while_skip_while_count_loop_f a b (m + 1) (x :: l) c (by simp; omega) hb
        refine ⟨it, false, ?_⟩
        rw [← hit, Rs.loop_succ, Rs.loop_succ]
        simp [Extracted.it_take_while_skip_while_count.loop1, Iter_next_cons, hx]

theorem it_take_while_skip_while_count_eq (fuel : Nat) (xs : List Nat) (a b : Nat)
    (hf : xs.length + 1 ≤ fuel)
    (hb : ((xs.dropWhile (fun x => decide (x < a))).takeWhile (fun x => decide (x < b))).length
            < 2 ^ 64) :
    Extracted.it_take_while_skip_while_count fuel xs a b
      = .ok (((xs.dropWhile (fun x => decide (x < a))).takeWhile (fun x => decide (x < b))).length) := by
  unfold Extracted.it_take_while_skip_while_count
  obtain ⟨it, s, hit⟩ := it_take_while_skip_while_count_loop_t a b fuel xs 0 hf (by simpa using hb)
  simp [Extracted.iter, hit]

example : Extracted.it_take_while_skip_while_count 8 [1, 2, 5, 1, 6, 9, 2] 3 7 = .ok 3 := by
  rw [it_take_while_skip_while_count_eq _ _ _ _ (by decide) (by decide)]; rfl

/-! ### `it_enumerate_find_map`: `copied(), enumerate(), find_map(|(i, x)| if x == k { Some(i) } else { None })`

  `enumerate()` is `List.zipIdx` (pairs `(x, i)`), `find_map` is `List.findSome?`.  The counter `i += 1` runs
  before the closure on every item, hence the bound on the length. -/

theorem it_enumerate_find_map_loop (k m : Nat) (l : List Nat) (i : Nat) (o : Option Nat)
    (hm : l.length + 1 ≤ m) (hb : i + l.length < 2 ^ 64) (ho : l = [] → o = none) :
    ∃ it i', Rs.loop (ε := Option Nat) m (Extracted.it_enumerate_find_map.loop1 k) (⟨l⟩, i, o)
      = .val (it, i',
          (l.zipIdx i).findSome? (fun p : Nat × Nat => if p.1 == k then some p.2 else none)) := by
  induction m generalizing l i o with
  | zero => omega
  | succ m ih =>
    rw [Rs.loop_succ]
    cases l with
    | nil =>
      exact ⟨⟨[]⟩, i, by simp [Extracted.it_enumerate_find_map.loop1, Iter_next_nil, ho rfl]⟩
    | cons x l =>
      simp only [List.length_cons] at hm hb
      have h1 : i + 1 < 2 ^ 64 := by omega
      by_cases hx : x = k
      · exact ⟨⟨l⟩, i + 1, by
          simp [Extracted.it_enumerate_find_map.loop1, Iter_next_cons, Rs.uadd, h1, hx,
            List.zipIdx_cons]⟩
      · obtain ⟨it, i', hit⟩ := ih l (i + 1) none (by omega) (by omega) (fun _ => rfl)
        exact ⟨it, i', by
          simp [Extracted.it_enumerate_find_map.loop1, Iter_next_cons, Rs.uadd, h1, hx,
            List.zipIdx_cons, hit]⟩

theorem it_enumerate_find_map_eq (fuel : Nat) (xs : List Nat) (k : Nat) (hf : xs.length + 1 ≤ fuel)
    (hb : xs.length < 2 ^ 64) :
    Extracted.it_enumerate_find_map fuel xs k
      = .ok (xs.zipIdx.findSome? (fun p : Nat × Nat => if p.1 == k then some p.2 else none)) := by
  unfold Extracted.it_enumerate_find_map
  obtain ⟨it, i', hit⟩ :=
    it_enumerate_find_map_loop k fuel xs 0 none hf (by omega) (fun _ => rfl)
  simp [Extracted.iter, hit]

example : Extracted.it_enumerate_find_map 5 [7, 8, 9, 8] 8 = .ok (some 1) := by
  rw [it_enumerate_find_map_eq _ _ _ (by decide) (by decide)]; rfl

/-! ### `it_filter_map_rfold`:
  `copied(), filter_map(|x| if x % 3 == 0 { None } else { Some(x % 7) }), rfold(1u32, |a, b| (a * 3 + b) % 1000)`

  `rfold(init, f)` folds from the back: `List.foldr (fun b a => f a b) init`.  The accumulator stays below
  1000, so the `u32` arithmetic `a * 3 + b` (with `b < 7`) never overflows: no hypothesis on the elements. -/

theorem it_filter_map_rfold_loop (m : Nat) (r : List Nat) (acc : Nat) (hm : r.length + 1 ≤ m)
    (ha : acc < 1000) :
    Rs.loop (ε := Nat) m Extracted.it_filter_map_rfold.loop1 (⟨r.reverse⟩, acc)
      = .val (⟨[]⟩,
          (r.filterMap (fun x => if x % 3 == 0 then none else some (x % 7))).foldl
            (fun a b => (a * 3 + b) % 1000) acc) := by
  induction m generalizing r acc with
  | zero => omega
  | succ m ih =>
    rw [Rs.loop_succ]
    cases r with
    | nil => simp [Extracted.it_filter_map_rfold.loop1, Iter_next_back_nil]
    | cons x r =>
      simp only [List.length_cons] at hm
      by_cases hx : x % 3 = 0
      · have ih' := ih r acc (by omega) ha
        simp [Extracted.it_filter_map_rfold.loop1, Iter_next_back_snoc, Rs.urem, hx, ih']
      · have h7 : x % 7 < 7 := Nat.mod_lt _ (by decide)
        have h1 : acc * 3 < 2 ^ 32 := by omega
        have h2 : acc * 3 + x % 7 < 2 ^ 32 := by omega
        have ih' := ih r ((acc * 3 + x % 7) % 1000) (by omega) (Nat.mod_lt _ (by decide))
        simp [Extracted.it_filter_map_rfold.loop1, Iter_next_back_snoc, Rs.urem, Rs.umul, Rs.uadd, hx,
          h1, h2, ih']

theorem it_filter_map_rfold_eq (fuel : Nat) (xs : List Nat) (hf : xs.length + 1 ≤ fuel) :
    Extracted.it_filter_map_rfold fuel xs
      = .ok ((xs.filterMap (fun x => if x % 3 == 0 then none else some (x % 7))).foldr
              (fun b a => (a * 3 + b) % 1000) 1) := by
  unfold Extracted.it_filter_map_rfold
  have h := it_filter_map_rfold_loop fuel xs.reverse 1 (by simpa using hf) (by decide)
  rw [List.reverse_reverse] at h
  simp [Extracted.iter, h, List.filterMap_reverse, List.foldl_reverse]

example : Extracted.it_filter_map_rfold 6 [4, 9, 5, 13] = .ok ((((1 * 3 + 6) * 3 + 5) * 3 + 4) % 1000) := by
  rw [it_filter_map_rfold_eq _ _ (by decide)]; rfl

/-! ### `it_for_each_sum`: `for_each!{x in xs, copied(), skip(1) => s = s ^ x}` -/

theorem it_for_each_sum_loop (m : Nat) (l : List Nat) (rem s : Nat) (hm : l.length + 1 ≤ m) :
    Rs.loop (ε := Nat) m Extracted.it_for_each_sum.loop1 (⟨l⟩, rem, s)
      = .val (⟨[]⟩, rem - l.length, (l.drop rem).foldl (· ^^^ ·) s) := by
  induction m generalizing l rem s with
  | zero => omega
  | succ m ih =>
    rw [Rs.loop_succ]
    cases l with
    | nil => simp [Extracted.it_for_each_sum.loop1, Iter_next_nil]
    | cons x l =>
      simp only [List.length_cons] at hm
      cases rem with
      | zero =>
        have ih' := ih l 0 (s ^^^ x) (by omega)
        simp only [List.drop_zero] at ih'
        simp [Extracted.it_for_each_sum.loop1, Iter_next_cons, ih']
      | succ r =>
        have ih' := ih l r s (by omega)
        simp [Extracted.it_for_each_sum.loop1, Iter_next_cons, Rs.usub, ih']

theorem it_for_each_sum_eq (fuel : Nat) (xs : List Nat) (hf : xs.length + 1 ≤ fuel) :
    Extracted.it_for_each_sum fuel xs = .ok ((xs.drop 1).foldl (· ^^^ ·) 0) := by
  unfold Extracted.it_for_each_sum
  simp [Extracted.iter, it_for_each_sum_loop fuel xs 1 0 hf]

example : Extracted.it_for_each_sum 5 [7, 8, 9] = .ok (8 ^^^ 9) := by
  rw [it_for_each_sum_eq _ _ (by decide)]; rfl

/-! ### `it_flat_map_count`: `flat_map(|xs| *xs), copied(), filter(|x| *x == k), count()`

  Nested loops: the inner loop (`loop2`) walks one inner slice with the rest of the chain and the consumer
  inside; both loops receive the same `fuel`.  The only arithmetic is `rets += 1` on matching items, so the
  machine-range hypothesis is on the number of matches (inner slices may alias each other, so their total
  length is not bounded by the address space). -/

theorem it_flat_map_count_loop2 (item : List Nat) (k m : Nat) (l : List Nat) (c : Nat)
    (hm : l.length + 1 ≤ m) (hb : c + (l.filter (· == k)).length < 2 ^ 64) :
    Rs.loop (ε := LoopExit Nat (Extracted.Iter (List Nat) × Nat) (Extracted.Iter (List Nat) × Nat)) m
        (Extracted.it_flat_map_count.loop2 item k) (⟨l⟩, c)
      = .val (⟨[]⟩, c + (l.filter (· == k)).length) := by
  induction m generalizing l c with
  | zero => omega
  | succ m ih =>
    rw [Rs.loop_succ]
    cases l with
    | nil => simp [Extracted.it_flat_map_count.loop2, Iter_next_nil]
    | cons x l =>
      simp only [List.length_cons] at hm
      by_cases hx : x = k
      · simp only [List.filter_cons, hx, beq_self_eq_true, ↓reduceIte, List.length_cons] at hb ⊢
        have h1 : c + 1 < 2 ^ 64 := by omega
        have ih' := ih l (c + 1) (by omega) (by omega)
        simp [Extracted.it_flat_map_count.loop2, Iter_next_cons, Rs.uadd, h1, ih']
        omega
      · have hx' : (x == k) = false := by simp [hx]
        simp only [List.filter_cons, hx', Bool.false_eq_true, ↓reduceIte] at hb ⊢
        have ih' := ih l c (by omega) hb
        simp [Extracted.it_flat_map_count.loop2, Iter_next_cons, hx, ih']

theorem it_flat_map_count_loop1 (fuel k m : Nat) (ls : List (List Nat)) (c : Nat)
    (hm : ls.length + 1 ≤ m) (hfuel : ∀ xs ∈ ls, xs.length + 1 ≤ fuel)
    (hb : c + (ls.flatten.filter (· == k)).length < 2 ^ 64) :
    Rs.loop (ε := Nat) m (Extracted.it_flat_map_count.loop1 fuel k) (⟨ls⟩, c)
      = .val (⟨[]⟩, c + (ls.flatten.filter (· == k)).length) := by
  induction m generalizing ls c with
  | zero => omega
  | succ m ih =>
    rw [Rs.loop_succ]
    cases ls with
    | nil => simp [Extracted.it_flat_map_count.loop1, Iter_next_nil]
    | cons xs ls =>
      simp only [List.length_cons] at hm
      simp only [List.flatten_cons, List.filter_append, List.length_append] at hb ⊢
      have h2 := it_flat_map_count_loop2 xs k fuel xs c (hfuel xs (by simp)) (by omega)
      have ih' := ih ls (c + (xs.filter (· == k)).length) (by omega)
        (fun ys hy => hfuel ys (by simp [hy])) (by omega)
      simp [Extracted.it_flat_map_count.loop1, Iter_next_cons, Extracted.iter, h2, ih']
      omega

theorem it_flat_map_count_eq (fuel : Nat) (xss : List (List Nat)) (k : Nat)
    (hf : xss.length + 1 ≤ fuel) (hfi : ∀ xs ∈ xss, xs.length + 1 ≤ fuel)
    (hb : ((xss.flatMap id).filter (· == k)).length < 2 ^ 64) :
    Extracted.it_flat_map_count fuel xss k = .ok (((xss.flatMap id).filter (· == k)).length) := by
  unfold Extracted.it_flat_map_count
  rw [List.flatMap_id] at hb ⊢
  simp [Extracted.iter, it_flat_map_count_loop1 fuel k fuel xss 0 hf hfi (by simpa using hb)]

example : Extracted.it_flat_map_count 4 [[1, 2, 1], [], [3, 1]] 1 = .ok 3 := by
  rw [it_flat_map_count_eq _ _ _ (by decide) (by decide) (by decide)]; rfl

/-! ### `it_flatten_nth`: `copied(), flatten(), copied(), nth(n)`

  The inner loop leaves BOTH loops (`break 'label`, generated as `.out (.brk …)`) when the counter hits 0. -/

theorem it_flatten_nth_loop2 (item : List Nat) (iv : Extracted.Iter (List Nat)) (m : Nat) (l : List Nat)
    (v : Nat) (hm : l.length + 1 ≤ m) :
    Rs.loop m (Extracted.it_flatten_nth.loop2 item iv) (⟨l⟩, none, v)
      = if v < l.length then .exit (.brk (iv, l[v]?, 0)) else .val (⟨[]⟩, none, v - l.length) := by
  induction m generalizing l v with
  | zero => omega
  | succ m ih =>
    rw [Rs.loop_succ]
    cases l with
    | nil => simp [Extracted.it_flatten_nth.loop2, Iter_next_nil]
    | cons x l =>
      simp only [List.length_cons] at hm
      cases v with
      | zero => simp [Extracted.it_flatten_nth.loop2, Iter_next_cons]
      | succ v =>
        have ih' := ih l v (by omega)
        simp [Extracted.it_flatten_nth.loop2, Iter_next_cons, Rs.usub, ih']

theorem it_flatten_nth_loop1 (fuel m : Nat) (ls : List (List Nat)) (v : Nat)
    (hm : ls.length + 1 ≤ m) (hfuel : ∀ xs ∈ ls, xs.length + 1 ≤ fuel) :
    ∃ it v', Rs.loop (ε := Option Nat) m (Extracted.it_flatten_nth.loop1 fuel) (⟨ls⟩, none, v)
      = .val (it, ls.flatten[v]?, v') := by
  induction m generalizing ls v with
  | zero => omega
  | succ m ih =>
    rw [Rs.loop_succ]
    cases ls with
    | nil => exact ⟨⟨[]⟩, v, by simp [Extracted.it_flatten_nth.loop1, Iter_next_nil]⟩
    | cons xs ls =>
      simp only [List.length_cons] at hm
      have h2 := it_flatten_nth_loop2 xs ⟨ls⟩ fuel xs v (hfuel xs (by simp))
      by_cases hv : v < xs.length
      · rw [if_pos hv] at h2
        exact ⟨⟨ls⟩, 0, by
          simp [Extracted.it_flatten_nth.loop1, Iter_next_cons, Extracted.iter, h2,
            List.getElem?_append, hv]⟩
      · rw [if_neg hv] at h2
        obtain ⟨it, v', hit⟩ := ih ls (v - xs.length) (by omega) (fun ys hy => hfuel ys (by simp [hy]))
        exact ⟨it, v', by
          simp [Extracted.it_flatten_nth.loop1, Iter_next_cons, Extracted.iter, h2,
            List.getElem?_append, hv, hit]⟩

theorem it_flatten_nth_eq (fuel : Nat) (xss : List (List Nat)) (n : Nat)
    (hf : xss.length + 1 ≤ fuel) (hfi : ∀ xs ∈ xss, xs.length + 1 ≤ fuel) :
    Extracted.it_flatten_nth fuel xss n = .ok (xss.flatten[n]?) := by
  unfold Extracted.it_flatten_nth
  obtain ⟨it, v', hit⟩ := it_flatten_nth_loop1 fuel fuel xss n hf hfi
  simp [Extracted.iter, hit]

example : Extracted.it_flatten_nth 4 [[1, 2, 1], [], [3, 4]] 3 = .ok (some 3) := by
  rw [it_flatten_nth_eq _ _ _ (by decide) (by decide)]; rfl
example : Extracted.it_flatten_nth 4 [[1, 2, 1], [], [3, 4]] 5 = .ok none := by
  rw [it_flatten_nth_eq _ _ _ (by decide) (by decide)]; rfl

end Extracted.Equiv
