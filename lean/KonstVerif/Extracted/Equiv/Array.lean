import KonstVerif.Extracted.Gen.Array
import KonstVerif.Model.ArrayBuilder
import KonstVerif.Model.ArrayConsumer
import KonstVerif.Lemmas.ArrayBuilder
import KonstVerif.Lemmas.ArrayConsumer
import KonstVerif.Lemmas.ArrayHistories
/-
  Extracted (regenerated from /repo) = Model/ArrayBuilder.lean, Model/ArrayConsumer.lean, group `Array`:
  konst::array::ArrayBuilder::{new, len, is_full, as_slice, push, build} and
  konst::array::ArrayConsumer::{new, empty, is_empty, slice_len, assert_is_empty, as_slice, next, next_back}.

  Conversion maps.  The generated structures carry `N` as a type index and hold `array`, `inited` /
  `taken_front`, `taken_back`; the model structures store `n` as a field.  `X.toModel` sets `n := N` and
  copies the fields; `X.ofModel N` forgets `n` (`toModel (ofModel N m) = m` iff `m.n = N`,
  `ofModel N (toModel x) = x` always).  `&mut self` methods return `(result, self)`; the model returns an
  outcome type holding the next state: `pushRes`, `takeRes` translate the outcome constructor by constructor
  (`ub ↦ .ub`, `panic ↦ .panic`), `optUb` reads a model `Option` whose `none` is "a never-written slot was
  read" as `.ub`, `buildRes` translates `BuildRes`.

  Shape of the statements, per function:

  * `<f>_res`: `Extracted.f … = <conversion> (model f (toModel …))` — the generated code is `ub` EXACTLY when
    the model says `ub`/`none`, panics exactly when the model says `panic`, and otherwise returns the model's
    value and the model's next state.  Hypotheses are only *type* facts the list representation loses
    (`array.length = N`: the field is a `[MaybeUninit<T>; N]`), the machine bound `N < 2^64` (for the checked
    `+= 1`), and, where the model totalises something the code checks, the corresponding part of the structure
    invariant, stated explicitly:
      - `taken_front + taken_back ≤ N` for the consumer functions: the code computes
        `N - taken_front - taken_back` in checked `usize` arithmetic (panic on underflow), the model in
        truncated `Nat` subtraction (Model/ArrayConsumer.lean says so in its header).  For `is_empty` and
        `slice_len` the `_res` theorem is unconditional and states the panic branch exactly.
      - `ArrayBuilder::as_slice`: `from_raw_parts(ptr, inited)` past the array (`inited > array.length`) is
        `ub` in the generated code; the model's `take` silently clips.  The `_res` theorem is unconditional
        and states that `ub` branch exactly.
  * `<f>_eq`: under the structure invariant the property theorems use — `Konst.ArrayBuilder.Wf (toModel b) acc`
    (Lemmas/ArrayBuilder.lean: `inited = acc.length ≤ n`, `slots = acc.map some ++ replicate (n - inited) none`)
    and `Konst.ArrayConsumer.Wf (toModel c) rem` (Lemmas/ArrayConsumer.lean: `slots = pre ++ rem.map some ++ post`
    with `|pre| = taken_front`, `|post| = taken_back`, `n = |pre| + |rem| + |post|`) — the conclusion is
    `= .ok …` with the model's value / next state, the model's outcome is given explicitly, and the invariant
    holds of the next state (citing `wf_push_ok`, `wf_next_cons`, `wf_nextBack_snoc`).
  * `<f>_panic`: the by-design panics (push on a full builder, build on a non-full one, assert_is_empty on a
    non-empty consumer) are `= .panic` exactly there, matching the model's `panic` constructor.
-/
namespace Extracted.Equiv
open Rs Konst

/-! ### shared conversions -/

/-- model `Option` whose `none` is "an uninitialised slot was read" as a `Res` -/
def optUb {α : Type} : Option α → Res α
  | some a => .ok a
  | none => .ub

@[simp] theorem arr_run_ub {ρ : Type} : Ctl.run (.ub : Ctl ρ ρ) = .ub := rfl

theorem arr_decide_eq_beq (a b : Nat) : decide (a = b) = (a == b) := by
  by_cases h : a = b <;> simp [h]

/-- `readInit` (model, recursive) is the prelude's "all slots initialised, then strip the `some`s" -/
theorem readInit_eq_filterMap {α : Type} (l : List (Option α)) :
    Konst.ArrayBuilder.readInit l = if l.all Option.isSome = true then some (l.filterMap id) else none := by
  induction l with
  | nil => simp [Konst.ArrayBuilder.readInit]
  | cons o r ih =>
    cases o with
    | none => simp [Konst.ArrayBuilder.readInit]
    | some v =>
      by_cases h : r.all Option.isSome = true
      · simp only [h, ↓reduceIte] at ih
        simp [Konst.ArrayBuilder.readInit, ih, h]
      · simp only [h] at ih
        simp [Konst.ArrayBuilder.readInit, ih, h]

/-! ### `ArrayBuilder` -/

def ArrayBuilder.toModel {T : Type} {N : Nat} (b : Extracted.ArrayBuilder T N) : Konst.ArrayBuilder.Builder T :=
  ⟨N, b.array, b.inited⟩
def ArrayBuilder.ofModel {T : Type} (N : Nat) (b : Konst.ArrayBuilder.Builder T) : Extracted.ArrayBuilder T N :=
  ⟨b.slots, b.inited⟩

@[simp] theorem ArrayBuilder.ofModel_toModel {T : Type} {N : Nat} (b : Extracted.ArrayBuilder T N) :
    ArrayBuilder.ofModel N (ArrayBuilder.toModel b) = b := rfl
theorem ArrayBuilder.toModel_ofModel {T : Type} (b : Konst.ArrayBuilder.Builder T) :
    ArrayBuilder.toModel (ArrayBuilder.ofModel b.n b) = b := rfl
@[simp] theorem ArrayBuilder.toModel_n {T : Type} {N : Nat} (b : Extracted.ArrayBuilder T N) :
    (ArrayBuilder.toModel b).n = N := rfl

/-- model `PushRes` as the `Res (() × self)` of the extracted `push(&mut self, val)` -/
def pushRes {T : Type} (N : Nat) : Konst.ArrayBuilder.PushRes T → Res (Unit × Extracted.ArrayBuilder T N)
  | .ok b => .ok ((), ArrayBuilder.ofModel N b)
  | .panic => .panic

/-- model `BuildRes` as the `Res [T; N]` of the extracted `build` -/
def buildRes {T : Type} : Konst.ArrayBuilder.BuildRes T → Res (List T)
  | .array l => .ok l
  | .panic => .panic
  | .ub => .ub

/-- what the structure invariant says about the raw fields: the array has its declared length, `inited ≤ N` -/
theorem ArrayBuilder.wf_fields {T : Type} {N : Nat} {b : Extracted.ArrayBuilder T N} {acc : List T}
    (h : Konst.ArrayBuilder.Wf (ArrayBuilder.toModel b) acc) :
    b.array.length = N ∧ b.inited = acc.length ∧ acc.length ≤ N := by
  obtain ⟨hle, hi, hs⟩ := h
  simp only [ArrayBuilder.toModel] at hle hi hs
  refine ⟨?_, hi, hle⟩
  rw [hs]; simp; omega

theorem ArrayBuilder_new_eq {T : Type} (N : Nat) :
    (Extracted.ArrayBuilder.new N : Res (Extracted.ArrayBuilder T N))
      = .ok (ArrayBuilder.ofModel N (Konst.ArrayBuilder.new N)) := rfl

/-- the new builder, read back into the model, is the model's `new N`, and satisfies the invariant -/
theorem ArrayBuilder_new_wf {T : Type} (N : Nat) :
    ∃ b : Extracted.ArrayBuilder T N, Extracted.ArrayBuilder.new N = .ok b
      ∧ ArrayBuilder.toModel b = Konst.ArrayBuilder.new N ∧ Konst.ArrayBuilder.Wf (ArrayBuilder.toModel b) [] :=
  ⟨_, rfl, rfl, Konst.ArrayBuilder.wf_new N⟩

example : (Extracted.ArrayBuilder.new 2 : Res (Extracted.ArrayBuilder Nat 2)) = .ok ⟨[none, none], 0⟩ := by
  rw [ArrayBuilder_new_eq]; rfl

theorem ArrayBuilder_fn_len_eq {T : Type} (N : Nat) (b : Extracted.ArrayBuilder T N) :
    Extracted.ArrayBuilder.fn_len N b = .ok (Konst.ArrayBuilder.len (ArrayBuilder.toModel b)) := rfl

example : Extracted.ArrayBuilder.fn_len 2 (⟨[some 7, none], 1⟩ : Extracted.ArrayBuilder Nat 2) = .ok 1 := by
  rw [ArrayBuilder_fn_len_eq]; rfl

theorem ArrayBuilder_is_full_eq {T : Type} (N : Nat) (b : Extracted.ArrayBuilder T N) :
    Extracted.ArrayBuilder.is_full N b = .ok (Konst.ArrayBuilder.isFull (ArrayBuilder.toModel b)) := by
  unfold Extracted.ArrayBuilder.is_full Konst.ArrayBuilder.isFull ArrayBuilder.toModel
  by_cases h : b.inited = N <;> simp [h]

example : Extracted.ArrayBuilder.is_full 2 (⟨[some 7, none], 1⟩ : Extracted.ArrayBuilder Nat 2) = .ok false := by
  rw [ArrayBuilder_is_full_eq]; rfl

/-- `as_slice`, unconditionally: `ub` exactly when the model's read hits a never-written slot, or when
    `inited > array.length` (`from_raw_parts` past the array; the model's `take` clips there — outside the
    invariant, which has `inited ≤ N = array.length`). -/
theorem ArrayBuilder_as_slice_res {T : Type} (N : Nat) (b : Extracted.ArrayBuilder T N) :
    Extracted.ArrayBuilder.as_slice N b
      = if b.inited ≤ b.array.length then optUb (Konst.ArrayBuilder.asSlice (ArrayBuilder.toModel b))
        else .ub := by
  unfold Extracted.ArrayBuilder.as_slice Konst.ArrayBuilder.asSlice ArrayBuilder.toModel
  simp only [Rs.rawPartsInit, readInit_eq_filterMap, List.drop_zero, Nat.zero_add]
  by_cases hi : b.inited ≤ b.array.length
  · by_cases h : (b.array.take b.inited).all Option.isSome = true <;> simp [h, hi, optUb]
  · simp [hi]

/-- under the invariant: never `ub`, the value is the accepted pushes -/
theorem ArrayBuilder_as_slice_eq {T : Type} (N : Nat) (b : Extracted.ArrayBuilder T N) (acc : List T)
    (h : Konst.ArrayBuilder.Wf (ArrayBuilder.toModel b) acc) :
    Extracted.ArrayBuilder.as_slice N b = .ok acc
      ∧ Konst.ArrayBuilder.asSlice (ArrayBuilder.toModel b) = some acc := by
  obtain ⟨hl, hi, hle⟩ := ArrayBuilder.wf_fields h
  have hi' : b.inited ≤ b.array.length := by omega
  rw [ArrayBuilder_as_slice_res N b, Konst.ArrayBuilder.wf_asSlice h]
  simp [hi', optUb]

example : Extracted.ArrayBuilder.as_slice 3 (⟨[some 7, some 8, none], 2⟩ : Extracted.ArrayBuilder Nat 3)
    = .ok [7, 8] := by
  rw [ArrayBuilder_as_slice_res]; rfl
example : Extracted.ArrayBuilder.as_slice 3 (⟨[some 7, none, none], 2⟩ : Extracted.ArrayBuilder Nat 3)
    = .ub := by
  rw [ArrayBuilder_as_slice_res]; rfl

example : Extracted.ArrayBuilder.as_slice 1 (⟨[some 7], 2⟩ : Extracted.ArrayBuilder Nat 1) = .ub := by
  rw [ArrayBuilder_as_slice_res]; rfl

/-- `push`: panics exactly when the model does (`inited ≥ N`), otherwise the model's next state.
    `array.length = N` is the type of the field; `N < 2^64` keeps the checked `inited += 1` from overflowing. -/
theorem ArrayBuilder_push_res {T : Type} (N : Nat) (b : Extracted.ArrayBuilder T N) (v : T)
    (hN : N < 2 ^ 64) (hlen : b.array.length = N) :
    Extracted.ArrayBuilder.push N b v = pushRes N (Konst.ArrayBuilder.push (ArrayBuilder.toModel b) v) := by
  unfold Extracted.ArrayBuilder.push Konst.ArrayBuilder.push ArrayBuilder.toModel
  by_cases h : b.inited < N
  · have h1 : b.inited < b.array.length := by omega
    have h2 : b.inited + 1 < 2 ^ 64 := by omega
    simp [h, h1, h2, Rs.setIndex, Rs.uadd, pushRes, ArrayBuilder.ofModel]
  · simp [h, pushRes]

/-- under the invariant, on a non-full builder: returns normally with the model's next state, which satisfies
    the invariant for `acc ++ [v]` (`Konst.ArrayBuilder.wf_push_ok`) -/
theorem ArrayBuilder_push_eq {T : Type} (N : Nat) (b : Extracted.ArrayBuilder T N) (v : T) (acc : List T)
    (hN : N < 2 ^ 64) (h : Konst.ArrayBuilder.Wf (ArrayBuilder.toModel b) acc) (hlt : acc.length < N) :
    ∃ b' : Extracted.ArrayBuilder T N,
      Extracted.ArrayBuilder.push N b v = .ok ((), b')
        ∧ Konst.ArrayBuilder.push (ArrayBuilder.toModel b) v = .ok (ArrayBuilder.toModel b')
        ∧ Konst.ArrayBuilder.Wf (ArrayBuilder.toModel b') (acc ++ [v]) := by
  obtain ⟨hl, hi, hle⟩ := ArrayBuilder.wf_fields h
  obtain ⟨m, hp, hw, hn⟩ := Konst.ArrayBuilder.wf_push_ok h v hlt
  have hn' : m.n = N := hn
  refine ⟨ArrayBuilder.ofModel N m, ?_, ?_, ?_⟩
  · rw [ArrayBuilder_push_res N b v hN hl, hp]; rfl
  · rw [hp, ← hn']; rfl
  · rw [← hn']; exact hw

/-- the by-design panic: push on a full builder (`assert!(self.inited < N)`), in the code and in the model -/
theorem ArrayBuilder_push_panic {T : Type} (N : Nat) (b : Extracted.ArrayBuilder T N) (v : T) (acc : List T)
    (h : Konst.ArrayBuilder.Wf (ArrayBuilder.toModel b) acc) (hfull : acc.length = N) :
    Extracted.ArrayBuilder.push N b v = .panic
      ∧ Konst.ArrayBuilder.push (ArrayBuilder.toModel b) v = .panic := by
  obtain ⟨hl, hi, hle⟩ := ArrayBuilder.wf_fields h
  refine ⟨?_, Konst.ArrayBuilder.wf_push_full h v hfull⟩
  unfold Extracted.ArrayBuilder.push
  have : ¬ b.inited < N := by omega
  simp [this]

example : Extracted.ArrayBuilder.push 2 (⟨[some 7, none], 1⟩ : Extracted.ArrayBuilder Nat 2) 9
    = .ok ((), ⟨[some 7, some 9], 2⟩) := by
  rw [ArrayBuilder_push_res _ _ _ (by decide) (by decide)]; rfl
example : Extracted.ArrayBuilder.push 2 (⟨[some 7, some 9], 2⟩ : Extracted.ArrayBuilder Nat 2) 5 = .panic := by
  rw [ArrayBuilder_push_res _ _ _ (by decide) (by decide)]; rfl

/-- `build`: panics exactly when not full, is `ub` exactly when the model's whole-array read hits a
    never-written slot, otherwise the model's array.  Only the type fact `array.length = N` is assumed. -/
theorem ArrayBuilder_build_res {T : Type} (N : Nat) (b : Extracted.ArrayBuilder T N)
    (hlen : b.array.length = N) :
    Extracted.ArrayBuilder.build N b = buildRes (Konst.ArrayBuilder.build (ArrayBuilder.toModel b)) := by
  unfold Extracted.ArrayBuilder.build Konst.ArrayBuilder.build
  rw [ArrayBuilder_is_full_eq]
  unfold ArrayBuilder.toModel
  by_cases hf : Konst.ArrayBuilder.isFull
      ({ n := N, slots := b.array, inited := b.inited } : Konst.ArrayBuilder.Builder T) = true
  · simp only [hf, Ctl.call_ok, Ctl.bind_eq, Ctl.bind_val, Bool.not_true, Bool.false_eq_true, ↓reduceIte,
      Ctl.pure_eq, Rs.assumeInitArray, readInit_eq_filterMap, hlen, true_and]
    by_cases h : b.array.all Option.isSome = true <;> simp [h, buildRes, Ctl.run]
  · simp [hf, buildRes]

/-- under the invariant, on a full builder: never `ub`, the array is the accepted pushes -/
theorem ArrayBuilder_build_eq {T : Type} (N : Nat) (b : Extracted.ArrayBuilder T N) (acc : List T)
    (h : Konst.ArrayBuilder.Wf (ArrayBuilder.toModel b) acc) (hfull : acc.length = N) :
    Extracted.ArrayBuilder.build N b = .ok acc
      ∧ Konst.ArrayBuilder.build (ArrayBuilder.toModel b) = .array acc := by
  obtain ⟨hl, hi, hle⟩ := ArrayBuilder.wf_fields h
  have hb : Konst.ArrayBuilder.build (ArrayBuilder.toModel b) = .array acc := by
    rw [Konst.ArrayBuilder.wf_build h]; simp [hfull]
  rw [ArrayBuilder_build_res N b hl, hb]
  exact ⟨rfl, rfl⟩

/-- the by-design panic: build on a non-full builder (`assert!(self.is_full())`) -/
theorem ArrayBuilder_build_panic {T : Type} (N : Nat) (b : Extracted.ArrayBuilder T N) (acc : List T)
    (h : Konst.ArrayBuilder.Wf (ArrayBuilder.toModel b) acc) (hlt : acc.length < N) :
    Extracted.ArrayBuilder.build N b = .panic
      ∧ Konst.ArrayBuilder.build (ArrayBuilder.toModel b) = .panic := by
  obtain ⟨hl, hi, hle⟩ := ArrayBuilder.wf_fields h
  have hne : ¬ acc.length = N := by omega
  have hb : Konst.ArrayBuilder.build (ArrayBuilder.toModel b) = .panic := by
    rw [Konst.ArrayBuilder.wf_build h]; simp [hne]
  rw [ArrayBuilder_build_res N b hl, hb]
  exact ⟨rfl, rfl⟩

example : Extracted.ArrayBuilder.build 2 (⟨[some 7, some 9], 2⟩ : Extracted.ArrayBuilder Nat 2) = .ok [7, 9] := by
  rw [ArrayBuilder_build_res _ _ (by decide)]; rfl
example : Extracted.ArrayBuilder.build 2 (⟨[some 7, none], 1⟩ : Extracted.ArrayBuilder Nat 2) = .panic := by
  rw [ArrayBuilder_build_res _ _ (by decide)]; rfl
example : Extracted.ArrayBuilder.build 2 (⟨[some 7, none], 2⟩ : Extracted.ArrayBuilder Nat 2) = .ub := by
  rw [ArrayBuilder_build_res _ _ (by decide)]; rfl

/-! ### `ArrayConsumer` -/

def ArrayConsumer.toModel {T : Type} {N : Nat} (c : Extracted.ArrayConsumer T N) : Konst.ArrayConsumer.Consumer T :=
  ⟨N, c.array, c.taken_front, c.taken_back⟩
def ArrayConsumer.ofModel {T : Type} (N : Nat) (c : Konst.ArrayConsumer.Consumer T) : Extracted.ArrayConsumer T N :=
  ⟨c.slots, c.takenFront, c.takenBack⟩

@[simp] theorem ArrayConsumer.ofModel_toModel {T : Type} {N : Nat} (c : Extracted.ArrayConsumer T N) :
    ArrayConsumer.ofModel N (ArrayConsumer.toModel c) = c := rfl
theorem ArrayConsumer.toModel_ofModel {T : Type} (c : Konst.ArrayConsumer.Consumer T) :
    ArrayConsumer.toModel (ArrayConsumer.ofModel c.n c) = c := rfl
@[simp] theorem ArrayConsumer.toModel_n {T : Type} {N : Nat} (c : Extracted.ArrayConsumer T N) :
    (ArrayConsumer.toModel c).n = N := rfl

/-- model `Take` as the `Res (Option<T> × self)` of the extracted `next(&mut self)`/`next_back(&mut self)`;
    on `None` the state is the unchanged `self` -/
def takeRes {T : Type} (N : Nat) (self : Extracted.ArrayConsumer T N) :
    Konst.ArrayConsumer.Take T → Res (Option T × Extracted.ArrayConsumer T N)
  | .none => .ok (none, self)
  | .some v c => .ok (some v, ArrayConsumer.ofModel N c)
  | .ub => .ub

/-- model `finish … .assertEmpty` (`none` = ub, `panicked` = the assert fired) as the `Res ()` of the
    extracted `assert_is_empty` -/
def finalRes {T : Type} : Option (Konst.ArrayConsumer.Final T) → Res Unit
  | none => .ub
  | some f => if f.panicked then .panic else .ok ()

/-- what the structure invariant says about the raw fields -/
theorem ArrayConsumer.wf_fields {T : Type} {N : Nat} {c : Extracted.ArrayConsumer T N} {rem : List T}
    (h : Konst.ArrayConsumer.Wf (ArrayConsumer.toModel c) rem) :
    c.array.length = N ∧ c.taken_front + c.taken_back + rem.length = N := by
  obtain ⟨pre, post, hs, hp, hq, hn⟩ := h
  simp only [ArrayConsumer.toModel] at hs hp hq hn
  refine ⟨?_, by omega⟩
  rw [hs]; simp; omega

/-- `new(array)`; `array : [T; N]`, so `xs.length = N` is the type of the argument -/
theorem ArrayConsumer_new_eq {T : Type} (N : Nat) (xs : List T) :
    Extracted.ArrayConsumer.new N xs = .ok (ArrayConsumer.ofModel N (Konst.ArrayConsumer.new xs)) := rfl

theorem ArrayConsumer_new_wf {T : Type} (N : Nat) (xs : List T) (hlen : xs.length = N) :
    ∃ c : Extracted.ArrayConsumer T N, Extracted.ArrayConsumer.new N xs = .ok c
      ∧ ArrayConsumer.toModel c = Konst.ArrayConsumer.new xs
      ∧ Konst.ArrayConsumer.Wf (ArrayConsumer.toModel c) xs := by
  subst hlen
  exact ⟨_, rfl, rfl, Konst.ArrayConsumer.wf_new xs⟩

example : Extracted.ArrayConsumer.new 2 [7, 9] = .ok ⟨[some 7, some 9], 0, 0⟩ := by
  rw [ArrayConsumer_new_eq]; rfl

theorem ArrayConsumer_empty_eq {T : Type} (N : Nat) :
    (Extracted.ArrayConsumer.empty N : Res (Extracted.ArrayConsumer T N))
      = .ok (ArrayConsumer.ofModel N (Konst.ArrayConsumer.empty N)) := rfl

theorem ArrayConsumer_empty_wf {T : Type} (N : Nat) :
    ∃ c : Extracted.ArrayConsumer T N, Extracted.ArrayConsumer.empty N = .ok c
      ∧ ArrayConsumer.toModel c = Konst.ArrayConsumer.empty N
      ∧ Konst.ArrayConsumer.Wf (ArrayConsumer.toModel c) [] :=
  ⟨_, rfl, rfl, Konst.ArrayConsumer.wf_empty N⟩

example : (Extracted.ArrayConsumer.empty 2 : Res (Extracted.ArrayConsumer Nat 2)) = .ok ⟨[none, none], 2, 0⟩ := by
  rw [ArrayConsumer_empty_eq]; rfl

/-- `slice_len`, unconditionally: the checked `N - taken_front - taken_back` panics exactly when
    `taken_front + taken_back > N` (where the model's truncated subtraction gives 0) and is the model's value
    otherwise -/
theorem ArrayConsumer_slice_len_res {T : Type} (N : Nat) (c : Extracted.ArrayConsumer T N) :
    Extracted.ArrayConsumer.slice_len N c
      = if c.taken_front + c.taken_back ≤ N then .ok (Konst.ArrayConsumer.sliceLen (ArrayConsumer.toModel c))
        else .panic := by
  unfold Extracted.ArrayConsumer.slice_len Konst.ArrayConsumer.sliceLen ArrayConsumer.toModel
  by_cases h1 : c.taken_front ≤ N
  · by_cases h2 : c.taken_back ≤ N - c.taken_front
    · have : c.taken_front + c.taken_back ≤ N := by omega
      simp [Rs.usub, h1, h2, this]
    · have : ¬ c.taken_front + c.taken_back ≤ N := by omega
      simp [Rs.usub, h1, h2, this]
  · have : ¬ c.taken_front + c.taken_back ≤ N := by omega
    simp [Rs.usub, h1, this]

theorem ArrayConsumer_slice_len_eq {T : Type} (N : Nat) (c : Extracted.ArrayConsumer T N)
    (hle : c.taken_front + c.taken_back ≤ N) :
    Extracted.ArrayConsumer.slice_len N c = .ok (Konst.ArrayConsumer.sliceLen (ArrayConsumer.toModel c)) := by
  rw [ArrayConsumer_slice_len_res]; simp [hle]

/-- under the invariant: the number of elements still owned -/
theorem ArrayConsumer_slice_len_wf {T : Type} (N : Nat) (c : Extracted.ArrayConsumer T N) (rem : List T)
    (h : Konst.ArrayConsumer.Wf (ArrayConsumer.toModel c) rem) :
    Extracted.ArrayConsumer.slice_len N c = .ok rem.length := by
  obtain ⟨hl, hs⟩ := ArrayConsumer.wf_fields h
  rw [ArrayConsumer_slice_len_eq N c (by omega), Konst.ArrayConsumer.wf_sliceLen h]

example : Extracted.ArrayConsumer.slice_len 3 (⟨[some 1, some 2, some 3], 1, 1⟩ : Extracted.ArrayConsumer Nat 3)
    = .ok 1 := by
  rw [ArrayConsumer_slice_len_res]; rfl
example : Extracted.ArrayConsumer.slice_len 3 (⟨[some 1, some 2, some 3], 2, 2⟩ : Extracted.ArrayConsumer Nat 3)
    = .panic := by
  rw [ArrayConsumer_slice_len_res]; rfl

/-- `is_empty`, unconditionally (same arithmetic as `slice_len`) -/
theorem ArrayConsumer_is_empty_res {T : Type} (N : Nat) (c : Extracted.ArrayConsumer T N) :
    Extracted.ArrayConsumer.is_empty N c
      = if c.taken_front + c.taken_back ≤ N then .ok (Konst.ArrayConsumer.isEmpty (ArrayConsumer.toModel c))
        else .panic := by
  unfold Extracted.ArrayConsumer.is_empty Konst.ArrayConsumer.isEmpty Konst.ArrayConsumer.sliceLen
    ArrayConsumer.toModel
  by_cases h1 : c.taken_front ≤ N
  · by_cases h2 : c.taken_back ≤ N - c.taken_front
    · have : c.taken_front + c.taken_back ≤ N := by omega
      simp [Rs.usub, h1, h2, this, arr_decide_eq_beq]
    · have : ¬ c.taken_front + c.taken_back ≤ N := by omega
      simp [Rs.usub, h1, h2, this]
  · have : ¬ c.taken_front + c.taken_back ≤ N := by omega
    simp [Rs.usub, h1, this]

theorem ArrayConsumer_is_empty_eq {T : Type} (N : Nat) (c : Extracted.ArrayConsumer T N)
    (hle : c.taken_front + c.taken_back ≤ N) :
    Extracted.ArrayConsumer.is_empty N c = .ok (Konst.ArrayConsumer.isEmpty (ArrayConsumer.toModel c)) := by
  rw [ArrayConsumer_is_empty_res]; simp [hle]

theorem ArrayConsumer_is_empty_wf {T : Type} (N : Nat) (c : Extracted.ArrayConsumer T N) (rem : List T)
    (h : Konst.ArrayConsumer.Wf (ArrayConsumer.toModel c) rem) :
    Extracted.ArrayConsumer.is_empty N c = .ok rem.isEmpty := by
  obtain ⟨hl, hs⟩ := ArrayConsumer.wf_fields h
  rw [ArrayConsumer_is_empty_eq N c (by omega)]
  simp only [Konst.ArrayConsumer.isEmpty, Konst.ArrayConsumer.wf_sliceLen h]
  cases rem <;> simp

example : Extracted.ArrayConsumer.is_empty 3 (⟨[some 1, some 2, some 3], 2, 1⟩ : Extracted.ArrayConsumer Nat 3)
    = .ok true := by
  rw [ArrayConsumer_is_empty_res]; rfl

/-- `assert_is_empty`: `ok` exactly when the model's `isEmpty` holds, otherwise the assert's panic.  (The
    generated `Res` has no ledger: what unwinding then drops is the model's `finish … .assertEmpty`, see `_eq`.) -/
theorem ArrayConsumer_assert_is_empty_res {T : Type} (N : Nat) (c : Extracted.ArrayConsumer T N)
    (hle : c.taken_front + c.taken_back ≤ N) :
    Extracted.ArrayConsumer.assert_is_empty N c
      = if Konst.ArrayConsumer.isEmpty (ArrayConsumer.toModel c) = true then .ok () else .panic := by
  unfold Extracted.ArrayConsumer.assert_is_empty
  rw [ArrayConsumer_is_empty_eq N c hle]
  by_cases h : Konst.ArrayConsumer.isEmpty (ArrayConsumer.toModel c) = true <;> simp [h]

/-- under the invariant: the outcome is the model's `finish … .assertEmpty` (never `ub`; `panicked` exactly
    when elements are still owned — `cons_finish`), i.e. `ok` on an empty consumer -/
theorem ArrayConsumer_assert_is_empty_eq {T : Type} (N : Nat) (c : Extracted.ArrayConsumer T N) (rem : List T)
    (h : Konst.ArrayConsumer.Wf (ArrayConsumer.toModel c) rem) :
    Extracted.ArrayConsumer.assert_is_empty N c
        = finalRes (Konst.ArrayConsumer.finish (ArrayConsumer.toModel c) .assertEmpty)
      ∧ Konst.ArrayConsumer.finish (ArrayConsumer.toModel c) .assertEmpty
          = some (Konst.Spec.ArrayStd.dqFinish rem .assertEmpty)
      ∧ (rem = [] → Extracted.ArrayConsumer.assert_is_empty N c = .ok ()) := by
  obtain ⟨hl, hs⟩ := ArrayConsumer.wf_fields h
  have hr := ArrayConsumer_assert_is_empty_res N c (by omega)
  have hf := Konst.Histories.cons_finish h .assertEmpty
  have he : Konst.ArrayConsumer.isEmpty (ArrayConsumer.toModel c) = rem.isEmpty := by
    simp only [Konst.ArrayConsumer.isEmpty, Konst.ArrayConsumer.wf_sliceLen h]
    cases rem <;> simp
  rw [he] at hr
  refine ⟨?_, hf, ?_⟩
  · rw [hr, hf]
    cases rem <;> simp [finalRes, Konst.Spec.ArrayStd.dqFinish]
  · intro hnil; rw [hr, hnil]; rfl

/-- the by-design panic: `assert!(self.is_empty())` on a consumer that still owns elements; the model's
    `finish` reports `panicked = true` and the owned elements as dropped by unwinding -/
theorem ArrayConsumer_assert_is_empty_panic {T : Type} (N : Nat) (c : Extracted.ArrayConsumer T N)
    (x : T) (rem : List T) (h : Konst.ArrayConsumer.Wf (ArrayConsumer.toModel c) (x :: rem)) :
    Extracted.ArrayConsumer.assert_is_empty N c = .panic
      ∧ Konst.ArrayConsumer.finish (ArrayConsumer.toModel c) .assertEmpty = some ⟨true, x :: rem, []⟩ := by
  obtain ⟨h1, h2, _⟩ := ArrayConsumer_assert_is_empty_eq N c (x :: rem) h
  rw [h1, h2]
  simp [finalRes, Konst.Spec.ArrayStd.dqFinish]

example : Extracted.ArrayConsumer.assert_is_empty 2 (⟨[some 1, some 2], 1, 1⟩ : Extracted.ArrayConsumer Nat 2)
    = .ok () := by
  rw [ArrayConsumer_assert_is_empty_res _ _ (by decide)]; rfl
example : Extracted.ArrayConsumer.assert_is_empty 2 (⟨[some 1, some 2], 1, 0⟩ : Extracted.ArrayConsumer Nat 2)
    = .panic := by
  rw [ArrayConsumer_assert_is_empty_res _ _ (by decide)]; rfl

/-- `as_slice`: `ub` exactly when the model's read of `array[taken_front .. N - taken_back]` hits a
    never-written slot -/
theorem ArrayConsumer_as_slice_res {T : Type} (N : Nat) (c : Extracted.ArrayConsumer T N)
    (hlen : c.array.length = N) (hle : c.taken_front + c.taken_back ≤ N) :
    Extracted.ArrayConsumer.as_slice N c = optUb (Konst.ArrayConsumer.asSlice (ArrayConsumer.toModel c)) := by
  unfold Extracted.ArrayConsumer.as_slice Konst.ArrayConsumer.asSlice
  rw [ArrayConsumer_slice_len_eq N c hle]
  unfold Konst.ArrayConsumer.sliceLen ArrayConsumer.toModel
  have hb : c.taken_front + (N - c.taken_front - c.taken_back) ≤ c.array.length := by omega
  simp only [Ctl.call_ok, Ctl.bind_eq, Ctl.bind_val, Rs.rawPartsInit, readInit_eq_filterMap]
  by_cases h : ((c.array.drop c.taken_front).take (N - c.taken_front - c.taken_back)).all Option.isSome = true <;>
    simp [h, hb, optUb]

/-- under the invariant: never `ub`, the value is the elements still owned, in order -/
theorem ArrayConsumer_as_slice_eq {T : Type} (N : Nat) (c : Extracted.ArrayConsumer T N) (rem : List T)
    (h : Konst.ArrayConsumer.Wf (ArrayConsumer.toModel c) rem) :
    Extracted.ArrayConsumer.as_slice N c = .ok rem
      ∧ Konst.ArrayConsumer.asSlice (ArrayConsumer.toModel c) = some rem := by
  obtain ⟨hl, hs⟩ := ArrayConsumer.wf_fields h
  rw [ArrayConsumer_as_slice_res N c hl (by omega), Konst.ArrayConsumer.wf_asSlice h]
  exact ⟨rfl, rfl⟩

example : Extracted.ArrayConsumer.as_slice 4 (⟨[none, some 2, some 3, none], 1, 1⟩ : Extracted.ArrayConsumer Nat 4)
    = .ok [2, 3] := by
  rw [ArrayConsumer_as_slice_res _ _ (by decide) (by decide)]; rfl
example : Extracted.ArrayConsumer.as_slice 4 (⟨[none, some 2, none, none], 1, 1⟩ : Extracted.ArrayConsumer Nat 4)
    = .ub := by
  rw [ArrayConsumer_as_slice_res _ _ (by decide) (by decide)]; rfl

/-- `next`: `None` exactly when the model's; `ub` exactly when the slot `array[taken_front]` was never written
    (the model's `Take.ub`); otherwise the model's element and next state.  The index is in bounds
    (`array.length = N`, non-empty), `taken_front + 1 ≤ N < 2^64`. -/
theorem ArrayConsumer_next_res {T : Type} (N : Nat) (c : Extracted.ArrayConsumer T N)
    (hN : N < 2 ^ 64) (hlen : c.array.length = N) (hle : c.taken_front + c.taken_back ≤ N) :
    Extracted.ArrayConsumer.next N c = takeRes N c (Konst.ArrayConsumer.next (ArrayConsumer.toModel c)) := by
  unfold Extracted.ArrayConsumer.next Konst.ArrayConsumer.next
  rw [ArrayConsumer_is_empty_eq N c hle]
  by_cases he : Konst.ArrayConsumer.isEmpty (ArrayConsumer.toModel c) = true
  · simp [he, takeRes]
  · have hne : N - c.taken_front - c.taken_back ≠ 0 := by
      simpa [Konst.ArrayConsumer.isEmpty, Konst.ArrayConsumer.sliceLen, ArrayConsumer.toModel] using he
    have hi : c.taken_front < c.array.length := by omega
    have h2 : c.taken_front + 1 < 2 ^ 64 := by omega
    have hg : c.array[c.taken_front]? = some c.array[c.taken_front] := List.getElem?_eq_getElem hi
    simp only [he, Ctl.call_ok, Ctl.bind_eq, Ctl.bind_val, Bool.false_eq_true, ↓reduceIte, Ctl.pure_eq,
      Rs.index]
    simp only [ArrayConsumer.toModel, hg]
    cases hx : c.array[c.taken_front] with
    | none => simp [Rs.assumeInitRead, takeRes]
    | some v => simp [Rs.assumeInitRead, Rs.uadd, h2, takeRes, ArrayConsumer.ofModel]

/-- under the invariant, on a consumer owning `x :: rem`: hands out `x`, the next state is the model's and
    satisfies the invariant for `rem` (`Konst.ArrayConsumer.wf_next_cons`) -/
theorem ArrayConsumer_next_eq {T : Type} (N : Nat) (c : Extracted.ArrayConsumer T N) (x : T) (rem : List T)
    (hN : N < 2 ^ 64) (h : Konst.ArrayConsumer.Wf (ArrayConsumer.toModel c) (x :: rem)) :
    ∃ c' : Extracted.ArrayConsumer T N,
      Extracted.ArrayConsumer.next N c = .ok (some x, c')
        ∧ Konst.ArrayConsumer.next (ArrayConsumer.toModel c) = .some x (ArrayConsumer.toModel c')
        ∧ Konst.ArrayConsumer.Wf (ArrayConsumer.toModel c') rem := by
  obtain ⟨hl, hs⟩ := ArrayConsumer.wf_fields h
  obtain ⟨hnx, hw⟩ := Konst.ArrayConsumer.wf_next_cons h
  refine ⟨{ c with taken_front := c.taken_front + 1 }, ?_, hnx, hw⟩
  rw [ArrayConsumer_next_res N c hN hl (by omega), hnx]; rfl

/-- under the invariant, on an empty consumer: `None`, state unchanged -/
theorem ArrayConsumer_next_nil {T : Type} (N : Nat) (c : Extracted.ArrayConsumer T N)
    (hN : N < 2 ^ 64) (h : Konst.ArrayConsumer.Wf (ArrayConsumer.toModel c) []) :
    Extracted.ArrayConsumer.next N c = .ok (none, c)
      ∧ Konst.ArrayConsumer.next (ArrayConsumer.toModel c) = .none := by
  obtain ⟨hl, hs⟩ := ArrayConsumer.wf_fields h
  have hnx := Konst.ArrayConsumer.wf_next_nil h
  rw [ArrayConsumer_next_res N c hN hl (by omega), hnx]
  exact ⟨rfl, rfl⟩

example : Extracted.ArrayConsumer.next 3 (⟨[some 1, some 2, some 3], 1, 0⟩ : Extracted.ArrayConsumer Nat 3)
    = .ok (some 2, ⟨[some 1, some 2, some 3], 2, 0⟩) := by
  rw [ArrayConsumer_next_res _ _ (by decide) (by decide) (by decide)]; rfl
example : Extracted.ArrayConsumer.next 3 (⟨[some 1, some 2, some 3], 2, 1⟩ : Extracted.ArrayConsumer Nat 3)
    = .ok (none, ⟨[some 1, some 2, some 3], 2, 1⟩) := by
  rw [ArrayConsumer_next_res _ _ (by decide) (by decide) (by decide)]; rfl
example : Extracted.ArrayConsumer.next 3 (⟨[some 1, none, some 3], 1, 0⟩ : Extracted.ArrayConsumer Nat 3)
    = .ub := by
  rw [ArrayConsumer_next_res _ _ (by decide) (by decide) (by decide)]; rfl

/-- `next_back`: as `next`, at index `N - taken_back - 1` (no underflow: non-empty gives `taken_back < N`) -/
theorem ArrayConsumer_next_back_res {T : Type} (N : Nat) (c : Extracted.ArrayConsumer T N)
    (hN : N < 2 ^ 64) (hlen : c.array.length = N) (hle : c.taken_front + c.taken_back ≤ N) :
    Extracted.ArrayConsumer.next_back N c = takeRes N c (Konst.ArrayConsumer.nextBack (ArrayConsumer.toModel c)) := by
  unfold Extracted.ArrayConsumer.next_back Konst.ArrayConsumer.nextBack
  rw [ArrayConsumer_is_empty_eq N c hle]
  by_cases he : Konst.ArrayConsumer.isEmpty (ArrayConsumer.toModel c) = true
  · simp [he, takeRes]
  · have hne : N - c.taken_front - c.taken_back ≠ 0 := by
      simpa [Konst.ArrayConsumer.isEmpty, Konst.ArrayConsumer.sliceLen, ArrayConsumer.toModel] using he
    have h0 : c.taken_back ≤ N := by omega
    have h1 : 1 ≤ N - c.taken_back := by omega
    have hi : N - c.taken_back - 1 < c.array.length := by omega
    have h2 : c.taken_back + 1 < 2 ^ 64 := by omega
    have hg : c.array[N - c.taken_back - 1]? = some c.array[N - c.taken_back - 1] :=
      List.getElem?_eq_getElem hi
    simp only [he, Ctl.call_ok, Ctl.bind_eq, Ctl.bind_val, Bool.false_eq_true, ↓reduceIte, Ctl.pure_eq,
      Rs.index, Rs.usub, h0, h1]
    simp only [ArrayConsumer.toModel, hg]
    cases hx : c.array[N - c.taken_back - 1] with
    | none => simp [Rs.assumeInitRead, takeRes]
    | some v => simp [Rs.assumeInitRead, Rs.uadd, h2, takeRes, ArrayConsumer.ofModel]

/-- under the invariant, on a consumer owning `rem ++ [x]`: hands out `x` (`Konst.ArrayConsumer.wf_nextBack_snoc`) -/
theorem ArrayConsumer_next_back_eq {T : Type} (N : Nat) (c : Extracted.ArrayConsumer T N) (x : T) (rem : List T)
    (hN : N < 2 ^ 64) (h : Konst.ArrayConsumer.Wf (ArrayConsumer.toModel c) (rem ++ [x])) :
    ∃ c' : Extracted.ArrayConsumer T N,
      Extracted.ArrayConsumer.next_back N c = .ok (some x, c')
        ∧ Konst.ArrayConsumer.nextBack (ArrayConsumer.toModel c) = .some x (ArrayConsumer.toModel c')
        ∧ Konst.ArrayConsumer.Wf (ArrayConsumer.toModel c') rem := by
  obtain ⟨hl, hs⟩ := ArrayConsumer.wf_fields h
  obtain ⟨hnx, hw⟩ := Konst.ArrayConsumer.wf_nextBack_snoc h
  refine ⟨{ c with taken_back := c.taken_back + 1 }, ?_, hnx, hw⟩
  rw [ArrayConsumer_next_back_res N c hN hl (by omega), hnx]; rfl

theorem ArrayConsumer_next_back_nil {T : Type} (N : Nat) (c : Extracted.ArrayConsumer T N)
    (hN : N < 2 ^ 64) (h : Konst.ArrayConsumer.Wf (ArrayConsumer.toModel c) []) :
    Extracted.ArrayConsumer.next_back N c = .ok (none, c)
      ∧ Konst.ArrayConsumer.nextBack (ArrayConsumer.toModel c) = .none := by
  obtain ⟨hl, hs⟩ := ArrayConsumer.wf_fields h
  have hnx := Konst.ArrayConsumer.wf_nextBack_nil h
  rw [ArrayConsumer_next_back_res N c hN hl (by omega), hnx]
  exact ⟨rfl, rfl⟩

example : Extracted.ArrayConsumer.next_back 3 (⟨[some 1, some 2, some 3], 1, 0⟩ : Extracted.ArrayConsumer Nat 3)
    = .ok (some 3, ⟨[some 1, some 2, some 3], 1, 1⟩) := by
  rw [ArrayConsumer_next_back_res _ _ (by decide) (by decide) (by decide)]; rfl
example : Extracted.ArrayConsumer.next_back 3 (⟨[some 1, some 2, none], 1, 0⟩ : Extracted.ArrayConsumer Nat 3)
    = .ub := by
  rw [ArrayConsumer_next_back_res _ _ (by decide) (by decide) (by decide)]; rfl

end Extracted.Equiv
