import KonstVerif.Extracted.Gen.BytesPub
import KonstVerif.Extracted.Equiv.Bytes2
import KonstVerif.Extracted.Equiv.BytesTrim
import KonstVerif.Extracted.Equiv.SliceFns
/-
  Extracted (regenerated from /repo) = Model, for the public byte-slice functions of
  konst::slice::slice_const_methods (group `BytesPub`) and the `&mut` element accessors.

  * `bytes_start_with`, `bytes_end_with`, `bytes_find`, `bytes_contain`, `bytes_rcontain`, `bytes_strip_prefix`,
    `bytes_strip_suffix`, `bytes_find_skip/keep`, `bytes_rfind_skip/keep`, `bytes_trim_(start_|end_)matches`
    (Lean names `pub_bytes_*`: the `__bytes_*` workers of group `Bytes` already own the names `bytes_*`) are
    `let p = PatternNorm::new(p); __bytes_*(left, p.as_bytes())`.  The translator models a `BytesPattern`
    argument as its bytes, so `PatternNorm::new` is the identity and each theorem is the worker's theorem
    (Equiv/Bytes.lean, Bytes2.lean, BytesTrim.lean) transported through the call, with the same hypotheses and
    the same model definition (Model/Bytes.lean).
  * `get_mut`, `first_mut`, `last_mut`, `split_first_mut`, `split_last_mut` return `&mut T` elements (values only:
    the element itself), the model (Model/Slice.lean `get`, `first`, `last`, `splitFirst`, `splitLast`) returns
    length-1 `View`s: stated like `get_eq` of Equiv/SliceFns.lean — first conjunct the exact extracted value,
    second conjunct: that is the (single) element of the model's view (and, for the `split_*` pair, the rest
    is the model's second view).  No machine-bound hypothesis is needed by these five.
-/
namespace Extracted.Equiv
open Rs Konst Konst.Bytes Konst.Slice

/-- a function that is `let t ← call r; t` returns what `r` returns -/
theorem wrap_call_ok {α : Type} {r : Res α} {v : α} (h : r = .ok v) :
    Ctl.run (ρ := α) (do let t ← Ctl.call r; pure t) = .ok v := by
  subst h; rfl

/-! ### `bytes_strip_prefix`, `bytes_start_with`, `bytes_strip_suffix`, `bytes_end_with` -/

theorem pub_bytes_strip_prefix_eq (fuel : Nat) (left pre : List Nat) (hf : pre.length + 1 ≤ fuel) :
    Extracted.pub_bytes_strip_prefix fuel left pre = .ok (stripPrefixL left pre) :=
  wrap_call_ok (bytes_strip_prefix_eq fuel left pre hf)

theorem pub_bytes_start_with_eq (fuel : Nat) (left pat : List Nat) (hf : pat.length + 1 ≤ fuel) :
    Extracted.pub_bytes_start_with fuel left pat = .ok (startsWith left pat) :=
  wrap_call_ok (bytes_start_with_eq fuel left pat hf)

theorem pub_bytes_strip_suffix_eq (fuel : Nat) (left suf : List Nat) (hf : suf.length + 1 ≤ fuel) :
    Extracted.pub_bytes_strip_suffix fuel left suf = .ok (stripSuffixL left suf) :=
  wrap_call_ok (bytes_strip_suffix_eq fuel left suf hf)

theorem pub_bytes_end_with_eq (fuel : Nat) (left pat : List Nat) (hf : pat.length + 1 ≤ fuel) :
    Extracted.pub_bytes_end_with fuel left pat = .ok (endsWith left pat) :=
  wrap_call_ok (bytes_end_with_eq fuel left pat hf)

example : Extracted.pub_bytes_strip_prefix 3 [1, 2, 3] [1, 2] = .ok (some [3]) := by
  rw [pub_bytes_strip_prefix_eq 3 [1, 2, 3] [1, 2] (by decide)]; decide
example : Extracted.pub_bytes_start_with 3 [1, 2, 3] [2, 3] = .ok false := by
  rw [pub_bytes_start_with_eq 3 [1, 2, 3] [2, 3] (by decide)]; decide
example : Extracted.pub_bytes_strip_suffix 3 [1, 2, 3] [2, 3] = .ok (some [1]) := by
  rw [pub_bytes_strip_suffix_eq 3 [1, 2, 3] [2, 3] (by decide)]; decide
example : Extracted.pub_bytes_end_with 3 [1, 2, 3] [2, 3] = .ok true := by
  rw [pub_bytes_end_with_eq 3 [1, 2, 3] [2, 3] (by decide)]; decide

/-! ### `bytes_find`, `bytes_contain`, `bytes_rcontain` -/

theorem pub_bytes_find_eq (fuel : Nat) (left pat : List Nat)
    (hb : left.length + pat.length + 1 < 2 ^ 64) (hf : left.length + pat.length + 2 ≤ fuel) :
    Extracted.pub_bytes_find fuel left pat = .ok (bytesFind left pat) :=
  wrap_call_ok (bytes_find_eq fuel left pat hb hf)

theorem pub_bytes_contain_eq (fuel : Nat) (left pat : List Nat)
    (hb : left.length + pat.length + 1 < 2 ^ 64) (hf : left.length + pat.length + 2 ≤ fuel) :
    Extracted.pub_bytes_contain fuel left pat = .ok (bytesContain left pat) :=
  wrap_call_ok (bytes_contain_eq fuel left pat hb hf)

/-- (through `__bytes_rcontain`, whose `bytes_rfind::<N, [u8]>` call is the `extern` of group `Bytes`) -/
theorem pub_bytes_rcontain_eq (fuel : Nat) (left pat : List Nat)
    (hb : left.length < 2 ^ 64) (hf : left.length + 1 ≤ fuel) :
    Extracted.pub_bytes_rcontain fuel left pat = .ok (bytesRcontain left pat) :=
  wrap_call_ok (bytes_rcontain_eq fuel left pat hb hf)

example : Extracted.pub_bytes_find 9 [1, 2, 3, 2, 3] [2, 3] = .ok (some 1) := by
  rw [pub_bytes_find_eq 9 [1, 2, 3, 2, 3] [2, 3] (by decide) (by decide)]; decide
example : Extracted.pub_bytes_contain 6 [1, 2, 3] [2] = .ok true := by
  rw [pub_bytes_contain_eq 6 [1, 2, 3] [2] (by decide) (by decide)]; decide
example : Extracted.pub_bytes_rcontain 4 [1, 2, 3] [4] = .ok false := by
  rw [pub_bytes_rcontain_eq 4 [1, 2, 3] [4] (by decide) (by decide)]; decide

/-! ### `bytes_find_skip`, `bytes_find_keep`, `bytes_rfind_skip`, `bytes_rfind_keep` -/

theorem pub_bytes_find_skip_eq (fuel : Nat) (this needle : List Nat)
    (hb : this.length + needle.length + 1 < 2 ^ 64) (hf : this.length + needle.length + 2 ≤ fuel) :
    Extracted.pub_bytes_find_skip fuel this needle
      = .ok (Option.map (fun v => v.apply this) (findSkip this needle)) :=
  wrap_call_ok (bytes_find_skip_eq fuel this needle hb hf)

theorem pub_bytes_find_keep_eq (fuel : Nat) (this needle : List Nat)
    (hb : this.length + needle.length + 1 < 2 ^ 64) (hf : this.length + needle.length + 2 ≤ fuel) :
    Extracted.pub_bytes_find_keep fuel this needle
      = .ok (Option.map (fun v => v.apply this) (findKeep this needle)) :=
  wrap_call_ok (bytes_find_keep_eq fuel this needle hb hf)

theorem pub_bytes_rfind_skip_eq (fuel : Nat) (this needle : List Nat)
    (hb : this.length < 2 ^ 64) (hf : this.length + 1 ≤ fuel) :
    Extracted.pub_bytes_rfind_skip fuel this needle
      = .ok (Option.map (fun v => v.apply this) (rfindSkip this needle)) :=
  wrap_call_ok (bytes_rfind_skip_eq fuel this needle hb hf)

theorem pub_bytes_rfind_keep_eq (fuel : Nat) (this needle : List Nat)
    (hb : this.length < 2 ^ 64) (hf : this.length + 1 ≤ fuel) :
    Extracted.pub_bytes_rfind_keep fuel this needle
      = .ok (Option.map (fun v => v.apply this) (rfindKeep this needle)) :=
  wrap_call_ok (bytes_rfind_keep_eq fuel this needle hb hf)

example : Extracted.pub_bytes_find_skip 8 [1, 2, 3, 4] [2, 3] = .ok (some [4]) := by
  rw [pub_bytes_find_skip_eq 8 [1, 2, 3, 4] [2, 3] (by decide) (by decide)]; decide
example : Extracted.pub_bytes_find_keep 8 [1, 2, 3, 4] [2, 3] = .ok (some [2, 3, 4]) := by
  rw [pub_bytes_find_keep_eq 8 [1, 2, 3, 4] [2, 3] (by decide) (by decide)]; decide
example : Extracted.pub_bytes_rfind_skip 6 [1, 2, 3, 2, 3] [2, 3] = .ok (some [1, 2, 3]) := by
  rw [pub_bytes_rfind_skip_eq 6 [1, 2, 3, 2, 3] [2, 3] (by decide) (by decide)]; decide
example : Extracted.pub_bytes_rfind_keep 7 [1, 2, 3, 2, 3, 4] [2, 3] = .ok (some [1, 2, 3, 2, 3]) := by
  rw [pub_bytes_rfind_keep_eq 7 [1, 2, 3, 2, 3, 4] [2, 3] (by decide) (by decide)]; decide

/-! ### `bytes_trim_start_matches`, `bytes_trim_end_matches`, `bytes_trim_matches` -/

theorem pub_bytes_trim_start_matches_eq (fuel : Nat) (this needle : List Nat)
    (hf : this.length + needle.length + 1 ≤ fuel) :
    Extracted.pub_bytes_trim_start_matches fuel this needle = .ok (trimStartMatchesL this needle) :=
  wrap_call_ok (bytes_trim_start_matches_eq fuel this needle hf)

theorem pub_bytes_trim_end_matches_eq (fuel : Nat) (this needle : List Nat)
    (hf : this.length + needle.length + 1 ≤ fuel) :
    Extracted.pub_bytes_trim_end_matches fuel this needle = .ok (trimEndMatchesL this needle) :=
  wrap_call_ok (bytes_trim_end_matches_eq fuel this needle hf)

/-- the model has no list-valued `trimMatchesL`; `trimMatches` is a `View` into `this` -/
theorem pub_bytes_trim_matches_eq (fuel : Nat) (this needle : List Nat)
    (hf : this.length + needle.length + 1 ≤ fuel) :
    Extracted.pub_bytes_trim_matches fuel this needle = .ok ((trimMatches this needle).apply this) :=
  wrap_call_ok (bytes_trim_matches_eq fuel this needle hf)

example : Extracted.pub_bytes_trim_start_matches 9 [1, 2, 1, 2, 1, 3] [1, 2] = .ok [1, 3] :=
  pub_bytes_trim_start_matches_eq 9 [1, 2, 1, 2, 1, 3] [1, 2] (by decide)
example : Extracted.pub_bytes_trim_end_matches 9 [3, 1, 1, 2, 1, 2] [1, 2] = .ok [3, 1] :=
  pub_bytes_trim_end_matches_eq 9 [3, 1, 1, 2, 1, 2] [1, 2] (by decide)
example : Extracted.pub_bytes_trim_matches 9 [1, 1, 1, 5, 1, 1] [1, 1] = .ok [1, 5] :=
  pub_bytes_trim_matches_eq 9 [1, 1, 1, 5, 1, 1] [1, 1] (by decide)

/-! ### `get_mut` (the `&mut` twin of `get`: same body, same model function `Konst.Slice.get`) -/

theorem get_mut_eq {T : Type} (s : List T) (index : Nat) :
    Extracted.get_mut s index = .ok s[index]? ∧
    Option.map (fun v => v.apply s) (Konst.Slice.get s.length index)
      = Option.map (fun x => [x]) s[index]? := by
  refine ⟨?_, (get_eq s index).2⟩
  unfold Extracted.get_mut Rs.index
  by_cases h : index < s.length
  · simp [h]
  · simp [h]

example : Extracted.get_mut [10, 20, 30] 1 = .ok (some 20) := (get_mut_eq [10, 20, 30] 1).1
example : Extracted.get_mut [10, 20, 30] 3 = .ok none := (get_mut_eq [10, 20, 30] 3).1

/-! ### `first_mut`, `last_mut`, `split_first_mut`, `split_last_mut` -/

/-- the last element of a non-empty list is what is left after dropping all but one -/
theorem drop_length_sub_one {T : Type} (s : List T) (x : T) (h : s.getLast? = some x) :
    s.drop (s.length - 1) = [x] := by
  induction s with
  | nil => simp at h
  | cons a r ih =>
    cases r with
    | nil => simp at h; simp [h]
    | cons b r =>
      have := ih (by simpa [List.getLast?_cons_cons] using h)
      simpa using this

theorem first_mut_eq {T : Type} (s : List T) :
    Extracted.first_mut s = .ok s.head? ∧
    Option.map (fun v => v.apply s) (first s.length) = Option.map (fun x => [x]) s.head? := by
  unfold Extracted.first_mut first
  cases s with
  | nil => simp
  | cons x r => simp [View.apply]

theorem last_mut_eq {T : Type} (s : List T) :
    Extracted.last_mut s = .ok s.getLast? ∧
    Option.map (fun v => v.apply s) (last s.length) = Option.map (fun x => [x]) s.getLast? := by
  unfold Extracted.last_mut last Rs.unsnoc
  cases h : s.getLast? with
  | none =>
    have : s = [] := by simpa using h
    subst this; simp
  | some x =>
    have hne : s.length ≠ 0 := by
      intro h0; simp [List.length_eq_zero_iff.mp h0] at h
    have hd := drop_length_sub_one s x h
    simp [hne, View.apply, hd]

/-- `Some((first, rem))`: the first element and the rest; the model's two views are `[first]` and `rem` -/
theorem split_first_mut_eq {T : Type} (s : List T) :
    Extracted.split_first_mut s = .ok (s.head?.map (fun x => (x, s.tail))) ∧
    Option.map (fun p => (p.1.apply s, p.2.apply s)) (splitFirst s.length)
      = Option.map (fun x => ([x], s.tail)) s.head? := by
  unfold Extracted.split_first_mut splitFirst
  cases s with
  | nil => simp
  | cons x r => simp [View.apply]

/-- `Some((last, rem))`: the last element and the elements before it; the model's two views are `[last]` and `rem` -/
theorem split_last_mut_eq {T : Type} (s : List T) :
    Extracted.split_last_mut s = .ok (s.getLast?.map (fun x => (x, s.dropLast))) ∧
    Option.map (fun p => (p.1.apply s, p.2.apply s)) (splitLast s.length)
      = Option.map (fun x => ([x], s.dropLast)) s.getLast? := by
  unfold Extracted.split_last_mut splitLast Rs.unsnoc
  cases h : s.getLast? with
  | none =>
    have : s = [] := by simpa using h
    subst this; simp
  | some x =>
    have hne : s.length ≠ 0 := by
      intro h0; simp [List.length_eq_zero_iff.mp h0] at h
    have hd := drop_length_sub_one s x h
    simp [hne, View.apply, hd, List.dropLast_eq_take]

example : Extracted.first_mut [10, 20, 30] = .ok (some 10) := (first_mut_eq [10, 20, 30]).1
example : Extracted.first_mut ([] : List Nat) = .ok none := (first_mut_eq []).1
example : Extracted.last_mut [10, 20, 30] = .ok (some 30) := (last_mut_eq [10, 20, 30]).1
example : Extracted.split_first_mut [10, 20, 30] = .ok (some (10, [20, 30])) :=
  (split_first_mut_eq [10, 20, 30]).1
example : Extracted.split_last_mut [10, 20, 30] = .ok (some (30, [10, 20])) :=
  (split_last_mut_eq [10, 20, 30]).1
example : Option.map (fun p => (p.1.apply [10, 20, 30], p.2.apply [10, 20, 30])) (splitLast 3)
    = some ([30], [10, 20]) := by decide

end Extracted.Equiv
