import KonstVerif.Extracted.Equiv.Bytes
import KonstVerif.Lemmas.Bytes
/-
  Extracted (regenerated from /repo) = Model, for the byte-slice trimming functions (C05):
  `bytes_trim_start`, `bytes_trim_end`, `bytes_trim`, `__bytes_trim_start_matches`,
  `__bytes_trim_end_matches`, `__bytes_trim_matches`.

  None of these functions does any arithmetic, so no machine-bound hypothesis is needed; the only
  hypothesis is the explicit loop fuel.  The outer loops of these functions never `break` (their
  break type is `Empty`); they are only left by `return`, i.e. `Ctl.exit`.
-/
namespace Extracted.Equiv
open Rs Konst Konst.Bytes

/-! ### whitespace trimming -/

/-- the `loop` of `bytes_trim_start`, from any state, with enough fuel: it is left by `return this` -/
theorem trim_start_loop (n : Nat) (this : List Nat) (hn : this.length + 1 ≤ n) :
    Rs.loop n Extracted.bytes_trim_start.loop1 this = Ctl.exit (bytesTrimStartL this) := by
  induction n generalizing this with
  | zero => omega
  | succ n ih =>
    rw [Rs.loop_succ]
    cases this with
    | nil => simp [Extracted.bytes_trim_start.loop1, bytesTrimStartL]
    | cons b rem =>
      have ih' := ih rem (by simp at hn; omega)
      by_cases hb : matchesSpace b = true
      · have hb' := hb
        simp only [matchesSpace, beq_iff_eq, Bool.or_eq_true] at hb'
        simp only [bytesTrimStartL, hb, ↓reduceIte]
        simpa [Extracted.bytes_trim_start.loop1, hb'] using ih'
      · have hb' := hb
        simp only [matchesSpace, beq_iff_eq, Bool.or_eq_true] at hb'
        simp [Extracted.bytes_trim_start.loop1, bytesTrimStartL, hb, hb']

theorem bytes_trim_start_eq (fuel : Nat) (this : List Nat) (hf : this.length + 1 ≤ fuel) :
    Extracted.bytes_trim_start fuel this = .ok (bytesTrimStartL this) := by
  unfold Extracted.bytes_trim_start
  simp [trim_start_loop fuel this hf]

example : Extracted.bytes_trim_start 5 [32, 12, 120, 9] = .ok [120, 9] :=
  bytes_trim_start_eq 5 [32, 12, 120, 9] (by decide)

/-- the `loop` of `bytes_trim_end` (`n` = fuel of the extracted loop, `m` = fuel of the model's loop) -/
theorem trim_end_loop (n m : Nat) (this : List Nat) (hn : this.length + 1 ≤ n) (hm : this.length + 1 ≤ m) :
    Rs.loop n Extracted.bytes_trim_end.loop1 this = Ctl.exit (bytesTrimEndLoop m this) := by
  induction n generalizing this m with
  | zero => omega
  | succ n ih =>
    rw [Rs.loop_succ]
    cases m with
    | zero => omega
    | succ m =>
      cases hg : this.getLast? with
      | none => simp [Extracted.bytes_trim_end.loop1, bytesTrimEndLoop, Rs.unsnoc, hg]
      | some b =>
        have hne : this ≠ [] := by intro e; subst e; simp at hg
        have hlen : this.dropLast.length + 1 = this.length := by
          have := List.length_pos_iff.mpr hne
          simp only [List.length_dropLast]; omega
        have ih' := ih (m := m) this.dropLast (by omega) (by omega)
        by_cases hb : matchesSpace b = true
        · have hb' := hb
          simp only [matchesSpace, beq_iff_eq, Bool.or_eq_true] at hb'
          simp only [bytesTrimEndLoop, hg, hb, ↓reduceIte]
          simpa [Extracted.bytes_trim_end.loop1, Rs.unsnoc, hg, hb'] using ih'
        · have hb' := hb
          simp only [matchesSpace, beq_iff_eq, Bool.or_eq_true] at hb'
          simp [Extracted.bytes_trim_end.loop1, bytesTrimEndLoop, Rs.unsnoc, hg, hb, hb']

theorem bytes_trim_end_eq (fuel : Nat) (this : List Nat) (hf : this.length + 1 ≤ fuel) :
    Extracted.bytes_trim_end fuel this = .ok (bytesTrimEndL this) := by
  unfold Extracted.bytes_trim_end bytesTrimEndL
  simp [trim_end_loop fuel (this.length + 1) this hf (Nat.le_refl _)]

example : Extracted.bytes_trim_end 5 [32, 120, 9, 13] = .ok [32, 120] :=
  bytes_trim_end_eq 5 [32, 120, 9, 13] (by decide)

/-- `bytes_trim_end` hands back a prefix of its argument -/
theorem bytesTrimEndL_prefix (this : List Nat) : bytesTrimEndL this <+: this := by
  rw [Lemmas.Bytes.bytesTrimEndL_eq]
  exact Lemmas.Bytes.revDropWhile_prefix _ this

/-- `bytes_trim_start` hands back a suffix of its argument -/
theorem bytesTrimStartL_suffix (this : List Nat) : bytesTrimStartL this <:+ this := by
  rw [Lemmas.Bytes.bytesTrimStartL_eq]
  exact List.dropWhile_suffix _

/-- `bytes_trim` on lists: the value of `bytes_trim_start(bytes_trim_end(this))` -/
theorem bytes_trim_eq_list (fuel : Nat) (this : List Nat) (hf : this.length + 1 ≤ fuel) :
    Extracted.bytes_trim fuel this = .ok (bytesTrimStartL (bytesTrimEndL this)) := by
  have hle := (bytesTrimEndL_prefix this).length_le
  unfold Extracted.bytes_trim
  simp [bytes_trim_end_eq fuel this hf, bytes_trim_start_eq fuel (bytesTrimEndL this) (by omega)]

/-- the model's view `bytesTrim this` (composition of the prefix view of the end-trimmed slice with the
    suffix view of the start-trimmed one) denotes that list -/
theorem bytesTrim_apply (this : List Nat) :
    (bytesTrim this).apply this = bytesTrimStartL (bytesTrimEndL this) := by
  have hp := bytesTrimEndL_prefix this
  have hs := bytesTrimStartL_suffix (bytesTrimEndL this)
  have hle := hs.length_le
  unfold bytesTrim
  simp only []
  rw [Lemmas.Bytes.comp_apply _ _ this (by simp only [suffixView, prefixView]; omega),
    Lemmas.Bytes.prefixView_apply hp, Lemmas.Bytes.suffixView_apply hs]

theorem bytes_trim_eq (fuel : Nat) (this : List Nat) (hf : this.length + 1 ≤ fuel) :
    Extracted.bytes_trim fuel this = .ok ((bytesTrim this).apply this) := by
  rw [bytesTrim_apply]
  exact bytes_trim_eq_list fuel this hf

example : Extracted.bytes_trim 6 [32, 12, 120, 9, 13] = .ok [120] :=
  bytes_trim_eq 6 [32, 12, 120, 9, 13] (by decide)

/-! ### pattern trimming -/

/-- the `'inner` loop of `__bytes_trim_start_matches`, from any state, with enough fuel:
    `return at_start` travels outwards through the (never-breaking) outer loop as `.exit (.out at_start)`,
    `break 'inner` leaves it normally with the remaining slice -/
theorem trim_start_inner_loop (n : Nat) (atStart this m : List Nat) (hn : m.length + 1 ≤ n) :
    (trimStartInner this m = none →
        Rs.loop n (Extracted.bytes_trim_start_matches.loop2 atStart) (this, m) = Ctl.exit (.out atStart)) ∧
    (∀ r, trimStartInner this m = some r →
        ∃ q, Rs.loop n (Extracted.bytes_trim_start_matches.loop2 atStart) (this, m) = Ctl.val (r, q)) := by
  induction n generalizing this m with
  | zero => omega
  | succ n ih =>
    rw [Rs.loop_succ]
    cases m with
    | nil => cases this <;> simp [Extracted.bytes_trim_start_matches.loop2, trimStartInner]
    | cons bm remm =>
      cases this with
      | nil => simp [Extracted.bytes_trim_start_matches.loop2, trimStartInner]
      | cons b rem =>
        have ih' := ih rem remm (by simp at hn; omega)
        simp only [trimStartInner]
        by_cases h : b = bm
        · subst h
          simpa [Extracted.bytes_trim_start_matches.loop2] using ih'
        · simp [Extracted.bytes_trim_start_matches.loop2, h]

/-- `break 'inner` hands back a suffix of the slice the inner loop started with -/
theorem trimStartInner_length {this m r : List Nat} (h : trimStartInner this m = some r) :
    r.length ≤ this.length := by
  rw [Lemmas.Bytes.trimStartInner_eq] at h
  by_cases hp : m.isPrefixOf this = true
  · simp only [hp, ↓reduceIte, Option.some.injEq] at h
    subst h
    simp only [List.length_drop]; omega
  · simp [hp] at h

/-- the outer `loop` of `__bytes_trim_start_matches` at its head (`matched = needle`)
    (`F` = fuel handed to the inner loop, `n` = fuel of the extracted loop, `k` = fuel of the model's loop) -/
theorem trim_start_outer_loop (F n k : Nat) (needle this : List Nat) (hF : needle.length ≤ F)
    (hn : this.length + 1 ≤ n) (hk : this.length + 1 ≤ k) :
    Rs.loop n (Extracted.bytes_trim_start_matches.loop1 F needle) (this, needle) =
      Ctl.exit (trimStartLoop needle k this) := by
  induction n generalizing this k with
  | zero => omega
  | succ n ih =>
    rw [Rs.loop_succ]
    cases k with
    | zero => omega
    | succ k =>
      cases hneedle : needle with
      | nil => cases this <;> simp [Extracted.bytes_trim_start_matches.loop1, trimStartLoop]
      | cons bm remm =>
        cases this with
        | nil => simp [Extracted.bytes_trim_start_matches.loop1, trimStartLoop]
        | cons b rem =>
          by_cases h : b = bm
          · subst h
            have ⟨h1, h2⟩ := trim_start_inner_loop F (b :: rem) rem remm (by simp [hneedle] at hF; omega)
            simp only [trimStartLoop, beq_self_eq_true, ↓reduceIte]
            cases hi : trimStartInner rem remm with
            | none => simp [Extracted.bytes_trim_start_matches.loop1, h1 hi]
            | some r =>
              obtain ⟨q, hq⟩ := h2 r hi
              have hr := trimStartInner_length hi
              have ih' := ih (k := k) r (by simp at hn; omega) (by simp at hk; omega)
              rw [hneedle] at ih'
              simpa [Extracted.bytes_trim_start_matches.loop1, hq] using ih'
          · simp [Extracted.bytes_trim_start_matches.loop1, trimStartLoop, h]

theorem bytes_trim_start_matches_eq (fuel : Nat) (this needle : List Nat)
    (hf : this.length + needle.length + 1 ≤ fuel) :
    Extracted.bytes_trim_start_matches fuel this needle = .ok (trimStartMatchesL this needle) := by
  unfold Extracted.bytes_trim_start_matches trimStartMatchesL
  by_cases he : needle.isEmpty = true
  · simp [he]
  · simp [he, trim_start_outer_loop fuel fuel (this.length + 1) needle this (by omega) (by omega) (Nat.le_refl _)]

example : Extracted.bytes_trim_start_matches 9 [1, 2, 1, 2, 1, 3] [1, 2] = .ok [1, 3] :=
  bytes_trim_start_matches_eq 9 [1, 2, 1, 2, 1, 3] [1, 2] (by decide)

theorem length_dropLast_succ {l : List Nat} {b : Nat} (h : l.getLast? = some b) :
    l.dropLast.length + 1 = l.length := by
  have hne : l ≠ [] := by intro e; subst e; simp at h
  have := List.length_pos_iff.mpr hne
  simp only [List.length_dropLast]; omega

/-- the `'inner` loop of `__bytes_trim_end_matches`
    (`n` = fuel of the extracted loop, `k` = fuel of the model's loop) -/
theorem trim_end_inner_loop (n k : Nat) (atStart this m : List Nat) (hn : m.length + 1 ≤ n)
    (hk : m.length + 1 ≤ k) :
    (trimEndInner k this m = none →
        Rs.loop n (Extracted.bytes_trim_end_matches.loop2 atStart) (this, m) = Ctl.exit (.out atStart)) ∧
    (∀ r, trimEndInner k this m = some r →
        ∃ q, Rs.loop n (Extracted.bytes_trim_end_matches.loop2 atStart) (this, m) = Ctl.val (r, q)) := by
  induction n generalizing this m k with
  | zero => omega
  | succ n ih =>
    rw [Rs.loop_succ]
    cases k with
    | zero => omega
    | succ k =>
      cases hm : m.getLast? with
      | none =>
        cases hg : this.getLast? <;> cases this <;>
          simp_all [Extracted.bytes_trim_end_matches.loop2, trimEndInner, Rs.unsnoc]
      | some bm =>
        have hml := length_dropLast_succ hm
        cases hg : this.getLast? with
        | none =>
          have : this = [] := List.getLast?_eq_none_iff.mp hg
          subst this
          simp [Extracted.bytes_trim_end_matches.loop2, trimEndInner, Rs.unsnoc, hm]
        | some b =>
          have ih' := ih (k := k) this.dropLast m.dropLast (by omega) (by omega)
          cases this with
          | nil => simp at hg
          | cons a t =>
            simp only [trimEndInner, hg, hm]
            by_cases h : b = bm
            · subst h
              simpa [Extracted.bytes_trim_end_matches.loop2, Rs.unsnoc, hg, hm] using ih'
            · simp [Extracted.bytes_trim_end_matches.loop2, Rs.unsnoc, hg, hm, h]

/-- `break 'inner` hands back a prefix of the slice the inner loop started with -/
theorem trimEndInner_length (k : Nat) {this m r : List Nat} (h : trimEndInner k this m = some r) :
    r.length ≤ this.length := by
  induction k generalizing this m with
  | zero => simp only [trimEndInner, Option.some.injEq] at h; subst h; omega
  | succ k ih =>
    cases hm : m.getLast? with
    | none =>
      cases hg : this.getLast? <;> simp only [trimEndInner, hg, hm, Option.some.injEq] at h <;> subst h <;> omega
    | some bm =>
      cases hg : this.getLast? with
      | none => simp [trimEndInner, hg, hm] at h
      | some b =>
        simp only [trimEndInner, hg, hm] at h
        by_cases hb : b = bm
        · subst hb
          simp only [beq_self_eq_true, ↓reduceIte] at h
          have := ih h
          have := length_dropLast_succ hg
          omega
        · simp [hb] at h

/-- the outer `loop` of `__bytes_trim_end_matches` at its head (`matched = needle`)
    (`F` = fuel handed to the inner loop, `n` = fuel of the extracted loop, `k` = fuel of the model's loop) -/
theorem trim_end_outer_loop (F n k : Nat) (needle this : List Nat) (hF : needle.length ≤ F)
    (hn : this.length + 1 ≤ n) (hk : this.length + 1 ≤ k) :
    Rs.loop n (Extracted.bytes_trim_end_matches.loop1 F needle) (this, needle) =
      Ctl.exit (trimEndLoop needle k this) := by
  induction n generalizing this k with
  | zero => omega
  | succ n ih =>
    rw [Rs.loop_succ]
    cases k with
    | zero => omega
    | succ k =>
      cases hm : needle.getLast? with
      | none =>
        cases hg : this.getLast? <;>
          simp [Extracted.bytes_trim_end_matches.loop1, trimEndLoop, Rs.unsnoc, hg, hm]
      | some bm =>
        have hml := length_dropLast_succ hm
        cases hg : this.getLast? with
        | none => simp [Extracted.bytes_trim_end_matches.loop1, trimEndLoop, Rs.unsnoc, hg, hm]
        | some b =>
          have htl := length_dropLast_succ hg
          by_cases h : b = bm
          · subst h
            have ⟨h1, h2⟩ := trim_end_inner_loop F (needle.length + 1) this this.dropLast needle.dropLast
              (by omega) (by omega)
            simp only [trimEndLoop, hg, hm, beq_self_eq_true, ↓reduceIte]
            cases hi : trimEndInner (needle.length + 1) this.dropLast needle.dropLast with
            | none => simp [Extracted.bytes_trim_end_matches.loop1, Rs.unsnoc, hg, hm, h1 hi]
            | some r =>
              obtain ⟨q, hq⟩ := h2 r hi
              have hr := trimEndInner_length _ hi
              have ih' := ih (k := k) r (by omega) (by omega)
              simpa [Extracted.bytes_trim_end_matches.loop1, Rs.unsnoc, hg, hm, hq] using ih'
          · simp [Extracted.bytes_trim_end_matches.loop1, trimEndLoop, Rs.unsnoc, hg, hm, h]

theorem bytes_trim_end_matches_eq (fuel : Nat) (this needle : List Nat)
    (hf : this.length + needle.length + 1 ≤ fuel) :
    Extracted.bytes_trim_end_matches fuel this needle = .ok (trimEndMatchesL this needle) := by
  unfold Extracted.bytes_trim_end_matches trimEndMatchesL
  by_cases he : needle.isEmpty = true
  · simp [he]
  · simp [he, trim_end_outer_loop fuel fuel (this.length + 1) needle this (by omega) (by omega) (Nat.le_refl _)]

example : Extracted.bytes_trim_end_matches 9 [3, 1, 1, 2, 1, 2] [1, 2] = .ok [3, 1] :=
  bytes_trim_end_matches_eq 9 [3, 1, 1, 2, 1, 2] [1, 2] (by decide)

/-- `__bytes_trim_start_matches` hands back a suffix of its argument -/
theorem trimStartMatchesL_suffix (this needle : List Nat) : trimStartMatchesL this needle <:+ this := by
  rw [Lemmas.Bytes.trimStartMatchesL_eq]
  exact Lemmas.Bytes.trimStartSpec_suffix needle _ this rfl

/-- `__bytes_trim_end_matches` hands back a prefix of its argument -/
theorem trimEndMatchesL_prefix (this needle : List Nat) : trimEndMatchesL this needle <+: this := by
  rw [Lemmas.Bytes.trimEndMatchesL_eq]
  exact Lemmas.Bytes.trimEndSpec_prefix needle _ this rfl

/-- `__bytes_trim_matches` on lists: `let ltrim = start_matches(this, needle); end_matches(ltrim, needle)` -/
theorem bytes_trim_matches_eq_list (fuel : Nat) (this needle : List Nat)
    (hf : this.length + needle.length + 1 ≤ fuel) :
    Extracted.bytes_trim_matches fuel this needle =
      .ok (trimEndMatchesL (trimStartMatchesL this needle) needle) := by
  have hle := (trimStartMatchesL_suffix this needle).length_le
  unfold Extracted.bytes_trim_matches
  simp [bytes_trim_start_matches_eq fuel this needle hf,
    bytes_trim_end_matches_eq fuel (trimStartMatchesL this needle) needle (by omega)]

/-- the model's view `trimMatches this needle` (the suffix view of `ltrim` composed with the prefix view of
    the end-trimmed `ltrim`) denotes that list -/
theorem trimMatches_apply (this needle : List Nat) :
    (trimMatches this needle).apply this = trimEndMatchesL (trimStartMatchesL this needle) needle := by
  have hs := trimStartMatchesL_suffix this needle
  have hp := trimEndMatchesL_prefix (trimStartMatchesL this needle) needle
  have hle := hp.length_le
  unfold trimMatches
  simp only []
  rw [Lemmas.Bytes.comp_apply _ _ this (by simp only [suffixView, prefixView]; omega),
    Lemmas.Bytes.suffixView_apply hs, Lemmas.Bytes.prefixView_apply hp]

/-- the model has no list-valued `trimMatchesL`; `trimMatches` is a `View` into `this` -/
theorem bytes_trim_matches_eq (fuel : Nat) (this needle : List Nat)
    (hf : this.length + needle.length + 1 ≤ fuel) :
    Extracted.bytes_trim_matches fuel this needle = .ok ((trimMatches this needle).apply this) := by
  rw [trimMatches_apply]
  exact bytes_trim_matches_eq_list fuel this needle hf

example : Extracted.bytes_trim_matches 9 [1, 1, 1, 5, 1, 1] [1, 1] = .ok [1, 5] :=
  bytes_trim_matches_eq 9 [1, 1, 1, 5, 1, 1] [1, 1] (by decide)

end Extracted.Equiv
