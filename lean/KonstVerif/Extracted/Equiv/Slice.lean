import KonstVerif.Extracted.Gen.Slice
import KonstVerif.Model.Slice
/-
  Equivalence of the regenerated definitions (Extracted.*, produced by rs2lean from /repo's source on
  every run) with the hand-written model the property theorems are about.
  `= .ok v` also says: no panic, no arithmetic overflow, no out-of-bounds `from_raw_parts` (ub).
-/
namespace Extracted.Equiv
open Rs Konst Konst.Slice

theorem slice_from_eq {T : Type} (s : List T) (start : Nat) :
    Extracted.slice_from s start = .ok ((sliceFrom s.length start).apply s) := by
  unfold Extracted.slice_from sliceFrom sliceFromImpl overflowingSub Rs.uOverflowingSub
  by_cases h : start ≤ s.length
  · simp [h, Rs.rawParts, View.apply, Ctl.run, Ctl.bind]
  · simp [h, Ctl.run, Ctl.bind, View.apply]

theorem slice_up_to_eq {T : Type} (s : List T) (len : Nat) :
    Extracted.slice_up_to s len = .ok ((sliceUpTo s.length len).apply s) := by
  unfold Extracted.slice_up_to sliceUpTo sliceUpToImpl overflowingSub Rs.uOverflowingSub
  by_cases h : len ≤ s.length
  · simp [h, Rs.rawParts, View.apply, Ctl.run, Ctl.bind]
  · simp [h, Ctl.run, Ctl.bind, View.apply]

theorem comp_apply {α : Type} (v w : View) (h : List α) (hb : w.off + w.len ≤ v.len) :
    (v.comp w).apply h = w.apply (v.apply h) := by
  unfold View.comp View.apply
  simp only [List.drop_take, List.take_take, List.drop_drop]
  congr 1
  omega

theorem sliceFrom_fits (len start : Nat) : (sliceFrom len start).off + (sliceFrom len start).len ≤ len := by
  unfold sliceFrom sliceFromImpl overflowingSub
  by_cases h : start ≤ len <;> simp [h] <;> omega

theorem slice_range_eq {T : Type} (s : List T) (start end_ : Nat) :
    Extracted.slice_range s start end_ = .ok ((sliceRange s.length start end_).apply s) := by
  unfold Extracted.slice_range
  simp only [slice_up_to_eq, slice_from_eq, Ctl.call_ok, Ctl.bind_val, Ctl.bind_eq, Ctl.run_val]
  congr 1
  unfold sliceRange
  have hl : ((sliceUpTo s.length end_).apply s).length = (sliceUpTo s.length end_).len := by
    unfold sliceUpTo sliceUpToImpl overflowingSub View.apply
    by_cases h : end_ ≤ s.length <;> simp [h] <;> omega
  rw [hl]
  exact (comp_apply _ _ s (sliceFrom_fits _ _)).symm

end Extracted.Equiv
