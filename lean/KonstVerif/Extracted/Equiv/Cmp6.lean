import KonstVerif.Extracted.Gen.Cmp6
import KonstVerif.Extracted.Equiv.Cmp
import KonstVerif.Extracted.Equiv.Cmp2
import KonstVerif.Extracted.Equiv.Cmp4
import KonstVerif.Extracted.Equiv.ProbesMisc
/-
  Extracted (regenerated from /repo) = Model, group `Cmp6` (C16):

    * `CmpWrapper<&[T]>::const_eq / const_cmp` for T ∈ {u16 … isize, bool, char}  (forward to `eq_slice_T` / `cmp_slice_T`)
    * `eq_option_slice_T` / `cmp_option_slice_T` for the same T                     (`__impl_option_cmp_fns!`)
    * `eq_slice_str`, `cmp_slice_str`, `eq_slice_bytes`, `cmp_slice_bytes`          (`const_eq_for!(slice; …)` /
      `const_cmp_for!(slice; …)` over `eq_str` / `cmp_str` / `eq_bytes` / `cmp_bytes`)
    * `CmpWrapper<&[&str]>`, `CmpWrapper<&[&[u8]]>` `::const_eq / const_cmp`, `eq/cmp_option_slice_str`,
      `eq/cmp_option_slice_bytes`, `eq_option_str`, `cmp_option_str`

  Every theorem reads `∃ v, Model.f args' = some v ∧ Extracted.f fuel args = .ok v` (model and extraction both return
  normally with the same value), `args'` being the arguments under the value- and order-preserving embedding of the
  carrier into the model's `Int` (`Int.ofNat` for the unsigned types, `char` and the bytes of a `&str`; the identity
  for the signed types; `boolInt` for `bool`), exactly as in the sibling theorems `eq_slice_T_eq`, `eq_option_bytes_eq`.

  Hypotheses:
    * a function that runs the index loop of `eq_slice_T` / `cmp_slice_T` on `(l, r)`: `min l.length r.length < 2 ^ 64`
      (`i += 1`) and `min l.length r.length + 1 ≤ fuel`, as for the callee; for the `Option` functions only in the
      `(Some(l), Some(r))` arm;
    * `eq_slice_str` / `eq_slice_bytes` (`const_eq_for!`: a `while i != len` loop with `i += 1`, calling the element
      comparison on `(l[i], r[i])`): the same two hypotheses for the outer slices, and the callee's two hypotheses for
      every pair `p ∈ l.zip r` of elements at the same index;
    * `cmp_slice_str` / `cmp_slice_bytes` (`const_cmp_for!`: a `loop` over slice patterns, no counter): fuel
      `min l.length r.length + 1`, NO machine-range hypothesis for the outer slices, and the callee's two hypotheses
      for every pair `p ∈ l.zip r`.

  The generated texts come from a handful of macros, so each is an instance of one of the generic texts below
  (`cmp6_eqOptFn`, `cmp6_cmpOptFn`, `cmp6_eqForBody`/`cmp6_eqForFn`, `cmp6_cmpForBody`/`cmp6_cmpForFn`, `wrap`), proved once.
-/
namespace Extracted.Equiv
open Rs Konst Konst.Cmp

/-! ### `CmpWrapper<_>::const_eq / const_cmp`: a call of the free function -/

/-- `{ f(&self.0, other) }`: the text of every forwarding method -/
theorem cmp6_wrap_eq {β : Type} {m : Option β} {x : Res β}
    (h : ∃ v, m = some v ∧ x = .ok v) :
    ∃ v, m = some v ∧ Ctl.run (ρ := β) (do
      let t1_ ← Ctl.call x
      pure t1_) = .ok v := by
  obtain ⟨v, h1, h2⟩ := h
  subst h2
  exact ⟨v, h1, rfl⟩

/-! ### `__impl_option_cmp_fns!` over a payload comparison that is a function call -/

/-- the text of `eq_option_slice_T` / `eq_option_str`; `f` = the `CmpWrapper(l).const_eq(r)` call -/
def cmp6_eqOptFn {α : Type} (f : α → α → Res Bool) (left right : Option α) : Res Bool := Ctl.run (ρ := Bool) do
  let t2_ ← (match left, right with
      | (some l), (some r) => do
          let t1_ ← Ctl.call (f l r)
          pure t1_
      | none, none => do
          pure true
      | _, _ => do
          pure false)
  pure t2_

/-- the text of `cmp_option_slice_T` / `cmp_option_str`; `f` = the `CmpWrapper(l).const_cmp(r)` call -/
def cmp6_cmpOptFn {α : Type} (f : α → α → Res Ordering) (left right : Option α) : Res Ordering :=
  Ctl.run (ρ := Ordering) do
  let t2_ ← (match left, right with
      | (some l), (some r) => do
          let t1_ ← Ctl.call (f l r)
          pure t1_
      | (some _), none => do
          pure Ordering.gt
      | none, (some _) => do
          pure Ordering.lt
      | none, none => do
          pure Ordering.eq)
  pure t2_

/-- `eq_option_*` = the model's `eqOption` over the payload comparison `m`; the payload hypothesis is asked for the
    `(Some(l), Some(r))` arm only -/
theorem cmp6_eqOptFn_eq {α β : Type} (g : α → β) (m : β → β → Option Bool) (f : α → α → Res Bool)
    (left right : Option α)
    (h : ∀ l r, left = some l → right = some r → ∃ b, m (g l) (g r) = some b ∧ f l r = .ok b) :
    ∃ b, eqOption m (left.map g) (right.map g) = some b ∧ cmp6_eqOptFn f left right = .ok b := by
  unfold cmp6_eqOptFn
  cases left with
  | none => cases right <;> simp [eqOption]
  | some l =>
    cases right with
    | none => simp [eqOption]
    | some r =>
      obtain ⟨b, h1, h2⟩ := h l r rfl rfl
      exact ⟨b, by simpa [eqOption] using h1, by simp [h2]⟩

/-- `cmp_option_*` = the model's `cmpOption` over the payload comparison `m` -/
theorem cmp6_cmpOptFn_eq {α β : Type} (g : α → β) (m : β → β → Option Ordering) (f : α → α → Res Ordering)
    (left right : Option α)
    (h : ∀ l r, left = some l → right = some r → ∃ c, m (g l) (g r) = some c ∧ f l r = .ok c) :
    ∃ c, cmpOption m (left.map g) (right.map g) = some c ∧ cmp6_cmpOptFn f left right = .ok c := by
  unfold cmp6_cmpOptFn
  cases left with
  | none => cases right <;> simp [cmpOption]
  | some l =>
    cases right with
    | none => simp [cmpOption]
    | some r =>
      obtain ⟨c, h1, h2⟩ := h l r rfl rfl
      exact ⟨c, by simpa [cmpOption] using h1, by simp [h2]⟩

/-- the identity embedding (signed element types) -/
theorem cmp6_eqOptFn_eq_id {β : Type} (m : β → β → Option Bool) (f : β → β → Res Bool) (left right : Option β)
    (h : ∀ l r, left = some l → right = some r → ∃ b, m l r = some b ∧ f l r = .ok b) :
    ∃ b, eqOption m left right = some b ∧ cmp6_eqOptFn f left right = .ok b := by
  have h' := cmp6_eqOptFn_eq id m f left right h
  simp only [Option.map_id_fun, id_eq] at h'
  exact h'

theorem cmp6_cmpOptFn_eq_id {β : Type} (m : β → β → Option Ordering) (f : β → β → Res Ordering) (left right : Option β)
    (h : ∀ l r, left = some l → right = some r → ∃ c, m l r = some c ∧ f l r = .ok c) :
    ∃ c, cmpOption m left right = some c ∧ cmp6_cmpOptFn f left right = .ok c := by
  have h' := cmp6_cmpOptFn_eq id m f left right h
  simp only [Option.map_id_fun, id_eq] at h'
  exact h'

/-! ### `const_eq_for!(slice; l, r, eq)` -/

/-- the text of `eq_slice_str.loop1` / `eq_slice_bytes.loop1`; `e` = the element comparison (with its fuel) -/
def cmp6_eqForBody {α : Type} (e : α → α → Res Bool) (left_slice right_slice : List α) :
    (Bool × Nat) → Ctl (LoopExit Bool (Bool × Nat) (Bool × Nat)) (Bool × Nat) := fun (returned, i) => do
  if (decide (i ≠ left_slice.length)) then do
      let t1_ ← Rs.index left_slice i
      let t2_ ← Rs.index right_slice i
      let t3_ ← Ctl.call (e t1_ t2_)
      let are_eq := t3_
      let returned ← (if (!are_eq) then do
            let returned := false
            Ctl.exit (.brk (returned, i))
          else do
            pure returned)
      let i ← Rs.uadd 64 i (1 : Nat)
      pure (returned, i)
  else Ctl.exit (.brk (returned, i))

set_option linter.unusedVariables false in
/-- the text of `eq_slice_str` / `eq_slice_bytes` over `cmp6_eqForBody` -/
def cmp6_eqForFn {α : Type} (e : α → α → Res Bool) (fuel : Nat) (l r : List α) : Res Bool := Ctl.run (ρ := Bool) do
  let t4_ ← (match l, r with
      | left_slice, right_slice => do
          let returned := (decide (left_slice.length = right_slice.length))
          let returned ← (if returned then do
                let i := (0 : Nat)
                let (returned, i) ← (Rs.loop fuel (cmp6_eqForBody e left_slice right_slice) (returned, i))
                pure returned
              else do
                pure returned)
          pure returned)
  pure t4_

/-- the `while i != left_slice.len()` loop of `const_eq_for!(slice; …)` from any state `(ret, i)` on slices of equal
    length: it ends with `returned = ret` when the model's loop says `true`, `false` otherwise -/
theorem cmp6_eqFor_loop {α β : Type} (g : α → β) (m : β → β → Option Bool) (e : α → α → Res Bool)
    (n : Nat) (left right : List α) (ret : Bool) (i : Nat)
    (hlen : left.length = right.length) (hb : left.length < 2 ^ 64)
    (hn : left.length + 1 ≤ n + i) (hi : i ≤ left.length)
    (he : ∀ j (hl : j < left.length) (hr : j < right.length),
      ∃ b, m (g left[j]) (g right[j]) = some b ∧ e left[j] right[j] = .ok b) :
    ∃ b k, constEqForLoop m (left.map g) (right.map g) i = some b ∧
      Rs.loop (ε := Bool) n (cmp6_eqForBody e left right) (ret, i) = .val (ret && b, k) := by
  induction n generalizing i with
  | zero => omega
  | succ n ih =>
    rw [Rs.loop_succ, constEqForLoop]
    by_cases hc : i = left.length
    · exact ⟨true, i, by simp [hc], by simp [cmp6_eqForBody, hc]⟩
    · have hil : i < left.length := by omega
      have hir : i < right.length := by omega
      have h1 : i + 1 < 2 ^ 64 := by omega
      obtain ⟨b, hm, hx⟩ := he i hil hir
      cases b with
      | true =>
        obtain ⟨b', k, hm', hx'⟩ := ih (i := i + 1) (by omega) (by omega)
        refine ⟨b', k, ?_, ?_⟩
        · simp [hc, hil, hir, hm, hm']
        · simp [cmp6_eqForBody, Rs.index, Rs.uadd, hc, hil, hir, h1, hx, hx']
      | false =>
        refine ⟨false, i, ?_, ?_⟩
        · simp [hc, hil, hir, hm]
        · simp [cmp6_eqForBody, Rs.index, Rs.uadd, hc, hil, hir, hx]

/-- the pair of elements at index `j` is in the `zip` -/
theorem cmp6_zip_getElem_mem {α : Type} (l r : List α) (j : Nat) (hl : j < l.length) (hr : j < r.length) :
    (l[j], r[j]) ∈ l.zip r := by
  have hz : j < (l.zip r).length := by simp [List.length_zip]; omega
  have := List.getElem_mem hz
  simpa [List.getElem_zip] using this

/-- `const_eq_for!(slice; l, r, e)` = the model's `constEqForSlice m`; the element hypothesis is asked for the pairs
    of elements at the same index -/
theorem cmp6_eqForFn_eq {α β : Type} (g : α → β) (m : β → β → Option Bool) (e : α → α → Res Bool)
    (fuel : Nat) (l r : List α)
    (hb : min l.length r.length < 2 ^ 64) (hf : min l.length r.length + 1 ≤ fuel)
    (he : ∀ p ∈ l.zip r, ∃ b, m (g p.1) (g p.2) = some b ∧ e p.1 p.2 = .ok b) :
    ∃ b, constEqForSlice m (l.map g) (r.map g) = some b ∧ cmp6_eqForFn e fuel l r = .ok b := by
  unfold cmp6_eqForFn constEqForSlice
  by_cases hlen : l.length = r.length
  · obtain ⟨b, k, h1, h2⟩ := cmp6_eqFor_loop g m e fuel l r true 0 hlen (by omega) (by omega) (by omega)
      (fun j hl hr => he _ (cmp6_zip_getElem_mem l r j hl hr))
    exact ⟨b, by simpa [hlen] using h1, by simp [hlen, h2]⟩
  · exact ⟨false, by simp [hlen], by simp [hlen]⟩

/-! ### `const_cmp_for!(slice; left, right, cmp)` -/

/-- the text of `cmp_slice_str.loop1` / `cmp_slice_bytes.loop1`; `c` = the element comparison (with its fuel) -/
def cmp6_cmpForBody {α : Type} (c : α → α → Res Ordering) :
    (List α × List α) → Ctl (LoopExit Ordering (List α × List α) ((List α × List α) × Ordering)) (List α × List α) :=
  fun (left_slice, right_slice) => do
  let (left_slice, right_slice) ← (match left_slice, right_slice with
      | (l :: l_rem), (r :: r_rem) => do
          let left_slice := l_rem
          let right_slice := r_rem
          let t2_ ← (do
                let t1_ ← Ctl.call (c l r)
                pure t1_)
          let ord := t2_
          let t3_ ← (match ord with
              | Ordering.eq => do
                  pure true
              | _ => do
                  pure false)
          let _ ← (if (!t3_) then do
                Ctl.exit (.brk ((left_slice, right_slice), ord))
              else do
                pure ())
          pure (left_slice, right_slice)
      | ([]), ([]) => do
          Ctl.exit (.brk ((left_slice, right_slice), Ordering.eq))
      | ([]), _ => do
          Ctl.exit (.brk ((left_slice, right_slice), Ordering.lt))
      | _, ([]) => do
          Ctl.exit (.brk ((left_slice, right_slice), Ordering.gt)))
  pure (left_slice, right_slice)

set_option linter.unusedVariables false in
/-- the text of `cmp_slice_str` / `cmp_slice_bytes` over `cmp6_cmpForBody` -/
def cmp6_cmpForFn {α : Type} (c : α → α → Res Ordering) (fuel : Nat) (left right : List α) : Res Ordering :=
  Ctl.run (ρ := Ordering) do
  let t6_ ← (match left, right with
      | left_slice, right_slice => do
          let (t5_, left_slice, right_slice) ← (do
                let ((left_slice, right_slice), v4_) ← (Rs.loop fuel (cmp6_cmpForBody c) (left_slice, right_slice))
                pure (v4_, left_slice, right_slice))
          pure t5_)
  pure t6_

/-- the loop of `const_cmp_for!(slice; …)` from any pair of remaining slices: it breaks with the model's value
    (`st` = the slices left when it stopped; not observable).  One iteration per common element plus the deciding
    one; nothing can overflow (no counter) -/
theorem cmp6_cmpFor_loop {α β : Type} (g : α → β) (m : β → β → Option Ordering) (c : α → α → Res Ordering)
    (n : Nat) (left right : List α) (hn : min left.length right.length + 1 ≤ n)
    (he : ∀ p ∈ left.zip right, ∃ o, m (g p.1) (g p.2) = some o ∧ c p.1 p.2 = .ok o) :
    ∃ o st, constCmpForSlice m (left.map g) (right.map g) = some o ∧
      Rs.loop (ε := Ordering) n (cmp6_cmpForBody c) (left, right) = .val (st, o) := by
  induction n generalizing left right with
  | zero => omega
  | succ n ih =>
    rw [Rs.loop_succ]
    cases left with
    | nil =>
      cases right with
      | nil => exact ⟨.eq, ([], []), by simp [constCmpForSlice], by simp [cmp6_cmpForBody]⟩
      | cons y b => exact ⟨.lt, ([], y :: b), by simp [constCmpForSlice], by simp [cmp6_cmpForBody]⟩
    | cons x a =>
      cases right with
      | nil => exact ⟨.gt, (x :: a, []), by simp [constCmpForSlice], by simp [cmp6_cmpForBody]⟩
      | cons y b =>
        simp only [List.length_cons] at hn
        simp only [List.zip_cons_cons, List.mem_cons, forall_eq_or_imp] at he
        obtain ⟨⟨o, hm, hx⟩, he'⟩ := he
        obtain ⟨o', st, hm', hx'⟩ := ih a b (by omega) he'
        cases o with
        | eq => exact ⟨o', st, by simp [constCmpForSlice, hm, hm'], by simp [cmp6_cmpForBody, hx, hx']⟩
        | lt => exact ⟨.lt, (a, b), by simp [constCmpForSlice, hm], by simp [cmp6_cmpForBody, hx]⟩
        | gt => exact ⟨.gt, (a, b), by simp [constCmpForSlice, hm], by simp [cmp6_cmpForBody, hx]⟩

/-- `const_cmp_for!(slice; left, right, c)` = the model's `constCmpForSlice m` -/
theorem cmp6_cmpForFn_eq {α β : Type} (g : α → β) (m : β → β → Option Ordering) (c : α → α → Res Ordering)
    (fuel : Nat) (left right : List α) (hf : min left.length right.length + 1 ≤ fuel)
    (he : ∀ p ∈ left.zip right, ∃ o, m (g p.1) (g p.2) = some o ∧ c p.1 p.2 = .ok o) :
    ∃ o, constCmpForSlice m (left.map g) (right.map g) = some o ∧ cmp6_cmpForFn c fuel left right = .ok o := by
  obtain ⟨o, st, h1, h2⟩ := cmp6_cmpFor_loop g m c fuel left right hf he
  exact ⟨o, h1, by simp [cmp6_cmpForFn, h2]⟩

/-! ### the generated definitions are instances of the generic texts

  (`rfl` after `cases` on the two `Option` arguments: every generated `match` is its own auxiliary matcher) -/

theorem eq_option_slice_u16_fn (fuel : Nat) :
    Extracted.eq_option_slice_u16 fuel = cmp6_eqOptFn (Extracted.CmpWrapper_slice_u16.const_eq fuel) := by
  funext l r; cases l <;> cases r <;> rfl
theorem cmp_option_slice_u16_fn (fuel : Nat) :
    Extracted.cmp_option_slice_u16 fuel = cmp6_cmpOptFn (Extracted.CmpWrapper_slice_u16.const_cmp fuel) := by
  funext l r; cases l <;> cases r <;> rfl
theorem eq_option_slice_u32_fn (fuel : Nat) :
    Extracted.eq_option_slice_u32 fuel = cmp6_eqOptFn (Extracted.CmpWrapper_slice_u32.const_eq fuel) := by
  funext l r; cases l <;> cases r <;> rfl
theorem cmp_option_slice_u32_fn (fuel : Nat) :
    Extracted.cmp_option_slice_u32 fuel = cmp6_cmpOptFn (Extracted.CmpWrapper_slice_u32.const_cmp fuel) := by
  funext l r; cases l <;> cases r <;> rfl
theorem eq_option_slice_u64_fn (fuel : Nat) :
    Extracted.eq_option_slice_u64 fuel = cmp6_eqOptFn (Extracted.CmpWrapper_slice_u64.const_eq fuel) := by
  funext l r; cases l <;> cases r <;> rfl
theorem cmp_option_slice_u64_fn (fuel : Nat) :
    Extracted.cmp_option_slice_u64 fuel = cmp6_cmpOptFn (Extracted.CmpWrapper_slice_u64.const_cmp fuel) := by
  funext l r; cases l <;> cases r <;> rfl
theorem eq_option_slice_u128_fn (fuel : Nat) :
    Extracted.eq_option_slice_u128 fuel = cmp6_eqOptFn (Extracted.CmpWrapper_slice_u128.const_eq fuel) := by
  funext l r; cases l <;> cases r <;> rfl
theorem cmp_option_slice_u128_fn (fuel : Nat) :
    Extracted.cmp_option_slice_u128 fuel = cmp6_cmpOptFn (Extracted.CmpWrapper_slice_u128.const_cmp fuel) := by
  funext l r; cases l <;> cases r <;> rfl
theorem eq_option_slice_usize_fn (fuel : Nat) :
    Extracted.eq_option_slice_usize fuel = cmp6_eqOptFn (Extracted.CmpWrapper_slice_usize.const_eq fuel) := by
  funext l r; cases l <;> cases r <;> rfl
theorem cmp_option_slice_usize_fn (fuel : Nat) :
    Extracted.cmp_option_slice_usize fuel = cmp6_cmpOptFn (Extracted.CmpWrapper_slice_usize.const_cmp fuel) := by
  funext l r; cases l <;> cases r <;> rfl
theorem eq_option_slice_i8_fn (fuel : Nat) :
    Extracted.eq_option_slice_i8 fuel = cmp6_eqOptFn (Extracted.CmpWrapper_slice_i8.const_eq fuel) := by
  funext l r; cases l <;> cases r <;> rfl
theorem cmp_option_slice_i8_fn (fuel : Nat) :
    Extracted.cmp_option_slice_i8 fuel = cmp6_cmpOptFn (Extracted.CmpWrapper_slice_i8.const_cmp fuel) := by
  funext l r; cases l <;> cases r <;> rfl
theorem eq_option_slice_i16_fn (fuel : Nat) :
    Extracted.eq_option_slice_i16 fuel = cmp6_eqOptFn (Extracted.CmpWrapper_slice_i16.const_eq fuel) := by
  funext l r; cases l <;> cases r <;> rfl
theorem cmp_option_slice_i16_fn (fuel : Nat) :
    Extracted.cmp_option_slice_i16 fuel = cmp6_cmpOptFn (Extracted.CmpWrapper_slice_i16.const_cmp fuel) := by
  funext l r; cases l <;> cases r <;> rfl
theorem eq_option_slice_i32_fn (fuel : Nat) :
    Extracted.eq_option_slice_i32 fuel = cmp6_eqOptFn (Extracted.CmpWrapper_slice_i32.const_eq fuel) := by
  funext l r; cases l <;> cases r <;> rfl
theorem cmp_option_slice_i32_fn (fuel : Nat) :
    Extracted.cmp_option_slice_i32 fuel = cmp6_cmpOptFn (Extracted.CmpWrapper_slice_i32.const_cmp fuel) := by
  funext l r; cases l <;> cases r <;> rfl
theorem eq_option_slice_i64_fn (fuel : Nat) :
    Extracted.eq_option_slice_i64 fuel = cmp6_eqOptFn (Extracted.CmpWrapper_slice_i64.const_eq fuel) := by
  funext l r; cases l <;> cases r <;> rfl
theorem cmp_option_slice_i64_fn (fuel : Nat) :
    Extracted.cmp_option_slice_i64 fuel = cmp6_cmpOptFn (Extracted.CmpWrapper_slice_i64.const_cmp fuel) := by
  funext l r; cases l <;> cases r <;> rfl
theorem eq_option_slice_i128_fn (fuel : Nat) :
    Extracted.eq_option_slice_i128 fuel = cmp6_eqOptFn (Extracted.CmpWrapper_slice_i128.const_eq fuel) := by
  funext l r; cases l <;> cases r <;> rfl
theorem cmp_option_slice_i128_fn (fuel : Nat) :
    Extracted.cmp_option_slice_i128 fuel = cmp6_cmpOptFn (Extracted.CmpWrapper_slice_i128.const_cmp fuel) := by
  funext l r; cases l <;> cases r <;> rfl
theorem eq_option_slice_isize_fn (fuel : Nat) :
    Extracted.eq_option_slice_isize fuel = cmp6_eqOptFn (Extracted.CmpWrapper_slice_isize.const_eq fuel) := by
  funext l r; cases l <;> cases r <;> rfl
theorem cmp_option_slice_isize_fn (fuel : Nat) :
    Extracted.cmp_option_slice_isize fuel = cmp6_cmpOptFn (Extracted.CmpWrapper_slice_isize.const_cmp fuel) := by
  funext l r; cases l <;> cases r <;> rfl
theorem eq_option_slice_bool_fn (fuel : Nat) :
    Extracted.eq_option_slice_bool fuel = cmp6_eqOptFn (Extracted.CmpWrapper_slice_bool.const_eq fuel) := by
  funext l r; cases l <;> cases r <;> rfl
theorem cmp_option_slice_bool_fn (fuel : Nat) :
    Extracted.cmp_option_slice_bool fuel = cmp6_cmpOptFn (Extracted.CmpWrapper_slice_bool.const_cmp fuel) := by
  funext l r; cases l <;> cases r <;> rfl
theorem eq_option_slice_char_fn (fuel : Nat) :
    Extracted.eq_option_slice_char fuel = cmp6_eqOptFn (Extracted.CmpWrapper_slice_char.const_eq fuel) := by
  funext l r; cases l <;> cases r <;> rfl
theorem cmp_option_slice_char_fn (fuel : Nat) :
    Extracted.cmp_option_slice_char fuel = cmp6_cmpOptFn (Extracted.CmpWrapper_slice_char.const_cmp fuel) := by
  funext l r; cases l <;> cases r <;> rfl
theorem eq_option_slice_str_fn (fuel : Nat) :
    Extracted.eq_option_slice_str fuel = cmp6_eqOptFn (Extracted.CmpWrapper_slice_str.const_eq fuel) := by
  funext l r; cases l <;> cases r <;> rfl
theorem cmp_option_slice_str_fn (fuel : Nat) :
    Extracted.cmp_option_slice_str fuel = cmp6_cmpOptFn (Extracted.CmpWrapper_slice_str.const_cmp fuel) := by
  funext l r; cases l <;> cases r <;> rfl
theorem eq_option_slice_bytes_fn (fuel : Nat) :
    Extracted.eq_option_slice_bytes fuel = cmp6_eqOptFn (Extracted.CmpWrapper_slice_bytes.const_eq fuel) := by
  funext l r; cases l <;> cases r <;> rfl
theorem cmp_option_slice_bytes_fn (fuel : Nat) :
    Extracted.cmp_option_slice_bytes fuel = cmp6_cmpOptFn (Extracted.CmpWrapper_slice_bytes.const_cmp fuel) := by
  funext l r; cases l <;> cases r <;> rfl
theorem eq_option_str_fn (fuel : Nat) :
    Extracted.eq_option_str fuel = cmp6_eqOptFn (Extracted.CmpWrapper_str.const_eq fuel) := by
  funext l r; cases l <;> cases r <;> rfl
theorem cmp_option_str_fn (fuel : Nat) :
    Extracted.cmp_option_str fuel = cmp6_cmpOptFn (Extracted.CmpWrapper_str.const_cmp fuel) := by
  funext l r; cases l <;> cases r <;> rfl

theorem eq_slice_str_loop1 (fuel : Nat) : Extracted.eq_slice_str.loop1 fuel = cmp6_eqForBody (Extracted.eq_str fuel) := rfl
theorem eq_slice_bytes_loop1 (fuel : Nat) : Extracted.eq_slice_bytes.loop1 fuel = cmp6_eqForBody (Extracted.eq_bytes fuel) := rfl
theorem cmp_slice_str_loop1 (fuel : Nat) : Extracted.cmp_slice_str.loop1 fuel = cmp6_cmpForBody (Extracted.cmp_str fuel) := by
  funext ⟨a, b⟩; cases a <;> cases b <;> rfl
theorem cmp_slice_bytes_loop1 (fuel : Nat) : Extracted.cmp_slice_bytes.loop1 fuel = cmp6_cmpForBody (Extracted.cmp_bytes fuel) := by
  funext ⟨a, b⟩; cases a <;> cases b <;> rfl
theorem eq_slice_str_fn (fuel : Nat) : Extracted.eq_slice_str fuel = cmp6_eqForFn (Extracted.eq_str fuel) fuel := rfl
theorem eq_slice_bytes_fn (fuel : Nat) : Extracted.eq_slice_bytes fuel = cmp6_eqForFn (Extracted.eq_bytes fuel) fuel := rfl
theorem cmp_slice_str_fn (fuel : Nat) : Extracted.cmp_slice_str fuel = cmp6_cmpForFn (Extracted.cmp_str fuel) fuel := by
  funext l r; unfold Extracted.cmp_slice_str cmp6_cmpForFn; rw [cmp_slice_str_loop1]
theorem cmp_slice_bytes_fn (fuel : Nat) : Extracted.cmp_slice_bytes fuel = cmp6_cmpForFn (Extracted.cmp_bytes fuel) fuel := by
  funext l r; unfold Extracted.cmp_slice_bytes cmp6_cmpForFn; rw [cmp_slice_bytes_loop1]


/-! ### the equivalence theorems: `CmpWrapper<&[T]>` and `Option<&[T]>` for the scalar element types

  `CmpWrapper<&[T]>::const_eq / const_cmp` forward to `eq_slice_T` / `cmp_slice_T` (`Equiv/Cmp.lean` for `i8`, `u64`;
  `Equiv/Cmp4.lean` for the others) with the same hypotheses; `eq_option_slice_T` / `cmp_option_slice_T` ask them for
  the `(Some(l), Some(r))` arm only (the other arms neither loop nor index), as `eq_option_bytes_eq`. -/

/-! #### `&[u16]` -/

theorem CmpWrapper_slice_u16_const_eq_eq (fuel : Nat) (self other : List Nat)
    (hb : min self.length other.length < 2 ^ 64) (hf : min self.length other.length + 1 ≤ fuel) :
    ∃ b, eqSlice (self.map Int.ofNat) (other.map Int.ofNat) = some b ∧
      Extracted.CmpWrapper_slice_u16.const_eq fuel self other = .ok b :=
  cmp6_wrap_eq (eq_slice_u16_eq fuel self other hb hf)

theorem CmpWrapper_slice_u16_const_cmp_eq (fuel : Nat) (self other : List Nat)
    (hb : min self.length other.length < 2 ^ 64) (hf : min self.length other.length + 1 ≤ fuel) :
    ∃ c, cmpSlice (self.map Int.ofNat) (other.map Int.ofNat) = some c ∧
      Extracted.CmpWrapper_slice_u16.const_cmp fuel self other = .ok c :=
  cmp6_wrap_eq (cmp_slice_u16_eq fuel self other hb hf)

theorem eq_option_slice_u16_eq (fuel : Nat) (left right : Option (List Nat))
    (hb : ∀ l r, left = some l → right = some r → min l.length r.length < 2 ^ 64)
    (hf : ∀ l r, left = some l → right = some r → min l.length r.length + 1 ≤ fuel) :
    ∃ b, eqOption eqSlice (left.map (List.map Int.ofNat)) (right.map (List.map Int.ofNat)) = some b ∧
      Extracted.eq_option_slice_u16 fuel left right = .ok b := by
  rw [eq_option_slice_u16_fn]
  exact cmp6_eqOptFn_eq (List.map Int.ofNat) eqSlice _ left right
    (fun l r hl hr => CmpWrapper_slice_u16_const_eq_eq fuel l r (hb l r hl hr) (hf l r hl hr))

theorem cmp_option_slice_u16_eq (fuel : Nat) (left right : Option (List Nat))
    (hb : ∀ l r, left = some l → right = some r → min l.length r.length < 2 ^ 64)
    (hf : ∀ l r, left = some l → right = some r → min l.length r.length + 1 ≤ fuel) :
    ∃ c, cmpOption cmpSlice (left.map (List.map Int.ofNat)) (right.map (List.map Int.ofNat)) = some c ∧
      Extracted.cmp_option_slice_u16 fuel left right = .ok c := by
  rw [cmp_option_slice_u16_fn]
  exact cmp6_cmpOptFn_eq (List.map Int.ofNat) cmpSlice _ left right
    (fun l r hl hr => CmpWrapper_slice_u16_const_cmp_eq fuel l r (hb l r hl hr) (hf l r hl hr))

example : ∃ c, cmpOption cmpSlice (some [65535, 0]) (some [65535, 1]) = some c ∧
    Extracted.cmp_option_slice_u16 3 (some [65535, 0]) (some [65535, 1]) = .ok c :=
  cmp_option_slice_u16_eq 3 (some [65535, 0]) (some [65535, 1])
    (by intro l r hl hr; cases hl; cases hr; decide) (by intro l r hl hr; cases hl; cases hr; decide)
example : Extracted.CmpWrapper_slice_u16.const_eq 3 [65535, 0] [65535, 1] = .ok false := by decide
example : Extracted.CmpWrapper_slice_u16.const_cmp 3 [65535, 0] [65535, 1] = .ok .lt := by decide
example : Extracted.eq_option_slice_u16 3 (some [65535, 0]) (some [65535, 0]) = .ok true := by decide
example : Extracted.eq_option_slice_u16 0 (some [65535, 0]) none = .ok false := by decide
example : Extracted.cmp_option_slice_u16 3 (some [65535, 0]) (some [65535, 1]) = .ok .lt := by decide
example : Extracted.cmp_option_slice_u16 0 none (some [65535, 1]) = .ok .lt := by decide

/-! #### `&[u32]` -/

theorem CmpWrapper_slice_u32_const_eq_eq (fuel : Nat) (self other : List Nat)
    (hb : min self.length other.length < 2 ^ 64) (hf : min self.length other.length + 1 ≤ fuel) :
    ∃ b, eqSlice (self.map Int.ofNat) (other.map Int.ofNat) = some b ∧
      Extracted.CmpWrapper_slice_u32.const_eq fuel self other = .ok b :=
  cmp6_wrap_eq (eq_slice_u32_eq fuel self other hb hf)

theorem CmpWrapper_slice_u32_const_cmp_eq (fuel : Nat) (self other : List Nat)
    (hb : min self.length other.length < 2 ^ 64) (hf : min self.length other.length + 1 ≤ fuel) :
    ∃ c, cmpSlice (self.map Int.ofNat) (other.map Int.ofNat) = some c ∧
      Extracted.CmpWrapper_slice_u32.const_cmp fuel self other = .ok c :=
  cmp6_wrap_eq (cmp_slice_u32_eq fuel self other hb hf)

theorem eq_option_slice_u32_eq (fuel : Nat) (left right : Option (List Nat))
    (hb : ∀ l r, left = some l → right = some r → min l.length r.length < 2 ^ 64)
    (hf : ∀ l r, left = some l → right = some r → min l.length r.length + 1 ≤ fuel) :
    ∃ b, eqOption eqSlice (left.map (List.map Int.ofNat)) (right.map (List.map Int.ofNat)) = some b ∧
      Extracted.eq_option_slice_u32 fuel left right = .ok b := by
  rw [eq_option_slice_u32_fn]
  exact cmp6_eqOptFn_eq (List.map Int.ofNat) eqSlice _ left right
    (fun l r hl hr => CmpWrapper_slice_u32_const_eq_eq fuel l r (hb l r hl hr) (hf l r hl hr))

theorem cmp_option_slice_u32_eq (fuel : Nat) (left right : Option (List Nat))
    (hb : ∀ l r, left = some l → right = some r → min l.length r.length < 2 ^ 64)
    (hf : ∀ l r, left = some l → right = some r → min l.length r.length + 1 ≤ fuel) :
    ∃ c, cmpOption cmpSlice (left.map (List.map Int.ofNat)) (right.map (List.map Int.ofNat)) = some c ∧
      Extracted.cmp_option_slice_u32 fuel left right = .ok c := by
  rw [cmp_option_slice_u32_fn]
  exact cmp6_cmpOptFn_eq (List.map Int.ofNat) cmpSlice _ left right
    (fun l r hl hr => CmpWrapper_slice_u32_const_cmp_eq fuel l r (hb l r hl hr) (hf l r hl hr))

example : ∃ c, cmpOption cmpSlice (some [4294967295, 7]) (some [4294967295, 2]) = some c ∧
    Extracted.cmp_option_slice_u32 3 (some [4294967295, 7]) (some [4294967295, 2]) = .ok c :=
  cmp_option_slice_u32_eq 3 (some [4294967295, 7]) (some [4294967295, 2])
    (by intro l r hl hr; cases hl; cases hr; decide) (by intro l r hl hr; cases hl; cases hr; decide)
example : Extracted.CmpWrapper_slice_u32.const_eq 3 [4294967295, 7] [4294967295, 2] = .ok false := by decide
example : Extracted.CmpWrapper_slice_u32.const_cmp 3 [4294967295, 7] [4294967295, 2] = .ok .gt := by decide
example : Extracted.eq_option_slice_u32 3 (some [4294967295, 7]) (some [4294967295, 7]) = .ok true := by decide
example : Extracted.eq_option_slice_u32 0 (some [4294967295, 7]) none = .ok false := by decide
example : Extracted.cmp_option_slice_u32 3 (some [4294967295, 7]) (some [4294967295, 2]) = .ok .gt := by decide
example : Extracted.cmp_option_slice_u32 0 none (some [4294967295, 2]) = .ok .lt := by decide

/-! #### `&[u64]` -/

theorem CmpWrapper_slice_u64_const_eq_eq (fuel : Nat) (self other : List Nat)
    (hb : min self.length other.length < 2 ^ 64) (hf : min self.length other.length + 1 ≤ fuel) :
    ∃ b, eqSlice (self.map Int.ofNat) (other.map Int.ofNat) = some b ∧
      Extracted.CmpWrapper_slice_u64.const_eq fuel self other = .ok b :=
  cmp6_wrap_eq (eq_slice_u64_eq fuel self other hb hf)

theorem CmpWrapper_slice_u64_const_cmp_eq (fuel : Nat) (self other : List Nat)
    (hb : min self.length other.length < 2 ^ 64) (hf : min self.length other.length + 1 ≤ fuel) :
    ∃ c, cmpSlice (self.map Int.ofNat) (other.map Int.ofNat) = some c ∧
      Extracted.CmpWrapper_slice_u64.const_cmp fuel self other = .ok c :=
  cmp6_wrap_eq (cmp_slice_u64_eq fuel self other hb hf)

theorem eq_option_slice_u64_eq (fuel : Nat) (left right : Option (List Nat))
    (hb : ∀ l r, left = some l → right = some r → min l.length r.length < 2 ^ 64)
    (hf : ∀ l r, left = some l → right = some r → min l.length r.length + 1 ≤ fuel) :
    ∃ b, eqOption eqSlice (left.map (List.map Int.ofNat)) (right.map (List.map Int.ofNat)) = some b ∧
      Extracted.eq_option_slice_u64 fuel left right = .ok b := by
  rw [eq_option_slice_u64_fn]
  exact cmp6_eqOptFn_eq (List.map Int.ofNat) eqSlice _ left right
    (fun l r hl hr => CmpWrapper_slice_u64_const_eq_eq fuel l r (hb l r hl hr) (hf l r hl hr))

theorem cmp_option_slice_u64_eq (fuel : Nat) (left right : Option (List Nat))
    (hb : ∀ l r, left = some l → right = some r → min l.length r.length < 2 ^ 64)
    (hf : ∀ l r, left = some l → right = some r → min l.length r.length + 1 ≤ fuel) :
    ∃ c, cmpOption cmpSlice (left.map (List.map Int.ofNat)) (right.map (List.map Int.ofNat)) = some c ∧
      Extracted.cmp_option_slice_u64 fuel left right = .ok c := by
  rw [cmp_option_slice_u64_fn]
  exact cmp6_cmpOptFn_eq (List.map Int.ofNat) cmpSlice _ left right
    (fun l r hl hr => CmpWrapper_slice_u64_const_cmp_eq fuel l r (hb l r hl hr) (hf l r hl hr))

example : ∃ c, cmpOption cmpSlice (some [18446744073709551615, 0]) (some [18446744073709551615, 1]) = some c ∧
    Extracted.cmp_option_slice_u64 3 (some [18446744073709551615, 0]) (some [18446744073709551615, 1]) = .ok c :=
  cmp_option_slice_u64_eq 3 (some [18446744073709551615, 0]) (some [18446744073709551615, 1])
    (by intro l r hl hr; cases hl; cases hr; decide) (by intro l r hl hr; cases hl; cases hr; decide)
example : Extracted.CmpWrapper_slice_u64.const_eq 3 [18446744073709551615, 0] [18446744073709551615, 1] = .ok false := by decide
example : Extracted.CmpWrapper_slice_u64.const_cmp 3 [18446744073709551615, 0] [18446744073709551615, 1] = .ok .lt := by decide
example : Extracted.eq_option_slice_u64 3 (some [18446744073709551615, 0]) (some [18446744073709551615, 0]) = .ok true := by decide
example : Extracted.eq_option_slice_u64 0 (some [18446744073709551615, 0]) none = .ok false := by decide
example : Extracted.cmp_option_slice_u64 3 (some [18446744073709551615, 0]) (some [18446744073709551615, 1]) = .ok .lt := by decide
example : Extracted.cmp_option_slice_u64 0 none (some [18446744073709551615, 1]) = .ok .lt := by decide

/-! #### `&[u128]` -/

theorem CmpWrapper_slice_u128_const_eq_eq (fuel : Nat) (self other : List Nat)
    (hb : min self.length other.length < 2 ^ 64) (hf : min self.length other.length + 1 ≤ fuel) :
    ∃ b, eqSlice (self.map Int.ofNat) (other.map Int.ofNat) = some b ∧
      Extracted.CmpWrapper_slice_u128.const_eq fuel self other = .ok b :=
  cmp6_wrap_eq (eq_slice_u128_eq fuel self other hb hf)

theorem CmpWrapper_slice_u128_const_cmp_eq (fuel : Nat) (self other : List Nat)
    (hb : min self.length other.length < 2 ^ 64) (hf : min self.length other.length + 1 ≤ fuel) :
    ∃ c, cmpSlice (self.map Int.ofNat) (other.map Int.ofNat) = some c ∧
      Extracted.CmpWrapper_slice_u128.const_cmp fuel self other = .ok c :=
  cmp6_wrap_eq (cmp_slice_u128_eq fuel self other hb hf)

theorem eq_option_slice_u128_eq (fuel : Nat) (left right : Option (List Nat))
    (hb : ∀ l r, left = some l → right = some r → min l.length r.length < 2 ^ 64)
    (hf : ∀ l r, left = some l → right = some r → min l.length r.length + 1 ≤ fuel) :
    ∃ b, eqOption eqSlice (left.map (List.map Int.ofNat)) (right.map (List.map Int.ofNat)) = some b ∧
      Extracted.eq_option_slice_u128 fuel left right = .ok b := by
  rw [eq_option_slice_u128_fn]
  exact cmp6_eqOptFn_eq (List.map Int.ofNat) eqSlice _ left right
    (fun l r hl hr => CmpWrapper_slice_u128_const_eq_eq fuel l r (hb l r hl hr) (hf l r hl hr))

theorem cmp_option_slice_u128_eq (fuel : Nat) (left right : Option (List Nat))
    (hb : ∀ l r, left = some l → right = some r → min l.length r.length < 2 ^ 64)
    (hf : ∀ l r, left = some l → right = some r → min l.length r.length + 1 ≤ fuel) :
    ∃ c, cmpOption cmpSlice (left.map (List.map Int.ofNat)) (right.map (List.map Int.ofNat)) = some c ∧
      Extracted.cmp_option_slice_u128 fuel left right = .ok c := by
  rw [cmp_option_slice_u128_fn]
  exact cmp6_cmpOptFn_eq (List.map Int.ofNat) cmpSlice _ left right
    (fun l r hl hr => CmpWrapper_slice_u128_const_cmp_eq fuel l r (hb l r hl hr) (hf l r hl hr))

example : ∃ c, cmpOption cmpSlice (some [340282366920938463463374607431768211455, 1]) (some [340282366920938463463374607431768211455, 0]) = some c ∧
    Extracted.cmp_option_slice_u128 3 (some [340282366920938463463374607431768211455, 1]) (some [340282366920938463463374607431768211455, 0]) = .ok c :=
  cmp_option_slice_u128_eq 3 (some [340282366920938463463374607431768211455, 1]) (some [340282366920938463463374607431768211455, 0])
    (by intro l r hl hr; cases hl; cases hr; decide) (by intro l r hl hr; cases hl; cases hr; decide)
example : Extracted.CmpWrapper_slice_u128.const_eq 3 [340282366920938463463374607431768211455, 1] [340282366920938463463374607431768211455, 0] = .ok false := by decide
example : Extracted.CmpWrapper_slice_u128.const_cmp 3 [340282366920938463463374607431768211455, 1] [340282366920938463463374607431768211455, 0] = .ok .gt := by decide
example : Extracted.eq_option_slice_u128 3 (some [340282366920938463463374607431768211455, 1]) (some [340282366920938463463374607431768211455, 1]) = .ok true := by decide
example : Extracted.eq_option_slice_u128 0 (some [340282366920938463463374607431768211455, 1]) none = .ok false := by decide
example : Extracted.cmp_option_slice_u128 3 (some [340282366920938463463374607431768211455, 1]) (some [340282366920938463463374607431768211455, 0]) = .ok .gt := by decide
example : Extracted.cmp_option_slice_u128 0 none (some [340282366920938463463374607431768211455, 0]) = .ok .lt := by decide

/-! #### `&[usize]` -/

theorem CmpWrapper_slice_usize_const_eq_eq (fuel : Nat) (self other : List Nat)
    (hb : min self.length other.length < 2 ^ 64) (hf : min self.length other.length + 1 ≤ fuel) :
    ∃ b, eqSlice (self.map Int.ofNat) (other.map Int.ofNat) = some b ∧
      Extracted.CmpWrapper_slice_usize.const_eq fuel self other = .ok b :=
  cmp6_wrap_eq (eq_slice_usize_eq fuel self other hb hf)

theorem CmpWrapper_slice_usize_const_cmp_eq (fuel : Nat) (self other : List Nat)
    (hb : min self.length other.length < 2 ^ 64) (hf : min self.length other.length + 1 ≤ fuel) :
    ∃ c, cmpSlice (self.map Int.ofNat) (other.map Int.ofNat) = some c ∧
      Extracted.CmpWrapper_slice_usize.const_cmp fuel self other = .ok c :=
  cmp6_wrap_eq (cmp_slice_usize_eq fuel self other hb hf)

theorem eq_option_slice_usize_eq (fuel : Nat) (left right : Option (List Nat))
    (hb : ∀ l r, left = some l → right = some r → min l.length r.length < 2 ^ 64)
    (hf : ∀ l r, left = some l → right = some r → min l.length r.length + 1 ≤ fuel) :
    ∃ b, eqOption eqSlice (left.map (List.map Int.ofNat)) (right.map (List.map Int.ofNat)) = some b ∧
      Extracted.eq_option_slice_usize fuel left right = .ok b := by
  rw [eq_option_slice_usize_fn]
  exact cmp6_eqOptFn_eq (List.map Int.ofNat) eqSlice _ left right
    (fun l r hl hr => CmpWrapper_slice_usize_const_eq_eq fuel l r (hb l r hl hr) (hf l r hl hr))

theorem cmp_option_slice_usize_eq (fuel : Nat) (left right : Option (List Nat))
    (hb : ∀ l r, left = some l → right = some r → min l.length r.length < 2 ^ 64)
    (hf : ∀ l r, left = some l → right = some r → min l.length r.length + 1 ≤ fuel) :
    ∃ c, cmpOption cmpSlice (left.map (List.map Int.ofNat)) (right.map (List.map Int.ofNat)) = some c ∧
      Extracted.cmp_option_slice_usize fuel left right = .ok c := by
  rw [cmp_option_slice_usize_fn]
  exact cmp6_cmpOptFn_eq (List.map Int.ofNat) cmpSlice _ left right
    (fun l r hl hr => CmpWrapper_slice_usize_const_cmp_eq fuel l r (hb l r hl hr) (hf l r hl hr))

example : ∃ c, cmpOption cmpSlice (some [18446744073709551615, 3]) (some [18446744073709551615, 4]) = some c ∧
    Extracted.cmp_option_slice_usize 3 (some [18446744073709551615, 3]) (some [18446744073709551615, 4]) = .ok c :=
  cmp_option_slice_usize_eq 3 (some [18446744073709551615, 3]) (some [18446744073709551615, 4])
    (by intro l r hl hr; cases hl; cases hr; decide) (by intro l r hl hr; cases hl; cases hr; decide)
example : Extracted.CmpWrapper_slice_usize.const_eq 3 [18446744073709551615, 3] [18446744073709551615, 4] = .ok false := by decide
example : Extracted.CmpWrapper_slice_usize.const_cmp 3 [18446744073709551615, 3] [18446744073709551615, 4] = .ok .lt := by decide
example : Extracted.eq_option_slice_usize 3 (some [18446744073709551615, 3]) (some [18446744073709551615, 3]) = .ok true := by decide
example : Extracted.eq_option_slice_usize 0 (some [18446744073709551615, 3]) none = .ok false := by decide
example : Extracted.cmp_option_slice_usize 3 (some [18446744073709551615, 3]) (some [18446744073709551615, 4]) = .ok .lt := by decide
example : Extracted.cmp_option_slice_usize 0 none (some [18446744073709551615, 4]) = .ok .lt := by decide

/-! #### `&[i8]` -/

theorem CmpWrapper_slice_i8_const_eq_eq (fuel : Nat) (self other : List Int)
    (hb : min self.length other.length < 2 ^ 64) (hf : min self.length other.length + 1 ≤ fuel) :
    ∃ b, eqSlice self other = some b ∧
      Extracted.CmpWrapper_slice_i8.const_eq fuel self other = .ok b :=
  cmp6_wrap_eq (eq_slice_i8_eq fuel self other hb hf)

theorem CmpWrapper_slice_i8_const_cmp_eq (fuel : Nat) (self other : List Int)
    (hb : min self.length other.length < 2 ^ 64) (hf : min self.length other.length + 1 ≤ fuel) :
    ∃ c, cmpSlice self other = some c ∧
      Extracted.CmpWrapper_slice_i8.const_cmp fuel self other = .ok c :=
  cmp6_wrap_eq (cmp_slice_i8_eq fuel self other hb hf)

theorem eq_option_slice_i8_eq (fuel : Nat) (left right : Option (List Int))
    (hb : ∀ l r, left = some l → right = some r → min l.length r.length < 2 ^ 64)
    (hf : ∀ l r, left = some l → right = some r → min l.length r.length + 1 ≤ fuel) :
    ∃ b, eqOption eqSlice left right = some b ∧
      Extracted.eq_option_slice_i8 fuel left right = .ok b := by
  rw [eq_option_slice_i8_fn]
  exact cmp6_eqOptFn_eq_id eqSlice _ left right
    (fun l r hl hr => CmpWrapper_slice_i8_const_eq_eq fuel l r (hb l r hl hr) (hf l r hl hr))

theorem cmp_option_slice_i8_eq (fuel : Nat) (left right : Option (List Int))
    (hb : ∀ l r, left = some l → right = some r → min l.length r.length < 2 ^ 64)
    (hf : ∀ l r, left = some l → right = some r → min l.length r.length + 1 ≤ fuel) :
    ∃ c, cmpOption cmpSlice left right = some c ∧
      Extracted.cmp_option_slice_i8 fuel left right = .ok c := by
  rw [cmp_option_slice_i8_fn]
  exact cmp6_cmpOptFn_eq_id cmpSlice _ left right
    (fun l r hl hr => CmpWrapper_slice_i8_const_cmp_eq fuel l r (hb l r hl hr) (hf l r hl hr))

example : ∃ c, cmpOption cmpSlice (some [-1, -128]) (some [-1, 127]) = some c ∧
    Extracted.cmp_option_slice_i8 3 (some [-1, -128]) (some [-1, 127]) = .ok c :=
  cmp_option_slice_i8_eq 3 (some [-1, -128]) (some [-1, 127])
    (by intro l r hl hr; cases hl; cases hr; decide) (by intro l r hl hr; cases hl; cases hr; decide)
example : Extracted.CmpWrapper_slice_i8.const_eq 3 [-1, -128] [-1, 127] = .ok false := by decide
example : Extracted.CmpWrapper_slice_i8.const_cmp 3 [-1, -128] [-1, 127] = .ok .lt := by decide
example : Extracted.eq_option_slice_i8 3 (some [-1, -128]) (some [-1, -128]) = .ok true := by decide
example : Extracted.eq_option_slice_i8 0 (some [-1, -128]) none = .ok false := by decide
example : Extracted.cmp_option_slice_i8 3 (some [-1, -128]) (some [-1, 127]) = .ok .lt := by decide
example : Extracted.cmp_option_slice_i8 0 none (some [-1, 127]) = .ok .lt := by decide

/-! #### `&[i16]` -/

theorem CmpWrapper_slice_i16_const_eq_eq (fuel : Nat) (self other : List Int)
    (hb : min self.length other.length < 2 ^ 64) (hf : min self.length other.length + 1 ≤ fuel) :
    ∃ b, eqSlice self other = some b ∧
      Extracted.CmpWrapper_slice_i16.const_eq fuel self other = .ok b :=
  cmp6_wrap_eq (eq_slice_i16_eq fuel self other hb hf)

theorem CmpWrapper_slice_i16_const_cmp_eq (fuel : Nat) (self other : List Int)
    (hb : min self.length other.length < 2 ^ 64) (hf : min self.length other.length + 1 ≤ fuel) :
    ∃ c, cmpSlice self other = some c ∧
      Extracted.CmpWrapper_slice_i16.const_cmp fuel self other = .ok c :=
  cmp6_wrap_eq (cmp_slice_i16_eq fuel self other hb hf)

theorem eq_option_slice_i16_eq (fuel : Nat) (left right : Option (List Int))
    (hb : ∀ l r, left = some l → right = some r → min l.length r.length < 2 ^ 64)
    (hf : ∀ l r, left = some l → right = some r → min l.length r.length + 1 ≤ fuel) :
    ∃ b, eqOption eqSlice left right = some b ∧
      Extracted.eq_option_slice_i16 fuel left right = .ok b := by
  rw [eq_option_slice_i16_fn]
  exact cmp6_eqOptFn_eq_id eqSlice _ left right
    (fun l r hl hr => CmpWrapper_slice_i16_const_eq_eq fuel l r (hb l r hl hr) (hf l r hl hr))

theorem cmp_option_slice_i16_eq (fuel : Nat) (left right : Option (List Int))
    (hb : ∀ l r, left = some l → right = some r → min l.length r.length < 2 ^ 64)
    (hf : ∀ l r, left = some l → right = some r → min l.length r.length + 1 ≤ fuel) :
    ∃ c, cmpOption cmpSlice left right = some c ∧
      Extracted.cmp_option_slice_i16 fuel left right = .ok c := by
  rw [cmp_option_slice_i16_fn]
  exact cmp6_cmpOptFn_eq_id cmpSlice _ left right
    (fun l r hl hr => CmpWrapper_slice_i16_const_cmp_eq fuel l r (hb l r hl hr) (hf l r hl hr))

example : ∃ c, cmpOption cmpSlice (some [-1, 32767]) (some [-1, -32768]) = some c ∧
    Extracted.cmp_option_slice_i16 3 (some [-1, 32767]) (some [-1, -32768]) = .ok c :=
  cmp_option_slice_i16_eq 3 (some [-1, 32767]) (some [-1, -32768])
    (by intro l r hl hr; cases hl; cases hr; decide) (by intro l r hl hr; cases hl; cases hr; decide)
example : Extracted.CmpWrapper_slice_i16.const_eq 3 [-1, 32767] [-1, -32768] = .ok false := by decide
example : Extracted.CmpWrapper_slice_i16.const_cmp 3 [-1, 32767] [-1, -32768] = .ok .gt := by decide
example : Extracted.eq_option_slice_i16 3 (some [-1, 32767]) (some [-1, 32767]) = .ok true := by decide
example : Extracted.eq_option_slice_i16 0 (some [-1, 32767]) none = .ok false := by decide
example : Extracted.cmp_option_slice_i16 3 (some [-1, 32767]) (some [-1, -32768]) = .ok .gt := by decide
example : Extracted.cmp_option_slice_i16 0 none (some [-1, -32768]) = .ok .lt := by decide

/-! #### `&[i32]` -/

theorem CmpWrapper_slice_i32_const_eq_eq (fuel : Nat) (self other : List Int)
    (hb : min self.length other.length < 2 ^ 64) (hf : min self.length other.length + 1 ≤ fuel) :
    ∃ b, eqSlice self other = some b ∧
      Extracted.CmpWrapper_slice_i32.const_eq fuel self other = .ok b :=
  cmp6_wrap_eq (eq_slice_i32_eq fuel self other hb hf)

theorem CmpWrapper_slice_i32_const_cmp_eq (fuel : Nat) (self other : List Int)
    (hb : min self.length other.length < 2 ^ 64) (hf : min self.length other.length + 1 ≤ fuel) :
    ∃ c, cmpSlice self other = some c ∧
      Extracted.CmpWrapper_slice_i32.const_cmp fuel self other = .ok c :=
  cmp6_wrap_eq (cmp_slice_i32_eq fuel self other hb hf)

theorem eq_option_slice_i32_eq (fuel : Nat) (left right : Option (List Int))
    (hb : ∀ l r, left = some l → right = some r → min l.length r.length < 2 ^ 64)
    (hf : ∀ l r, left = some l → right = some r → min l.length r.length + 1 ≤ fuel) :
    ∃ b, eqOption eqSlice left right = some b ∧
      Extracted.eq_option_slice_i32 fuel left right = .ok b := by
  rw [eq_option_slice_i32_fn]
  exact cmp6_eqOptFn_eq_id eqSlice _ left right
    (fun l r hl hr => CmpWrapper_slice_i32_const_eq_eq fuel l r (hb l r hl hr) (hf l r hl hr))

theorem cmp_option_slice_i32_eq (fuel : Nat) (left right : Option (List Int))
    (hb : ∀ l r, left = some l → right = some r → min l.length r.length < 2 ^ 64)
    (hf : ∀ l r, left = some l → right = some r → min l.length r.length + 1 ≤ fuel) :
    ∃ c, cmpOption cmpSlice left right = some c ∧
      Extracted.cmp_option_slice_i32 fuel left right = .ok c := by
  rw [cmp_option_slice_i32_fn]
  exact cmp6_cmpOptFn_eq_id cmpSlice _ left right
    (fun l r hl hr => CmpWrapper_slice_i32_const_cmp_eq fuel l r (hb l r hl hr) (hf l r hl hr))

example : ∃ c, cmpOption cmpSlice (some [0, -2147483648]) (some [0, 2147483647]) = some c ∧
    Extracted.cmp_option_slice_i32 3 (some [0, -2147483648]) (some [0, 2147483647]) = .ok c :=
  cmp_option_slice_i32_eq 3 (some [0, -2147483648]) (some [0, 2147483647])
    (by intro l r hl hr; cases hl; cases hr; decide) (by intro l r hl hr; cases hl; cases hr; decide)
example : Extracted.CmpWrapper_slice_i32.const_eq 3 [0, -2147483648] [0, 2147483647] = .ok false := by decide
example : Extracted.CmpWrapper_slice_i32.const_cmp 3 [0, -2147483648] [0, 2147483647] = .ok .lt := by decide
example : Extracted.eq_option_slice_i32 3 (some [0, -2147483648]) (some [0, -2147483648]) = .ok true := by decide
example : Extracted.eq_option_slice_i32 0 (some [0, -2147483648]) none = .ok false := by decide
example : Extracted.cmp_option_slice_i32 3 (some [0, -2147483648]) (some [0, 2147483647]) = .ok .lt := by decide
example : Extracted.cmp_option_slice_i32 0 none (some [0, 2147483647]) = .ok .lt := by decide

/-! #### `&[i64]` -/

theorem CmpWrapper_slice_i64_const_eq_eq (fuel : Nat) (self other : List Int)
    (hb : min self.length other.length < 2 ^ 64) (hf : min self.length other.length + 1 ≤ fuel) :
    ∃ b, eqSlice self other = some b ∧
      Extracted.CmpWrapper_slice_i64.const_eq fuel self other = .ok b :=
  cmp6_wrap_eq (eq_slice_i64_eq fuel self other hb hf)

theorem CmpWrapper_slice_i64_const_cmp_eq (fuel : Nat) (self other : List Int)
    (hb : min self.length other.length < 2 ^ 64) (hf : min self.length other.length + 1 ≤ fuel) :
    ∃ c, cmpSlice self other = some c ∧
      Extracted.CmpWrapper_slice_i64.const_cmp fuel self other = .ok c :=
  cmp6_wrap_eq (cmp_slice_i64_eq fuel self other hb hf)

theorem eq_option_slice_i64_eq (fuel : Nat) (left right : Option (List Int))
    (hb : ∀ l r, left = some l → right = some r → min l.length r.length < 2 ^ 64)
    (hf : ∀ l r, left = some l → right = some r → min l.length r.length + 1 ≤ fuel) :
    ∃ b, eqOption eqSlice left right = some b ∧
      Extracted.eq_option_slice_i64 fuel left right = .ok b := by
  rw [eq_option_slice_i64_fn]
  exact cmp6_eqOptFn_eq_id eqSlice _ left right
    (fun l r hl hr => CmpWrapper_slice_i64_const_eq_eq fuel l r (hb l r hl hr) (hf l r hl hr))

theorem cmp_option_slice_i64_eq (fuel : Nat) (left right : Option (List Int))
    (hb : ∀ l r, left = some l → right = some r → min l.length r.length < 2 ^ 64)
    (hf : ∀ l r, left = some l → right = some r → min l.length r.length + 1 ≤ fuel) :
    ∃ c, cmpOption cmpSlice left right = some c ∧
      Extracted.cmp_option_slice_i64 fuel left right = .ok c := by
  rw [cmp_option_slice_i64_fn]
  exact cmp6_cmpOptFn_eq_id cmpSlice _ left right
    (fun l r hl hr => CmpWrapper_slice_i64_const_cmp_eq fuel l r (hb l r hl hr) (hf l r hl hr))

example : ∃ c, cmpOption cmpSlice (some [5, 9223372036854775807]) (some [5, -9223372036854775808]) = some c ∧
    Extracted.cmp_option_slice_i64 3 (some [5, 9223372036854775807]) (some [5, -9223372036854775808]) = .ok c :=
  cmp_option_slice_i64_eq 3 (some [5, 9223372036854775807]) (some [5, -9223372036854775808])
    (by intro l r hl hr; cases hl; cases hr; decide) (by intro l r hl hr; cases hl; cases hr; decide)
example : Extracted.CmpWrapper_slice_i64.const_eq 3 [5, 9223372036854775807] [5, -9223372036854775808] = .ok false := by decide
example : Extracted.CmpWrapper_slice_i64.const_cmp 3 [5, 9223372036854775807] [5, -9223372036854775808] = .ok .gt := by decide
example : Extracted.eq_option_slice_i64 3 (some [5, 9223372036854775807]) (some [5, 9223372036854775807]) = .ok true := by decide
example : Extracted.eq_option_slice_i64 0 (some [5, 9223372036854775807]) none = .ok false := by decide
example : Extracted.cmp_option_slice_i64 3 (some [5, 9223372036854775807]) (some [5, -9223372036854775808]) = .ok .gt := by decide
example : Extracted.cmp_option_slice_i64 0 none (some [5, -9223372036854775808]) = .ok .lt := by decide

/-! #### `&[i128]` -/

theorem CmpWrapper_slice_i128_const_eq_eq (fuel : Nat) (self other : List Int)
    (hb : min self.length other.length < 2 ^ 64) (hf : min self.length other.length + 1 ≤ fuel) :
    ∃ b, eqSlice self other = some b ∧
      Extracted.CmpWrapper_slice_i128.const_eq fuel self other = .ok b :=
  cmp6_wrap_eq (eq_slice_i128_eq fuel self other hb hf)

theorem CmpWrapper_slice_i128_const_cmp_eq (fuel : Nat) (self other : List Int)
    (hb : min self.length other.length < 2 ^ 64) (hf : min self.length other.length + 1 ≤ fuel) :
    ∃ c, cmpSlice self other = some c ∧
      Extracted.CmpWrapper_slice_i128.const_cmp fuel self other = .ok c :=
  cmp6_wrap_eq (cmp_slice_i128_eq fuel self other hb hf)

theorem eq_option_slice_i128_eq (fuel : Nat) (left right : Option (List Int))
    (hb : ∀ l r, left = some l → right = some r → min l.length r.length < 2 ^ 64)
    (hf : ∀ l r, left = some l → right = some r → min l.length r.length + 1 ≤ fuel) :
    ∃ b, eqOption eqSlice left right = some b ∧
      Extracted.eq_option_slice_i128 fuel left right = .ok b := by
  rw [eq_option_slice_i128_fn]
  exact cmp6_eqOptFn_eq_id eqSlice _ left right
    (fun l r hl hr => CmpWrapper_slice_i128_const_eq_eq fuel l r (hb l r hl hr) (hf l r hl hr))

theorem cmp_option_slice_i128_eq (fuel : Nat) (left right : Option (List Int))
    (hb : ∀ l r, left = some l → right = some r → min l.length r.length < 2 ^ 64)
    (hf : ∀ l r, left = some l → right = some r → min l.length r.length + 1 ≤ fuel) :
    ∃ c, cmpOption cmpSlice left right = some c ∧
      Extracted.cmp_option_slice_i128 fuel left right = .ok c := by
  rw [cmp_option_slice_i128_fn]
  exact cmp6_cmpOptFn_eq_id cmpSlice _ left right
    (fun l r hl hr => CmpWrapper_slice_i128_const_cmp_eq fuel l r (hb l r hl hr) (hf l r hl hr))

example : ∃ c, cmpOption cmpSlice (some [-3, -170141183460469231731687303715884105728]) (some [-3, 170141183460469231731687303715884105727]) = some c ∧
    Extracted.cmp_option_slice_i128 3 (some [-3, -170141183460469231731687303715884105728]) (some [-3, 170141183460469231731687303715884105727]) = .ok c :=
  cmp_option_slice_i128_eq 3 (some [-3, -170141183460469231731687303715884105728]) (some [-3, 170141183460469231731687303715884105727])
    (by intro l r hl hr; cases hl; cases hr; decide) (by intro l r hl hr; cases hl; cases hr; decide)
example : Extracted.CmpWrapper_slice_i128.const_eq 3 [-3, -170141183460469231731687303715884105728] [-3, 170141183460469231731687303715884105727] = .ok false := by decide
example : Extracted.CmpWrapper_slice_i128.const_cmp 3 [-3, -170141183460469231731687303715884105728] [-3, 170141183460469231731687303715884105727] = .ok .lt := by decide
example : Extracted.eq_option_slice_i128 3 (some [-3, -170141183460469231731687303715884105728]) (some [-3, -170141183460469231731687303715884105728]) = .ok true := by decide
example : Extracted.eq_option_slice_i128 0 (some [-3, -170141183460469231731687303715884105728]) none = .ok false := by decide
example : Extracted.cmp_option_slice_i128 3 (some [-3, -170141183460469231731687303715884105728]) (some [-3, 170141183460469231731687303715884105727]) = .ok .lt := by decide
example : Extracted.cmp_option_slice_i128 0 none (some [-3, 170141183460469231731687303715884105727]) = .ok .lt := by decide

/-! #### `&[isize]` -/

theorem CmpWrapper_slice_isize_const_eq_eq (fuel : Nat) (self other : List Int)
    (hb : min self.length other.length < 2 ^ 64) (hf : min self.length other.length + 1 ≤ fuel) :
    ∃ b, eqSlice self other = some b ∧
      Extracted.CmpWrapper_slice_isize.const_eq fuel self other = .ok b :=
  cmp6_wrap_eq (eq_slice_isize_eq fuel self other hb hf)

theorem CmpWrapper_slice_isize_const_cmp_eq (fuel : Nat) (self other : List Int)
    (hb : min self.length other.length < 2 ^ 64) (hf : min self.length other.length + 1 ≤ fuel) :
    ∃ c, cmpSlice self other = some c ∧
      Extracted.CmpWrapper_slice_isize.const_cmp fuel self other = .ok c :=
  cmp6_wrap_eq (cmp_slice_isize_eq fuel self other hb hf)

theorem eq_option_slice_isize_eq (fuel : Nat) (left right : Option (List Int))
    (hb : ∀ l r, left = some l → right = some r → min l.length r.length < 2 ^ 64)
    (hf : ∀ l r, left = some l → right = some r → min l.length r.length + 1 ≤ fuel) :
    ∃ b, eqOption eqSlice left right = some b ∧
      Extracted.eq_option_slice_isize fuel left right = .ok b := by
  rw [eq_option_slice_isize_fn]
  exact cmp6_eqOptFn_eq_id eqSlice _ left right
    (fun l r hl hr => CmpWrapper_slice_isize_const_eq_eq fuel l r (hb l r hl hr) (hf l r hl hr))

theorem cmp_option_slice_isize_eq (fuel : Nat) (left right : Option (List Int))
    (hb : ∀ l r, left = some l → right = some r → min l.length r.length < 2 ^ 64)
    (hf : ∀ l r, left = some l → right = some r → min l.length r.length + 1 ≤ fuel) :
    ∃ c, cmpOption cmpSlice left right = some c ∧
      Extracted.cmp_option_slice_isize fuel left right = .ok c := by
  rw [cmp_option_slice_isize_fn]
  exact cmp6_cmpOptFn_eq_id cmpSlice _ left right
    (fun l r hl hr => CmpWrapper_slice_isize_const_cmp_eq fuel l r (hb l r hl hr) (hf l r hl hr))

example : ∃ c, cmpOption cmpSlice (some [1, 9223372036854775807]) (some [1, -9223372036854775808]) = some c ∧
    Extracted.cmp_option_slice_isize 3 (some [1, 9223372036854775807]) (some [1, -9223372036854775808]) = .ok c :=
  cmp_option_slice_isize_eq 3 (some [1, 9223372036854775807]) (some [1, -9223372036854775808])
    (by intro l r hl hr; cases hl; cases hr; decide) (by intro l r hl hr; cases hl; cases hr; decide)
example : Extracted.CmpWrapper_slice_isize.const_eq 3 [1, 9223372036854775807] [1, -9223372036854775808] = .ok false := by decide
example : Extracted.CmpWrapper_slice_isize.const_cmp 3 [1, 9223372036854775807] [1, -9223372036854775808] = .ok .gt := by decide
example : Extracted.eq_option_slice_isize 3 (some [1, 9223372036854775807]) (some [1, 9223372036854775807]) = .ok true := by decide
example : Extracted.eq_option_slice_isize 0 (some [1, 9223372036854775807]) none = .ok false := by decide
example : Extracted.cmp_option_slice_isize 3 (some [1, 9223372036854775807]) (some [1, -9223372036854775808]) = .ok .gt := by decide
example : Extracted.cmp_option_slice_isize 0 none (some [1, -9223372036854775808]) = .ok .lt := by decide

/-! #### `&[bool]` -/

theorem CmpWrapper_slice_bool_const_eq_eq (fuel : Nat) (self other : List Bool)
    (hb : min self.length other.length < 2 ^ 64) (hf : min self.length other.length + 1 ≤ fuel) :
    ∃ b, eqSlice (self.map boolInt) (other.map boolInt) = some b ∧
      Extracted.CmpWrapper_slice_bool.const_eq fuel self other = .ok b :=
  cmp6_wrap_eq (eq_slice_bool_eq fuel self other hb hf)

theorem CmpWrapper_slice_bool_const_cmp_eq (fuel : Nat) (self other : List Bool)
    (hb : min self.length other.length < 2 ^ 64) (hf : min self.length other.length + 1 ≤ fuel) :
    ∃ c, cmpSlice (self.map boolInt) (other.map boolInt) = some c ∧
      Extracted.CmpWrapper_slice_bool.const_cmp fuel self other = .ok c :=
  cmp6_wrap_eq (cmp_slice_bool_eq fuel self other hb hf)

theorem eq_option_slice_bool_eq (fuel : Nat) (left right : Option (List Bool))
    (hb : ∀ l r, left = some l → right = some r → min l.length r.length < 2 ^ 64)
    (hf : ∀ l r, left = some l → right = some r → min l.length r.length + 1 ≤ fuel) :
    ∃ b, eqOption eqSlice (left.map (List.map boolInt)) (right.map (List.map boolInt)) = some b ∧
      Extracted.eq_option_slice_bool fuel left right = .ok b := by
  rw [eq_option_slice_bool_fn]
  exact cmp6_eqOptFn_eq (List.map boolInt) eqSlice _ left right
    (fun l r hl hr => CmpWrapper_slice_bool_const_eq_eq fuel l r (hb l r hl hr) (hf l r hl hr))

theorem cmp_option_slice_bool_eq (fuel : Nat) (left right : Option (List Bool))
    (hb : ∀ l r, left = some l → right = some r → min l.length r.length < 2 ^ 64)
    (hf : ∀ l r, left = some l → right = some r → min l.length r.length + 1 ≤ fuel) :
    ∃ c, cmpOption cmpSlice (left.map (List.map boolInt)) (right.map (List.map boolInt)) = some c ∧
      Extracted.cmp_option_slice_bool fuel left right = .ok c := by
  rw [cmp_option_slice_bool_fn]
  exact cmp6_cmpOptFn_eq (List.map boolInt) cmpSlice _ left right
    (fun l r hl hr => CmpWrapper_slice_bool_const_cmp_eq fuel l r (hb l r hl hr) (hf l r hl hr))

example : ∃ c, cmpOption cmpSlice (some [1, 0]) (some [1, 1]) = some c ∧
    Extracted.cmp_option_slice_bool 3 (some [true, false]) (some [true, true]) = .ok c :=
  cmp_option_slice_bool_eq 3 (some [true, false]) (some [true, true])
    (by intro l r hl hr; cases hl; cases hr; decide) (by intro l r hl hr; cases hl; cases hr; decide)
example : Extracted.CmpWrapper_slice_bool.const_eq 3 [true, false] [true, true] = .ok false := by decide
example : Extracted.CmpWrapper_slice_bool.const_cmp 3 [true, false] [true, true] = .ok .lt := by decide
example : Extracted.eq_option_slice_bool 3 (some [true, false]) (some [true, false]) = .ok true := by decide
example : Extracted.eq_option_slice_bool 0 (some [true, false]) none = .ok false := by decide
example : Extracted.cmp_option_slice_bool 3 (some [true, false]) (some [true, true]) = .ok .lt := by decide
example : Extracted.cmp_option_slice_bool 0 none (some [true, true]) = .ok .lt := by decide

/-! #### `&[char]` -/

theorem CmpWrapper_slice_char_const_eq_eq (fuel : Nat) (self other : List Nat)
    (hb : min self.length other.length < 2 ^ 64) (hf : min self.length other.length + 1 ≤ fuel) :
    ∃ b, eqSlice (self.map Int.ofNat) (other.map Int.ofNat) = some b ∧
      Extracted.CmpWrapper_slice_char.const_eq fuel self other = .ok b :=
  cmp6_wrap_eq (eq_slice_char_eq fuel self other hb hf)

theorem CmpWrapper_slice_char_const_cmp_eq (fuel : Nat) (self other : List Nat)
    (hb : min self.length other.length < 2 ^ 64) (hf : min self.length other.length + 1 ≤ fuel) :
    ∃ c, cmpSlice (self.map Int.ofNat) (other.map Int.ofNat) = some c ∧
      Extracted.CmpWrapper_slice_char.const_cmp fuel self other = .ok c :=
  cmp6_wrap_eq (cmp_slice_char_eq fuel self other hb hf)

theorem eq_option_slice_char_eq (fuel : Nat) (left right : Option (List Nat))
    (hb : ∀ l r, left = some l → right = some r → min l.length r.length < 2 ^ 64)
    (hf : ∀ l r, left = some l → right = some r → min l.length r.length + 1 ≤ fuel) :
    ∃ b, eqOption eqSlice (left.map (List.map Int.ofNat)) (right.map (List.map Int.ofNat)) = some b ∧
      Extracted.eq_option_slice_char fuel left right = .ok b := by
  rw [eq_option_slice_char_fn]
  exact cmp6_eqOptFn_eq (List.map Int.ofNat) eqSlice _ left right
    (fun l r hl hr => CmpWrapper_slice_char_const_eq_eq fuel l r (hb l r hl hr) (hf l r hl hr))

theorem cmp_option_slice_char_eq (fuel : Nat) (left right : Option (List Nat))
    (hb : ∀ l r, left = some l → right = some r → min l.length r.length < 2 ^ 64)
    (hf : ∀ l r, left = some l → right = some r → min l.length r.length + 1 ≤ fuel) :
    ∃ c, cmpOption cmpSlice (left.map (List.map Int.ofNat)) (right.map (List.map Int.ofNat)) = some c ∧
      Extracted.cmp_option_slice_char fuel left right = .ok c := by
  rw [cmp_option_slice_char_fn]
  exact cmp6_cmpOptFn_eq (List.map Int.ofNat) cmpSlice _ left right
    (fun l r hl hr => CmpWrapper_slice_char_const_cmp_eq fuel l r (hb l r hl hr) (hf l r hl hr))

example : ∃ c, cmpOption cmpSlice (some [0x10FFFF, 0xE000]) (some [0x10FFFF, 0x61]) = some c ∧
    Extracted.cmp_option_slice_char 3 (some [0x10FFFF, 0xE000]) (some [0x10FFFF, 0x61]) = .ok c :=
  cmp_option_slice_char_eq 3 (some [0x10FFFF, 0xE000]) (some [0x10FFFF, 0x61])
    (by intro l r hl hr; cases hl; cases hr; decide) (by intro l r hl hr; cases hl; cases hr; decide)
example : Extracted.CmpWrapper_slice_char.const_eq 3 [0x10FFFF, 0xE000] [0x10FFFF, 0x61] = .ok false := by decide
example : Extracted.CmpWrapper_slice_char.const_cmp 3 [0x10FFFF, 0xE000] [0x10FFFF, 0x61] = .ok .gt := by decide
example : Extracted.eq_option_slice_char 3 (some [0x10FFFF, 0xE000]) (some [0x10FFFF, 0xE000]) = .ok true := by decide
example : Extracted.eq_option_slice_char 0 (some [0x10FFFF, 0xE000]) none = .ok false := by decide
example : Extracted.cmp_option_slice_char 3 (some [0x10FFFF, 0xE000]) (some [0x10FFFF, 0x61]) = .ok .gt := by decide
example : Extracted.cmp_option_slice_char 0 none (some [0x10FFFF, 0x61]) = .ok .lt := by decide

/-! ### `Option<&str>`: the `(Some(l), Some(r))` arm runs the loops of `eq_str` / `cmp_str` through
  `CmpWrapper<&str>::const_eq / const_cmp` (group `ProbesMisc`: `CmpWrapper_str_const_eq_model`, `…_const_cmp_model`) -/

theorem eq_option_str_eq (fuel : Nat) (left right : Option (List Nat))
    (hb : ∀ l r, left = some l → right = some r → min l.length r.length < 2 ^ 64)
    (hf : ∀ l r, left = some l → right = some r → min l.length r.length + 1 ≤ fuel) :
    ∃ b, eqOption eqStr (left.map (List.map Int.ofNat)) (right.map (List.map Int.ofNat)) = some b ∧
      Extracted.eq_option_str fuel left right = .ok b := by
  rw [eq_option_str_fn]
  exact cmp6_eqOptFn_eq (List.map Int.ofNat) eqStr _ left right
    (fun l r hl hr => CmpWrapper_str_const_eq_model fuel l r (hb l r hl hr) (hf l r hl hr))

theorem cmp_option_str_eq (fuel : Nat) (left right : Option (List Nat))
    (hb : ∀ l r, left = some l → right = some r → min l.length r.length < 2 ^ 64)
    (hf : ∀ l r, left = some l → right = some r → min l.length r.length + 1 ≤ fuel) :
    ∃ c, cmpOption cmpStr (left.map (List.map Int.ofNat)) (right.map (List.map Int.ofNat)) = some c ∧
      Extracted.cmp_option_str fuel left right = .ok c := by
  rw [cmp_option_str_fn]
  exact cmp6_cmpOptFn_eq (List.map Int.ofNat) cmpStr _ left right
    (fun l r hl hr => CmpWrapper_str_const_cmp_model fuel l r (hb l r hl hr) (hf l r hl hr))

example : ∃ c, cmpOption cmpStr (some [104, 105, 33]) (some [104, 105]) = some c ∧
    Extracted.cmp_option_str 3 (some [104, 105, 33]) (some [104, 105]) = .ok c :=
  cmp_option_str_eq 3 (some [104, 105, 33]) (some [104, 105])
    (by intro l r hl hr; cases hl; cases hr; decide) (by intro l r hl hr; cases hl; cases hr; decide)
example : Extracted.eq_option_str 3 (some [104, 105]) (some [104, 105]) = .ok true := by decide
example : Extracted.eq_option_str 3 (some [104, 105]) (some [104, 106]) = .ok false := by decide
example : Extracted.eq_option_str 0 none none = .ok true := by decide
example : Extracted.cmp_option_str 3 (some [104, 105, 33]) (some [104, 105]) = .ok .gt := by decide
example : Extracted.cmp_option_str 0 (some []) none = .ok .gt := by decide

/-! ### `&[&str]` and `&[&[u8]]`: `const_eq_for!(slice; …)` / `const_cmp_for!(slice; …)` over the element comparison

  A `&str` is its UTF-8 bytes; both element types are `List Nat`, handed to the model as `List Int` through
  `List.map Int.ofNat`.  `hb`/`hf`: the outer slices (`hb` only for the `eq` functions, whose loop has a counter);
  `hbe`/`hfe`: the hypotheses of the element comparison (`eq_str_eq`, `cmp_str_eq`, `eq_bytes_eq`, `cmp_bytes_eq`) for
  the pairs of elements at the same index. -/

/-! #### `&[&str]` -/

theorem eq_slice_str_eq (fuel : Nat) (l r : List (List Nat))
    (hb : min l.length r.length < 2 ^ 64) (hf : min l.length r.length + 1 ≤ fuel)
    (hbe : ∀ p ∈ l.zip r, min p.1.length p.2.length < 2 ^ 64)
    (hfe : ∀ p ∈ l.zip r, min p.1.length p.2.length + 1 ≤ fuel) :
    ∃ b, eqSliceStr (l.map (List.map Int.ofNat)) (r.map (List.map Int.ofNat)) = some b ∧
      Extracted.eq_slice_str fuel l r = .ok b := by
  rw [eq_slice_str_fn]
  exact cmp6_eqForFn_eq (List.map Int.ofNat) eqStr _ fuel l r hb hf
    (fun p hp => eq_str_eq fuel p.1 p.2 (hbe p hp) (hfe p hp))

theorem cmp_slice_str_eq (fuel : Nat) (l r : List (List Nat))
    (hf : min l.length r.length + 1 ≤ fuel)
    (hbe : ∀ p ∈ l.zip r, min p.1.length p.2.length < 2 ^ 64)
    (hfe : ∀ p ∈ l.zip r, min p.1.length p.2.length + 1 ≤ fuel) :
    ∃ c, cmpSliceStr (l.map (List.map Int.ofNat)) (r.map (List.map Int.ofNat)) = some c ∧
      Extracted.cmp_slice_str fuel l r = .ok c := by
  rw [cmp_slice_str_fn]
  exact cmp6_cmpForFn_eq (List.map Int.ofNat) cmpStr _ fuel l r hf
    (fun p hp => cmp_str_eq fuel p.1 p.2 (hbe p hp) (hfe p hp))

theorem CmpWrapper_slice_str_const_eq_eq (fuel : Nat) (l r : List (List Nat))
    (hb : min l.length r.length < 2 ^ 64) (hf : min l.length r.length + 1 ≤ fuel)
    (hbe : ∀ p ∈ l.zip r, min p.1.length p.2.length < 2 ^ 64)
    (hfe : ∀ p ∈ l.zip r, min p.1.length p.2.length + 1 ≤ fuel) :
    ∃ b, eqSliceStr (l.map (List.map Int.ofNat)) (r.map (List.map Int.ofNat)) = some b ∧
      Extracted.CmpWrapper_slice_str.const_eq fuel l r = .ok b :=
  cmp6_wrap_eq (eq_slice_str_eq fuel l r hb hf hbe hfe)

theorem CmpWrapper_slice_str_const_cmp_eq (fuel : Nat) (l r : List (List Nat))
    (hf : min l.length r.length + 1 ≤ fuel)
    (hbe : ∀ p ∈ l.zip r, min p.1.length p.2.length < 2 ^ 64)
    (hfe : ∀ p ∈ l.zip r, min p.1.length p.2.length + 1 ≤ fuel) :
    ∃ c, cmpSliceStr (l.map (List.map Int.ofNat)) (r.map (List.map Int.ofNat)) = some c ∧
      Extracted.CmpWrapper_slice_str.const_cmp fuel l r = .ok c :=
  cmp6_wrap_eq (cmp_slice_str_eq fuel l r hf hbe hfe)

theorem eq_option_slice_str_eq (fuel : Nat) (left right : Option (List (List Nat)))
    (hb : ∀ l r, left = some l → right = some r → min l.length r.length < 2 ^ 64)
    (hf : ∀ l r, left = some l → right = some r → min l.length r.length + 1 ≤ fuel)
    (hbe : ∀ l r, left = some l → right = some r → ∀ p ∈ l.zip r, min p.1.length p.2.length < 2 ^ 64)
    (hfe : ∀ l r, left = some l → right = some r → ∀ p ∈ l.zip r, min p.1.length p.2.length + 1 ≤ fuel) :
    ∃ b, eqOption eqSliceStr (left.map (List.map (List.map Int.ofNat))) (right.map (List.map (List.map Int.ofNat))) = some b ∧
      Extracted.eq_option_slice_str fuel left right = .ok b := by
  rw [eq_option_slice_str_fn]
  exact cmp6_eqOptFn_eq (List.map (List.map Int.ofNat)) eqSliceStr _ left right
    (fun l r hl hr => CmpWrapper_slice_str_const_eq_eq fuel l r (hb l r hl hr) (hf l r hl hr)
      (hbe l r hl hr) (hfe l r hl hr))

theorem cmp_option_slice_str_eq (fuel : Nat) (left right : Option (List (List Nat)))
    (hf : ∀ l r, left = some l → right = some r → min l.length r.length + 1 ≤ fuel)
    (hbe : ∀ l r, left = some l → right = some r → ∀ p ∈ l.zip r, min p.1.length p.2.length < 2 ^ 64)
    (hfe : ∀ l r, left = some l → right = some r → ∀ p ∈ l.zip r, min p.1.length p.2.length + 1 ≤ fuel) :
    ∃ c, cmpOption cmpSliceStr (left.map (List.map (List.map Int.ofNat))) (right.map (List.map (List.map Int.ofNat))) = some c ∧
      Extracted.cmp_option_slice_str fuel left right = .ok c := by
  rw [cmp_option_slice_str_fn]
  exact cmp6_cmpOptFn_eq (List.map (List.map Int.ofNat)) cmpSliceStr _ left right
    (fun l r hl hr => CmpWrapper_slice_str_const_cmp_eq fuel l r (hf l r hl hr) (hbe l r hl hr) (hfe l r hl hr))

example : ∃ b, eqSliceStr [[104, 105], [33]] [[104, 105], [34]] = some b ∧
    Extracted.eq_slice_str 3 [[104, 105], [33]] [[104, 105], [34]] = .ok b :=
  eq_slice_str_eq 3 [[104, 105], [33]] [[104, 105], [34]] (by decide) (by decide) (by decide) (by decide)
example : ∃ c, cmpSliceStr [[104, 105], [33, 1]] [[104, 105], [33]] = some c ∧
    Extracted.cmp_slice_str 3 [[104, 105], [33, 1]] [[104, 105], [33]] = .ok c :=
  cmp_slice_str_eq 3 [[104, 105], [33, 1]] [[104, 105], [33]] (by decide) (by decide) (by decide)
example : ∃ c, cmpOption cmpSliceStr (some [[104, 105], [33, 1]]) (some [[104, 105], [33]]) = some c ∧
    Extracted.cmp_option_slice_str 3 (some [[104, 105], [33, 1]]) (some [[104, 105], [33]]) = .ok c :=
  cmp_option_slice_str_eq 3 (some [[104, 105], [33, 1]]) (some [[104, 105], [33]])
    (by intro l r hl hr; cases hl; cases hr; decide) (by intro l r hl hr; cases hl; cases hr; decide)
    (by intro l r hl hr; cases hl; cases hr; decide)
example : ∃ b, eqOption eqSliceStr (some [[104, 105], [33]]) (some [[104, 105], [34]]) = some b ∧
    Extracted.eq_option_slice_str 3 (some [[104, 105], [33]]) (some [[104, 105], [34]]) = .ok b :=
  eq_option_slice_str_eq 3 (some [[104, 105], [33]]) (some [[104, 105], [34]])
    (by intro l r hl hr; cases hl; cases hr; decide) (by intro l r hl hr; cases hl; cases hr; decide)
    (by intro l r hl hr; cases hl; cases hr; decide) (by intro l r hl hr; cases hl; cases hr; decide)
example : Extracted.eq_slice_str 3 [[104, 105], [33]] [[104, 105], [34]] = .ok false := by decide
example : Extracted.eq_slice_str 3 [[104, 105], [33]] [[104, 105], [33]] = .ok true := by decide
example : Extracted.eq_slice_str 0 [[104, 105], [33]] [[104, 105]] = .ok false := by decide
example : Extracted.cmp_slice_str 3 [[104, 105], [33, 1]] [[104, 105], [33]] = .ok .gt := by decide
example : Extracted.cmp_slice_str 3 [[104, 105]] [[104, 105], []] = .ok .lt := by decide
example : Extracted.cmp_slice_str 3 [[104], [7]] [[104], [7]] = .ok .eq := by decide
example : Extracted.CmpWrapper_slice_str.const_eq 3 [[1], [2]] [[1], [2]] = .ok true := by decide
example : Extracted.CmpWrapper_slice_str.const_cmp 3 [[1], [2]] [[1], [3]] = .ok .lt := by decide
example : Extracted.eq_option_slice_str 3 (some [[1], [2]]) (some [[1], [2]]) = .ok true := by decide
example : Extracted.eq_option_slice_str 0 none (some []) = .ok false := by decide
example : Extracted.cmp_option_slice_str 3 (some [[1], [2]]) (some [[1], [3]]) = .ok .lt := by decide
example : Extracted.cmp_option_slice_str 0 (some []) none = .ok .gt := by decide

/-! #### `&[&[u8]]` -/

theorem eq_slice_bytes_eq (fuel : Nat) (l r : List (List Nat))
    (hb : min l.length r.length < 2 ^ 64) (hf : min l.length r.length + 1 ≤ fuel)
    (hbe : ∀ p ∈ l.zip r, min p.1.length p.2.length < 2 ^ 64)
    (hfe : ∀ p ∈ l.zip r, min p.1.length p.2.length + 1 ≤ fuel) :
    ∃ b, eqSliceBytes (l.map (List.map Int.ofNat)) (r.map (List.map Int.ofNat)) = some b ∧
      Extracted.eq_slice_bytes fuel l r = .ok b := by
  rw [eq_slice_bytes_fn]
  exact cmp6_eqForFn_eq (List.map Int.ofNat) eqSlice _ fuel l r hb hf
    (fun p hp => eq_bytes_eq fuel p.1 p.2 (hbe p hp) (hfe p hp))

theorem cmp_slice_bytes_eq (fuel : Nat) (l r : List (List Nat))
    (hf : min l.length r.length + 1 ≤ fuel)
    (hbe : ∀ p ∈ l.zip r, min p.1.length p.2.length < 2 ^ 64)
    (hfe : ∀ p ∈ l.zip r, min p.1.length p.2.length + 1 ≤ fuel) :
    ∃ c, cmpSliceBytes (l.map (List.map Int.ofNat)) (r.map (List.map Int.ofNat)) = some c ∧
      Extracted.cmp_slice_bytes fuel l r = .ok c := by
  rw [cmp_slice_bytes_fn]
  exact cmp6_cmpForFn_eq (List.map Int.ofNat) cmpSlice _ fuel l r hf
    (fun p hp => cmp_bytes_eq fuel p.1 p.2 (hbe p hp) (hfe p hp))

theorem CmpWrapper_slice_bytes_const_eq_eq (fuel : Nat) (l r : List (List Nat))
    (hb : min l.length r.length < 2 ^ 64) (hf : min l.length r.length + 1 ≤ fuel)
    (hbe : ∀ p ∈ l.zip r, min p.1.length p.2.length < 2 ^ 64)
    (hfe : ∀ p ∈ l.zip r, min p.1.length p.2.length + 1 ≤ fuel) :
    ∃ b, eqSliceBytes (l.map (List.map Int.ofNat)) (r.map (List.map Int.ofNat)) = some b ∧
      Extracted.CmpWrapper_slice_bytes.const_eq fuel l r = .ok b :=
  cmp6_wrap_eq (eq_slice_bytes_eq fuel l r hb hf hbe hfe)

theorem CmpWrapper_slice_bytes_const_cmp_eq (fuel : Nat) (l r : List (List Nat))
    (hf : min l.length r.length + 1 ≤ fuel)
    (hbe : ∀ p ∈ l.zip r, min p.1.length p.2.length < 2 ^ 64)
    (hfe : ∀ p ∈ l.zip r, min p.1.length p.2.length + 1 ≤ fuel) :
    ∃ c, cmpSliceBytes (l.map (List.map Int.ofNat)) (r.map (List.map Int.ofNat)) = some c ∧
      Extracted.CmpWrapper_slice_bytes.const_cmp fuel l r = .ok c :=
  cmp6_wrap_eq (cmp_slice_bytes_eq fuel l r hf hbe hfe)

theorem eq_option_slice_bytes_eq (fuel : Nat) (left right : Option (List (List Nat)))
    (hb : ∀ l r, left = some l → right = some r → min l.length r.length < 2 ^ 64)
    (hf : ∀ l r, left = some l → right = some r → min l.length r.length + 1 ≤ fuel)
    (hbe : ∀ l r, left = some l → right = some r → ∀ p ∈ l.zip r, min p.1.length p.2.length < 2 ^ 64)
    (hfe : ∀ l r, left = some l → right = some r → ∀ p ∈ l.zip r, min p.1.length p.2.length + 1 ≤ fuel) :
    ∃ b, eqOption eqSliceBytes (left.map (List.map (List.map Int.ofNat))) (right.map (List.map (List.map Int.ofNat))) = some b ∧
      Extracted.eq_option_slice_bytes fuel left right = .ok b := by
  rw [eq_option_slice_bytes_fn]
  exact cmp6_eqOptFn_eq (List.map (List.map Int.ofNat)) eqSliceBytes _ left right
    (fun l r hl hr => CmpWrapper_slice_bytes_const_eq_eq fuel l r (hb l r hl hr) (hf l r hl hr)
      (hbe l r hl hr) (hfe l r hl hr))

theorem cmp_option_slice_bytes_eq (fuel : Nat) (left right : Option (List (List Nat)))
    (hf : ∀ l r, left = some l → right = some r → min l.length r.length + 1 ≤ fuel)
    (hbe : ∀ l r, left = some l → right = some r → ∀ p ∈ l.zip r, min p.1.length p.2.length < 2 ^ 64)
    (hfe : ∀ l r, left = some l → right = some r → ∀ p ∈ l.zip r, min p.1.length p.2.length + 1 ≤ fuel) :
    ∃ c, cmpOption cmpSliceBytes (left.map (List.map (List.map Int.ofNat))) (right.map (List.map (List.map Int.ofNat))) = some c ∧
      Extracted.cmp_option_slice_bytes fuel left right = .ok c := by
  rw [cmp_option_slice_bytes_fn]
  exact cmp6_cmpOptFn_eq (List.map (List.map Int.ofNat)) cmpSliceBytes _ left right
    (fun l r hl hr => CmpWrapper_slice_bytes_const_cmp_eq fuel l r (hf l r hl hr) (hbe l r hl hr) (hfe l r hl hr))

example : ∃ b, eqSliceBytes [[104, 105], [33]] [[104, 105], [34]] = some b ∧
    Extracted.eq_slice_bytes 3 [[104, 105], [33]] [[104, 105], [34]] = .ok b :=
  eq_slice_bytes_eq 3 [[104, 105], [33]] [[104, 105], [34]] (by decide) (by decide) (by decide) (by decide)
example : ∃ c, cmpSliceBytes [[104, 105], [33, 1]] [[104, 105], [33]] = some c ∧
    Extracted.cmp_slice_bytes 3 [[104, 105], [33, 1]] [[104, 105], [33]] = .ok c :=
  cmp_slice_bytes_eq 3 [[104, 105], [33, 1]] [[104, 105], [33]] (by decide) (by decide) (by decide)
example : ∃ c, cmpOption cmpSliceBytes (some [[104, 105], [33, 1]]) (some [[104, 105], [33]]) = some c ∧
    Extracted.cmp_option_slice_bytes 3 (some [[104, 105], [33, 1]]) (some [[104, 105], [33]]) = .ok c :=
  cmp_option_slice_bytes_eq 3 (some [[104, 105], [33, 1]]) (some [[104, 105], [33]])
    (by intro l r hl hr; cases hl; cases hr; decide) (by intro l r hl hr; cases hl; cases hr; decide)
    (by intro l r hl hr; cases hl; cases hr; decide)
example : ∃ b, eqOption eqSliceBytes (some [[104, 105], [33]]) (some [[104, 105], [34]]) = some b ∧
    Extracted.eq_option_slice_bytes 3 (some [[104, 105], [33]]) (some [[104, 105], [34]]) = .ok b :=
  eq_option_slice_bytes_eq 3 (some [[104, 105], [33]]) (some [[104, 105], [34]])
    (by intro l r hl hr; cases hl; cases hr; decide) (by intro l r hl hr; cases hl; cases hr; decide)
    (by intro l r hl hr; cases hl; cases hr; decide) (by intro l r hl hr; cases hl; cases hr; decide)
example : Extracted.eq_slice_bytes 3 [[104, 105], [33]] [[104, 105], [34]] = .ok false := by decide
example : Extracted.eq_slice_bytes 3 [[104, 105], [33]] [[104, 105], [33]] = .ok true := by decide
example : Extracted.eq_slice_bytes 0 [[104, 105], [33]] [[104, 105]] = .ok false := by decide
example : Extracted.cmp_slice_bytes 3 [[104, 105], [33, 1]] [[104, 105], [33]] = .ok .gt := by decide
example : Extracted.cmp_slice_bytes 3 [[104, 105]] [[104, 105], []] = .ok .lt := by decide
example : Extracted.cmp_slice_bytes 3 [[104], [7]] [[104], [7]] = .ok .eq := by decide
example : Extracted.CmpWrapper_slice_bytes.const_eq 3 [[1], [2]] [[1], [2]] = .ok true := by decide
example : Extracted.CmpWrapper_slice_bytes.const_cmp 3 [[1], [2]] [[1], [3]] = .ok .lt := by decide
example : Extracted.eq_option_slice_bytes 3 (some [[1], [2]]) (some [[1], [2]]) = .ok true := by decide
example : Extracted.eq_option_slice_bytes 0 none (some []) = .ok false := by decide
example : Extracted.cmp_option_slice_bytes 3 (some [[1], [2]]) (some [[1], [3]]) = .ok .lt := by decide
example : Extracted.cmp_option_slice_bytes 0 (some []) none = .ok .gt := by decide

end Extracted.Equiv
