import KonstVerif.Extracted.Equiv.Bytes
/-
  Extracted (regenerated from /repo) = Model, second part of the byte-slice search functions (C04/C05):
  strip_suffix / end_with, rfind, contain / rcontain, find_skip / find_keep / rfind_skip / rfind_keep.
-/
namespace Extracted.Equiv
open Rs Konst Konst.Bytes

/-! ### `__bytes_strip_suffix`, `__bytes_end_with` -/

/-- the loop of `__bytes_strip_suffix`, from any state, with enough fuel
    (`n` = fuel of the extracted loop, `m` = fuel of the model's loop) -/
theorem strip_suffix_loop (n m : Nat) (left suf : List Nat)
    (hn : suf.length + 1 ≤ n) (hm : suf.length + 1 ≤ m) :
    (stripSuffixLoop m left suf = none →
        Rs.loop n Extracted.bytes_strip_suffix.loop1 (left, suf) = Ctl.exit none) ∧
    (∀ r, stripSuffixLoop m left suf = some r →
        ∃ q, Rs.loop n Extracted.bytes_strip_suffix.loop1 (left, suf) = Ctl.val (r, q)) := by
  induction n generalizing left suf m with
  | zero => omega
  | succ n ih =>
    cases m with
    | zero => omega
    | succ m =>
      rw [Rs.loop_succ]
      cases hl : left.getLast? with
      | none => simp [Extracted.bytes_strip_suffix.loop1, stripSuffixLoop, Rs.unsnoc, hl]
      | some lb =>
        cases hs : suf.getLast? with
        | none => simp [Extracted.bytes_strip_suffix.loop1, stripSuffixLoop, Rs.unsnoc, hl, hs]
        | some rb =>
          have hne : suf ≠ [] := by
            intro h
            simp [h] at hs
          have hpos : 0 < suf.length := List.length_pos_iff.mpr hne
          have ih' := ih (m := m) left.dropLast suf.dropLast
            (by simp [List.length_dropLast]; omega) (by simp [List.length_dropLast]; omega)
          simp only [stripSuffixLoop, hl, hs]
          by_cases h : lb = rb
          · subst h
            simpa [Extracted.bytes_strip_suffix.loop1, Rs.unsnoc, hl, hs] using ih'
          · simp [Extracted.bytes_strip_suffix.loop1, Rs.unsnoc, hl, hs, h]

theorem bytes_strip_suffix_eq (fuel : Nat) (left suf : List Nat) (hf : suf.length + 1 ≤ fuel) :
    Extracted.bytes_strip_suffix fuel left suf = .ok (stripSuffixL left suf) := by
  unfold Extracted.bytes_strip_suffix stripSuffixL
  by_cases hlen : left.length < suf.length
  · simp [hlen]
  · have ⟨h1, h2⟩ := strip_suffix_loop fuel (left.length + 1) left suf hf (by omega)
    cases hs : stripSuffixLoop (left.length + 1) left suf with
    | none => simp [hlen, h1 hs]
    | some r =>
      obtain ⟨q, hq⟩ := h2 r hs
      simp [hlen, hq]

example : Extracted.bytes_strip_suffix 3 [1, 2, 3] [2, 3] = .ok (some [1]) := by
  rw [bytes_strip_suffix_eq 3 [1, 2, 3] [2, 3] (by decide)]; decide

theorem bytes_end_with_eq (fuel : Nat) (left pat : List Nat) (hf : pat.length + 1 ≤ fuel) :
    Extracted.bytes_end_with fuel left pat = .ok (endsWith left pat) := by
  unfold Extracted.bytes_end_with endsWith
  rw [bytes_strip_suffix_eq fuel left pat hf]
  cases stripSuffixL left pat <;> simp

example : Extracted.bytes_end_with 3 [1, 2, 3] [2, 3] = .ok true := by
  rw [bytes_end_with_eq 3 [1, 2, 3] [2, 3] (by decide)]; decide

/-! ### `__bytes_rfind` -/

/-- the `while i != 0 { i -= 1; … }` loop of `__bytes_rfind`
    (`n` = fuel of the extracted loop, `F` = fuel handed to callees) -/
theorem rfind_loop (F n : Nat) (left pat : List Nat) (i : Nat)
    (hF : pat.length + 1 ≤ F) (hn : i + 1 ≤ n) :
    (∀ k, rfindLoop left pat i = some k →
        Rs.loop n (Extracted.bytes_rfind.loop1 F left pat) i = Ctl.exit (some k)) ∧
    (rfindLoop left pat i = none →
        ∃ j, Rs.loop n (Extracted.bytes_rfind.loop1 F left pat) i = Ctl.val j) := by
  induction n generalizing i with
  | zero => omega
  | succ n ih =>
    rw [Rs.loop_succ]
    cases i with
    | zero => simp [Extracted.bytes_rfind.loop1, rfindLoop]
    | succ i =>
      simp only [Extracted.bytes_rfind.loop1, rfindLoop, Rs.usub, ne_eq,
        Nat.succ_ne_zero, not_false_eq_true, decide_true, ↓reduceIte,
        Nat.le_add_left, Nat.add_sub_cancel, Ctl.bind_eq, Ctl.bind_val, slice_from_eq, Ctl.call_ok,
        bytes_start_with_eq F _ pat hF, Ctl.pure_eq]
      by_cases hs : startsWith (sliceFromL left i) pat = true
      · simp [sliceFromL] at hs
        simp [sliceFromL, hs]
      · simp [sliceFromL] at hs
        simp only [sliceFromL, hs, Bool.false_eq_true, ↓reduceIte, Ctl.bind_val]
        exact ih (i := i) (by omega)

/-- every position the `rfind` loop reports lies below the loop counter -/
theorem rfindLoop_lt (left pat : List Nat) (i k : Nat) (h : rfindLoop left pat i = some k) : k < i := by
  induction i with
  | zero => simp [rfindLoop] at h
  | succ i ih =>
    simp only [rfindLoop] at h
    by_cases hs : startsWith (sliceFromL left i) pat = true
    · simp [hs] at h; omega
    · simp [hs] at h; have := ih h; omega

/-- NB for an empty pattern both sides are `Some(left.len().saturating_sub(1))` (what the code returns). -/
theorem bytes_rfind_eq (fuel : Nat) (left pat : List Nat)
    (hb : left.length < 2 ^ 64) (hf : left.length + 1 ≤ fuel) :
    Extracted.bytes_rfind fuel left pat = .ok (bytesRfind left pat) := by
  unfold Extracted.bytes_rfind bytesRfind
  by_cases he : pat.isEmpty = true
  · simp [he, Rs.uSaturatingSub]
  · have hpos : 0 < pat.length := by
      cases pat with
      | nil => simp at he
      | cons a p => simp
    by_cases hlen : pat.length > left.length
    · simp [he, hlen]
    · have hle : pat.length ≤ left.length := by omega
      have hadd : left.length - pat.length + 1 < 2 ^ 64 := by omega
      have ⟨h1, h2⟩ := rfind_loop fuel fuel left pat (left.length - pat.length + 1) (by omega) (by omega)
      cases hr : rfindLoop left pat (left.length - pat.length + 1) with
      | some k => simp [he, hlen, Rs.usub, Rs.uadd, hle, hadd, h1 k hr]
      | none =>
        obtain ⟨j, hj⟩ := h2 hr
        simp [he, hlen, Rs.usub, Rs.uadd, hle, hadd, hj]

example : Extracted.bytes_rfind 6 [1, 2, 3, 2, 3] [2, 3] = .ok (some 3) := by
  rw [bytes_rfind_eq 6 [1, 2, 3, 2, 3] [2, 3] (by decide) (by decide)]; decide

/-! ### `__bytes_contain`, `__bytes_rcontain` -/

theorem bytes_contain_eq (fuel : Nat) (left pat : List Nat)
    (hb : left.length + pat.length + 1 < 2 ^ 64) (hf : left.length + pat.length + 2 ≤ fuel) :
    Extracted.bytes_contain fuel left pat = .ok (bytesContain left pat) := by
  unfold Extracted.bytes_contain bytesContain
  rw [bytes_find_eq fuel left pat hb hf]
  cases bytesFind left pat <;> simp

example : Extracted.bytes_contain 6 [1, 2, 3] [2] = .ok true := by
  rw [bytes_contain_eq 6 [1, 2, 3] [2] (by decide) (by decide)]; decide

theorem bytes_rcontain_eq (fuel : Nat) (left pat : List Nat)
    (hb : left.length < 2 ^ 64) (hf : left.length + 1 ≤ fuel) :
    Extracted.bytes_rcontain fuel left pat = .ok (bytesRcontain left pat) := by
  unfold Extracted.bytes_rcontain bytesRcontain
  rw [bytes_rfind_eq fuel left pat hb hf]
  cases bytesRfind left pat <;> simp

example : Extracted.bytes_rcontain 4 [1, 2, 3] [4] = .ok false := by
  rw [bytes_rcontain_eq 4 [1, 2, 3] [4] (by decide) (by decide)]; decide

/-! ### `__bytes_find_skip`, `__bytes_find_keep`, `__bytes_rfind_skip`, `__bytes_rfind_keep`
    The model returns a `View` into `this`; the extraction the slice itself: `v.apply this`. -/

/-- every position the `find` loop reports leaves room for the pattern -/
theorem findLoop_le (left pat : List Nat) (m i k : Nat) (h : findLoop left pat m i = some k) :
    k + pat.length ≤ left.length := by
  induction m generalizing i with
  | zero => simp [findLoop] at h
  | succ m ih =>
    simp only [findLoop] at h
    by_cases hc : i + pat.length ≤ left.length
    · by_cases hs : startsWith (sliceFromL left i) pat = true
      · simp [hc, hs] at h; omega
      · simp [hc, hs] at h; exact ih _ h
    · simp [hc] at h

theorem whole_apply (this : List Nat) : (View.mk 0 this.length).apply this = this := by
  simp [View.apply]

theorem bytes_find_skip_eq (fuel : Nat) (this needle : List Nat)
    (hb : this.length + needle.length + 1 < 2 ^ 64) (hf : this.length + needle.length + 2 ≤ fuel) :
    Extracted.bytes_find_skip fuel this needle
      = .ok (Option.map (fun v => v.apply this) (findSkip this needle)) := by
  unfold Extracted.bytes_find_skip findSkip
  by_cases he : needle.isEmpty = true
  · simp [he, whole_apply]
  · simp only [he, Bool.false_eq_true, ↓reduceIte, Ctl.pure_eq, Ctl.bind_eq, Ctl.bind_val,
      bytes_find_eq fuel this needle hb hf, Ctl.call_ok]
    cases hr : bytesFind this needle with
    | none => simp
    | some pos =>
      have hle := findLoop_le this needle _ _ _ hr
      have hadd : pos + needle.length < 2 ^ 64 := by omega
      simp [Rs.uadd, hadd, slice_from_eq]

example : Extracted.bytes_find_skip 8 [1, 2, 3, 4] [2, 3] = .ok (some [4]) := by
  rw [bytes_find_skip_eq 8 [1, 2, 3, 4] [2, 3] (by decide) (by decide)]; decide

theorem bytes_find_keep_eq (fuel : Nat) (this needle : List Nat)
    (hb : this.length + needle.length + 1 < 2 ^ 64) (hf : this.length + needle.length + 2 ≤ fuel) :
    Extracted.bytes_find_keep fuel this needle
      = .ok (Option.map (fun v => v.apply this) (findKeep this needle)) := by
  unfold Extracted.bytes_find_keep findKeep
  by_cases he : needle.isEmpty = true
  · simp [he, whole_apply]
  · simp only [he, Bool.false_eq_true, ↓reduceIte, Ctl.pure_eq, Ctl.bind_eq, Ctl.bind_val,
      bytes_find_eq fuel this needle hb hf, Ctl.call_ok]
    cases hr : bytesFind this needle with
    | none => simp
    | some pos => simp [slice_from_eq]

example : Extracted.bytes_find_keep 8 [1, 2, 3, 4] [2, 3] = .ok (some [2, 3, 4]) := by
  rw [bytes_find_keep_eq 8 [1, 2, 3, 4] [2, 3] (by decide) (by decide)]; decide

theorem bytes_rfind_skip_eq (fuel : Nat) (this needle : List Nat)
    (hb : this.length < 2 ^ 64) (hf : this.length + 1 ≤ fuel) :
    Extracted.bytes_rfind_skip fuel this needle
      = .ok (Option.map (fun v => v.apply this) (rfindSkip this needle)) := by
  unfold Extracted.bytes_rfind_skip rfindSkip
  by_cases he : needle.isEmpty = true
  · simp [he, whole_apply]
  · simp only [he, Bool.false_eq_true, ↓reduceIte, Ctl.pure_eq, Ctl.bind_eq, Ctl.bind_val,
      bytes_rfind_eq fuel this needle hb hf, Ctl.call_ok]
    cases hr : bytesRfind this needle with
    | none => simp
    | some pos => simp [slice_up_to_eq]

example : Extracted.bytes_rfind_skip 6 [1, 2, 3, 2, 3] [2, 3] = .ok (some [1, 2, 3]) := by
  rw [bytes_rfind_skip_eq 6 [1, 2, 3, 2, 3] [2, 3] (by decide) (by decide)]; decide

theorem bytes_rfind_keep_eq (fuel : Nat) (this needle : List Nat)
    (hb : this.length < 2 ^ 64) (hf : this.length + 1 ≤ fuel) :
    Extracted.bytes_rfind_keep fuel this needle
      = .ok (Option.map (fun v => v.apply this) (rfindKeep this needle)) := by
  unfold Extracted.bytes_rfind_keep rfindKeep
  by_cases he : needle.isEmpty = true
  · simp [he, whole_apply]
  · simp only [he, Bool.false_eq_true, ↓reduceIte, Ctl.pure_eq, Ctl.bind_eq, Ctl.bind_val,
      bytes_rfind_eq fuel this needle hb hf, Ctl.call_ok]
    cases hr : bytesRfind this needle with
    | none => simp
    | some pos =>
      have hadd : pos + needle.length < 2 ^ 64 := by
        unfold bytesRfind at hr
        by_cases hlen : needle.length > this.length
        · simp [he, hlen] at hr
        · simp only [he, Bool.false_eq_true, ↓reduceIte, hlen] at hr
          have := rfindLoop_lt this needle _ _ hr
          omega
      simp [Rs.uadd, hadd, slice_up_to_eq]

example : Extracted.bytes_rfind_keep 7 [1, 2, 3, 2, 3, 4] [2, 3] = .ok (some [1, 2, 3, 2, 3]) := by
  rw [bytes_rfind_keep_eq 7 [1, 2, 3, 2, 3, 4] [2, 3] (by decide) (by decide)]; decide

end Extracted.Equiv
