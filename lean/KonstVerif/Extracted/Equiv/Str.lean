import KonstVerif.Extracted.Gen.Str
import KonstVerif.Extracted.Equiv.Slice
import KonstVerif.Model.Utf8
/-
  Extracted (regenerated from /repo) = Model, for the char-boundary tests, the two boundary
  searches and the panicking string slicing functions of `konst_kernel::string` (C03).

  Bytes are `List Nat`; wherever the code casts `bytes[position] as i8` (`Rs.castUI 8`, wrapping) the
  model uses `asI8` (defined for `b < 256` only), hence the hypothesis `∀ b ∈ bytes, b < 256`.
  The model's `Except Panic View` results are compared through `resOfExcept`: `.ok v ↦ .ok (v.apply s)`,
  `.error _ ↦ .panic` (the panic message is not observable in the extraction).
-/
namespace Extracted.Equiv
open Rs Konst Konst.Utf8

/-- `b as i8` of the prelude (wrapping) is the model's `asI8` on bytes -/
theorem castUI8_eq_asI8 (b : Nat) (h : b < 256) : Rs.castUI 8 b = asI8 b := by
  unfold Rs.castUI Rs.wrapI Rs.imax asI8
  have e1 : (2 ^ 8 : Int) = 256 := by decide
  have e2 : (2 ^ (8 - 1) : Int) = 128 := by decide
  simp only [e1, e2]
  have h1 : ((b : Int) % 256) = (b : Int) := by omega
  rw [h1]
  split <;> split <;> omega

/-- the indexed byte test, in bounds -/
theorem index_test (bytes : List Nat) (hb : ∀ b ∈ bytes, b < 256) (i : Nat) (hi : i < bytes.length) :
    bytes[i]? = some bytes[i] ∧
      decide (Rs.castUI 8 bytes[i] ≥ (-64 : Int)) = byteIsCharBoundary (bytes.getD i 0) := by
  have hget : bytes[i]? = some bytes[i] := List.getElem?_eq_getElem hi
  have hD : bytes.getD i 0 = bytes[i] := by simp [List.getD, hget]
  refine ⟨hget, ?_⟩
  rw [hD, castUI8_eq_asI8 _ (hb _ (List.getElem_mem hi))]
  rfl

theorem is_char_boundary_bytes_eq (bytes : List Nat) (position : Nat) (hb : ∀ b ∈ bytes, b < 256) :
    Extracted.is_char_boundary_bytes bytes position = .ok (isCharBoundaryBytes bytes position) := by
  unfold Extracted.is_char_boundary_bytes isCharBoundaryBytes
  by_cases h1 : position = bytes.length
  · simp [h1]
  · by_cases h2 : position < bytes.length
    · obtain ⟨hget, ht⟩ := index_test bytes hb position h2
      simp only [h1, h2, decide_false, decide_true, Rs.index, hget, Bool.false_eq_true, ↓reduceIte,
        Ctl.bind_eq, Ctl.bind_val, Ctl.pure_eq, Ctl.run_val, ht, Bool.true_and]
      simp [h1]
    · simp [h1, h2]

example : Extracted.is_char_boundary_bytes [0xE2, 0x82, 0xAC, 0x41] 3 = .ok true := by decide
example : Extracted.is_char_boundary_bytes [0xE2, 0x82, 0xAC, 0x41] 1
    = .ok (isCharBoundaryBytes [0xE2, 0x82, 0xAC, 0x41] 1) :=
  is_char_boundary_bytes_eq _ _ (by decide)

theorem is_char_boundary_forgiving_eq (bytes : List Nat) (position : Nat) (hb : ∀ b ∈ bytes, b < 256) :
    Extracted.is_char_boundary_forgiving bytes position = .ok (isCharBoundaryForgiving bytes position) := by
  unfold Extracted.is_char_boundary_forgiving isCharBoundaryForgiving
  by_cases h1 : position ≥ bytes.length
  · simp [h1]
  · obtain ⟨hget, ht⟩ := index_test bytes hb position (by omega)
    simp only [h1, decide_false, Rs.index, hget, Bool.false_eq_true, ↓reduceIte,
      Ctl.bind_eq, Ctl.bind_val, Ctl.pure_eq, Ctl.run_val, ht, Bool.false_or]

example : Extracted.is_char_boundary_forgiving [0xE2, 0x82, 0xAC, 0x41] 2 = .ok false := by decide
example : Extracted.is_char_boundary_forgiving [0xE2, 0x82, 0xAC, 0x41] 9
    = .ok (isCharBoundaryForgiving [0xE2, 0x82, 0xAC, 0x41] 9) :=
  is_char_boundary_forgiving_eq _ _ (by decide)

/-! ### `__find_next_char_boundary` -/

/-- the `loop` of `__find_next_char_boundary` from any state `p`: `n` = fuel.  The loop leaves with
    `break position` at the model's value as long as that value is a `usize`
    (`position += 1` is checked). -/
theorem find_next_loop (n : Nat) (bytes : List Nat) (p : Nat) (hb : ∀ b ∈ bytes, b < 256)
    (hr : findNextCharBoundary bytes p < 2 ^ 64) (hn : bytes.length - p + 1 ≤ n) :
    Rs.loop (ε := Nat) n (Extracted.find_next_char_boundary.loop1 bytes) p
      = Ctl.val (findNextCharBoundary bytes p, findNextCharBoundary bytes p) := by
  induction n generalizing p with
  | zero => omega
  | succ n ih =>
    rw [Rs.loop_succ]
    rw [findNextCharBoundary] at hr ⊢
    by_cases ht : isCharBoundaryForgiving bytes (p + 1) = true
    · rw [dif_pos ht] at hr ⊢
      simp [Extracted.find_next_char_boundary.loop1, Rs.uadd, hr, is_char_boundary_forgiving_eq _ _ hb, ht]
    · rw [dif_neg ht] at hr ⊢
      have hlt : p + 1 < bytes.length := by
        simp only [isCharBoundaryForgiving, Bool.or_eq_true, decide_eq_true_eq, not_or] at ht
        omega
      have h1 : p + 1 < 2 ^ 64 := by
        have : p + 1 < findNextCharBoundary bytes (p + 1) := by
          rw [findNextCharBoundary]; split
          · omega
          · have := findNext_gt bytes (p + 1 + 1); omega
        omega
      simp only [Extracted.find_next_char_boundary.loop1, Rs.uadd, h1, ↓reduceIte, Ctl.bind_eq, Ctl.bind_val,
        is_char_boundary_forgiving_eq _ _ hb, Ctl.call_ok, ht, Bool.false_eq_true, Ctl.pure_eq]
      exact ih (p := p + 1) hr (by omega)
where
  findNext_gt (bytes : List Nat) (p : Nat) : p < findNextCharBoundary bytes p := by
    induction h : bytes.length - p using Nat.strongRecOn generalizing p with
    | _ k ih =>
      rw [findNextCharBoundary]
      split
      · omega
      · rename_i ht
        have hlt : p + 1 < bytes.length := by
          simp only [isCharBoundaryForgiving, Bool.or_eq_true, decide_eq_true_eq, not_or] at ht
          omega
        have := ih (bytes.length - (p + 1)) (by omega) (p + 1) rfl
        omega

/-- the model's result is at most `max (position + 1) bytes.length` -/
theorem findNext_le (bytes : List Nat) (p : Nat) :
    findNextCharBoundary bytes p ≤ max (p + 1) bytes.length := by
  induction h : bytes.length - p using Nat.strongRecOn generalizing p with
  | _ k ih =>
    rw [findNextCharBoundary]
    split
    · omega
    · rename_i ht
      have hlt : p + 1 < bytes.length := by
        simp only [isCharBoundaryForgiving, Bool.or_eq_true, decide_eq_true_eq, not_or] at ht
        omega
      have := ih (bytes.length - (p + 1)) (by omega) (p + 1) rfl
      omega

/-- `__find_next_char_boundary` returns the model's value, provided the checked `position += 1`
    cannot overflow: `position + 1` and `bytes.len()` fit in a `usize` (true for every Rust slice,
    whose length is `≤ isize::MAX`, and every `position < usize::MAX`).
    Fuel: one iteration per position visited, at most `bytes.len() - position` (and at least 1). -/
theorem find_next_char_boundary_eq (fuel : Nat) (bytes : List Nat) (position : Nat)
    (hb : ∀ b ∈ bytes, b < 256)
    (hp : position + 1 < 2 ^ 64) (hl : bytes.length < 2 ^ 64)
    (hf : bytes.length - position + 1 ≤ fuel) :
    Extracted.find_next_char_boundary fuel bytes position = .ok (findNextCharBoundary bytes position) := by
  unfold Extracted.find_next_char_boundary
  have hr : findNextCharBoundary bytes position < 2 ^ 64 := by
    have := findNext_le bytes position; omega
  simp [find_next_loop fuel bytes position hb hr hf]

/-- the remaining case: `position == usize::MAX` — the first `position += 1` overflows (the model is
    total there; the code panics) -/
theorem find_next_char_boundary_overflow (fuel : Nat) (bytes : List Nat) (position : Nat)
    (hp : ¬ position + 1 < 2 ^ 64) (hf : 1 ≤ fuel) :
    Extracted.find_next_char_boundary fuel bytes position = .panic := by
  unfold Extracted.find_next_char_boundary
  obtain ⟨n, rfl⟩ : ∃ n, fuel = n + 1 := ⟨fuel - 1, by omega⟩
  rw [Rs.loop_succ]
  simp [Extracted.find_next_char_boundary.loop1, Rs.uadd, hp]

example : Extracted.find_next_char_boundary 4 [0xE2, 0x82, 0xAC, 0x41] 0 = .ok 3 := by decide
example : Extracted.find_next_char_boundary 5 [0xE2, 0x82, 0xAC, 0x41] 0
    = .ok (findNextCharBoundary [0xE2, 0x82, 0xAC, 0x41] 0) :=
  find_next_char_boundary_eq _ _ _ (by decide) (by decide) (by decide) (by decide)

/-! ### `__find_prev_char_boundary` -/

/-- result of the model's `Option` (`none` = the `position -= 1` underflow) as a `Res` -/
def resOfOption {α : Type} : Option α → Res α
  | some a => .ok a
  | none => .panic

@[simp] theorem resOfOption_some {α : Type} (a : α) : resOfOption (some a) = .ok a := rfl
@[simp] theorem resOfOption_none {α : Type} : resOfOption (none : Option α) = .panic := rfl

/-- the `while` loop of `__find_prev_char_boundary` from any state `p`: it breaks at the model's
    position, and panics (`position -= 1` at 0) exactly when the model's loop returns `none` -/
theorem find_prev_loop (n : Nat) (bytes : List Nat) (p : Nat) (hb : ∀ b ∈ bytes, b < 256)
    (hn : min p bytes.length + 1 ≤ n) :
    (∀ k, findPrevLoop bytes p = some k →
        Rs.loop (ε := Nat) n (Extracted.find_prev_char_boundary.loop1 bytes) p = Ctl.val k) ∧
    (findPrevLoop bytes p = none →
        Rs.loop (ε := Nat) n (Extracted.find_prev_char_boundary.loop1 bytes) p = Ctl.panic) := by
  induction n generalizing p with
  | zero => omega
  | succ n ih =>
    rw [Rs.loop_succ]
    simp only [Extracted.find_prev_char_boundary.loop1, is_char_boundary_forgiving_eq _ _ hb, Ctl.call_ok,
      Ctl.bind_eq, Ctl.bind_val]
    by_cases ht : isCharBoundaryForgiving bytes p = true
    · cases p <;> simp [findPrevLoop, ht]
    · have hlt : p < bytes.length := by
        simp only [isCharBoundaryForgiving, Bool.or_eq_true, decide_eq_true_eq, not_or] at ht
        omega
      cases p with
      | zero => simp [findPrevLoop, ht, Rs.usub]
      | succ p =>
        have ih' := ih (p := p) (by omega)
        simpa [findPrevLoop, ht, Rs.usub] using ih'

/-- `__find_prev_char_boundary`: the code returns the model's `some k`, and panics (arithmetic
    underflow of `position -= 1` at `position == 0`) exactly when the model returns `none`,
    i.e. when no position `≤ position - 1` passes the forgiving test.  No machine bound is needed
    (the position only decreases).
    Fuel: the loop visits `position - 1`, `position - 2`, …; positions `≥ bytes.len()` pass at once. -/
theorem find_prev_char_boundary_eq (fuel : Nat) (bytes : List Nat) (position : Nat)
    (hb : ∀ b ∈ bytes, b < 256)
    (hf : min (position - 1) bytes.length + 1 ≤ fuel) :
    Extracted.find_prev_char_boundary fuel bytes position
      = resOfOption (findPrevCharBoundary bytes position) := by
  unfold Extracted.find_prev_char_boundary findPrevCharBoundary Rs.uSaturatingSub
  have ⟨h1, h2⟩ := find_prev_loop fuel bytes (position - 1) hb hf
  cases hr : findPrevLoop bytes (position - 1) with
  | some k => simp [h1 k hr]
  | none => simp [h2 hr, Ctl.run]

/-- the precondition under which the Rust loop terminates without panic: position 0 passes the
    forgiving test (`bytes` is empty or `bytes[0]` is not a continuation byte — true for every
    `&str`).  Then the model (and the code) return a position. -/
theorem findPrevLoop_isSome (bytes : List Nat) (h0 : isCharBoundaryForgiving bytes 0 = true) (p : Nat) :
    ∃ k, findPrevLoop bytes p = some k := by
  induction p with
  | zero => exact ⟨0, by simp [findPrevLoop, h0]⟩
  | succ p ih =>
    by_cases ht : isCharBoundaryForgiving bytes (p + 1) = true
    · exact ⟨p + 1, by simp [findPrevLoop, ht]⟩
    · obtain ⟨k, hk⟩ := ih
      exact ⟨k, by simp [findPrevLoop, ht, hk]⟩

theorem find_prev_char_boundary_ok (fuel : Nat) (bytes : List Nat) (position : Nat)
    (hb : ∀ b ∈ bytes, b < 256) (h0 : isCharBoundaryForgiving bytes 0 = true)
    (hf : min (position - 1) bytes.length + 1 ≤ fuel) :
    ∃ k, findPrevCharBoundary bytes position = some k ∧
      Extracted.find_prev_char_boundary fuel bytes position = .ok k := by
  obtain ⟨k, hk⟩ := findPrevLoop_isSome bytes h0 (position - 1)
  refine ⟨k, hk, ?_⟩
  rw [find_prev_char_boundary_eq fuel bytes position hb hf]
  unfold findPrevCharBoundary
  rw [hk]; rfl

example : Extracted.find_prev_char_boundary 4 [0x41, 0xE2, 0x82, 0xAC] 4 = .ok 1 := by decide
example : Extracted.find_prev_char_boundary 4 [0x82, 0xAC, 0x41] 2 = .panic := by decide
example : Extracted.find_prev_char_boundary 4 [0x82, 0xAC, 0x41] 2
    = resOfOption (findPrevCharBoundary [0x82, 0xAC, 0x41] 2) :=
  find_prev_char_boundary_eq _ _ _ (by decide) (by decide)

/-! ### `__from_u8_subslice_of_str`, `str_up_to`, `str_from`, `str_range` -/

/-- `__from_u8_subslice_of_str` is `from_utf8_unchecked` (`debug` feature off): the identity on the
    bytes.  The model has no separate definition for it (Model/Utf8.lean, header): the views returned by
    `strUpTo`/`strFrom`/`strRange` are applied to the bytes directly. -/
theorem from_u8_subslice_of_str_eq (s : List Nat) : Extracted.from_u8_subslice_of_str s = .ok s := rfl

/-- the model's `Except Panic View` as the result of the extraction on the string `s`:
    a view is the sub-list it denotes, `non_char_boundary_panic(..)` is a panic -/
def resOfExcept (s : List Nat) : Except Panic View → Res (List Nat)
  | .ok v => .ok (v.apply s)
  | .error _ => .panic

@[simp] theorem resOfExcept_ok (s : List Nat) (v : View) : resOfExcept s (.ok v) = .ok (v.apply s) := rfl
@[simp] theorem resOfExcept_error (s : List Nat) (e : Panic) : resOfExcept s (.error e) = .panic := rfl

theorem str_up_to_eq (string : List Nat) (len : Nat) (hb : ∀ b ∈ string, b < 256) :
    Extracted.str_up_to string len = resOfExcept string (strUpTo string len) := by
  unfold Extracted.str_up_to strUpTo
  simp only [is_char_boundary_forgiving_eq _ _ hb, Ctl.call_ok, Ctl.bind_eq, Ctl.bind_val, slice_up_to_eq,
    from_u8_subslice_of_str_eq]
  cases isCharBoundaryForgiving string len <;> simp [Ctl.run]

/-- the two branches of `str_up_to_eq` spelled out -/
theorem str_up_to_ok (string : List Nat) (len : Nat) (hb : ∀ b ∈ string, b < 256)
    (h : isCharBoundaryForgiving string len = true) :
    Extracted.str_up_to string len = .ok ((Slice.sliceUpTo string.length len).apply string) := by
  rw [str_up_to_eq _ _ hb]; simp [strUpTo, h]

theorem str_up_to_panic (string : List Nat) (len : Nat) (hb : ∀ b ∈ string, b < 256)
    (h : isCharBoundaryForgiving string len = false) :
    Extracted.str_up_to string len = .panic := by
  rw [str_up_to_eq _ _ hb]; simp [strUpTo, h]

example : Extracted.str_up_to [0x41, 0xE2, 0x82, 0xAC] 1 = .ok [0x41] := by decide
example : Extracted.str_up_to [0x41, 0xE2, 0x82, 0xAC] 2 = .panic := by decide
example : Extracted.str_up_to [0x41, 0xE2, 0x82, 0xAC] 2
    = resOfExcept [0x41, 0xE2, 0x82, 0xAC] (strUpTo [0x41, 0xE2, 0x82, 0xAC] 2) :=
  str_up_to_eq _ _ (by decide)

theorem str_from_eq (string : List Nat) (start : Nat) (hb : ∀ b ∈ string, b < 256) :
    Extracted.str_from string start = resOfExcept string (strFrom string start) := by
  unfold Extracted.str_from strFrom
  simp only [is_char_boundary_forgiving_eq _ _ hb, Ctl.call_ok, Ctl.bind_eq, Ctl.bind_val, slice_from_eq,
    from_u8_subslice_of_str_eq]
  cases isCharBoundaryForgiving string start <;> simp [Ctl.run]

theorem str_from_ok (string : List Nat) (start : Nat) (hb : ∀ b ∈ string, b < 256)
    (h : isCharBoundaryForgiving string start = true) :
    Extracted.str_from string start = .ok ((Slice.sliceFrom string.length start).apply string) := by
  rw [str_from_eq _ _ hb]; simp [strFrom, h]

theorem str_from_panic (string : List Nat) (start : Nat) (hb : ∀ b ∈ string, b < 256)
    (h : isCharBoundaryForgiving string start = false) :
    Extracted.str_from string start = .panic := by
  rw [str_from_eq _ _ hb]; simp [strFrom, h]

example : Extracted.str_from [0x41, 0xE2, 0x82, 0xAC] 1 = .ok [0xE2, 0x82, 0xAC] := by decide
example : Extracted.str_from [0x41, 0xE2, 0x82, 0xAC] 3 = .panic := by decide
example : Extracted.str_from [0x41, 0xE2, 0x82, 0xAC] 1
    = resOfExcept [0x41, 0xE2, 0x82, 0xAC] (strFrom [0x41, 0xE2, 0x82, 0xAC] 1) :=
  str_from_eq _ _ (by decide)

theorem str_range_eq (string : List Nat) (start end_ : Nat) (hb : ∀ b ∈ string, b < 256) :
    Extracted.str_range string start end_ = resOfExcept string (strRange string start end_) := by
  unfold Extracted.str_range strRange
  simp only [is_char_boundary_forgiving_eq _ _ hb, Ctl.call_ok, Ctl.bind_eq, Ctl.bind_val, slice_range_eq,
    from_u8_subslice_of_str_eq, Ctl.pure_eq]
  cases isCharBoundaryForgiving string start <;> cases isCharBoundaryForgiving string end_ <;> simp [Ctl.run]

theorem str_range_ok (string : List Nat) (start end_ : Nat) (hb : ∀ b ∈ string, b < 256)
    (h1 : isCharBoundaryForgiving string start = true) (h2 : isCharBoundaryForgiving string end_ = true) :
    Extracted.str_range string start end_
      = .ok ((Slice.sliceRange string.length start end_).apply string) := by
  rw [str_range_eq _ _ _ hb]; simp [strRange, h1, h2]

theorem str_range_panic (string : List Nat) (start end_ : Nat) (hb : ∀ b ∈ string, b < 256)
    (h : isCharBoundaryForgiving string start = false ∨ isCharBoundaryForgiving string end_ = false) :
    Extracted.str_range string start end_ = .panic := by
  rw [str_range_eq _ _ _ hb]
  cases h1 : isCharBoundaryForgiving string start <;> cases h2 : isCharBoundaryForgiving string end_ <;>
    simp_all [strRange]

example : Extracted.str_range [0x41, 0xE2, 0x82, 0xAC, 0x42] 1 4 = .ok [0xE2, 0x82, 0xAC] := by decide
example : Extracted.str_range [0x41, 0xE2, 0x82, 0xAC, 0x42] 1 3 = .panic := by decide
example : Extracted.str_range [0x41, 0xE2, 0x82, 0xAC, 0x42] 1 4
    = resOfExcept [0x41, 0xE2, 0x82, 0xAC, 0x42] (strRange [0x41, 0xE2, 0x82, 0xAC, 0x42] 1 4) :=
  str_range_eq _ _ _ (by decide)

end Extracted.Equiv
