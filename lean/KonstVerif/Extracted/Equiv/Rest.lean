import KonstVerif.Extracted.Gen.Rest
import KonstVerif.Extracted.Equiv.Split
import KonstVerif.Extracted.Equiv.ParserA
import KonstVerif.Extracted.Equiv.Str
import KonstVerif.Model.Split
import KonstVerif.Model.Parser
import KonstVerif.Model.OptRes
import KonstVerif.Model.Utf8
/-
  Extracted (regenerated from /repo) = Model, for the remaining small public functions (group `Rest`,
  18 functions):

    string::splitting      Split::rev, RSplit::rev, rsplit, Split::copy, RSplit::copy          (C06)
    option                 copied                                                               (C19)
    parsing::parse_errors  ParseError::offset, error_direction, kind, other_error               (C13)
    parsing                Parser::parse_direction, Parser::into_other_error                    (C13)
    konst_kernel::string   is_char_boundary                                                     (C03)
    konst_kernel::iter     repeat, Repeat::next, next_back, rev, copy                           (C10)

  Models and conversions.
    * split iterators: `Konst.Split.Iter.rev / rsplit / Iter.copy` (Model/Split.lean) through the
      conversion maps of Equiv/Split.lean (`splitToModel off` / `rsplitToModel off` put an extracted
      iterator at an arbitrary haystack offset, `splitOfModel` / `rsplitOfModel` forget offset and `fwd`).
      Since `…OfModel` forgets the `fwd` flag, each `rev` theorem comes with a `…_toModel` companion that
      says which of the two struct types the model's result is (`rev` flips `fwd`).
    * `option::copied`: `Konst.OptRes.optCopied` (a reference is its referent); `option_copied_std` restates
      it with the std meaning `Option.map id` (= the argument itself).
    * `ParseError` getters: `Konst.Parser.ParseError.offset / errorDirection` and the structure field
      `ParseError.kind` (the model has no separate `kind` getter: the field IS the std meaning) through
      `errorToModel` / `dirOfModel` / `kindOfModel` of Equiv/ParserA.lean.  `Parser::parse_direction`: the
      model's field `Parser.dir` (no getter definition in the model).
    * `other_error` / `into_other_error`: `Konst.Parser.Parser.intoOtherError` (= `ParseError.new p .other`).
      The model has no `extra_message`; `errorOfModel` fills it with `[]`, the code stores the argument, so
      the right-hand side is `{ errorOfModel … with extra_message := string }` (pins the field down too).
      Same `hfit` hypothesis as `ParseError_new_eq` (checked `u32` addition, `as u32` cast).
    * `is_char_boundary`: `Konst.Utf8.isCharBoundary`; `hb` because the code casts the byte `as i8`.
    * `iter::repeat`: there is no model definition of `Repeat` (IterDsl models the macro pipeline, not this
      adaptor), so the theorems are stated against the obvious std meaning on the generated structure
      `Extracted.Repeat T = { _0 : T }`: `repeat v` is the state holding `v`, every `next` / `next_back`
      returns `some (v, same state)` (the endless iterator, no `List.replicate` needed), `rev` and `copy`
      return the same state.  `Repeat.next_iterate` composes `next` along a run of any length.
  All theorems except `other_error`, `into_other_error` (`hfit`) and `is_char_boundary` (`hb`) are
  hypothesis-free; none of the functions loops, so there is no fuel.
-/
namespace Extracted.Equiv
open Rs Konst

/-! ### `string::splitting`: `rev`, `rsplit`, `copy` -/

/-- `Split::rev`: the same two fields re-typed as `RSplit`; model `Iter.rev` (for every offset) -/
theorem Split.rev_eq (off : Nat) (s : Extracted.Split) :
    Extracted.Split.rev s = .ok (rsplitOfModel (Konst.Split.Iter.rev (splitToModel off s))) := by
  cases s; simp [Extracted.Split.rev, rsplitOfModel, splitToModel, Konst.Split.Iter.rev]

/-- the model's `rev` of a `Split` IS an `RSplit` (`fwd = false`): the value `Split.rev_eq` names, put back -/
theorem Split.rev_toModel (off : Nat) (s : Extracted.Split) :
    Konst.Split.Iter.rev (splitToModel off s) = rsplitToModel off ⟨s.this_, s.state⟩ := rfl

/-- `RSplit::rev`: re-typed as `Split`; model `Iter.rev` -/
theorem RSplit.rev_eq (off : Nat) (s : Extracted.RSplit) :
    Extracted.RSplit.rev s = .ok (splitOfModel (Konst.Split.Iter.rev (rsplitToModel off s))) := by
  cases s; simp [Extracted.RSplit.rev, splitOfModel, rsplitToModel, Konst.Split.Iter.rev]

theorem RSplit.rev_toModel (off : Nat) (s : Extracted.RSplit) :
    Konst.Split.Iter.rev (rsplitToModel off s) = splitToModel off ⟨s.this_, s.state⟩ := rfl

example : Extracted.Split.rev ⟨[97, 44, 98], .Normal [44]⟩ = .ok ⟨[97, 44, 98], .Normal [44]⟩ := by
  rw [Split.rev_eq 0]; decide
example : Extracted.RSplit.rev ⟨[97], .Empty .Continue⟩ = .ok ⟨[97], .Empty .Continue⟩ := by
  rw [RSplit.rev_eq 5]; decide

/-- `rsplit = split(this, delim).rev()`: the model's `rsplit`, at haystack offset 0 -/
theorem rsplit_eq (this delim : List Nat) :
    Extracted.rsplit this delim = .ok (rsplitOfModel (Konst.Split.rsplit this delim)) := by
  unfold Extracted.rsplit Konst.Split.rsplit
  simp only [split_eq, Ctl.call_ok, Ctl.bind_eq, Ctl.bind_val]
  have h : splitToModel 0 (splitOfModel (Konst.Split.split this delim)) = Konst.Split.split this delim :=
    splitToModel_ofModel (Konst.Split.split this delim) rfl
  rw [Split.rev_eq 0, h]
  rfl

/-- the model's `rsplit` is an `RSplit` -/
theorem rsplit_model_fwd (this delim : List Nat) : (Konst.Split.rsplit this delim).fwd = false := rfl

example : Extracted.rsplit [97, 44, 98] [44] = .ok ⟨[97, 44, 98], .Normal [44]⟩ := by
  rw [rsplit_eq]; decide
example : Extracted.rsplit [97, 44, 98] [] = .ok ⟨[97, 44, 98], .Empty .Start⟩ := by
  rw [rsplit_eq]; decide

/-- `Split::copy`: model `Iter.copy` -/
theorem Split.copy_eq (off : Nat) (s : Extracted.Split) :
    Extracted.Split.copy s = .ok (splitOfModel (Konst.Split.Iter.copy (splitToModel off s))) := by
  cases s; simp [Extracted.Split.copy, Konst.Split.Iter.copy]

/-- `RSplit::copy`: model `Iter.copy` -/
theorem RSplit.copy_eq (off : Nat) (s : Extracted.RSplit) :
    Extracted.RSplit.copy s = .ok (rsplitOfModel (Konst.Split.Iter.copy (rsplitToModel off s))) := by
  cases s; simp [Extracted.RSplit.copy, Konst.Split.Iter.copy]

example : Extracted.Split.copy ⟨[98], .Finished⟩ = .ok ⟨[98], .Finished⟩ := by
  rw [Split.copy_eq 3]; decide
example : Extracted.RSplit.copy ⟨[98, 99], .Normal [44]⟩ = .ok ⟨[98, 99], .Normal [44]⟩ := by
  rw [RSplit.copy_eq 0]; decide

/-! ### `option::copied` -/

/-- `option::copied`: model `optCopied` (`Option<&T>` is `Option T`: a reference is its referent) -/
theorem option_copied_eq {T : Type} (opt : Option T) :
    Extracted.option_copied opt = .ok (Konst.OptRes.optCopied opt) := by
  cases opt <;> rfl

/-- the same with the std meaning of `Option::copied` on referents, `Option.map id` -/
theorem option_copied_std {T : Type} (opt : Option T) :
    Extracted.option_copied opt = .ok (opt.map id) := by
  cases opt <;> rfl

example : Extracted.option_copied (some 13) = .ok (some 13) := option_copied_std (some 13)
example : Extracted.option_copied (none : Option Nat) = .ok none := option_copied_std none

/-! ### `ParseError` / `Parser` getters -/

/-- `ParseError::offset`: `start_offset` for `FromStart | FromBoth`, `end_offset` for `FromEnd`
    (`as usize` of a `u32` is the identity) -/
theorem ParseError.offset_eq (e : Extracted.ParseError) :
    Extracted.ParseError.offset e = .ok (Konst.Parser.ParseError.offset (errorToModel e)) := by
  obtain ⟨so, eo, d, k, m, l⟩ := e
  cases d <;> rfl

example : Extracted.ParseError.offset ⟨7, 10, .FromEnd, .Strip, [], ()⟩ = .ok 10 := by
  rw [ParseError.offset_eq]; decide
example : Extracted.ParseError.offset ⟨7, 10, .FromBoth, .Strip, [], ()⟩ = .ok 7 := by
  rw [ParseError.offset_eq]; decide

/-- `ParseError::error_direction`: model `errorDirection` -/
theorem ParseError.error_direction_eq (e : Extracted.ParseError) :
    Extracted.ParseError.error_direction e
      = .ok (dirOfModel (Konst.Parser.ParseError.errorDirection (errorToModel e))) := by
  simp [Extracted.ParseError.error_direction, Konst.Parser.ParseError.errorDirection, errorToModel]

/-- `ParseError::kind`: the model has no getter definition, the meaning is the field `kind` -/
theorem ParseError.fn_kind_eq (e : Extracted.ParseError) :
    Extracted.ParseError.fn_kind e = .ok (kindOfModel (errorToModel e).kind) := by
  simp [Extracted.ParseError.fn_kind, errorToModel]

/-- `Parser::parse_direction`: the model has no getter definition, the meaning is the field `dir` -/
theorem Parser.fn_parse_direction_eq (p : Extracted.Parser) :
    Extracted.Parser.fn_parse_direction p = .ok (dirOfModel (parserToModel p).dir) := by
  simp [Extracted.Parser.fn_parse_direction, parserToModel]

example : Extracted.ParseError.error_direction ⟨7, 10, .FromEnd, .Strip, [], ()⟩ = .ok .FromEnd := by
  rw [ParseError.error_direction_eq]; rfl
example : Extracted.ParseError.fn_kind ⟨7, 10, .FromEnd, .Strip, [], ()⟩ = .ok .Strip := by
  rw [ParseError.fn_kind_eq]; rfl
example : Extracted.Parser.fn_parse_direction ⟨.FromBoth, false, 9, [104, 105]⟩ = .ok .FromBoth := by
  rw [Parser.fn_parse_direction_eq]; rfl

/-- `ParseError::other_error` (the callee of `into_other_error`): `ParseError::new(parser, Other)` with the
    given `extra_message` instead of `&""`.  `hfit` as for `ParseError_new_eq`. -/
theorem ParseError.other_error_eq (p : Extracted.Parser) (extra_message : List Nat)
    (hfit : p.start_offset + p.str.length < 2 ^ 32) :
    Extracted.ParseError.other_error p extra_message
      = .ok { errorOfModel (Konst.Parser.ParseError.new (parserToModel p) .other) with
              extra_message := extra_message } := by
  have h1 : p.str.length < 2 ^ 32 := by omega
  unfold Extracted.ParseError.other_error Konst.Parser.ParseError.new
  simp [Rs.uadd, castUU32_of_lt _ h1, hfit, errorOfModel, parserToModel, kindOfModel]

/-- `Parser::into_other_error`: model `Parser.intoOtherError`, with the message stored -/
theorem Parser.into_other_error_eq (p : Extracted.Parser) (string : List Nat)
    (hfit : p.start_offset + p.str.length < 2 ^ 32) :
    Extracted.Parser.into_other_error p string
      = .ok { errorOfModel (Konst.Parser.Parser.intoOtherError (parserToModel p)) with
              extra_message := string } := by
  unfold Extracted.Parser.into_other_error Konst.Parser.Parser.intoOtherError
  simp [ParseError.other_error_eq p string hfit]

example : Extracted.Parser.into_other_error ⟨.FromEnd, true, 7, [1, 2, 3]⟩ [111, 104]
    = .ok ⟨7, 10, .FromEnd, .Other, [111, 104], ()⟩ := by
  rw [Parser.into_other_error_eq _ _ (by decide)]; decide

/-- outside `hfit` the checked `u32` addition panics, e.g. -/
example : Extracted.Parser.into_other_error ⟨.FromStart, false, 2 ^ 32 - 1, [1]⟩ [] = .panic := by decide

/-! ### `konst_kernel::string::is_char_boundary` -/

/-- `is_char_boundary(string, position)`: model `Utf8.isCharBoundary` -/
theorem is_char_boundary_eq (string : List Nat) (position : Nat) (hb : ∀ b ∈ string, b < 256) :
    Extracted.is_char_boundary string position = .ok (Utf8.isCharBoundary string position) := by
  unfold Extracted.is_char_boundary Utf8.isCharBoundary
  simp [is_char_boundary_bytes_eq string position hb]

example : Extracted.is_char_boundary [0xE2, 0x82, 0xAC, 0x41] 3 = .ok true := by
  rw [is_char_boundary_eq _ _ (by decide)]; decide
example : Extracted.is_char_boundary [0xE2, 0x82, 0xAC, 0x41] 1 = .ok false := by
  rw [is_char_boundary_eq _ _ (by decide)]; decide
example : Extracted.is_char_boundary [0x41] 5 = .ok false := by
  rw [is_char_boundary_eq _ _ (by decide)]; decide

/-! ### `konst_kernel::iter::repeat` (no model definition: stated on the generated structure) -/

/-- `iter::repeat(val)`: the state holding `val` -/
theorem iter_repeat_eq {T : Type} (val : T) : Extracted.iter_repeat val = .ok ⟨val⟩ := rfl

/-- `Repeat::next`: every call returns the element and the SAME state (the endless iterator) -/
theorem Repeat.next_eq {T : Type} (self : Extracted.Repeat T) :
    Extracted.Repeat.next self = .ok (some (self._0, self)) := rfl

/-- `Repeat::next_back`: the same as `next` -/
theorem Repeat.next_back_eq {T : Type} (self : Extracted.Repeat T) :
    Extracted.Repeat.next_back self = .ok (some (self._0, self)) := rfl

/-- `Repeat::rev`: the same state -/
theorem Repeat.rev_eq {T : Type} (self : Extracted.Repeat T) : Extracted.Repeat.rev self = .ok self := rfl

/-- `Repeat::copy`: the same state (`Self(self.0)`) -/
theorem Repeat.copy_eq {T : Type} (self : Extracted.Repeat T) : Extracted.Repeat.copy self = .ok self := rfl

/-- `n` successive `next` calls on `repeat(v)`: all return `v`, the iterator never ends.  `run n it` collects
    the elements of `n` calls, threading the returned state. -/
def Repeat.run {T : Type} : Nat → Extracted.Repeat T → Res (List T × Extracted.Repeat T)
  | 0, it => .ok ([], it)
  | n + 1, it =>
    match Extracted.Repeat.next it with
    | .ok (some (x, it')) =>
      match Repeat.run n it' with
      | .ok (xs, it'') => .ok (x :: xs, it'')
      | r => r
    | .ok none => .ok ([], it)
    | .panic => .panic
    | .ub => .ub
    | .nofuel => .nofuel

theorem Repeat.next_iterate {T : Type} (n : Nat) (v : T) :
    Repeat.run n (⟨v⟩ : Extracted.Repeat T) = .ok (List.replicate n v, ⟨v⟩) := by
  induction n with
  | zero => rfl
  | succ n ih => simp [Repeat.run, Repeat.next_eq, ih, List.replicate_succ]

example : Extracted.iter_repeat 7 = .ok ⟨7⟩ := iter_repeat_eq 7
example : Extracted.Repeat.next ⟨7⟩ = .ok (some (7, ⟨7⟩)) := Repeat.next_eq ⟨7⟩
example : Extracted.Repeat.next_back ⟨7⟩ = .ok (some (7, ⟨7⟩)) := Repeat.next_back_eq ⟨7⟩
example : Extracted.Repeat.rev ⟨7⟩ = .ok ⟨7⟩ := Repeat.rev_eq ⟨7⟩
example : Extracted.Repeat.copy ⟨7⟩ = .ok ⟨7⟩ := Repeat.copy_eq ⟨7⟩
example : Repeat.run 3 (⟨7⟩ : Extracted.Repeat Nat) = .ok ([7, 7, 7], ⟨7⟩) := Repeat.next_iterate 3 7

end Extracted.Equiv
