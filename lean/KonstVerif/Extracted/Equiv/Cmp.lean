import KonstVerif.Extracted.Gen.Cmp
import KonstVerif.Model.Cmp
/-
  Extracted (regenerated from /repo) = Model, for the slice / string comparison functions (C16).

  Shape of the model (`Model/Cmp.lean`): every integer type is the mathematical integers, so the
  model functions are `List Int → List Int → Option _`, where `none` = "the Rust code panicked"
  (an out-of-bounds index).  The extraction keeps `u8`/`u64` as `Nat` and `i8` as `Int`; a `List Nat`
  is handed to the model as `left.map Int.ofNat` (value-preserving, order-preserving embedding).
  Every theorem therefore reads

      ∃ v, Model.f left' right' = some v ∧ Extracted.f fuel left right = .ok v

  i.e. model and extraction both return normally (no index panic, no `i += 1` overflow, fuel
  suffices) with the same value.  `Extracted.U8Ordering {_0}` is mapped to the model's
  `Konst.Cmp.U8Ordering {val}` by `u8ordOfModel` / `u8ordToModel` (same `u8` payload).
-/
namespace Extracted.Equiv
open Rs Konst Konst.Cmp

/-- the model's `U8Ordering(val)` as the extracted `U8Ordering(_0)` -/
def u8ordOfModel (o : Konst.Cmp.U8Ordering) : Extracted.U8Ordering := ⟨o.val⟩
/-- the extracted `U8Ordering(_0)` as the model's `U8Ordering(val)` -/
def u8ordToModel (x : Extracted.U8Ordering) : Konst.Cmp.U8Ordering := ⟨x._0⟩

@[simp] theorem u8ordToModel_ofModel (o : Konst.Cmp.U8Ordering) : u8ordToModel (u8ordOfModel o) = o := rfl
@[simp] theorem u8ordOfModel_toModel (x : Extracted.U8Ordering) : u8ordOfModel (u8ordToModel x) = x := rfl

theorem U8Ordering.to_ordering_eq (x : Extracted.U8Ordering) :
    Extracted.U8Ordering.to_ordering x = .ok (u8ordToModel x).toOrdering := by
  obtain ⟨n⟩ := x
  unfold Extracted.U8Ordering.to_ordering Konst.Cmp.U8Ordering.toOrdering u8ordToModel
  by_cases h0 : n = 0
  · subst h0; rfl
  · by_cases h1 : n = 1
    · subst h1; rfl
    · simp [Extracted.U8Ordering.LESS, Extracted.U8Ordering.GREATER, Konst.Cmp.U8Ordering.LESS,
        Konst.Cmp.U8Ordering.GREATER, h0, h1]

example : Extracted.U8Ordering.to_ordering ⟨1⟩ = .ok .gt := U8Ordering.to_ordering_eq ⟨1⟩
example : Extracted.U8Ordering.to_ordering ⟨7⟩ = .ok .eq := by decide

/-! ### the loop bodies, once for every element type

  The four `eq_*.loop1` are the same text, as are the four `cmp_*_inner.loop1`; `eqBody` / `cmpBody`
  are that text over an arbitrary element type and each generated body is (definitionally) an
  instance. -/

def eqBody {α : Type} [DecidableEq α] (left right : List α) : Nat → Ctl (LoopExit Bool Nat Nat) Nat := fun i => do
  if (decide (i ≠ left.length)) then do
      let t1_ ← Rs.index left i
      let t2_ ← Rs.index right i
      let _ ← (if (decide (t1_ ≠ t2_)) then do
            Ctl.exit (.out false)
          else do
            pure ())
      let i ← Rs.uadd 64 i (1 : Nat)
      pure i
  else Ctl.exit (.brk i)

def cmpBody {α : Type} [DecidableEq α] [LT α] [DecidableLT α] (min_len : Nat) (left right : List α) :
    Nat → Ctl (LoopExit Extracted.U8Ordering Nat Nat) Nat := fun i => do
  if (decide (i < min_len)) then do
      let _ ← (do
            let t1_ ← Rs.index left i
            let l := t1_
            let t2_ ← Rs.index right i
            let r := t2_
            let _ ← (if (decide (l ≠ r)) then do
                  Ctl.exit (.out (Extracted.U8Ordering.mk (Rs.boolToNat (decide (l > r)))))
                else do
                  pure ())
            pure ())
      let i ← Rs.uadd 64 i (1 : Nat)
      pure i
  else Ctl.exit (.brk i)

theorem eq_bytes_loop1 : Extracted.eq_bytes.loop1 = eqBody (α := Nat) := rfl
theorem eq_str_loop1 : Extracted.eq_str.loop1 = eqBody (α := Nat) := rfl
theorem eq_slice_i8_loop1 : Extracted.eq_slice_i8.loop1 = eqBody (α := Int) := rfl
theorem eq_slice_u64_loop1 : Extracted.eq_slice_u64.loop1 = eqBody (α := Nat) := rfl
theorem cmp_bytes_inner_loop1 : Extracted.cmp_bytes_inner.loop1 = cmpBody (α := Nat) := rfl
theorem cmp_str_inner_loop1 : Extracted.cmp_str_inner.loop1 = cmpBody (α := Nat) := rfl
theorem cmp_slice_i8_inner_loop1 : Extracted.cmp_slice_i8_inner.loop1 = cmpBody (α := Int) := rfl
theorem cmp_slice_u64_inner_loop1 : Extracted.cmp_slice_u64_inner.loop1 = cmpBody (α := Nat) := rfl

/-- the `while i != left.len()` loop of `eq_*`, from any state `i`, on slices of equal length:
    `f` embeds the element type into the model's `Int` (`n` = fuel of the extracted loop) -/
theorem eq_loop {α : Type} [DecidableEq α] (f : α → Int) (hinj : ∀ a b, f a = f b ↔ a = b)
    (n : Nat) (left right : List α) (i : Nat)
    (hlen : left.length = right.length) (hb : left.length < 2 ^ 64)
    (hn : left.length + 1 ≤ n + i) (hi : i ≤ left.length) :
    (eqLoop (left.map f) (right.map f) i = some false ∧
        Rs.loop n (eqBody left right) i = (Ctl.exit false : Ctl Bool Nat)) ∨
    (eqLoop (left.map f) (right.map f) i = some true ∧
        ∃ j, Rs.loop n (eqBody left right) i = (Ctl.val j : Ctl Bool Nat)) := by
  induction n generalizing i with
  | zero => omega
  | succ n ih =>
    rw [Rs.loop_succ, eqLoop]
    by_cases hc : i = left.length
    · right
      simp [eqBody, hc]
    · have hil : i < left.length := by omega
      have hir : i < right.length := by omega
      have h1 : i + 1 < 2 ^ 64 := by omega
      simp only [eqBody, Rs.index, Rs.uadd, List.getElem?_eq_getElem hil, List.getElem?_eq_getElem hir,
        List.length_map, List.getElem?_map, List.getElem_map, Option.map_some, hc, hil, h1,
        ne_eq, not_false_eq_true, decide_true, decide_not, ↓reduceIte, ↓reduceDIte,
        Ctl.bind_eq, Ctl.bind_val, Ctl.pure_eq, hinj]
      by_cases he : left[i] = right[i]
      · simp only [he, decide_true, Bool.not_true, Bool.false_eq_true, not_true_eq_false, ↓reduceIte,
          Ctl.bind_val]
        exact ih (i := i + 1) (by omega) (by omega)
      · left
        simp [he]

/-- the `while i < min_len` loop of `cmp_inner` / `cmp_str_inner`, from any state `i`; `tail` is the
    value of the code after the loop -/
theorem cmp_loop {α : Type} [DecidableEq α] [LT α] [DecidableLT α] (f : α → Int)
    (hinj : ∀ a b, f a = f b ↔ a = b) (hgt : ∀ a b, f a > f b ↔ a > b)
    (n : Nat) (left right : List α) (minLen : Nat) (tail : Konst.Cmp.U8Ordering) (i : Nat)
    (hl : minLen ≤ left.length) (hr : minLen ≤ right.length) (hb : minLen < 2 ^ 64)
    (hn : minLen + 1 ≤ n + i) (hi : i ≤ minLen) :
    (∃ o, elemLoop (left.map f) (right.map f) minLen tail i = some o ∧
        Rs.loop n (cmpBody minLen left right) i
          = (Ctl.exit (u8ordOfModel o) : Ctl Extracted.U8Ordering Nat)) ∨
    (elemLoop (left.map f) (right.map f) minLen tail i = some tail ∧
        ∃ j, Rs.loop n (cmpBody minLen left right) i = (Ctl.val j : Ctl Extracted.U8Ordering Nat)) := by
  induction n generalizing i with
  | zero => omega
  | succ n ih =>
    rw [Rs.loop_succ, elemLoop]
    by_cases hc : i < minLen
    · have hil : i < left.length := by omega
      have hir : i < right.length := by omega
      have h1 : i + 1 < 2 ^ 64 := by omega
      simp only [cmpBody, Rs.index, Rs.uadd, List.getElem?_eq_getElem hil, List.getElem?_eq_getElem hir,
        List.getElem?_map, Option.map_some, hc, h1, retIfNe, hinj, hgt,
        ne_eq, decide_true, decide_not, ↓reduceIte, Ctl.bind_eq, Ctl.bind_val, Ctl.pure_eq]
      by_cases he : left[i] = right[i]
      · simp only [he, decide_true, Bool.not_true, Bool.false_eq_true, not_true_eq_false, ↓reduceIte,
          Ctl.bind_val]
        exact ih (i := i + 1) (by omega) (by omega)
      · left
        simp [he, u8ordOfModel, boolAsU8, Rs.boolToNat]
    · right
      simp [cmpBody, hc]

/-! ### the function bodies, once for every element type -/

/-- the text of `eq_bytes` / `eq_str` / `eq_slice_*` over `eqBody` -/
def eqFn {α : Type} [DecidableEq α] (fuel : Nat) (left right : List α) : Res Bool := Ctl.run (ρ := Bool) do
  let _ ← (if (decide (left.length ≠ right.length)) then do
        Ctl.exit (false)
      else do
        pure ())
  let i := (0 : Nat)
  let _ ← (Rs.loop fuel (eqBody left right) i)
  pure true

/-- the text of `cmp_bytes::cmp_inner` / `cmp_slice_*::cmp_inner` over `cmpBody` -/
def cmpInnerFn {α : Type} [DecidableEq α] [LT α] [DecidableLT α] (fuel : Nat) (left right : List α) :
    Res Extracted.U8Ordering := Ctl.run (ρ := Extracted.U8Ordering) do
  let left_len := left.length
  let right_len := right.length
  let min_len := (if (decide (left_len < right_len)) then left_len else right_len)
  let i := (0 : Nat)
  let _ ← (Rs.loop fuel (cmpBody min_len left right) i)
  let _ ← (do
        let l := left_len
        let r := right_len
        let _ ← (if (decide (l ≠ r)) then do
              Ctl.exit ((Extracted.U8Ordering.mk (Rs.boolToNat (decide (l > r)))))
            else do
              pure ())
        pure ())
  pure Extracted.U8Ordering.EQUAL

/-- the text of `cmp_str_inner` over `cmpBody` -/
def cmpStrInnerFn {α : Type} [DecidableEq α] [LT α] [DecidableLT α] (fuel : Nat) (left right : List α) :
    Res Extracted.U8Ordering := Ctl.run (ρ := Extracted.U8Ordering) do
  let left_len := left.length
  let right_len := right.length
  let t1_ ← (if (decide (left_len < right_len)) then do
        pure (left_len, Extracted.U8Ordering.LESS)
      else do
        pure (right_len, Extracted.U8Ordering.GREATER))
  let (min_len, on_ne) := t1_
  let i := (0 : Nat)
  let _ ← (Rs.loop fuel (cmpBody min_len left right) i)
  pure (if (decide (left_len = right_len)) then Extracted.U8Ordering.EQUAL else on_ne)

theorem eq_bytes_fn : Extracted.eq_bytes = eqFn (α := Nat) := rfl
theorem eq_str_fn : Extracted.eq_str = eqFn (α := Nat) := rfl
theorem eq_slice_i8_fn : Extracted.eq_slice_i8 = eqFn (α := Int) := rfl
theorem eq_slice_u64_fn : Extracted.eq_slice_u64 = eqFn (α := Nat) := rfl
theorem cmp_bytes_inner_fn : Extracted.cmp_bytes_inner = cmpInnerFn (α := Nat) := rfl
theorem cmp_str_inner_fn : Extracted.cmp_str_inner = cmpStrInnerFn (α := Nat) := rfl
theorem cmp_slice_i8_inner_fn : Extracted.cmp_slice_i8_inner = cmpInnerFn (α := Int) := rfl
theorem cmp_slice_u64_inner_fn : Extracted.cmp_slice_u64_inner = cmpInnerFn (α := Nat) := rfl

theorem eqFn_eq {α : Type} [DecidableEq α] (f : α → Int) (hinj : ∀ a b, f a = f b ↔ a = b)
    (fuel : Nat) (left right : List α)
    (hb : min left.length right.length < 2 ^ 64) (hf : min left.length right.length + 1 ≤ fuel) :
    ∃ b, eqSlice (left.map f) (right.map f) = some b ∧ eqFn fuel left right = .ok b := by
  unfold eqFn eqSlice
  by_cases hlen : left.length = right.length
  · rcases eq_loop f hinj fuel left right 0 hlen (by omega) (by omega) (by omega) with ⟨h1, h2⟩ | ⟨h1, j, h2⟩
    · exact ⟨false, by simp [hlen, h1], by simp [hlen, h2]⟩
    · exact ⟨true, by simp [hlen, h1], by simp [hlen, h2]⟩
  · exact ⟨false, by simp [hlen], by simp [hlen]⟩

theorem cmpInnerFn_eq {α : Type} [DecidableEq α] [LT α] [DecidableLT α] (f : α → Int)
    (hinj : ∀ a b, f a = f b ↔ a = b) (hgt : ∀ a b, f a > f b ↔ a > b)
    (fuel : Nat) (left right : List α)
    (hb : min left.length right.length < 2 ^ 64) (hf : min left.length right.length + 1 ≤ fuel) :
    ∃ o, cmpSliceInner (left.map f) (right.map f) = some o ∧
      cmpInnerFn fuel left right = .ok (u8ordOfModel o) := by
  unfold cmpInnerFn cmpSliceInner
  simp only [List.length_map]
  have hmin : (if left.length < right.length then left.length else right.length)
      = min left.length right.length := by split <;> omega
  simp only [decide_eq_true_eq, hmin]
  rcases cmp_loop f hinj hgt fuel left right (min left.length right.length)
      (lenTail left.length right.length) 0 (by omega) (by omega) hb (by omega) (by omega)
    with ⟨o, h1, h2⟩ | ⟨h1, j, h2⟩
  · exact ⟨o, h1, by simp [h2]⟩
  · refine ⟨_, h1, ?_⟩
    simp only [h2, Ctl.bind_eq, Ctl.bind_val, Ctl.pure_eq, lenTail, retIfNe]
    by_cases hne : left.length = right.length
    · simp [hne, u8ordOfModel, Extracted.U8Ordering.EQUAL, Konst.Cmp.U8Ordering.EQUAL]
    · simp [hne, u8ordOfModel, boolAsU8, Rs.boolToNat]

theorem cmpStrInnerFn_eq {α : Type} [DecidableEq α] [LT α] [DecidableLT α] (f : α → Int)
    (hinj : ∀ a b, f a = f b ↔ a = b) (hgt : ∀ a b, f a > f b ↔ a > b)
    (fuel : Nat) (left right : List α)
    (hb : min left.length right.length < 2 ^ 64) (hf : min left.length right.length + 1 ≤ fuel) :
    ∃ o, cmpStrInner (left.map f) (right.map f) = some o ∧
      cmpStrInnerFn fuel left right = .ok (u8ordOfModel o) := by
  unfold cmpStrInnerFn cmpStrInner
  simp only [List.length_map]
  by_cases hlt : left.length < right.length
  · have hm : min left.length right.length = left.length := by omega
    rw [hm] at hb hf
    rcases cmp_loop f hinj hgt fuel left right left.length
        (if left.length = right.length then Konst.Cmp.U8Ordering.EQUAL else Konst.Cmp.U8Ordering.LESS)
        0 (by omega) (by omega) hb (by omega) (by omega)
      with ⟨o, h1, h2⟩ | ⟨h1, j, h2⟩
    · exact ⟨o, by simpa [hlt] using h1, by simp [hlt, h2]⟩
    · refine ⟨_, by simpa [hlt] using h1, ?_⟩
      have hne : left.length ≠ right.length := by omega
      simp [hlt, h2, hne, u8ordOfModel, Extracted.U8Ordering.LESS, Konst.Cmp.U8Ordering.LESS]
  · have hm : min left.length right.length = right.length := by omega
    rw [hm] at hb hf
    rcases cmp_loop f hinj hgt fuel left right right.length
        (if left.length = right.length then Konst.Cmp.U8Ordering.EQUAL else Konst.Cmp.U8Ordering.GREATER)
        0 (by omega) (by omega) hb (by omega) (by omega)
      with ⟨o, h1, h2⟩ | ⟨h1, j, h2⟩
    · exact ⟨o, by simpa [hlt] using h1, by simp [hlt, h2]⟩
    · refine ⟨_, by simpa [hlt] using h1, ?_⟩
      by_cases hne : left.length = right.length
      · simp [h2, hne, u8ordOfModel, Extracted.U8Ordering.EQUAL, Konst.Cmp.U8Ordering.EQUAL]
      · simp [hlt, h2, hne, u8ordOfModel, Extracted.U8Ordering.GREATER, Konst.Cmp.U8Ordering.GREATER]

/-! ### the embeddings `u8`, `u64` (`Nat`) and `i8` (`Int`) into the model's `Int` -/

theorem ofNat_inj (a b : Nat) : Int.ofNat a = Int.ofNat b ↔ a = b := ⟨Int.ofNat.inj, congrArg _⟩
theorem ofNat_gt (a b : Nat) : Int.ofNat a > Int.ofNat b ↔ a > b := Int.ofNat_lt
theorem id_inj (a b : Int) : id a = id b ↔ a = b := Iff.rfl
theorem id_gt (a b : Int) : id a > id b ↔ a > b := Iff.rfl

/-! ### the equivalence theorems -/

/-- `to_ordering` after a non-panicking `cmp_inner` -/
theorem cmp_of_inner {o : Konst.Cmp.U8Ordering} {m : Option Konst.Cmp.U8Ordering}
    {x : Res Extracted.U8Ordering} (hm : m = some o) (hx : x = .ok (u8ordOfModel o)) :
    ∃ c, m.map Konst.Cmp.U8Ordering.toOrdering = some c ∧
      Ctl.run (ρ := Ordering) (do
        let t1_ ← Ctl.call x
        let t2_ ← Ctl.call (Extracted.U8Ordering.to_ordering t1_)
        pure t2_) = .ok c := by
  subst hm hx
  exact ⟨o.toOrdering, rfl, by simp [U8Ordering.to_ordering_eq]⟩

/-! #### `&[u8]` -/

theorem eq_bytes_eq (fuel : Nat) (left right : List Nat)
    (hb : min left.length right.length < 2 ^ 64) (hf : min left.length right.length + 1 ≤ fuel) :
    ∃ b, eqSlice (left.map Int.ofNat) (right.map Int.ofNat) = some b ∧
      Extracted.eq_bytes fuel left right = .ok b :=
  eqFn_eq Int.ofNat ofNat_inj fuel left right hb hf

example : ∃ b, eqSlice [1, 2, 3] [1, 2, 4] = some b ∧ Extracted.eq_bytes 4 [1, 2, 3] [1, 2, 4] = .ok b :=
  eq_bytes_eq 4 [1, 2, 3] [1, 2, 4] (by decide) (by decide)
example : Extracted.eq_bytes 4 [1, 2, 3] [1, 2, 4] = .ok false := by decide
example : Extracted.eq_bytes 4 [1, 2, 3] [1, 2, 3] = .ok true := by decide

theorem cmp_bytes_inner_eq (fuel : Nat) (left right : List Nat)
    (hb : min left.length right.length < 2 ^ 64) (hf : min left.length right.length + 1 ≤ fuel) :
    ∃ o, cmpSliceInner (left.map Int.ofNat) (right.map Int.ofNat) = some o ∧
      Extracted.cmp_bytes_inner fuel left right = .ok (u8ordOfModel o) :=
  cmpInnerFn_eq Int.ofNat ofNat_inj ofNat_gt fuel left right hb hf

example : ∃ o, cmpSliceInner [1, 2] [1, 2, 0] = some o ∧
    Extracted.cmp_bytes_inner 3 [1, 2] [1, 2, 0] = .ok (u8ordOfModel o) :=
  cmp_bytes_inner_eq 3 [1, 2] [1, 2, 0] (by decide) (by decide)
example : Extracted.cmp_bytes_inner 3 [1, 2] [1, 2, 0] = .ok ⟨0⟩ := by decide
example : Extracted.cmp_bytes_inner 3 [1, 9] [1, 2, 0] = .ok ⟨1⟩ := by decide

theorem cmp_bytes_eq (fuel : Nat) (left right : List Nat)
    (hb : min left.length right.length < 2 ^ 64) (hf : min left.length right.length + 1 ≤ fuel) :
    ∃ c, cmpSlice (left.map Int.ofNat) (right.map Int.ofNat) = some c ∧
      Extracted.cmp_bytes fuel left right = .ok c := by
  obtain ⟨o, h1, h2⟩ := cmp_bytes_inner_eq fuel left right hb hf
  exact cmp_of_inner h1 h2

example : Extracted.cmp_bytes 3 [1, 9] [1, 2, 0] = .ok .gt := by decide
example : Extracted.cmp_bytes 3 [1, 2] [1, 2, 0] = .ok .lt := by decide
example : Extracted.cmp_bytes 3 [1, 2] [1, 2] = .ok .eq := by decide

/-! #### `&str` (its UTF-8 bytes) -/

theorem eq_str_eq (fuel : Nat) (left right : List Nat)
    (hb : min left.length right.length < 2 ^ 64) (hf : min left.length right.length + 1 ≤ fuel) :
    ∃ b, eqStr (left.map Int.ofNat) (right.map Int.ofNat) = some b ∧
      Extracted.eq_str fuel left right = .ok b :=
  eqFn_eq Int.ofNat ofNat_inj fuel left right hb hf

example : Extracted.eq_str 3 [104, 105] [104, 105] = .ok true := by decide

theorem cmp_str_inner_eq (fuel : Nat) (left right : List Nat)
    (hb : min left.length right.length < 2 ^ 64) (hf : min left.length right.length + 1 ≤ fuel) :
    ∃ o, cmpStrInner (left.map Int.ofNat) (right.map Int.ofNat) = some o ∧
      Extracted.cmp_str_inner fuel left right = .ok (u8ordOfModel o) :=
  cmpStrInnerFn_eq Int.ofNat ofNat_inj ofNat_gt fuel left right hb hf

example : ∃ o, cmpStrInner [104, 105, 33] [104, 105] = some o ∧
    Extracted.cmp_str_inner 3 [104, 105, 33] [104, 105] = .ok (u8ordOfModel o) :=
  cmp_str_inner_eq 3 [104, 105, 33] [104, 105] (by decide) (by decide)
example : Extracted.cmp_str_inner 3 [104, 105, 33] [104, 105] = .ok ⟨1⟩ := by decide

theorem cmp_str_eq (fuel : Nat) (left right : List Nat)
    (hb : min left.length right.length < 2 ^ 64) (hf : min left.length right.length + 1 ≤ fuel) :
    ∃ c, cmpStr (left.map Int.ofNat) (right.map Int.ofNat) = some c ∧
      Extracted.cmp_str fuel left right = .ok c := by
  obtain ⟨o, h1, h2⟩ := cmp_str_inner_eq fuel left right hb hf
  exact cmp_of_inner h1 h2

example : Extracted.cmp_str 3 [104, 105] [104, 106] = .ok .lt := by decide
example : Extracted.cmp_str 3 [104, 105, 33] [104, 105] = .ok .gt := by decide

/-! #### `&[i8]` (elements already `Int`) -/

theorem eq_slice_i8_eq (fuel : Nat) (left right : List Int)
    (hb : min left.length right.length < 2 ^ 64) (hf : min left.length right.length + 1 ≤ fuel) :
    ∃ b, eqSlice left right = some b ∧ Extracted.eq_slice_i8 fuel left right = .ok b := by
  have h := eqFn_eq id id_inj fuel left right hb hf
  simp only [List.map_id] at h
  exact h

example : ∃ b, eqSlice [-1, 2] [-1, 3] = some b ∧ Extracted.eq_slice_i8 3 [-1, 2] [-1, 3] = .ok b :=
  eq_slice_i8_eq 3 [-1, 2] [-1, 3] (by decide) (by decide)
example : Extracted.eq_slice_i8 3 [-1, 2] [-1, 3] = .ok false := by decide

theorem cmp_slice_i8_inner_eq (fuel : Nat) (left right : List Int)
    (hb : min left.length right.length < 2 ^ 64) (hf : min left.length right.length + 1 ≤ fuel) :
    ∃ o, cmpSliceInner left right = some o ∧
      Extracted.cmp_slice_i8_inner fuel left right = .ok (u8ordOfModel o) := by
  have h := cmpInnerFn_eq id id_inj id_gt fuel left right hb hf
  simp only [List.map_id] at h
  exact h

example : Extracted.cmp_slice_i8_inner 3 [-1, -128] [-1, 127] = .ok ⟨0⟩ := by decide

theorem cmp_slice_i8_eq (fuel : Nat) (left right : List Int)
    (hb : min left.length right.length < 2 ^ 64) (hf : min left.length right.length + 1 ≤ fuel) :
    ∃ c, cmpSlice left right = some c ∧ Extracted.cmp_slice_i8 fuel left right = .ok c := by
  obtain ⟨o, h1, h2⟩ := cmp_slice_i8_inner_eq fuel left right hb hf
  exact cmp_of_inner h1 h2

example : ∃ c, cmpSlice [-1, -128] [-1, 127] = some c ∧
    Extracted.cmp_slice_i8 3 [-1, -128] [-1, 127] = .ok c :=
  cmp_slice_i8_eq 3 [-1, -128] [-1, 127] (by decide) (by decide)
example : Extracted.cmp_slice_i8 3 [-1, -128] [-1, 127] = .ok .lt := by decide
example : Extracted.cmp_slice_i8 3 [0, 5] [0] = .ok .gt := by decide

/-! #### `&[u64]` -/

theorem eq_slice_u64_eq (fuel : Nat) (left right : List Nat)
    (hb : min left.length right.length < 2 ^ 64) (hf : min left.length right.length + 1 ≤ fuel) :
    ∃ b, eqSlice (left.map Int.ofNat) (right.map Int.ofNat) = some b ∧
      Extracted.eq_slice_u64 fuel left right = .ok b :=
  eqFn_eq Int.ofNat ofNat_inj fuel left right hb hf

example : Extracted.eq_slice_u64 3 [18446744073709551615, 0] [18446744073709551615, 0] = .ok true := by decide

theorem cmp_slice_u64_inner_eq (fuel : Nat) (left right : List Nat)
    (hb : min left.length right.length < 2 ^ 64) (hf : min left.length right.length + 1 ≤ fuel) :
    ∃ o, cmpSliceInner (left.map Int.ofNat) (right.map Int.ofNat) = some o ∧
      Extracted.cmp_slice_u64_inner fuel left right = .ok (u8ordOfModel o) :=
  cmpInnerFn_eq Int.ofNat ofNat_inj ofNat_gt fuel left right hb hf

example : Extracted.cmp_slice_u64_inner 3 [7, 7] [7, 7] = .ok ⟨2⟩ := by decide

theorem cmp_slice_u64_eq (fuel : Nat) (left right : List Nat)
    (hb : min left.length right.length < 2 ^ 64) (hf : min left.length right.length + 1 ≤ fuel) :
    ∃ c, cmpSlice (left.map Int.ofNat) (right.map Int.ofNat) = some c ∧
      Extracted.cmp_slice_u64 fuel left right = .ok c := by
  obtain ⟨o, h1, h2⟩ := cmp_slice_u64_inner_eq fuel left right hb hf
  exact cmp_of_inner h1 h2

example : ∃ c, cmpSlice [18446744073709551615, 0] [18446744073709551615] = some c ∧
    Extracted.cmp_slice_u64 2 [18446744073709551615, 0] [18446744073709551615] = .ok c :=
  cmp_slice_u64_eq 2 [18446744073709551615, 0] [18446744073709551615] (by decide) (by decide)
example : Extracted.cmp_slice_u64 2 [18446744073709551615, 0] [18446744073709551615] = .ok .gt := by decide

end Extracted.Equiv
