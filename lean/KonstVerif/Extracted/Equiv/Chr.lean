import KonstVerif.Extracted.Gen.Chr
import KonstVerif.Model.Chr
/-
  Extracted (regenerated from /repo) = Model, for the char conversions (C07):
  `konst_kernel::chr::char_formatting::encode_utf8` and `konst_kernel::chr::from_u32`.

  The generated `structure Extracted.Utf8Encoded {encoded : List Nat, len : Nat}` and the model's
  `Konst.Chr.Utf8Encoded` are two copies of the same record; `toExtracted` is the (field-wise)
  correspondence.
-/
namespace Extracted.Equiv
open Rs Konst Konst.Chr

/-- the model's `Utf8Encoded` as the generated record (same two fields) -/
def toExtracted (e : Konst.Chr.Utf8Encoded) : Extracted.Utf8Encoded := ⟨e.encoded, e.len⟩

@[simp] theorem toExtracted_encoded (e : Konst.Chr.Utf8Encoded) : (toExtracted e).encoded = e.encoded := rfl
@[simp] theorem toExtracted_len (e : Konst.Chr.Utf8Encoded) : (toExtracted e).len = e.len := rfl

/-- `encode_utf8` for every `u32` value (in particular for every `char`): the last `match` arm is
    `0x10000..=u32::MAX`, so the only hypothesis is that the argument is a `u32`; no shift panics
    (all shift amounts are `< 32`). -/
theorem encode_utf8_eq (c : Nat) (hc : c < 2 ^ 32) :
    Extracted.encode_utf8 c = .ok (toExtracted (encodeUtf8 c)) := by
  unfold Extracted.encode_utf8 encodeUtf8 toExtracted
  simp only [id, Rs.ushr, Rs.castUU, asU8, Nat.zero_le, decide_true, Bool.true_and, Ctl.pure_eq, Ctl.bind_eq,
    Ctl.bind_val, Nat.reduceLT, ↓reduceIte, Nat.reducePow, decide_eq_true_eq, Bool.and_eq_true]
  by_cases h1 : c ≤ 127
  · simp [h1]
  · by_cases h2 : c ≤ 2047
    · have : 128 ≤ c := by omega
      simp [h1, h2, this]
    · by_cases h3 : c ≤ 65535
      · have : 128 ≤ c := by omega
        have : 2048 ≤ c := by omega
        simp [*]
      · have : 128 ≤ c := by omega
        have : 2048 ≤ c := by omega
        have : 65536 ≤ c := by omega
        have : c ≤ 4294967295 := by omega
        simp [*]

example : Extracted.encode_utf8 0x20AC = .ok ⟨[0xE2, 0x82, 0xAC, 0], 3⟩ := by decide
example : Extracted.encode_utf8 0x20AC = .ok (toExtracted (encodeUtf8 0x20AC)) := encode_utf8_eq _ (by decide)
example : Extracted.encode_utf8 0x1F600 = .ok (toExtracted (encodeUtf8 0x1F600)) := encode_utf8_eq _ (by decide)

/-- `from_u32`, for every `n` (no hypothesis): `from_u32_unchecked` is only reached under the
    guard that makes it defined, so the result is never `ub`. -/
theorem from_u32_eq (n : Nat) : Extracted.from_u32 n = .ok (fromU32 n) := by
  unfold Extracted.from_u32 fromU32 Rs.charFromU32Unchecked
  by_cases h : n < 55296 ∨ (57344 ≤ n ∧ n ≤ 1114111)
  · have h' : (decide (n < 55296) || (decide (57344 ≤ n) && decide (n ≤ 1114111))) = true := by
      simpa using h
    simp [h', h]
  · have h' : (decide (n < 55296) || (decide (57344 ≤ n) && decide (n ≤ 1114111))) = false := by
      simpa using h
    simp [h']

example : Extracted.from_u32 0x41 = .ok (some 0x41) := by decide
example : Extracted.from_u32 0xD800 = .ok none := from_u32_eq _
example : Extracted.from_u32 0x10FFFF = .ok (some 0x10FFFF) := from_u32_eq _

end Extracted.Equiv
