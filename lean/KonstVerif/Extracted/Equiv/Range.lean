import KonstVerif.Extracted.Gen.Range
import KonstVerif.Extracted.Equiv.Chr
import KonstVerif.Model.Range
/-
  Extracted (regenerated from /repo) = Model, for the arms of `konst_kernel::step_kk::increment` /
  `decrement` (C09) that the translator emits: u8, i8, usize, i64, u128, i128, char.

  The generated `structure Extracted.StepRet T {finished_inclusive, finished_exclusive, overflowed, next}`
  and the model's `Konst.Range.StepRet α` are two copies of the same record; `ofModel f` / `toModel f`
  are the field-wise correspondences (`f` converts the `next` field).

  The model's `increment`/`decrement` return `Option (StepRet _)` (`none` = panic).  The theorems have
  the shape
      `∃ r, Model.f start end_ = some r ∧ Extracted.f start end_ = .ok (ofModel _ r)`
  i.e. the model does not panic and the generated definition returns exactly the model's record.

  * signed types: generated and model values are both `Int`, the conversion is `ofModel id`.
  * unsigned types: generated values are `Nat`, the model's are `Int`; the model is applied to the casts
    `(start : Int)`, `(end_ : Int)`, the conversion is `ofModel Int.toNat`, and a third conjunct
    `toModel Int.ofNat (ofModel Int.toNat r) = r` says that nothing is lost by `Int.toNat` (the model's `next`
    is nonnegative).
  * char: generated and model values are both `Nat` scalar values; `*_char_eq'` is the unconditional
    statement (`.panic` exactly when the model says `none`), `*_char_eq` shows `none` unreachable for
    scalar values.

  Hypotheses: only the operand that is stepped has to be a value of the type (`start` for `increment`,
  `end_` for `decrement`); the other operand is only compared, so no bound on it is needed (the theorems
  hold in particular when both are values of the type).
-/
namespace Extracted.Equiv
-- for the concrete `example`s below (the generated record has no `deriving` clause)
deriving instance DecidableEq for Extracted.StepRet
open Rs Konst

/-- the model's `StepRet` as the generated record (same four fields; `f` converts `next`) -/
def ofModel {α T : Type} (f : α → T) (r : Konst.Range.StepRet α) : Extracted.StepRet T :=
  { finished_inclusive := r.finishedInclusive, finished_exclusive := r.finishedExclusive,
    overflowed := r.overflowed, next := f r.next }

/-- the generated `StepRet` as the model's record -/
def toModel {T α : Type} (f : T → α) (r : Extracted.StepRet T) : Konst.Range.StepRet α :=
  { finishedInclusive := r.finished_inclusive, finishedExclusive := r.finished_exclusive,
    overflowed := r.overflowed, next := f r.next }

@[simp] theorem toModel_ofModel_id {α : Type} (r : Konst.Range.StepRet α) : toModel id (ofModel id r) = r := rfl

open Konst.Range

/-- the model's integer `increment` never panics; its value spelled out -/
theorem intIncrement_some (MIN MAX start end_ : Int) :
    intIncrement MIN MAX start end_ = some
      { finishedInclusive := decide (start > end_), finishedExclusive := decide (start ≥ end_),
        overflowed := decide (start + 1 > MAX),
        next := if start + 1 > MAX then start + 1 - (MAX - MIN + 1) else start + 1 } := by
  unfold intIncrement overflowingAdd1
  by_cases h : start + 1 > MAX <;> simp [h]

/-- the model's integer `decrement` never panics; its value spelled out -/
theorem intDecrement_some (MIN MAX start end_ : Int) :
    intDecrement MIN MAX start end_ = some
      { finishedInclusive := decide (end_ < start), finishedExclusive := decide (end_ ≤ start),
        overflowed := decide (end_ - 1 < MIN),
        next := if end_ - 1 < MIN then end_ - 1 + (MAX - MIN + 1) else end_ - 1 } := by
  unfold intDecrement overflowingSub1
  by_cases h : end_ - 1 < MIN <;> simp [h]

/-- `overflowing_add` on a signed type with the three constants of the width made explicit
    (`lo = iN::MIN`, `hi = iN::MAX`, `m = 2^N`), so that the per-type proofs are literal linear arithmetic -/
theorem iOverflowingAdd_lit (bits : Nat) (lo hi m : Int) (hlo : Rs.imin bits = lo) (hhi : Rs.imax bits = hi)
    (hm : (2 : Int) ^ bits = m) (a b : Int) :
    Rs.iOverflowingAdd bits a b =
      (if (a + b) % m ≤ hi then (a + b) % m else (a + b) % m - m, !(decide (lo ≤ a + b) && decide (a + b ≤ hi))) := by
  subst hlo hhi hm; rfl

theorem iOverflowingSub_lit (bits : Nat) (lo hi m : Int) (hlo : Rs.imin bits = lo) (hhi : Rs.imax bits = hi)
    (hm : (2 : Int) ^ bits = m) (a b : Int) :
    Rs.iOverflowingSub bits a b =
      (if (a - b) % m ≤ hi then (a - b) % m else (a - b) % m - m, !(decide (lo ≤ a - b) && decide (a - b ≤ hi))) := by
  subst hlo hhi hm; rfl

theorem uOverflowingAdd_lit (bits m : Nat) (hm : 2 ^ bits = m) (a b : Nat) :
    Rs.uOverflowingAdd bits a b = ((a + b) % m, decide (m ≤ a + b)) := by
  subst hm; rfl

/-- `x.overflowing_sub(1)` on an unsigned type with `MAX = 2^N - 1` as a literal -/
theorem uOverflowingSub1_lit (bits mx : Nat) (hm : 2 ^ bits = mx + 1) (a : Nat) :
    Rs.uOverflowingSub bits a 1 = if a = 0 then (mx, true) else (a - 1, false) := by
  unfold Rs.uOverflowingSub
  rw [hm]
  by_cases h : a = 0
  · subst h; simp
  · have : 1 ≤ a := by omega
    simp [h, this]

/-! ### `u8` (`MIN = 0`, `MAX = 255`) -/
/-- `increment::<u8>`, for every `start : u8` -/
theorem increment_u8_eq (start end_ : Nat) (hs : start ≤ 255) :
    ∃ r, intIncrement 0 255 start end_ = some r ∧
      Extracted.increment_u8 start end_ = .ok (ofModel Int.toNat r) ∧
      toModel Int.ofNat (ofModel Int.toNat r) = r := by
  refine ⟨_, intIncrement_some _ _ _ _, ?_, ?_⟩
  · unfold Extracted.increment_u8
    simp only [uOverflowingAdd_lit 8 256 (by decide)]
    by_cases h : (start : Int) + 1 > 255 <;> simp [ofModel, h] <;> omega
  · by_cases h : (start : Int) + 1 > 255 <;> simp [ofModel, toModel, h] <;> omega

example : Extracted.increment_u8 5 7 = .ok ⟨false, false, false, 6⟩ := by decide
example : Extracted.increment_u8 255 0 = .ok ⟨true, true, true, 0⟩ := by decide
example : ∃ r, intIncrement 0 255 (255 : Nat) (3 : Nat) = some r ∧ Extracted.increment_u8 255 3 = .ok (ofModel Int.toNat r) ∧
    toModel Int.ofNat (ofModel Int.toNat r) = r :=
  increment_u8_eq _ _ (by decide)

/-- `decrement::<u8>`, for every `end_ : u8` -/
theorem decrement_u8_eq (start end_ : Nat) (he : end_ ≤ 255) :
    ∃ r, intDecrement 0 255 start end_ = some r ∧
      Extracted.decrement_u8 start end_ = .ok (ofModel Int.toNat r) ∧
      toModel Int.ofNat (ofModel Int.toNat r) = r := by
  refine ⟨_, intDecrement_some _ _ _ _, ?_, ?_⟩
  · unfold Extracted.decrement_u8
    simp only [uOverflowingSub1_lit 8 255 (by decide)]
    by_cases h : end_ = 0
    · subst h; simp [ofModel]
    · have h1 : ¬ ((end_ : Int) - 1 < 0) := by omega
      simp [ofModel, h, h1]
  · by_cases h : (end_ : Int) - 1 < 0 <;> simp [ofModel, toModel, h] <;> omega

example : Extracted.decrement_u8 5 7 = .ok ⟨false, false, false, 6⟩ := by decide
example : Extracted.decrement_u8 255 0 = .ok ⟨true, true, true, 255⟩ := by decide
example : ∃ r, intDecrement 0 255 (3 : Nat) (0 : Nat) = some r ∧ Extracted.decrement_u8 3 0 = .ok (ofModel Int.toNat r) ∧
    toModel Int.ofNat (ofModel Int.toNat r) = r :=
  decrement_u8_eq _ _ (by decide)

/-! ### `i8` (`MIN = -128`, `MAX = 127`) -/
/-- `increment::<i8>`, for every `start : i8` -/
theorem increment_i8_eq (start end_ : Int) (hs : -128 ≤ start ∧ start ≤ 127) :
    ∃ r, intIncrement (-128) 127 start end_ = some r ∧
      Extracted.increment_i8 start end_ = .ok (ofModel id r) := by
  refine ⟨_, intIncrement_some _ _ _ _, ?_⟩
  unfold Extracted.increment_i8
  simp only [iOverflowingAdd_lit 8 (-128) 127 256 (by decide) (by decide) (by decide)]
  by_cases h : start + 1 > 127 <;> simp [ofModel, h] <;> omega

example : Extracted.increment_i8 5 7 = .ok ⟨false, false, false, 6⟩ := by decide
example : Extracted.increment_i8 127 (-128) = .ok ⟨true, true, true, -128⟩ := by decide
example : ∃ r, intIncrement (-128) 127 127 127 = some r ∧ Extracted.increment_i8 127 127 = .ok (ofModel id r) :=
  increment_i8_eq _ _ (by decide)

/-- `decrement::<i8>`, for every `end_ : i8` -/
theorem decrement_i8_eq (start end_ : Int) (he : -128 ≤ end_ ∧ end_ ≤ 127) :
    ∃ r, intDecrement (-128) 127 start end_ = some r ∧
      Extracted.decrement_i8 start end_ = .ok (ofModel id r) := by
  refine ⟨_, intDecrement_some _ _ _ _, ?_⟩
  unfold Extracted.decrement_i8
  simp only [iOverflowingSub_lit 8 (-128) 127 256 (by decide) (by decide) (by decide)]
  by_cases h : end_ - 1 < -128 <;> simp [ofModel, h] <;> omega

example : Extracted.decrement_i8 5 7 = .ok ⟨false, false, false, 6⟩ := by decide
example : Extracted.decrement_i8 127 (-128) = .ok ⟨true, true, true, 127⟩ := by decide
example : ∃ r, intDecrement (-128) 127 (-128) (-128) = some r ∧ Extracted.decrement_i8 (-128) (-128) = .ok (ofModel id r) :=
  decrement_i8_eq _ _ (by decide)

/-! ### `usize` (`MIN = 0`, `MAX = 18446744073709551615`) -/
/-- `increment::<usize>`, for every `start : usize` -/
theorem increment_usize_eq (start end_ : Nat) (hs : start ≤ 18446744073709551615) :
    ∃ r, intIncrement 0 18446744073709551615 start end_ = some r ∧
      Extracted.increment_usize start end_ = .ok (ofModel Int.toNat r) ∧
      toModel Int.ofNat (ofModel Int.toNat r) = r := by
  refine ⟨_, intIncrement_some _ _ _ _, ?_, ?_⟩
  · unfold Extracted.increment_usize
    simp only [uOverflowingAdd_lit 64 18446744073709551616 (by decide)]
    by_cases h : (start : Int) + 1 > 18446744073709551615 <;> simp [ofModel, h] <;> omega
  · by_cases h : (start : Int) + 1 > 18446744073709551615 <;> simp [ofModel, toModel, h] <;> omega

example : Extracted.increment_usize 5 7 = .ok ⟨false, false, false, 6⟩ := by decide
example : Extracted.increment_usize 18446744073709551615 0 = .ok ⟨true, true, true, 0⟩ := by decide
example : ∃ r, intIncrement 0 18446744073709551615 (18446744073709551615 : Nat) (3 : Nat) = some r ∧ Extracted.increment_usize 18446744073709551615 3 = .ok (ofModel Int.toNat r) ∧
    toModel Int.ofNat (ofModel Int.toNat r) = r :=
  increment_usize_eq _ _ (by decide)

/-- `decrement::<usize>`, for every `end_ : usize` -/
theorem decrement_usize_eq (start end_ : Nat) (he : end_ ≤ 18446744073709551615) :
    ∃ r, intDecrement 0 18446744073709551615 start end_ = some r ∧
      Extracted.decrement_usize start end_ = .ok (ofModel Int.toNat r) ∧
      toModel Int.ofNat (ofModel Int.toNat r) = r := by
  refine ⟨_, intDecrement_some _ _ _ _, ?_, ?_⟩
  · unfold Extracted.decrement_usize
    simp only [uOverflowingSub1_lit 64 18446744073709551615 (by decide)]
    by_cases h : end_ = 0
    · subst h; simp [ofModel]
    · have h1 : ¬ ((end_ : Int) - 1 < 0) := by omega
      simp [ofModel, h, h1]
  · by_cases h : (end_ : Int) - 1 < 0 <;> simp [ofModel, toModel, h] <;> omega

example : Extracted.decrement_usize 5 7 = .ok ⟨false, false, false, 6⟩ := by decide
example : Extracted.decrement_usize 18446744073709551615 0 = .ok ⟨true, true, true, 18446744073709551615⟩ := by decide
example : ∃ r, intDecrement 0 18446744073709551615 (3 : Nat) (0 : Nat) = some r ∧ Extracted.decrement_usize 3 0 = .ok (ofModel Int.toNat r) ∧
    toModel Int.ofNat (ofModel Int.toNat r) = r :=
  decrement_usize_eq _ _ (by decide)

/-! ### `i64` (`MIN = -9223372036854775808`, `MAX = 9223372036854775807`) -/
/-- `increment::<i64>`, for every `start : i64` -/
theorem increment_i64_eq (start end_ : Int) (hs : -9223372036854775808 ≤ start ∧ start ≤ 9223372036854775807) :
    ∃ r, intIncrement (-9223372036854775808) 9223372036854775807 start end_ = some r ∧
      Extracted.increment_i64 start end_ = .ok (ofModel id r) := by
  refine ⟨_, intIncrement_some _ _ _ _, ?_⟩
  unfold Extracted.increment_i64
  simp only [iOverflowingAdd_lit 64 (-9223372036854775808) 9223372036854775807 18446744073709551616 (by decide) (by decide) (by decide)]
  by_cases h : start + 1 > 9223372036854775807 <;> simp [ofModel, h] <;> omega

example : Extracted.increment_i64 5 7 = .ok ⟨false, false, false, 6⟩ := by decide
example : Extracted.increment_i64 9223372036854775807 (-9223372036854775808) = .ok ⟨true, true, true, -9223372036854775808⟩ := by decide
example : ∃ r, intIncrement (-9223372036854775808) 9223372036854775807 9223372036854775807 9223372036854775807 = some r ∧ Extracted.increment_i64 9223372036854775807 9223372036854775807 = .ok (ofModel id r) :=
  increment_i64_eq _ _ (by decide)

/-- `decrement::<i64>`, for every `end_ : i64` -/
theorem decrement_i64_eq (start end_ : Int) (he : -9223372036854775808 ≤ end_ ∧ end_ ≤ 9223372036854775807) :
    ∃ r, intDecrement (-9223372036854775808) 9223372036854775807 start end_ = some r ∧
      Extracted.decrement_i64 start end_ = .ok (ofModel id r) := by
  refine ⟨_, intDecrement_some _ _ _ _, ?_⟩
  unfold Extracted.decrement_i64
  simp only [iOverflowingSub_lit 64 (-9223372036854775808) 9223372036854775807 18446744073709551616 (by decide) (by decide) (by decide)]
  by_cases h : end_ - 1 < -9223372036854775808 <;> simp [ofModel, h] <;> omega

example : Extracted.decrement_i64 5 7 = .ok ⟨false, false, false, 6⟩ := by decide
example : Extracted.decrement_i64 9223372036854775807 (-9223372036854775808) = .ok ⟨true, true, true, 9223372036854775807⟩ := by decide
example : ∃ r, intDecrement (-9223372036854775808) 9223372036854775807 (-9223372036854775808) (-9223372036854775808) = some r ∧ Extracted.decrement_i64 (-9223372036854775808) (-9223372036854775808) = .ok (ofModel id r) :=
  decrement_i64_eq _ _ (by decide)

/-! ### `u128` (`MIN = 0`, `MAX = 340282366920938463463374607431768211455`) -/
/-- `increment::<u128>`, for every `start : u128` -/
theorem increment_u128_eq (start end_ : Nat) (hs : start ≤ 340282366920938463463374607431768211455) :
    ∃ r, intIncrement 0 340282366920938463463374607431768211455 start end_ = some r ∧
      Extracted.increment_u128 start end_ = .ok (ofModel Int.toNat r) ∧
      toModel Int.ofNat (ofModel Int.toNat r) = r := by
  refine ⟨_, intIncrement_some _ _ _ _, ?_, ?_⟩
  · unfold Extracted.increment_u128
    simp only [uOverflowingAdd_lit 128 340282366920938463463374607431768211456 (by decide)]
    by_cases h : (start : Int) + 1 > 340282366920938463463374607431768211455 <;> simp [ofModel, h] <;> omega
  · by_cases h : (start : Int) + 1 > 340282366920938463463374607431768211455 <;> simp [ofModel, toModel, h] <;> omega

example : Extracted.increment_u128 5 7 = .ok ⟨false, false, false, 6⟩ := by decide
example : Extracted.increment_u128 340282366920938463463374607431768211455 0 = .ok ⟨true, true, true, 0⟩ := by decide
example : ∃ r, intIncrement 0 340282366920938463463374607431768211455 (340282366920938463463374607431768211455 : Nat) (3 : Nat) = some r ∧ Extracted.increment_u128 340282366920938463463374607431768211455 3 = .ok (ofModel Int.toNat r) ∧
    toModel Int.ofNat (ofModel Int.toNat r) = r :=
  increment_u128_eq _ _ (by decide)

/-- `decrement::<u128>`, for every `end_ : u128` -/
theorem decrement_u128_eq (start end_ : Nat) (he : end_ ≤ 340282366920938463463374607431768211455) :
    ∃ r, intDecrement 0 340282366920938463463374607431768211455 start end_ = some r ∧
      Extracted.decrement_u128 start end_ = .ok (ofModel Int.toNat r) ∧
      toModel Int.ofNat (ofModel Int.toNat r) = r := by
  refine ⟨_, intDecrement_some _ _ _ _, ?_, ?_⟩
  · unfold Extracted.decrement_u128
    simp only [uOverflowingSub1_lit 128 340282366920938463463374607431768211455 (by decide)]
    by_cases h : end_ = 0
    · subst h; simp [ofModel]
    · have h1 : ¬ ((end_ : Int) - 1 < 0) := by omega
      simp [ofModel, h, h1]
  · by_cases h : (end_ : Int) - 1 < 0 <;> simp [ofModel, toModel, h] <;> omega

example : Extracted.decrement_u128 5 7 = .ok ⟨false, false, false, 6⟩ := by decide
example : Extracted.decrement_u128 340282366920938463463374607431768211455 0 = .ok ⟨true, true, true, 340282366920938463463374607431768211455⟩ := by decide
example : ∃ r, intDecrement 0 340282366920938463463374607431768211455 (3 : Nat) (0 : Nat) = some r ∧ Extracted.decrement_u128 3 0 = .ok (ofModel Int.toNat r) ∧
    toModel Int.ofNat (ofModel Int.toNat r) = r :=
  decrement_u128_eq _ _ (by decide)

/-! ### `i128` (`MIN = -170141183460469231731687303715884105728`, `MAX = 170141183460469231731687303715884105727`) -/
/-- `increment::<i128>`, for every `start : i128` -/
theorem increment_i128_eq (start end_ : Int) (hs : -170141183460469231731687303715884105728 ≤ start ∧ start ≤ 170141183460469231731687303715884105727) :
    ∃ r, intIncrement (-170141183460469231731687303715884105728) 170141183460469231731687303715884105727 start end_ = some r ∧
      Extracted.increment_i128 start end_ = .ok (ofModel id r) := by
  refine ⟨_, intIncrement_some _ _ _ _, ?_⟩
  unfold Extracted.increment_i128
  simp only [iOverflowingAdd_lit 128 (-170141183460469231731687303715884105728) 170141183460469231731687303715884105727 340282366920938463463374607431768211456 (by decide) (by decide) (by decide)]
  by_cases h : start + 1 > 170141183460469231731687303715884105727 <;> simp [ofModel, h] <;> omega

example : Extracted.increment_i128 5 7 = .ok ⟨false, false, false, 6⟩ := by decide
example : Extracted.increment_i128 170141183460469231731687303715884105727 (-170141183460469231731687303715884105728) = .ok ⟨true, true, true, -170141183460469231731687303715884105728⟩ := by decide
example : ∃ r, intIncrement (-170141183460469231731687303715884105728) 170141183460469231731687303715884105727 170141183460469231731687303715884105727 170141183460469231731687303715884105727 = some r ∧ Extracted.increment_i128 170141183460469231731687303715884105727 170141183460469231731687303715884105727 = .ok (ofModel id r) :=
  increment_i128_eq _ _ (by decide)

/-- `decrement::<i128>`, for every `end_ : i128` -/
theorem decrement_i128_eq (start end_ : Int) (he : -170141183460469231731687303715884105728 ≤ end_ ∧ end_ ≤ 170141183460469231731687303715884105727) :
    ∃ r, intDecrement (-170141183460469231731687303715884105728) 170141183460469231731687303715884105727 start end_ = some r ∧
      Extracted.decrement_i128 start end_ = .ok (ofModel id r) := by
  refine ⟨_, intDecrement_some _ _ _ _, ?_⟩
  unfold Extracted.decrement_i128
  simp only [iOverflowingSub_lit 128 (-170141183460469231731687303715884105728) 170141183460469231731687303715884105727 340282366920938463463374607431768211456 (by decide) (by decide) (by decide)]
  by_cases h : end_ - 1 < -170141183460469231731687303715884105728 <;> simp [ofModel, h] <;> omega

example : Extracted.decrement_i128 5 7 = .ok ⟨false, false, false, 6⟩ := by decide
example : Extracted.decrement_i128 170141183460469231731687303715884105727 (-170141183460469231731687303715884105728) = .ok ⟨true, true, true, 170141183460469231731687303715884105727⟩ := by decide
example : ∃ r, intDecrement (-170141183460469231731687303715884105728) 170141183460469231731687303715884105727 (-170141183460469231731687303715884105728) (-170141183460469231731687303715884105728) = some r ∧ Extracted.decrement_i128 (-170141183460469231731687303715884105728) (-170141183460469231731687303715884105728) = .ok (ofModel id r) :=
  decrement_i128_eq _ _ (by decide)

/-! ### `char` -/

/-- the two model copies of `chr::from_u32` (`Konst.Chr.fromU32` with `||`/`&&`, `Konst.Range.fromU32` with `∨`/`∧`) agree -/
theorem chr_fromU32_eq_range (n : Nat) : Konst.Chr.fromU32 n = Konst.Range.fromU32 n := by
  unfold Konst.Chr.fromU32 Konst.Range.fromU32
  by_cases h : n < 0xD800 ∨ (0xE000 ≤ n ∧ n ≤ 0x10FFFF)
  · have h' : (decide (n < 0xD800) || (decide (0xE000 ≤ n) && decide (n ≤ 0x10FFFF))) = true := by simpa using h
    rw [if_pos h', if_pos h]
  · have h' : ¬ ((decide (n < 0xD800) || (decide (0xE000 ≤ n) && decide (n ≤ 0x10FFFF))) = true) := by simpa using h
    rw [if_neg h', if_neg h]

theorem from_u32_range (n : Nat) : Extracted.from_u32 n = .ok (Konst.Range.fromU32 n) := by
  rw [from_u32_eq, chr_fromU32_eq_range]

/-- `Option` (model, `none` = panic) as a `Res` -/
def resOfModel {α T : Type} (f : α → T) : Option (Konst.Range.StepRet α) → Res (Extracted.StepRet T)
  | some r => .ok (ofModel f r)
  | none => .panic

@[simp] theorem resOfModel_some {α T : Type} (f : α → T) (r : Konst.Range.StepRet α) :
    resOfModel f (some r) = .ok (ofModel f r) := rfl
@[simp] theorem resOfModel_none {α T : Type} (f : α → T) :
    resOfModel f (none : Option (Konst.Range.StepRet α)) = .panic := rfl

/-- `increment::<char>` for arbitrary `Nat` arguments (no hypothesis): `.ok` of the model's record when the model
    returns `some`, `.panic` exactly when the model says `none` (`opt_unwrap!` of `from_u32(start + 1) = None`, or,
    for `start + 1 ≥ 2^32` — not a `char` — the checked `num + 1`). -/
theorem increment_char_eq' (start end_ : Nat) :
    Extracted.increment_char start end_ = resOfModel id (charIncrement start end_) := by
  unfold Extracted.increment_char charIncrement
  by_cases h1 : start = 55295
  · subst h1; simp [from_u32_range, fromU32, ofModel]
  · by_cases h2 : start = 1114111
    · subst h2; simp [from_u32_range, fromU32, ofModel]
    · by_cases h3 : start + 1 < 2 ^ 32
      · simp only [id, h1, h2, decide_false, Bool.false_eq_true, ↓reduceIte, Rs.uadd, h3, Ctl.bind_eq, Ctl.bind_val,
          Ctl.pure_eq, from_u32_range, Ctl.call_ok]
        cases hf : fromU32 (start + 1) <;> simp [ofModel]
      · have hn : fromU32 (start + 1) = none := by
          unfold fromU32; rw [if_neg]; omega
        simp [h1, h2, Rs.uadd, h3, hn]

/-- `increment::<char>` for every `start : char` (a scalar value): the model's `none` is unreachable -/
theorem increment_char_eq (start end_ : Nat) (hs : start < 0xD800 ∨ (0xE000 ≤ start ∧ start ≤ 0x10FFFF)) :
    ∃ r, charIncrement start end_ = some r ∧ Extracted.increment_char start end_ = .ok (ofModel id r) := by
  have hsome : ∃ r, charIncrement start end_ = some r := by
    unfold charIncrement
    by_cases h1 : start = 55295
    · subst h1; simp [fromU32]
    · by_cases h2 : start = 1114111
      · subst h2; simp [fromU32]
      · have hf : fromU32 (start + 1) = some (start + 1) := by
          unfold fromU32; rw [if_pos]; omega
        simp [h1, h2, hf]
  obtain ⟨r, hr⟩ := hsome
  exact ⟨r, hr, by rw [increment_char_eq', hr]; rfl⟩

example : Extracted.increment_char 0x41 0x5A = .ok ⟨false, false, false, 0x42⟩ := by decide
example : Extracted.increment_char 0xD7FF 0 = .ok ⟨true, true, false, 0xE000⟩ := by decide
example : Extracted.increment_char 0x10FFFF 0x10FFFF = .ok ⟨false, true, true, 0⟩ := by decide
example : Extracted.increment_char 0xD800 0 = .panic := by decide          -- not a `char`
example : charIncrement 0xD800 0 = none := by decide
example : ∃ r, charIncrement 0xD7FF 0xE000 = some r ∧ Extracted.increment_char 0xD7FF 0xE000 = .ok (ofModel id r) :=
  increment_char_eq _ _ (by decide)
example : ∃ r, charIncrement 0x10FFFF 0 = some r ∧ Extracted.increment_char 0x10FFFF 0 = .ok (ofModel id r) :=
  increment_char_eq _ _ (by decide)

/-- `decrement::<char>` for arbitrary `Nat` arguments (no hypothesis); `.panic` exactly when the model says `none`
    (`opt_unwrap!` of `from_u32(end - 1) = None`) -/
theorem decrement_char_eq' (start end_ : Nat) :
    Extracted.decrement_char start end_ = resOfModel id (charDecrement start end_) := by
  unfold Extracted.decrement_char charDecrement
  by_cases h1 : end_ = 0
  · subst h1; simp [from_u32_range, fromU32, ofModel]
  · by_cases h2 : end_ = 57344
    · subst h2; simp [from_u32_range, fromU32, ofModel]
    · have h3 : 1 ≤ end_ := by omega
      simp only [id, h1, h2, decide_false, Bool.false_eq_true, ↓reduceIte, Rs.usub, h3, Ctl.bind_eq, Ctl.bind_val,
        Ctl.pure_eq, from_u32_range, Ctl.call_ok]
      cases hf : fromU32 (end_ - 1) <;> simp [ofModel]

/-- `decrement::<char>` for every `end_ : char` (a scalar value): the model's `none` is unreachable -/
theorem decrement_char_eq (start end_ : Nat) (he : end_ < 0xD800 ∨ (0xE000 ≤ end_ ∧ end_ ≤ 0x10FFFF)) :
    ∃ r, charDecrement start end_ = some r ∧ Extracted.decrement_char start end_ = .ok (ofModel id r) := by
  have hsome : ∃ r, charDecrement start end_ = some r := by
    unfold charDecrement
    by_cases h1 : end_ = 0
    · subst h1; simp [fromU32]
    · by_cases h2 : end_ = 57344
      · subst h2; simp [fromU32]
      · have hf : fromU32 (end_ - 1) = some (end_ - 1) := by
          unfold fromU32; rw [if_pos]; omega
        simp [h1, h2, hf]
  obtain ⟨r, hr⟩ := hsome
  exact ⟨r, hr, by rw [decrement_char_eq', hr]; rfl⟩

example : Extracted.decrement_char 0x41 0x5A = .ok ⟨false, false, false, 0x59⟩ := by decide
example : Extracted.decrement_char 0 0xE000 = .ok ⟨false, false, false, 0xD7FF⟩ := by decide
example : Extracted.decrement_char 0 0 = .ok ⟨false, true, true, 0x10FFFF⟩ := by decide
example : Extracted.decrement_char 0 0xE001 = .ok ⟨false, false, false, 0xE000⟩ := by decide
example : Extracted.decrement_char 0 0xDC00 = .panic := by decide          -- not a `char`
example : charDecrement 0 0xDC00 = none := by decide
example : ∃ r, charDecrement 0x10FFFF 0xE000 = some r ∧ Extracted.decrement_char 0x10FFFF 0xE000 = .ok (ofModel id r) :=
  decrement_char_eq _ _ (by decide)
example : ∃ r, charDecrement 0x10FFFF 0 = some r ∧ Extracted.decrement_char 0x10FFFF 0 = .ok (ofModel id r) :=
  decrement_char_eq _ _ (by decide)

end Extracted.Equiv
