import KonstVerif.Extracted.Gen.SliceConcat
import KonstVerif.Extracted.Equiv.SliceFns
import KonstVerif.Extracted.Equiv.Concat
/-
  Extracted (regenerated from /repo) = Model, for the const fns behind `slice::slice_concat!` (C20), generic in
  the element type: `konst_kernel::slice::slice_for_konst::{concat_sum_lengths, first_elem, concat_slices}`
  (generated names `slice_concat_sum_lengths`, `slice_first_elem`, `slice_concat_slices`) against the model's
  `sliceConcatSumLengths`, `firstElem`, `concatSlices` (`Model/Concat.lean`).

  As in `Equiv/Concat.lean`: `extracted = outToRes (model)`, i.e. `.ok v` exactly when the model says `.ok v`,
  `.panic` exactly when the model says `.panic _`; never `ub`/`nofuel`.  The byte-copy loop lemma
  `cc_write_loop` of `Equiv/Concat.lean` is generic in the element type and is reused here.
-/
namespace Extracted.Equiv
open Rs Konst Konst.Concat

variable {T : Type}

/-! ## `concat_sum_lengths` -/

def sc_ctl2 {ε : Type} (len : Nat) : Out Nat → Ctl ε (Nat × Nat)
  | .ok s => .val (len, s)
  | .panic _ => .panic

/-- the `for_range!` loop of `slice::concat_sum_lengths` from any state -/
theorem sc_sum_loop (n : Nat) (slices : List (List T)) (i sum : Nat) (hl : slices.length < 2 ^ 64)
    (hi : i ≤ slices.length) (hn : slices.length - i + 1 ≤ n) :
    Rs.loop n (Extracted.slice_concat_sum_lengths.loop1 T slices.length slices) (i, sum)
      = sc_ctl2 slices.length (sliceSumLoop (slices.drop i) sum) := by
  induction n generalizing i sum with
  | zero => omega
  | succ n ih =>
    rw [Rs.loop_succ]
    by_cases hc : i < slices.length
    · have h1 : i + 1 < 2 ^ 64 := by omega
      rw [List.drop_eq_getElem_cons hc]
      simp only [Extracted.slice_concat_sum_lengths.loop1, hc, decide_true, ↓reduceIte, Rs.uadd, h1, Ctl.bind_eq,
        Ctl.bind_val, Rs.index, List.getElem?_eq_getElem hc, sliceSumLoop, ckAdd, USIZE, Ctl.pure_eq]
      by_cases hs : sum + slices[i].length < 2 ^ 64
      · simp only [hs, ↓reduceIte, Ctl.bind_val, Out.ok_bind]
        exact ih (i := i + 1) (sum := sum + slices[i].length) (by omega) (by omega)
      · simp only [hs, ↓reduceIte, Ctl.bind_panic, Out.panic_bind, sc_ctl2]
    · have : i = slices.length := by omega
      subst this
      simp [Extracted.slice_concat_sum_lengths.loop1, sliceSumLoop, sc_ctl2]

/-- `slice::concat_sum_lengths`: the sum of the lengths, or a panic (`sum += …` overflows) exactly when the model
    says so -/
theorem slice_concat_sum_lengths_eq (fuel : Nat) (slices : List (List T))
    (hl : slices.length < 2 ^ 64) (hf : slices.length + 1 ≤ fuel) :
    Extracted.slice_concat_sum_lengths fuel slices = outToRes (sliceConcatSumLengths slices) := by
  unfold Extracted.slice_concat_sum_lengths sliceConcatSumLengths
  have := sc_sum_loop fuel slices 0 0 hl (by omega) (by omega)
  rw [List.drop_zero] at this
  simp only [this]
  cases sliceSumLoop slices 0 <;> simp [sc_ctl2]

example : Extracted.slice_concat_sum_lengths 4 [[1, 2], [], [3, 4, 5]] = .ok 5 := by
  rw [slice_concat_sum_lengths_eq 4 _ (by decide) (by decide)]; rfl

/-! ## `first_elem` -/

/-- the search loop of `first_elem`: `return first` at the first non-empty slice, falls out at the end otherwise -/
theorem sc_first_loop (n : Nat) (slices : List (List T)) (i : Nat) (hl : slices.length < 2 ^ 64)
    (hi : i ≤ slices.length) (hn : slices.length - i + 1 ≤ n) :
    Rs.loop n (Extracted.slice_first_elem.loop1 T slices.length slices) i
      = match firstElem (slices.drop i) with
        | .ok x => Ctl.exit x
        | .panic _ => Ctl.val slices.length := by
  induction n generalizing i with
  | zero => omega
  | succ n ih =>
    rw [Rs.loop_succ]
    by_cases hc : i < slices.length
    · have h1 : i + 1 < 2 ^ 64 := by omega
      rw [List.drop_eq_getElem_cons hc]
      simp only [Extracted.slice_first_elem.loop1, hc, decide_true, ↓reduceIte, Rs.uadd, h1, Ctl.bind_eq,
        Ctl.bind_val, Rs.index, List.getElem?_eq_getElem hc, Ctl.pure_eq]
      cases hx : slices[i] with
      | nil =>
        simp only [firstElem, Ctl.bind_val]
        exact ih (i := i + 1) (by omega) (by omega)
      | cons x r => simp [firstElem]
    · have : i = slices.length := by omega
      subst this
      simp [Extracted.slice_first_elem.loop1, firstElem]

/-- `first_elem`: the first element of the first non-empty slice, the panic "there was no element in any slice"
    exactly when the model says `Panic.noElem` -/
theorem slice_first_elem_eq (fuel : Nat) (slices : List (List T))
    (hl : slices.length < 2 ^ 64) (hf : slices.length + 1 ≤ fuel) :
    Extracted.slice_first_elem fuel slices = outToRes (firstElem slices) := by
  unfold Extracted.slice_first_elem
  have := sc_first_loop fuel slices 0 hl (by omega) (by omega)
  rw [List.drop_zero] at this
  simp only [this]
  cases firstElem slices <;> simp [Ctl.run]

example : Extracted.slice_first_elem 4 [[], [], [7, 8]] = .ok 7 := by
  rw [slice_first_elem_eq 4 _ (by decide) (by decide)]; rfl
example : Extracted.slice_first_elem 3 [([] : List Nat), []] = .panic := by
  rw [slice_first_elem_eq 3 _ (by decide) (by decide)]; rfl

/-! ## `concat_slices` -/

theorem sc_concat_loop2 (N end_ : Nat) (slice : List T) :
    Extracted.slice_concat_slices.loop2 T N end_ slice = cc_wbody end_ slice := rfl

/-- the outer loop of `concat_slices` (`F` = fuel handed to the inner loops) -/
theorem sc_concat_loop1 (N F n : Nat) (ss : List (List T)) (i : Nat) (out : List T) (oi : Nat)
    (hl : ss.length < 2 ^ 64) (hN : out.length < 2 ^ 64) (hF : ∀ s ∈ ss, s.length + 1 ≤ F)
    (hi : i ≤ ss.length) (hn : ss.length - i + 1 ≤ n) :
    Rs.loop n (Extracted.slice_concat_slices.loop1 T N F ss.length ss) (i, out, oi)
      = cc_ctl3 ss.length (sliceFillLoop (ss.drop i) out oi) := by
  induction n generalizing i out oi with
  | zero => omega
  | succ n ih =>
    rw [Rs.loop_succ]
    by_cases hc : i < ss.length
    · have h1 : i + 1 < 2 ^ 64 := by omega
      have hlen : ss[i].length + 1 ≤ F := hF _ (List.getElem_mem hc)
      rw [List.drop_eq_getElem_cons hc]
      simp only [Extracted.slice_concat_slices.loop1, hc, decide_true, ↓reduceIte, Rs.uadd, h1, Ctl.bind_eq,
        Ctl.bind_val, Rs.index, List.getElem?_eq_getElem hc, sc_concat_loop2, cc_write_block F _ out oi hN hlen,
        sliceFillLoop, Ctl.pure_eq]
      cases hw : writeBytes ss[i] out oi with
      | panic p => simp
      | ok r =>
        obtain ⟨o, k⟩ := r
        have ho := (cc_writeBytes_length _ _ _ _ _ hw).1
        simp only [cc_ctl3_ok, Ctl.bind_val, Out.ok_bind]
        exact ih (i := i + 1) (out := o) (oi := k) (by omega) (by omega) (by omega)
    · have : i = ss.length := by omega
      subst this
      simp [Extracted.slice_concat_slices.loop1, sliceFillLoop]

/-- `concat_slices::<T, N>`, for every `N : usize`: `N = 0` returns the empty array without looking at the slices
    (the `try_into_array_func::<T, N>(&[])` early return); otherwise `[*first_elem(slices); N]` is filled by index:
    the panic of `first_elem` (all slices empty) and the panic at `out[out_i] = …` (`N` smaller than the total
    length) exactly when the model says so -/
theorem slice_concat_slices_eq (N fuel : Nat) (slices : List (List T)) (hN : N < 2 ^ 64)
    (hl : slices.length < 2 ^ 64) (hf : slices.length + 1 ≤ fuel) (hfs : ∀ s ∈ slices, s.length + 1 ≤ fuel) :
    Extracted.slice_concat_slices N fuel slices = outToRes (concatSlices N slices) := by
  unfold Extracted.slice_concat_slices concatSlices
  rw [try_into_array_func_eq]
  by_cases h0 : 0 = N
  · subst h0
    simp [Konst.Slice.tryIntoArray, View.apply]
  · have h0' : ¬ ([] : List T).length = N := by simpa using h0
    simp only [Konst.Slice.tryIntoArray, h0', h0, ↓reduceIte, Ctl.call_ok, Ctl.bind_eq, Ctl.bind_val, Ctl.pure_eq,
      slice_first_elem_eq fuel slices hl hf]
    cases firstElem slices with
    | panic p => simp
    | ok x =>
      have := sc_concat_loop1 N fuel fuel slices 0 (List.replicate N x) 0 hl (by simpa using hN) hfs
        (by omega) (by omega)
      rw [List.drop_zero] at this
      simp only [outToRes_ok, Ctl.call_ok, Ctl.bind_val, Rs.repeatN, this, Out.ok_bind]
      cases sliceFillLoop slices (List.replicate N x) 0 with
      | panic p => simp
      | ok r => obtain ⟨o, k⟩ := r; simp

example : Extracted.slice_concat_slices 5 4 [[1, 2], [], [3, 4, 5]] = .ok [1, 2, 3, 4, 5] := by
  rw [slice_concat_slices_eq 5 4 _ (by decide) (by decide) (by decide) (by decide)]; rfl
example : Extracted.slice_concat_slices 7 4 [[], [1, 2], [3, 4, 5]] = .ok [1, 2, 3, 4, 5, 1, 1] := by
  rw [slice_concat_slices_eq 7 4 _ (by decide) (by decide) (by decide) (by decide)]; rfl
example : Extracted.slice_concat_slices 4 4 [[1, 2], [], [3, 4, 5]] = .panic := by
  rw [slice_concat_slices_eq 4 4 _ (by decide) (by decide) (by decide) (by decide)]; rfl
example : Extracted.slice_concat_slices 0 1 [[1, 2], [], [3, 4, 5]] = .ok [] := by rfl
example : Extracted.slice_concat_slices 2 3 [([] : List Nat), []] = .panic := by
  rw [slice_concat_slices_eq 2 3 _ (by decide) (by decide) (by decide) (by decide)]; rfl

/-! ## corollaries: closed forms and std level (via `Props/C20.lean`, `Lemmas/Concat.lean`) -/

open Konst.Spec.Concat Konst.Props.C20 Konst.Lemmas.Concat

/-- `concat_sum_lengths` = the length of `slices.concat()` when it fits a `usize` … -/
theorem slice_concat_sum_lengths_total (fuel : Nat) (slices : List (List T))
    (hl : slices.length < 2 ^ 64) (hf : slices.length + 1 ≤ fuel) (ht : slices.flatten.length < 2 ^ 64) :
    Extracted.slice_concat_sum_lengths fuel slices = .ok slices.flatten.length := by
  rw [slice_concat_sum_lengths_eq fuel slices hl hf, sliceConcatSumLengths, sliceSumLoop_eq slices 0 (by decide),
    Nat.zero_add, if_pos (by simpa [USIZE] using ht)]
  rfl

/-- … and panics (arithmetic overflow) otherwise -/
theorem slice_concat_sum_lengths_overflow (fuel : Nat) (slices : List (List T))
    (hl : slices.length < 2 ^ 64) (hf : slices.length + 1 ≤ fuel) (ht : ¬ slices.flatten.length < 2 ^ 64) :
    Extracted.slice_concat_sum_lengths fuel slices = .panic := by
  rw [slice_concat_sum_lengths_eq fuel slices hl hf, sliceConcatSumLengths, sliceSumLoop_eq slices 0 (by decide),
    Nat.zero_add, if_neg (by simpa [USIZE] using ht)]
  rfl

/-- `first_elem` = the head of the concatenation; panics iff every slice is empty -/
theorem slice_first_elem_head (fuel : Nat) (slices : List (List T))
    (hl : slices.length < 2 ^ 64) (hf : slices.length + 1 ≤ fuel) :
    Extracted.slice_first_elem fuel slices
      = match slices.flatten.head? with
        | some x => .ok x
        | none => .panic := by
  rw [slice_first_elem_eq fuel slices hl hf, firstElem_eq]
  cases slices.flatten.head? <;> rfl

/-- `concat_slices::<T, LEN>` with `LEN` = the total length (what `slice_concat!` instantiates): `slices.concat()` -/
theorem slice_concat_slices_exact (fuel : Nat) (slices : List (List T)) (hN : slices.flatten.length < 2 ^ 64)
    (hl : slices.length < 2 ^ 64) (hf : slices.length + 1 ≤ fuel) (hfs : ∀ s ∈ slices, s.length + 1 ≤ fuel) :
    Extracted.slice_concat_slices slices.flatten.length fuel slices = .ok (stdConcat slices) := by
  rw [slice_concat_slices_eq _ fuel slices hN hl hf hfs, concatSlices_eq]
  rfl

/-- `concat_slices::<T, N>` with `0 < N`, `N ≥` the total length, some element `x` first: `slices.concat()` padded
    with copies of the first element -/
theorem slice_concat_slices_padded (N fuel : Nat) (slices : List (List T)) (x : T) (hN : N < 2 ^ 64)
    (hl : slices.length < 2 ^ 64) (hf : slices.length + 1 ≤ fuel) (hfs : ∀ s ∈ slices, s.length + 1 ≤ fuel)
    (h0 : N ≠ 0) (hx : slices.flatten.head? = some x) (ht : slices.flatten.length ≤ N) :
    Extracted.slice_concat_slices N fuel slices
      = .ok (slices.flatten ++ List.replicate (N - slices.flatten.length) x) := by
  rw [slice_concat_slices_eq N fuel slices hN hl hf hfs, concatSlices_general, if_neg h0, hx]
  simp only [if_pos ht]
  rfl

/-- `concat_slices::<T, N>` with `N <` the total length panics (index out of bounds at `out[out_i] = …`) -/
theorem slice_concat_slices_too_small (N fuel : Nat) (slices : List (List T)) (hN : N < 2 ^ 64)
    (hl : slices.length < 2 ^ 64) (hf : slices.length + 1 ≤ fuel) (hfs : ∀ s ∈ slices, s.length + 1 ≤ fuel)
    (h0 : N ≠ 0) (ht : N < slices.flatten.length) :
    Extracted.slice_concat_slices N fuel slices = .panic := by
  rw [slice_concat_slices_eq N fuel slices hN hl hf hfs, concatSlices_general, if_neg h0]
  cases hx : slices.flatten.head? with
  | none => rfl
  | some x =>
    simp only [if_neg (show ¬ slices.flatten.length ≤ N by omega)]
    rfl

/-- `concat_slices::<T, 0>` returns `[]` whatever the slices are (even non-empty: the early return comes first) -/
theorem slice_concat_slices_zero (fuel : Nat) (slices : List (List T)) :
    Extracted.slice_concat_slices 0 fuel slices = .ok [] := by
  unfold Extracted.slice_concat_slices
  rw [try_into_array_func_eq]
  simp [Konst.Slice.tryIntoArray, View.apply]

/-- `concat_slices::<T, N>` with `N > 0` and only empty slices: the panic of `first_elem` -/
theorem slice_concat_slices_no_elem (N fuel : Nat) (slices : List (List T)) (hN : N < 2 ^ 64)
    (hl : slices.length < 2 ^ 64) (hf : slices.length + 1 ≤ fuel) (hfs : ∀ s ∈ slices, s.length + 1 ≤ fuel)
    (h0 : N ≠ 0) (hx : slices.flatten = []) :
    Extracted.slice_concat_slices N fuel slices = .panic := by
  rw [slice_concat_slices_eq N fuel slices hN hl hf hfs, concatSlices_general, if_neg h0, hx]
  rfl

example : Extracted.slice_concat_slices 5 4 [[1, 2], [], [3, 4, 5]] = .ok [1, 2, 3, 4, 5] :=
  slice_concat_slices_exact 4 [[1, 2], [], [3, 4, 5]] (by decide) (by decide) (by decide) (by decide)

end Extracted.Equiv
